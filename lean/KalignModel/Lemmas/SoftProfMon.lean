import KalignModel.Lemmas.SoftMeetU
import KalignModel.Lemmas.ProfTab
import KalignModel.Lemmas.SoftMul
import KalignModel.Lemmas.SoftMon
/-!
# The Hirschberg monitor on the software binary32: profile operands with bounded entries

The sequence–profile and profile–profile kernels read profile entries (`pget`) and multiply them; with the entries of the prepared
operand profiles finite and bounded (`EntBnd`) and a unit `2^u` that dominates every increment (`ProfUnit`), the cell formulas
respect the value classes (`spOpsF_rel`, `ppOpsF_rel`, …: `OpsRelU`), and the argument of `Lemmas/SoftMon.lean` goes through
unchanged (`step_contract_gen`, `profKernels_stepMon`, `prof_alnRun_mon`).
-/
set_option exponentiation.threshold 512
namespace Kalign
open SoftF32

/-- **one level of the recursion, any kernel family**: cell lists given as tables whose cell formulas correspond to the exact
kernel's, a meetup whose penalty terms keep the classes, bounded tie-break terms; on a feasible rectangle the meetup's answer
satisfies the contract and both sub-rectangles are feasible again -/
theorem step_contract_gen (u C : Nat) (hu : u ≤ 79)
    (gF gB : Nat → SoftF32 → SoftF32 → SoftF32) (oF oB : Nat → RowOps SoftF32) (mops : MeetOps SoftF32)
    (startF startB : States SoftF32) (fk bk : Kind) (sa m1 m2 sb n : Nat)
    (hgF : GaRelU u C gF (absGaInit (cZ n))) (hoF : ∀ p, OpsRelU u C (oF p) (absOps (cZ n) p))
    (hgB : GaRelU u C gB (absGaInit (cZ n))) (hoB : ∀ p, OpsRelU u C (oB p) (absOps (cZ n) p))
    (hm : MeetOpsBndU u mops)
    (htie : ∀ k, k ≤ n → absLe (Score.tie (sb : Int) ((sb + n : Nat) : Int) ((sb + k : Nat) : Int) : SoftF32) (1 * 2 ^ u))
    (hlen : C * (m1 + m2 + 2 * n) + 2 * C + 2 < 16777216) (hm2 : 1 ≤ m2) (hn : 1 ≤ n)
    (hfeas : Feas fk bk (m1 + m2) n)
    (hsF : StClsU u 0 startF (hot fk)) (hsB : StClsU u 0 startB (hot bk)) :
    let r := meetupRun mops sb (sb + n) ((List.range (n + 1)).map (genTab gF n startF oF m1))
      ((List.range (n + 1)).map (genTab gB n startB oB m2)).reverse
    meetupContract fk bk (sa : Int) ((sa + m1 + m2 : Nat) : Int) (sb : Int) ((sb + n : Nat) : Int)
        ((sa + m1 : Nat) : Int) r.meet r.transition = true ∧
    ChildrenFeas fk bk (sa : Int) ((sa + m1 + m2 : Nat) : Int) (sb : Int) ((sb + n : Nat) : Int)
        ((sa + m1 : Nat) : Int) r.meet r.transition := by
  intro r
  have hCm1 : C * (m1 + n) ≤ C * (m1 + m2 + 2 * n) := Nat.mul_le_mul_left _ (by omega)
  have hCm2 : C * (m2 + n) ≤ C * (m1 + m2 + 2 * n) := Nat.mul_le_mul_left _ (by omega)
  have hCsum : C * (m1 + n) + C * (m2 + n) = C * (m1 + m2 + 2 * n) := by
    rw [← Nat.mul_add]; congr 1; omega
  have hcF := genTab_clsU u C gF (absGaInit (cZ n)) hgF n startF (hot fk) oF (absOps (cZ n)) hoF 0 (m1 + n)
    (by omega) hsF m1
  have hcB := genTab_clsU u C gB (absGaInit (cZ n)) hgB n startB (hot bk) oB (absOps (cZ n)) hoB 0 (m2 + n)
    (by omega) hsB m2
  have hcells : ∀ k, k ≤ n →
      StClsU u (C * (m1 + n)) (genTab gF n startF oF m1 k) (absTab (cZ n) (hot fk) m1 k) ∧
      StClsU u (C * (m2 + n)) (genTab gB n startB oB m2 (n - k)) (absTab (cZ n) (hot bk) m2 (n - k)) ∧
      absLe (Score.tie (sb : Int) ((sb + n : Nat) : Int) ((sb + k : Nat) : Int) : SoftF32) (1 * 2 ^ u) := by
    intro k hk
    refine ⟨?_, ?_, htie k hk⟩
    · have := hcF k (by omega)
      rw [Nat.zero_add] at this
      exact this.mono (Nat.mul_le_mul_left _ (by omega))
    · have := hcB (n - k) (by omega)
      rw [Nat.zero_add] at this
      exact this.mono (Nat.mul_le_mul_left _ (by omega))
  have hmeet := meetupRun_clsU u hu mops hm sb (sb + n) n (C * (m1 + n)) (C * (m2 + n))
    _ _ (fun k => absTab (cZ n) (hot fk) m1 k) (fun k => absTab (cZ n) (hot bk) m2 (n - k)) (by omega) hcells
  have hr : r = meetupRun mops sb (sb + n) ((List.range (n + 1)).map (genTab gF n startF oF m1))
      ((List.range (n + 1)).map (fun k => genTab gB n startB oB m2 (n - k))) := by
    show meetupRun _ _ _ _ _ = _
    rw [map_range_reverse]
  rw [← hr] at hmeet
  obtain ⟨k0, t0, hadm0, hf0, hb0⟩ := feas_has_candidate (cZ n) (cZ n) hn rfl fk bk m1 m2 hm2 hfeas
  have hfin0 : finAt (fun k => absTab (cZ n) (hot fk) m1 k) (fun k => absTab (cZ n) (hot bk) m2 (n - k)) sb t0 (sb + k0) = true := by
    unfold finAt
    rw [Nat.add_sub_cancel_left]
    simp only [Bool.and_eq_true]
    exact ⟨isSome_of_ne_none hf0, isSome_of_ne_none hb0⟩
  rcases hmeet with ⟨k, t, hadm, hfin, hmm, ht⟩ | ⟨_, hnone⟩
  · unfold finAt at hfin
    rw [Nat.add_sub_cancel_left] at hfin
    simp only [Bool.and_eq_true] at hfin
    have := candidate_contract (cZ n) (cZ n) hn rfl fk bk sa sb m1 m2 hm2 k t hadm (ne_none_of_isSome hfin.1)
      (ne_none_of_isSome hfin.2)
    rw [hmm, ht]
    exact this
  · have := hnone k0 t0 hadm0
    rw [hfin0] at this
    exact absurd this (by decide)

end Kalign

namespace Kalign
open SoftF32

/-! ## bounded profile entries -/

/-- entries of a prepared operand profile: finite, at most `Ng` in the gap-penalty slots 27..29 of every column and at most `Nc`
elsewhere (reads outside the array give `0`) -/
def EntBnd (Nc Ng : Nat) (q : Array SoftF32) : Prop :=
  ∀ i, absLe (q.getD i Score.zero) (if i % 64 = 27 ∨ i % 64 = 28 ∨ i % 64 = 29 then Ng else Nc)

theorem EntBnd.gap {Nc Ng : Nat} {q : Array SoftF32} (h : EntBnd Nc Ng q) (col k : Nat) (hk : k = 27 ∨ k = 28 ∨ k = 29) :
    absLe (pget q col k) Ng := by
  have := h (64 * col + k)
  rwa [if_pos (by omega)] at this

theorem EntBnd.other {Nc Ng : Nat} {q : Array SoftF32} (h : EntBnd Nc Ng q) (col k : Nat) (hk64 : k < 64)
    (hk : ¬ (k = 27 ∨ k = 28 ∨ k = 29)) : absLe (pget q col k) Nc := by
  have := h (64 * col + k)
  rwa [if_neg (by omega)] at this

theorem EntBnd.any {Nc Ng N : Nat} {q : Array SoftF32} (h : EntBnd Nc Ng q) (hNc : Nc ≤ N) (hNg : Ng ≤ N) (col k : Nat) :
    absLe (pget q col k) N := by
  have := h (64 * col + k)
  split at this
  · exact this.mono hNg
  · exact this.mono hNc

/-- a value bounded by `N ≤ 2^u` is one unit -/
theorem clsU_unit {u N : Nat} {x : SoftF32} (h : absLe x N) (hN : N ≤ 2 ^ u) : ClsU u 1 x true := by
  rw [clsU_true, Nat.one_mul]; exact h.mono hN

theorem absLe_unit' {u N : Nat} {x : SoftF32} (h : absLe x N) (hN : N ≤ 2 ^ u) : absLe x (1 * 2 ^ u) := by
  rw [Nat.one_mul]; exact h.mono hN

/-- adding one unit -/
theorem clsU_add_unit {u : Nat} (hu : u ≤ 79) {x y : SoftF32} {B N : Nat} {p : Bool} (hx : ClsU u B x p) (hy : absLe y N)
    (hN : N ≤ 2 ^ u) (hB : B + 1 < 16777216) : ClsU u (B + 1) (Score.add x y) p := by
  have := clsU_add hu hx (clsU_unit hy hN) hB
  rwa [Bool.and_true] at this

theorem clsU_sub_unit {u : Nat} (hu : u ≤ 79) {x y : SoftF32} {B N : Nat} {p : Bool} (hx : ClsU u B x p) (hy : absLe y N)
    (hN : N ≤ 2 ^ u) (hB : B + 1 < 16777216) : ClsU u (B + 1) (Score.sub x y) p :=
  clsU_sub_pen hu (B' := 1) hx (absLe_unit' hy hN) hB

/-- `MAX(gb + prof[28], ca + prof[27])` / `MAX(gb, ca) + prof[29]` -/
theorem profGb_clsU {u : Nat} (hu : u ≤ 79) {Nc Ng : Nat} {q : Array SoftF32} (hq : EntBnd Nc Ng q) (hNg : Ng ≤ 2 ^ u)
    (col : Nat) (term : Bool) (B : Nat) (x y : SoftF32) (p r : Bool) (hB : B + 1 < 16777216)
    (hx : ClsU u B x p) (hy : ClsU u B y r) : ClsU u (B + 1) (profGb q col term x y) (p || r) := by
  unfold profGb
  cases term
  · simp only [Bool.false_eq_true, if_false]
    exact clsU_smax hu (clsU_add_unit hu hx (hq.gap col 28 (by omega)) hNg hB)
      (clsU_add_unit hu hy (hq.gap col 27 (by omega)) hNg hB) (by omega)
  · simp only [if_true]
    exact clsU_add_unit hu (clsU_smax hu hx hy (by omega)) (hq.gap col 29 (by omega)) hNg hB

/-! ## sequence–profile -/

/-- what the sequence–profile kernels need: bounded profile entries, bounded scaled penalties -/
structure SpBnd (u Nc Ng : Nat) (ap : AlnParam SoftF32) (prof1 : Array SoftF32) (sip : Nat) : Prop where
  hu : u ≤ 79
  ent : EntBnd Nc Ng prof1
  hNc : Nc ≤ 2 ^ u
  hNg : Ng ≤ 2 ^ u
  pen1 : absLe (spPen ap sip).1 (1 * 2 ^ u)
  pen2 : absLe (spPen ap sip).2.1 (1 * 2 ^ u)
  pen3 : absLe (spPen ap sip).2.2 (1 * 2 ^ u)

theorem spGaInit_clsU {u : Nat} (hu : u ≤ 79) {o e t : SoftF32} (ho : absLe o (1 * 2 ^ u)) (he : absLe e (1 * 2 ^ u))
    (ht : absLe t (1 * 2 ^ u)) (term : Bool) (k B : Nat) (x y : SoftF32) (p q : Bool) (hB : B + 1 < 16777216)
    (hx : ClsU u B x p) (hy : ClsU u B y q) : ClsU u (B + 1) (spGaInit o e t term k x y) (p || q) := by
  unfold spGaInit
  cases term
  · simp only [Bool.false_eq_true, if_false]
    exact clsU_smax hu (clsU_sub_pen hu (B' := 1) hx he hB) (clsU_sub_pen hu (B' := 1) hy ho hB) (by omega)
  · simp only [if_true]
    exact clsU_sub_pen hu (B' := 1) (clsU_smax hu hx hy (by omega)) ht hB

theorem sp_aCell_clsU {u : Nat} (hu : u ≤ 79) {o g s : SoftF32} {Ng Nc : Nat} (ho : absLe o (1 * 2 ^ u))
    (hg : absLe g Ng) (hNg : Ng ≤ 2 ^ u) (hs : absLe s Nc) (hNc : Nc ≤ 2 ^ u) (B : Nat) (x y z : SoftF32) (p q r : Bool)
    (hB : B + 2 < 16777216) (hx : ClsU u B x p) (hy : ClsU u B y q) (hz : ClsU u B z r) :
    ClsU u (B + 2) (Score.add (smax3 x (Score.sub y o) (Score.add z g)) s) (p || q || r) := by
  have hy' : ClsU u (B + 1) (Score.sub y o) q := clsU_sub_pen hu (B' := 1) hy ho (by omega)
  have hz' : ClsU u (B + 1) (Score.add z g) r := clsU_add_unit hu hz hg hNg (by omega)
  have hx' : ClsU u (B + 1) x p := hx.mono (by omega)
  have h1 : ClsU u (B + 1) (smax3 x (Score.sub y o) (Score.add z g)) (p || q || r) := clsU_smax3 hu hx' hy' hz' (by omega)
  exact clsU_add_unit hu h1 hs hNc (by omega)

theorem spOpsF_rel {u Nc Ng : Nat} {ap : AlnParam SoftF32} {prof1 : Array SoftF32} {sip : Nat} (h : SpBnd u Nc Ng ap prof1 sip)
    (seq2 : Array Nat) (r : Rect) (c : KCfg) (p : Nat) : OpsRelU u 1 (spOpsF ap prof1 seq2 sip r p) (absOps c p) := by
  refine ⟨?_, ?_, ?_, ?_, ?_⟩
  · intro B x y ex ey hB hx hy
    simp only [spOpsF, absOps, gGap_isSome]
    exact profGb_clsU h.hu h.ent h.hNg _ _ B x y _ _ (by omega) hx hy
  · intro k B x y z ex ey ez hB hx hy hz
    simp only [spOpsF, absOps, gAl_isSome]
    exact sp_aCell_clsU h.hu h.pen1 (h.ent.gap _ 27 (by omega)) h.hNg (h.ent.any h.hNc h.hNg _ _) (Nat.le_refl _) B x y z _ _ _
      (by omega) hx hy hz
  · intro k B x y ex ey hB hx hy
    simp only [spOpsF, absOps, gGap_isSome]
    exact clsU_smax h.hu (clsU_sub_pen h.hu (B' := 1) hx h.pen2 (by omega)) (clsU_sub_pen h.hu (B' := 1) hy h.pen1 (by omega))
      (by omega)
  · intro B x y ex ey hB hx hy
    simp only [spOpsF, absOps, gGap_isSome]
    exact profGb_clsU h.hu h.ent h.hNg _ _ B x y _ _ (by omega) hx hy
  · intro B x y ex ey hB hx hy
    simp only [spOpsF, absOps, gGap_isSome]
    exact profGb_clsU h.hu h.ent h.hNg _ _ B x y _ _ (by omega) hx hy

theorem spOpsB_rel {u Nc Ng : Nat} {ap : AlnParam SoftF32} {prof1 : Array SoftF32} {sip : Nat} (h : SpBnd u Nc Ng ap prof1 sip)
    (seq2 : Array Nat) (r : Rect) (c : KCfg) (p : Nat) : OpsRelU u 1 (spOpsB ap prof1 seq2 sip r p) (absOps c p) := by
  refine ⟨?_, ?_, ?_, ?_, ?_⟩
  · intro B x y ex ey hB hx hy
    simp only [spOpsB, absOps, gGap_isSome]
    exact profGb_clsU h.hu h.ent h.hNg _ _ B x y _ _ (by omega) hx hy
  · intro k B x y z ex ey ez hB hx hy hz
    simp only [spOpsB, absOps, gAl_isSome]
    exact sp_aCell_clsU h.hu h.pen1 (h.ent.gap _ 27 (by omega)) h.hNg (h.ent.any h.hNc h.hNg _ _) (Nat.le_refl _) B x y z _ _ _
      (by omega) hx hy hz
  · intro k B x y ex ey hB hx hy
    simp only [spOpsB, absOps, gGap_isSome]
    exact clsU_smax h.hu (clsU_sub_pen h.hu (B' := 1) hx h.pen2 (by omega)) (clsU_sub_pen h.hu (B' := 1) hy h.pen1 (by omega))
      (by omega)
  · intro B x y ex ey hB hx hy
    simp only [spOpsB, absOps, gGap_isSome]
    exact profGb_clsU h.hu h.ent h.hNg _ _ B x y _ _ (by omega) hx hy
  · intro B x y ex ey hB hx hy
    simp only [spOpsB, absOps, gGap_isSome]
    exact profGb_clsU h.hu h.ent h.hNg _ _ B x y _ _ (by omega) hx hy

theorem spGaInitF_rel {u Nc Ng : Nat} {ap : AlnParam SoftF32} {prof1 : Array SoftF32} {sip : Nat} (h : SpBnd u Nc Ng ap prof1 sip)
    (r : Rect) (c : KCfg) : GaRelU u 1 (spGaInitF ap sip r) (absGaInit c) := by
  intro k B x y ex ey hB hx hy
  simp only [absGaInit, gGap_isSome, spGaInitF]
  exact spGaInit_clsU h.hu h.pen1 h.pen2 h.pen3 _ k B x y _ _ (by omega) hx hy

theorem spGaInitB_rel {u Nc Ng : Nat} {ap : AlnParam SoftF32} {prof1 : Array SoftF32} {sip : Nat} (h : SpBnd u Nc Ng ap prof1 sip)
    (r : Rect) (c : KCfg) : GaRelU u 1 (spGaInitB ap sip r) (absGaInit c) := by
  intro k B x y ex ey hB hx hy
  simp only [absGaInit, gGap_isSome, spGaInitB]
  exact spGaInit_clsU h.hu h.pen1 h.pen2 h.pen3 _ k B x y _ _ (by omega) hx hy

theorem spMeetOps_bnd {u Nc Ng : Nat} {ap : AlnParam SoftF32} {prof1 : Array SoftF32} {sip : Nat} (h : SpBnd u Nc Ng ap prof1 sip)
    (r : Rect) (mid : Nat) : MeetOpsBndU u (spMeetOps ap prof1 sip r mid) := by
  have hpen : absLe (Score.mul ap.gpo (Score.ofNat sip) : SoftF32) (1 * 2 ^ u) := h.pen1
  refine ⟨?_, ?_, ?_, ?_, ?_, ?_⟩
  · intro i B x p hB hx; exact clsU_sub_pen h.hu (B' := 1) hx hpen hB
  · intro B x p hB hx; exact clsU_add_unit h.hu hx (h.ent.gap _ 27 (by omega)) h.hNg hB
  · intro i B x p hB hx; exact clsU_sub_pen h.hu (B' := 1) hx hpen hB
  · intro B x p hB hx
    simp only [spMeetOps]
    split
    · exact clsU_add_unit h.hu hx (h.ent.gap _ 29 (by omega)) h.hNg hB
    · exact clsU_add_unit h.hu hx (h.ent.gap _ 28 (by omega)) h.hNg hB
  · intro B x p hB hx; exact clsU_add_unit h.hu hx (h.ent.gap _ 27 (by omega)) h.hNg hB
  · intro B x p hB hx
    simp only [spMeetOps]
    split
    · exact clsU_add_unit h.hu hx (h.ent.gap _ 29 (by omega)) h.hNg hB
    · exact clsU_add_unit h.hu hx (h.ent.gap _ 28 (by omega)) h.hNg hB

end Kalign

namespace Kalign
open SoftF32

/-! ## profile–profile -/

/-- what the profile–profile kernels need: bounded entries of both profiles; the unit dominates the gap-penalty entries and the
products `count · score` -/
structure PpBnd (u Nc1 Ng1 Nc2 Ng2 : Nat) (prof1 prof2 : Array SoftF32) : Prop where
  hu : u ≤ 79
  ent1 : EntBnd Nc1 Ng1 prof1
  ent2 : EntBnd Nc2 Ng2 prof2
  hNg1 : Ng1 ≤ 2 ^ u
  hNg2 : Ng2 ≤ 2 ^ u
  hprod : Nc1 * Nc2 ≤ 2 ^ u

theorem dotAdd_clsU {u Nc1 Ng1 Nc2 Ng2 : Nat} {prof1 prof2 : Array SoftF32} (h : PpBnd u Nc1 Ng1 Nc2 Ng2 prof1 prof2) (c1 c2 : Nat) :
    ∀ (fr : List Nat), (∀ c ∈ fr, c < 23) → ∀ (B : Nat) (acc : SoftF32) (p : Bool), ClsU u B acc p →
      B + fr.length < 16777216 → ClsU u (B + fr.length) (dotAdd prof1 c1 prof2 c2 fr acc) p := by
  intro fr
  induction fr with
  | nil => intro _ B acc p hx _; simpa [dotAdd] using hx
  | cons c fr ih =>
    intro hfr B acc p hx hB
    have hc : c < 23 := hfr c (List.mem_cons_self ..)
    have hprod : absLe (SoftF32.mul (pget prof1 c1 c) (pget prof2 c2 (32 + c))) (1 * 2 ^ u) :=
      mul_absLe (h.ent1.other c1 c (by omega) (by omega)) (h.ent2.other c2 (32 + c) (by omega) (by omega))
        (by rw [Nat.one_mul]; exact h.hprod) (by decide) (by have := h.hu; omega)
    have hstep : ClsU u (B + 1) (Score.add acc (Score.mul (pget prof1 c1 c) (pget prof2 c2 (32 + c)))) p := by
      have := clsU_add h.hu hx (show ClsU u 1 (SoftF32.mul (pget prof1 c1 c) (pget prof2 c2 (32 + c))) true by
        rw [clsU_true]; exact hprod) (by simp only [List.length_cons] at hB; omega)
      rwa [Bool.and_true] at this
    have := ih (fun d hd => hfr d (List.mem_cons_of_mem _ hd)) (B + 1) _ p hstep
      (by simp only [List.length_cons] at hB; omega)
    have e : B + (c :: fr).length = B + 1 + fr.length := by simp only [List.length_cons]; omega
    rw [e]
    simpa [dotAdd] using this

theorem freqOf_lt (p : Array SoftF32) (col : Nat) : ∀ c ∈ (freqOf p col).reverse, c < 23 := by
  intro c hc
  rw [List.mem_reverse] at hc
  unfold freqOf at hc
  exact List.mem_range.1 (List.mem_filter.1 hc).1

theorem freqOf_length (p : Array SoftF32) (col : Nat) : (freqOf p col).reverse.length ≤ 23 := by
  rw [List.length_reverse]
  unfold freqOf
  have := List.length_filter_le (fun j => Score.isNonzero (pget p col j)) (List.range 23)
  simpa using this

theorem pp_aCell_clsU {u Nc1 Ng1 Nc2 Ng2 : Nat} {prof1 prof2 : Array SoftF32} (h : PpBnd u Nc1 Ng1 Nc2 Ng2 prof1 prof2) (c1 c2 col : Nat)
    {g1 g2 : SoftF32} (hg1 : absLe g1 Ng2) (hg2 : absLe g2 Ng1)
    (B : Nat) (x y z : SoftF32) (p q r : Bool) (hB : B + 24 < 16777216)
    (hx : ClsU u B x p) (hy : ClsU u B y q) (hz : ClsU u B z r) :
    ClsU u (B + 24) (dotAdd prof1 c1 prof2 c2 (freqOf prof1 col).reverse
      (smax3 x (Score.add y g1) (Score.add z g2))) (p || q || r) := by
  have hy' : ClsU u (B + 1) (Score.add y g1) q := clsU_add_unit h.hu hy hg1 h.hNg2 (by omega)
  have hz' : ClsU u (B + 1) (Score.add z g2) r := clsU_add_unit h.hu hz hg2 h.hNg1 (by omega)
  have hx' : ClsU u (B + 1) x p := hx.mono (by omega)
  have h1 : ClsU u (B + 1) (smax3 x (Score.add y g1) (Score.add z g2)) (p || q || r) := clsU_smax3 h.hu hx' hy' hz' (by omega)
  have hl := freqOf_length prof1 col
  have := dotAdd_clsU h c1 c2 _ (freqOf_lt prof1 col) (B + 1) _ _ h1 (by omega)
  exact this.mono (by omega)

theorem pp_ga_clsU {u : Nat} (hu : u ≤ 79) {N : Nat} (hN : N ≤ 2 ^ u) {g1 g2 : SoftF32} (hg1 : absLe g1 N) (hg2 : absLe g2 N)
    (B : Nat) (x y : SoftF32) (p q : Bool) (hB : B + 1 < 16777216) (hx : ClsU u B x p) (hy : ClsU u B y q) :
    ClsU u (B + 1) (smax (Score.add x g1) (Score.add y g2)) (p || q) :=
  clsU_smax hu (clsU_add_unit hu hx hg1 hN hB) (clsU_add_unit hu hy hg2 hN hB) (by omega)

theorem ppOpsF_rel {u Nc1 Ng1 Nc2 Ng2 : Nat} {prof1 prof2 : Array SoftF32} (h : PpBnd u Nc1 Ng1 Nc2 Ng2 prof1 prof2) (r : Rect) (c : KCfg) (p : Nat) :
    OpsRelU u 12 (ppOpsF prof1 prof2 r p) (absOps c p) := by
  refine ⟨?_, ?_, ?_, ?_, ?_⟩
  · intro B x y ex ey hB hx hy
    simp only [ppOpsF, absOps, gGap_isSome]
    exact (profGb_clsU h.hu h.ent1 h.hNg1 _ _ B x y _ _ (by omega) hx hy).mono (by omega)
  · intro k B x y z ex ey ez hB hx hy hz
    simp only [ppOpsF, absOps, gAl_isSome]
    exact pp_aCell_clsU h _ _ _ (h.ent2.gap _ 27 (by omega)) (h.ent1.gap _ 27 (by omega)) B x y z _ _ _ (by omega) hx hy hz
  · intro k B x y ex ey hB hx hy
    simp only [ppOpsF, absOps, gGap_isSome]
    exact (pp_ga_clsU h.hu h.hNg2 (h.ent2.gap _ 28 (by omega)) (h.ent2.gap _ 27 (by omega)) B x y _ _ (by omega) hx hy).mono
      (by omega)
  · intro B x y ex ey hB hx hy
    simp only [ppOpsF, absOps, gGap_isSome]
    exact (profGb_clsU h.hu h.ent1 h.hNg1 _ _ B x y _ _ (by omega) hx hy).mono (by omega)
  · intro B x y ex ey hB hx hy
    simp only [ppOpsF, absOps, gGap_isSome]
    exact (profGb_clsU h.hu h.ent1 h.hNg1 _ _ B x y _ _ (by omega) hx hy).mono (by omega)

theorem ppOpsB_rel {u Nc1 Ng1 Nc2 Ng2 : Nat} {prof1 prof2 : Array SoftF32} (h : PpBnd u Nc1 Ng1 Nc2 Ng2 prof1 prof2) (r : Rect) (c : KCfg) (p : Nat) :
    OpsRelU u 12 (ppOpsB prof1 prof2 r p) (absOps c p) := by
  refine ⟨?_, ?_, ?_, ?_, ?_⟩
  · intro B x y ex ey hB hx hy
    simp only [ppOpsB, absOps, gGap_isSome]
    exact (profGb_clsU h.hu h.ent1 h.hNg1 _ _ B x y _ _ (by omega) hx hy).mono (by omega)
  · intro k B x y z ex ey ez hB hx hy hz
    simp only [ppOpsB, absOps, gAl_isSome]
    exact pp_aCell_clsU h _ _ _ (h.ent2.gap _ 27 (by omega)) (h.ent1.gap _ 27 (by omega)) B x y z _ _ _ (by omega) hx hy hz
  · intro k B x y ex ey hB hx hy
    simp only [ppOpsB, absOps, gGap_isSome]
    exact (pp_ga_clsU h.hu h.hNg2 (h.ent2.gap _ 28 (by omega)) (h.ent2.gap _ 27 (by omega)) B x y _ _ (by omega) hx hy).mono
      (by omega)
  · intro B x y ex ey hB hx hy
    simp only [ppOpsB, absOps, gGap_isSome]
    exact (profGb_clsU h.hu h.ent1 h.hNg1 _ _ B x y _ _ (by omega) hx hy).mono (by omega)
  · intro B x y ex ey hB hx hy
    simp only [ppOpsB, absOps, gGap_isSome]
    exact (profGb_clsU h.hu h.ent1 h.hNg1 _ _ B x y _ _ (by omega) hx hy).mono (by omega)

theorem ppGaInit_clsU {u : Nat} (hu : u ≤ 79) {N : Nat} (hN : N ≤ 2 ^ u) {g27 g28 g29 : SoftF32} (h27 : absLe g27 N)
    (h28 : absLe g28 N) (h29 : absLe g29 N) (term : Bool) (B : Nat) (x y : SoftF32) (p q : Bool) (hB : B + 1 < 16777216)
    (hx : ClsU u B x p) (hy : ClsU u B y q) :
    ClsU u (B + 1) (if term then Score.add (smax x y) g29 else smax (Score.add x g28) (Score.add y g27)) (p || q) := by
  cases term
  · simp only [Bool.false_eq_true, if_false]
    exact pp_ga_clsU hu hN h28 h27 B x y p q hB hx hy
  · simp only [if_true]
    exact clsU_add_unit hu (clsU_smax hu hx hy (by omega)) h29 hN hB

theorem ppGaInitF_rel {u Nc1 Ng1 Nc2 Ng2 : Nat} {prof1 prof2 : Array SoftF32} (h : PpBnd u Nc1 Ng1 Nc2 Ng2 prof1 prof2) (r : Rect) (c : KCfg) :
    GaRelU u 12 (ppGaInitF prof2 r) (absGaInit c) := by
  intro k B x y ex ey hB hx hy
  simp only [absGaInit, gGap_isSome, ppGaInitF]
  exact (ppGaInit_clsU h.hu h.hNg2 (h.ent2.gap _ 27 (by omega)) (h.ent2.gap _ 28 (by omega)) (h.ent2.gap _ 29 (by omega))
    _ B x y _ _ (by omega) hx hy).mono (by omega)

theorem ppGaInitB_rel {u Nc1 Ng1 Nc2 Ng2 : Nat} {prof1 prof2 : Array SoftF32} (h : PpBnd u Nc1 Ng1 Nc2 Ng2 prof1 prof2) (r : Rect) (c : KCfg) :
    GaRelU u 12 (ppGaInitB prof2 r) (absGaInit c) := by
  intro k B x y ex ey hB hx hy
  simp only [absGaInit, gGap_isSome, ppGaInitB]
  exact (ppGaInit_clsU h.hu h.hNg2 (h.ent2.gap _ 27 (by omega)) (h.ent2.gap _ 28 (by omega)) (h.ent2.gap _ 29 (by omega))
    _ B x y _ _ (by omega) hx hy).mono (by omega)

theorem ppMeetOps_bnd {u Nc1 Ng1 Nc2 Ng2 : Nat} {prof1 prof2 : Array SoftF32} (h : PpBnd u Nc1 Ng1 Nc2 Ng2 prof1 prof2) (r : Rect) (mid : Nat) :
    MeetOpsBndU u (ppMeetOps prof1 prof2 r mid) := by
  refine ⟨?_, ?_, ?_, ?_, ?_, ?_⟩
  · intro i B x p hB hx; exact clsU_add_unit h.hu hx (h.ent2.gap _ 27 (by omega)) h.hNg2 hB
  · intro B x p hB hx; exact clsU_add_unit h.hu hx (h.ent1.gap _ 27 (by omega)) h.hNg1 hB
  · intro i B x p hB hx; exact clsU_add_unit h.hu hx (h.ent2.gap _ 27 (by omega)) h.hNg2 hB
  · intro B x p hB hx
    simp only [ppMeetOps]
    split
    · exact clsU_add_unit h.hu hx (h.ent1.gap _ 29 (by omega)) h.hNg1 hB
    · exact clsU_add_unit h.hu hx (h.ent1.gap _ 28 (by omega)) h.hNg1 hB
  · intro B x p hB hx; exact clsU_add_unit h.hu hx (h.ent1.gap _ 27 (by omega)) h.hNg1 hB
  · intro B x p hB hx
    simp only [ppMeetOps]
    split
    · exact clsU_add_unit h.hu hx (h.ent1.gap _ 29 (by omega)) h.hNg1 hB
    · exact clsU_add_unit h.hu hx (h.ent1.gap _ 28 (by omega)) h.hNg1 hB

end Kalign

namespace Kalign
open SoftF32

/-! ## the controller, any kernel family -/

/-- the data of a kernel family as tables: `kForward`/`kBackward`/`kMeetup` on the operands `ops` are the tables of `gF, oF` /
`gB, oB` and the scan with `mops`, and all cell formulas respect the classes with unit `2^u` and cost `C` -/
structure FamilyRel (u C : Nat) (ap : AlnParam SoftF32) (ops : Operands SoftF32)
    (gF gB : Rect → Nat → SoftF32 → SoftF32 → SoftF32) (oF oB : Rect → Nat → RowOps SoftF32)
    (mops : Rect → Nat → MeetOps SoftF32) : Prop where
  hu : u ≤ 79
  hu20 : 20 ≤ u
  fwd : ∀ (r : Rect) (start : States SoftF32), r.startb < r.endb → kForward ap ops r start =
    (List.range (r.endb - r.startb + 1)).map (genTab (gF r) (r.endb - r.startb) start (oF r) (r.enda - r.starta))
  bwd : ∀ (r : Rect) (start : States SoftF32), r.startb < r.endb → kBackward ap ops r start =
    ((List.range (r.endb - r.startb + 1)).map (genTab (gB r) (r.endb - r.startb) start (oB r) (r.enda - r.starta))).reverse
  meet : ∀ (r : Rect) (mid : Nat) (fs bs : List (States SoftF32)),
    kMeetup ap ops r mid fs bs = meetupRun (mops r mid) r.startb r.endb fs bs
  gaF : ∀ r c, GaRelU u C (gF r) (absGaInit c)
  gaB : ∀ r c, GaRelU u C (gB r) (absGaInit c)
  opF : ∀ r c p, OpsRelU u C (oF r p) (absOps c p)
  opB : ∀ r c p, OpsRelU u C (oB r p) (absOps c p)
  mo : ∀ r mid, MeetOpsBndU u (mops r mid)

theorem two_pow_20_le {u : Nat} (h : 20 ≤ u) : 1048576 ≤ 2 ^ u := by
  have : (2 : Nat) ^ 20 ≤ 2 ^ u := Nat.pow_le_pow_right (by decide) h
  have e : (2 : Nat) ^ 20 = 1048576 := by decide
  omega

theorem stClsU_hot (u : Nat) (k : Kind) {ap : AlnParam SoftF32} {ops : Operands SoftF32} {lenA lenB : Nat} :
    StClsU u 0 ((realKernels ap ops lenA lenB).st k) (hot k) := by
  cases k
  · exact ⟨clsU_zero u 0, clsU_negInf u 0, clsU_negInf u 0⟩
  · exact ⟨clsU_negInf u 0, clsU_zero u 0, clsU_negInf u 0⟩
  · exact ⟨clsU_negInf u 0, clsU_negInf u 0, clsU_zero u 0⟩

theorem family_step_contract {u C : Nat} {ap : AlnParam SoftF32} {ops : Operands SoftF32}
    {gF gB : Rect → Nat → SoftF32 → SoftF32 → SoftF32} {oF oB : Rect → Nat → RowOps SoftF32}
    {mops : Rect → Nat → MeetOps SoftF32} (hfam : FamilyRel u C ap ops gF gB oF oB mops) (lenB : Nat)
    (htie : TieBnd lenB) (fk bk : Kind) (sa m1 m2 sb n : Nat) (hm2 : 1 ≤ m2) (hn : 1 ≤ n) (heb : sb + n ≤ lenB)
    (hlen : C * (m1 + m2 + 2 * n) + 2 * C + 2 < 16777216) (hfeas : Feas fk bk (m1 + m2) n) (startF startB : States SoftF32)
    (hsF : StClsU u 0 startF (hot fk)) (hsB : StClsU u 0 startB (hot bk)) :
    let rF : Rect := ⟨sa, sa + m1, sb, sb + n, lenB⟩
    let rB : Rect := ⟨sa + m1, sa + m1 + m2, sb, sb + n, lenB⟩
    let r := kMeetup ap ops rF (sa + m1) (kForward ap ops rF startF) (kBackward ap ops rB startB)
    meetupContract fk bk (sa : Int) ((sa + m1 + m2 : Nat) : Int) (sb : Int) ((sb + n : Nat) : Int)
        ((sa + m1 : Nat) : Int) r.meet r.transition = true ∧
    ChildrenFeas fk bk (sa : Int) ((sa + m1 + m2 : Nat) : Int) (sb : Int) ((sb + n : Nat) : Int)
        ((sa + m1 : Nat) : Int) r.meet r.transition := by
  intro rF rB r
  have e1 : rF.endb - rF.startb = n := by show sb + n - sb = n; omega
  have e2 : rF.enda - rF.starta = m1 := by show sa + m1 - sa = m1; omega
  have e3 : rB.endb - rB.startb = n := by show sb + n - sb = n; omega
  have e4 : rB.enda - rB.starta = m2 := by show sa + m1 + m2 - (sa + m1) = m2; omega
  have hF := hfam.fwd rF startF (by show sb < sb + n; omega)
  have hB := hfam.bwd rB startB (by show sb < sb + n; omega)
  rw [e1, e2] at hF
  rw [e3, e4] at hB
  have key := step_contract_gen u C hfam.hu (gF rF) (gB rB) (oF rF) (oB rB) (mops rF (sa + m1)) startF startB fk bk sa m1 m2 sb n
    (hfam.gaF rF _) (hfam.opF rF _) (hfam.gaB rB _) (hfam.opB rB _) (hfam.mo rF _)
    (by
      intro k hk
      have := htie sb (sb + n) (sb + k) (by omega) (by omega) heb
      rw [Nat.one_mul]
      exact this.mono (two_pow_20_le hfam.hu20))
    hlen hm2 hn hfeas hsF hsB
  have hr : r = meetupRun (mops rF (sa + m1)) sb (sb + n)
      ((List.range (n + 1)).map (genTab (gF rF) n startF (oF rF) m1))
      ((List.range (n + 1)).map (genTab (gB rB) n startB (oB rB) m2)).reverse := by
    show kMeetup _ _ _ _ _ _ = _
    rw [hfam.meet, hF, hB]
  rw [hr]
  exact key

/-- **the real kernels of any family satisfy the monitor's requirements** -/
theorem family_stepMon {u C : Nat} {ap : AlnParam SoftF32} {ops : Operands SoftF32}
    {gF gB : Rect → Nat → SoftF32 → SoftF32 → SoftF32} {oF oB : Rect → Nat → RowOps SoftF32}
    {mops : Rect → Nat → MeetOps SoftF32} (hfam : FamilyRel u C ap ops gF gB oF oB mops) (lenA lenB : Nat)
    (hlen : C * (lenA + 2 * lenB) + 2 * C + 2 < 16777216) (htie : TieBnd lenB) :
    StepMon (realKernels ap ops lenA lenB) (fun a : Array (States SoftF32) => lenB + 1 ≤ a.size) FeasRect lenA lenB where
  safe := realKernels_stepSafe ap ops lenA lenB
  get_set := by
    intro f s hf
    exact getD_set0 f s (by omega)
  step := by
    intro f b fk bk sa ea sb eb hf hb hf0 hb0 h0 h1 h2 h3 h4 h5 hQ r hr
    have hfeas := hQ h1 h4
    obtain ⟨sa', rfl⟩ : ∃ n : Nat, sa = n := ⟨sa.toNat, by omega⟩
    obtain ⟨sb', rfl⟩ : ∃ n : Nat, sb = n := ⟨sb.toNat, by omega⟩
    obtain ⟨rows, hrows⟩ : ∃ n : Nat, ea = (sa' : Int) + n := ⟨(ea - sa').toNat, by omega⟩
    obtain ⟨n, hn⟩ : ∃ n : Nat, eb = (sb' : Int) + n := ⟨(eb - sb').toNat, by omega⟩
    subst hrows hn
    have hrows1 : 1 ≤ rows := by omega
    have hn1 : 1 ≤ n := by omega
    have hmid : ((sa' : Int) + rows - sa') / 2 + sa' = ((sa' + rows / 2 : Nat) : Int) := by omega
    rw [hmid] at hr ⊢
    have e1 : ((sa' : Int) + rows - sa').toNat = rows / 2 + (rows - rows / 2) := by omega
    have e2 : ((sb' : Int) + n - sb').toNat = n := by omega
    rw [e1, e2] at hfeas
    simp only [realKernels, realStep] at hr hf0 hb0
    have hcond : (0 : Int) ≤ sa' ∧ (sa' : Int) ≤ ((sa' + rows / 2 : Nat) : Int) ∧
        ((sa' + rows / 2 : Nat) : Int) ≤ (sa' : Int) + rows ∧ (sa' : Int) + rows ≤ (lenA : Int) ∧ (0 : Int) ≤ sb' ∧
        (sb' : Int) < (sb' : Int) + n ∧ (sb' : Int) + n ≤ (lenB : Int) ∧ 0 < f.size ∧ 0 < b.size :=
      ⟨by omega, by omega, by omega, by omega, by omega, by omega, by omega, by omega, by omega⟩
    rw [if_pos hcond] at hr
    have t1 : (sa' : Int).toNat = sa' := by omega
    have t2 : ((sa' + rows / 2 : Nat) : Int).toNat = sa' + rows / 2 := by omega
    have t3 : ((sa' : Int) + rows).toNat = sa' + rows / 2 + (rows - rows / 2) := by omega
    have t4 : (sb' : Int).toNat = sb' := by omega
    have t5 : ((sb' : Int) + n).toNat = sb' + n := by omega
    rw [t1, t2, t3, t4, t5] at hr
    have hCle : C * (rows / 2 + (rows - rows / 2) + 2 * n) ≤ C * (lenA + 2 * lenB) := Nat.mul_le_mul_left _ (by omega)
    have key := family_step_contract hfam lenB htie fk bk sa' (rows / 2) (rows - rows / 2) sb' n (by omega) hn1
      (by omega) (by omega) hfeas (f.getD 0 States.negInf) (b.getD 0 States.negInf)
      (by rw [hf0]; exact stClsU_hot u fk) (by rw [hb0]; exact stClsU_hot u bk)
    simp only at key
    split at hr
    · simp only [Option.some.injEq] at hr
      subst hr
      simp only
      have c1 : ((sa' + rows / 2 + (rows - rows / 2) : Nat) : Int) = (sa' : Int) + rows := by omega
      have c2 : ((sb' + n : Nat) : Int) = (sb' : Int) + n := by omega
      rw [c1, c2] at key
      exact key
    · exact absurd hr (by simp)

/-- **the monitor of a Hirschberg run of any kernel family stays true** -/
theorem family_alnRun_mon {u C : Nat} {ap : AlnParam SoftF32} {ops : Operands SoftF32}
    {gF gB : Rect → Nat → SoftF32 → SoftF32 → SoftF32} {oF oB : Rect → Nat → RowOps SoftF32}
    {mops : Rect → Nat → MeetOps SoftF32} (hfam : FamilyRel u C ap ops gF gB oF oB mops) (lenA lenB : Nat)
    (hA : 1 ≤ lenA) (hB : 1 ≤ lenB) (hlen : C * (lenA + 2 * lenB) + 2 * C + 2 < 16777216) (htie : TieBnd lenB) :
    (alnRun .serial ap ops lenA lenB (initMem lenA lenB)).mon = true := by
  unfold alnRun
  refine runnerSerial_mon_fuel (family_stepMon hfam lenA lenB hlen htie) _ (initMem_core lenA lenB)
    (by simp [initMem]) (by simp [initMem]) (by simp [initMem]) (by simp [initMem]) ?_
  refine ⟨rfl, ?_, ?_, ?_⟩
  · simp [initMem, realKernels, Kernels.st, Array.getD]
  · simp [initMem, realKernels, Kernels.st, Array.getD]
  · intro _ _
    simp only [initMem]
    have := feas_top lenA lenB hA hB
    simpa using this

/-! ## the two profile families -/

theorem sp_family {u Nc Ng : Nat} {ap : AlnParam SoftF32} {prof1 : Array SoftF32} {sip : Nat}
    (h : SpBnd u Nc Ng ap prof1 sip) (hu20 : 20 ≤ u) (seq2 : Array Nat) :
    FamilyRel u 1 ap (.seqprof prof1 seq2 sip) (fun r => spGaInitF ap sip r) (fun r => spGaInitB ap sip r)
      (fun r => spOpsF ap prof1 seq2 sip r) (fun r => spOpsB ap prof1 seq2 sip r)
      (fun r mid => spMeetOps ap prof1 sip r mid) where
  hu := h.hu
  hu20 := hu20
  fwd := fun r start hb => spForward_eq_genTab ap prof1 seq2 sip r hb start
  bwd := fun r start hb => spBackward_eq_genTab ap prof1 seq2 sip r hb start
  meet := fun _ _ _ _ => rfl
  gaF := fun r c => spGaInitF_rel h r c
  gaB := fun r c => spGaInitB_rel h r c
  opF := fun r c p => spOpsF_rel h seq2 r c p
  opB := fun r c p => spOpsB_rel h seq2 r c p
  mo := fun r mid => spMeetOps_bnd h r mid

theorem pp_family {u Nc1 Ng1 Nc2 Ng2 : Nat} {ap : AlnParam SoftF32} {prof1 prof2 : Array SoftF32}
    (h : PpBnd u Nc1 Ng1 Nc2 Ng2 prof1 prof2) (hu20 : 20 ≤ u) :
    FamilyRel u 12 ap (.profprof prof1 prof2) (fun r => ppGaInitF prof2 r) (fun r => ppGaInitB prof2 r)
      (fun r => ppOpsF prof1 prof2 r) (fun r => ppOpsB prof1 prof2 r)
      (fun r mid => ppMeetOps prof1 prof2 r mid) where
  hu := h.hu
  hu20 := hu20
  fwd := fun r start hb => ppForward_eq_genTab prof1 prof2 r hb start
  bwd := fun r start hb => ppBackward_eq_genTab prof1 prof2 r hb start
  meet := fun _ _ _ _ => rfl
  gaF := fun r c => ppGaInitF_rel h r c
  gaB := fun r c => ppGaInitB_rel h r c
  opF := fun r c p => ppOpsF_rel h r c p
  opB := fun r c p => ppOpsB_rel h r c p
  mo := fun r mid => ppMeetOps_bnd h r mid

/-- **sequence–profile operands**: bounded profile entries and scaled penalties ⟹ `mon = true` -/
theorem sp_alnRun_mon {u Nc Ng : Nat} {ap : AlnParam SoftF32} {prof1 : Array SoftF32} {sip : Nat}
    (h : SpBnd u Nc Ng ap prof1 sip) (hu20 : 20 ≤ u) (seq2 : Array Nat) (lenA lenB : Nat) (hA : 1 ≤ lenA) (hB : 1 ≤ lenB)
    (hlen : lenA + 2 * lenB + 4 < 16777216) (hlenB : lenB < 4194304) :
    (alnRun .serial ap (.seqprof prof1 seq2 sip) lenA lenB (initMem lenA lenB)).mon = true :=
  family_alnRun_mon (sp_family h hu20 seq2) lenA lenB hA hB (by omega)
    (fun sb eb i h1 h2 h3 => tie_bound sb eb i h1 h2 (by omega))

/-- **profile–profile operands**: bounded entries of both profiles ⟹ `mon = true` -/
theorem pp_alnRun_mon {u Nc1 Ng1 Nc2 Ng2 : Nat} {ap : AlnParam SoftF32} {prof1 prof2 : Array SoftF32}
    (h : PpBnd u Nc1 Ng1 Nc2 Ng2 prof1 prof2) (hu20 : 20 ≤ u) (lenA lenB : Nat) (hA : 1 ≤ lenA) (hB : 1 ≤ lenB)
    (hlen : 12 * (lenA + 2 * lenB) + 26 < 16777216) (hlenB : lenB < 4194304) :
    (alnRun .serial ap (.profprof prof1 prof2) lenA lenB (initMem lenA lenB)).mon = true :=
  family_alnRun_mon (pp_family (ap := ap) h hu20) lenA lenB hA hB (by omega)
    (fun sb eb i h1 h2 h3 => tie_bound sb eb i h1 h2 (by omega))

end Kalign

namespace Kalign
open SoftF32

/-- executable check of `EntBnd` -/
def entCheck (Nc Ng : Nat) (q : Array SoftF32) : Bool :=
  (List.range q.size).all fun i =>
    decide ((q.getD i Score.zero).mag < 2139095040) &&
      decide (magVal (q.getD i Score.zero).mag ≤ (if i % 64 = 27 ∨ i % 64 = 28 ∨ i % 64 = 29 then Ng else Nc) * 2 ^ 149)

theorem entBnd_of_check {Nc Ng : Nat} {q : Array SoftF32} (h : entCheck Nc Ng q = true) : EntBnd Nc Ng q := by
  intro i
  by_cases hi : i < q.size
  · unfold entCheck at h
    rw [List.all_eq_true] at h
    have := h i (List.mem_range.2 hi)
    simp only [Bool.and_eq_true, decide_eq_true_eq] at this
    exact this
  · have : q.getD i Score.zero = (Score.zero : SoftF32) := by simp [Array.getD, hi]
    rw [this]
    refine ⟨by decide, ?_⟩
    have : magVal (Score.zero : SoftF32).mag = 0 := by decide
    omega

end Kalign
