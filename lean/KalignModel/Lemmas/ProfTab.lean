import KalignModel.Lemmas.SoftKernel
/-!
# The four profile kernels as tables (any carrier)

`spForward / spBackward / ppForward / ppBackward` are `genTab` tables of explicit per-row cell formulas
(`spOpsF`, `spOpsB`, `ppOpsF`, `ppOpsB`) with explicit first-row gap chains (`spGaInitF`, …), exactly as
`ssForward_eq_genTab` / `ssBackward_eq_genTab` for the sequence–sequence kernels.
-/
namespace Kalign
section
variable {α : Type} [Score α]

/-- the three penalties `open_`, `ext`, `text` of the sequence–profile kernels -/
def spPen (ap : AlnParam α) (sip : Nat) : α × α × α :=
  (Score.mul ap.gpo (Score.ofNat sip), Score.mul ap.gpe (Score.ofNat sip), Score.mul ap.tgpe (Score.ofNat sip))

/-- first-row gap chain of `spForward` -/
def spGaInitF (ap : AlnParam α) (sip : Nat) (r : Rect) : Nat → α → α → α :=
  spGaInit (spPen ap sip).1 (spPen ap sip).2.1 (spPen ap sip).2.2 (r.startb == 0)

/-- first-row gap chain of `spBackward` -/
def spGaInitB (ap : AlnParam α) (sip : Nat) (r : Rect) : Nat → α → α → α :=
  spGaInit (spPen ap sip).1 (spPen ap sip).2.1 (spPen ap sip).2.2 (r.endb == r.lenB)

/-- cell formulas of row `p` of `spForward` -/
def spOpsF (ap : AlnParam α) (prof1 : Array α) (seq2 : Array Nat) (sip : Nat) (r : Rect) (p : Nat) : RowOps α :=
  { gbFirst := profGb prof1 (r.starta + p + 1) (r.startb == 0)
    aCell := fun k pa pga pgb =>
      Score.add (smax3 pa (Score.sub pga (spPen ap sip).1) (Score.add pgb (pget prof1 (r.starta + p) 27)))
        (pget prof1 (r.starta + p + 1) (32 + seq2.getD (r.startb + k - 1) 0))
    gaCell := fun _ xga xa => smax (Score.sub xga (spPen ap sip).2.1) (Score.sub xa (spPen ap sip).1)
    gbMid := profGb prof1 (r.starta + p + 1) false
    gbLast := profGb prof1 (r.starta + p + 1) (r.endb == r.lenB) }

/-- cell formulas of row `p` (counted from the far end) of `spBackward` -/
def spOpsB (ap : AlnParam α) (prof1 : Array α) (seq2 : Array Nat) (sip : Nat) (r : Rect) (p : Nat) : RowOps α :=
  { gbFirst := profGb prof1 (r.starta + (r.enda - r.starta) - 1 - p + 1) (r.endb == r.lenB)
    aCell := fun k pa pga pgb =>
      Score.add
        (smax3 pa (Score.sub pga (spPen ap sip).1)
          (Score.add pgb (pget prof1 (r.starta + (r.enda - r.starta) - 1 - p + 2) 27)))
        (pget prof1 (r.starta + (r.enda - r.starta) - 1 - p + 1) (32 + seq2.getD (r.endb - k) 0))
    gaCell := fun _ xga xa => smax (Score.sub xga (spPen ap sip).2.1) (Score.sub xa (spPen ap sip).1)
    gbMid := profGb prof1 (r.starta + (r.enda - r.starta) - 1 - p + 1) false
    gbLast := profGb prof1 (r.starta + (r.enda - r.starta) - 1 - p + 1) (r.startb == 0) }

/-- first-row gap chain of `ppForward` -/
def ppGaInitF (prof2 : Array α) (r : Rect) : Nat → α → α → α := fun k pga pa =>
  if r.startb == 0 then Score.add (smax pga pa) (pget prof2 (r.startb + k) 29)
  else smax (Score.add pga (pget prof2 (r.startb + k) 28)) (Score.add pa (pget prof2 (r.startb + k) 27))

/-- first-row gap chain of `ppBackward` -/
def ppGaInitB (prof2 : Array α) (r : Rect) : Nat → α → α → α := fun k pga pa =>
  if r.endb == r.lenB then Score.add (smax pga pa) (pget prof2 (r.endb - k + 1) 29)
  else smax (Score.add pga (pget prof2 (r.endb - k + 1) 28)) (Score.add pa (pget prof2 (r.endb - k + 1) 27))

/-- cell formulas of row `p` of `ppForward` -/
def ppOpsF (prof1 prof2 : Array α) (r : Rect) (p : Nat) : RowOps α :=
  { gbFirst := profGb prof1 (r.starta + p + 1) (r.startb == 0)
    aCell := fun k pa pga pgb =>
      dotAdd prof1 (r.starta + p + 1) prof2 (r.startb + k) (freqOf prof1 (r.starta + p + 1)).reverse
        (smax3 pa (Score.add pga (pget prof2 (r.startb + k - 1) 27))
          (Score.add pgb (pget prof1 (r.starta + p) 27)))
    gaCell := fun k xga xa =>
      smax (Score.add xga (pget prof2 (r.startb + k) 28)) (Score.add xa (pget prof2 (r.startb + k) 27))
    gbMid := profGb prof1 (r.starta + p + 1) false
    gbLast := profGb prof1 (r.starta + p + 1) (r.endb == r.lenB) }

/-- cell formulas of row `p` (counted from the far end) of `ppBackward` -/
def ppOpsB (prof1 prof2 : Array α) (r : Rect) (p : Nat) : RowOps α :=
  { gbFirst := profGb prof1 (r.starta + (r.enda - r.starta) - 1 - p + 1) (r.endb == r.lenB)
    aCell := fun k pa pga pgb =>
      dotAdd prof1 (r.starta + (r.enda - r.starta) - 1 - p + 1) prof2 (r.endb - k + 1)
        (freqOf prof1 (r.starta + (r.enda - r.starta) - 1 - p + 1)).reverse
        (smax3 pa (Score.add pga (pget prof2 (r.endb - k + 2) 27))
          (Score.add pgb (pget prof1 (r.starta + (r.enda - r.starta) - 1 - p + 2) 27)))
    gaCell := fun k xga xa =>
      smax (Score.add xga (pget prof2 (r.endb - k + 1) 28)) (Score.add xa (pget prof2 (r.endb - k + 1) 27))
    gbMid := profGb prof1 (r.starta + (r.enda - r.starta) - 1 - p + 1) false
    gbLast := profGb prof1 (r.starta + (r.enda - r.starta) - 1 - p + 1) (r.startb == 0) }

theorem spForward_eq_genTab (ap : AlnParam α) (prof1 : Array α) (seq2 : Array Nat) (sip : Nat) (r : Rect)
    (hb : r.startb < r.endb) (start : States α) :
    spForward ap prof1 seq2 sip r start =
      (List.range (r.endb - r.startb + 1)).map
        (genTab (spGaInitF ap sip r) (r.endb - r.startb) start (spOpsF ap prof1 seq2 sip r) (r.enda - r.starta)) := by
  unfold spForward
  simp only
  rw [List.range'_eq_map_range, List.map_map]
  rw [runKernel_eq_genTab _ (r.endb - r.startb) (by omega)]
  rfl

theorem spBackward_eq_genTab (ap : AlnParam α) (prof1 : Array α) (seq2 : Array Nat) (sip : Nat) (r : Rect)
    (hb : r.startb < r.endb) (start : States α) :
    spBackward ap prof1 seq2 sip r start =
      ((List.range (r.endb - r.startb + 1)).map
        (genTab (spGaInitB ap sip r) (r.endb - r.startb) start (spOpsB ap prof1 seq2 sip r) (r.enda - r.starta))).reverse := by
  unfold spBackward
  simp only
  rw [range'_reverse_eq, List.map_map]
  rw [runKernel_eq_genTab _ (r.endb - r.startb) (by omega)]
  rfl

theorem ppForward_eq_genTab (prof1 prof2 : Array α) (r : Rect) (hb : r.startb < r.endb) (start : States α) :
    ppForward prof1 prof2 r start =
      (List.range (r.endb - r.startb + 1)).map
        (genTab (ppGaInitF prof2 r) (r.endb - r.startb) start (ppOpsF prof1 prof2 r) (r.enda - r.starta)) := by
  unfold ppForward
  simp only
  rw [List.range'_eq_map_range, List.map_map]
  rw [runKernel_eq_genTab _ (r.endb - r.startb) (by omega)]
  rfl

theorem ppBackward_eq_genTab (prof1 prof2 : Array α) (r : Rect) (hb : r.startb < r.endb) (start : States α) :
    ppBackward prof1 prof2 r start =
      ((List.range (r.endb - r.startb + 1)).map
        (genTab (ppGaInitB prof2 r) (r.endb - r.startb) start (ppOpsB prof1 prof2 r) (r.enda - r.starta))).reverse := by
  unfold ppBackward
  simp only
  rw [range'_reverse_eq, List.map_map]
  rw [runKernel_eq_genTab _ (r.endb - r.startb) (by omega)]
  rfl

end
end Kalign
