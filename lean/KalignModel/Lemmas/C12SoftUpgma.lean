import KalignModel.Lemmas.C12SoftVal
import KalignModel.Lemmas.Upgma
/-!
# UPGMA on `SoftF32`: a set of mutually closest leaves becomes a clade (C12, slice AA)

The twin of `upgmaExact_clade` (Lemmas/Upgma.lean) for `upgmaS` (Model/TreeSoft.lean), i.e. for the arithmetic the C function
`upgma` really performs: `dm[a][j] = (dm[a][j] + dm[b][j]) * 0.5F + 0.001F` in binary32, first strict minimum starting from `FLT_MAX`.

Leaves are labelled by the sample ids; `c` marks the labels of `C`.  Bounds are on the grid 2⁻²⁰ (`2¹²⁹` units of 2⁻¹⁴⁹):
inside `C` all entries are bounded by `A0·2⁻²⁰` in magnitude, between `C` and the rest they are at least `B0·2⁻²⁰`, with
`A0 + 1049·n ≤ B0 < 2²³` (`1049·2⁻²⁰ ≥ 0.001F`; every bound that occurs is a binary32 number, so no rounding error accumulates:
`joinVal_AbsV`, `joinVal_ge`).  Invariant after `k` rounds (`PreS`): entries between different subtrees inside `C` are at most
`(A0 + 1049·k)·2⁻²⁰`, entries between a subtree inside `C` and one outside are at least `B0·2⁻²⁰`.

* `scan_minS`, `scan_mxS`: the pair scan returns a minimum of the active entries (whatever the values, NaN included).
* `upgmaRoundS_spec`: what one round does to the slots and to the matrix.
* `roundS_step`, `roundsS_step`, **`upgmaS_clade`**.
-/
set_option exponentiation.threshold 512
namespace Kalign
open SoftF32

/-! ## the scan returns a minimum -/

theorem scanInner_keepS (dm : FMatS) (act : Array Bool) (i : Nat) (X : SoftF32) (s : ScanS) (j : Nat)
    (h : SoftF32.lt X s.mx = false) : SoftF32.lt X (scanInnerS dm act i s j).mx = false := by
  unfold scanInnerS
  split
  · split
    · rename_i hlt
      show SoftF32.lt X (dm.get i j) = false
      cases hx : SoftF32.lt X (dm.get i j) with
      | false => rfl
      | true => rw [SoftF32.lt_transL hx hlt] at h; cases h
    · exact h
  · exact h

theorem scanOuter_keepS (n : Nat) (dm : FMatS) (act : Array Bool) (X : SoftF32) (s : ScanS) (i : Nat)
    (h : SoftF32.lt X s.mx = false) : SoftF32.lt X (scanOuterS n dm act s i).mx = false := by
  unfold scanOuterS
  split
  · exact foldl_inv (scanInnerS dm act i) (fun s => SoftF32.lt X s.mx = false) (List.range' (i + 1) (n - (i + 1)))
      (fun s' j _ hs' => scanInner_keepS dm act i X s' j hs') s h
  · exact h

/-- no active pair has an entry strictly below the reported minimum -/
theorem scan_minS (n : Nat) (dm : FMatS) (act : Array Bool) (i j : Nat) (hij : i < j) (hj : j < n)
    (hai : act.getD i false = true) (haj : act.getD j false = true) :
    SoftF32.lt (dm.get i j) (scanMinS n dm act).mx = false := by
  rw [scanMin_eqS]
  refine foldl_reach (scanOuterS n dm act) (fun _ => True) (fun s => SoftF32.lt (dm.get i j) s.mx = false) _ i
    (List.mem_range.2 (by omega)) (fun _ _ _ _ => trivial)
    (fun s y _ _ hg => scanOuter_keepS n dm act _ s y hg) ?_ _ trivial
  intro s _
  unfold scanOuterS
  rw [if_pos hai]
  refine foldl_reach (scanInnerS dm act i) (fun _ => True) (fun s => SoftF32.lt (dm.get i j) s.mx = false) _ j
    (by rw [List.mem_range'_1]; omega) (fun _ _ _ _ => trivial)
    (fun s y _ _ hg => scanInner_keepS dm act i _ s y hg) ?_ s trivial
  intro s' _
  unfold scanInnerS
  rw [if_pos haj]
  split
  · exact SoftF32.lt_irreflL _
  · rename_i h
    simpa using h

theorem scanInner_mxS (dm : FMatS) (act : Array Bool) (i : Nat) (s : ScanS) (j : Nat)
    (h : s.found = true → s.mx = dm.get s.a s.b) :
    (scanInnerS dm act i s j).found = true → (scanInnerS dm act i s j).mx = dm.get (scanInnerS dm act i s j).a (scanInnerS dm act i s j).b := by
  unfold scanInnerS
  split
  · split
    · intro _; rfl
    · exact h
  · exact h

/-- the reported minimum is the entry of the reported pair -/
theorem scan_mxS (n : Nat) (dm : FMatS) (act : Array Bool) (h : (scanMinS n dm act).found = true) :
    (scanMinS n dm act).mx = dm.get (scanMinS n dm act).a (scanMinS n dm act).b := by
  have key : ∀ s : ScanS, (s.found = true → s.mx = dm.get s.a s.b) →
      ∀ l : List Nat, ((l.foldl (scanOuterS n dm act) s).found = true →
        (l.foldl (scanOuterS n dm act) s).mx = dm.get (l.foldl (scanOuterS n dm act) s).a (l.foldl (scanOuterS n dm act) s).b) := by
    intro s hs l
    refine foldl_inv (scanOuterS n dm act) (fun s => s.found = true → s.mx = dm.get s.a s.b) l ?_ s hs
    intro s' i _ hs'
    unfold scanOuterS
    split
    · exact foldl_inv (scanInnerS dm act i) (fun s => s.found = true → s.mx = dm.get s.a s.b) _
        (fun s'' j _ h'' => scanInner_mxS dm act i s'' j h'') s' hs'
    · exact hs'
  rw [scanMin_eqS] at h ⊢
  exact key _ (fun h => by cases h) _ h

/-! ## what one round does to the matrix -/

/-- the row update over a list of distinct columns: a column of row `a` keeps its value or receives the join of the two old
entries; all other rows are untouched -/
theorem rowFold_val (a b : Nat) (hab : a ≠ b) (dm0 : FMatS) :
    ∀ l : List Nat, l.Nodup →
      (∀ j, j ∉ l → (l.foldr (fun j dm => if j ≠ b then dm.set a j (joinVal (dm.get a j) (dm.get b j)) else dm) dm0).get a j =
        dm0.get a j) ∧
      (∀ i j, i ≠ a → (l.foldr (fun j dm => if j ≠ b then dm.set a j (joinVal (dm.get a j) (dm.get b j)) else dm) dm0).get i j =
        dm0.get i j) ∧
      (∀ j, (l.foldr (fun j dm => if j ≠ b then dm.set a j (joinVal (dm.get a j) (dm.get b j)) else dm) dm0).get a j = dm0.get a j ∨
        (j ≠ b ∧ (l.foldr (fun j dm => if j ≠ b then dm.set a j (joinVal (dm.get a j) (dm.get b j)) else dm) dm0).get a j =
          joinVal (dm0.get a j) (dm0.get b j))) := by
  intro l
  induction l with
  | nil =>
    intro _
    exact ⟨fun _ _ => rfl, fun _ _ _ => rfl, fun _ => Or.inl rfl⟩
  | cons x xs ih =>
    intro hnd
    obtain ⟨hx, hnd'⟩ := List.nodup_cons.1 hnd
    obtain ⟨i2, i3, i4⟩ := ih hnd'
    rw [List.foldr_cons]
    generalize xs.foldr (fun j dm => if j ≠ b then dm.set a j (joinVal (dm.get a j) (dm.get b j)) else dm) dm0 = dm1 at i2 i3 i4
    by_cases hxb : x ≠ b
    · rw [if_pos hxb]
      refine ⟨?_, ?_, ?_⟩
      · intro j hj
        have hjx : j ≠ x := fun e => hj (e ▸ List.mem_cons_self)
        rw [FMatS.get_set_ne _ _ _ _ _ _ (by intro h; exact hjx h.2)]
        exact i2 j (fun h => hj (List.mem_cons_of_mem _ h))
      · intro i j hi
        rw [FMatS.get_set_ne _ _ _ _ _ _ (by intro h; exact hi h.1)]
        exact i3 i j hi
      · intro j
        rw [FMatS.get_set]
        split
        · rename_i hc
          right
          refine ⟨by rw [hc.2.1]; exact hxb, ?_⟩
          rw [hc.2.1, i2 x hx, i3 b x (fun e => hab e.symm)]
        · exact i4 j
    · rw [if_neg hxb]
      exact ⟨fun j hj => i2 j (fun h => hj (List.mem_cons_of_mem _ h)), i3, i4⟩

/-- the symmetrisation `for (j…) dm[j][a] = dm[a][j]`: only column `a` changes, and an entry of column `a` keeps its value or
receives the row entry -/
theorem symFold_val (a : Nat) (D : FMatS) :
    ∀ l : List Nat,
      (∀ i j, j ≠ a → (l.foldr (fun j dm => dm.set j a (dm.get a j)) D).get i j = D.get i j) ∧
      ((l.foldr (fun j dm => dm.set j a (dm.get a j)) D).get a a = D.get a a) ∧
      (∀ i, (l.foldr (fun j dm => dm.set j a (dm.get a j)) D).get i a = D.get i a ∨
        (l.foldr (fun j dm => dm.set j a (dm.get a j)) D).get i a = D.get a i) := by
  intro l
  induction l with
  | nil => exact ⟨fun _ _ _ => rfl, rfl, fun _ => Or.inl rfl⟩
  | cons x xs ih =>
    obtain ⟨i1, i2, i3⟩ := ih
    rw [List.foldr_cons]
    generalize xs.foldr (fun j dm => dm.set j a (dm.get a j)) D = R at i1 i2 i3
    have hrow : ∀ i, R.get a i = D.get a i := by
      intro i
      by_cases hia : i = a
      · rw [hia]; exact i2
      · exact i1 a i hia
    refine ⟨?_, ?_, ?_⟩
    · intro i j hj
      rw [FMatS.get_set_ne _ _ _ _ _ _ (by intro h; exact hj h.2)]
      exact i1 i j hj
    · rw [FMatS.get_set]
      split
      · rename_i hc
        rw [← hc.1]; exact i2
      · exact i2
    · intro i
      rw [FMatS.get_set]
      split
      · rename_i hc
        right
        rw [← hc.1]; exact hrow i
      · exact i3 i

/-- the matrix after joining `a` and `b` -/
def joinedDmS (n a b : Nat) (dm : FMatS) : FMatS :=
  (List.range n).foldr (fun j dm => dm.set j a (dm.get a j))
    (((List.range n).foldr (fun j dm => if j ≠ b then dm.set a j (joinVal (dm.get a j) (dm.get b j)) else dm) dm).set a a SoftF32.zero)

theorem joinedDmS_spec (n a b : Nat) (hab : a ≠ b) (dm : FMatS) :
    (∀ i j, i ≠ a → j ≠ a → (joinedDmS n a b dm).get i j = dm.get i j) ∧
    (∀ j, j ≠ a → (joinedDmS n a b dm).get a j = dm.get a j ∨
      (j ≠ b ∧ (joinedDmS n a b dm).get a j = joinVal (dm.get a j) (dm.get b j))) ∧
    (∀ i, i ≠ a → (joinedDmS n a b dm).get i a = dm.get i a ∨ (joinedDmS n a b dm).get i a = (joinedDmS n a b dm).get a i) := by
  obtain ⟨_, r2, r3⟩ := rowFold_val a b hab dm (List.range n) List.nodup_range
  unfold joinedDmS
  generalize (List.range n).foldr (fun j dm => if j ≠ b then dm.set a j (joinVal (dm.get a j) (dm.get b j)) else dm) dm = R at r2 r3
  obtain ⟨s1, _, s3⟩ := symFold_val a (R.set a a SoftF32.zero) (List.range n)
  generalize (List.range n).foldr (fun j dm => dm.set j a (dm.get a j)) (R.set a a SoftF32.zero) = F at s1 s3
  have hrowF : ∀ j, j ≠ a → F.get a j = R.get a j := by
    intro j hj
    rw [s1 a j hj, FMatS.get_set_ne _ _ _ _ _ _ (by intro h; exact hj h.2)]
  refine ⟨?_, ?_, ?_⟩
  · intro i j hi hj
    rw [s1 i j hj, FMatS.get_set_ne _ _ _ _ _ _ (by intro h; exact hi h.1)]
    exact r2 i j hi
  · intro j hj
    rw [hrowF j hj]
    exact r3 j
  · intro i hi
    rcases s3 i with h | h
    · left
      rw [h, FMatS.get_set_ne _ _ _ _ _ _ (by intro h; exact hi h.1)]
      exact r2 i a hi
    · right
      rw [h, hrowF i hi, FMatS.get_set_ne _ _ _ _ _ _ (by intro h; exact hi h.2)]

/-- **one round, completely**: the selected pair `a < b` is an active pair whose entry is a minimum of the active entries; slot `a`
receives the join, slot `b` is emptied; the matrix is `joinedDmS` -/
theorem upgmaRoundS_spec (n : Nat) (samples : List Nat) (k : Nat) (s : UpgmaStS) (h : UInvS n samples k s)
    (hfound : (scanMinS n s.dm s.act).found = true) :
    ∃ s' a b ta tb, upgmaRoundS n s = some s' ∧ UInvS n samples (k + 1) s' ∧ a < b ∧ b < n ∧
      s.tree.getD a none = some ta ∧ s.tree.getD b none = some tb ∧
      (∀ i, s'.tree.getD i none = if i = b then none else if i = a then some (.node ta tb) else s.tree.getD i none) ∧
      (∀ i j, i < j → j < n → s.act.getD i false = true → s.act.getD j false = true →
        SoftF32.lt (s.dm.get i j) (s.dm.get a b) = false) ∧
      s'.dm = joinedDmS n a b s.dm := by
  obtain ⟨hab, hbn, haa, hab'⟩ := (scan_invS n s.dm s.act).ok hfound
  obtain ⟨s', hr, hinv'⟩ := upgmaRound_invS n samples k s h hfound
  have hmx := scan_mxS n s.dm s.act hfound
  have hmin : ∀ i j, i < j → j < n → s.act.getD i false = true → s.act.getD j false = true →
      SoftF32.lt (s.dm.get i j) (s.dm.get (scanMinS n s.dm s.act).a (scanMinS n s.dm s.act).b) = false := by
    intro i j hij hj hai haj
    rw [← hmx]
    exact scan_minS n s.dm s.act i j hij hj hai haj
  have han : (scanMinS n s.dm s.act).a < n := by omega
  have hta := h.sync _ han
  have htb := h.sync _ hbn
  rw [haa] at hta
  rw [hab'] at htb
  obtain ⟨ta, hta'⟩ := Option.isSome_iff_exists.1 hta.symm
  obtain ⟨tb, htb'⟩ := Option.isSome_iff_exists.1 htb.symm
  have hr' := hr
  unfold upgmaRoundS at hr'
  simp only [hfound, Bool.not_true, Bool.false_eq_true, if_false, hta', htb', Option.some.injEq] at hr'
  subst hr'
  refine ⟨_, (scanMinS n s.dm s.act).a, (scanMinS n s.dm s.act).b, ta, tb, hr, hinv', hab, hbn, hta', htb', ?_, hmin, rfl⟩
  intro i
  simp only
  rw [getD_setIfInBounds _ _ _ _ _ (by simp [h.tsize]; exact hbn),
    getD_setIfInBounds _ _ _ _ _ (by rw [h.tsize]; exact han)]

/-! ## the invariant -/

/-- a value bounded by `U` is below a value of at least `L > U` -/
theorem lt_of_bounds {x y : SoftF32} {U L : Nat} (hx : AbsV x U) (hy : y.isFinite = true) (hL : (L : Int) ≤ toInt y)
    (h : U < L) : SoftF32.lt x y = true := by
  rw [SoftF32.lt_iff_toIntL (isNaN_of_finite hx.finite) (isNaN_of_finite hy)]
  have := hx.toInt_le
  omega

structure PreS (n : Nat) (samples : List Nat) (c : Nat → Bool) (A0 B0 k : Nat) (s : UpgmaStS) : Prop where
  pure : ∀ i t, i < n → s.tree.getD i none = some t → CType c t ∨ RType c t
  cover : ∀ x, x ∈ samples → c x = true → ∃ i t, i < n ∧ s.tree.getD i none = some t ∧ CType c t ∧ x ∈ t.leaves
  cc : ∀ i i' t t', i < n → i' < n → i ≠ i' → s.tree.getD i none = some t → s.tree.getD i' none = some t' →
    CType c t → CType c t' → AbsV (s.dm.get i i') ((A0 + 1049 * k) * 2 ^ 129)
  cr : ∀ i z t tz, i < n → z < n → s.tree.getD i none = some t → s.tree.getD z none = some tz → CType c t → RType c tz →
    ((B0 * 2 ^ 129 : Nat) : Int) ≤ toInt (s.dm.get i z) ∧ ((B0 * 2 ^ 129 : Nat) : Int) ≤ toInt (s.dm.get z i)

/-- some slot holds a tree with a subtree whose leaves are exactly the members of `C` -/
def PostS (n : Nat) (samples : List Nat) (c : Nat → Bool) (s : UpgmaStS) : Prop :=
  ∃ i t, i < n ∧ s.tree.getD i none = some t ∧ ∃ u ∈ t.subtrees, ∀ x, x ∈ u.leaves ↔ (x ∈ samples ∧ c x = true)

theorem act_of_tree {n : Nat} {samples : List Nat} {k : Nat} {s : UpgmaStS} (h : UInvS n samples k s) {i : Nat} {t : GTree}
    (hi : i < n) (ht : s.tree.getD i none = some t) : s.act.getD i false = true := by
  rw [h.sync i hi, ht]; rfl

theorem roundS_step (n : Nat) (samples : List Nat) (c : Nat → Bool) (A0 B0 : Nat) (hB : B0 < 8388608)
    (hm : A0 + 1049 * n ≤ B0) (k : Nat) (s : UpgmaStS) (hk : k + 2 ≤ n) (hU : UInvS n samples k s)
    (hM : MatBnd (upgBnd k) s.dm) (hI : PreS n samples c A0 B0 k s ∨ PostS n samples c s) :
    ∃ s', upgmaRoundS n s = some s' ∧ UInvS n samples (k + 1) s' ∧ MatBnd (upgBnd (k + 1)) s'.dm ∧
      (PreS n samples c A0 B0 (k + 1) s' ∨ PostS n samples c s') := by
  have hk23 : k + 1 < 8388608 := by omega
  -- a pair is found
  have hcount := hU.count
  obtain ⟨i0, j0, hij0, hj0, hai0, haj0⟩ := nf_exists_two_active n (fun i => s.act.getD i false) (by omega)
  have hfound := scan_foundS n s.dm s.act i0 j0 hij0 hj0 hai0 haj0 (lt_fltMax_of_absLe (k := k) (by omega) (hM i0 j0))
  obtain ⟨s', a, b, ta, tb, hr, hU', hltab, hbn, hta, htb, htree, hmin, hdm⟩ := upgmaRoundS_spec n samples k s hU hfound
  have han : a < n := by omega
  have hne : a ≠ b := by omega
  have hM' := upgmaRoundS_bnd n k hk23 s s' hM hr
  refine ⟨s', hr, hU', hM', ?_⟩
  obtain ⟨d1, d2, d3⟩ := joinedDmS_spec n a b hne s.dm
  rw [← hdm] at d1 d2 d3
  have hP : (0 : Nat) < 2 ^ 129 := Nat.pow_pos (by decide)
  have haa : s.act.getD a false = true := act_of_tree hU han hta
  have hab' : s.act.getD b false = true := act_of_tree hU hbn htb
  -- slots after the round
  have tcases : ∀ i t, s'.tree.getD i none = some t →
      (i = a ∧ t = .node ta tb) ∨ (i ≠ a ∧ i ≠ b ∧ s.tree.getD i none = some t) := by
    intro i t ht
    rw [htree] at ht
    by_cases h2 : i = b
    · simp [h2] at ht
    · by_cases h1 : i = a
      · left
        rw [if_neg h2, if_pos h1] at ht
        cases ht
        exact ⟨h1, rfl⟩
      · right
        rw [if_neg h2, if_neg h1] at ht
        exact ⟨h1, h2, ht⟩
  have htree_a : s'.tree.getD a none = some (.node ta tb) := by rw [htree]; simp [hne]
  have htree_o : ∀ i, i ≠ a → i ≠ b → s'.tree.getD i none = s.tree.getD i none := by
    intro i h1 h2; rw [htree]; simp [h1, h2]
  -- Post is stable
  have post_stable : PostS n samples c s → PostS n samples c s' := by
    rintro ⟨i, t, hi, ht, u, hu, hlu⟩
    by_cases hia : i = a
    · subst hia
      rw [hta] at ht; cases ht
      refine ⟨i, _, hi, htree_a, u, ?_, hlu⟩
      exact GTree.subtrees_trans hu (by simp [GTree.subtrees, GTree.self_mem_subtrees])
    · by_cases hib : i = b
      · subst hib
        rw [htb] at ht; cases ht
        refine ⟨a, _, han, htree_a, u, ?_, hlu⟩
        exact GTree.subtrees_trans hu (by simp [GTree.subtrees, GTree.self_mem_subtrees])
      · exact ⟨i, t, hi, by rw [htree_o i hia hib]; exact ht, u, hu, hlu⟩
  rcases hI with hPre | hPost
  rotate_left
  · exact Or.inr (post_stable hPost)
  have hgap : (A0 + 1049 * k) * 2 ^ 129 < B0 * 2 ^ 129 := by
    apply Nat.mul_lt_mul_of_pos_right _ hP
    have : 1049 * k < 1049 * n := Nat.mul_lt_mul_of_pos_left (by omega) (by decide)
    omega
  -- a mixed join means that the C-side is already complete
  have mixed : ∀ i1 i2 t1 t2, (i1 = a ∧ i2 = b ∨ i1 = b ∧ i2 = a) → s.tree.getD i1 none = some t1 →
      s.tree.getD i2 none = some t2 → CType c t1 → RType c t2 → PostS n samples c s := by
    intro i1 i2 t1 t2 hor ht1 ht2 hC hR
    have hi1n : i1 < n := by rcases hor with ⟨h, _⟩ | ⟨h, _⟩ <;> omega
    have hi2n : i2 < n := by rcases hor with ⟨_, h⟩ | ⟨_, h⟩ <;> omega
    have hbig : ((B0 * 2 ^ 129 : Nat) : Int) ≤ toInt (s.dm.get a b) := by
      have := hPre.cr i1 i2 t1 t2 hi1n hi2n ht1 ht2 hC hR
      rcases hor with ⟨h1, h2⟩ | ⟨h1, h2⟩
      · rw [h1, h2] at this; exact this.1
      · rw [h1, h2] at this; exact this.2
    refine ⟨i1, t1, hi1n, ht1, t1, GTree.self_mem_subtrees _, ?_⟩
    intro x
    constructor
    · intro hx
      exact ⟨(hU.leaves x).2 ⟨i1, hi1n, t1, ht1, hx⟩, hC x hx⟩
    · rintro ⟨hxs, hcx⟩
      obtain ⟨i3, t3, hi3n, ht3, hC3, hx3⟩ := hPre.cover x hxs hcx
      by_cases h13 : i3 = i1
      · rw [h13, ht1] at ht3; cases ht3; exact hx3
      · exfalso
        have hsmall : ∀ p q tp tq, p < q → (p = i1 ∧ q = i3 ∨ p = i3 ∧ q = i1) → s.tree.getD p none = some tp →
            s.tree.getD q none = some tq → CType c tp → CType c tq → False := by
          intro p q tp tq hpq hpq' htp htq hCp hCq
          have hpn : p < n := by rcases hpq' with ⟨h, _⟩ | ⟨h, _⟩ <;> omega
          have hqn : q < n := by rcases hpq' with ⟨_, h⟩ | ⟨_, h⟩ <;> omega
          have h1 := hPre.cc p q tp tq hpn hqn (by omega) htp htq hCp hCq
          have h2 := hmin p q hpq hqn (act_of_tree hU hpn htp) (act_of_tree hU hqn htq)
          rw [lt_of_bounds h1 (hM a b).finite hbig hgap] at h2
          cases h2
        rcases Nat.lt_or_gt_of_ne h13 with h | h
        · exact hsmall i3 i1 t3 t1 h (Or.inr ⟨rfl, rfl⟩) ht3 ht1 hC3 hC
        · exact hsmall i1 i3 t1 t3 h (Or.inl ⟨rfl, rfl⟩) ht1 ht3 hC hC3
  have hub : (A0 + 1049 * k) * 2 ^ 129 ≤ (A0 + 1049 * (k + 1)) * 2 ^ 129 := Nat.mul_le_mul_right _ (by omega)
  have hc23 : A0 + 1049 * k + 1049 < 8388608 := by
    have : 1049 * k + 1049 * 2 ≤ 1049 * n := by rw [← Nat.mul_add]; exact Nat.mul_le_mul_left _ hk
    omega
  have hB0 : 0 < B0 := by omega
  rcases hPre.pure a ta han hta with hCa | hRa <;> rcases hPre.pure b tb hbn htb with hCb | hRb
  · -- both inside C
    left
    have hCn : CType c (.node ta tb) := hCa.node hCb
    -- row `a` against another subtree inside C
    have rowA : ∀ j t, j < n → j ≠ a → j ≠ b → s.tree.getD j none = some t → CType c t →
        AbsV (s'.dm.get a j) ((A0 + 1049 * (k + 1)) * 2 ^ 129) := by
      intro j t hj hja hjb ht hCt
      have h1 := hPre.cc a j ta t han hj (fun e => hja e.symm) hta ht hCa hCt
      have h2 := hPre.cc b j tb t hbn hj (fun e => hjb e.symm) htb ht hCb hCt
      rcases d2 j hja with e | ⟨_, e⟩ <;> rw [e]
      · exact h1.mono hub
      · have := joinVal_AbsV hc23 h1 h2
        rwa [show A0 + 1049 * k + 1049 = A0 + 1049 * (k + 1) by omega] at this
    -- row `a` against a subtree outside C
    have rowAR : ∀ z t, z < n → z ≠ a → z ≠ b → s.tree.getD z none = some t → RType c t →
        ((B0 * 2 ^ 129 : Nat) : Int) ≤ toInt (s'.dm.get a z) := by
      intro z t hz hza hzb ht hRt
      have h1 := (hPre.cr a z ta t han hz hta ht hCa hRt).1
      have h2 := (hPre.cr b z tb t hbn hz htb ht hCb hRt).1
      rcases d2 z hza with e | ⟨_, e⟩ <;> rw [e]
      · exact h1
      · exact joinVal_ge hk23 (hM a z) (hM b z) hB0 hB h1 h2
    refine ⟨?_, ?_, ?_, ?_⟩
    · intro i t hi ht
      rcases tcases i t ht with ⟨_, rfl⟩ | ⟨_, _, ht0⟩
      · exact Or.inl hCn
      · exact hPre.pure i t hi ht0
    · intro x hxs hcx
      obtain ⟨i3, t3, hi3n, ht3, hC3, hx3⟩ := hPre.cover x hxs hcx
      by_cases h3a : i3 = a
      · subst h3a
        rw [hta] at ht3; cases ht3
        exact ⟨i3, _, hi3n, htree_a, hCn, List.mem_append_left _ hx3⟩
      · by_cases h3b : i3 = b
        · subst h3b
          rw [htb] at ht3; cases ht3
          exact ⟨a, _, han, htree_a, hCn, List.mem_append_right _ hx3⟩
        · exact ⟨i3, t3, hi3n, by rw [htree_o i3 h3a h3b]; exact ht3, hC3, hx3⟩
    · intro i i' t t' hi hi' hii' ht ht' hCt hCt'
      rcases tcases i t ht with ⟨hia, rfl⟩ | ⟨hia, hib, ht0⟩ <;> rcases tcases i' t' ht' with ⟨hia', rfl⟩ | ⟨hia', hib', ht0'⟩
      · exact absurd (hia.trans hia'.symm) hii'
      · rw [hia]; exact rowA i' t' hi' hia' hib' ht0' hCt'
      · rw [hia']
        rcases d3 i hia with e | e <;> rw [e]
        · exact (hPre.cc i a t ta hi han hia ht0 hta hCt hCa).mono hub
        · exact rowA i t hi hia hib ht0 hCt
      · rw [d1 i i' hia hia']
        exact (hPre.cc i i' t t' hi hi' hii' ht0 ht0' hCt hCt').mono hub
    · intro i z t tz hi hz ht htz hCt hRz
      rcases tcases z tz htz with ⟨_, rfl⟩ | ⟨hza, hzb, htz0⟩
      · exact (ctype_rtype_absurd hCn hRz).elim
      rcases tcases i t ht with ⟨hia, rfl⟩ | ⟨hia, hib, ht0⟩
      · rw [hia]
        have h1 := rowAR z tz hz hza hzb htz0 hRz
        refine ⟨h1, ?_⟩
        rcases d3 z hza with e | e <;> rw [e]
        · exact (hPre.cr a z ta tz han hz hta htz0 hCa hRz).2
        · exact h1
      · rw [d1 i z hia hza, d1 z i hza hia]
        exact hPre.cr i z t tz hi hz ht0 htz0 hCt hRz
  · exact Or.inr (post_stable (mixed a b ta tb (Or.inl ⟨rfl, rfl⟩) hta htb hCa hRb))
  · exact Or.inr (post_stable (mixed b a tb ta (Or.inr ⟨rfl, rfl⟩) htb hta hCb hRa))
  · -- both outside C
    left
    have hRn : RType c (.node ta tb) := hRa.node hRb
    -- row `a` against a subtree inside C
    have rowAC : ∀ i t, i < n → i ≠ a → i ≠ b → s.tree.getD i none = some t → CType c t →
        ((B0 * 2 ^ 129 : Nat) : Int) ≤ toInt (s'.dm.get a i) := by
      intro i t hi hia hib ht hCt
      have h1 := (hPre.cr i a t ta hi han ht hta hCt hRa).2
      have h2 := (hPre.cr i b t tb hi hbn ht htb hCt hRb).2
      rcases d2 i hia with e | ⟨_, e⟩ <;> rw [e]
      · exact h1
      · exact joinVal_ge hk23 (hM a i) (hM b i) hB0 hB h1 h2
    refine ⟨?_, ?_, ?_, ?_⟩
    · intro i t hi ht
      rcases tcases i t ht with ⟨_, rfl⟩ | ⟨_, _, ht0⟩
      · exact Or.inr hRn
      · exact hPre.pure i t hi ht0
    · intro x hxs hcx
      obtain ⟨i3, t3, hi3n, ht3, hC3, hx3⟩ := hPre.cover x hxs hcx
      have h3a : i3 ≠ a := by
        intro h; rw [h, hta] at ht3; cases ht3; exact ctype_rtype_absurd hC3 hRa
      have h3b : i3 ≠ b := by
        intro h; rw [h, htb] at ht3; cases ht3; exact ctype_rtype_absurd hC3 hRb
      exact ⟨i3, t3, hi3n, by rw [htree_o i3 h3a h3b]; exact ht3, hC3, hx3⟩
    · intro i i' t t' hi hi' hii' ht ht' hCt hCt'
      rcases tcases i t ht with ⟨_, rfl⟩ | ⟨hia, hib, ht0⟩
      · exact (ctype_rtype_absurd hCt hRn).elim
      rcases tcases i' t' ht' with ⟨_, rfl⟩ | ⟨hia', hib', ht0'⟩
      · exact (ctype_rtype_absurd hCt' hRn).elim
      rw [d1 i i' hia hia']
      exact (hPre.cc i i' t t' hi hi' hii' ht0 ht0' hCt hCt').mono hub
    · intro i z t tz hi hz ht htz hCt hRz
      rcases tcases i t ht with ⟨_, rfl⟩ | ⟨hia, hib, ht0⟩
      · exact (ctype_rtype_absurd hCt hRn).elim
      rcases tcases z tz htz with ⟨hza, rfl⟩ | ⟨hza, hzb, htz0⟩
      · rw [hza]
        have h1 := rowAC i t hi hia hib ht0 hCt
        refine ⟨?_, h1⟩
        rcases d3 i hia with e | e <;> rw [e]
        · exact (hPre.cr i a t ta hi han ht0 hta hCt hRa).1
        · exact h1
      · rw [d1 i z hia hza, d1 z i hza hia]
        exact hPre.cr i z t tz hi hz ht0 htz0 hCt hRz

/-! ## all rounds -/

theorem roundsS_step (n : Nat) (samples : List Nat) (c : Nat → Bool) (A0 B0 : Nat) (hB : B0 < 8388608)
    (hm : A0 + 1049 * n ≤ B0) (m k : Nat) (s : UpgmaStS) (hkm : k + m + 1 ≤ n) (hU : UInvS n samples k s)
    (hM : MatBnd (upgBnd k) s.dm) (hI : PreS n samples c A0 B0 k s ∨ PostS n samples c s) :
    ∃ s', iterOpt (upgmaRoundS n) m s = some s' ∧ UInvS n samples (k + m) s' ∧
      (PreS n samples c A0 B0 (k + m) s' ∨ PostS n samples c s') := by
  induction m generalizing k s with
  | zero => exact ⟨s, rfl, hU, hI⟩
  | succ m ih =>
    obtain ⟨s1, h1, hU1, hM1, hI1⟩ := roundS_step n samples c A0 B0 hB hm k s (by omega) hU hM hI
    obtain ⟨s2, h2, hU2, hI2⟩ := ih (k + 1) s1 (by omega) hU1 hM1 hI1
    refine ⟨s2, ?_, ?_, ?_⟩
    · simp only [iterOpt, h1, Option.bind_some]; exact h2
    · rw [show k + (m + 1) = k + 1 + m by omega]; exact hU2
    · rw [show k + (m + 1) = k + 1 + m by omega]; exact hI2

theorem upgmaInitS_tree (dm : List (List SoftF32)) (samples : List Nat) (i : Nat) (hi : i < samples.length) :
    (upgmaInitS dm samples).tree.getD i none = some (.leaf samples[i]) := by
  simp [upgmaInitS, Array.getD, hi]

/-- **clade theorem for the binary32 UPGMA.**  `c` marks the labels of `C` (non-empty among the samples); `M` = the matrix as `upgmaS`
reads it.  Entries are finite and at most 2³³ in magnitude (`MatBnd`), inside `C` at most `A0·2⁻²⁰` in magnitude, between `C` and the
other leaves at least `B0·2⁻²⁰` (both orders), and `A0 + 1049·n ≤ B0 < 2²³`.  Then `upgmaS` returns a tree with a subtree whose
leaf set is exactly `C`. -/
theorem upgmaS_clade (dm : List (List SoftF32)) (samples : List Nat) (c : Nat → Bool) (A0 B0 : Nat)
    (hB : B0 < 8388608) (hm : A0 + 1049 * samples.length ≤ B0)
    (hC : ∃ x, x ∈ samples ∧ c x = true)
    (hbnd : MatBnd (upgBnd 0) (upgmaInitS dm samples).dm)
    (hcc : ∀ i j (hi : i < samples.length) (hj : j < samples.length), i ≠ j → c samples[i] = true → c samples[j] = true →
      AbsV ((upgmaInitS dm samples).dm.get i j) (A0 * 2 ^ 129))
    (hcr : ∀ i z (hi : i < samples.length) (hz : z < samples.length), c samples[i] = true → c samples[z] = false →
      ((B0 * 2 ^ 129 : Nat) : Int) ≤ toInt ((upgmaInitS dm samples).dm.get i z) ∧
      ((B0 * 2 ^ 129 : Nat) : Int) ≤ toInt ((upgmaInitS dm samples).dm.get z i)) :
    ∃ T, upgmaS dm samples = some T ∧ ∃ u ∈ T.subtrees, ∀ x, x ∈ u.leaves ↔ (x ∈ samples ∧ c x = true) := by
  obtain ⟨x0, hx0s, hcx0⟩ := hC
  have hn : samples.length ≠ 0 := by
    intro h
    rw [List.length_eq_zero_iff] at h
    rw [h] at hx0s; cases hx0s
  have hU0 := upgmaInit_invS dm samples hn
  have hleaf : ∀ i t, i < samples.length → (upgmaInitS dm samples).tree.getD i none = some t →
      ∃ hi : i < samples.length, t = .leaf samples[i] := by
    intro i t hi ht
    rw [upgmaInitS_tree dm samples i hi] at ht
    exact ⟨hi, by cases ht; rfl⟩
  have hP0 : PreS samples.length samples c A0 B0 0 (upgmaInitS dm samples) := by
    refine ⟨?_, ?_, ?_, ?_⟩
    · intro i t hi ht
      obtain ⟨hi', rfl⟩ := hleaf i t hi ht
      cases hci : c samples[i]
      · right; intro x hx
        have : x = samples[i] := by simpa [GTree.leaves] using hx
        rw [this]; exact hci
      · left; intro x hx
        have : x = samples[i] := by simpa [GTree.leaves] using hx
        rw [this]; exact hci
    · intro x hxs hcx
      obtain ⟨i, hi, e⟩ := List.getElem_of_mem hxs
      refine ⟨i, .leaf samples[i], hi, upgmaInitS_tree dm samples i hi, ?_, by simp [GTree.leaves, e]⟩
      intro y hy
      have : y = samples[i] := by simpa [GTree.leaves] using hy
      rw [this, e]; exact hcx
    · intro i i' t t' hi hi' hii' ht ht' hCt hCt'
      obtain ⟨_, rfl⟩ := hleaf i t hi ht
      obtain ⟨_, rfl⟩ := hleaf i' t' hi' ht'
      rw [show A0 + 1049 * 0 = A0 by omega]
      exact hcc i i' hi hi' hii' (hCt _ (by simp [GTree.leaves])) (hCt' _ (by simp [GTree.leaves]))
    · intro i z t tz hi hz ht htz hCt hRz
      obtain ⟨_, rfl⟩ := hleaf i t hi ht
      obtain ⟨_, rfl⟩ := hleaf z tz hz htz
      exact hcr i z hi hz (hCt _ (by simp [GTree.leaves])) (hRz _ (by simp [GTree.leaves]))
  obtain ⟨st, hit, hU, hI⟩ := roundsS_step samples.length samples c A0 B0 hB hm (samples.length - 1) 0
    (upgmaInitS dm samples) (by omega) hU0 hbnd (Or.inl hP0)
  rw [Nat.zero_add] at hU hI
  have hl := hU.last
  have hsome := hU.sync _ hl.1
  rw [hl.2] at hsome
  obtain ⟨T, hT⟩ := Option.isSome_iff_exists.1 hsome.symm
  have hcount := hU.count
  have huniq : ∀ i t, i < samples.length → st.tree.getD i none = some t → i = st.last ∧ t = T := by
    intro i t hi ht
    have := nf_unique_active samples.length (fun i => st.act.getD i false) (by omega) i st.last hi hl.1
      (act_of_tree hU hi ht) hl.2
    subst this
    rw [hT] at ht; cases ht
    exact ⟨rfl, rfl⟩
  refine ⟨T, by rw [upgma_eqS dm samples hn, hit]; exact hT, ?_⟩
  rcases hI with hP | hP
  · -- everything was joined inside C: the whole tree is the clade
    have hall : ∀ x, x ∈ samples → c x = true → CType c T ∧ x ∈ T.leaves := by
      intro x hxs hcx
      obtain ⟨i, t, hi, ht, hCt, hxt⟩ := hP.cover x hxs hcx
      obtain ⟨_, rfl⟩ := huniq i t hi ht
      exact ⟨hCt, hxt⟩
    refine ⟨T, GTree.self_mem_subtrees _, fun x => ⟨fun hx => ?_, fun hx => (hall x hx.1 hx.2).2⟩⟩
    exact ⟨(hU.leaves x).2 ⟨st.last, hl.1, T, hT, hx⟩, (hall x0 hx0s hcx0).1 x hx⟩
  · obtain ⟨i, t, hi, ht, u, hu, hlu⟩ := hP
    obtain ⟨_, rfl⟩ := huniq i t hi ht
    exact ⟨u, hu, hlu⟩

end Kalign
