import KalignModel.Lemmas.OptCut
import KalignModel.Lemmas.PathCols
import KalignModel.Lemmas.Hirschberg
/-!
# The real kernels inside the controller (exact carrier), and `aln_continue` in uniform shape
-/
namespace Kalign

abbrev MemE := Mem (Array (States ExactScore)) ExactScore

theorem blit_size {α : Type} [Score α] (arr : Array (States α)) (at_ : Nat) (cells : List (States α))
    (arr' : Array (States α)) (h : blit arr at_ cells = some arr') : arr'.size = arr.size := by
  unfold blit at h
  split at h
  · injection h with h
    subst h
    have : ∀ (cs : List (States α)) (p : Array (States α) × Nat),
        (cs.foldl (fun (p : Array (States α) × Nat) c => (p.1.set! p.2 c, p.2 + 1)) p).1.size = p.1.size := by
      intro cs
      induction cs with
      | nil => intro p; rfl
      | cons c cs ih => intro p; rw [List.foldl_cons, ih]; simp
    exact this cells (arr, at_)
  · exact absurd h (by simp)

theorem blit_some {α : Type} [Score α] (arr : Array (States α)) (at_ : Nat) (cells : List (States α))
    (h : at_ + cells.length ≤ arr.size) : ∃ arr', blit arr at_ cells = some arr' := by
  unfold blit
  rw [if_pos h]
  exact ⟨_, rfl⟩

theorem hot_eq_st (ap : AlnParam ExactScore) (ops : Operands ExactScore) (lenA lenB : Nat) (k : Kind) :
    (realKernels ap ops lenA lenB).st k = hot k := by
  cases k <;> rfl

theorem get0_set0 (ap : AlnParam ExactScore) (ops : Operands ExactScore) (lenA lenB : Nat)
    (f : Array (States ExactScore)) (v : States ExactScore) (h : 0 < f.size) :
    (realKernels ap ops lenA lenB).get0 ((realKernels ap ops lenA lenB).set0 f v) = v := by
  show (f.set! 0 v).getD 0 States.negInf = v
  simp [Array.getD, h]

theorem set0_size (ap : AlnParam ExactScore) (ops : Operands ExactScore) (lenA lenB : Nat)
    (f : Array (States ExactScore)) (v : States ExactScore) :
    ((realKernels ap ops lenA lenB).set0 f v).size = f.size := by
  show (f.set! 0 v).size = f.size
  simp

/-- **one step of the real kernels** on a non-degenerate rectangle with one-hot start states is `absMeet` -/
theorem realStep_eq (ap : AlnParam ExactScore) (gpo gpe tgpe : Int) (s : Nat → Nat → Int)
    (hap : ApOK ap gpo gpe tgpe s) (seq1 seq2 : Array Nat) (lenA lenB : Nat)
    (f b : Array (States ExactScore)) (sa mid ea sb eb : Nat) (fk bk : Kind)
    (h1 : sa ≤ mid) (h2 : mid ≤ ea) (h3 : ea ≤ lenA) (h4 : sb < eb) (h5 : eb ≤ lenB)
    (hf : lenB + 1 ≤ f.size) (hb : lenB + 1 ≤ b.size)
    (hf0 : f.getD 0 States.negInf = hot fk) (hb0 : b.getD 0 States.negInf = hot bk) :
    ∃ f' b', realStep ap (.seqseq seq1 seq2) lenA lenB f b sa mid ea sb eb =
        some ⟨f', b',
          (absMeet (cfgF gpo gpe tgpe s seq1 seq2 ⟨sa, mid, sb, eb, lenB⟩)
            (cfgB gpo gpe tgpe s seq1 seq2 ⟨mid, ea, sb, eb, lenB⟩) (mid - sa) (ea - mid) (hot fk) (hot bk) sb eb).meet,
          (absMeet (cfgF gpo gpe tgpe s seq1 seq2 ⟨sa, mid, sb, eb, lenB⟩)
            (cfgB gpo gpe tgpe s seq1 seq2 ⟨mid, ea, sb, eb, lenB⟩) (mid - sa) (ea - mid) (hot fk) (hot bk) sb
            eb).transition,
          (absMeet (cfgF gpo gpe tgpe s seq1 seq2 ⟨sa, mid, sb, eb, lenB⟩)
            (cfgB gpo gpe tgpe s seq1 seq2 ⟨mid, ea, sb, eb, lenB⟩) (mid - sa) (ea - mid) (hot fk) (hot bk) sb
            eb).score⟩ ∧
      f'.size = f.size ∧ b'.size = b.size := by
  have hcond : (0 : Int) ≤ sa ∧ (sa : Int) ≤ mid ∧ (mid : Int) ≤ ea ∧ (ea : Int) ≤ lenA ∧ (0 : Int) ≤ sb ∧
      (sb : Int) < eb ∧ (eb : Int) ≤ lenB ∧ 0 < f.size ∧ 0 < b.size := by
    refine ⟨by omega, by omega, by omega, by omega, by omega, by omega, by omega, by omega, by omega⟩
  unfold realStep
  rw [if_pos hcond]
  simp only [Int.toNat_natCast, kForward, kBackward, hf0, hb0]
  have hlenF : (ssForward ap seq1 seq2 ⟨sa, mid, sb, eb, lenB⟩ (hot fk)).length = eb - sb + 1 := by
    rw [ssForward_eq_absTab ap gpo gpe tgpe s hap seq1 seq2 _ h4]; simp
  have hlenB : (ssBackward ap seq1 seq2 ⟨mid, ea, sb, eb, lenB⟩ (hot bk)).length = eb - sb + 1 := by
    rw [ssBackward_eq_absTab ap gpo gpe tgpe s hap seq1 seq2 _ h4 h2]; simp
  obtain ⟨f', hf'⟩ := blit_some f sb (ssForward ap seq1 seq2 ⟨sa, mid, sb, eb, lenB⟩ (hot fk))
    (by rw [hlenF]; omega)
  obtain ⟨b', hb'⟩ := blit_some b sb (ssBackward ap seq1 seq2 ⟨mid, ea, sb, eb, lenB⟩ (hot bk))
    (by rw [hlenB]; omega)
  refine ⟨f', b', ?_, blit_size _ _ _ _ hf', blit_size _ _ _ _ hb'⟩
  rw [hf', hb']
  simp only
  have := ssMeet_eq ap gpo gpe tgpe s hap seq1 seq2 sa mid ea sb eb lenB h4 h2 (hot fk) (hot bk)
  simp only at this
  simp only [kMeetup]
  rw [this]

end Kalign
