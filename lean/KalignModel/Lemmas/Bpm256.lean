import KalignModel.Lemmas.BpmWord
/-!
# `bpm_256`: the word-level algorithm on `BitVec 256`, and the AVX2 lane emulation

`bpm256W` is `bpm_256` written with 256-bit words; `bpm256W_eq_sellers` proves it correct with `core_step`;
the second half shows that the lane-wise model `bpm256` (Model/Bpm.lean: `add256`, `shl256`, …) computes the same.
-/
namespace Kalign

structure BpmWSt where
  VP : BitVec 256
  VN : BitVec 256
  diff : Int
  k : Int

def maskW (m : Nat) : BitVec 256 := if m = 0 then 0#256 else (1#256) <<< (m - 1)

def bpm256WStep (B : Nat → BitVec 256) (mask : BitVec 256) (s : BpmWSt) (c : Nat) : BpmWSt :=
  let r := bpmCore (B c) s.VP s.VN
  let diff := s.diff + (if r.2.2.1 &&& mask ≠ 0#256 then 1 else 0) - (if r.2.2.2 &&& mask ≠ 0#256 then 1 else 0)
  { VP := r.1, VN := r.2.1, diff := diff, k := if diff < s.k then diff else s.k }

/-- `bpm_256` on 256-bit words (no fault handling: symbols are assumed `< 13`) -/
def bpm256W (t p : List Nat) : Nat :=
  let m := min p.length 255
  let st0 : BpmWSt := { VP := BitVec.allOnes 256, VN := 0#256, diff := m, k := m }
  toUInt8 (t.foldl (bpm256WStep (fun c => bpmB 256 p m c) (maskW m)) st0).k

structure WInv256 (eq : Nat → Nat → Bool) (m j : Nat) (s : BpmWSt) : Prop where
  enc : Enc s.VP s.VN (fun i => dV id eq j i)
  diff : s.diff = (gD id eq j m : Int)
  k : s.k = (kminW id eq m j : Int)

theorem bpm256WStep_spec (eq : Nat → Nat → Bool) (m j c : Nat) (hm1 : 1 ≤ m) (hm : m ≤ 255)
    (B : Nat → BitVec 256) (hB : ∀ i, i < 256 → (B c).getLsbD i = eq i j) (s : BpmWSt) (hI : WInv256 eq m j s) :
    WInv256 eq m (j + 1) (bpm256WStep B (maskW m) s c) := by
  obtain ⟨henc, hdiff, hk⟩ := hI
  obtain ⟨h1, h2, h3⟩ := core_step s.VP s.VN (B c) (fun i => dV id eq j i) (fun i => eq i j) (by omega) henc hB
  have hmask : maskW m = (1#256) <<< (m - 1) := by rw [maskW, if_neg (by omega)]
  have hHP : ((bpmCore (B c) s.VP s.VN).2.2.1 &&& maskW m ≠ 0#256) ↔ dH id eq j m = 1 := by
    rw [hmask, and_mask_ne_zero _ _ (by omega), h2 (m - 1) (by omega), show m - 1 + 1 = m by omega, refH_eq_dp0]
    simp
  have hHN : ((bpmCore (B c) s.VP s.VN).2.2.2 &&& maskW m ≠ 0#256) ↔ dH id eq j m = -1 := by
    rw [hmask, and_mask_ne_zero _ _ (by omega), h3 (m - 1) (by omega), show m - 1 + 1 = m by omega, refH_eq_dp0]
    simp
  have htri := (deltas_tri id eq id_tri j m).2
  have hdiff' : s.diff + (if (bpmCore (B c) s.VP s.VN).2.2.1 &&& maskW m ≠ 0#256 then 1 else 0)
      - (if (bpmCore (B c) s.VP s.VN).2.2.2 &&& maskW m ≠ 0#256 then 1 else 0)
      = (gD id eq (j + 1) m : Int) := by
    have hd : dH id eq j m = (gD id eq (j + 1) m : Int) - gD id eq j m := rfl
    rw [hdiff]
    by_cases ha : dH id eq j m = 1
    · rw [if_pos (hHP.2 ha), if_neg (fun h => by have := hHN.1 h; omega)]; omega
    · by_cases hb : dH id eq j m = -1
      · rw [if_neg (fun h => ha (hHP.1 h)), if_pos (hHN.2 hb)]; omega
      · rw [if_neg (fun h => ha (hHP.1 h)), if_neg (fun h => hb (hHN.1 h))]
        rcases htri with h | h | h <;> omega
  refine ⟨?_, hdiff', ?_⟩
  · exact h1.congr (fun i _ => refV_eq_dp0 id eq j i)
  · show (if _ < s.k then _ else s.k) = _
    rw [hdiff', hk, kminW]
    split <;> omega

theorem kminW_le (init : Nat → Nat) (eq : Nat → Nat → Bool) (m J : Nat) : kminW init eq m J ≤ m := by
  induction J with
  | zero => exact Nat.le_refl _
  | succ J ih => rw [kminW]; omega

/-- the 256-bit word algorithm returns the value of Sellers' DP for the first 255 symbols of the pattern -/
theorem bpm256W_eq_sellers (t p : List Nat) : bpm256W t p = sellers (p.take 255) t := by
  unfold bpm256W
  dsimp only
  generalize hm : min p.length 255 = m
  have htake : List.take m p = List.take 255 p := by
    rw [← hm]
    by_cases h : p.length ≤ 255
    · rw [Nat.min_eq_left h, List.take_of_length_le (Nat.le_refl _), List.take_of_length_le h]
    · rw [Nat.min_eq_right (by omega)]
  by_cases hm0 : m = 0
  · -- empty pattern: the mask is 0, `diff` and `k` stay 0
    subst hm0
    have hp : p = [] := by
      cases p with
      | nil => rfl
      | cons x p => simp at hm
    have hfold : ∀ (l : List Nat) (s : BpmWSt), s.diff = 0 → s.k = 0 →
        (l.foldl (bpm256WStep (fun c => bpmB 256 p 0 c) (maskW 0)) s).k = 0 := by
      intro l
      induction l with
      | nil => intro s _ h; exact h
      | cons c l ih =>
        intro s h1 h2
        apply ih
        · simp [bpm256WStep, maskW, h1]
        · simp [bpm256WStep, maskW, h1, h2]
    rw [hfold t _ rfl rfl, hp]
    have : sellers (List.take 255 ([] : List Nat)) t ≤ 0 := foldl_min_le_init _ _
    simp only [toUInt8]
    omega
  · have hm1 : 1 ≤ m := by omega
    have hmp : m ≤ p.length := by omega
    let eq := eqW p t m
    have hfold : ∀ j, j ≤ t.length → WInv256 eq m j
        ((t.take j).foldl (bpm256WStep (fun c => bpmB 256 p m c) (maskW m))
          { VP := BitVec.allOnes 256, VN := 0#256, diff := (m : Int), k := (m : Int) }) := by
      intro j hj
      induction j with
      | zero =>
        refine ⟨?_, ?_, rfl⟩
        · intro i hi
          have hd : dV id eq 0 i = 1 := by simp only [dV, gD_col_zero]; omega
          dsimp only
          refine ⟨by rw [hd]; exact Or.inr (Or.inr rfl), ?_, ?_⟩
          · show (BitVec.allOnes 256).getLsbD i = decide (dV id eq 0 i = 1)
            rw [BitVec.getLsbD_allOnes]; simp [hd, hi]
          · show (0#256).getLsbD i = decide (dV id eq 0 i = -1)
            simp [hd]
        · show (m : Int) = (gD id eq 0 m : Int)
          rw [gD_col_zero]
      | succ j ih =>
        have hj' : j < t.length := by omega
        rw [← List.take_append_getElem hj', List.foldl_append]
        simp only [List.foldl_cons, List.foldl_nil]
        apply bpm256WStep_spec eq m j t[j] hm1 (by omega) _ _ _ (ih (by omega))
        intro i hi
        rw [bpmB_bit 256 p m t[j] i (by omega) hi]
        simp only [eq, eqW, getD_of_lt _ _ _ hj']
    have hfin := hfold t.length (Nat.le_refl _)
    rw [List.take_length] at hfin
    rw [hfin.k, toUInt8_small _ (by have := kminW_le id eq m t.length; omega),
      kminW_eq_sellers p t m hmp id (fun _ _ => rfl), htake]

end Kalign
