import KalignModel.Lemmas.NoFaultRun
/-!
# The monitor of the Hirschberg controller stays `true` (Model/Hirschberg.lean), generically in the kernels

`runnerSerial_mon`: for kernels whose every answer on a rectangle satisfying `Q` (with one-hot boundary states) satisfies
the meetup contract and re-establishes `Q` for the rectangles of both recursive calls (`StepMon`), a run of
`aln_runner_serial` from a memory with `mon = true` ends with `mon = true`.  Same induction on the fuel as
`runnerSerial_core` (Lemmas/NoFaultRun.lean), which provides the `MemCore` part for the intermediate memories.
-/
namespace Kalign
variable {φ α : Type}

/-- a property `Q fk bk sa ea sb eb` of (boundary kinds, rectangle) required of the two recursive calls of `aln_continue` for transition `t` -/
def ChildrenQ (Q : Kind → Kind → Int → Int → Int → Int → Prop) (fk bk : Kind) (sa ea sb eb mid meet t : Int) : Prop :=
  (t = 1 → Q fk .A sa (mid - 1) sb (meet - 1) ∧ Q .A bk (mid + 1) ea (meet + 1) eb) ∧
  (t = 2 → Q fk .A sa (mid - 1) sb (meet - 1) ∧ Q .GA bk mid ea (meet + 1) eb) ∧
  (t = 3 → Q fk .A sa (mid - 1) sb (meet - 1) ∧ Q .GB bk (mid + 1) ea meet eb) ∧
  (t = 5 → Q fk .GA sa mid sb (meet - 1) ∧ Q .A bk (mid + 1) ea (meet + 1) eb) ∧
  (t = 6 → Q fk .GB sa (mid - 1) sb meet ∧ Q .GB bk (mid + 1) ea meet eb) ∧
  (t = 7 → Q fk .GB sa (mid - 1) sb meet ∧ Q .A bk (mid + 1) ea (meet + 1) eb)

/-- what the controller needs from the kernels for the monitor: on a non-degenerate rectangle inside the operands whose slot-0
states are the one-hot states of the boundary kinds and which satisfies `Q`, every answer of `step` satisfies the meetup
contract and `Q` holds again for the rectangles of both recursive calls -/
structure StepMon (K : Kernels φ α) (S : φ → Prop) (Q : Kind → Kind → Int → Int → Int → Int → Prop) (lenA lenB : Nat) : Prop where
  safe : StepSafe K S lenA lenB
  get_set : ∀ f s, S f → K.get0 (K.set0 f s) = s
  step : ∀ f b (fk bk : Kind) (sa ea sb eb : Int), S f → S b → K.get0 f = K.st fk → K.get0 b = K.st bk →
    0 ≤ sa → sa < ea → ea ≤ lenA → 0 ≤ sb → sb < eb → eb ≤ lenB → Q fk bk sa ea sb eb →
    ∀ r, K.step f b sa ((ea - sa) / 2 + sa) ea sb eb = some r →
      meetupContract fk bk sa ea sb eb ((ea - sa) / 2 + sa) r.meet r.transition = true ∧
      ChildrenQ Q fk bk sa ea sb eb ((ea - sa) / 2 + sa) r.meet r.transition

/-- precondition of a call for the monitor -/
structure MonOK (K : Kernels φ α) (Q : Kind → Kind → Int → Int → Int → Int → Prop) (m : Mem φ α) : Prop where
  mon : m.mon = true
  f0 : K.get0 m.f = K.st m.fk
  b0 : K.get0 m.b = K.st m.bk
  q : Q m.fk m.bk m.starta m.enda m.startb m.endb

theorem alnFwd_monOK {K : Kernels φ α} {S : φ → Prop} {Q : Kind → Kind → Int → Int → Int → Int → Prop} {lenA lenB : Nat}
    (hK : StepMon K S Q lenA lenB) {m : Mem φ α} (h : MemCore S lenA m) (hmon : m.mon = true) (fk k2 : Kind)
    (a b c d : Int) (hq : Q fk k2 a b c d) : MonOK K Q (alnFwd K m (K.st fk) fk k2 a b c d) :=
  { mon := hmon
    f0 := hK.get_set _ _ h.f
    b0 := hK.get_set _ _ h.b
    q := hq }

theorem alnBwd_monOK {K : Kernels φ α} {S : φ → Prop} {Q : Kind → Kind → Int → Int → Int → Int → Prop} {lenA lenB : Nat}
    (hK : StepMon K S Q lenA lenB) {m : Mem φ α} (h : MemCore S lenA m) (hmon : m.mon = true) (bk k3 : Kind)
    (a b c d : Int) (hq : Q k3 bk a b c d) : MonOK K Q (alnBwd K m (K.st bk) bk k3 a b c d) :=
  { mon := hmon
    f0 := hK.get_set _ _ h.f
    b0 := hK.get_set _ _ h.b
    q := hq }

/-- `aln_continue` keeps the monitor when the recursive calls do (`t` is one of the six, `meet` inside `sb..eb`,
`Q` holds for both children) -/
theorem alnContinue_mon {K : Kernels φ α} {S : φ → Prop} {Q : Kind → Kind → Int → Int → Int → Int → Prop} {lenA lenB n : Nat}
    (hK : StepMon K S Q lenA lenB)
    (rec : Mem φ α → Mem φ α) (hrec : ∀ x, CallOK S lenA lenB n x → MemCore S lenA (rec x))
    (hrecm : ∀ x, CallOK S lenA lenB n x → MonOK K Q x → (rec x).mon = true)
    (m : Mem φ α) (hm : MemCore S lenA m) (hmon : m.mon = true) (fk bk : Kind) (sa ea sb eb mid meet t : Int)
    (h0 : 0 ≤ sa) (h1 : sa ≤ mid) (h2 : mid < ea) (h3 : ea ≤ lenA) (h4 : 0 ≤ sb) (h5 : sb < eb) (h6 : eb ≤ lenB)
    (hfuel : (ea - sa).toNat + (eb - sb).toNat ≤ n)
    (ht : ValidT t) (hm1 : sb ≤ meet) (hm2 : meet ≤ eb)
    (hq : ChildrenQ Q fk bk sa ea sb eb mid meet t) :
    (alnContinue K rec m (K.st fk) (K.st bk) fk bk sa ea sb eb mid meet t).mon = true := by
  have two : ∀ (m3 : Mem φ α), MemCore S lenA m3 → m3.mon = true → ∀ (k2 k3 : Kind) (a b c d a' b' c' d' : Int),
      Q fk k2 a b c d → Q k3 bk a' b' c' d' →
      0 ≤ a → b ≤ lenA → 0 ≤ c → d ≤ lenB → (b - a).toNat + (d - c).toNat < n →
      0 ≤ a' → b' ≤ lenA → 0 ≤ c' → d' ≤ lenB → (b' - a').toNat + (d' - c').toNat < n →
      (rec (alnBwd K (rec (alnFwd K m3 (K.st fk) fk k2 a b c d)) (K.st bk) bk k3 a' b' c' d')).mon = true := by
    intro m3 h3' hmon3 k2 k3 a b c d a' b' c' d' q1' q2' p1 p2 p3 p4 p5 q1 q2 q3 q4 q5
    have c1 := alnFwd_callOK (n := n) hK.safe h3' (K.st fk) fk k2 a b c d p1 p2 p3 p4 p5
    have r1c := hrec _ c1
    have r1m := hrecm _ c1 (alnFwd_monOK hK h3' hmon3 fk k2 a b c d q1')
    exact hrecm _ (alnBwd_callOK hK.safe r1c (K.st bk) bk k3 a' b' c' d' q1 q2 q3 q4 q5)
      (alnBwd_monOK hK r1c r1m bk k3 a' b' c' d' q2')
  obtain ⟨hq1, hq2, hq3, hq5, hq6, hq7⟩ := hq
  rcases ht with h | h | h | h | h | h <;> subst h
  · rw [alnContinue_1]
    obtain ⟨qa, qb⟩ := hq1 rfl
    exact two _ (setPath_core (setPath_core hm _ _ (by omega) (by omega)) _ _ (by omega) (by omega)) (by simpa using hmon)
      _ _ _ _ _ _ _ _ _ _ qa qb
      (by omega) (by omega) (by omega) (by omega) (by omega) (by omega) (by omega) (by omega) (by omega) (by omega)
  · rw [alnContinue_2]
    obtain ⟨qa, qb⟩ := hq2 rfl
    exact two _ (setPath_core hm _ _ (by omega) (by omega)) (by simpa using hmon) _ _ _ _ _ _ _ _ _ _ qa qb
      (by omega) (by omega) (by omega) (by omega) (by omega) (by omega) (by omega) (by omega) (by omega) (by omega)
  · rw [alnContinue_3]
    obtain ⟨qa, qb⟩ := hq3 rfl
    exact two _ (setPath_core hm _ _ (by omega) (by omega)) (by simpa using hmon) _ _ _ _ _ _ _ _ _ _ qa qb
      (by omega) (by omega) (by omega) (by omega) (by omega) (by omega) (by omega) (by omega) (by omega) (by omega)
  · rw [alnContinue_5]
    obtain ⟨qa, qb⟩ := hq5 rfl
    exact two _ (setPath_core hm _ _ (by omega) (by omega)) (by simpa using hmon) _ _ _ _ _ _ _ _ _ _ qa qb
      (by omega) (by omega) (by omega) (by omega) (by omega) (by omega) (by omega) (by omega) (by omega) (by omega)
  · rw [alnContinue_6]
    obtain ⟨qa, qb⟩ := hq6 rfl
    exact two _ hm hmon _ _ _ _ _ _ _ _ _ _ qa qb
      (by omega) (by omega) (by omega) (by omega) (by omega) (by omega) (by omega) (by omega) (by omega) (by omega)
  · rw [alnContinue_7]
    obtain ⟨qa, qb⟩ := hq7 rfl
    exact two _ (setPath_core hm _ _ (by omega) (by omega)) (by simpa using hmon) _ _ _ _ _ _ _ _ _ _ qa qb
      (by omega) (by omega) (by omega) (by omega) (by omega) (by omega) (by omega) (by omega) (by omega) (by omega)

/-- **the monitor stays true** -/
theorem runnerSerial_mon {K : Kernels φ α} {S : φ → Prop} {Q : Kind → Kind → Int → Int → Int → Int → Prop} {lenA lenB : Nat}
    (hK : StepMon K S Q lenA lenB) (n : Nat) (m : Mem φ α) (h : CallOK S lenA lenB n m) (hm : MonOK K Q m) :
    (runnerSerial K false n m).mon = true := by
  induction n generalizing m with
  | zero => exact absurd h.fuel (by omega)
  | succ n ih =>
    rw [runnerSerial]
    have hf : ¬ m.fault = true := by simp [h.core.fault]
    rw [if_neg hf]
    by_cases ha : m.starta ≥ m.enda
    · rw [if_pos ha]; exact hm.mon
    rw [if_neg ha]
    by_cases hb : m.startb ≥ m.endb
    · rw [if_pos hb]; exact hm.mon
    rw [if_neg hb]
    unfold runnerBody
    simp only [Bool.false_eq_true, if_false]
    have hmid1 : m.starta ≤ (m.enda - m.starta) / 2 + m.starta := by omega
    have hmid2 : (m.enda - m.starta) / 2 + m.starta < m.enda := by omega
    obtain ⟨r, hr, hrf, hrb, -⟩ := hK.safe.step m.f m.b m.starta ((m.enda - m.starta) / 2 + m.starta) m.enda m.startb m.endb
      h.core.f h.core.b h.sa hmid1 (by omega) h.ea h.sb (by omega) h.eb
    obtain ⟨hc, hq⟩ := hK.step m.f m.b m.fk m.bk m.starta m.enda m.startb m.endb h.core.f h.core.b hm.f0 hm.b0
      h.sa (by omega) h.ea h.sb (by omega) h.eb hm.q r hr
    rw [hr]
    simp only
    have hfu := h.fuel
    unfold Mem.meas at hfu
    obtain ⟨hm1, hm2, hcases⟩ := contract_unfold _ _ _ _ _ _ _ _ _ hc
    have ht : ValidT r.transition := by
      unfold ValidT
      rcases hcases with t | t | t | t | t | t
      · exact Or.inl t.1
      · exact Or.inr (Or.inl t.1)
      · exact Or.inr (Or.inr (Or.inl t.1))
      · exact Or.inr (Or.inr (Or.inr (Or.inl t.1)))
      · exact Or.inr (Or.inr (Or.inr (Or.inr (Or.inl t.1))))
      · exact Or.inr (Or.inr (Or.inr (Or.inr (Or.inr t.1))))
    rw [hm.f0, hm.b0]
    refine alnContinue_mon hK _ (fun x hx => runnerSerial_core hK.safe n x hx) (fun x hx hxm => ih x hx hxm) _ ?_ ?_
      _ _ _ _ _ _ _ _ _ h.sa hmid1 hmid2 h.ea h.sb (by omega) h.eb (by omega) ht hm1 hm2 hq
    · exact ⟨h.core.fault, hrf, hrb, h.core.path⟩
    · show (m.mon && _) = true
      rw [hm.mon, hc]; rfl

/-- the entry point used by `do_align` (`alnRun .serial` is `runnerSerial K false m.fuel m`) -/
theorem runnerSerial_mon_fuel {K : Kernels φ α} {S : φ → Prop} {Q : Kind → Kind → Int → Int → Int → Int → Prop} {lenA lenB : Nat}
    (hK : StepMon K S Q lenA lenB) (m : Mem φ α) (hcore : MemCore S lenA m) (hsa : 0 ≤ m.starta) (hea : m.enda ≤ lenA)
    (hsb : 0 ≤ m.startb) (heb : m.endb ≤ lenB) (hm : MonOK K Q m) : (runnerSerial K false m.fuel m).mon = true :=
  runnerSerial_mon hK m.fuel m ⟨hcore, hsa, hea, hsb, heb, by unfold Mem.fuel Mem.meas; omega⟩ hm

/-! ## non-vacuity: a toy instance of the hypotheses (1 x 1 operands) -/

/-- toy kernels: always cut at `startb` with transition 1 -/
def MonCtrl.toyK : Kernels (States Unit) Unit :=
  { get0 := id, set0 := fun _ s => s, step := fun f b _ _ _ sb _ => some ⟨f, b, sb, 1, ()⟩,
    stA := ⟨(), (), ()⟩, stGA := ⟨(), (), ()⟩, stGB := ⟨(), (), ()⟩ }

def MonCtrl.toyQ (fk _bk : Kind) (sa ea sb eb : Int) : Prop := ea ≤ sa + 1 ∧ eb ≤ sb + 1 ∧ (sa < ea → sb < eb → fk = .A)

theorem MonCtrl.toy_stepMon : StepMon MonCtrl.toyK (fun _ => True) MonCtrl.toyQ 1 1 where
  safe := ⟨fun _ _ _ => trivial, fun f b sa mid ea sb eb _ _ _ _ _ _ _ _ _ =>
    ⟨_, rfl, trivial, trivial, fun _ => ⟨Int.le_refl _, by show sb ≤ eb; omega⟩⟩⟩
  get_set := fun _ _ _ => rfl
  step := by
    intro f b fk bk sa ea sb eb _ _ _ _ h0 h1 h2 h3 h4 h5 hq r hr
    obtain ⟨q1, q2, q3⟩ := hq
    have e1 : ea = sa + 1 := by omega
    have e2 : eb = sb + 1 := by omega
    have e3 := q3 h1 h4
    subst e1 e2 e3
    have hmid : (sa + 1 - sa) / 2 + sa = sa := by omega
    rw [hmid]
    simp only [MonCtrl.toyK, Option.some.injEq] at hr
    subst hr
    refine ⟨?_, ?_⟩
    · cases bk <;> simp [meetupContract, childOK, segEnd, Kind.compat] <;> omega
    · unfold ChildrenQ MonCtrl.toyQ
      dsimp only
      refine ⟨fun _ => ⟨⟨by omega, by omega, fun _ _ => rfl⟩, ⟨by omega, by omega, fun h _ => by omega⟩⟩, ?_, ?_, ?_, ?_, ?_⟩ <;>
        intro h <;> exact absurd h (by decide)

def MonCtrl.toyMem : Mem (States Unit) Unit :=
  ⟨⟨(), (), ()⟩, ⟨(), (), ()⟩, #[-1, -1, -1], 0, 1, 0, 1, 0, 0, none, .A, .A, true, false, []⟩

/-- the hypotheses of `runnerSerial_mon_fuel` hold for the toy kernels on the full 1 x 1 rectangle -/
example : (runnerSerial MonCtrl.toyK false MonCtrl.toyMem.fuel MonCtrl.toyMem).mon = true :=
  runnerSerial_mon_fuel MonCtrl.toy_stepMon _ ⟨rfl, trivial, trivial, by decide⟩ (by decide) (by decide) (by decide) (by decide)
    ⟨rfl, rfl, rfl, by decide, by decide, fun _ _ => rfl⟩

end Kalign
