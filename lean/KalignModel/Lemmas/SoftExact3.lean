import KalignModel.Lemmas.SoftExact1
/-!
# A sharp bound for the tie-break term of the meetup on the software binary32

`Score.tie c2 c3 i = fabsf((float)(c3 - c2)/2.0F + (float)c2 - (float)i) / 1000.0F`.  The numerator is computed exactly:
`w/2` with `w = |c3 + c2 − 2i|` (`tie_numer`).  The quotient by 1000 is not dyadic, but correctly rounded division is monotone and
every half-integer is representable, so it is at most `(w/1000 + 1)/2` (`div_thousand_le`, `tie_le`): in units of 1/2000 score
units the `SoftF32` term is at most `w + 1000`, where the exact term is `w`.
-/
set_option exponentiation.threshold 512
namespace Kalign.SoftF32

theorem ex_le_of_magVal {g t : Nat} (h : magVal g < 2 ^ (t + 24)) : magExp g ≤ t := by
  have hv : magVal ((t + 2) * 8388608) = 2 ^ (t + 24) := by
    have := magVal_enc (t + 1) 8388608 (Or.inr (Nat.le_refl _)) (by decide)
    have e : (t + 1) * 8388608 + 8388608 = (t + 2) * 8388608 := by omega
    rw [e] at this
    have e2 : (2 : Nat) ^ (t + 24) = 8388608 * 2 ^ (t + 1) := by
      have : t + 24 = 23 + (t + 1) := by omega
      rw [this, Nat.pow_add]
    rw [this, e2]
  rw [← hv, magVal_lt_iff] at h
  unfold magExp
  have : g / 8388608 < t + 2 := by
    rw [Nat.div_lt_iff_lt_mul (by decide)]; exact h
  omega

/-- `x / 1000` is at most any representable `c·2^t ≥ x/1000` whose last place is far enough above the quotient's -/
theorem div_thousand_le {a : SoftF32} (ha : a.isFinite = true) (ha0 : a.mag ≠ 0) (he : 37 ≤ a.ex) {c t : Nat}
    (hc : c < 16777216) (ht1 : a.ex ≤ t + 36) (ht2 : t ≤ 253) (hX : magVal a.mag ≤ 1000 * (c * 2 ^ t)) :
    (div a thousand).sign = a.sign ∧ (div a thousand).mag < 2139095040 ∧ magVal (div a thousand).mag ≤ c * 2 ^ t := by
  have htf : thousand.isFinite = true := by decide
  have ht0 : thousand.mag ≠ 0 := by decide
  have hts : thousand.sig = 16384000 := by decide
  have hte : thousand.ex = 135 := by decide
  have htsg : thousand.sign = false := by decide
  rw [div_nat_path ha htf ha0 ht0 (by rw [hte]; omega), hts, hte, htsg]
  generalize hm : 2 * (a.sig * 2 ^ 50 / 16384000) + (if a.sig * 2 ^ 50 % 16384000 = 0 then 0 else 1) = m
  obtain ⟨e, hee⟩ : ∃ e, a.ex = e + 37 := ⟨a.ex - 37, by omega⟩
  obtain ⟨u, hu⟩ : ∃ u, t = u + 1 + e := ⟨t - 1 - e, by omega⟩
  have hexp : a.ex + 98 - 135 = e := by omega
  rw [hexp]
  -- the bound in terms of `Y = c·2^u`
  have hS : a.sig * 2 ^ 36 ≤ 1000 * (c * 2 ^ u) := by
    have h0 : magVal a.mag = a.sig * 2 ^ a.ex := (sig_mul_ex a).symm
    have hex' : a.ex = 36 + (1 + e) := by omega
    have hu' : t = u + (1 + e) := by omega
    rw [h0, hex', hu', Nat.pow_add, Nat.pow_add 2 u] at hX
    have e1 : a.sig * (2 ^ 36 * 2 ^ (1 + e)) = (a.sig * 2 ^ 36) * 2 ^ (1 + e) := by
      rw [Nat.mul_assoc]
    have e2 : 1000 * (c * (2 ^ u * 2 ^ (1 + e))) = (1000 * (c * 2 ^ u)) * 2 ^ (1 + e) := by
      rw [Nat.mul_assoc, Nat.mul_assoc]
    rw [e1, e2] at hX
    exact Nat.le_of_mul_le_mul_right hX (Nat.pow_pos (by decide))
  have hmle : m ≤ 2 * (c * 2 ^ u) := by
    rw [← hm]
    have h50 : a.sig * 2 ^ 50 = (a.sig * 2 ^ 36) * 16384 := by
      have : (2 : Nat) ^ 50 = 2 ^ 36 * 2 ^ 14 := by rw [← Nat.pow_add]
      rw [this, Nat.mul_assoc]
    have hd : (16384000 : Nat) = 1000 * 16384 := by decide
    rw [h50, hd, Nat.mul_div_mul_right _ _ (by decide : 0 < 16384), Nat.mul_mod_mul_right]
    obtain ⟨Y, hY⟩ : ∃ Y, Y = c * 2 ^ u := ⟨_, rfl⟩
    obtain ⟨N, hN⟩ : ∃ N, N = a.sig * 2 ^ 36 := ⟨_, rfl⟩
    rw [← hY, ← hN] at hS
    rw [← hY, ← hN]
    split <;> omega
  have hval : m * 2 ^ e ≤ c * 2 ^ t := by
    have e3 : c * 2 ^ t = 2 * (c * 2 ^ u) * 2 ^ e := by
      rw [hu, Nat.pow_add, Nat.pow_add]
      have h1 : (2 : Nat) ^ 1 = 2 := by decide
      rw [h1]
      generalize (2 : Nat) ^ e = X
      generalize (2 : Nat) ^ u = Z
      ac_rfl
    rw [e3]
    exact Nat.mul_le_mul_right _ hmle
  have hmono := roundNatU_mono hval
  have hmv : magVal (roundNatU c t) = c * 2 ^ t := magVal_roundNatU_small hc
  have hfin : roundNatU c t < 2139095040 := by
    rw [← magVal_lt_iff, hmv, magVal_infMag]
    have h1 : c * 2 ^ t < 16777216 * 2 ^ t := Nat.mul_lt_mul_of_pos_right hc (Nat.pow_pos (by decide))
    have h2 : (2 : Nat) ^ t ≤ 2 ^ 253 := Nat.pow_le_pow_right (by decide) ht2
    have h3 : (16777216 : Nat) * 2 ^ 253 = 2 ^ 277 := by decide
    have h4 : (16777216 : Nat) * 2 ^ t ≤ 16777216 * 2 ^ 253 := Nat.mul_le_mul_left _ h2
    omega
  have hmin : roundNat m e = roundNatU m e := by
    unfold roundNat
    exact Nat.min_eq_left (by simp only [infMag]; omega)
  rw [hmin, sign_pack _ _ (by omega), mag_pack _ _ (by omega)]
  refine ⟨by cases a.sign <;> rfl, by omega, ?_⟩
  have := magVal_mono hmono
  rw [hmv] at this
  exact this

/-- **the numerator of the tie-break term is exact**: `|c3 + c2 − 2i| / 2` -/
theorem tie_numer (sb eb i : Nat) (h1 : sb ≤ i) (h2 : i ≤ eb) (h3 : eb < 4194304) :
    ∃ x : SoftF32, (Score.tie (sb : Int) (eb : Int) (i : Int) : SoftF32) = div (abs x) thousand ∧ x.mag < 2139095040 ∧
      magVal x.mag = ((eb : Int) + sb - 2 * i).natAbs * 2 ^ 148 := by
  show ∃ x : SoftF32, div (abs (sub (add (div (ofInt ((eb : Int) - sb)) two) (ofInt sb)) (ofInt i))) thousand =
    div (abs x) thousand ∧ _
  refine ⟨_, rfl, ?_⟩
  -- (float)(c3 - c2)
  obtain ⟨d, hd⟩ : ∃ d : Nat, (eb : Int) - sb = d := ⟨eb - sb, by omega⟩
  rw [hd]
  have hdlt : (d : Int).natAbs < 16777216 := by omega
  obtain ⟨a1, a2, a3⟩ := ofInt_finite hdlt
  have a3' : (ofInt (d : Int)).sign = false := by rw [a3]; simp
  -- … / 2.0F
  have hH : (div (ofInt (d : Int)) two).mag < 2139095040 ∧ toInt (div (ofInt (d : Int)) two) = ((d * 2 ^ 148 : Nat) : Int) := by
    by_cases hd0 : d = 0
    · subst hd0
      have hm0 : (ofInt ((0 : Nat) : Int)).mag = 0 := by
        apply magVal_eq_zero.1; rw [a2]; simp
      rw [div_zero_left hm0 (by decide) (by decide)]
      have : (pack ((ofInt ((0 : Nat) : Int)).sign != two.sign) 0).mag = 0 := mag_pack _ _ (by decide)
      refine ⟨by omega, ?_⟩
      unfold toInt; rw [this]; simp
    · have hm0 : (ofInt (d : Int)).mag ≠ 0 := by
        intro h
        have := magVal_eq_zero.2 h
        rw [a2] at this
        have : 0 < (d : Int).natAbs * 2 ^ 149 := Nat.mul_pos (by omega) (by decide)
        omega
      have hex : 126 ≤ (ofInt (d : Int)).ex := by
        apply ex_ge_of_magVal
        rw [a2]
        have : 1 * 2 ^ 149 ≤ (d : Int).natAbs * 2 ^ 149 := Nat.mul_le_mul_right _ (by omega)
        omega
      obtain ⟨b1, b2, b3⟩ := div_two (isFinite_of_mag a1) hm0 (by omega)
      refine ⟨b2, ?_⟩
      rw [toInt_of_pos (by rw [b1]; exact a3')]
      rw [a2] at b3
      have e : (d : Int).natAbs = d := by omega
      rw [e] at b3
      have e2 : d * 2 ^ 149 = 2 * (d * 2 ^ 148) := by
        have : (2 : Nat) ^ 149 = 2 * 2 ^ 148 := by decide
        rw [this]
        generalize (2 : Nat) ^ 148 = X
        ac_rfl
      have : magVal (div (ofInt (d : Int)) two).mag = d * 2 ^ 148 := by omega
      rw [this]
  obtain ⟨hH1, hH2⟩ := hH
  -- … + (float)c2
  have hsb : (sb : Int).natAbs < 16777216 := by omega
  have hmidz : toInt (div (ofInt (d : Int)) two) + toInt (ofInt (sb : Int)) = (((d + 2 * sb) * 2 ^ 148 : Nat) : Int) := by
    rw [hH2, toInt_ofInt hsb, Int.natCast_mul d, c149, alg1, cast_grid]
  have hmid := add_eq_packZ (isFinite_of_mag hH1) (isFinite_of_mag (ofInt_finite hsb).1)
  rw [hmidz] at hmid
  obtain ⟨m1, m2⟩ := toInt_packZ_grid (s0 := ((div (ofInt (d : Int)) two).sign && (ofInt (sb : Int)).sign))
    (z := (((d + 2 * sb) * 2 ^ 148 : Nat) : Int)) (c := d + 2 * sb) (t := 148) (Int.natAbs_natCast _) (by omega) (by decide)
  rw [← hmid] at m1 m2
  -- … − (float)i
  have hi : (i : Int).natAbs < 16777216 := by omega
  have hxz : toInt (add (div (ofInt (d : Int)) two) (ofInt (sb : Int))) - toInt (ofInt (i : Int)) =
      ((d : Int) + 2 * sb - 2 * i) * ((2 ^ 148 : Nat) : Int) := by
    rw [m2, toInt_ofInt hi, cast_grid, c149, alg2]
  have hx := sub_eq_packZ (isFinite_of_mag m1) (isFinite_of_mag (ofInt_finite hi).1)
  rw [hxz] at hx
  have hweq : (eb : Int) + sb - 2 * i = (d : Int) + 2 * sb - 2 * i := by omega
  rw [hweq]
  generalize hw : ((d : Int) + 2 * sb - 2 * i).natAbs = w at *
  have hwlt : w < 16777216 := by omega
  obtain ⟨x1, x2⟩ := toInt_packZ_grid
    (s0 := ((add (div (ofInt (d : Int)) two) (ofInt (sb : Int))).sign && !(ofInt (i : Int)).sign))
    (z := ((d : Int) + 2 * sb - 2 * i) * ((2 ^ 148 : Nat) : Int)) (c := w) (t := 148)
    (by rw [Int.natAbs_mul, Int.natAbs_natCast, hw]) hwlt (by decide)
  rw [← hx] at x1 x2
  refine ⟨x1, ?_⟩
  have := natAbs_toInt (sub (add (div (ofInt (d : Int)) two) (ofInt (sb : Int))) (ofInt (i : Int)))
  rw [x2, Int.natAbs_mul, Int.natAbs_natCast, hw] at this
  omega

/-- the tie-break term `x` is finite, non-negative and at most `T/2` score units -/
def TieLe (x : SoftF32) (T : Nat) : Prop :=
  x.mag < 2139095040 ∧ 0 ≤ toInt x ∧ toInt x ≤ (T : Int) * ((2 ^ 148 : Nat) : Int)

theorem TieLe.mono {x : SoftF32} {T T' : Nat} (h : TieLe x T) (hT : T ≤ T') : TieLe x T' := by
  refine ⟨h.1, h.2.1, Int.le_trans h.2.2 ?_⟩
  exact Int.mul_le_mul_of_nonneg_right (by omega) (Int.le_of_lt p148_pos)

/-- **the tie-break term is at most `(|c3 + c2 − 2i| / 1000 + 1) / 2`** (columns below 2²²) -/
theorem tie_le (sb eb i : Nat) (h1 : sb ≤ i) (h2 : i ≤ eb) (h3 : eb < 4194304) :
    TieLe (Score.tie (sb : Int) (eb : Int) (i : Int) : SoftF32) ((eb - sb) / 1000 + 1) := by
  obtain ⟨x, hx, x1, x2⟩ := tie_numer sb eb i h1 h2 h3
  rw [hx]
  generalize hw : ((eb : Int) + sb - 2 * i).natAbs = w at x2
  have hwle : w ≤ eb - sb := by omega
  have hax1 : (abs x).mag = x.mag := mag_abs x
  have hasg : (abs x).sign = false := sign_abs x
  by_cases hw0 : x.mag = 0
  · rw [div_zero_left (by rw [hax1]; exact hw0) (by decide) (by decide)]
    have hm : (pack ((abs x).sign != thousand.sign) 0).mag = 0 := mag_pack _ _ (by decide)
    have ht : toInt (pack ((abs x).sign != thousand.sign) 0) = 0 := by
      unfold toInt; rw [hm]; simp
    refine ⟨by omega, by omega, ?_⟩
    rw [ht]
    exact Int.mul_nonneg (by omega) (Int.le_of_lt p148_pos)
  · have hwpos : 1 ≤ w := by
      have : magVal x.mag ≠ 0 := fun h => hw0 (magVal_eq_zero.1 h)
      rw [x2] at this
      rcases Nat.eq_zero_or_pos w with h | h
      · subst h; simp at this
      · exact h
    have hex : 125 ≤ (abs x).ex := by
      apply ex_ge_of_magVal
      show 2 ^ (125 + 23) ≤ magVal (abs x).mag
      rw [hax1, x2]
      have : 1 * 2 ^ 148 ≤ w * 2 ^ 148 := Nat.mul_le_mul_right _ hwpos
      omega
    have hex2 : (abs x).ex ≤ 148 := by
      apply ex_le_of_magVal
      show magVal (abs x).mag < 2 ^ (148 + 24)
      rw [hax1, x2]
      have : w * 2 ^ 148 < 16777216 * 2 ^ 148 := Nat.mul_lt_mul_of_pos_right (by omega) (by decide)
      have e : (16777216 : Nat) * 2 ^ 148 = 2 ^ (148 + 24) := by decide
      omega
    obtain ⟨t0, t1, t2⟩ := div_thousand_le (a := abs x) (isFinite_of_mag (by rw [hax1]; exact x1))
      (by rw [hax1]; exact hw0) (by omega) (c := w / 1000 + 1) (t := 148) (by omega) (by omega) (by decide)
      (by
        rw [hax1, x2, ← Nat.mul_assoc]
        exact Nat.mul_le_mul_right _ (by omega))
    refine ⟨t1, ?_, ?_⟩
    · rw [toInt_of_pos (by rw [t0]; exact hasg)]; omega
    · rw [toInt_of_pos (by rw [t0]; exact hasg)]
      have hle : (w / 1000 + 1) * 2 ^ 148 ≤ ((eb - sb) / 1000 + 1) * 2 ^ 148 :=
        Nat.mul_le_mul_right _ (by
          have := Nat.div_le_div_right (c := 1000) hwle
          omega)
      have : magVal (div (abs x) thousand).mag ≤ ((eb - sb) / 1000 + 1) * 2 ^ 148 := Nat.le_trans t2 hle
      have h4 : ((magVal (div (abs x) thousand).mag : Nat) : Int) ≤ ((((eb - sb) / 1000 + 1) * 2 ^ 148 : Nat) : Int) :=
        Int.ofNat_le.2 this
      rw [Int.natCast_mul] at h4
      exact h4

end Kalign.SoftF32
