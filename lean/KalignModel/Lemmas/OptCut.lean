import KalignModel.Lemmas.SubLevel
/-!
# The meetup of one level returns a cut of the robustly optimal alignment

`opt_cut`: let `P = P1 ++ X ++ P2` beat every other valid alignment by the safe margin, and let the level work on the
rectangle of `X` with one-hot start states of the boundary kinds.  Then the `(meet, transition)` returned by the meetup
is an admissible cut `X = X1 ++ X2` of `X` on the middle row, and both kernels can walk their part.
-/
namespace Kalign

theorem walkOK_adjOK (c : KCfg) (X : List Col) (p k : Nat) (st : Kind) (h : walkOK c p k st X = true) :
    adjOK st X = true := by
  induction X generalizing p k st with
  | nil => rfl
  | cons col cs ih =>
    simp only [walkOK, Bool.and_eq_true] at h
    simp only [adjOK, Bool.and_eq_true, bne_iff_ne, ne_eq]
    refine ⟨?_, ih _ _ _ h.2⟩
    have h1 := h.1
    cases col with
    | skip => simp [stepOK] at h1
    | both => exact ⟨by simp, Kind.compat_A_right _⟩
    | gapA =>
      simp only [stepOK, Bool.and_eq_true, bne_iff_ne, ne_eq] at h1
      refine ⟨by simp, ?_⟩
      cases st <;> simp_all [colKind, Kind.compat]
    | gapB =>
      simp only [stepOK, Bool.and_eq_true, bne_iff_ne, ne_eq] at h1
      refine ⟨by simp, ?_⟩
      cases st <;> simp_all [colKind, Kind.compat]

theorem hot_get_ne (fk k0 : Kind) (h : k0 ≠ fk) : (hot fk).get k0 = none := by
  cases fk <;> cases k0 <;> simp_all [hot, States.get]

/-- a walk from a one-hot start state with a finite value starts in that kind -/
theorem runF_hot (c : KCfg) (fk k0 : Kind) (X : List Col) (m k : Nat) (st : Kind) (v : Int)
    (h : runF c (initP (hot fk) k0) X = ⟨m, k, st, some v⟩) :
    walkOK c 0 0 fk X = true ∧ v = walkSc c 0 0 fk X ∧ consA X = m ∧ consB X = k ∧ lastKind fk X = st := by
  by_cases hk : k0 = fk
  · subst hk
    rw [initP, hot_get_self, runF_some] at h
    have hv := congrArg PSt.v h
    have hp := congrArg PSt.p h
    have hkk := congrArg PSt.k h
    have hs := congrArg PSt.st h
    simp only [Nat.zero_add] at hp hkk hs hv
    by_cases hok : walkOK c 0 0 k0 X = true
    · rw [if_pos hok] at hv
      exact ⟨hok, by simpa using hv.symm, hp, hkk, hs⟩
    · rw [if_neg hok] at hv; exact absurd hv (by simp)
  · rw [initP, hot_get_ne fk k0 hk, runF_none] at h
    have hv := congrArg PSt.v h
    exact absurd hv (by simp)

theorem tieOf_bounds (sb eb k : Nat) (hk : k ≤ eb - sb) (h : sb ≤ eb) :
    0 ≤ tieOf sb eb k ∧ tieOf sb eb k ≤ ((eb - sb : Nat) : Int) := by
  unfold tieOf
  constructor
  · exact Int.natCast_nonneg _
  · omega

theorem adjOK_change_start (st st' : Kind) (X : List Col) (h : adjOK st X = true)
    (hc : X ≠ [] → st'.compat (firstKind .A X) = true) : adjOK st' X = true := by
  cases X with
  | nil => rfl
  | cons c cs =>
    simp only [adjOK, Bool.and_eq_true, bne_iff_ne, ne_eq] at h ⊢
    have hs : c ≠ .skip := h.1.1
    refine ⟨⟨hs, ?_⟩, ?_⟩
    · have := hc (by simp)
      rw [firstKind_cons_noskip .A st' c cs hs] at this
      exact this
    · rw [colKind_indep st' st c hs]; exact h.2

theorem fk_bk_compat (t : Int) (h : t = 1 ∨ t = 2 ∨ t = 3 ∨ t = 5 ∨ t = 6 ∨ t = 7) :
    (fkOf t).compat (bkOf t) = true := by
  rcases h with h | h | h | h | h | h <;> subst h <;> rfl

theorem Adm.valid {n k : Nat} {t : Int} (h : Adm n k t) : t = 1 ∨ t = 2 ∨ t = 3 ∨ t = 5 ∨ t = 6 ∨ t = 7 := by
  rcases h with h | h
  · exact h.2
  · rcases h.2 with h | h <;> simp [h]

theorem Adm.le {n k : Nat} {t : Int} (h : Adm n k t) : k ≤ n := by
  rcases h with h | h <;> omega

/-! small arithmetic facts, kept out of the big proof (`omega` is slow in a context full of large terms) -/
theorem ar_split {sa mid ea a : Nat} (h1 : sa ≤ mid) (h2 : mid < ea) (h : a = ea - sa) :
    a = (mid - sa) + (ea - mid) := by omega
theorem ar_pos {mid ea : Nat} (h2 : mid < ea) : 1 ≤ ea - mid := by omega
theorem ar_sub {n a b : Nat} (h : a + b = n) : n - a = b := by omega
theorem ar_sumA {lenA sa mid ea x p1 p2 a1 a2 : Nat} (h1 : sa ≤ mid) (h2 : mid < ea)
    (hs : p1 + x + p2 = lenA) (hx : x = ea - sa) (e1 : a1 = mid - sa) (e2 : a2 = ea - mid) :
    p1 + (a1 + a2) + p2 = lenA := by omega
theorem ar_sumB {lenB x p1 p2 k n b2 : Nat} (hs : p1 + x + p2 = lenB) (hx : x = n) (hk : k ≤ n) (e2 : b2 = n - k) :
    p1 + (k + b2) + p2 = lenB := by omega
theorem ar_kn {k n : Nat} (hk : k ≤ n) : k + (n - k) = n := by omega
theorem ar_le_of_add {a b n : Nat} (h : a + b = n) : a ≤ n := by omega
theorem ar_cast_le {eb sb lenB : Nat} (h5 : eb ≤ lenB) : ((eb - sb : Nat) : Int) ≤ (lenB : Int) := by omega
theorem margin_arith {STQ STP g slo shi lenB RP RQ C tp tq nb : Int}
    (hm : STQ + lenB < STP - g - slo - shi) (hP : STP - g - slo ≤ RP + C) (hQ : RQ + C ≤ STQ + shi)
    (hs : RP - tp ≤ RQ - tq) (h0 : 0 ≤ tq) (h1 : tp ≤ nb) (h2 : nb ≤ lenB) : False := by omega

theorem meetVal_some_some (cF : KCfg) (sb eb : Nat) (t : Int) (k : Nat) (v1 v2 : Int) :
    meetVal cF sb eb t k (some v1) (some v2) = some (v1 + v2 - joinCost cF t k - tieOf sb eb k) := rfl

/-- **the meetup returns a cut of the robustly optimal alignment** -/
theorem opt_cut (gpo gpe tgpe : Int) (s : Nat → Nat → Int) (seq1 seq2 : Array Nat) (lenA lenB : Nat)
    (hgpo : 0 ≤ gpo) (hgpe : 0 ≤ gpe) (htgpe : 0 ≤ tgpe)
    (sa mid ea sb eb : Nat) (h1 : sa ≤ mid) (h2 : mid < ea) (h3 : ea ≤ lenA) (h4 : sb < eb) (h5 : eb ≤ lenB)
    (P1 X P2 : List Col)
    (hadj : adjOK .A (P1 ++ X ++ P2) = true)
    (hA : consA (P1 ++ X ++ P2) = lenA) (hB : consB (P1 ++ X ++ P2) = lenB)
    (hP1a : consA P1 = sa) (hP1b : consB P1 = sb) (hXa : consA X = ea - sa) (hXb : consB X = eb - sb)
    (hInvF : (sb = 0 ↔ sa = 0) ∨ lastKind .A P1 = .GB)
    (hInvB : (eb = lenB ↔ ea = lenA) ∨ firstKind .A P2 = .GB)
    (w : STW) (hw : w = ssW gpo gpe tgpe s seq1 seq2 lenA lenB)
    (hmargin : ∀ Q, adjOK .A Q = true → consA Q = lenA → consB Q = lenB → Q ≠ P1 ++ X ++ P2 →
      w.walk 0 0 .A Q + (lenB : Int) <
        w.walk 0 0 .A (P1 ++ X ++ P2) - gpo * (nterm (P1 ++ X ++ P2) : Int) - w.slackLo - w.slackHi)
    (cF cB : KCfg) (fk bk : Kind)
    (hcF : cF = cfgF gpo gpe tgpe s seq1 seq2 ⟨sa, mid, sb, eb, lenB⟩)
    (hcB : cB = cfgB gpo gpe tgpe s seq1 seq2 ⟨mid, ea, sb, eb, lenB⟩)
    (hfkd : fk = lastKind .A P1) (hbkd : bk = firstKind .A P2)
    (res : MeetResult ExactScore) (hres : res = absMeet cF cB (mid - sa) (ea - mid) (hot fk) (hot bk) sb eb) :
    ∃ X1 X2 k t, X = X1 ++ X2 ∧ res.meet = ((sb + k : Nat) : Int) ∧ res.transition = t ∧ Adm (eb - sb) k t ∧
      consA X1 = mid - sa ∧ consB X1 = k ∧ consA X2 = ea - mid ∧ consB X1 + consB X2 = eb - sb ∧
      lastKind fk X1 = fkOf t ∧ lastKind bk X2.reverse = bkOf t ∧
      walkOK cF 0 0 fk X1 = true ∧ walkOK cB 0 0 bk X2.reverse = true := by
  subst hres hw
  have hcn : cF.n = eb - sb := by rw [hcF]; rfl
  have hnn : cB.n = cF.n := by rw [hcF, hcB]; rfl
  have hn : 1 ≤ cF.n := by rw [hcn]; exact Nat.sub_pos_of_lt h4
  -- adjacency of the pieces of `P`
  have hadj' := hadj
  rw [adjOK_append, adjOK_append, Bool.and_eq_true, Bool.and_eq_true] at hadj'
  obtain ⟨⟨hadjP1, hadjX⟩, hadjP2⟩ := hadj'
  rw [lastKind_append, ← hfkd] at hadjP2
  rw [← hfkd] at hadjX
  have hskip := adjOK_noskip _ _ hadj
  have hsP2 : Col.skip ∉ P2 := fun h => hskip (by simp [h])
  have hcompatX : (lastKind fk X).compat bk = true := by
    cases hP2 : P2 with
    | nil => rw [hbkd, hP2]; simp [firstKind, Kind.compat_A_right]
    | cons c cs =>
      rw [hP2] at hadjP2 hsP2
      simp only [adjOK, Bool.and_eq_true, bne_iff_ne, ne_eq] at hadjP2
      rw [hbkd, hP2, firstKind_cons_noskip .A (lastKind fk X) c cs hadjP2.1.1]
      exact hadjP2.1.2
  have hAs := hA; have hBs := hB
  simp only [consA_append, consB_append] at hAs hBs
  -- (1) `X` itself has a cut, so the score is finite and dominates its reading
  obtain ⟨X1p, X2p, tp, hXp, hadmp, hw1p, hA1p, hl1p, hw2p, hA2p, hBBp, hl2p⟩ :=
    cut_exists cF cB hnn fk bk X (mid - sa) (ea - mid) (ar_pos h2) hadjX hcompatX (ar_split h1 h2 hXa) (by rw [hcn]; exact hXb)
  have hr1p : runF cF (initP (hot fk) fk) X1p =
      ⟨mid - sa, consB X1p, fkOf tp, some (walkSc cF 0 0 fk X1p)⟩ := by
    rw [initP, hot_get_self, runF_some, hw1p, hA1p, hl1p]; simp
  have hr2p : runF cB (initP (hot bk) bk) X2p.reverse =
      ⟨ea - mid, cF.n - consB X1p, bkOf tp, some (walkSc cB 0 0 bk X2p.reverse)⟩ := by
    rw [initP, hot_get_self, runF_some, hw2p, consA_reverse, consB_reverse, hA2p, hl2p]
    simp only [Nat.zero_add, if_true, Int.zero_add]
    congr 1
    exact (ar_sub hBBp).symm
  have hsound := absMeet_sound cF cB hn hnn (mid - sa) (ea - mid) (hot fk) (hot bk) sb eb (consB X1p) tp hadmp
    fk bk X1p X2p.reverse _ _ hr1p hr2p
  rw [meetVal_some_some] at hsound
  have hfin : (absMeet cF cB (mid - sa) (ea - mid) (hot fk) (hot bk) sb eb).score ≠ none := by
    intro h0
    have : ole (some (walkSc cF 0 0 fk X1p + walkSc cB 0 0 bk X2p.reverse - joinCost cF tp (consB X1p) -
      tieOf sb eb (consB X1p))) none := by
      rw [← h0]; exact hsound
    simp at this
  -- (2) the score is attained by a pair of walks
  obtain ⟨k, t, hadm, hmeet, htrans, k0F, k0B, X1, X2r, v1, v2, hrun1, hrun2, hscore⟩ :=
    absMeet_attained cF cB hn hnn (mid - sa) (ea - mid) (hot fk) (hot bk) sb eb hfin
  obtain ⟨hw1, hv1, hA1, hB1, hl1⟩ := runF_hot cF fk k0F X1 _ _ _ _ hrun1
  obtain ⟨hw2, hv2, hA2, hB2, hl2⟩ := runF_hot cB bk k0B X2r _ _ _ _ hrun2
  have hkn : k ≤ eb - sb := by rw [← hcn]; exact hadm.le
  have hvalid := hadm.valid
  have hX2rr : X2r.reverse.reverse = X2r := List.reverse_reverse _
  -- the two readings
  have hscoreP : ole (some (levelRead cF cB fk bk X1p X2p tp - tieOf sb eb (consB X1p))) (absMeet cF cB (mid - sa) (ea - mid) (hot fk) (hot bk) sb eb).score := by
    simpa [levelRead] using hsound
  have hscoreQ : (absMeet cF cB (mid - sa) (ea - mid) (hot fk) (hot bk) sb eb).score = some (levelRead cF cB fk bk X1 X2r.reverse t - tieOf sb eb k) := by
    rw [hscore, meetVal_some_some, levelRead, hX2rr, hB1, hv1, hv2]
  rw [hscoreQ, ole_some_some] at hscoreP
  -- (3) the witness is `X`
  have hQX : X1 ++ X2r.reverse = X := by
    refine Classical.byContradiction fun hne => ?_
    -- validity of the competitor
    have hs2r := adjOK_noskip _ _ (walkOK_adjOK cB X2r 0 0 bk hw2)
    have hX2rne : X2r ≠ [] := consA_pos_ne_nil (by rw [hA2]; exact ar_pos h2)
    have hadjX1 : adjOK fk X1 = true := walkOK_adjOK cF X1 0 0 fk hw1
    have hadjX2 : adjOK (fkOf t) X2r.reverse = true :=
      adjOK_reverse bk (fkOf t) X2r (walkOK_adjOK cB X2r 0 0 bk hw2) (by
        rw [hl2, Kind.compat_symm]; exact fk_bk_compat t hvalid)
    have hlastX2 : lastKind (fkOf t) X2r.reverse = firstKind .A X2r := by
      rw [lastKind_reverse _ _ hs2r]; exact firstKind_indep _ _ _ hX2rne hs2r
    have hadjP2' : adjOK (lastKind (fkOf t) X2r.reverse) P2 = true := by
      refine adjOK_change_start _ _ _ hadjP2 (fun _ => ?_)
      rw [hlastX2]
      have := walkOK_adjOK cB X2r 0 0 bk hw2
      cases hX : X2r with
      | nil => exact absurd hX hX2rne
      | cons c cs =>
        rw [hX] at this
        simp only [adjOK, Bool.and_eq_true, bne_iff_ne, ne_eq] at this
        rw [firstKind_cons_noskip .A bk c cs this.1.1, Kind.compat_symm, ← hbkd]
        exact this.1.2
    have hadjQ : adjOK .A (P1 ++ (X1 ++ X2r.reverse) ++ P2) = true := by
      rw [adjOK_append, adjOK_append, adjOK_append, lastKind_append, lastKind_append, hadjP1]
      rw [← hfkd, hadjX1, hl1, hadjX2, hadjP2']; rfl
    have hAQ : consA (P1 ++ (X1 ++ X2r.reverse) ++ P2) = lenA := by
      simp only [consA_append, consA_reverse]
      exact ar_sumA h1 h2 hAs hXa hA1 hA2
    have hBQ : consB (P1 ++ (X1 ++ X2r.reverse) ++ P2) = lenB := by
      simp only [consB_append, consB_reverse]
      exact ar_sumB hBs hXb (by rw [hB1]; exact hkn) (by rw [hB1, hB2, hcn])
    have hQne : P1 ++ (X1 ++ X2r.reverse) ++ P2 ≠ P1 ++ X ++ P2 := by
      intro h
      apply hne
      have := List.append_cancel_right h
      exact List.append_cancel_left this
    have hm := hmargin _ hadjQ hAQ hBQ hQne
    subst hcF hcB hfkd hbkd
    -- bounds for both
    have hbP := sub_level_bounds gpo gpe tgpe s seq1 seq2 lenA lenB hgpo hgpe htgpe sa mid ea sb eb h1 h2 h3 h4 h5
      P1 X1p X2p P2 (by rw [← hXp]; exact hadj) (by rw [← hXp]; exact hA) (by rw [← hXp]; exact hB)
      hP1a hP1b hA1p hA2p (by rw [hBBp]; rfl) hInvF hInvB tp (by rw [← hcn]; exact hadmp) hl1p hl2p hw1p hw2p
    have hbQ := sub_level_bounds gpo gpe tgpe s seq1 seq2 lenA lenB hgpo hgpe htgpe sa mid ea sb eb h1 h2 h3 h4 h5
      P1 X1 X2r.reverse P2 hadjQ hAQ hBQ hP1a hP1b hA1 (by rw [consA_reverse]; exact hA2)
      (by rw [consB_reverse, hB1, hB2, hcn]; exact ar_kn hkn) hInvF hInvB t
      (by rw [hB1]; exact hadm) hl1 (by rw [hX2rr]; exact hl2) hw1 (by rw [hX2rr]; exact hw2)
    simp only at hbP hbQ
    rw [← hXp] at hbP
    have htp := tieOf_bounds sb eb (consB X1p) (by rw [← hcn]; exact ar_le_of_add hBBp) (Nat.le_of_lt h4)
    have htq := tieOf_bounds sb eb k hkn (Nat.le_of_lt h4)
    exact margin_arith hm hbP.1 hbQ.2 hscoreP htq.1 htp.2 (ar_cast_le h5)
  refine ⟨X1, X2r.reverse, k, t, hQX.symm, hmeet, htrans, by rw [← hcn]; exact hadm, hA1, hB1, by rw [consA_reverse]; exact hA2, ?_,
    hl1, by rw [hX2rr]; exact hl2, hw1, by rw [hX2rr]; exact hw2⟩
  rw [consB_reverse, hB1, hB2, hcn]
  exact ar_kn hkn
