import KalignModel.Lemmas.SoftDiv
/-!
# Magnitude bound of a product on the software binary32

`roundFracU m d` (the pattern of `m / 2^d` rounded to nearest-even) is bounded by every grid pattern `G` whose value is at
least `m / 2^d` (`roundFracU_le`); together with `roundNatU_mono` this bounds `SoftF32.mul` (`mul_absLe`).
-/
set_option exponentiation.threshold 512
namespace Kalign.SoftF32

@[simp] theorem roundFracU_zero (d : Nat) : roundFracU 0 d = 0 := by simp [roundFracU]

/-- floor decomposition of the fraction branch: `roundFracU m d` is the pattern `E·2²³ + q` whose value (scaled by `2^d`)
is the largest grid value `≤ m`, or its successor — the successor only if `m` is strictly above that grid value -/
theorem roundFracU_floor {m d : Nat} (hm : m ≠ 0) :
    ∃ E q, (E = 0 ∨ 8388608 ≤ q) ∧ q < 16777216 ∧ q * (2 ^ E * 2 ^ d) ≤ m ∧ m < (q + 1) * (2 ^ E * 2 ^ d) ∧
      (roundFracU m d = E * 8388608 + q ∨ (roundFracU m d = E * 8388608 + q + 1 ∧ q * (2 ^ E * 2 ^ d) < m)) := by
  unfold roundFracU
  rw [if_neg hm]
  have hlo : 2 ^ m.log2 ≤ m := Nat.log2_self_le hm
  have hhi : m < 2 ^ (m.log2 + 1) := Nat.lt_log2_self
  simp only
  generalize hk : max (m.log2 + 1 - 24) d = k
  have hkd : d ≤ k := by omega
  have hkn : m.log2 + 1 ≤ 24 + k := by omega
  have hK : 0 < 2 ^ k := Nat.pow_pos (by decide)
  have hpow : 2 ^ (k - d) * 2 ^ d = 2 ^ k := by
    rw [← Nat.pow_add]; congr 1; omega
  refine ⟨k - d, m / 2 ^ k, ?_, ?_, ?_⟩
  · -- exponent zero or normalised quotient
    by_cases hc : m.log2 + 1 - 24 ≤ d
    · left; omega
    · right
      have hk1 : m.log2 = 23 + k := by omega
      rw [hk1, Nat.pow_add] at hlo
      rw [Nat.le_div_iff_mul_le hK]
      exact hlo
  · rw [Nat.div_lt_iff_lt_mul hK]
    have h1 : 2 ^ (m.log2 + 1) ≤ 2 ^ (24 + k) := Nat.pow_le_pow_right (by decide) hkn
    rw [Nat.pow_add 2 24 k] at h1
    have : (2 : Nat) ^ 24 = 16777216 := by decide
    rw [this] at h1
    omega
  · rw [hpow]
    have hdm : 2 ^ k * (m / 2 ^ k) + m % 2 ^ k = m := Nat.div_add_mod m (2 ^ k)
    have hrem : m % 2 ^ k < 2 ^ k := Nat.mod_lt _ hK
    have hcases := rne_cases m k
    generalize m / 2 ^ k = q at *
    generalize m % 2 ^ k = rem at *
    generalize rne m k = R at *
    have e1 : q * 2 ^ k = 2 ^ k * q := Nat.mul_comm _ _
    have e2 : (q + 1) * 2 ^ k = 2 ^ k * q + 2 ^ k := by rw [Nat.add_mul, Nat.one_mul, e1]
    rw [e1, e2]
    generalize 2 ^ k * q = Q at *
    generalize 2 ^ k = K at *
    refine ⟨by omega, by omega, ?_⟩
    have := Nat.mod_two_eq_zero_or_one q
    rcases hcases with ⟨c1, c2⟩ | ⟨c1, c2⟩ | ⟨c1, c2⟩
    · left; omega
    · right; omega
    · rcases this with h | h
      · left; omega
      · right; omega

/-- upper bound for the fraction branch: if `m / 2^d ≤ magVal G` then the rounded pattern is at most `G` -/
theorem roundFracU_le {m d G : Nat} (h : m ≤ 2 ^ d * magVal G) : roundFracU m d ≤ G := by
  by_cases hm : m = 0
  · subst hm; simp
  obtain ⟨E, q, hE, hq, hlo, _, hres⟩ := roundFracU_floor (d := d) hm
  have hD : 0 < 2 ^ d := Nat.pow_pos (by decide)
  have hv : magVal (E * 8388608 + q) = q * 2 ^ E := magVal_enc E q hE (Nat.le_of_lt hq)
  have hsc : q * (2 ^ E * 2 ^ d) = 2 ^ d * magVal (E * 8388608 + q) := by
    rw [hv, ← Nat.mul_assoc, Nat.mul_comm]
  rw [hsc] at hlo hres
  rcases hres with hr | ⟨hr, hlt⟩
  · rw [hr, ← magVal_le_iff]
    exact Nat.le_of_mul_le_mul_left (Nat.le_trans hlo h) hD
  · rw [hr]
    have : magVal (E * 8388608 + q) < magVal G :=
      Nat.lt_of_mul_lt_mul_left (Nat.lt_of_lt_of_le hlt h)
    have := magVal_lt_iff.1 this
    omega

theorem roundFrac_zero (d : Nat) : roundFrac 0 d = 0 := by simp [roundFrac]

/-- `mul` of two finite values is the single rounding of the exact product -/
theorem mul_of_finite {a b : SoftF32} (ha : a.isFinite = true) (hb : b.isFinite = true) :
    mul a b = pack (a.sign != b.sign) (roundInt (a.sig * b.sig) ((a.ex : Int) + b.ex - 149)) := by
  have h1 : a.isNaN = false := isNaN_of_finite ha
  have h2 : b.isNaN = false := isNaN_of_finite hb
  have h3 : a.isInf = false := by
    rw [isFinite_iff] at ha; rw [← Bool.not_eq_true, isInf_iff]; omega
  have h4 : b.isInf = false := by
    rw [isFinite_iff] at hb; rw [← Bool.not_eq_true, isInf_iff]; omega
  unfold mul
  simp only [h1, h2, h3, h4, Bool.false_eq_true, if_false, Bool.or_self]

/-- the pattern of `c · 2^t` (`c < 2²⁴`, `t ≤ 104`, in units of 1) is finite -/
theorem roundNatU_small_finite {c t : Nat} (hc : c < 16777216) (ht : t ≤ 104) :
    roundNatU c (t + 149) < 2139095040 ∧ magVal (roundNatU c (t + 149)) = c * 2 ^ t * 2 ^ 149 := by
  have hmv : magVal (roundNatU c (t + 149)) = c * 2 ^ (t + 149) := magVal_roundNatU_small hc
  refine ⟨?_, by rw [hmv, Nat.pow_add, Nat.mul_assoc]⟩
  rw [← magVal_lt_iff, hmv, magVal_infMag]
  have h1 : c * 2 ^ (t + 149) < 16777216 * 2 ^ (t + 149) := Nat.mul_lt_mul_of_pos_right hc (Nat.pow_pos (by decide))
  have h24 : (16777216 : Nat) = 2 ^ 24 := by decide
  rw [h24, ← Nat.pow_add] at h1
  have : 2 ^ (24 + (t + 149)) ≤ 2 ^ 277 := Nat.pow_le_pow_right (by decide) (by omega)
  omega

/-- the rounded product is bounded by every grid pattern above the exact product -/
theorem roundInt_mul_le {sa sb ea eb G : Nat} (h : sa * sb * 2 ^ (ea + eb) ≤ magVal G * 2 ^ 149) :
    roundInt (sa * sb) ((ea : Int) + eb - 149) ≤ G := by
  unfold roundInt
  by_cases hpos : (0 : Int) ≤ (ea : Int) + eb - 149
  · rw [if_pos hpos]
    have e1 : ((ea : Int) + eb - 149).toNat = ea + eb - 149 := by omega
    rw [e1]
    have hsplit : 2 ^ (ea + eb) = 2 ^ (ea + eb - 149) * 2 ^ 149 := by
      have e : ea + eb - 149 + 149 = ea + eb := by omega
      rw [← Nat.pow_add, e]
    rw [hsplit, ← Nat.mul_assoc] at h
    have h' : sa * sb * 2 ^ (ea + eb - 149) ≤ magVal G * 2 ^ 0 := by
      rw [Nat.pow_zero, Nat.mul_one]
      exact Nat.le_of_mul_le_mul_right h (Nat.pow_pos (by decide))
    have h1 : roundNatU (sa * sb) (ea + eb - 149) ≤ roundNatU (magVal G) 0 := roundNatU_mono h'
    have h2 : roundNatU (magVal G) 0 = G := roundNatU_exact (by simp)
    unfold roundNat
    have := Nat.min_le_left (roundNatU (sa * sb) (ea + eb - 149)) infMag
    omega
  · rw [if_neg hpos]
    have e1 : (-((ea : Int) + eb - 149)).toNat = 149 - (ea + eb) := by omega
    rw [e1]
    have hsplit : 2 ^ 149 = 2 ^ (149 - (ea + eb)) * 2 ^ (ea + eb) := by
      have e : 149 - (ea + eb) + (ea + eb) = 149 := by omega
      rw [← Nat.pow_add, e]
    rw [hsplit, ← Nat.mul_assoc] at h
    have h' : sa * sb ≤ 2 ^ (149 - (ea + eb)) * magVal G := by
      rw [Nat.mul_comm (2 ^ (149 - (ea + eb)))]
      exact Nat.le_of_mul_le_mul_right h (Nat.pow_pos (by decide))
    have h1 := roundFracU_le h'
    unfold roundFrac
    have := Nat.min_le_left (roundFracU (sa * sb) (149 - (ea + eb))) infMag
    omega

/-- **magnitude bound of a product**: `|a| ≤ A`, `|b| ≤ B`, `A·B ≤ c·2^t` with `c < 2²⁴`, `t ≤ 104` ⟹ `a·b` is finite and
`|a·b| ≤ c·2^t` -/
theorem mul_absLe {a b : SoftF32} {A B c t : Nat} (ha : absLe a A) (hb : absLe b B)
    (hAB : A * B ≤ c * 2 ^ t) (hc : c < 16777216) (ht : t ≤ 104) : absLe (mul a b) (c * 2 ^ t) := by
  rw [mul_of_finite ha.finite hb.finite]
  obtain ⟨hG1, hG2⟩ := roundNatU_small_finite hc ht
  generalize roundNatU c (t + 149) = G at hG1 hG2
  have hprod : a.sig * b.sig * 2 ^ (a.ex + b.ex) ≤ magVal G * 2 ^ 149 := by
    have e : a.sig * b.sig * 2 ^ (a.ex + b.ex) = magVal a.mag * magVal b.mag := by
      rw [← sig_mul_ex a, ← sig_mul_ex b, Nat.pow_add]
      generalize (2 : Nat) ^ a.ex = X
      generalize (2 : Nat) ^ b.ex = Y
      ac_rfl
    have h1 : magVal a.mag * magVal b.mag ≤ (A * 2 ^ 149) * (B * 2 ^ 149) := Nat.mul_le_mul ha.2 hb.2
    have e2 : (A * 2 ^ 149) * (B * 2 ^ 149) = A * B * 2 ^ 149 * 2 ^ 149 := by
      generalize (2 : Nat) ^ 149 = P
      ac_rfl
    have h2 : A * B * 2 ^ 149 * 2 ^ 149 ≤ c * 2 ^ t * 2 ^ 149 * 2 ^ 149 :=
      Nat.mul_le_mul_right _ (Nat.mul_le_mul_right _ hAB)
    rw [e, hG2]
    rw [e2] at h1
    exact Nat.le_trans h1 h2
  have hle := roundInt_mul_le hprod
  generalize roundInt (a.sig * b.sig) ((a.ex : Int) + b.ex - 149) = r at hle
  unfold absLe
  rw [mag_pack _ _ (by omega)]
  refine ⟨by omega, ?_⟩
  rw [← hG2]
  exact magVal_mono hle

/-- `(float)n` is bounded by `n` (exact) for `n < 2²⁴` -/
theorem ofNat_absLe {n : Nat} (hn : n < 16777216) : absLe (ofNat n) n := by
  have hv : magVal (roundNatU n 149) = n * 2 ^ 149 := magVal_roundNatU_small hn
  have hlt : roundNatU n 149 < 2139095040 := by
    rw [← magVal_lt_iff, hv, magVal_infMag]
    have : n * 2 ^ 149 < 16777216 * 2 ^ 149 := Nat.mul_lt_mul_of_pos_right hn (by decide)
    have : (16777216 : Nat) * 2 ^ 149 ≤ 2 ^ 277 := by decide
    omega
  have hmin : roundNat n 149 = roundNatU n 149 := by
    unfold roundNat; exact Nat.min_eq_left (by simp only [infMag]; omega)
  unfold absLe ofNat
  rw [hmin, mag_pack _ _ (by omega), hv]
  exact ⟨hlt, Nat.le_refl _⟩

/-- exactness of `(float)n` for `n < 2²⁴` (value level) -/
theorem magVal_ofNat {n : Nat} (hn : n < 16777216) : magVal (ofNat n).mag = n * 2 ^ 149 := by
  have hv : magVal (roundNatU n 149) = n * 2 ^ 149 := magVal_roundNatU_small hn
  have hlt : roundNatU n 149 < 2139095040 := by
    rw [← magVal_lt_iff, hv, magVal_infMag]
    have : n * 2 ^ 149 < 16777216 * 2 ^ 149 := Nat.mul_lt_mul_of_pos_right hn (by decide)
    have : (16777216 : Nat) * 2 ^ 149 ≤ 2 ^ 277 := by decide
    omega
  have hmin : roundNat n 149 = roundNatU n 149 := by
    unfold roundNat; exact Nat.min_eq_left (by simp only [infMag]; omega)
  unfold ofNat
  rw [hmin, mag_pack _ _ (by omega), hv]

/-! non-vacuity: `3.0F * 1000.0F` is bounded by `3000 = 375·2³` -/
example : absLe (mul (ofNat 3) thousand) (375 * 2 ^ 3) :=
  mul_absLe (A := 3) (B := 1000) (ofNat_absLe (by decide)) ⟨by decide, by decide⟩ (by decide) (by decide) (by decide)

/-! non-vacuity of the fraction branch: `5 / 2² = 1.25` units rounds to the pattern `1 ≤ 2` -/
example : roundFracU 5 2 ≤ 2 := roundFracU_le (by decide)

end Kalign.SoftF32
