import KalignModel.Lemmas.CmpMsa
/-! # `kalign_check_msa` / `kalign_sort_msa` on uniquely named alignments, and the assembly of
`kalign_msa_compare` -/
namespace Kalign
open List

/-- the hypothesis "uniquely named": the names are pairwise distinct and are C strings (the
comparators use `strcmp` on the full names since commit 0022995 of the C sources) -/
structure NamesOK (A : List NRow) : Prop where
  distinct : (A.map fun x => x.name).Nodup
  nulfree : ∀ x ∈ A, NulFree x.name

theorem NamesOK.names_nodup {A : List NRow} (h : NamesOK A) : (A.map (·.name)).Nodup := by
  have := h.distinct
  rw [Nodup, pairwise_map] at this ⊢
  exact this.imp (fun hne e => hne (by rw [e]))

theorem NamesOK.perm {A A' : List NRow} (h : NamesOK A) (hp : A.Perm A') : NamesOK A' where
  distinct := ((hp.map _).nodup_iff).mp h.distinct
  nulfree := fun x hx => h.nulfree x (hp.mem_iff.mpr hx)

/-! ## sorting by name is canonical -/

theorem mergeSort_byName_perm {α : Type} (name : α → Name) {l l' : List α} (hp : l.Perm l')
    (hnd : (l.map fun x => name x).Nodup) (hnul : ∀ x ∈ l, NulFree (name x)) :
    l.mergeSort (fun a b => decide (strcmp (name a) (name b) < 0))
      = l'.mergeSort (fun a b => decide (strcmp (name a) (name b) < 0)) := by
  apply mergeSort_eq_of_perm (fun x => NulFree (name x)) _ _ hp hnul
  · rw [Nodup, pairwise_map] at hnd
    refine Pairwise.imp_of_mem ?_ hnd
    intro a b ha hb hne
    simp only [Bool.or_eq_true, decide_eq_true_eq]
    exact strcmp_total _ _ (hnul a ha) (hnul b hb) hne
  · intro a b c _ _ _ h1 h2
    simp only [decide_eq_true_eq] at h1 h2 ⊢
    exact strcmp_trans_lt _ _ _ h1 h2
  · intro a b _ _ h1 h2
    simp only [decide_eq_true_eq] at h1 h2
    have := strcmp_swap (name a) (name b)
    omega

theorem leBoth_eq_leByName (a b : NRow) (ha : NulFree a.name) (hb : NulFree b.name)
    (h : a = b ∨ a.name ≠ b.name) : leBoth a b = leByName a b := by
  unfold leBoth leByName cmpBoth
  rcases h with rfl | hne
  · simp [strcmp_self]
  · have h0 : strcmp a.name b.name ≠ 0 := fun e => hne ((strcmp_eq_zero_iff _ _ ha hb).mp e)
    by_cases hlt : strcmp a.name b.name < 0
    · simp [hlt]
    · simp [hlt, h0]

theorem sortMsa_eq_byName {A : List NRow} (h : NamesOK A) : sortMsa A = A.mergeSort leByName := by
  have := map_mergeSort (r := leBoth) (s := leByName) (f := id) (l := A) (by
    intro a ha b hb
    apply leBoth_eq_leByName a b (h.nulfree a ha) (h.nulfree b hb)
    by_cases e : a.name = b.name
    · exact Or.inl (eq_of_nodup_map h.distinct ha hb e)
    · exact Or.inr e)
  simpa [sortMsa] using this

theorem sortMsa_perm {A A' : List NRow} (hp : A.Perm A') (h : NamesOK A) : sortMsa A = sortMsa A' := by
  rw [sortMsa_eq_byName h, sortMsa_eq_byName (h.perm hp)]
  exact mergeSort_byName_perm (·.name) hp h.distinct h.nulfree

theorem sortMsa_perm_self (A : List NRow) : (sortMsa A).Perm A := mergeSort_perm _ _

/-! ## the duplicate check passes on uniquely named alignments -/

theorem adjDup_false {L : List NRow}
    (h : L.Pairwise fun a b => strcmp a.name b.name ≠ 0) : adjDup L = false := by
  induction L with
  | nil => rfl
  | cons a L ih =>
    cases L with
    | nil => rfl
    | cons b L =>
      have hab := rel_of_pairwise_cons h (mem_cons_self (a := b) (l := L))
      simp only [adjDup, hab, decide_false, Bool.false_or]
      exact ih h.tail

theorem checkMsaStrict_of_namesOK {A : List NRow} (h : NamesOK A) : checkMsaStrict A = true := by
  unfold checkMsaStrict
  have hp : (A.mergeSort leByName).Perm A := mergeSort_perm _ _
  have h' := h.perm hp.symm
  rw [adjDup_false]; rfl
  have hd := h'.distinct
  rw [Nodup, pairwise_map] at hd
  refine Pairwise.imp_of_mem ?_ hd
  intro a b ha hb hne e
  exact hne ((strcmp_eq_zero_iff _ _ (h'.nulfree a ha) (h'.nulfree b hb)).mp e)

theorem checkMsaStrict_perm {A A' : List NRow} (hp : A.Perm A') (h : NamesOK A) :
    checkMsaStrict A' = checkMsaStrict A := by
  rw [checkMsaStrict_of_namesOK h, checkMsaStrict_of_namesOK (h.perm hp)]

/-! ## same named sequences ⇒ the sorted alignments pair up row by row -/

theorem nres_eq_length_residuesOf (r : Row) : nres r = (residuesOf r).length := by
  unfold nres residuesOf; exact countP_eq_length_filter

theorem namedSeqs_sortMsa {A : List NRow} (h : NamesOK A) :
    namedSeqs (sortMsa A) = (namedSeqs A).mergeSort
      (fun p q => decide (strcmp p.1 q.1 < 0)) := by
  rw [sortMsa_eq_byName h]
  unfold namedSeqs
  exact map_mergeSort (fun a _ b _ => rfl)

theorem namesOK_of_namedSeqs_perm {R T : List NRow} (h : NamesOK R)
    (hsame : (namedSeqs R).Perm (namedSeqs T)) : NamesOK T where
  distinct := by
    have h1 : (namedSeqs R).map (fun p => p.1) = R.map fun x => x.name := by
      simp [namedSeqs, map_map, Function.comp_def]
    have h2 : (namedSeqs T).map (fun p => p.1) = T.map fun x => x.name := by
      simp [namedSeqs, map_map, Function.comp_def]
    rw [← h2]
    refine ((hsame.map _).nodup_iff).mp ?_
    rw [h1]; exact h.distinct
  nulfree := by
    intro x hx
    have : (x.name, residuesOf x.row) ∈ namedSeqs R :=
      hsame.mem_iff.mpr (mem_map_of_mem (f := fun x : NRow => (x.name, residuesOf x.row)) hx)
    obtain ⟨y, hy, e⟩ := mem_map.mp this
    have : y.name = x.name := congrArg Prod.fst e
    rw [← this]; exact h.nulfree y hy

theorem namedSeqs_sorted_eq {R T : List NRow} (h : NamesOK R)
    (hsame : (namedSeqs R).Perm (namedSeqs T)) :
    namedSeqs (sortMsa R) = namedSeqs (sortMsa T) := by
  rw [namedSeqs_sortMsa h, namedSeqs_sortMsa (namesOK_of_namedSeqs_perm h hsame)]
  apply mergeSort_byName_perm (fun p : Name × List Char => p.1) hsame
  · have : (namedSeqs R).map (fun p => p.1) = R.map fun x => x.name := by
      simp [namedSeqs, map_map, Function.comp_def]
    rw [this]; exact h.distinct
  · intro p hp
    obtain ⟨y, hy, rfl⟩ := mem_map.mp hp
    exact h.nulfree y hy

theorem zip_of_map_eq {α β : Type} (g : α → β) :
    ∀ (l₁ l₂ : List α), l₁.map g = l₂.map g →
      (l₁.zip l₂).map (·.1) = l₁ ∧ (l₁.zip l₂).map (·.2) = l₂ ∧ ∀ z ∈ l₁.zip l₂, g z.1 = g z.2
  | [], [], _ => by simp
  | [], _ :: _, h => by simp at h
  | _ :: _, [], h => by simp at h
  | a :: l₁, b :: l₂, h => by
    simp only [map_cons, cons.injEq] at h
    obtain ⟨h1, h2, h3⟩ := zip_of_map_eq g l₁ l₂ h.2
    refine ⟨by simp [h1], by simp [h2], ?_⟩
    intro z hz
    simp only [zip_cons_cons, mem_cons] at hz
    rcases hz with rfl | hz
    · exact h.1
    · exact h3 z hz

/-- **assembly**: on two rectangular alignments of the same uniquely named sequences
`kalign_msa_compare` succeeds and its exact score is the specification's -/
theorem msaCompare_spec (R T : List NRow) (wR wT : Nat) (hok : NamesOK R)
    (hsame : (namedSeqs R).Perm (namedSeqs T))
    (hrR : ∀ x ∈ R, x.row.length = wR) (hrT : ∀ x ∈ T, x.row.length = wT) :
    ∃ Z : List ZRow, Z.map (·.1) = sortMsa R ∧ Z.map (·.2) = sortMsa T ∧ ZOK Z wR wT ∧
      msaCompare R T = .ok (pairStatsSum Z) ∧ scoreQ (pairStatsSum Z) = scoreSpec R T := by
  have hokT := namesOK_of_namedSeqs_perm hok hsame
  have hsorted := namedSeqs_sorted_eq hok hsame
  obtain ⟨z1, z2, z3⟩ := zip_of_map_eq (fun x : NRow => (x.name, residuesOf x.row)) (sortMsa R) (sortMsa T) hsorted
  have hZ : ZOK ((sortMsa R).zip (sortMsa T)) wR wT := by
    constructor
    · intro z hz; exact congrArg Prod.fst (z3 z hz)
    · intro z hz
      have e : residuesOf z.1.row = residuesOf z.2.row := congrArg Prod.snd (z3 z hz)
      rw [nres_eq_length_residuesOf, nres_eq_length_residuesOf, e]
    · intro z hz
      have : z.1 ∈ sortMsa R := by rw [← z1]; exact mem_map_of_mem (f := (·.1)) hz
      exact hrR _ ((sortMsa_perm_self R).mem_iff.mp this)
    · intro z hz
      have : z.2 ∈ sortMsa T := by rw [← z2]; exact mem_map_of_mem (f := (·.2)) hz
      exact hrT _ ((sortMsa_perm_self T).mem_iff.mp this)
    · have : ((sortMsa R).zip (sortMsa T)).map (·.1.name) = (sortMsa R).map (·.name) := by
        conv => rhs; rw [← z1]
        rw [map_map]; rfl
      rw [this]
      exact (hok.perm (sortMsa_perm_self R).symm).names_nodup
  refine ⟨(sortMsa R).zip (sortMsa T), z1, z2, hZ, ?_, ?_⟩
  · unfold msaCompare
    rw [checkMsaStrict_of_namesOK hok, checkMsaStrict_of_namesOK hokT]
    have hc := msaCompareCounts_spec _ wR wT hZ
    have e1 : ((sortMsa R).zip (sortMsa T)).map (·.1.row) = (sortMsa R).map (·.row) := by
      conv => rhs; rw [← z1]
      rw [map_map]; rfl
    have e2 : ((sortMsa R).zip (sortMsa T)).map (·.2.row) = (sortMsa T).map (·.row) := by
      conv => rhs; rw [← z2]
      rw [map_map]; rfl
    rw [e1, e2] at hc
    simp [hc]
  · rw [scoreQ_pairStatsSum _ hZ.name hZ.nodup, z1, z2]
    exact scoreSpec_perm (sortMsa_perm_self R) (sortMsa_perm_self T)

end Kalign
