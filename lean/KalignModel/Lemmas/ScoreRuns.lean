import KalignModel.Lemmas.KernelVsST
/-!
# `scoreST` is the score by run lengths

`scoreST_eq_runs`: for a valid column list without a gap-in-a run next to a gap-in-b run (both sequences non-empty) the
one-pass, position-based `scoreST` equals `scoreSTruns`: substitution scores minus `2·gpo + (L−1)·gpe` for every internal
gap run of `L` columns and `L·tgpe` for the first and the last run when they are gap runs.
-/
namespace Kalign

/-- substitution part of a walk -/
def STW.subPart (w : STW) : Nat → Nat → List Col → Int
  | _, _, [] => 0
  | i, j, c :: cs => (if c = .both then w.sc i j else 0) + w.subPart (stepP i c) (stepK j c) cs

theorem STW.subPart_append (w : STW) (xs ys : List Col) (i j : Nat) :
    w.subPart i j (xs ++ ys) = w.subPart i j xs + w.subPart (i + consA xs) (j + consB xs) ys := by
  induction xs generalizing i j with
  | nil => simp [STW.subPart]
  | cons c xs ih =>
    simp only [List.cons_append, STW.subPart, ih]
    have e1 : stepP i c + consA xs = i + consA (c :: xs) := by rw [consA_cons, stepP_eq i]; omega
    have e2 : stepK j c + consB xs = j + consB (c :: xs) := by rw [consB_cons, stepK_eq j]; omega
    rw [e1, e2]; omega

/-- `subSum` on the remaining parts of the sequences is the substitution part of the walk -/
theorem subPart_eq_subSum (sub : Nat → Nat → Int) (gpo gpe tgpe : Int) (a b : List Nat) (cs : List Col) (i j : Nat)
    (hA : i + consA cs ≤ a.length) (hB : j + consB cs ≤ b.length) :
    (STW.mk a.length b.length gpo gpe tgpe fun i j => sub (a.getD i 0) (b.getD j 0)).subPart i j cs =
      subSum sub cs (a.drop i) (b.drop j) := by
  induction cs generalizing i j with
  | nil => simp [STW.subPart, subSum]
  | cons c cs ih =>
    rw [consA_cons] at hA
    rw [consB_cons] at hB
    cases c with
    | skip =>
      simp only [STW.subPart, stepP, stepK, subSum] at hA hB ⊢
      rw [ih i j (by omega) (by omega)]; simp
    | both =>
      simp only [stepP, stepK] at hA hB
      have hi : i < a.length := by omega
      have hj : j < b.length := by omega
      rw [List.drop_eq_getElem_cons hi, List.drop_eq_getElem_cons hj]
      simp only [STW.subPart, stepP, stepK, subSum, if_true]
      rw [ih (i + 1) (j + 1) (by omega) (by omega)]
      simp [List.getD_eq_getElem?_getD, hi, hj]
    | gapA =>
      simp only [stepP, stepK] at hA hB
      have hj : j < b.length := by omega
      rw [List.drop_eq_getElem_cons hj]
      simp only [STW.subPart, stepP, stepK, subSum]
      rw [ih i (j + 1) (by omega) (by omega)]; simp
    | gapB =>
      simp only [stepP, stepK] at hA hB
      have hi : i < a.length := by omega
      rw [List.drop_eq_getElem_cons hi]
      simp only [STW.subPart, stepP, stepK, subSum]
      rw [ih (i + 1) j (by omega) (by omega)]; simp

/-- structure of the run-length encoding: split off the first maximal run -/
theorem rle_cons (c : Col) (cs0 : List Col) :
    ∃ n cs', 1 ≤ n ∧ c :: cs0 = List.replicate n c ++ cs' ∧ rle (c :: cs0) = (c, n) :: rle cs' ∧
      (∀ d ds, cs' = d :: ds → d ≠ c) := by
  induction cs0 generalizing c with
  | nil => exact ⟨1, [], by omega, rfl, rfl, by simp⟩
  | cons d ds ih =>
    obtain ⟨m, cs'', hm, hsplit, hrle, hhead⟩ := ih d
    by_cases hcd : c = d
    · subst hcd
      refine ⟨m + 1, cs'', by omega, ?_, ?_, hhead⟩
      · rw [hsplit, List.replicate_succ]; rfl
      · show (match rle (c :: ds) with
          | (d, n) :: rest => if c = d then (d, n + 1) :: rest else (c, 1) :: (d, n) :: rest
          | [] => [(c, 1)]) = _
        rw [hrle]; simp
    · refine ⟨1, d :: ds, by omega, rfl, ?_, ?_⟩
      · show (match rle (d :: ds) with
          | (d', n) :: rest => if c = d' then (d', n + 1) :: rest else (c, 1) :: (d', n) :: rest
          | [] => [(c, 1)]) = _
        rw [hrle]; simp [hcd]
      · intro d' ds' h
        injection h with h1 _
        rw [← h1]; exact fun h => hcd h.symm

theorem rle_isEmpty (cs : List Col) : (rle cs).isEmpty = cs.isEmpty := by
  cases cs with
  | nil => rfl
  | cons c cs0 =>
    obtain ⟨n, cs', _, _, hrle, _⟩ := rle_cons c cs0
    rw [hrle]; rfl

/-- gap part of a walk -/
def STW.gapPart (w : STW) (i j : Nat) (st : Kind) (cs : List Col) : Int := w.walk i j st cs - w.subPart i j cs

theorem STW.gapPart_cons (w : STW) (i j : Nat) (st : Kind) (c : Col) (cs : List Col) :
    w.gapPart i j st (c :: cs) =
      (w.stCol c i j - (if c = .both then w.sc i j else 0)) + w.stE st (colKind st c) i j +
        w.gapPart (stepP i c) (stepK j c) (colKind st c) cs := by
  unfold STW.gapPart
  simp only [STW.walk, STW.subPart]
  omega

/-- a run of aligned columns only pays the edge into it -/
theorem STW.gapPart_both_run (w : STW) (n : Nat) (rest : List Col) (i j : Nat) (st : Kind) :
    w.gapPart i j st (List.replicate (n + 1) .both ++ rest) =
      w.stE st .A i j + w.gapPart (i + (n + 1)) (j + (n + 1)) .A rest := by
  induction n generalizing i j st with
  | zero =>
    simp only [Nat.zero_add, List.replicate_one, List.cons_append, List.nil_append]
    rw [STW.gapPart_cons]
    simp [STW.stCol, colKind, stepP, stepK]
  | succ n ih =>
    rw [List.replicate_succ, List.cons_append, STW.gapPart_cons, ih]
    simp only [STW.stCol, colKind, stepP, stepK, if_true, STW.stE]
    have e1 : i + 1 + (n + 1) = i + (n + 1 + 1) := by omega
    have e2 : j + 1 + (n + 1) = j + (n + 1 + 1) := by omega
    rw [e1, e2]; omega

/-- a run of gap columns entered from its own kind (continuation) -/
theorem STW.gapPart_gap_cont (w : STW) (g : Col) (hg : g = .gapA ∨ g = .gapB) (n : Nat) (rest : List Col) (i j : Nat) :
    w.gapPart i j (colKind .A g) (List.replicate n g ++ rest) =
      - (if w.termK (colKind .A g) i j then (n : Int) * w.tgpe else (n : Int) * w.gpe) +
        w.gapPart (i + consA (List.replicate n g)) (j + consB (List.replicate n g)) (colKind .A g) rest := by
  induction n generalizing i j with
  | zero => simp
  | succ n ih =>
    rw [List.replicate_succ, List.cons_append, STW.gapPart_cons]
    rcases hg with hg | hg <;> subst hg
    · rw [show colKind (colKind .A .gapA) .gapA = colKind .A .gapA from rfl, show stepP i .gapA = i from rfl,
        show stepK j .gapA = j + 1 from rfl, ih]
      have ht : w.termK (colKind .A .gapA) i (j + 1) = w.termK (colKind .A .gapA) i j := rfl
      rw [ht]
      simp only [STW.stCol, STW.stE, colKind, consA_gapA, consB_gapA, reduceCtorEq, if_false, if_true]
      have e2 : j + 1 + consB (List.replicate n Col.gapA) = j + (consB (List.replicate n Col.gapA) + 1) := by omega
      rw [e2]
      by_cases hterm : w.termK .GA i j = true <;>
        simp only [hterm, ↓reduceIte, Bool.false_eq_true] <;> push_cast <;> (try rw [Int.add_mul, Int.one_mul]) <;> omega
    · rw [show colKind (colKind .A .gapB) .gapB = colKind .A .gapB from rfl, show stepP i .gapB = i + 1 from rfl,
        show stepK j .gapB = j from rfl, ih]
      have ht : w.termK (colKind .A .gapB) (i + 1) j = w.termK (colKind .A .gapB) i j := rfl
      rw [ht]
      simp only [STW.stCol, STW.stE, colKind, consA_gapB, consB_gapB, reduceCtorEq, if_false, if_true]
      have e2 : i + 1 + consA (List.replicate n Col.gapB) = i + (consA (List.replicate n Col.gapB) + 1) := by omega
      rw [e2]
      by_cases hterm : w.termK .GB i j = true <;>
        simp only [hterm, ↓reduceIte, Bool.false_eq_true] <;> push_cast <;> (try rw [Int.add_mul, Int.one_mul]) <;> omega

/-- a run of gap columns entered from an aligned column (or the start) -/
theorem STW.gapPart_gap_run (w : STW) (g : Col) (hg : g = .gapA ∨ g = .gapB) (n : Nat) (rest : List Col) (i j : Nat) :
    w.gapPart i j .A (List.replicate (n + 1) g ++ rest) =
      - (if w.termK (colKind .A g) i j then ((n + 1 : Nat) : Int) * w.tgpe else w.gpo + (n : Int) * w.gpe) +
        w.gapPart (i + consA (List.replicate (n + 1) g)) (j + consB (List.replicate (n + 1) g)) (colKind .A g) rest := by
  rw [List.replicate_succ, List.cons_append, STW.gapPart_cons]
  rcases hg with hg | hg <;> subst hg
  · rw [show colKind .A .gapA = .GA from rfl, show stepP i .gapA = i from rfl, show stepK j .gapA = j + 1 from rfl]
    have := STW.gapPart_gap_cont w .gapA (Or.inl rfl) n rest i (j + 1)
    rw [show colKind .A .gapA = .GA from rfl] at this
    rw [this]
    have ht : w.termK .GA i (j + 1) = w.termK .GA i j := rfl
    rw [ht]
    simp only [STW.stCol, STW.stE, consA_gapA, consB_gapA, reduceCtorEq, if_false]
    have e2 : j + 1 + consB (List.replicate n Col.gapA) = j + (consB (List.replicate n Col.gapA) + 1) := by omega
    rw [e2]
    by_cases hterm : w.termK .GA i j = true <;>
      simp only [hterm, ↓reduceIte, Bool.false_eq_true] <;> push_cast <;> (try rw [Int.add_mul, Int.one_mul]) <;> omega
  · rw [show colKind .A .gapB = .GB from rfl, show stepP i .gapB = i + 1 from rfl, show stepK j .gapB = j from rfl]
    have := STW.gapPart_gap_cont w .gapB (Or.inr rfl) n rest (i + 1) j
    rw [show colKind .A .gapB = .GB from rfl] at this
    rw [this]
    have ht : w.termK .GB (i + 1) j = w.termK .GB i j := rfl
    rw [ht]
    simp only [STW.stCol, STW.stE, consA_gapB, consB_gapB, reduceCtorEq, if_false]
    have e2 : i + 1 + consA (List.replicate n Col.gapB) = i + (consA (List.replicate n Col.gapB) + 1) := by omega
    rw [e2]
    by_cases hterm : w.termK .GB i j = true <;>
      simp only [hterm, ↓reduceIte, Bool.false_eq_true] <;> push_cast <;> (try rw [Int.add_mul, Int.one_mul]) <;> omega

theorem consA_replicate_both (n : Nat) : consA (List.replicate n Col.both) = n := by
  induction n with
  | zero => rfl
  | succ n ih => rw [List.replicate_succ, consA_both, ih]
theorem consB_replicate_both (n : Nat) : consB (List.replicate n Col.both) = n := by
  induction n with
  | zero => rfl
  | succ n ih => rw [List.replicate_succ, consB_both, ih]
theorem consA_replicate_gapA (n : Nat) : consA (List.replicate n Col.gapA) = 0 := by
  induction n with
  | zero => rfl
  | succ n ih => rw [List.replicate_succ, consA_gapA, ih]
theorem consB_replicate_gapA (n : Nat) : consB (List.replicate n Col.gapA) = n := by
  induction n with
  | zero => rfl
  | succ n ih => rw [List.replicate_succ, consB_gapA, ih]
theorem consA_replicate_gapB (n : Nat) : consA (List.replicate n Col.gapB) = n := by
  induction n with
  | zero => rfl
  | succ n ih => rw [List.replicate_succ, consA_gapB, ih]
theorem consB_replicate_gapB (n : Nat) : consB (List.replicate n Col.gapB) = 0 := by
  induction n with
  | zero => rfl
  | succ n ih => rw [List.replicate_succ, consB_gapB, ih]

theorem lastKind_replicate (st : Kind) (c : Col) (n : Nat) (hc : c ≠ .skip) :
    lastKind st (List.replicate (n + 1) c) = colKind .A c := by
  induction n generalizing st with
  | zero => simp only [Nat.zero_add, List.replicate_one, lastKind, List.foldl_cons, List.foldl_nil]
            exact colKind_indep _ _ _ hc
  | succ n ih =>
    rw [List.replicate_succ]
    show lastKind (colKind st c) (List.replicate (n + 1) c) = _
    exact ih _

/-- the gap part of a walk is the cost of its runs (`pending`: the closing charge of the internal run the walk is in) -/
theorem STW.gapPart_runs (w : STW) :
    ∀ (k : Nat) (cs : List Col) (i j : Nat) (st : Kind), cs.length ≤ k →
      i + consA cs = w.lenA → j + consB cs = w.lenB → adjOK st cs = true →
      (st = .A → (i = 0 ∧ j = 0) ∨ (1 ≤ i ∧ 1 ≤ j)) →
      (st ≠ .A → ∀ d ds, cs = d :: ds → d = .both) →
      w.gapPart i j st cs =
        - runsCost w.gpo w.gpe w.tgpe (decide (i = 0 ∧ j = 0)) (rle cs) +
          (if st ≠ .A ∧ w.termK st i j = false ∧ cs ≠ [] then - w.gpo else 0) := by
  intro k
  induction k with
  | zero =>
    intro cs i j st hlen _ _ _ _ _
    have : cs = [] := List.eq_nil_of_length_eq_zero (by omega)
    subst this
    simp [STW.gapPart, STW.walk, STW.subPart, rle, runsCost]
  | succ k ih =>
    intro cs i j st hlen hA hB hadj hpos hst
    cases cs with
    | nil => simp [STW.gapPart, STW.walk, STW.subPart, rle, runsCost]
    | cons c cs0 =>
      obtain ⟨n, cs', hn, hsplit, hrle, hhead⟩ := rle_cons c cs0
      obtain ⟨m, rfl⟩ : ∃ m, n = m + 1 := ⟨n - 1, by omega⟩
      have hlen' : cs'.length ≤ k := by
        have := congrArg List.length hsplit
        simp only [List.length_cons, List.length_append, List.length_replicate] at this hlen
        omega
      have hcs : c ≠ .skip := by
        simp only [adjOK, Bool.and_eq_true, bne_iff_ne, ne_eq] at hadj
        exact hadj.1.1
      rw [hrle, hsplit]
      rw [hsplit] at hA hB hadj
      rw [consA_append] at hA
      rw [consB_append] at hB
      rw [adjOK_append, Bool.and_eq_true, lastKind_replicate st c m hcs] at hadj
      have hne : (List.replicate (m + 1) c ++ cs' ≠ []) := by simp [List.replicate_succ]
      -- the column after the run
      have hnext : ∀ d ds, cs' = d :: ds → c ≠ .both → d = .both := by
        intro d ds hd hcb
        have h1 := hhead d ds hd
        have h2 := hadj.2
        rw [hd] at h2
        simp only [adjOK, Bool.and_eq_true, bne_iff_ne, ne_eq] at h2
        cases c <;> cases d <;> simp_all [colKind, Kind.compat]
      cases c with
      | skip => exact absurd rfl hcs
      | both =>
        rw [consA_replicate_both] at hA
        rw [consB_replicate_both] at hB
        rw [STW.gapPart_both_run]
        have ih' := ih cs' (i + (m + 1)) (j + (m + 1)) .A hlen' (by omega) (by omega) hadj.2
          (fun _ => Or.inr ⟨by omega, by omega⟩) (fun h => absurd rfl h)
        rw [ih']
        have hd : decide (i + (m + 1) = 0 ∧ j + (m + 1) = 0) = false := by simp
        rw [hd]
        simp only [runsCost, Col.isGap, ne_eq, not_true_eq_false, false_and, if_false]
        cases st with
        | A => simp [STW.stE]
        | GA =>
          simp only [STW.stE]
          cases w.termK .GA i j <;> simp [hne] <;> omega
        | GB =>
          simp only [STW.stE]
          cases w.termK .GB i j <;> simp [hne] <;> omega
      | gapA =>
        have hstA : st = .A := by
          refine Classical.byContradiction fun h => ?_
          have := hst h .gapA cs0 rfl
          exact absurd this (by simp)
        subst hstA
        rw [consA_replicate_gapA] at hA
        rw [consB_replicate_gapA] at hB
        rw [STW.gapPart_gap_run w .gapA (Or.inl rfl), consA_replicate_gapA, consB_replicate_gapA]
        have ih' := ih cs' (i + 0) (j + (m + 1)) .GA hlen' (by omega) (by omega) hadj.2
          (fun h => absurd h (by simp)) (fun _ d ds hd => hnext d ds hd (by simp))
        rw [show colKind .A .gapA = .GA from rfl, ih']
        have hd : decide (i + 0 = 0 ∧ j + (m + 1) = 0) = false := by simp
        rw [hd]
        have hterm : w.termK .GA (i + 0) (j + (m + 1)) = w.termK .GA i j := rfl
        rw [hterm]
        simp only [runsCost, Col.isGap, rle_isEmpty, ne_eq, not_true_eq_false, false_and, if_false]
        -- terminal iff first or last run
        have hiff : w.termK .GA i j = (decide (i = 0 ∧ j = 0) || cs'.isEmpty) := by
          rw [Bool.eq_iff_iff]
          simp only [STW.termK, Bool.or_eq_true, decide_eq_true_eq, List.isEmpty_iff]
          constructor
          · rintro (h | h)
            · rcases hpos rfl with h' | h'
              · exact Or.inl h'
              · omega
            · right
              cases hc' : cs' with
              | nil => rfl
              | cons d ds =>
                have := hnext d ds hc' (by simp)
                subst this
                rw [hc'] at hA
                simp at hA
                omega
          · rintro (h | h)
            · exact Or.inl h.1
            · right; rw [h] at hA; simp at hA; omega
        rw [← hiff]
        cases hT : w.termK .GA i j
        · have hne' : cs' ≠ [] := by
            intro h
            rw [hT, h] at hiff
            simp at hiff
          simp [gapRunCost, hne']
          omega
        · simp [gapRunCost]; omega
      | gapB =>
        have hstA : st = .A := by
          refine Classical.byContradiction fun h => ?_
          have := hst h .gapB cs0 rfl
          exact absurd this (by simp)
        subst hstA
        rw [consA_replicate_gapB] at hA
        rw [consB_replicate_gapB] at hB
        rw [STW.gapPart_gap_run w .gapB (Or.inr rfl), consA_replicate_gapB, consB_replicate_gapB]
        have ih' := ih cs' (i + (m + 1)) (j + 0) .GB hlen' (by omega) (by omega) hadj.2
          (fun h => absurd h (by simp)) (fun _ d ds hd => hnext d ds hd (by simp))
        rw [show colKind .A .gapB = .GB from rfl, ih']
        have hd : decide (i + (m + 1) = 0 ∧ j + 0 = 0) = false := by simp
        rw [hd]
        have hterm : w.termK .GB (i + (m + 1)) (j + 0) = w.termK .GB i j := rfl
        rw [hterm]
        simp only [runsCost, Col.isGap, rle_isEmpty, ne_eq, not_true_eq_false, false_and, if_false]
        have hiff : w.termK .GB i j = (decide (i = 0 ∧ j = 0) || cs'.isEmpty) := by
          rw [Bool.eq_iff_iff]
          simp only [STW.termK, Bool.or_eq_true, decide_eq_true_eq, List.isEmpty_iff]
          constructor
          · rintro (h | h)
            · rcases hpos rfl with h' | h'
              · exact Or.inl h'
              · omega
            · right
              cases hc' : cs' with
              | nil => rfl
              | cons d ds =>
                have := hnext d ds hc' (by simp)
                subst this
                rw [hc'] at hB
                simp at hB
                omega
          · rintro (h | h)
            · exact Or.inl h.2
            · right; rw [h] at hB; simp at hB; omega
        rw [← hiff]
        cases hT : w.termK .GB i j
        · have hne' : cs' ≠ [] := by
            intro h
            rw [hT, h] at hiff
            simp at hiff
          simp [gapRunCost, hne']
          omega
        · simp [gapRunCost]; omega

/-- **`scoreST` is the score by run lengths** -/
theorem scoreST_eq_runs (sub : Nat → Nat → Int) (gpo gpe tgpe : Int) (cs : List Col) (a b : List Nat)
    (hV : ValidCols cs a.length b.length) (hadj : adjOK .A cs = true) :
    scoreST sub gpo gpe tgpe cs a b = scoreSTruns sub gpo gpe tgpe cs a b := by
  unfold scoreST scoreSTruns
  have h1 := STW.gapPart_runs ⟨a.length, b.length, gpo, gpe, tgpe, fun i j => sub (a.getD i 0) (b.getD j 0)⟩
    cs.length cs 0 0 .A (Nat.le_refl _) (by simpa using hV.2.1) (by simpa using hV.2.2) hadj
    (fun _ => Or.inl ⟨rfl, rfl⟩) (fun h => absurd rfl h)
  have h2 := subPart_eq_subSum sub gpo gpe tgpe a b cs 0 0 (by simpa using Nat.le_of_eq hV.2.1)
    (by simpa using Nat.le_of_eq hV.2.2)
  simp only [List.drop_zero] at h2
  unfold STW.gapPart at h1
  simp only [ne_eq, not_true_eq_false, false_and, if_false, Int.add_zero, and_self, decide_true] at h1
  rw [← h2]
  omega

end Kalign
