import KalignModel.Lemmas.SoftFloat
/-!
# Value classes of the DP scores on the software binary32

Every score the kernels and the meetup handle is either *sentinel-like* (`Sent`: `-FLT_MAX` or `-∞`, the latter arises as
`-FLT_MAX + -FLT_MAX`) or *finite and bounded* (`absLe x (B·2²⁰)`); `Cls B x p` says which (`p = true`: bounded by `B` units of
2²⁰).  The operations respect the classes (`cls_add`, `cls_sub_pen`, `cls_smax`), which is all the Hirschberg monitor needs to
know about the values.
-/
set_option exponentiation.threshold 512
namespace Kalign.SoftF32

/-- `-∞` -/
def negInfty : SoftF32 := ofRaw 0xff800000

/-- sentinel-like: `-FLT_MAX` or `-∞` -/
def Sent (x : SoftF32) : Prop := x = negMax ∨ x = negInfty

/-- class of a score: bounded by `B·2²⁰` (`p = true`) or sentinel-like (`p = false`) -/
def Cls (B : Nat) (x : SoftF32) (p : Bool) : Prop := if p then absLe x (B * 1048576) else Sent x

@[simp] theorem cls_true (B : Nat) (x : SoftF32) : Cls B x true ↔ absLe x (B * 1048576) := by simp [Cls]
@[simp] theorem cls_false (B : Nat) (x : SoftF32) : Cls B x false ↔ Sent x := by simp [Cls]

theorem Cls.mono {B B' : Nat} {x : SoftF32} {p : Bool} (h : Cls B x p) (hB : B ≤ B') : Cls B' x p := by
  cases p
  · simpa using h
  · simp only [cls_true] at h ⊢
    exact h.mono (Nat.mul_le_mul_right _ hB)

theorem cls_negInf (B : Nat) : Cls B (Score.negInf : SoftF32) false := by
  simp only [cls_false]; exact Or.inl rfl

theorem cls_zero (B : Nat) : Cls B (Score.zero : SoftF32) true := by
  simp only [cls_true]
  show absLe zero _
  refine ⟨by decide, ?_⟩
  have : magVal zero.mag = 0 := by decide
  omega

theorem unit_lt (B : Nat) (hB : B < 16777216) : B * 1048576 < 2 ^ 103 := by
  have : B * 1048576 < 16777216 * 1048576 := Nat.mul_lt_mul_of_pos_right hB (by decide)
  have h2 : (16777216 : Nat) * 1048576 = 2 ^ 44 := by decide
  have h3 : (2 : Nat) ^ 44 < 2 ^ 103 := Nat.pow_lt_pow_right (by decide) (by decide)
  omega

theorem negInfty_add {y : SoftF32} (hy : y.isFinite = true) : add negInfty y = negInfty := by
  have h2 : y.isNaN = false := isNaN_of_finite hy
  have h3 : y.isInf = false := by
    rw [isFinite_iff] at hy
    rw [← Bool.not_eq_true, isInf_iff]; omega
  have h4 : negInfty.isNaN = false := by decide
  have h5 : negInfty.isInf = true := by decide
  simp [add, h2, h3, h4, h5]

theorem sent_add_fin {x y : SoftF32} {B : Nat} (hx : Sent x) (hy : absLe y (B * 1048576)) (hB : B < 16777216) :
    Sent (add x y) := by
  rcases hx with rfl | rfl
  · left
    apply negMax_add hy.finite
    have := hy.2
    have : B * 1048576 * 2 ^ 149 < 2 ^ 103 * 2 ^ 149 := Nat.mul_lt_mul_of_pos_right (unit_lt B hB) (by decide)
    omega
  · right; exact negInfty_add hy.finite

theorem sent_not_nan {x : SoftF32} (hx : Sent x) : x.isNaN = false := by
  rcases hx with rfl | rfl <;> decide

theorem add_comm' {a b : SoftF32} (ha : a.isNaN = false) (hb : b.isNaN = false) : add a b = add b a := by
  unfold add
  rw [ha, hb]
  simp only [Bool.false_eq_true, if_false]
  by_cases hai : a.isInf = true
  · by_cases hbi : b.isInf = true
    · rw [hai, hbi]
      simp only [if_true, Bool.true_and]
      by_cases hs : a.sign = b.sign
      · have : a = b := eq_of_sign_mag hs (by rw [(isInf_iff a).1 hai, (isInf_iff b).1 hbi])
        subst this; rfl
      · have h1 : (a.sign != b.sign) = true := by simpa using hs
        have h2 : (b.sign != a.sign) = true := by simpa using fun h => hs h.symm
        rw [h1, h2]; rfl
    · simp [hai, hbi]
  · by_cases hbi : b.isInf = true
    · simp [hai, hbi]
    · have h1 : a.isInf = false := by simpa using hai
      have h2 : b.isInf = false := by simpa using hbi
      simp only [h1, h2, Bool.false_eq_true, if_false]
      rw [addFinite_eq, addFinite_eq, Int.add_comm, Bool.and_comm]

theorem fin_add_sent {x y : SoftF32} {B : Nat} (hx : absLe x (B * 1048576)) (hy : Sent y) (hB : B < 16777216) :
    Sent (add x y) := by
  rw [add_comm' (isNaN_of_finite hx.finite) (sent_not_nan hy)]
  exact sent_add_fin hy hx hB

theorem sent_add_sent {x y : SoftF32} (hx : Sent x) (hy : Sent y) : Sent (add x y) := by
  rcases hx with rfl | rfl <;> rcases hy with rfl | rfl
  · right; decide
  · right; decide
  · right; decide
  · right; decide

theorem fin_add_fin {x y : SoftF32} {B B' : Nat} (hx : absLe x (B * 1048576)) (hy : absLe y (B' * 1048576))
    (hB : B + B' < 16777216) : absLe (add x y) ((B + B') * 1048576) := by
  have := add_absLe (c := B + B') (t := 20) hx hy (by rw [Nat.add_mul]) hB (by decide)
  rwa [← Nat.add_mul] at this

/-- **addition respects the classes** -/
theorem cls_add {x y : SoftF32} {B B' : Nat} {p q : Bool} (hx : Cls B x p) (hy : Cls B' y q) (hB : B + B' < 16777216) :
    Cls (B + B') (Score.add x y) (p && q) := by
  show Cls (B + B') (add x y) (p && q)
  cases p <;> cases q
  · simp only [cls_false, Bool.and_self] at *; exact sent_add_sent hx hy
  · simp only [cls_false, cls_true, Bool.and_true] at *
    exact sent_add_fin hx hy (by omega)
  · simp only [cls_false, cls_true, Bool.and_false] at *
    exact fin_add_sent hx hy (by omega)
  · simp only [cls_true, Bool.and_self] at *
    exact fin_add_fin hx hy hB

/-- subtraction of a bounded value (a penalty, the tie-break term) respects the classes -/
theorem cls_sub_pen {x y : SoftF32} {B B' : Nat} {p : Bool} (hx : Cls B x p) (hy : absLe y (B' * 1048576))
    (hB : B + B' < 16777216) : Cls (B + B') (Score.sub x y) p := by
  show Cls (B + B') (sub x y) p
  have hxn : x.isNaN = false := by
    cases p
    · exact sent_not_nan (by simpa using hx)
    · exact isNaN_of_finite (absLe.finite (by simpa using hx))
  rw [sub_of_not_nan hxn (isNaN_of_finite hy.finite)]
  have := cls_add hx (show Cls B' (neg y) true by simpa using neg_absLe hy) hB
  rw [Bool.and_true] at this
  exact this

theorem key_of_sent {x : SoftF32} (hx : Sent x) : x.key ≤ -2139095039 := by
  rcases hx with rfl | rfl
  · have : negMax.key = -2139095039 := by decide
    omega
  · have : negInfty.key = -2139095040 := by decide
    omega

theorem key_of_fin {x : SoftF32} {N : Nat} (hx : absLe x N) (hN : N < 2 ^ 127) : -2139095039 < x.key := by
  have h1 := hx.1
  have h2 := hx.2
  have hlt : x.mag < 2139095039 := by
    rw [← magVal_lt_iff, magVal_fltMax]
    have : N * 2 ^ 149 < 2 ^ 127 * 2 ^ 149 := Nat.mul_lt_mul_of_pos_right hN (by decide)
    omega
  unfold key
  cases x.sign
  · simp only [Bool.false_eq_true, if_false]; omega
  · simp only [if_true]; omega

/-- a bounded value beats a sentinel-like one -/
theorem gt_fin_sent {x y : SoftF32} {N : Nat} (hx : absLe x N) (hN : N < 2 ^ 127) (hy : Sent y) : gt x y = true := by
  show lt y x = true
  have h1 := key_of_sent hy
  have h2 := key_of_fin hx hN
  simp only [lt, sent_not_nan hy, isNaN_of_finite hx.finite, Bool.not_false, Bool.true_and, decide_eq_true_eq]
  omega

/-- a sentinel-like value never beats a bounded one -/
theorem gt_sent_fin {x y : SoftF32} {N : Nat} (hx : Sent x) (hy : absLe y N) (hN : N < 2 ^ 127) : gt x y = false := by
  show lt y x = false
  have h1 := key_of_sent hx
  have h2 := key_of_fin hy hN
  simp only [lt, sent_not_nan hx, isNaN_of_finite hy.finite, Bool.not_false, Bool.true_and, decide_eq_false_iff_not]
  omega

/-- a sentinel-like value never beats `-FLT_MAX` -/
theorem gt_sent_negMax {x : SoftF32} (hx : Sent x) : gt x negMax = false := by
  rcases hx with rfl | rfl <;> decide

theorem unit_lt127 (B : Nat) (hB : B < 16777216) : B * 1048576 < 2 ^ 127 := by
  have := unit_lt B hB
  have : (2 : Nat) ^ 103 < 2 ^ 127 := Nat.pow_lt_pow_right (by decide) (by decide)
  omega

/-- **`MAX` respects the classes**: bounded as soon as one argument is -/
theorem cls_smax {x y : SoftF32} {B : Nat} {p q : Bool} (hx : Cls B x p) (hy : Cls B y q) (hB : B < 16777216) :
    Cls B (smax x y) (p || q) := by
  unfold smax
  show Cls B (if gt x y = true then x else y) (p || q)
  cases p <;> cases q
  · simp only [Bool.or_self]
    split
    · exact hx
    · exact hy
  · simp only [cls_false, cls_true, Bool.false_or] at *
    rw [gt_sent_fin hx hy (unit_lt127 B hB)]
    simpa using hy
  · simp only [cls_false, cls_true, Bool.or_false] at *
    rw [gt_fin_sent hx (unit_lt127 B hB) hy]
    simpa using hx
  · simp only [Bool.or_self]
    split
    · exact hx
    · exact hy

theorem cls_smax3 {x y z : SoftF32} {B : Nat} {p q r : Bool} (hx : Cls B x p) (hy : Cls B y q) (hz : Cls B z r)
    (hB : B < 16777216) : Cls B (smax3 x y z) (p || q || r) :=
  cls_smax (cls_smax hx hy hB) hz hB

end Kalign.SoftF32
