import KalignModel.Lemmas.DiagDirect1
import KalignModel.Lemmas.DiagDirect2
/-!
# The diagonal of identical operands satisfies `CutHyp` under a per-residue condition

`DiagRes gpo gpe tgpe s seq`: non-negative penalties and, for all residues `x`, `y` of `seq`,

    0 < s x x + 2·min(gpo, gpe, tgpe)          2·s x y ≤ s x x + s y y

(no relation between the penalties: `tgpe = 0` is allowed, and a negative self-score is allowed when every gap column
costs more than half of it).
-/
namespace Kalign

structure DiagRes (gpo gpe tgpe : Int) (s : Nat → Nat → Int) (seq : Array Nat) : Prop where
  hgpo : 0 ≤ gpo
  hgpe : 0 ≤ gpe
  htgpe : 0 ≤ tgpe
  hself : ∀ x ∈ seq.toList, 0 < s x x + 2 * min gpo (min gpe tgpe)
  hdom : ∀ x ∈ seq.toList, ∀ y ∈ seq.toList, 2 * s x y ≤ s x x + s y y

theorem getD_mem_toList (seq : Array Nat) (i : Nat) (h : i < seq.size) : seq.getD i 0 ∈ seq.toList := by
  have : seq.getD i 0 = seq[i] := by simp [Array.getD, h]
  rw [this]
  exact Array.getElem_mem_toList h

/-- self-score of position `j` -/
def selfSc (s : Nat → Nat → Int) (seq : Array Nat) (j : Nat) : Int := s (seq.getD j 0) (seq.getD j 0)

theorem diagCfgF (gpo gpe tgpe : Int) (s : Nat → Nat → Int) (seq : Array Nat) (E : Int) (hgpo : 0 ≤ gpo)
    (hself : ∀ x ∈ seq.toList, E ≤ s x x + 2 * min gpo (min gpe tgpe))
    (hdom : ∀ x ∈ seq.toList, ∀ y ∈ seq.toList, 2 * s x y ≤ s x x + s y y)
    (sa mid ea lenB : Nat) (hea : ea ≤ seq.size) :
    DiagCfg (cfgF gpo gpe tgpe s seq seq ⟨sa, mid, sa, ea, lenB⟩) (fun i => selfSc s seq (sa + i))
      (min gpo (min gpe tgpe)) E := by
  refine ⟨hgpo, ?_, ?_, ?_, ?_, ?_, ?_⟩
  · show _ ≤ gpo; omega
  · show _ ≤ gpe; omega
  · show _ ≤ tgpe; omega
  · intro p k hp hk
    have hp' : p < ea - sa := hp
    have hk' : k < ea - sa := hk
    exact hdom _ (getD_mem_toList seq (sa + p) (by omega)) _ (getD_mem_toList seq (sa + k) (by omega))
  · intro p _; rfl
  · intro i hi
    have hi' : i < ea - sa := hi
    exact hself _ (getD_mem_toList seq (sa + i) (by omega))

theorem diagCfgB (gpo gpe tgpe : Int) (s : Nat → Nat → Int) (seq : Array Nat) (E : Int) (hgpo : 0 ≤ gpo)
    (hself : ∀ x ∈ seq.toList, E ≤ s x x + 2 * min gpo (min gpe tgpe))
    (hdom : ∀ x ∈ seq.toList, ∀ y ∈ seq.toList, 2 * s x y ≤ s x x + s y y)
    (sa mid ea lenB : Nat) (hea : ea ≤ seq.size) :
    DiagCfg (cfgB gpo gpe tgpe s seq seq ⟨mid, ea, sa, ea, lenB⟩) (fun i => selfSc s seq (ea - 1 - i))
      (min gpo (min gpe tgpe)) E := by
  refine ⟨hgpo, ?_, ?_, ?_, ?_, ?_, ?_⟩
  · show _ ≤ gpo; omega
  · show _ ≤ gpe; omega
  · show _ ≤ tgpe; omega
  · intro p k hp hk
    have hp' : p < ea - sa := hp
    have hk' : k < ea - sa := hk
    exact hdom _ (getD_mem_toList seq (ea - 1 - p) (by omega)) _ (getD_mem_toList seq (ea - 1 - k) (by omega))
  · intro p _; rfl
  · intro i hi
    have hi' : i < ea - sa := hi
    exact hself _ (getD_mem_toList seq (ea - 1 - i) (by omega))

theorem firstKind_diag (m : Nat) : firstKind .A (diagCols m) = .A := by
  cases m with
  | zero => rfl
  | succ m => rw [diagCols_succ]; rfl

theorem mem_diag_both {n : Nat} {Y Z W : List Col} (h : diagCols n = Y ++ Z ++ W) :
    (∀ c ∈ Y, c = .both) ∧ (∀ c ∈ Z, c = .both) ∧ (∀ c ∈ W, c = .both) := by
  have hall : ∀ c ∈ Y ++ Z ++ W, c = .both := by
    intro c hc
    rw [← h] at hc
    exact List.eq_of_mem_replicate hc
  refine ⟨fun c hc => hall c (by simp [hc]), fun c hc => hall c (by simp [hc]), fun c hc => hall c (by simp [hc])⟩

/-- the pieces of the diagonal at the cut `(mid, 1)`, as the conclusion of `CutHyp.cut` wants them -/
theorem diag_cut_pieces (cF cB : KCfg) (sb mid eb : Nat) (h1 : sb ≤ mid) (h2 : mid < eb) (hcn : cF.n = eb - sb)
    (hcBn : cB.n = eb - sb) (X : List Col) (eX : X = diagCols (eb - sb)) {α : Type} (res : MeetResult α)
    (hmeet : res.meet = ((sb + (mid - sb) : Nat) : Int)) (htrans : res.transition = 1) :
    ∃ X1 X2 k t, X = X1 ++ X2 ∧ res.meet = ((sb + k : Nat) : Int) ∧ res.transition = t ∧ Adm (eb - sb) k t ∧
      consA X1 = mid - sb ∧ consB X1 = k ∧ consA X2 = eb - mid ∧ consB X1 + consB X2 = eb - sb ∧
      lastKind .A X1 = fkOf t ∧ lastKind .A X2.reverse = bkOf t ∧
      walkOK cF 0 0 .A X1 = true ∧ walkOK cB 0 0 .A X2.reverse = true := by
  refine ⟨diagCols (mid - sb), diagCols (eb - mid), mid - sb, 1, ?_, hmeet, htrans, Or.inl ⟨by omega, Or.inl rfl⟩,
    consA_diag _, consB_diag _, consA_diag _, ?_, ?_, ?_, ?_, ?_⟩
  · rw [eX, ← diagCols_add]
    congr 1
    omega
  · rw [consB_diag, consB_diag]; omega
  · rw [lastKind_diag]; rfl
  · rw [diagCols_reverse, lastKind_diag]; rfl
  · exact walkOK_diag cF _ 0 0 .A (by rw [hcn]; omega)
  · rw [diagCols_reverse]
    exact walkOK_diag cB _ 0 0 .A (by rw [hcBn]; omega)

/-- **the meetup of every rectangle of the diagonal returns the diagonal's cut** -/
theorem diag_cutHyp (ap : AlnParam ExactScore) (gpo gpe tgpe : Int) (s : Nat → Nat → Int)
    (hap : ApOK ap gpo gpe tgpe s) (seq : Array Nat) (H : DiagRes gpo gpe tgpe s seq) :
    CutHyp ap gpo gpe tgpe s seq seq seq.size seq.size (diagCols seq.size) := by
  refine ⟨hap, adjOK_diag _ _, consA_diag _, consB_diag _, ?_⟩
  intro sa mid ea sb eb h1 h2 h3 h4 h5 hmid P1 X P2 hP hP1a hP1b hXa hXb _ _ fk bk hfk hbk res hres
  obtain ⟨hb1, hbX, hb2⟩ := mem_diag_both hP
  have eP1 := all_both_diag P1 hb1
  have eX := all_both_diag X hbX
  have eP2 := all_both_diag P2 hb2
  rw [eP1, consA_diag] at hP1a
  rw [eP1, consB_diag] at hP1b
  rw [eX, consA_diag] at hXa
  rw [eX, consB_diag] at hXb
  have hsb : sb = sa := by omega
  have heb : eb = ea := by omega
  subst hsb heb
  have hfkA : fk = .A := by rw [hfk, eP1]; exact lastKind_diag _
  have hbkA : bk = .A := by rw [hbk, eP2]; exact firstKind_diag _
  subst hfkA hbkA
  have hself1 : ∀ x ∈ seq.toList, (1 : Int) ≤ s x x + 2 * min gpo (min gpe tgpe) := fun x hx => by
    have := H.hself x hx; omega
  have HF := diagCfgF gpo gpe tgpe s seq 1 H.hgpo hself1 H.hdom sb mid eb seq.size h3
  have HB := diagCfgB gpo gpe tgpe s seq 1 H.hgpo hself1 H.hdom sb mid eb seq.size h3
  obtain ⟨cF, hcF⟩ : ∃ cF, cF = cfgF gpo gpe tgpe s seq seq ⟨sb, mid, sb, eb, seq.size⟩ := ⟨_, rfl⟩
  obtain ⟨cB, hcB⟩ : ∃ cB, cB = cfgB gpo gpe tgpe s seq seq ⟨mid, eb, sb, eb, seq.size⟩ := ⟨_, rfl⟩
  rw [← hcF] at HF hres ⊢
  rw [← hcB] at HB hres ⊢
  have hcn : cF.n = eb - sb := by rw [hcF]; rfl
  have hcBn : cB.n = eb - sb := by rw [hcB]; rfl
  have hgpe' : 0 ≤ cF.gpe := by rw [hcF]; exact H.hgpe
  have htgpe' : 0 ≤ cF.tgpe := by rw [hcF]; exact H.htgpe
  have hsum : ∀ k, k ≤ cF.n →
      psum (fun i => selfSc s seq (sb + i)) k + psum (fun i => selfSc s seq (eb - 1 - i)) (cF.n - k) =
        psum (fun i => selfSc s seq (sb + i)) (eb - sb) := by
    intro k hk
    rw [hcn] at hk ⊢
    have := psum_rev (selfSc s seq) sb eb (by omega) (eb - sb - k) (by omega)
    have e : eb - sb - (eb - sb - k) = k := by omega
    rw [e] at this
    exact this
  obtain ⟨hmeet, htrans⟩ := diag_meet cF cB _ _ _ HF HB (by rw [hcn, hcBn]) hgpe' htgpe' (mid - sb) (eb - mid)
    (by rw [hcn]; omega) (by omega) (by rw [hcn]; omega) _ hsum sb eb (by rw [hcn]; omega)
  rw [← hres] at hmeet htrans
  exact diag_cut_pieces cF cB sb mid eb h1 h2 hcn hcBn X (by rw [eX, hXa]) res hmeet htrans

end Kalign
