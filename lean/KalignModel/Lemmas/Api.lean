import KalignModel.Model.Api
/-!
# Lemmas about the API state machine
-/
namespace Kalign.Api
variable (P : Params)

/-! ## `kalign_run` and the globals -/

@[simp] theorem alloc_g (w : World) (b : Blk) : (w.alloc b).g = w.g := rfl
@[simp] theorem free_g (w : World) (b : Blk) : (w.free b).g = w.g := rfl
@[simp] theorem setThreads_ledger (w : World) (n : Nat) : (w.setThreads n).ledger = w.ledger := rfl
@[simp] theorem setMask_ledger (w : World) : w.setMask.ledger = w.ledger := rfl
@[simp] theorem alloc_ledger (w : World) (b : Blk) : (w.alloc b).ledger = b :: w.ledger := rfl
@[simp] theorem free_ledger (w : World) (b : Blk) : (w.free b).ledger = w.ledger.erase b := rfl
@[simp] theorem setThreads_g (w : World) (n : Nat) : (w.setThreads n).g = ⟨n, w.g.maskInit⟩ := rfl
@[simp] theorem setMask_g (w : World) : w.setMask.g = ⟨w.g.ompThreads, true⟩ := rfl

theorem dEstimation0_reads (m : P.Msa) (w : World) :
    (dEstimation0 P m w).1 = P.distances m true w.g.ompThreads := rfl

theorem buildTree_fst (m : P.Msa) (w : World) :
    (buildTree P m w).1 = P.kmeans m (P.distances m true w.g.ompThreads) true w.g.ompThreads := rfl

theorem buildTree_g (m : P.Msa) (w : World) : (buildTree P m w).2.g = ⟨w.g.ompThreads, true⟩ := rfl

theorem buildTree_ledger (m : P.Msa) (w : World) : (buildTree P m w).2.ledger = w.ledger := by
  simp [buildTree, dEstimation0]

theorem kalignRun_fst (m : P.Msa) (cfg : P.Cfg) (w : World) :
    (kalignRun P m cfg w).1 = runPure P m cfg := by
  unfold kalignRun runPure
  rcases hp : P.prepare m with ⟨m1, ok⟩
  cases ok
  · simp
  · simp only [Bool.not_true, Bool.false_eq_true, if_false]
    cases hq : P.paramInit (P.fullAlphabet m1) cfg <;> simp [buildTree_fst, buildTree_g]

theorem kalignRun_g (m : P.Msa) (cfg : P.Cfg) (w : World) :
    (kalignRun P m cfg w).2.g =
      if (P.prepare m).2 then ⟨P.threads cfg, true⟩ else w.g := by
  unfold kalignRun
  rcases hp : P.prepare m with ⟨m1, ok⟩
  cases ok
  · simp
  · simp only [Bool.not_true, Bool.false_eq_true, if_false]
    cases hq : P.paramInit (P.fullAlphabet m1) cfg <;> simp [buildTree_g]

theorem kalignRun_ledger (m : P.Msa) (cfg : P.Cfg) (w : World) :
    (kalignRun P m cfg w).2.ledger = w.ledger := by
  unfold kalignRun
  rcases hp : P.prepare m with ⟨m1, ok⟩
  cases ok
  · simp
  · simp only [Bool.not_true, Bool.false_eq_true, if_false]
    cases hq : P.paramInit (P.fullAlphabet m1) cfg <;> simp [buildTree_ledger]

end Kalign.Api

namespace Kalign.Api
variable (P : Params)

/-! ## heaps -/

theorem lookup_setObj (heap : List (Nat × Obj P)) (h k : Nat) (o : Obj P) :
    (setObj P heap h o).lookup k = if k = h then (heap.lookup h).map (fun _ => o) else heap.lookup k := by
  induction heap with
  | nil => simp [setObj]
  | cons e t ih =>
    obtain ⟨a, b⟩ := e
    simp only [setObj, List.map_cons] at ih ⊢
    by_cases hah : a = h
    · subst hah
      by_cases hk : k = a
      · subst hk; simp
      · have : (k == a) = false := by simpa using hk
        simp only [if_true, List.lookup_cons, this, hk, if_false]
        simpa [hk] using ih
    · by_cases hk : k = h
      · subst hk
        have : (k == a) = false := by simpa using (fun e => hah e.symm)
        simp only [hah, if_false, List.lookup_cons, this, if_true]
        simpa using ih
      · simp only [hah, if_false, hk, List.lookup_cons]
        cases hka : (k == a)
        · simpa [hk] using ih
        · rfl

theorem lookup_dropObj (heap : List (Nat × Obj P)) (h k : Nat) :
    (dropObj P heap h).lookup k = if k = h then none else heap.lookup k := by
  induction heap with
  | nil => simp [dropObj]
  | cons e t ih =>
    obtain ⟨a, b⟩ := e
    simp only [dropObj] at ih ⊢
    by_cases hah : a = h
    · subst hah
      simp only [List.filter_cons, ne_eq, not_true_eq_false, decide_false, Bool.false_eq_true, if_false, ih]
      by_cases hk : k = a
      · simp [hk]
      · have : (k == a) = false := by simpa using hk
        simp [hk, List.lookup_cons, this]
    · simp only [List.filter_cons, ne_eq, hah, not_false_eq_true, decide_true, if_true, List.lookup_cons, ih]
      by_cases hk : k = h
      · subst hk
        have : (k == a) = false := by simpa using (fun e => hah e.symm)
        simp [this]
      · simp [hk]

theorem lookup_filter_contains (heap : List (Nat × Obj P)) (hs : List Nat) (h : Nat) (hh : h ∈ hs) :
    (heap.filter fun e => hs.contains e.1).lookup h = heap.lookup h := by
  induction heap with
  | nil => rfl
  | cons e t ih =>
    obtain ⟨a, b⟩ := e
    by_cases ha : hs.contains a = true
    · simp only [List.filter_cons, ha, if_true, List.lookup_cons, ih]
    · simp only [List.filter_cons, ha, Bool.false_eq_true, if_false, ih, List.lookup_cons]
      have : (h == a) = false := by
        cases hha : (h == a)
        · rfl
        · have : h = a := by simpa using hha
          subst this
          exact absurd (by simpa using hh) ha
      simp [this]

theorem handles_setObj (heap : List (Nat × Obj P)) (h : Nat) (o : Obj P) :
    (setObj P heap h o).map (·.1) = heap.map (·.1) := by
  induction heap with
  | nil => rfl
  | cons e t ih =>
    simp only [setObj, List.map_cons] at ih ⊢
    rw [ih]
    by_cases he : e.1 = h <;> simp [he]

theorem handles_dropObj (heap : List (Nat × Obj P)) (h : Nat) :
    (dropObj P heap h).map (·.1) = (heap.map (·.1)).filter (· ≠ h) := by
  simp only [dropObj, List.filter_map]
  rfl

theorem lookup_mem (heap : List (Nat × Obj P)) (h : Nat) (o : Obj P) (hl : heap.lookup h = some o) :
    h ∈ heap.map (·.1) := by
  induction heap with
  | nil => simp at hl
  | cons e t ih =>
    obtain ⟨a, b⟩ := e
    simp only [List.lookup_cons] at hl
    cases hha : (h == a)
    · rw [hha] at hl; simp only [List.map_cons, List.mem_cons]; exact Or.inr (ih hl)
    · have : h = a := by simpa using hha
      simp [this]

theorem lookup_none_of_not_mem (heap : List (Nat × Obj P)) (h : Nat) (hn : h ∉ heap.map (·.1)) :
    heap.lookup h = none := by
  cases hl : heap.lookup h with
  | none => rfl
  | some o => exact absurd (lookup_mem P heap h o hl) hn

theorem erase_map_obj (K : List Nat) (h : Nat) (hnd : K.Nodup) :
    (K.map Blk.obj).erase (Blk.obj h) = (K.filter (· ≠ h)).map Blk.obj := by
  induction K with
  | nil => rfl
  | cons k t ih =>
    have hk : k ∉ t := (List.nodup_cons.1 hnd).1
    have ht := (List.nodup_cons.1 hnd).2
    by_cases e : k = h
    · subst e
      have hf' : ∀ a ∈ t, a ≠ k := fun a ha e' => hk (e' ▸ ha)
      simp only [List.map_cons, List.erase_cons_head, List.filter_cons, ne_eq, not_true_eq_false,
        decide_false, Bool.false_eq_true, if_false]
      congr 1
      symm
      apply List.filter_eq_self.2
      intro a ha
      simpa using hf' a ha
    · have : (Blk.obj k == Blk.obj h) = false := by simpa using e
      simp only [List.map_cons, List.erase_cons, this, List.filter_cons, ne_eq, e, not_false_eq_true,
        decide_true, if_true, ih ht]
      rfl

/-! ## `read` -/

/-- the ledger a caller holding `cur` under handle `h` sees above the base `L` -/
def baseLedger (h : Nat) (L : List Blk) (cur : Option P.Msa) : List Blk :=
  if cur.isSome then Blk.obj h :: L else L

theorem readInput_fst (h : Nat) (f : P.File) (cur : Option P.Msa) (w w' : World) :
    (readInput P h f cur w).1 = (readInput P h f cur w').1 := by
  unfold readInput
  cases P.parseFile f with
  | seqs m =>
    cases cur with
    | none => simp only; cases P.nonEmpty m <;> rfl
    | some a =>
      simp only
      cases hok : (P.mergeMsa a m).2
      · simp
      · simp only [Bool.not_true, Bool.false_eq_true, if_false]; cases P.nonEmpty (P.mergeMsa a m).1 <;> rfl
  | _ => rfl

theorem readInput_g (h : Nat) (f : P.File) (cur : Option P.Msa) (w : World) :
    (readInput P h f cur w).2.g = w.g := by
  unfold readInput
  cases P.parseFile f with
  | seqs m =>
    cases cur with
    | none => simp only; cases P.nonEmpty m <;> rfl
    | some a =>
      simp only
      cases hok : (P.mergeMsa a m).2
      · simp
      · simp only [Bool.not_true, Bool.false_eq_true, if_false]; cases P.nonEmpty (P.mergeMsa a m).1 <;> rfl
  | _ => rfl

/-- **every path of `kalign_read_input` frees what it allocated**: afterwards the ledger holds the object
iff `*msa` is non-NULL -/
theorem readInput_ledger (h : Nat) (L : List Blk) (f : P.File) (cur : Option P.Msa) (w : World)
    (hw : w.ledger = baseLedger P h L cur) :
    (readInput P h f cur w).2.ledger = baseLedger P h L (readInput P h f cur w).1.2 := by
  unfold readInput
  cases hp : P.parseFile f with
  | openFail => simp [hw]
  | missing => simp [hw]
  | nothing => simp [hw]
  | readerFail => simp [hw]
  | detectFail => simp [hw]
  | seqs m =>
    cases cur with
    | none =>
      have hw0 : w.ledger = L := by simpa [baseLedger] using hw
      simp only
      cases P.nonEmpty m <;> simp [hw0, baseLedger]
    | some a =>
      have hw0 : w.ledger = Blk.obj h :: L := by simpa [baseLedger] using hw
      simp only
      cases hok : (P.mergeMsa a m).2
      · simp [hw0, baseLedger]
      · simp only [Bool.not_true, Bool.false_eq_true, if_false]
        cases P.nonEmpty (P.mergeMsa a m).1 <;> simp [hw0, baseLedger]

theorem readFiles_fst (h : Nat) (fs : List P.File) (acc : Option P.Msa) (w w' : World) :
    (readFiles P h fs acc w).1 = (readFiles P h fs acc w').1 := by
  induction fs generalizing acc w w' with
  | nil => rfl
  | cons f fs ih =>
    have e := readInput_fst P h f acc w w'
    rcases hr : readInput P h f acc w with ⟨⟨ok, c⟩, w1⟩
    rcases hr' : readInput P h f acc w' with ⟨⟨ok', c'⟩, w2⟩
    rw [hr, hr'] at e
    simp only [Prod.mk.injEq] at e
    obtain ⟨rfl, rfl⟩ := e
    simp only [readFiles, hr, hr']
    cases ok
    · rfl
    · exact ih _ _ _

theorem readFiles_g (h : Nat) (fs : List P.File) (acc : Option P.Msa) (w : World) :
    (readFiles P h fs acc w).2.g = w.g := by
  induction fs generalizing acc w with
  | nil => rfl
  | cons f fs ih =>
    have e := readInput_g P h f acc w
    rcases hr : readInput P h f acc w with ⟨⟨ok, c⟩, w1⟩
    rw [hr] at e
    simp only [readFiles, hr]
    cases ok
    · cases c <;> exact e
    · simp only; rw [ih]; exact e

/-- ledger effect of the read loop -/
theorem readFiles_ledger (h : Nat) (L : List Blk) (fs : List P.File) (acc : Option P.Msa) (w : World)
    (hw : w.ledger = baseLedger P h L acc) :
    (∃ m, (readFiles P h fs acc w).1 = .done (some m) ∧ (readFiles P h fs acc w).2.ledger = Blk.obj h :: L) ∨
    ((readFiles P h fs acc w).1 = .done none ∧ (readFiles P h fs acc w).2.ledger = L) ∨
    ((readFiles P h fs acc w).1 = .failed ∧ (readFiles P h fs acc w).2.ledger = L) := by
  induction fs generalizing acc w with
  | nil =>
    cases acc with
    | none => exact Or.inr (Or.inl ⟨rfl, (by simpa [baseLedger] using hw : w.ledger = L)⟩)
    | some a => exact Or.inl ⟨a, rfl, (by simpa [baseLedger] using hw : w.ledger = Blk.obj h :: L)⟩
  | cons f fs ih =>
    have hl := readInput_ledger P h L f acc w hw
    rcases hr : readInput P h f acc w with ⟨⟨ok, c⟩, w1⟩
    rw [hr] at hl
    simp only [readFiles, hr]
    cases ok
    · right; right
      cases c with
      | none => exact ⟨rfl, by simpa [baseLedger] using hl⟩
      | some a => refine ⟨rfl, ?_⟩; simp only at hl ⊢; simp [hl, baseLedger]
    · exact ih _ _ hl

end Kalign.Api

namespace Kalign.Api
variable (P : Params)

/-! ## the ledger invariant -/

structure Inv (s : State P) : Prop where
  ledger : s.w.ledger = s.handles.map Blk.obj
  nodup : s.handles.Nodup
  lt : ∀ h ∈ s.handles, h < s.next

theorem inv_init (g0 : Globals) : Inv P (State.init P g0) :=
  ⟨rfl, List.nodup_nil, fun _ h => by simp [State.init, State.handles] at h⟩

theorem inv_push (s : State P) (hi : Inv P s) (o : Obj P) (w : World)
    (hw : w.ledger = Blk.obj s.next :: s.w.ledger) :
    Inv P { w := w, heap := (s.next, o) :: s.heap, next := s.next + 1 } := by
  refine ⟨?_, ?_, ?_⟩
  · simp only [State.handles, List.map_cons, hw]
    rw [hi.ledger]; rfl
  · simp only [State.handles, List.map_cons]
    refine List.nodup_cons.2 ⟨fun hm => ?_, hi.nodup⟩
    exact Nat.lt_irrefl _ (hi.lt _ hm)
  · intro h hh
    simp only [State.handles, List.map_cons, List.mem_cons] at hh
    rcases hh with e | e
    · subst e; exact Nat.lt_succ_self _
    · exact Nat.lt_succ_of_lt (hi.lt h e)

theorem inv_same (s : State P) (hi : Inv P s) (w : World) (heap : List (Nat × Obj P))
    (hw : w.ledger = s.w.ledger) (hh : heap.map (·.1) = s.heap.map (·.1)) :
    Inv P { s with w := w, heap := heap } := by
  refine ⟨?_, ?_, ?_⟩
  · simp only [State.handles, hw, hh]; exact hi.ledger
  · simp only [State.handles, hh]; exact hi.nodup
  · intro h hm; simp only [State.handles, hh] at hm; exact hi.lt h hm

theorem step_inv (s : State P) (op : Op P) (hi : Inv P s) : Inv P (step P s op).2 := by
  cases op with
  | read files =>
    have hl := readFiles_ledger P s.next s.w.ledger files none s.w (by simp [baseLedger])
    simp only [step]
    rcases hr : readFiles P s.next files none s.w with ⟨oc, w⟩
    rw [hr] at hl
    rcases hl with ⟨m, h1, h2⟩ | ⟨h1, h2⟩ | ⟨h1, h2⟩
    · simp only at h1 h2; subst h1
      exact inv_push P s hi _ w h2
    · simp only at h1 h2; subst h1
      exact inv_same P s hi w s.heap h2 rfl
    · simp only at h1 h2; subst h1
      exact inv_same P s hi w s.heap h2 rfl
  | run h cfg =>
    simp only [step]
    cases hlk : s.lookup h with
    | none => exact hi
    | some o =>
      cases o with
      | rows r => exact hi
      | msa m =>
        simp only
        rcases hr : kalignRun P m cfg s.w with ⟨⟨m', ok⟩, w⟩
        have hl : w.ledger = s.w.ledger := by
          have := kalignRun_ledger P m cfg s.w; rw [hr] at this; exact this
        exact inv_same P s hi w _ hl (handles_setObj P _ _ _)
  | write h fmt =>
    simp only [step]
    cases hlk : s.lookup h with
    | none => exact hi
    | some o =>
      cases o with
      | rows r => exact hi
      | msa m =>
        simp only
        exact inv_same P s hi _ _ (by simp) (handles_setObj P _ _ _)
  | compare h1 h2 =>
    simp only [step]
    cases hlk1 : s.lookup h1 with
    | none => exact hi
    | some o1 =>
      cases o1 with
      | rows r => exact hi
      | msa r =>
        cases hlk2 : s.lookup h2 with
        | none => exact hi
        | some o2 =>
          cases o2 with
          | rows r => exact hi
          | msa t =>
            simp only
            by_cases e : h1 = h2
            · simp only [e, if_true]
              apply inv_same P s hi _ _ _ (handles_setObj P _ _ _)
              cases (P.compareSelf r).1 <;> simp
            · simp only [e, if_false]
              apply inv_same P s hi _ _ _ (by rw [handles_setObj, handles_setObj])
              cases (P.compare r t).1 <;> simp
  | free h =>
    simp only [step]
    cases hlk : s.lookup h with
    | none => exact hi
    | some o =>
      simp only
      refine ⟨?_, ?_, ?_⟩
      · simp only [State.handles, free_ledger, handles_dropObj]
        rw [hi.ledger]
        exact erase_map_obj s.handles h hi.nodup
      · simp only [State.handles, handles_dropObj]
        exact List.Nodup.sublist List.filter_sublist hi.nodup
      · intro k hk
        simp only [State.handles, handles_dropObj] at hk
        exact hi.lt k (List.mem_filter.1 hk).1
  | kalign arr cfg =>
    simp only [step]
    cases ha : P.arrToMsa arr with
    | none => exact inv_same P s hi _ _ (by simp) rfl
    | some m =>
      simp only
      rcases hr : kalignRun P m cfg (s.w.alloc (.tmp "msa")) with ⟨⟨m', ok⟩, w⟩
      have hl : w.ledger = Blk.tmp "msa" :: s.w.ledger := by
        have := kalignRun_ledger P m cfg (s.w.alloc (.tmp "msa")); rw [hr] at this; exact this
      cases ok
      · simp only [Bool.not_false, if_true]
        exact inv_same P s hi _ _ (by simp [hl]) rfl
      · simp only [Bool.not_true, Bool.false_eq_true, if_false]
        cases hm : P.msaToArr m' with
        | none => exact inv_same P s hi _ _ (by simp [hl]) rfl
        | some r => exact inv_push P s hi _ _ (by simp [hl])

theorem after_nil (s : State P) : after P s [] = s := rfl

theorem after_cons (s : State P) (op : Op P) (ops : List (Op P)) :
    after P s (op :: ops) = after P (step P s op).2 ops := rfl

theorem after_append (s : State P) (ops ops' : List (Op P)) :
    after P s (ops ++ ops') = after P (after P s ops) ops' := by
  induction ops generalizing s with
  | nil => rfl
  | cons op ops ih => simp only [List.cons_append, after_cons, ih]

theorem after_inv (s : State P) (ops : List (Op P)) (hi : Inv P s) : Inv P (after P s ops) := by
  induction ops generalizing s with
  | nil => exact hi
  | cons op ops ih =>
    rw [after_cons]
    exact ih _ (step_inv P s op hi)

end Kalign.Api

namespace Kalign.Api
variable (P : Params)

/-! ## outputs are functions of the argument objects -/

theorem step_independent (s s' : State P) (op : Op P)
    (hargs : ∀ h ∈ op.handles, s.lookup h = s'.lookup h) (hnext : s.next = s'.next) :
    (step P s op).1 = (step P s' op).1 ∧
    (∀ h ∈ op.handles, (step P s op).2.lookup h = (step P s' op).2.lookup h) ∧
    (∀ h, (step P s op).1.created = some h → (step P s op).2.lookup h = (step P s' op).2.lookup h) := by
  cases op with
  | read files =>
    simp only [step, ← hnext]
    rcases hr : readFiles P s.next files none s.w with ⟨oc, w⟩
    rcases hr' : readFiles P s.next files none s'.w with ⟨oc', w'⟩
    have : oc = oc' := by
      have := readFiles_fst P s.next files none s.w s'.w
      rw [hr, hr'] at this; exact this
    subst this
    cases oc with
    | failed => simp [Op.handles, Out.created]
    | done acc =>
      cases acc with
      | none => simp [Op.handles, Out.created]
      | some m =>
        refine ⟨rfl, by simp [Op.handles], ?_⟩
        intro h hh
        simp only [Out.created, Option.some.injEq] at hh
        subst hh
        simp [State.lookup]
  | run h cfg =>
    have e := hargs h (by simp [Op.handles])
    simp only [step, ← e]
    cases hlk : s.lookup h with
    | none => simp [Op.handles, Out.created, e]
    | some o =>
      cases o with
      | rows r => simp [Op.handles, Out.created, ← e, hlk]
      | msa m =>
        simp only
        rcases hr : kalignRun P m cfg s.w with ⟨⟨m1, ok1⟩, w1⟩
        rcases hr' : kalignRun P m cfg s'.w with ⟨⟨m2, ok2⟩, w2⟩
        have h1 := kalignRun_fst P m cfg s.w
        have h2 := kalignRun_fst P m cfg s'.w
        rw [hr] at h1; rw [hr'] at h2
        have h12 : (m1, ok1) = (m2, ok2) := h1.trans h2.symm
        simp only [Prod.mk.injEq] at h12
        obtain ⟨rfl, rfl⟩ := h12
        refine ⟨by first | trivial | rfl, ?_, ?_⟩
        · intro k hk
          simp only [Op.handles, List.mem_singleton] at hk
          subst hk
          simp only [State.lookup, lookup_setObj, if_true]
          have e' : s.heap.lookup k = s'.heap.lookup k := e
          rw [e']
        · intro k; cases ok1 <;> simp [Out.created]
  | write h fmt =>
    have e := hargs h (by simp [Op.handles])
    simp only [step, ← e]
    cases hlk : s.lookup h with
    | none => simp [Op.handles, Out.created, e]
    | some o =>
      cases o with
      | rows r => simp [Op.handles, Out.created, ← e, hlk]
      | msa m =>
        simp only
        refine ⟨by first | trivial | rfl, ?_, ?_⟩
        · intro k hk
          simp only [Op.handles, List.mem_singleton] at hk
          subst hk
          simp only [State.lookup, lookup_setObj, if_true]
          have e' : s.heap.lookup k = s'.heap.lookup k := e
          rw [e']
        · intro k; cases (P.render m fmt).1 <;> simp [Out.created]
  | compare h1 h2 =>
    have e1 := hargs h1 (by simp [Op.handles])
    have e2 := hargs h2 (by simp [Op.handles])
    have e1' : s.heap.lookup h1 = s'.heap.lookup h1 := e1
    have e2' : s.heap.lookup h2 = s'.heap.lookup h2 := e2
    simp only [step, ← e1, ← e2]
    cases hlk1 : s.lookup h1 with
    | none => simp [Op.handles, Out.created, e1, e2]
    | some o1 =>
      cases o1 with
      | rows r => simp [Op.handles, Out.created, ← e1, ← e2, hlk1]
      | msa r =>
        cases hlk2 : s.lookup h2 with
        | none => simp [Op.handles, Out.created, ← e1, ← e2, hlk1, hlk2]
        | some o2 =>
          cases o2 with
          | rows r => simp [Op.handles, Out.created, ← e1, ← e2, hlk1, hlk2]
          | msa t =>
            simp only
            by_cases e : h1 = h2
            · simp only [e, if_true]
              refine ⟨by first | trivial | rfl, ?_, ?_⟩
              · intro k hk
                simp only [State.lookup, lookup_setObj]
                simp only [Op.handles, List.mem_cons, List.not_mem_nil, or_false, or_self] at hk
                subst hk
                simp only [if_true, e2']
              · intro k; cases (P.compareSelf r).1 <;> simp [Out.created]
            · simp only [e, if_false]
              refine ⟨by first | trivial | rfl, ?_, ?_⟩
              · intro k hk
                simp only [State.lookup, lookup_setObj]
                simp only [Op.handles, List.mem_cons, List.not_mem_nil, or_false] at hk
                rcases hk with hk | hk
                · subst hk; simp only [e, if_false, if_true, e1']
                · subst hk
                  have hne : ¬ k = h1 := fun e' => e e'.symm
                  simp [hne, e2']
              · intro k; cases (P.compare r t).1 <;> simp [Out.created]
  | free h =>
    have e := hargs h (by simp [Op.handles])
    simp only [step, ← e]
    cases hlk : s.lookup h with
    | none => simp [Op.handles, Out.created, e]
    | some o =>
      simp only
      refine ⟨by first | trivial | rfl, ?_, ?_⟩
      · intro k hk
        simp only [Op.handles, List.mem_singleton] at hk
        subst hk
        simp [State.lookup, lookup_dropObj]
      · intro k hk; simp [Out.created] at hk
  | kalign arr cfg =>
    simp only [step, ← hnext]
    cases ha : P.arrToMsa arr with
    | none => simp [Op.handles, Out.created]
    | some m =>
      simp only
      rcases hr : kalignRun P m cfg (s.w.alloc (.tmp "msa")) with ⟨⟨m1, ok1⟩, w1⟩
      rcases hr' : kalignRun P m cfg (s'.w.alloc (.tmp "msa")) with ⟨⟨m2, ok2⟩, w2⟩
      have h1 := kalignRun_fst P m cfg (s.w.alloc (.tmp "msa"))
      have h2 := kalignRun_fst P m cfg (s'.w.alloc (.tmp "msa"))
      rw [hr] at h1; rw [hr'] at h2
      have h12 : (m1, ok1) = (m2, ok2) := h1.trans h2.symm
      simp only [Prod.mk.injEq] at h12
      obtain ⟨rfl, rfl⟩ := h12
      cases ok1
      · simp [Op.handles, Out.created]
      · simp only [Bool.not_true, Bool.false_eq_true, if_false]
        cases hm : P.msaToArr m1 with
        | none => simp [Op.handles, Out.created]
        | some r =>
          refine ⟨rfl, by simp [Op.handles], ?_⟩
          intro h hh
          simp only [Out.created, Option.some.injEq] at hh
          subst hh
          simp [State.lookup]

end Kalign.Api

namespace Kalign.Api
variable (P : Params)

/-- states that agree on heap and handle counter (but not on globals or ledger) step alike -/
theorem step_sim (s s' : State P) (op : Op P) (hh : s.heap = s'.heap) (hn : s.next = s'.next) :
    (step P s op).1 = (step P s' op).1 ∧ (step P s op).2.heap = (step P s' op).2.heap ∧
    (step P s op).2.next = (step P s' op).2.next := by
  obtain ⟨w, heap, next⟩ := s
  obtain ⟨w', heap', next'⟩ := s'
  simp only at hh hn
  subst hh; subst hn
  cases op with
  | read files =>
    simp only [step]
    rcases hr : readFiles P next files none w with ⟨oc, w1⟩
    rcases hr' : readFiles P next files none w' with ⟨oc', w2⟩
    have : oc = oc' := by
      have := readFiles_fst P next files none w w'
      rw [hr, hr'] at this; exact this
    subst this
    cases oc with
    | failed => simp
    | done acc => cases acc <;> simp
  | run h cfg =>
    simp only [step, State.lookup]
    cases heap.lookup h with
    | none => simp
    | some o =>
      cases o with
      | rows r => simp
      | msa m =>
        simp only
        rw [show kalignRun P m cfg w = ((kalignRun P m cfg w).1, (kalignRun P m cfg w).2) from rfl,
            show kalignRun P m cfg w' = ((kalignRun P m cfg w').1, (kalignRun P m cfg w').2) from rfl,
            kalignRun_fst, kalignRun_fst]
        simp
  | write h fmt =>
    simp only [step, State.lookup]
    cases heap.lookup h with
    | none => simp
    | some o => cases o <;> simp
  | compare h1 h2 =>
    simp only [step, State.lookup]
    cases heap.lookup h1 with
    | none => simp
    | some o1 =>
      cases o1 with
      | rows r => simp
      | msa r =>
        cases heap.lookup h2 with
        | none => simp
        | some o2 =>
          cases o2 with
          | rows r => simp
          | msa t =>
            simp only
            by_cases e : h1 = h2 <;> simp [e]
  | free h =>
    simp only [step, State.lookup]
    cases heap.lookup h <;> simp
  | kalign arr cfg =>
    simp only [step]
    cases P.arrToMsa arr with
    | none => simp
    | some m =>
      simp only
      rw [show kalignRun P m cfg (w.alloc (.tmp "msa")) =
            ((kalignRun P m cfg (w.alloc (.tmp "msa"))).1, (kalignRun P m cfg (w.alloc (.tmp "msa"))).2) from rfl,
          show kalignRun P m cfg (w'.alloc (.tmp "msa")) =
            ((kalignRun P m cfg (w'.alloc (.tmp "msa"))).1, (kalignRun P m cfg (w'.alloc (.tmp "msa"))).2) from rfl,
          kalignRun_fst, kalignRun_fst]
      rcases runPure P m cfg with ⟨m1, ok⟩
      cases ok
      · simp
      · simp only [Bool.not_true, Bool.false_eq_true, if_false]
        cases P.msaToArr m1 <;> simp

theorem run_sim (s s' : State P) (ops : List (Op P)) (hh : s.heap = s'.heap) (hn : s.next = s'.next) :
    (run P s ops).1 = (run P s' ops).1 := by
  induction ops generalizing s s' with
  | nil => rfl
  | cons op ops ih =>
    obtain ⟨h1, h2, h3⟩ := step_sim P s s' op hh hn
    simp only [run]
    rw [h1, ih _ _ h2 h3]

end Kalign.Api
