import KalignModel.Lemmas.CmpMsa
/-! # identical ≤ total for every run of `kalign_msa_compare` that does not fault (no hypothesis
on the two alignments) -/
namespace Kalign
open List

theorem identCount_le (a b : List Int) (x y : Nat) (h : identCount a b = some (x, y)) :
    x + y ≤ b.length ∧ b.length ≤ a.length := by
  induction a generalizing b x y with
  | nil =>
    cases b with
    | nil => simp [identCount] at h; omega
    | cons _ _ => simp [identCount] at h
  | cons a0 a ih =>
    cases b with
    | nil => simp [identCount] at h; simp; omega
    | cons b0 b =>
      simp only [identCount] at h
      cases hr : identCount a b with
      | none => rw [hr] at h; cases h
      | some p =>
        obtain ⟨x', y'⟩ := p
        rw [hr] at h
        dsimp only at h
        have := ih b x' y' hr
        simp only [length_cons]
        by_cases h1 : a0 = -1
        · by_cases h2 : a0 = b0
          · rw [if_neg (by rw [h1]; simp), if_pos h2] at h
            simp only [Option.some.injEq, Prod.mk.injEq] at h; omega
          · rw [if_neg (by rw [h1]; simp), if_neg h2] at h
            simp only [Option.some.injEq, Prod.mk.injEq] at h; omega
        · by_cases h2 : a0 = b0
          · rw [if_pos h1, if_pos h2] at h
            simp only [Option.some.injEq, Prod.mk.injEq] at h; omega
          · rw [if_pos h1, if_neg h2] at h
            simp only [Option.some.injEq, Prod.mk.injEq] at h; omega

theorem scanPair_total (n1 n2 : Nat) (s t : Row) :
    (scanPair n1 n2 s t).aligned + (scanPair n1 n2 s t).gap
      = (scanPair n1 n2 s t).c1.length + (scanPair n1 n2 s t).c2.length := by
  obtain ⟨h1, h2, h3, h4⟩ := scanPair_spec n1 n2 s t
  rw [h1, h2, h3, h4, length_map, length_map]
  have a := countP_isSome_add_isNone (partnersFrom n2 s t)
  have b := countP_isSome_add_isNone (partnersFrom n1 t s)
  omega

theorem comparePair_bound (a1 a2 b1 b2 : Row) (c : CmpStats) (h : comparePair a1 a2 b1 b2 = some c) :
    identTot c ≤ refTot c := by
  unfold comparePair at h
  split at h
  · cases h
  · split at h
    · cases h; exact Nat.le_refl _
    · have ht := scanPair_total 0 0 a1 a2
      cases h1 : identCount (scanPair 0 0 a1 a2).c1 (scanPair 0 0 b1 b2).c1 with
      | none => simp [h1] at h
      | some p =>
        cases h2 : identCount (scanPair 0 0 a1 a2).c2 (scanPair 0 0 b1 b2).c2 with
        | none => simp [h1, h2] at h
        | some q =>
          obtain ⟨x1, y1⟩ := p
          obtain ⟨x2, y2⟩ := q
          simp only [h1, h2, Option.some.injEq] at h
          subst h
          have l1 := identCount_le _ _ _ _ h1
          have l2 := identCount_le _ _ _ _ h2
          unfold identTot refTot
          simp only
          omega

theorem cmpInner_bound (r t : Row) (rs ts : List Row) (c : CmpStats) (h : cmpInner r t rs ts = some c) :
    identTot c ≤ refTot c := by
  induction rs generalizing ts c with
  | nil => simp [cmpInner] at h; subst h; exact Nat.le_refl _
  | cons r' rs ih =>
    cases ts with
    | nil => simp [cmpInner] at h
    | cons t' ts =>
      simp only [cmpInner] at h
      cases h1 : comparePair r r' t t' with
      | none => simp [h1] at h
      | some c1 =>
        cases h2 : cmpInner r t rs ts with
        | none => simp [h1, h2] at h
        | some c2 =>
          simp only [h1, h2, Option.some.injEq] at h
          subst h
          rw [identTot_add, refTot_add]
          have := comparePair_bound _ _ _ _ _ h1
          have := ih ts c2 h2
          omega

theorem msaCompareCounts_bound (R T : List Row) (c : CmpStats) (h : msaCompareCounts R T = some c) :
    identTot c ≤ refTot c := by
  induction R generalizing T c with
  | nil => simp [msaCompareCounts] at h; subst h; exact Nat.le_refl _
  | cons r R ih =>
    cases R with
    | nil => simp [msaCompareCounts] at h; subst h; exact Nat.le_refl _
    | cons r' rs =>
      cases T with
      | nil => simp [msaCompareCounts] at h
      | cons t ts =>
        simp only [msaCompareCounts] at h
        cases h1 : cmpInner r t (r' :: rs) ts with
        | none => simp [h1] at h
        | some c1 =>
          cases h2 : msaCompareCounts (r' :: rs) ts with
          | none => simp [h1, h2] at h
          | some c2 =>
            simp only [h1, h2, Option.some.injEq] at h
            subst h
            rw [identTot_add, refTot_add]
            have := cmpInner_bound _ _ _ _ _ h1
            have := ih ts c2 h2
            omega

theorem msaCompare_bound (R T : List NRow) (c : CmpStats) (h : msaCompare R T = .ok c) :
    (scoreQ c).1 ≤ 100 * (scoreQ c).2 := by
  unfold msaCompare at h
  split at h
  · cases h
  · split at h
    · cases h
    · split at h
      · cases h
      · rename_i c' hc
        cases h
        have := msaCompareCounts_bound _ _ _ hc
        unfold identTot refTot at this
        unfold scoreQ
        exact Nat.mul_le_mul_left _ this

/-- a filter keeps the whole list exactly when every element passes -/
theorem length_filter_eq_iff' {α} (p : α → Bool) (l : List α) :
    (l.filter p).length = l.length ↔ ∀ x ∈ l, p x = true := by
  induction l with
  | nil => simp
  | cons a l ih =>
    by_cases h : p a = true
    · simp [h, ih]
    · have hle := List.length_filter_le p l
      simp [h]
      omega

end Kalign
