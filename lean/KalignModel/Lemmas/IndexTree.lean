import KalignModel.Lemmas.IndexKernel
import KalignModel.Lemmas.IndexProf
import KalignModel.Lemmas.NoFaultUpgma
import KalignModel.Lemmas.IndexBpm
/-!
# The checked `upgma`, `distMatrix`, `smallTree`, `anchorMatrix` agree with the totalised ones (slice AD, item 5)
-/
namespace Kalign

/-! ## `Chk` combinators -/

theorem mapChk_eq {β γ : Type} (fC : β → Chk γ) (f : β → Option γ) (l : List β)
    (h : ∀ x ∈ l, (fC x).run = some (f x)) : (mapChk fC l).run = some (l.mapM f) := by
  induction l with
  | nil => rfl
  | cons x xs ih =>
    rw [mapChk, OptionT.run_bind, h x (by simp), List.mapM_cons]
    cases f x with
    | none => rfl
    | some y =>
      simp only [Option.pure_def, Option.bind_eq_bind, Option.bind_some, OptionT.run_bind,
        ih (fun z hz => h z (by simp [hz]))]
      cases List.mapM f xs <;> rfl

theorem iterChk_eq {σ : Type} (I : σ → Prop) (fC : σ → Chk σ) (f : σ → Option σ)
    (h : ∀ s, I s → (fC s).run = some (f s) ∧ ∀ s', f s = some s' → I s') (k : Nat) (s : σ) (hs : I s) :
    (iterChk fC k s).run = some (iterOpt f k s) ∧ ∀ s', iterOpt f k s = some s' → I s' := by
  induction k generalizing s with
  | zero => exact ⟨rfl, fun s' e => by cases e; exact hs⟩
  | succ k ih =>
    obtain ⟨e, hI⟩ := h s hs
    rw [iterChk, iterOpt, OptionT.run_bind, e]
    cases hf : f s with
    | none => exact ⟨rfl, fun s' e => by cases e⟩
    | some s1 => exact ih s1 (hI s1 hf)

theorem mapM_some_length {β γ : Type} (f : β → Option γ) (l : List β) (r : List γ) (h : l.mapM f = some r) :
    r.length = l.length ∧ ∀ y ∈ r, ∃ x ∈ l, f x = some y := by
  induction l generalizing r with
  | nil => simp at h; subst h; simp
  | cons x xs ih =>
    rw [List.mapM_cons] at h
    cases hx : f x with
    | none => rw [hx] at h; cases h
    | some y =>
      rw [hx] at h
      cases hr : List.mapM f xs with
      | none => rw [hr] at h; cases h
      | some ys =>
        rw [hr] at h
        simp only [Option.pure_def, Option.bind_eq_bind, Option.bind_some, Option.some.injEq] at h
        subst h
        obtain ⟨h1, h2⟩ := ih ys hr
        refine ⟨by simp [h1], ?_⟩
        intro z hz
        rcases List.mem_cons.1 hz with e | hz
        · subst e; exact ⟨x, by simp, hx⟩
        · obtain ⟨w, hw, e⟩ := h2 z hz
          exact ⟨w, by simp [hw], e⟩

/-! ## square matrices -/

/-- `n` rows of `n` entries -/
def FSq (n : Nat) (dm : FMat) : Prop := dm.size = n ∧ ∀ i, i < n → (dm.getD i #[]).size = n

theorem FMat.getC_eq (n : Nat) (dm : FMat) (h : FSq n dm) (i j : Nat) (hi : i < n) (hj : j < n) :
    dm.getC i j = some (dm.get i j) := by
  unfold FMat.getC FMat.get
  rw [getElem?_eq_some_getD dm i #[] (by rw [h.1]; exact hi), Option.bind_some]
  exact getElem?_eq_some_getD _ _ _ (by rw [h.2 i hi]; exact hj)

theorem FMat.setC_eq (n : Nat) (dm : FMat) (h : FSq n dm) (i j : Nat) (v : Float32) (hi : i < n) (hj : j < n) :
    dm.setC i j v = some (dm.set i j v) ∧ FSq n (dm.set i j v) := by
  unfold FMat.setC FMat.set
  have hi' : i < dm.size := by rw [h.1]; exact hi
  rw [getElem?_eq_some_getD dm i #[] hi', Option.bind_some, asetC_eq _ _ _ (by rw [h.2 i hi]; exact hj),
    Option.bind_some, asetC_eq _ _ _ hi']
  refine ⟨rfl, by simp [h.1], ?_⟩
  intro k hk
  rw [getD_setIfInBounds _ _ _ _ _ hi']
  split
  · have := h.2 i hi
    simpa [Array.getD, hi'] using this
  · exact h.2 k hk

/-! ## the scan -/

theorem scanMinC_eq (n : Nat) (dm : FMat) (act : Array Bool) (hd : FSq n dm) (ha : act.size = n) :
    scanMinC n dm act = some (scanMin n dm act) := by
  unfold scanMinC scanMin
  apply foldlC_eq
  intro s i hi
  have hi' : i < n - 1 := by simpa using hi
  rw [getElem?_eq_some_getD act i false (by omega), Option.bind_some]
  split
  · apply foldlC_eq
    intro s' j hj
    rw [List.mem_range'_1] at hj
    rw [getElem?_eq_some_getD act j false (by omega), Option.bind_some]
    split
    · rw [FMat.getC_eq n dm hd i j (by omega) (by omega), Option.bind_some]
      split
      · rfl
      · rfl
    · rfl
  · rfl

/-! ## the rounds -/

structure USz (n : Nat) (s : UpgmaSt) : Prop where
  dm : FSq n s.dm
  act : s.act.size = n
  tree : s.tree.size = n
  last : s.last < n

theorem upgmaRoundC_eq (n : Nat) (s : UpgmaSt) (h : USz n s) :
    (upgmaRoundC n s).run = some (upgmaRound n s) ∧ ∀ s', upgmaRound n s = some s' → USz n s' := by
  have hscan := scanMinC_eq n s.dm s.act h.dm h.act
  unfold upgmaRoundC upgmaRound
  simp only [hscan, run_chk_some, pure_bind]
  by_cases hfound : (scanMin n s.dm s.act).found = true
  · obtain ⟨hab, hbn, _, _⟩ := (scan_inv n s.dm s.act).ok hfound
    have han : (scanMin n s.dm s.act).a < n := by omega
    generalize (scanMin n s.dm s.act).a = a at *
    generalize (scanMin n s.dm s.act).b = b at *
    have ta := getElem?_eq_some_getD s.tree a none (by rw [h.tree]; exact han)
    have tb := getElem?_eq_some_getD s.tree b none (by rw [h.tree]; exact hbn)
    simp only [hfound, Bool.not_true, Bool.false_eq_true, if_false, ta, tb, run_chk_some, pure_bind]
    cases hta : s.tree.getD a none with
    | none => exact ⟨rfl, fun s' e => by cases e⟩
    | some x =>
      cases htb : s.tree.getD b none with
      | none => exact ⟨rfl, fun s' e => by cases e⟩
      | some y =>
        dsimp only
        have w1 := asetC_eq s.tree a (some (GTree.node x y)) (by rw [h.tree]; exact han)
        have w2 := asetC_eq (s.tree.set! a (some (GTree.node x y))) b none (by simp [h.tree]; exact hbn)
        have w3 := asetC_eq s.act b false (by rw [h.act]; exact hbn)
        obtain ⟨l1, q1⟩ := foldrC_eq_inv (FSq n)
          (fun j dm => if j ≠ b then
              (dm.getC a j).bind fun x => (dm.getC b j).bind fun y => dm.setC a j ((x + y) * f0_5 + f0_001)
            else some dm)
          (fun j dm => if j ≠ b then dm.set a j ((dm.get a j + dm.get b j) * f0_5 + f0_001) else dm)
          (List.range n) s.dm h.dm (by
            intro dm j hj hdm
            have hj' : j < n := by simpa using hj
            split
            · rw [FMat.getC_eq n dm hdm a j han hj', Option.bind_some, FMat.getC_eq n dm hdm b j hbn hj', Option.bind_some]
              exact FMat.setC_eq n dm hdm a j _ han hj'
            · exact ⟨rfl, hdm⟩)
        obtain ⟨l2, q2⟩ := FMat.setC_eq n _ q1 a a 0 han han
        obtain ⟨l3, q3⟩ := foldrC_eq_inv (FSq n)
          (fun j dm => (dm.getC a j).bind fun v => dm.setC j a v) (fun j dm => dm.set j a (dm.get a j))
          (List.range n) _ q2 (by
            intro dm j hj hdm
            have hj' : j < n := by simpa using hj
            rw [FMat.getC_eq n dm hdm a j han hj', Option.bind_some]
            exact FMat.setC_eq n dm hdm j a _ hj' han)
        refine ⟨?_, ?_⟩
        · simp only [w1, w2, w3, l1, l2, l3, run_chk_some, pure_bind]
          rfl
        · intro s' e
          simp only [Option.some.injEq] at e
          subst e
          exact ⟨q3, by simp [h.act], by simp [h.tree], han⟩
  · simp only [hfound, Bool.not_false, if_true]
    exact ⟨rfl, fun s' e => by cases e⟩

theorem upgmaC_unfold (dm : List (List Float32)) (samples : List Nat) (hn : samples.length ≠ 0) :
    upgmaC dm samples = (do
      let st ← iterChk (upgmaRoundC samples.length) (samples.length - 1) (upgmaInit dm samples)
      let t ← chk st.tree[st.last]?
      mdl t) := by
  unfold upgmaC upgmaInit
  simp only [hn, if_false]

/-- **`upgma` on `n` samples and an `n × n` matrix never leaves `dm`, `act`, `tree`** -/
theorem upgmaC_eq (dm : List (List Float32)) (samples : List Nat) (hlen : dm.length = samples.length)
    (hrow : ∀ row ∈ dm, row.length = samples.length) : (upgmaC dm samples).run = some (upgma dm samples) := by
  by_cases hn : samples.length = 0
  · unfold upgmaC upgma
    simp only [hn, if_true]; rfl
  rw [upgmaC_unfold dm samples hn, upgma_eq dm samples hn]
  have h0 : USz samples.length (upgmaInit dm samples) := by
    refine ⟨⟨by simp [upgmaInit, hlen], ?_⟩, by simp [upgmaInit], by simp [upgmaInit], by simp [upgmaInit]; omega⟩
    intro i hi
    have hi' : i < dm.length := by omega
    have : ((dm.map List.toArray).toArray).getD i #[] = (dm[i]).toArray := by
      simp [Array.getD, hi']
    simp only [upgmaInit]
    rw [this]
    simp [hrow _ (List.getElem_mem hi')]
  obtain ⟨e, hI⟩ := iterChk_eq (USz samples.length) (upgmaRoundC samples.length) (upgmaRound samples.length)
    (fun s hs => upgmaRoundC_eq samples.length s hs) (samples.length - 1) _ h0
  rw [OptionT.run_bind, e]
  cases hit : iterOpt (upgmaRound samples.length) (samples.length - 1) (upgmaInit dm samples) with
  | none => rfl
  | some st =>
    have hs := hI st hit
    have := getElem?_eq_some_getD st.tree st.last none (by rw [hs.tree]; exact hs.last)
    simp only [Option.elimM, Option.pure_def, Option.bind_eq_bind, Option.bind_some, Option.elim_some, this,
      run_chk_some, pure_bind]
    cases st.tree.getD st.last none <;> rfl

/-! ## `distMatrix`, `smallTree`, `anchorMatrix` -/

theorem distMatrixC_eq (seqs : List (List Nat)) : (distMatrixC seqs).run = some (distMatrix seqs) := by
  unfold distMatrixC distMatrix
  apply mapChk_eq
  intro x hx
  have hx' : x < seqs.length := by simpa using hx
  apply mapChk_eq
  intro y hy
  have hy' : y < seqs.length := by simpa using hy
  have h1 : max x y < seqs.length := by omega
  have h2 : min x y < seqs.length := by omega
  have e1 : seqs[max x y]? = some (seqs.getD (max x y) []) := by simp [List.getD, h1]
  have e2 : seqs[min x y]? = some (seqs.getD (min x y) []) := by simp [List.getD, h2]
  rw [e1, e2]
  simp only [run_chk_some, pure_bind]
  exact distEntryC_eq _ _

/-- the matrix `distMatrix` returns is square -/
theorem distMatrix_shape (seqs : List (List Nat)) (dm : List (List Float32)) (h : distMatrix seqs = some dm) :
    dm.length = seqs.length ∧ ∀ row ∈ dm, row.length = seqs.length := by
  unfold distMatrix at h
  obtain ⟨h1, h2⟩ := mapM_some_length _ _ _ h
  refine ⟨by simpa using h1, ?_⟩
  intro row hr
  obtain ⟨x, _, hx⟩ := h2 row hr
  simpa using (mapM_some_length _ _ _ hx).1

open Kalign.Pipeline Kalign.Kmeans in
/-- **`smallTree` never reads outside `codes`** for samples that are sequence indices, and its `upgma` never leaves its
arrays -/
theorem smallTreeC_eq (codes : Array (List Nat)) (samples : List Nat) (hs : ∀ s ∈ samples, s < codes.size) :
    (smallTreeC codes samples).run = some (smallTree codes samples) := by
  unfold smallTreeC smallTree
  rw [mapC_eq (fun s => codes[s]?) (fun s => codes.getD s []) samples
    (fun s hs' => getElem?_eq_some_getD codes s [] (hs s hs'))]
  simp only [run_chk_some, pure_bind, OptionT.run_bind, distMatrixC_eq]
  cases hd : distMatrix (samples.map fun s => codes.getD s []) with
  | none => rfl
  | some dm =>
    obtain ⟨d1, d2⟩ := distMatrix_shape _ dm hd
    simp only [List.length_map] at d1 d2
    simp only [Option.elimM, Option.pure_def, Option.bind_eq_bind, Option.bind_some, Option.elim_some,
      upgmaC_eq dm samples d1 d2]
    cases upgma dm samples <;> rfl

open Kalign.Pipeline Kalign.Kmeans in
/-- **`anchorMatrix` never reads outside `codes`** for anchors that are sequence indices -/
theorem anchorMatrixC_eq (codes : Array (List Nat)) (anchors : List Nat) (ha : ∀ a ∈ anchors, a < codes.size) :
    (anchorMatrixC codes anchors).run = some (anchorMatrix codes anchors) := by
  unfold anchorMatrixC anchorMatrix
  have key := mapChk_eq
    (fun s => (do
      let r ← mapChk (fun a => (do let sa ← chk codes[a]?; distEntryC s sa : Chk Float32)) anchors
      pure (r ++ List.replicate (numVarOf anchors.length - r.length) (0 : Float32)).toArray : Chk (Array Float32)))
    (fun s => (anchors.mapM fun a => distEntry s (codes.getD a [])).map fun r =>
      (r ++ List.replicate (numVarOf anchors.length - r.length) (0 : Float32)).toArray) codes.toList
    (by
      intro s _
      have inner := mapChk_eq (fun a => (do let sa ← chk codes[a]?; distEntryC s sa : Chk Float32))
        (fun a => distEntry s (codes.getD a [])) anchors
        (by
          intro a ham
          rw [getElem?_eq_some_getD codes a [] (ha a ham)]
          simp only [run_chk_some, pure_bind]
          exact distEntryC_eq _ _)
      rw [OptionT.run_bind, inner]
      cases List.mapM (fun a => distEntry s (codes.getD a [])) anchors <;> rfl)
  rw [OptionT.run_bind, key]
  dsimp only
  generalize List.mapM (fun s => Option.map
    (fun r => (r ++ List.replicate (numVarOf anchors.length - r.length) (0 : Float32)).toArray)
    (List.mapM (fun a => distEntry s (codes.getD a [])) anchors)) codes.toList = res
  cases res <;> rfl

end Kalign
