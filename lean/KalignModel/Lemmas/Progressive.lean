import KalignModel.Model.Progressive
import KalignModel.Lemmas.Weave
/-! helper lemmas for C01 / C10 -/
namespace Kalign
variable {α : Type}

/-! ## gap vectors, `consA`/`consB`, side swap -/

theorem length_updateGaps (g ng : List Nat) : (updateGaps g ng).length = g.length := by
  induction g generalizing ng with
  | nil => rfl
  | cons x xs ih => simp [updateGaps, ih]

@[simp] theorem consA_nil : consA [] = 0 := rfl
@[simp] theorem consB_nil : consB [] = 0 := rfl
@[simp] theorem consA_both (cs : List Col) : consA (.both :: cs) = consA cs + 1 := by simp [consA]
@[simp] theorem consA_gapB (cs : List Col) : consA (.gapB :: cs) = consA cs + 1 := by simp [consA]
@[simp] theorem consA_gapA (cs : List Col) : consA (.gapA :: cs) = consA cs := by simp [consA]
@[simp] theorem consA_skip (cs : List Col) : consA (.skip :: cs) = consA cs := by simp [consA]
@[simp] theorem consB_both (cs : List Col) : consB (.both :: cs) = consB cs + 1 := by simp [consB]
@[simp] theorem consB_gapA (cs : List Col) : consB (.gapA :: cs) = consB cs + 1 := by simp [consB]
@[simp] theorem consB_gapB (cs : List Col) : consB (.gapB :: cs) = consB cs := by simp [consB]
@[simp] theorem consB_skip (cs : List Col) : consB (.skip :: cs) = consB cs := by simp [consB]

theorem consA_append (a b : List Col) : consA (a ++ b) = consA a + consA b := by
  simp [consA, List.filter_append]
theorem consB_append (a b : List Col) : consB (a ++ b) = consB a + consB b := by
  simp [consB, List.filter_append]

/-- exchange the two sides -/
def Col.swap : Col → Col
  | .both => .both | .gapA => .gapB | .gapB => .gapA | .skip => .skip

theorem consB_eq_swap (cs : List Col) : consB cs = consA (cs.map Col.swap) := by
  induction cs with
  | nil => rfl
  | cons c cs ih => cases c <;> simp [Col.swap, ih]

theorem gapVecB_eq_swap (cs : List Col) : gapVecB cs = gapVecA (cs.map Col.swap) := by
  induction cs with
  | nil => rfl
  | cons c cs ih => cases c <;> simp [Col.swap, gapVecA, gapVecB, ih]

theorem weaveB_eq_swap (cs : List Col) (r : List (Option α)) :
    weaveB cs r = weaveA (cs.map Col.swap) r := by
  induction cs generalizing r with
  | nil => rfl
  | cons c cs ih => cases c <;> cases r <;> simp [Col.swap, weaveA, weaveB, ih]

theorem skip_not_mem_swap (cs : List Col) (h : Col.skip ∉ cs) : Col.skip ∉ cs.map Col.swap := by
  induction cs with
  | nil => simp
  | cons c cs ih => cases c <;> simp_all [Col.swap]

theorem length_bump (l : List Nat) (h : l ≠ []) : (bump l).length = l.length := by
  cases l with
  | nil => exact absurd rfl h
  | cons a l => rfl

theorem length_gapVecA (cs : List Col) : (gapVecA cs).length = consA cs + 1 := by
  induction cs with
  | nil => rfl
  | cons c cs ih =>
    cases c
    · simp [gapVecA, ih]
    · have hne : gapVecA cs ≠ [] := by intro h; rw [h] at ih; simp at ih
      simp [gapVecA, length_bump _ hne, ih]
    · simp [gapVecA, ih]
    · simp [gapVecA, ih]

theorem length_gapVecB (cs : List Col) : (gapVecB cs).length = consB cs + 1 := by
  rw [gapVecB_eq_swap, consB_eq_swap, length_gapVecA]

theorem insertCols_bump (r : List (Option α)) (g : List Nat) (h : g ≠ []) :
    insertCols r (bump g) = none :: insertCols r g := by
  cases g with
  | nil => exact absurd rfl h
  | cons n ns => cases r <;> simp [bump, insertCols, List.replicate_succ]

theorem weaveA_eq_insertCols (cs : List Col) (r : List (Option α)) (h : r.length = consA cs) :
    weaveA cs r = insertCols r (gapVecA cs) := by
  induction cs generalizing r with
  | nil =>
    have : r = [] := by simpa using h
    subst this; simp [weaveA, gapVecA, insertCols]
  | cons c cs ih =>
    cases c
    · match r, h with
      | x :: r', h =>
        simp only [weaveA, gapVecA, insertCols, List.replicate_zero, List.nil_append]
        rw [ih r' (by simpa using h)]
    · have hne : gapVecA cs ≠ [] := by
        intro h'; have := length_gapVecA cs; rw [h'] at this; simp at this
      simp only [weaveA, gapVecA]
      rw [insertCols_bump _ _ hne, ih r (by simpa using h)]
    · match r, h with
      | x :: r', h =>
        simp only [weaveA, gapVecA, insertCols, List.replicate_zero, List.nil_append]
        rw [ih r' (by simpa using h)]
    · simp only [weaveA, gapVecA]
      exact ih r (by simpa using h)

/-- the gap-vector update performed by one merge, seen on the finished row -/
theorem row_updateGaps_A (cs : List Col) (s : GSeq α) (hwf : s.WF) (hl : s.row.length = consA cs) :
    makeLinear s.res (updateGaps s.gaps (gapVecA cs)) = weaveA cs s.row := by
  rw [weaveA_eq_insertCols cs s.row hl]
  exact (weave s.res s.gaps (gapVecA cs) hwf (by rw [length_gapVecA]; exact congrArg (· + 1) hl.symm)).symm

theorem row_updateGaps_B (cs : List Col) (s : GSeq α) (hwf : s.WF) (hl : s.row.length = consB cs) :
    makeLinear s.res (updateGaps s.gaps (gapVecB cs)) = weaveB cs s.row := by
  rw [gapVecB_eq_swap, weaveB_eq_swap]
  exact row_updateGaps_A _ s hwf (by rw [← consB_eq_swap]; exact hl)

/-! ## index view of `weaveA` -/

theorem length_weaveA (cs : List Col) (r : List (Option α)) (hs : Col.skip ∉ cs)
    (h : r.length = consA cs) : (weaveA cs r).length = cs.length := by
  induction cs generalizing r with
  | nil => simpa [weaveA] using h
  | cons c cs ih =>
    have hs' : Col.skip ∉ cs := fun hm => hs (List.mem_cons_of_mem _ hm)
    cases c
    · match r, h with
      | x :: r', h => simp [weaveA, ih r' hs' (by simpa using h)]
    · simp [weaveA, ih r hs' (by simpa using h)]
    · match r, h with
      | x :: r', h => simp [weaveA, ih r' hs' (by simpa using h)]
    · exact absurd (List.mem_cons_self) hs

theorem length_weaveB (cs : List Col) (r : List (Option α)) (hs : Col.skip ∉ cs)
    (h : r.length = consB cs) : (weaveB cs r).length = cs.length := by
  rw [weaveB_eq_swap, length_weaveA _ _ (skip_not_mem_swap cs hs) (by rw [← consB_eq_swap]; exact h)]
  simp

@[simp] theorem cell_nil (k : Nat) : cell ([] : List (Option α)) k = none := by simp [cell]
@[simp] theorem cell_cons_zero (x : Option α) (r : List (Option α)) : cell (x :: r) 0 = x := by
  cases x <;> simp [cell]
@[simp] theorem cell_cons_succ (x : Option α) (r : List (Option α)) (k : Nat) :
    cell (x :: r) (k + 1) = cell r k := by simp [cell]

theorem cell_weaveA_nil (cs : List Col) (k : Nat) : cell (weaveA cs ([] : List (Option α))) k = none := by
  induction cs generalizing k with
  | nil => simp [weaveA]
  | cons c cs ih =>
    cases c <;> simp only [weaveA] <;> first | exact ih k | (cases k <;> simp [ih])

/-- column `k` of the woven row: a gap for a gap-in-a column, else the old column number
`consA (cs.take k)` -/
theorem cell_weaveA (cs : List Col) (r : List (Option α)) (hs : Col.skip ∉ cs) (k : Nat)
    (hk : k < cs.length) :
    cell (weaveA cs r) k = if cs[k]? = some Col.gapA then none else cell r (consA (cs.take k)) := by
  induction cs generalizing r k with
  | nil => simp at hk
  | cons c cs ih =>
    have hs' : Col.skip ∉ cs := fun hm => hs (List.mem_cons_of_mem _ hm)
    cases c
    · cases r with
      | nil => simp [weaveA, cell_weaveA_nil]
      | cons x r' =>
        cases k with
        | zero => simp [weaveA]
        | succ k => simp [weaveA, ih r' hs' k (by simpa using hk)]
    · cases k with
      | zero => simp [weaveA]
      | succ k => simp [weaveA, ih r hs' k (by simpa using hk)]
    · cases r with
      | nil => simp [weaveA, cell_weaveA_nil]
      | cons x r' =>
        cases k with
        | zero => simp [weaveA]
        | succ k => simp [weaveA, ih r' hs' k (by simpa using hk)]
    · exact absurd (List.mem_cons_self) hs

/-! ## dropping all-gap columns after a weave -/

theorem filter_range_succ (n : Nat) (p : Nat → Bool) :
    (List.range (n + 1)).filter p
      = (if p 0 then [0] else []) ++ ((List.range n).filter (fun k => p (k + 1))).map (· + 1) := by
  rw [List.range_succ_eq_map, List.filter_cons, List.filter_map]
  cases p 0 <;> simp [Function.comp_def]

theorem keep_map (cs : List Col) (hs : Col.skip ∉ cs) (P : Nat → Bool) :
    ((List.range cs.length).filter
        (fun k => decide (cs[k]? ≠ some Col.gapA) && P (consA (cs.take k)))).map
        (fun k => consA (cs.take k))
      = (List.range (consA cs)).filter P := by
  induction cs generalizing P with
  | nil => simp
  | cons c cs ih =>
    have hs' : Col.skip ∉ cs := fun hm => hs (List.mem_cons_of_mem _ hm)
    rw [List.length_cons, filter_range_succ]
    cases c
    · have := ih hs' (fun j => P (j + 1))
      rw [consA_both, filter_range_succ, ← this]
      cases h0 : P 0 <;> simp [Function.comp_def, h0]
    · have := ih hs' P
      simp [← this, Function.comp_def]
    · have := ih hs' (fun j => P (j + 1))
      rw [consA_gapB, filter_range_succ, ← this]
      cases h0 : P 0 <;> simp [Function.comp_def, h0]
    · exact absurd (List.mem_cons_self) hs

theorem colAllGap_weaveA (cs : List Col) (hs : Col.skip ∉ cs) (R : List (List (Option α)))
    (k : Nat) (hk : k < cs.length) :
    colAllGap (R.map (weaveA cs)) k
      = (decide (cs[k]? = some Col.gapA) || colAllGap R (consA (cs.take k))) := by
  induction R with
  | nil => simp [colAllGap]
  | cons r R ih =>
    simp only [colAllGap, List.map_cons, List.all_cons] at ih ⊢
    rw [ih, cell_weaveA cs r hs k hk]
    by_cases h : cs[k]? = some Col.gapA <;> simp [h]

theorem dropAllGapCols_weaveA (cs : List Col) (hs : Col.skip ∉ cs) (R : List (List (Option α))) :
    dropAllGapCols (R.map (weaveA cs)) cs.length = dropAllGapCols R (consA cs) := by
  unfold dropAllGapCols
  simp only [List.map_map]
  apply List.map_congr_left
  intro r _
  simp only [Function.comp_apply]
  have hf : (List.range cs.length).filter (fun k => !colAllGap (R.map (weaveA cs)) k)
      = (List.range cs.length).filter
          (fun k => decide (cs[k]? ≠ some Col.gapA) && !colAllGap R (consA (cs.take k))) := by
    apply List.filter_congr
    intro k hk
    rw [colAllGap_weaveA cs hs R k (by simpa using hk)]
    simp
  rw [hf, ← keep_map cs hs (fun j => !colAllGap R j), List.map_map]
  apply List.map_congr_left
  intro k hk
  have hk' := List.mem_filter.1 hk
  rw [Function.comp_apply, cell_weaveA cs r hs k (by simpa using hk'.1)]
  have : cs[k]? ≠ some Col.gapA := by have := hk'.2; simp at this; exact this.1
  simp [this]

/-! ## B-side versions -/

theorem getElem?_map_swap_gapA (cs : List Col) (k : Nat) :
    ((cs.map Col.swap)[k]? = some Col.gapA) ↔ (cs[k]? = some Col.gapB) := by
  rw [List.getElem?_map]
  cases h : cs[k]? with
  | none => simp
  | some c => cases c <;> simp [Col.swap]

theorem cell_weaveB (cs : List Col) (r : List (Option α)) (hs : Col.skip ∉ cs) (k : Nat)
    (hk : k < cs.length) :
    cell (weaveB cs r) k = if cs[k]? = some Col.gapB then none else cell r (consB (cs.take k)) := by
  rw [weaveB_eq_swap, cell_weaveA _ r (skip_not_mem_swap cs hs) k (by simpa using hk),
    consB_eq_swap, List.map_take]
  simp only [getElem?_map_swap_gapA]

theorem colAllGap_weaveB (cs : List Col) (hs : Col.skip ∉ cs) (R : List (List (Option α)))
    (k : Nat) (hk : k < cs.length) :
    colAllGap (R.map (weaveB cs)) k
      = (decide (cs[k]? = some Col.gapB) || colAllGap R (consB (cs.take k))) := by
  have hf : (weaveB cs : List (Option α) → _) = weaveA (cs.map Col.swap) :=
    funext fun r => weaveB_eq_swap cs r
  rw [hf, colAllGap_weaveA _ (skip_not_mem_swap cs hs) R k (by simpa using hk),
    consB_eq_swap, List.map_take]
  simp only [getElem?_map_swap_gapA]

theorem dropAllGapCols_weaveB (cs : List Col) (hs : Col.skip ∉ cs) (R : List (List (Option α))) :
    dropAllGapCols (R.map (weaveB cs)) cs.length = dropAllGapCols R (consB cs) := by
  have hf : (weaveB cs : List (Option α) → _) = weaveA (cs.map Col.swap) :=
    funext fun r => weaveB_eq_swap cs r
  rw [hf, consB_eq_swap, ← dropAllGapCols_weaveA _ (skip_not_mem_swap cs hs) R, List.length_map]

theorem consA_take_lt (cs : List Col) (k : Nat) (c : Col) (hc : cs[k]? = some c)
    (h : c = .both ∨ c = .gapB) : consA (cs.take k) < consA cs := by
  have hk : k < cs.length := by
    rcases Nat.lt_or_ge k cs.length with h' | h'
    · exact h'
    · rw [List.getElem?_eq_none h'] at hc; cases hc
  have hd : cs = cs.take k ++ c :: cs.drop (k + 1) := by
    have := List.getElem?_eq_getElem hk
    rw [this] at hc; cases hc
    simp
  have : consA cs = consA (cs.take k) + consA (c :: cs.drop (k + 1)) := by
    rw [← consA_append, ← hd]
  rcases h with rfl | rfl <;> simp at this <;> omega

theorem consB_take_lt (cs : List Col) (k : Nat) (c : Col) (hc : cs[k]? = some c)
    (h : c = .both ∨ c = .gapA) : consB (cs.take k) < consB cs := by
  rw [consB_eq_swap, consB_eq_swap, List.map_take]
  apply consA_take_lt _ k c.swap
  · rw [List.getElem?_map, hc]; rfl
  · rcases h with rfl | rfl <;> simp [Col.swap]

/-! ## one merge on groups -/

def updA (cs : List Col) (m : Member α) : Member α :=
  { m with seq := { m.seq with gaps := updateGaps m.seq.gaps (gapVecA cs) } }
def updB (cs : List Col) (m : Member α) : Member α :=
  { m with seq := { m.seq with gaps := updateGaps m.seq.gaps (gapVecB cs) } }

theorem mergeGroups_eq (codes : List Nat) (A B : Group α) :
    mergeGroups codes A B
      = A.reverse.map (updA (codes.map Col.ofCode)) ++ B.reverse.map (updB (codes.map Col.ofCode)) :=
  rfl

@[simp] theorem updA_idx (cs : List Col) (m : Member α) : (updA cs m).idx = m.idx := rfl
@[simp] theorem updB_idx (cs : List Col) (m : Member α) : (updB cs m).idx = m.idx := rfl
@[simp] theorem updA_res (cs : List Col) (m : Member α) : (updA cs m).seq.res = m.seq.res := rfl
@[simp] theorem updB_res (cs : List Col) (m : Member α) : (updB cs m).seq.res = m.seq.res := rfl

theorem updA_wf (cs : List Col) (m : Member α) (h : m.seq.WF) : (updA cs m).seq.WF := by
  simp only [GSeq.WF, updA, length_updateGaps]; exact h
theorem updB_wf (cs : List Col) (m : Member α) (h : m.seq.WF) : (updB cs m).seq.WF := by
  simp only [GSeq.WF, updB, length_updateGaps]; exact h

theorem updA_row (cs : List Col) (m : Member α) (h : m.seq.WF) (hl : m.seq.row.length = consA cs) :
    (updA cs m).seq.row = weaveA cs m.seq.row := row_updateGaps_A cs m.seq h hl
theorem updB_row (cs : List Col) (m : Member α) (h : m.seq.WF) (hl : m.seq.row.length = consB cs) :
    (updB cs m).seq.row = weaveB cs m.seq.row := row_updateGaps_B cs m.seq h hl

theorem mem_mergeGroups (codes : List Nat) (A B : Group α) (m' : Member α) :
    m' ∈ mergeGroups codes A B ↔
      (∃ m ∈ A, m' = updA (codes.map Col.ofCode) m) ∨ (∃ m ∈ B, m' = updB (codes.map Col.ofCode) m) := by
  simp only [mergeGroups_eq, List.mem_append, List.mem_map, List.mem_reverse, eq_comm]

theorem mergeGroups_idx (codes : List Nat) (A B : Group α) :
    (mergeGroups codes A B).map (·.idx) = (A.map (·.idx)).reverse ++ (B.map (·.idx)).reverse := by
  simp [mergeGroups_eq, Function.comp_def]

theorem mergeGroups_rows (codes : List Nat) (A B : Group α)
    (wfA : ∀ m ∈ A, m.seq.WF) (wfB : ∀ m ∈ B, m.seq.WF)
    (lenA : ∀ m ∈ A, m.seq.row.length = consA (codes.map Col.ofCode))
    (lenB : ∀ m ∈ B, m.seq.row.length = consB (codes.map Col.ofCode)) :
    (mergeGroups codes A B).map (·.seq.row)
      = (A.reverse.map (·.seq.row)).map (weaveA (codes.map Col.ofCode)) ++
        (B.reverse.map (·.seq.row)).map (weaveB (codes.map Col.ofCode)) := by
  rw [mergeGroups_eq, List.map_append, List.map_map, List.map_map, List.map_map, List.map_map]
  congr 1
  · apply List.map_congr_left
    intro m hm
    have hm' := List.mem_reverse.1 hm
    exact updA_row _ m (wfA m hm') (lenA m hm')
  · apply List.map_congr_left
    intro m hm
    have hm' := List.mem_reverse.1 hm
    exact updB_row _ m (wfB m hm') (lenB m hm')

theorem plen_of_forall (g : Group α) (n : Nat) (hne : g ≠ []) (h : ∀ m ∈ g, m.seq.row.length = n) :
    g.plen = n := by
  cases g with
  | nil => exact absurd rfl hne
  | cons m g => exact h m List.mem_cons_self

theorem colAllGap_append (X Y : List (List (Option α))) (k : Nat) :
    colAllGap (X ++ Y) k = (colAllGap X k && colAllGap Y k) := by
  simp [colAllGap]

theorem colAllGap_reverse (X : List (List (Option α))) (k : Nat) :
    colAllGap X.reverse k = colAllGap X k := by
  simp [colAllGap]

/-- everything `GroupOK` says about a merged group, from the same facts about the two halves -/
theorem merge_ok (seqs : Nat → List α) (codes : List Nat) (A B : Group α)
    (wfA : ∀ m ∈ A, m.seq.WF) (resA : ∀ m ∈ A, m.seq.res = seqs m.idx)
    (lenA : ∀ m ∈ A, m.seq.row.length = A.plen)
    (ngA : NoAllGapCol (A.map (·.seq.row)) A.plen)
    (wfB : ∀ m ∈ B, m.seq.WF) (resB : ∀ m ∈ B, m.seq.res = seqs m.idx)
    (lenB : ∀ m ∈ B, m.seq.row.length = B.plen)
    (ngB : NoAllGapCol (B.map (·.seq.row)) B.plen)
    (hAne : A ≠ [])
    (hv : ValidCols (codes.map Col.ofCode) A.plen B.plen) :
    (∀ m ∈ mergeGroups codes A B, m.seq.WF) ∧
    (∀ m ∈ mergeGroups codes A B, m.seq.res = seqs m.idx) ∧
    (∀ m ∈ mergeGroups codes A B, m.seq.row.length = codes.length) ∧
    NoAllGapCol ((mergeGroups codes A B).map (·.seq.row)) codes.length ∧
    (mergeGroups codes A B).plen = codes.length := by
  obtain ⟨hs, hca, hcb⟩ := hv
  have hlen : ∀ m ∈ mergeGroups codes A B, m.seq.row.length = codes.length := by
    intro m' hm'
    rcases (mem_mergeGroups codes A B m').1 hm' with ⟨m, hm, rfl⟩ | ⟨m, hm, rfl⟩
    · rw [updA_row _ m (wfA m hm) (by rw [lenA m hm, hca]),
        length_weaveA _ _ hs (by rw [lenA m hm, hca]), List.length_map]
    · rw [updB_row _ m (wfB m hm) (by rw [lenB m hm, hcb]),
        length_weaveB _ _ hs (by rw [lenB m hm, hcb]), List.length_map]
  refine ⟨?_, ?_, hlen, ?_, ?_⟩
  · intro m' hm'
    rcases (mem_mergeGroups codes A B m').1 hm' with ⟨m, hm, rfl⟩ | ⟨m, hm, rfl⟩
    · exact updA_wf _ m (wfA m hm)
    · exact updB_wf _ m (wfB m hm)
  · intro m' hm'
    rcases (mem_mergeGroups codes A B m').1 hm' with ⟨m, hm, rfl⟩ | ⟨m, hm, rfl⟩
    · exact resA m hm
    · exact resB m hm
  · intro k hk
    rw [mergeGroups_rows codes A B wfA wfB (fun m hm => by rw [lenA m hm, hca])
      (fun m hm => by rw [lenB m hm, hcb]), colAllGap_append]
    have hk' : k < (codes.map Col.ofCode).length := by simpa using hk
    rw [colAllGap_weaveA _ hs _ k hk', colAllGap_weaveB _ hs _ k hk', List.map_reverse,
      List.map_reverse, colAllGap_reverse, colAllGap_reverse]
    have hget := List.getElem?_eq_getElem hk'
    generalize (codes.map Col.ofCode)[k] = c at hget
    have hcm : c ∈ codes.map Col.ofCode := List.mem_of_getElem? hget
    cases c
    · have := ngA _ (hca ▸ consA_take_lt _ k _ hget (Or.inl rfl))
      simp [hget, this]
    · have := ngB _ (hcb ▸ consB_take_lt _ k _ hget (Or.inr rfl))
      simp [hget, this]
    · have := ngA _ (hca ▸ consA_take_lt _ k _ hget (Or.inr rfl))
      simp [hget, this]
    · exact absurd hcm hs
  · apply plen_of_forall _ _ _ hlen
    cases A with
    | nil => exact absurd rfl hAne
    | cons a A => simp [mergeGroups_eq]

/-! ## the whole tree -/

theorem makeLinear_replicate_zero (s : List α) :
    makeLinear s (List.replicate (s.length + 1) 0) = s.map some := by
  induction s with
  | nil => simp [makeLinear]
  | cons x xs ih =>
    rw [List.length_cons, List.replicate_succ]
    simp only [makeLinear, List.replicate_zero, List.nil_append, List.map_cons, ih]

theorem cell_map_some (s : List α) (k : Nat) (hk : k < s.length) :
    cell (s.map some) k = some s[k] := by
  simp [cell, hk]

theorem mergeGroups_ne_nil (codes : List Nat) (A B : Group α) (hA : A ≠ []) :
    mergeGroups codes A B ≠ [] := by
  cases A with
  | nil => exact absurd rfl hA
  | cons a A => simp [mergeGroups_eq]

theorem alignTree_ok (seqs : Nat → List α) (al : Aligner α) (hal : al.Valid) (T : Tree) :
    alignTree seqs al T ≠ [] ∧
    (∀ m ∈ alignTree seqs al T, m.seq.WF) ∧
    (∀ m ∈ alignTree seqs al T, m.seq.res = seqs m.idx) ∧
    (∀ m ∈ alignTree seqs al T, m.seq.row.length = (alignTree seqs al T).plen) ∧
    NoAllGapCol ((alignTree seqs al T).map (·.seq.row)) (alignTree seqs al T).plen ∧
    ((alignTree seqs al T).map (·.idx)).Perm T.leaves := by
  induction T with
  | leaf i =>
    refine ⟨by simp [alignTree], ?_, ?_, ?_, ?_, ?_⟩
    · intro m hm
      simp only [alignTree, List.mem_singleton] at hm
      subst hm; simp [GSeq.WF]
    · intro m hm
      simp only [alignTree, List.mem_singleton] at hm
      subst hm; rfl
    · intro m hm
      simp only [alignTree, List.mem_singleton] at hm
      subst hm; rfl
    · intro k hk
      simp only [alignTree, Group.plen, GSeq.row, makeLinear_replicate_zero, List.length_map] at hk
      simp [alignTree, colAllGap, GSeq.row, makeLinear_replicate_zero, cell_map_some _ k hk]
    · simp [alignTree, Tree.leaves]
  | node l r ihl ihr =>
    obtain ⟨neA, wfA, resA, lenA, ngA, pA⟩ := ihl
    obtain ⟨neB, wfB, resB, lenB, ngB, pB⟩ := ihr
    have hv := hal (alignTree seqs al l) (alignTree seqs al r)
    obtain ⟨h1, h2, h3, h4, h5⟩ :=
      merge_ok seqs _ _ _ wfA resA lenA ngA wfB resB lenB ngB neA hv
    simp only [alignTree]
    refine ⟨?_, h1, h2, ?_, ?_, ?_⟩
    · exact mergeGroups_ne_nil _ _ _ neA
    · intro m hm; rw [h5]; exact h3 m hm
    · rw [h5]; exact h4
    · rw [mergeGroups_idx, Tree.leaves]
      exact (List.reverse_perm _).trans pA |>.append ((List.reverse_perm _).trans pB)

/-! ## looking rows up by index -/

theorem find?_idx_of_nodup (g : Group α) (hnd : (g.map (·.idx)).Nodup) (m : Member α) (hm : m ∈ g) :
    g.find? (·.idx = m.idx) = some m := by
  induction g with
  | nil => cases hm
  | cons a g ih =>
    rw [List.map_cons, List.nodup_cons] at hnd
    rcases List.mem_cons.1 hm with rfl | hm'
    · simp
    · have hne : a.idx ≠ m.idx := by
        intro h; apply hnd.1; rw [h]; exact List.mem_map_of_mem hm'
      rw [List.find?_cons_of_neg (by simpa using hne)]
      exact ih hnd.2 hm'

theorem finalRow_of_mem (g : Group α) (hnd : (g.map (·.idx)).Nodup) (m : Member α) (hm : m ∈ g) :
    finalRow g m.idx = some m.seq.row := by
  simp [finalRow, find?_idx_of_nodup g hnd m hm]

theorem alignTree_idx_nodup (seqs : Nat → List α) (al : Aligner α) (hal : al.Valid) (T : Tree)
    (hnd : T.leaves.Nodup) : ((alignTree seqs al T).map (·.idx)).Nodup :=
  (alignTree_ok seqs al hal T).2.2.2.2.2.nodup_iff.2 hnd

theorem exists_mem_of_leaf (seqs : Nat → List α) (al : Aligner α) (hal : al.Valid) (T : Tree)
    (i : Nat) (hi : i ∈ T.leaves) : ∃ m ∈ alignTree seqs al T, m.idx = i := by
  have := (alignTree_ok seqs al hal T).2.2.2.2.2.mem_iff.2 hi
  simpa using this

theorem rows_ok (seqs : Nat → List α) (al : Aligner α) (hal : al.Valid) (T : Tree)
    (hnd : T.leaves.Nodup) (i : Nat) (hi : i ∈ T.leaves) :
    ∃ row, finalRow (alignTree seqs al T) i = some row ∧
      degap row = seqs i ∧ row.length = (alignTree seqs al T).plen := by
  obtain ⟨m, hm, rfl⟩ := exists_mem_of_leaf seqs al hal T i hi
  obtain ⟨_, wf, res, len, _, _⟩ := alignTree_ok seqs al hal T
  refine ⟨m.seq.row, finalRow_of_mem _ (alignTree_idx_nodup seqs al hal T hnd) m hm, ?_, len m hm⟩
  rw [GSeq.row, degap_makeLinear _ _ (wf m hm), res m hm]

/-! ## C10: finished sub-alignments are only woven, never re-aligned -/

theorem range_map_cell (r : List (Option α)) : (List.range r.length).map (cell r) = r := by
  apply List.ext_getElem
  · simp
  · intro k h1 h2
    simp [cell, h2]

theorem dropAllGapCols_id (R : List (List (Option α))) (L : Nat) (hl : ∀ r ∈ R, r.length = L)
    (hn : NoAllGapCol R L) : dropAllGapCols R L = R := by
  unfold dropAllGapCols
  have hf : (List.range L).filter (fun k => !colAllGap R k) = List.range L := by
    apply List.filter_eq_self.2
    intro k hk
    simp [hn k (by simpa using hk)]
  rw [hf]
  conv => rhs; rw [← List.map_id R]
  apply List.map_congr_left
  intro r hr
  rw [← hl r hr, range_map_cell]; rfl

theorem leaves_sub {v T : Tree} (h : Tree.Sub v T) : ∀ i ∈ v.leaves, i ∈ T.leaves := by
  induction h with
  | refl => exact fun _ h => h
  | left _ ih => intro i hi; exact List.mem_append_left _ (ih i hi)
  | right _ ih => intro i hi; exact List.mem_append_right _ (ih i hi)

theorem finalRow_node_left (seqs : Nat → List α) (al : Aligner α) (hal : al.Valid) (l r : Tree)
    (hnd : (Tree.node l r).leaves.Nodup) (i : Nat) (hi : i ∈ l.leaves) :
    (finalRow (alignTree seqs al (.node l r)) i).getD []
      = weaveA ((al (alignTree seqs al l) (alignTree seqs al r)).map Col.ofCode)
          ((finalRow (alignTree seqs al l) i).getD []) := by
  obtain ⟨m, hm, rfl⟩ := exists_mem_of_leaf seqs al hal l i hi
  have hndl : l.leaves.Nodup := (List.nodup_append.1 hnd).1
  obtain ⟨_, wf, _, len, _, _⟩ := alignTree_ok seqs al hal l
  have hv := hal (alignTree seqs al l) (alignTree seqs al r)
  rw [finalRow_of_mem _ (alignTree_idx_nodup seqs al hal l hndl) m hm]
  have hm' : updA ((al (alignTree seqs al l) (alignTree seqs al r)).map Col.ofCode) m
      ∈ alignTree seqs al (.node l r) :=
    (mem_mergeGroups _ _ _ _).2 (Or.inl ⟨m, hm, rfl⟩)
  have := finalRow_of_mem _ (alignTree_idx_nodup seqs al hal _ hnd) _ hm'
  rw [updA_idx] at this
  rw [this, Option.getD_some, Option.getD_some, updA_row _ m (wf m hm) (by rw [len m hm, hv.2.1])]

theorem finalRow_node_right (seqs : Nat → List α) (al : Aligner α) (hal : al.Valid) (l r : Tree)
    (hnd : (Tree.node l r).leaves.Nodup) (i : Nat) (hi : i ∈ r.leaves) :
    (finalRow (alignTree seqs al (.node l r)) i).getD []
      = weaveB ((al (alignTree seqs al l) (alignTree seqs al r)).map Col.ofCode)
          ((finalRow (alignTree seqs al r) i).getD []) := by
  obtain ⟨m, hm, rfl⟩ := exists_mem_of_leaf seqs al hal r i hi
  have hndr : r.leaves.Nodup := (List.nodup_append.1 hnd).2.1
  obtain ⟨_, wf, _, len, _, _⟩ := alignTree_ok seqs al hal r
  have hv := hal (alignTree seqs al l) (alignTree seqs al r)
  rw [finalRow_of_mem _ (alignTree_idx_nodup seqs al hal r hndr) m hm]
  have hm' : updB ((al (alignTree seqs al l) (alignTree seqs al r)).map Col.ofCode) m
      ∈ alignTree seqs al (.node l r) :=
    (mem_mergeGroups _ _ _ _).2 (Or.inr ⟨m, hm, rfl⟩)
  have := finalRow_of_mem _ (alignTree_idx_nodup seqs al hal _ hnd) _ hm'
  rw [updB_idx] at this
  rw [this, Option.getD_some, Option.getD_some, updB_row _ m (wf m hm) (by rw [len m hm, hv.2.2])]

theorem mem_idx_leaves (seqs : Nat → List α) (al : Aligner α) (hal : al.Valid) (T : Tree)
    (m : Member α) (hm : m ∈ alignTree seqs al T) : m.idx ∈ T.leaves :=
  (alignTree_ok seqs al hal T).2.2.2.2.2.mem_iff.1 (List.mem_map_of_mem hm)

theorem subalignment_preserved (seqs : Nat → List α) (al : Aligner α) (hal : al.Valid)
    (T v : Tree) (hsub : Tree.Sub v T) (hnd : T.leaves.Nodup) :
    dropAllGapCols ((alignTree seqs al v).map fun m => ((finalRow (alignTree seqs al T) m.idx).getD []))
        (alignTree seqs al T).plen
      = (alignTree seqs al v).map (·.seq.row) := by
  induction hsub with
  | refl =>
    obtain ⟨_, _, _, len, ng, _⟩ := alignTree_ok seqs al hal v
    have : ((alignTree seqs al v).map fun m => ((finalRow (alignTree seqs al v) m.idx).getD []))
        = (alignTree seqs al v).map (·.seq.row) := by
      apply List.map_congr_left
      intro m hm
      rw [finalRow_of_mem _ (alignTree_idx_nodup seqs al hal v hnd) m hm]; rfl
    rw [this]
    apply dropAllGapCols_id _ _ _ ng
    intro r hr
    obtain ⟨m, hm, rfl⟩ := List.mem_map.1 hr
    exact len m hm
  | @left l r hs ih =>
    have hndl : l.leaves.Nodup := (List.nodup_append.1 hnd).1
    have hv := hal (alignTree seqs al l) (alignTree seqs al r)
    obtain ⟨neA, wfA, resA, lenA, ngA, _⟩ := alignTree_ok seqs al hal l
    obtain ⟨_, wfB, resB, lenB, ngB, _⟩ := alignTree_ok seqs al hal r
    have hp : (alignTree seqs al (.node l r)).plen
        = ((al (alignTree seqs al l) (alignTree seqs al r)).map Col.ofCode).length := by
      rw [List.length_map]
      exact (merge_ok seqs _ _ _ wfA resA lenA ngA wfB resB lenB ngB neA hv).2.2.2.2
    have : ((alignTree seqs al v).map fun m =>
          ((finalRow (alignTree seqs al (.node l r)) m.idx).getD []))
        = ((alignTree seqs al v).map fun m => ((finalRow (alignTree seqs al l) m.idx).getD [])).map
            (weaveA ((al (alignTree seqs al l) (alignTree seqs al r)).map Col.ofCode)) := by
      rw [List.map_map]
      apply List.map_congr_left
      intro m hm
      exact finalRow_node_left seqs al hal l r hnd m.idx
        (leaves_sub hs _ (mem_idx_leaves seqs al hal v m hm))
    rw [this, hp, dropAllGapCols_weaveA _ hv.1, hv.2.1]
    exact ih hndl
  | @right l r hs ih =>
    have hndr : r.leaves.Nodup := (List.nodup_append.1 hnd).2.1
    have hv := hal (alignTree seqs al l) (alignTree seqs al r)
    obtain ⟨neA, wfA, resA, lenA, ngA, _⟩ := alignTree_ok seqs al hal l
    obtain ⟨_, wfB, resB, lenB, ngB, _⟩ := alignTree_ok seqs al hal r
    have hp : (alignTree seqs al (.node l r)).plen
        = ((al (alignTree seqs al l) (alignTree seqs al r)).map Col.ofCode).length := by
      rw [List.length_map]
      exact (merge_ok seqs _ _ _ wfA resA lenA ngA wfB resB lenB ngB neA hv).2.2.2.2
    have : ((alignTree seqs al v).map fun m =>
          ((finalRow (alignTree seqs al (.node l r)) m.idx).getD []))
        = ((alignTree seqs al v).map fun m => ((finalRow (alignTree seqs al r) m.idx).getD [])).map
            (weaveB ((al (alignTree seqs al l) (alignTree seqs al r)).map Col.ofCode)) := by
      rw [List.map_map]
      apply List.map_congr_left
      intro m hm
      exact finalRow_node_right seqs al hal l r hnd m.idx
        (leaves_sub hs _ (mem_idx_leaves seqs al hal v m hm))
    rw [this, hp, dropAllGapCols_weaveB _ hv.1, hv.2.2]
    exact ih hndr

theorem cell_map_cell (r : List (Option α)) (l : List Nat) (k : Nat) (x : α)
    (h : cell (l.map (cell r)) k = some x) : ∃ k', cell r k' = some x ∧ l[k]? = some k' := by
  unfold cell at h
  rw [List.getElem?_map] at h
  cases hk : l[k]? with
  | none => rw [hk] at h; simp at h
  | some k' =>
    rw [hk] at h
    exact ⟨k', by simpa [cell] using h, rfl⟩

theorem column_mates_stay (seqs : Nat → List α) (al : Aligner α) (hal : al.Valid)
    (T v : Tree) (hsub : Tree.Sub v T) (hnd : T.leaves.Nodup)
    (m₁ m₂ : Member α) (h₁ : m₁ ∈ alignTree seqs al v) (h₂ : m₂ ∈ alignTree seqs al v)
    (k : Nat) (x y : α) (hx : cell m₁.seq.row k = some x) (hy : cell m₂.seq.row k = some y) :
    ∃ k', cell ((finalRow (alignTree seqs al T) m₁.idx).getD []) k' = some x ∧
          cell ((finalRow (alignTree seqs al T) m₂.idx).getD []) k' = some y := by
  have h := subalignment_preserved seqs al hal T v hsub hnd
  unfold dropAllGapCols at h
  rw [List.map_map] at h
  have h' := List.map_inj_left.1 h
  have e1 := h' m₁ h₁
  have e2 := h' m₂ h₂
  simp only [Function.comp_apply] at e1 e2
  rw [← e1] at hx
  rw [← e2] at hy
  obtain ⟨k1, hk1, hl1⟩ := cell_map_cell _ _ _ _ hx
  obtain ⟨k2, hk2, hl2⟩ := cell_map_cell _ _ _ _ hy
  rw [hl1] at hl2
  cases hl2
  exact ⟨k1, hk1, hk2⟩

/-! ## path expansion (`add_gap_info_to_path_n`) -/

theorem ofCode_or32 (c : Nat) (h : c ≠ 0) : Col.ofCode (c ||| 32) = Col.ofCode c := by
  have h4 : (c ||| 32) % 4 = c % 4 := by
    have := Nat.or_mod_two_pow (a := c) (b := 32) (n := 2)
    simpa using this
  have hne : c ||| 32 ≠ 0 := by
    intro h0
    have := @Nat.right_le_or c 32
    omega
  unfold Col.ofCode
  rw [if_neg h, if_neg hne]
  have e1 : (c ||| 32) % 2 = c % 2 := by omega
  have e2 : (c ||| 32) / 2 % 2 = c / 2 % 2 := by omega
  rw [e1, e2]

theorem map_ofCode_markPrefix (l : List Nat) :
    (markPrefix l).map Col.ofCode = l.map Col.ofCode := by
  induction l with
  | nil => rfl
  | cons c cs ih =>
    unfold markPrefix
    by_cases h : c = 0
    · simp [h]
    · simp [h, ih, ofCode_or32 c h]

theorem map_ofCode_markSuffix (l : List Nat) :
    (markSuffix l).map Col.ofCode = l.map Col.ofCode := by
  unfold markSuffix
  rw [List.map_reverse, map_ofCode_markPrefix, ← List.map_reverse, List.reverse_reverse]

/-- summary of a list of codes: no skip column, and its two consumption counts -/
def CodesStat (l : List Nat) (a b : Nat) : Prop :=
  Col.skip ∉ l.map Col.ofCode ∧ consA (l.map Col.ofCode) = a ∧ consB (l.map Col.ofCode) = b

theorem CodesStat.append {l₁ l₂ : List Nat} {a₁ b₁ a₂ b₂ : Nat}
    (h₁ : CodesStat l₁ a₁ b₁) (h₂ : CodesStat l₂ a₂ b₂) : CodesStat (l₁ ++ l₂) (a₁ + a₂) (b₁ + b₂) := by
  obtain ⟨s1, a1, b1⟩ := h₁
  obtain ⟨s2, a2, b2⟩ := h₂
  refine ⟨?_, ?_, ?_⟩
  · rw [List.map_append, List.mem_append]; exact fun h => h.elim s1 s2
  · rw [List.map_append, consA_append, a1, a2]
  · rw [List.map_append, consB_append, b1, b2]

theorem CodesStat.nil : CodesStat [] 0 0 := ⟨by simp, rfl, rfl⟩
theorem CodesStat.zero : CodesStat [0] 1 1 := ⟨by decide, by decide, by decide⟩
theorem CodesStat.two : CodesStat [2] 1 0 := ⟨by decide, by decide, by decide⟩
theorem CodesStat.ones (n : Nat) : CodesStat (List.replicate n 1) 0 n := by
  induction n with
  | zero => exact CodesStat.nil
  | succ n ih =>
    obtain ⟨s, a, b⟩ := ih
    have h1 : Col.ofCode 1 = Col.gapA := by decide
    refine ⟨?_, ?_, ?_⟩
    · simp only [List.replicate_succ, List.map_cons, List.mem_cons, h1]
      exact fun h => h.elim (by decide) s
    · simp only [List.replicate_succ, List.map_cons, h1, consA_gapA]; exact a
    · simp only [List.replicate_succ, List.map_cons, h1, consB_gapA, b]

theorem CodesStat.cast {l : List Nat} {a b a' b' : Nat} (h : CodesStat l a b) (ha : a = a')
    (hb : b = b') : CodesStat l a' b' := ha ▸ hb ▸ h

/-- Prop-valued form of the path shape test (`pathOKAux` of Props/C01). -/
inductive PathShape (lenB : Nat) : Int → Bool → List Int → Prop
  | nilGap {last : Int} : last = (lenB : Int) → PathShape lenB last true []
  | nilRes {last : Int} : last ≤ (lenB : Int) → PathShape lenB last false []
  | gap {last : Int} {pg : Bool} {ps : List Int} :
      PathShape lenB last true ps → PathShape lenB last pg (-1 :: ps)
  | afterGap {last p : Int} {ps : List Int} : p ≠ -1 → p = last + 1 → p ≤ (lenB : Int) →
      PathShape lenB p false ps → PathShape lenB last true (p :: ps)
  | afterRes {last p : Int} {ps : List Int} : p ≠ -1 → p > last → p ≤ (lenB : Int) →
      PathShape lenB p false ps → PathShape lenB last false (p :: ps)

theorem expandRest_stat (lenB : Nat) {last : Int} {pg : Bool} {ps : List Int}
    (h : PathShape lenB last pg ps) :
    0 ≤ last → ∀ b : Int, (pg = true → b = -1) → (pg = false → b = last) →
      CodesStat (expandRest b ps ++ expandTail lenB (ps.getLast?.getD b)) ps.length
        ((lenB : Int) - last).toNat ∧ last ≤ (lenB : Int) ∧
      ((pg = true ∨ ps ≠ []) → last < (lenB : Int) →
        0 ∈ expandRest b ps ++ expandTail lenB (ps.getLast?.getD b)) := by
  induction h with
  | @nilGap last hl =>
    intro h0 b hb _
    have hb' := hb rfl
    subst hb'
    refine ⟨?_, by omega, ?_⟩
    · simp only [expandRest, List.getLast?_nil, Option.getD_none, List.nil_append, List.length_nil]
      unfold expandTail
      rw [if_neg (fun h => h.2 rfl)]
      exact CodesStat.nil.cast rfl (by omega)
    · intro _ hlt; omega
  | @nilRes last hl =>
    intro h0 b _ hb
    have hb' := hb rfl
    subst hb'
    refine ⟨?_, hl, ?_⟩
    · simp only [expandRest, List.getLast?_nil, Option.getD_none, List.nil_append,
        List.length_nil]
      unfold expandTail
      by_cases hlt : b < (lenB : Int)
      · rw [if_pos ⟨hlt, by omega⟩]
        exact CodesStat.ones _
      · rw [if_neg (fun h => hlt h.1)]
        exact CodesStat.nil.cast rfl (by omega)
    · intro hor; simp at hor
  | @gap last pg ps _ ih =>
    intro h0 b _ _
    obtain ⟨st, hle, hz⟩ := ih h0 (-1) (fun _ => rfl) (fun h => by cases h)
    have e : expandRest b (-1 :: ps) ++ expandTail lenB ((-1 :: ps).getLast?.getD b)
        = [2] ++ (expandRest (-1) ps ++ expandTail lenB (ps.getLast?.getD (-1))) := by
      simp [expandRest, expandEntry, List.getLast?_cons]
    rw [e]
    refine ⟨(CodesStat.two.append st).cast (by simp; omega) (by omega), hle, ?_⟩
    intro _ hlt
    exact List.mem_append_right _ (hz (Or.inl rfl) hlt)
  | @afterGap last p ps hp1 hp hpl _ ih =>
    intro h0 b hb _
    have hb' := hb rfl
    subst hb'
    obtain ⟨st, hle, _⟩ := ih (by omega) p (fun h => by cases h) (fun _ => rfl)
    have e : expandRest (-1) (p :: ps) ++ expandTail lenB ((p :: ps).getLast?.getD (-1))
        = [0] ++ (expandRest p ps ++ expandTail lenB (ps.getLast?.getD p)) := by
      simp [expandRest, expandEntry, List.getLast?_cons, hp1]
    rw [e]
    refine ⟨(CodesStat.zero.append st).cast (by simp; omega) (by omega), by omega, ?_⟩
    intro _ _
    exact List.mem_append_left _ (by simp)
  | @afterRes last p ps hp1 hp hpl _ ih =>
    intro h0 b _ hb
    have hb' := hb rfl
    subst hb'
    obtain ⟨st, hle, _⟩ := ih (by omega) p (fun h => by cases h) (fun _ => rfl)
    by_cases hadj : p - 1 = b
    · have e : expandRest b (p :: ps) ++ expandTail lenB ((p :: ps).getLast?.getD b)
          = [0] ++ (expandRest p ps ++ expandTail lenB (ps.getLast?.getD p)) := by
        simp [expandRest, expandEntry, List.getLast?_cons, hp1, hadj]
      rw [e]
      refine ⟨(CodesStat.zero.append st).cast (by simp; omega) (by omega), by omega, ?_⟩
      intro _ _
      exact List.mem_append_left _ (by simp)
    · have hb1 : b ≠ -1 := by omega
      have e : expandRest b (p :: ps) ++ expandTail lenB ((p :: ps).getLast?.getD b)
          = (List.replicate (p - b - 1).toNat 1 ++ [0]) ++
              (expandRest p ps ++ expandTail lenB (ps.getLast?.getD p)) := by
        simp [expandRest, expandEntry, List.getLast?_cons, hp1, hadj, hb1]
      rw [e]
      refine ⟨(((CodesStat.ones _).append CodesStat.zero).append st).cast (by simp; omega) (by omega),
        by omega, ?_⟩
      intro _ _
      exact List.mem_append_left _ (by simp)

theorem expandFirst_eq (p : Int) : expandFirst p = expandEntry 0 p := by
  unfold expandFirst expandEntry
  by_cases h1 : p = -1
  · simp [h1]
  · by_cases h2 : p = 1
    · simp [h2]
    · have : p - 1 ≠ 0 := by omega
      simp [h1, h2, this]

theorem expandCore_eq (lenB : Nat) (path : List Int) (hne : path ≠ []) :
    expandCore lenB path = expandRest 0 path ++ expandTail lenB (path.getLast?.getD 0) := by
  cases path with
  | nil => exact absurd rfl hne
  | cons p ps => simp [expandCore, expandRest, expandFirst_eq, List.getLast?_cons]

theorem expandPath_valid_of_shape (lenB : Nat) (path : List Int) (hb : 1 ≤ lenB) (hne : path ≠ [])
    (h : PathShape lenB 0 false path) :
    ∃ codes, expandPath lenB path = some codes ∧
      ValidCols (codes.map Col.ofCode) path.length lenB := by
  obtain ⟨st, _, hz⟩ := expandRest_stat lenB h (Int.le_refl 0) 0 (fun h => by cases h) (fun _ => rfl)
  rw [← expandCore_eq lenB path hne] at st hz
  have h0 : 0 ∈ expandCore lenB path := hz (Or.inr hne) (by omega)
  have hall : (expandCore lenB path).all (· ≠ 0) = false := by
    rw [List.all_eq_false]
    exact ⟨0, h0, by simp⟩
  refine ⟨markSuffix (markPrefix (expandCore lenB path)), ?_, ?_⟩
  · simp only [expandPath, hall]; rfl
  · rw [map_ofCode_markSuffix, map_ofCode_markPrefix]
    exact st.cast rfl (by omega)

end Kalign
