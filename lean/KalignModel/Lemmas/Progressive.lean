import KalignModel.Model.Progressive
import KalignModel.Lemmas.Weave
/-! helper lemmas for C01 / C10 (to be filled) -/
namespace Kalign
variable {α : Type}

end Kalign
