import KalignModel.Lemmas.IndexKernel
/-!
# The nine checked kernels agree with the totalised kernels (slice AD, item 1)
-/
namespace Kalign
section
variable {α : Type} [Score α]

theorem mem_rows {r : Rect} {i : Nat} (h : i ∈ List.range' r.starta (r.enda - r.starta)) (hr : r.starta ≤ r.enda) :
    r.starta ≤ i ∧ i < r.enda := by
  have := List.mem_range'_1.mp h
  omega

theorem mem_rows_rev {r : Rect} {i : Nat} (h : i ∈ (List.range' r.starta (r.enda - r.starta)).reverse)
    (hr : r.starta ≤ r.enda) : r.starta ≤ i ∧ i < r.enda :=
  mem_rows (List.mem_reverse.mp h) hr

/-! ## sequence – sequence -/

theorem ssForwardC_eq (ap : AlnParam α) (hw : ap.wf) (s1 s2 : Array Nat) (r : Rect) (lenA lenB : Nat)
    (h1 : s1.all (· < 23) = true) (h2 : s2.all (· < 23) = true) (hs1 : s1.size = lenA) (hs2 : s2.size = lenB)
    (hr : r.valid lenA lenB = true) (start : States α) :
    ssForwardC ap s1 s2 r start = some (ssForward ap s1 s2 r start) := by
  obtain ⟨ra, rb, rc, rd, re⟩ := (Rect.valid_iff r lenA lenB).mp hr
  refine runKernelC_eq _ _ _ (fun _ _ _ _ _ => rfl) _ _ _ _ (fun i hi => ?_)
  obtain ⟨i1, i2⟩ := mem_rows hi ra
  refine ⟨_, by rw [getElem?_eq_some_getD s1 i 0 (by omega), Option.bind_some], ?_⟩
  refine ⟨fun _ _ => rfl, ?_, fun _ _ _ _ _ => rfl, fun _ _ => rfl, fun _ _ => rfl⟩
  intro k k1 k2 x y z
  dsimp only
  rw [getElem?_eq_some_getD s2 _ 0 (by omega), Option.bind_some,
    subC_eq ap hw _ _ (all_lt_getD s1 h1 i (by omega)) (all_lt_getD s2 h2 _ (by omega)), Option.bind_some]

theorem ssBackwardC_eq (ap : AlnParam α) (hw : ap.wf) (s1 s2 : Array Nat) (r : Rect) (lenA lenB : Nat)
    (h1 : s1.all (· < 23) = true) (h2 : s2.all (· < 23) = true) (hs1 : s1.size = lenA) (hs2 : s2.size = lenB)
    (hr : r.valid lenA lenB = true) (start : States α) :
    ssBackwardC ap s1 s2 r start = some (ssBackward ap s1 s2 r start) := by
  obtain ⟨ra, rb, rc, rd, re⟩ := (Rect.valid_iff r lenA lenB).mp hr
  unfold ssBackwardC ssBackward
  dsimp only
  rw [runKernelC_eq _ _ _ (fun _ _ _ _ _ => rfl) _ _ _ _ (fun i hi => ?_)]
  · rfl
  obtain ⟨i1, i2⟩ := mem_rows_rev hi ra
  refine ⟨_, by rw [getElem?_eq_some_getD s1 i 0 (by omega), Option.bind_some], ?_⟩
  refine ⟨fun _ _ => rfl, ?_, fun _ _ _ _ _ => rfl, fun _ _ => rfl, fun _ _ => rfl⟩
  intro k k1 k2 x y z
  dsimp only
  rw [getElem?_eq_some_getD s2 _ 0 (by omega), Option.bind_some,
    subC_eq ap hw _ _ (all_lt_getD s1 h1 i (by omega)) (all_lt_getD s2 h2 _ (by omega)), Option.bind_some]

/-! ## sequence – profile -/

theorem spForwardC_eq (ap : AlnParam α) (p : Array α) (s2 : Array Nat) (sip : Nat) (r : Rect) (lenA lenB : Nat)
    (h2 : s2.all (· < 23) = true) (hp : p.size = 64 * (lenA + 2)) (hs2 : s2.size = lenB)
    (hr : r.valid lenA lenB = true) (start : States α) :
    spForwardC ap p s2 sip r start = some (spForward ap p s2 sip r start) := by
  obtain ⟨ra, rb, rc, rd, re⟩ := (Rect.valid_iff r lenA lenB).mp hr
  refine runKernelC_eq _ _ _ (fun _ _ _ _ _ => rfl) _ _ _ _ (fun i hi => ?_)
  obtain ⟨i1, i2⟩ := mem_rows hi ra
  have c0 : ColOK p i := colOK_of_size p lenA _ hp (by omega)
  have c1 : ColOK p (i + 1) := colOK_of_size p lenA _ hp (by omega)
  refine ⟨_, rfl, ?_⟩
  refine ⟨profGbC_eq p _ (r.startb == 0) c1, ?_, fun _ _ _ _ _ => rfl, profGbC_eq p _ false c1,
    profGbC_eq p _ (r.endb == r.lenB) c1⟩
  intro k k1 k2 x y z
  dsimp only
  have hc := all_lt_getD s2 h2 (r.startb + k - 1) (by omega)
  rw [pgetC_col p i 27 c0 (by omega), Option.bind_some, getElem?_eq_some_getD s2 _ 0 (by omega), Option.bind_some,
    pgetC_col p (i + 1) _ c1 (by omega), Option.bind_some]

theorem spBackwardC_eq (ap : AlnParam α) (p : Array α) (s2 : Array Nat) (sip : Nat) (r : Rect) (lenA lenB : Nat)
    (h2 : s2.all (· < 23) = true) (hp : p.size = 64 * (lenA + 2)) (hs2 : s2.size = lenB)
    (hr : r.valid lenA lenB = true) (start : States α) :
    spBackwardC ap p s2 sip r start = some (spBackward ap p s2 sip r start) := by
  obtain ⟨ra, rb, rc, rd, re⟩ := (Rect.valid_iff r lenA lenB).mp hr
  unfold spBackwardC spBackward
  dsimp only
  rw [runKernelC_eq _ _ _ (fun _ _ _ _ _ => rfl) _ _ _ _ (fun i hi => ?_)]
  · rfl
  obtain ⟨i1, i2⟩ := mem_rows_rev hi ra
  have c1 : ColOK p (i + 1) := colOK_of_size p lenA _ hp (by omega)
  have c2 : ColOK p (i + 2) := colOK_of_size p lenA _ hp (by omega)
  refine ⟨_, rfl, ?_⟩
  refine ⟨profGbC_eq p _ (r.endb == r.lenB) c1, ?_, fun _ _ _ _ _ => rfl, profGbC_eq p _ false c1,
    profGbC_eq p _ (r.startb == 0) c1⟩
  intro k k1 k2 x y z
  dsimp only
  have hc := all_lt_getD s2 h2 (r.endb - k) (by omega)
  rw [pgetC_col p (i + 2) 27 c2 (by omega), Option.bind_some, getElem?_eq_some_getD s2 _ 0 (by omega), Option.bind_some,
    pgetC_col p (i + 1) _ c1 (by omega), Option.bind_some]

/-! ## profile – profile -/

theorem ppForwardC_eq (p1 p2 : Array α) (r : Rect) (lenA lenB : Nat)
    (hp1 : p1.size = 64 * (lenA + 2)) (hp2 : p2.size = 64 * (lenB + 2))
    (hr : r.valid lenA lenB = true) (start : States α) :
    ppForwardC p1 p2 r start = some (ppForward p1 p2 r start) := by
  obtain ⟨ra, rb, rc, rd, re⟩ := (Rect.valid_iff r lenA lenB).mp hr
  have q : ∀ j, j ≤ lenB + 1 → ColOK p2 j := fun j hj => colOK_of_size p2 lenB j hp2 hj
  refine runKernelC_eq _ _ _ ?_ _ _ _ _ (fun i hi => ?_)
  · intro k k1 k2 x y
    try dsimp only
    have cj := q (r.startb + k) (by omega)
    split
    · rw [pgetC_col p2 _ 29 cj (by omega), Option.bind_some]
    · rw [pgetC_col p2 _ 28 cj (by omega), Option.bind_some, pgetC_col p2 _ 27 cj (by omega), Option.bind_some]
  obtain ⟨i1, i2⟩ := mem_rows hi ra
  have c0 : ColOK p1 i := colOK_of_size p1 lenA _ hp1 (by omega)
  have c1 : ColOK p1 (i + 1) := colOK_of_size p1 lenA _ hp1 (by omega)
  refine ⟨_, by rw [freqOfC_eq p1 (i + 1) c1, Option.bind_some], ?_⟩
  refine ⟨profGbC_eq p1 _ (r.startb == 0) c1, ?_, ?_, profGbC_eq p1 _ false c1, profGbC_eq p1 _ (r.endb == r.lenB) c1⟩
  · intro k k1 k2 x y z
    try dsimp only
    rw [pgetC_col p2 _ 27 (q (r.startb + k - 1) (by omega)) (by omega), Option.bind_some,
      pgetC_col p1 i 27 c0 (by omega), Option.bind_some]
    exact dotAddC_eq p1 (i + 1) p2 (r.startb + k) _ _ c1 (q _ (by omega))
      (fun c hc => mem_freqOf_lt p1 (i + 1) c (List.mem_reverse.mp hc))
  · intro k k1 k2 x y
    try dsimp only
    have cj := q (r.startb + k) (by omega)
    rw [pgetC_col p2 _ 28 cj (by omega), Option.bind_some, pgetC_col p2 _ 27 cj (by omega), Option.bind_some]

theorem ppBackwardC_eq (p1 p2 : Array α) (r : Rect) (lenA lenB : Nat)
    (hp1 : p1.size = 64 * (lenA + 2)) (hp2 : p2.size = 64 * (lenB + 2))
    (hr : r.valid lenA lenB = true) (start : States α) :
    ppBackwardC p1 p2 r start = some (ppBackward p1 p2 r start) := by
  obtain ⟨ra, rb, rc, rd, re⟩ := (Rect.valid_iff r lenA lenB).mp hr
  have q : ∀ j, j ≤ lenB + 1 → ColOK p2 j := fun j hj => colOK_of_size p2 lenB j hp2 hj
  unfold ppBackwardC ppBackward
  dsimp only
  rw [runKernelC_eq _ _ _ ?_ _ _ _ _ (fun i hi => ?_)]
  · rfl
  · intro k k1 k2 x y
    try dsimp only
    have cj := q (r.endb - k + 1) (by omega)
    split
    · rw [pgetC_col p2 _ 29 cj (by omega), Option.bind_some]
    · rw [pgetC_col p2 _ 28 cj (by omega), Option.bind_some, pgetC_col p2 _ 27 cj (by omega), Option.bind_some]
  obtain ⟨i1, i2⟩ := mem_rows_rev hi ra
  have c1 : ColOK p1 (i + 1) := colOK_of_size p1 lenA _ hp1 (by omega)
  have c2 : ColOK p1 (i + 2) := colOK_of_size p1 lenA _ hp1 (by omega)
  refine ⟨_, by rw [freqOfC_eq p1 (i + 1) c1, Option.bind_some], ?_⟩
  refine ⟨profGbC_eq p1 _ (r.endb == r.lenB) c1, ?_, ?_, profGbC_eq p1 _ false c1, profGbC_eq p1 _ (r.startb == 0) c1⟩
  · intro k k1 k2 x y z
    try dsimp only
    rw [pgetC_col p2 _ 27 (q (r.endb - k + 2) (by omega)) (by omega), Option.bind_some,
      pgetC_col p1 (i + 2) 27 c2 (by omega), Option.bind_some]
    exact dotAddC_eq p1 (i + 1) p2 (r.endb - k + 1) _ _ c1 (q _ (by omega))
      (fun c hc => mem_freqOf_lt p1 (i + 1) c (List.mem_reverse.mp hc))
  · intro k k1 k2 x y
    try dsimp only
    have cj := q (r.endb - k + 1) (by omega)
    rw [pgetC_col p2 _ 28 cj (by omega), Option.bind_some, pgetC_col p2 _ 27 cj (by omega), Option.bind_some]

/-! ## meetup -/

/-- the checked penalty terms answer with the totalised ones for every column `i ≤ lim` -/
structure MeetAgree (lim : Nat) (oc : MeetOpsC α) (o : MeetOps α) : Prop where
  g2 : ∀ i, i ≤ lim → ∀ x, oc.g2 i x = some (o.g2 i x)
  g3 : ∀ x, oc.g3 x = some (o.g3 x)
  g5 : ∀ i, i ≤ lim → ∀ x, oc.g5 i x = some (o.g5 i x)
  g6 : ∀ x, oc.g6 x = some (o.g6 x)
  g7 : ∀ x, oc.g7 x = some (o.g7 x)
  g6e : ∀ x, oc.g6e x = some (o.g6e x)

theorem meetupLoopC_eq (lim : Nat) (oc : MeetOpsC α) (o : MeetOps α) (h : MeetAgree lim oc o) (sb eb : Nat)
    (fs bs : List (States α)) (i : Nat) (acc : MeetAcc α) (hlen : i + fs.length ≤ lim + 1) :
    meetupLoopC oc sb eb i fs bs acc = some (meetupLoop o sb eb i fs bs acc) := by
  induction fs generalizing bs i acc with
  | nil =>
    rw [meetupLoop.eq_3 _ _ _ _ _ _ _ (by simp) (by simp), meetupLoopC.eq_3 _ _ _ _ _ _ _ (by simp) (by simp)]
  | cons f fs ih =>
    cases bs with
    | nil =>
      rw [meetupLoop.eq_3 _ _ _ _ _ _ _ (by simp) (by simp), meetupLoopC.eq_3 _ _ _ _ _ _ _ (by simp) (by simp)]
    | cons b bs =>
      simp only [List.length_cons] at hlen
      by_cases hone : fs = [] ∧ bs = []
      · obtain ⟨e1, e2⟩ := hone
        subst e1; subst e2
        simp only [meetupLoop, meetupLoopC, h.g3, h.g6e, Option.bind_some]
      · rw [meetupLoop.eq_2 _ _ _ _ _ _ _ _ _ (fun a b => hone ⟨a, b⟩),
          meetupLoopC.eq_2 _ _ _ _ _ _ _ _ _ (fun a b => hone ⟨a, b⟩)]
        simp only [h.g2 i (by omega), h.g3, h.g5 i (by omega), h.g6, h.g7, Option.bind_some]
        exact ih bs (i + 1) _ (by omega)

theorem meetupRunC_eq (lim : Nat) (oc : MeetOpsC α) (o : MeetOps α) (h : MeetAgree lim oc o) (sb eb : Nat)
    (fs bs : List (States α)) (hlen : sb + fs.length ≤ lim + 1) :
    meetupRunC oc sb eb fs bs = some (meetupRun o sb eb fs bs) := by
  unfold meetupRunC meetupRun
  rw [meetupLoopC_eq lim oc o h sb eb fs bs sb _ hlen]
  rfl

theorem ssMeetAgree (ap : AlnParam α) (r : Rect) (lim : Nat) : MeetAgree lim (ssMeetOpsC ap r) (ssMeetOps ap r) :=
  ⟨fun _ _ _ => rfl, fun _ => rfl, fun _ _ _ => rfl, fun _ => rfl, fun _ => rfl, fun _ => rfl⟩

theorem spMeetAgree (ap : AlnParam α) (p : Array α) (sip : Nat) (r : Rect) (mid lenA lim : Nat)
    (hp : p.size = 64 * (lenA + 2)) (hmid : mid ≤ lenA) :
    MeetAgree lim (spMeetOpsC ap p sip r mid) (spMeetOps ap p sip r mid) := by
  have c0 : ColOK p mid := colOK_of_size p lenA _ hp (by omega)
  have c1 : ColOK p (mid + 1) := colOK_of_size p lenA _ hp (by omega)
  refine ⟨fun _ _ _ => rfl, ?_, fun _ _ _ => rfl, ?_, ?_, ?_⟩
  · intro x; simp only [spMeetOpsC, spMeetOps, pgetC_col p _ 27 c1 (by omega), Option.bind_some]
  · intro x; simp only [spMeetOpsC, spMeetOps, pgetC_col p _ 28 c1 (by omega), pgetC_col p _ 29 c1 (by omega),
      Option.bind_some]; split <;> rfl
  · intro x; simp only [spMeetOpsC, spMeetOps, pgetC_col p _ 27 c0 (by omega), Option.bind_some]
  · intro x; simp only [spMeetOpsC, spMeetOps, pgetC_col p _ 28 c1 (by omega), pgetC_col p _ 29 c1 (by omega),
      Option.bind_some]; split <;> rfl

theorem ppMeetAgree (p1 p2 : Array α) (r : Rect) (mid lenA lenB : Nat)
    (hp1 : p1.size = 64 * (lenA + 2)) (hp2 : p2.size = 64 * (lenB + 2)) (hmid : mid ≤ lenA) :
    MeetAgree lenB (ppMeetOpsC p1 p2 r mid) (ppMeetOps p1 p2 r mid) := by
  have c0 : ColOK p1 mid := colOK_of_size p1 lenA _ hp1 (by omega)
  have c1 : ColOK p1 (mid + 1) := colOK_of_size p1 lenA _ hp1 (by omega)
  have q : ∀ j, j ≤ lenB + 1 → ColOK p2 j := fun j hj => colOK_of_size p2 lenB j hp2 hj
  refine ⟨?_, ?_, ?_, ?_, ?_, ?_⟩
  · intro i hi x; simp only [ppMeetOpsC, ppMeetOps, pgetC_col p2 _ 27 (q (i + 1) (by omega)) (by omega), Option.bind_some]
  · intro x; simp only [ppMeetOpsC, ppMeetOps, pgetC_col p1 _ 27 c1 (by omega), Option.bind_some]
  · intro i hi x; simp only [ppMeetOpsC, ppMeetOps, pgetC_col p2 _ 27 (q i (by omega)) (by omega), Option.bind_some]
  · intro x; simp only [ppMeetOpsC, ppMeetOps, pgetC_col p1 _ 28 c1 (by omega), pgetC_col p1 _ 29 c1 (by omega),
      Option.bind_some]; split <;> rfl
  · intro x; simp only [ppMeetOpsC, ppMeetOps, pgetC_col p1 _ 27 c0 (by omega), Option.bind_some]
  · intro x; simp only [ppMeetOpsC, ppMeetOps, pgetC_col p1 _ 28 c1 (by omega), pgetC_col p1 _ 29 c1 (by omega),
      Option.bind_some]; split <;> rfl

/-! ## the dispatchers -/

theorem kForwardC_eq (ap : AlnParam α) (hw : ap.wf) (ops : Operands α) (r : Rect) (lenA lenB : Nat)
    (hl : ops.lens? = some (lenA, lenB)) (hr : r.valid lenA lenB = true) (start : States α) :
    kForwardC ap ops r start = some (kForward ap ops r start) := by
  cases ops with
  | seqseq s1 s2 =>
    obtain ⟨a, b, c, d⟩ := lens_seqseq hl
    exact ssForwardC_eq ap hw s1 s2 r lenA lenB a b c d hr start
  | seqprof p s2 sip =>
    obtain ⟨a, b, c⟩ := lens_seqprof hl
    exact spForwardC_eq ap p s2 sip r lenA lenB a b c hr start
  | profprof p1 p2 =>
    obtain ⟨a, b⟩ := lens_profprof hl
    exact ppForwardC_eq p1 p2 r lenA lenB a b hr start

theorem kBackwardC_eq (ap : AlnParam α) (hw : ap.wf) (ops : Operands α) (r : Rect) (lenA lenB : Nat)
    (hl : ops.lens? = some (lenA, lenB)) (hr : r.valid lenA lenB = true) (start : States α) :
    kBackwardC ap ops r start = some (kBackward ap ops r start) := by
  cases ops with
  | seqseq s1 s2 =>
    obtain ⟨a, b, c, d⟩ := lens_seqseq hl
    exact ssBackwardC_eq ap hw s1 s2 r lenA lenB a b c d hr start
  | seqprof p s2 sip =>
    obtain ⟨a, b, c⟩ := lens_seqprof hl
    exact spBackwardC_eq ap p s2 sip r lenA lenB a b c hr start
  | profprof p1 p2 =>
    obtain ⟨a, b⟩ := lens_profprof hl
    exact ppBackwardC_eq p1 p2 r lenA lenB a b hr start

/-- `mid ≤ lenA`; one of the two state lists is no longer than the rectangle is wide (`endb - startb + 1` cells) -/
theorem kMeetupC_eq (ap : AlnParam α) (ops : Operands α) (r : Rect) (lenA lenB mid : Nat)
    (hl : ops.lens? = some (lenA, lenB)) (hr : r.valid lenA lenB = true) (hmid : mid ≤ lenA)
    (fs bs : List (States α)) (hlen : fs.length ≤ r.endb - r.startb + 1) :
    kMeetupC ap ops r mid fs bs = some (kMeetup ap ops r mid fs bs) := by
  obtain ⟨ra, rb, rc, rd, re⟩ := (Rect.valid_iff r lenA lenB).mp hr
  cases ops with
  | seqseq s1 s2 => exact meetupRunC_eq lenB _ _ (ssMeetAgree ap r lenB) _ _ _ _ (by omega)
  | seqprof p s2 sip =>
    obtain ⟨a, b, c⟩ := lens_seqprof hl
    exact meetupRunC_eq lenB _ _ (spMeetAgree ap p sip r mid lenA lenB b hmid) _ _ _ _ (by omega)
  | profprof p1 p2 =>
    obtain ⟨a, b⟩ := lens_profprof hl
    exact meetupRunC_eq lenB _ _ (ppMeetAgree p1 p2 r mid lenA lenB a b hmid) _ _ _ _ (by omega)

end
end Kalign
