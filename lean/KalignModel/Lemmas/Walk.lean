import KalignModel.Lemmas.KernelSpec
import KalignModel.Lemmas.Progressive
import KalignModel.Model.ScoreST
/-!
# Readings split into feasibility (`walkOK`) and value (`walkSc`)

`runF c ⟨p,k,st,some v⟩ cs` ends at node `(p + consA cs, k + consB cs)` in kind `lastKind st cs` with value
`some (v + walkSc …)` when `walkOK …`, and −∞ otherwise.
-/
namespace Kalign

def lastKind (st : Kind) (cs : List Col) : Kind := cs.foldl colKind st

/-- kind of the first column (`bk` for the empty list) -/
def firstKind (bk : Kind) : List Col → Kind
  | [] => bk
  | c :: _ => colKind bk c

def stepOK (c : KCfg) (p k : Nat) (st : Kind) : Col → Bool
  | .both => decide (k + 1 ≤ c.n)
  | .gapA => decide (k + 1 < c.n) && (st != .GB)
  | .gapB => decide (k ≤ c.n) && (st != .GA)
  | .skip => false

/-- score contribution of one column (substitution score minus the charge) -/
def stepSc (c : KCfg) (p k : Nat) (st : Kind) : Col → Int
  | .both => c.sc p k - (if st = .A then 0 else c.gpo)
  | .gapA => - (if c.termA p then c.tgpe else if st = .GA then c.gpe else c.gpo)
  | .gapB => - (if c.termB k then c.tgpe else if st = .GB then c.gpe else c.gpo)
  | .skip => 0

def walkOK (c : KCfg) : Nat → Nat → Kind → List Col → Bool
  | _, _, _, [] => true
  | p, k, st, col :: cs => stepOK c p k st col && walkOK c (stepP p col) (stepK k col) (colKind st col) cs

def walkSc (c : KCfg) : Nat → Nat → Kind → List Col → Int
  | _, _, _, [] => 0
  | p, k, st, col :: cs => stepSc c p k st col + walkSc c (stepP p col) (stepK k col) (colKind st col) cs

theorem stepF_some (c : KCfg) (p k : Nat) (st : Kind) (v : Int) (col : Col) :
    stepF c ⟨p, k, st, some v⟩ col =
      ⟨stepP p col, stepK k col, colKind st col,
        if stepOK c p k st col then some (v + stepSc c p k st col) else none⟩ := by
  cases col with
  | skip => simp [stepF, stepP, stepK, colKind, stepOK]
  | both =>
    simp only [stepF, stepP, stepK, colKind, stepOK, stepSc, decide_eq_true_eq]
    congr 1
    split
    · cases st <;> simp [alFrom] <;> omega
    · rfl
  | gapA =>
    simp only [stepF, stepP, stepK, colKind, stepOK, stepSc, Bool.and_eq_true, decide_eq_true_eq, bne_iff_ne, ne_eq]
    congr 1
    split
    · simp only [gapFrom, osub_some]
      congr 1
      cases st <;> simp <;> omega
    · rfl
  | gapB =>
    simp only [stepF, stepP, stepK, colKind, stepOK, stepSc, Bool.and_eq_true, decide_eq_true_eq, bne_iff_ne, ne_eq]
    congr 1
    split
    · simp only [gapFrom, osub_some]
      congr 1
      cases st <;> simp <;> omega
    · rfl

theorem stepF_none' (c : KCfg) (p k : Nat) (st : Kind) (col : Col) :
    stepF c ⟨p, k, st, none⟩ col = ⟨stepP p col, stepK k col, colKind st col, none⟩ := by
  cases col with
  | skip => simp [stepF, stepP, stepK, colKind]
  | both =>
    simp only [stepF, stepP, stepK, colKind]
    congr 1
    split
    · cases st <;> rfl
    · rfl
  | gapA =>
    simp only [stepF, stepP, stepK, colKind]
    congr 1
    split <;> rfl
  | gapB =>
    simp only [stepF, stepP, stepK, colKind]
    congr 1
    split <;> rfl

theorem consA_cons (col : Col) (cs : List Col) : consA (col :: cs) = stepP 0 col + consA cs := by
  cases col <;> simp [stepP] <;> omega
theorem consB_cons (col : Col) (cs : List Col) : consB (col :: cs) = stepK 0 col + consB cs := by
  cases col <;> simp [stepK] <;> omega
theorem stepP_eq (p : Nat) (col : Col) : stepP p col = p + stepP 0 col := by cases col <;> simp [stepP]
theorem stepK_eq (k : Nat) (col : Col) : stepK k col = k + stepK 0 col := by cases col <;> simp [stepK]

theorem runF_none (c : KCfg) (cs : List Col) (p k : Nat) (st : Kind) :
    runF c ⟨p, k, st, none⟩ cs = ⟨p + consA cs, k + consB cs, lastKind st cs, none⟩ := by
  induction cs generalizing p k st with
  | nil => simp [lastKind]
  | cons col cs ih =>
    rw [runF_cons, stepF_none', ih, consA_cons, consB_cons, stepP_eq p, stepK_eq k]
    simp only [lastKind, List.foldl_cons, Nat.add_assoc]

theorem runF_some (c : KCfg) (cs : List Col) (p k : Nat) (st : Kind) (v : Int) :
    runF c ⟨p, k, st, some v⟩ cs =
      ⟨p + consA cs, k + consB cs, lastKind st cs,
        if walkOK c p k st cs then some (v + walkSc c p k st cs) else none⟩ := by
  induction cs generalizing p k st v with
  | nil => simp [lastKind, walkOK, walkSc]
  | cons col cs ih =>
    rw [runF_cons, stepF_some]
    have e1 : stepP p col + consA cs = p + consA (col :: cs) := by rw [consA_cons, stepP_eq p]; omega
    have e2 : stepK k col + consB cs = k + consB (col :: cs) := by rw [consB_cons, stepK_eq k]; omega
    rw [← e1, ← e2]
    by_cases hok : stepOK c p k st col = true
    · rw [if_pos hok, ih]
      simp only [lastKind, List.foldl_cons, walkOK, walkSc, hok, Bool.true_and]
      congr 1
      split
      · congr 1; omega
      · rfl
    · rw [if_neg hok, runF_none]
      simp only [lastKind, List.foldl_cons, walkOK, hok, Bool.false_and]
      rfl

theorem lastKind_append (st : Kind) (xs ys : List Col) : lastKind st (xs ++ ys) = lastKind (lastKind st xs) ys := by
  simp [lastKind, List.foldl_append]

theorem walkOK_append (c : KCfg) (xs ys : List Col) (p k : Nat) (st : Kind) :
    walkOK c p k st (xs ++ ys) =
      (walkOK c p k st xs && walkOK c (p + consA xs) (k + consB xs) (lastKind st xs) ys) := by
  induction xs generalizing p k st with
  | nil => simp [walkOK, lastKind]
  | cons col xs ih =>
    simp only [List.cons_append, walkOK, ih, Bool.and_assoc, consA_cons, consB_cons, lastKind, List.foldl_cons]
    rw [stepP_eq p, stepK_eq k]
    simp only [Nat.add_assoc]

theorem walkSc_append (c : KCfg) (xs ys : List Col) (p k : Nat) (st : Kind) :
    walkSc c p k st (xs ++ ys) =
      walkSc c p k st xs + walkSc c (p + consA xs) (k + consB xs) (lastKind st xs) ys := by
  induction xs generalizing p k st with
  | nil => simp [walkSc, lastKind]
  | cons col xs ih =>
    simp only [List.cons_append, walkSc, ih, consA_cons, consB_cons, lastKind, List.foldl_cons]
    rw [stepP_eq p, stepK_eq k]
    simp only [Nat.add_assoc, Int.add_assoc]

end Kalign

namespace Kalign

theorem runF_p (c : KCfg) (s : PSt) (cs : List Col) : (runF c s cs).p = s.p + consA cs := by
  obtain ⟨p, k, st, v⟩ := s
  cases v with
  | none => rw [runF_none]
  | some v => rw [runF_some]
theorem runF_k (c : KCfg) (s : PSt) (cs : List Col) : (runF c s cs).k = s.k + consB cs := by
  obtain ⟨p, k, st, v⟩ := s
  cases v with
  | none => rw [runF_none]
  | some v => rw [runF_some]
theorem runF_st (c : KCfg) (s : PSt) (cs : List Col) : (runF c s cs).st = lastKind s.st cs := by
  obtain ⟨p, k, st, v⟩ := s
  cases v with
  | none => rw [runF_none]
  | some v => rw [runF_some]

theorem runF_eta (c : KCfg) (s : PSt) (cs : List Col) :
    runF c s cs = ⟨s.p + consA cs, s.k + consB cs, lastKind s.st cs, (runF c s cs).v⟩ := by
  rw [← runF_p, ← runF_k, ← runF_st]

end Kalign
