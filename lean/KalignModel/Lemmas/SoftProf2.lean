import KalignModel.Lemmas.ProfBuild2
/-!
# Entry-wise description of `make_profile_n`, `set_gap_penalties_n`, `update_n` on the diagonal — any carrier (slice AB, part 2)

The lemmas of `Lemmas/ProfBuild.lean` / `ProfBuild2.lean` (stated there for the exact carrier) with the carrier as a parameter; the
proofs are the same.  Namespace `Kalign.PG`.
-/
namespace Kalign.PG
variable {α : Type} [Score α]

theorem pget_def (p : Array α) (col e : Nat) : pget p col e = (p[64 * col + e]?).getD Score.zero := by
  simp [pget, Array.getD_eq_getD_getElem?]

theorem pget_append_left (p c : Array α) (col e : Nat) (h : 64 * col + e < p.size) :
    pget (p ++ c) col e = pget p col e := by
  rw [pget_def, pget_def, Array.getElem?_append, if_pos h]

theorem pget_append_right (p c : Array α) (n e : Nat) (hp : p.size = 64 * n) :
    pget (p ++ c) n e = c.getD e Score.zero := by
  rw [pget_def, Array.getElem?_append, if_neg (by omega), Array.getD_eq_getD_getElem?]
  congr 2; omega

/-! ### columns -/

theorem sentinelCol_size (ap : AlnParam α) : (sentinelCol ap).size = 64 := by simp [sentinelCol]

theorem sentinelCol_getD (ap : AlnParam α) (e : Nat) :
    (sentinelCol ap).getD e Score.zero =
      if e = 57 then Score.neg ap.tgpe else if e = 56 then Score.neg ap.gpe else if e = 55 then Score.neg ap.gpo
      else Score.zero := by
  unfold sentinelCol
  rw [getD_set!, getD_set!, getD_set!]
  simp only [Array.set!_eq_setIfInBounds, Array.size_setIfInBounds, Array.size_replicate]
  by_cases h57 : e = 57
  · simp [h57]
  · by_cases h56 : e = 56
    · simp [h56]
    · by_cases h55 : e = 55
      · simp [h55]
      · have a : ¬ (57 = e ∧ 57 < 64) := fun h => h57 h.1.symm
        have b : ¬ (56 = e ∧ 56 < 64) := fun h => h56 h.1.symm
        have c : ¬ (55 = e ∧ 55 < 64) := fun h => h55 h.1.symm
        rw [if_neg a, if_neg b, if_neg c, if_neg h57, if_neg h56, if_neg h55]
        simp [Array.getD_eq_getD_getElem?, Array.getElem?_replicate]
        split <;> rfl

theorem residueCol_size (ap : AlnParam α) (c : Nat) : (residueCol ap c).size = 64 := by
  unfold residueCol
  simp only []
  rw [size_set!', size_set!', size_set!', (foldl_set_spec (fun j => ap.sub c j) (List.range 23) _).1, size_set!']
  simp

theorem residueCol_getD (ap : AlnParam α) (c : Nat) (hc : c < 23) (e : Nat) (he : e < 64) :
    (residueCol ap c).getD e Score.zero =
      if e = 57 then Score.neg ap.tgpe else if e = 56 then Score.neg ap.gpe else if e = 55 then Score.neg ap.gpo
      else if 32 ≤ e ∧ e < 55 then ap.sub c (e - 32)
      else if e = c then Score.add (Score.zero : α) Score.one else Score.zero := by
  unfold residueCol
  simp only []
  have hsz := (foldl_set_spec (fun j => ap.sub c j) (List.range 23)
    ((Array.replicate 64 (Score.zero : α)).set! c (Score.add Score.zero Score.one))).1
  have hget := (foldl_set_spec (fun j => ap.sub c j) (List.range 23)
    ((Array.replicate 64 (Score.zero : α)).set! c (Score.add Score.zero Score.one))).2 e Score.zero
  have hs0 : ((Array.replicate 64 (Score.zero : α)).set! c (Score.add Score.zero Score.one)).size = 64 := by
    rw [size_set!']; simp
  rw [hs0] at hsz hget
  rw [getD_set!, getD_set!, getD_set!]
  simp only [size_set!']
  rw [hsz]
  by_cases h57 : e = 57
  · rw [if_pos ⟨h57.symm, by omega⟩, if_pos h57]
  · by_cases h56 : e = 56
    · rw [if_neg (fun h => h57 h.1.symm), if_pos ⟨h56.symm, by omega⟩, if_neg h57, if_pos h56]
    · by_cases h55 : e = 55
      · rw [if_neg (fun h => h57 h.1.symm), if_neg (fun h => h56 h.1.symm), if_pos ⟨h55.symm, by omega⟩, if_neg h57,
          if_neg h56, if_pos h55]
      · rw [if_neg (fun h => h57 h.1.symm), if_neg (fun h => h56 h.1.symm), if_neg (fun h => h55 h.1.symm), if_neg h57,
          if_neg h56, if_neg h55, hget]
        by_cases hr : 32 ≤ e ∧ e < 55
        · rw [if_pos hr, if_pos ⟨hr.1, List.mem_range.mpr (by omega), he⟩]
        · rw [if_neg hr, if_neg]
          · rw [getD_set!]
            by_cases hec : e = c
            · rw [if_pos ⟨hec.symm, by simp; omega⟩, if_pos hec]
            · rw [if_neg (fun h => hec h.1.symm), if_neg hec]
              simp [Array.getD_eq_getD_getElem?, Array.getElem?_replicate, he]
          · rintro ⟨h1, h2, _⟩
            have := List.mem_range.mp h2
            exact hr ⟨h1, by omega⟩

theorem addCols_size (x y : Array α) : (addCols x y).size = 64 := by simp [addCols]

theorem addCols_getD (x y : Array α) (e : Nat) (he : e < 64) :
    (addCols x y).getD e Score.zero = Score.add (x.getD e Score.zero) (y.getD e Score.zero) := by
  unfold addCols
  simp [Array.getD_eq_getD_getElem?, Array.getElem?_map, Array.getElem?_range, he]

theorem colOf?_spec (p : Array α) (col : Nat) (h : 64 * col + 64 ≤ p.size) :
    ∃ c, colOf? p col = some c ∧ c.size = 64 ∧ ∀ e, e < 64 → c.getD e Score.zero = pget p col e := by
  refine ⟨p.extract (64 * col) (64 * col + 64), by unfold colOf?; rw [if_pos h], by simp; omega, fun e he => ?_⟩
  rw [pget_def, Array.getD_eq_getD_getElem?, Array.getElem?_extract]
  rw [if_pos (by omega)]

/-! ### `make_profile_n` -/

theorem mp_fold (ap : AlnParam α) (l : List Nat) (init : Array α) (n : Nat) (hi : init.size = 64 * n) :
    (l.foldl (fun p c => p ++ residueCol ap c) init).size = 64 * (n + l.length) ∧
    (∀ col e, col < n → e < 64 → pget (l.foldl (fun p c => p ++ residueCol ap c) init) col e = pget init col e) ∧
    (∀ i (hi' : i < l.length) e, e < 64 →
      pget (l.foldl (fun p c => p ++ residueCol ap c) init) (n + i) e = (residueCol ap l[i]).getD e Score.zero) := by
  induction l generalizing init n with
  | nil => exact ⟨by simpa using hi, fun _ _ _ _ => rfl, fun i h => absurd h (by simp)⟩
  | cons c l ih =>
    have hs : (init ++ residueCol ap c).size = 64 * (n + 1) := by
      rw [Array.size_append, hi, residueCol_size]; omega
    obtain ⟨h1, h2, h3⟩ := ih (init ++ residueCol ap c) (n + 1) hs
    refine ⟨by rw [List.foldl_cons, h1, List.length_cons]; omega, ?_, ?_⟩
    · intro col e hc he
      rw [List.foldl_cons, h2 col e (by omega) he, pget_append_left _ _ _ _ (by omega)]
    · intro i hi' e he
      rw [List.foldl_cons]
      cases i with
      | zero =>
        rw [Nat.add_zero, h2 n e (by omega) he, pget_append_right _ _ n e hi]
        rfl
      | succ i =>
        have := h3 i (by simpa using hi') e he
        rw [show n + (i + 1) = n + 1 + i by omega, this]
        rfl

theorem makeProfile_spec (ap : AlnParam α) (seq : Array Nat) :
    (makeProfile ap seq).size = 64 * (seq.size + 2) ∧
    (∀ e, e < 64 → pget (makeProfile ap seq) 0 e = (sentinelCol ap).getD e Score.zero) ∧
    (∀ e, e < 64 → pget (makeProfile ap seq) (seq.size + 1) e = (sentinelCol ap).getD e Score.zero) ∧
    (∀ i, i < seq.size → ∀ e, e < 64 →
      pget (makeProfile ap seq) (i + 1) e = (residueCol ap (seq.getD i 0)).getD e Score.zero) := by
  unfold makeProfile
  rw [← Array.foldl_toList]
  obtain ⟨h1, h2, h3⟩ := mp_fold ap seq.toList (sentinelCol ap) 1 (by rw [sentinelCol_size])
  simp only [Array.length_toList] at h1 h3
  refine ⟨by rw [Array.size_append, h1, sentinelCol_size]; omega, ?_, ?_, ?_⟩
  · intro e he
    rw [pget_append_left _ _ _ _ (by omega), h2 0 e (by omega) he]
    rw [pget_def, Array.getD_eq_getD_getElem?, Nat.mul_zero, Nat.zero_add]
  · intro e he
    rw [pget_append_right _ _ (seq.size + 1) e (by rw [h1]; omega)]
  · intro i hi e he
    rw [pget_append_left _ _ _ _ (by omega), show i + 1 = 1 + i by omega, h3 i hi e he]
    congr 2
    simp [Array.getD_eq_getD_getElem?, hi]

/-! ### `set_gap_penalties_n` -/

def sgpStep (n : Nat) (p : Array α) (col : Nat) : Array α :=
  ((p.set! (64 * col + 27) (Score.mul (p.getD (64 * col + 55) Score.zero) (Score.ofNat n))).set! (64 * col + 28)
    (Score.mul (p.getD (64 * col + 56) Score.zero) (Score.ofNat n))).set! (64 * col + 29)
    (Score.mul (p.getD (64 * col + 57) Score.zero) (Score.ofNat n))

theorem sgpStep_spec (n : Nat) (p : Array α) (col : Nat) (hc : 64 * col + 64 ≤ p.size) :
    (sgpStep n p col).size = p.size ∧
    ∀ col' e, e < 64 → pget (sgpStep n p col) col' e =
      if col' = col ∧ (e = 27 ∨ e = 28 ∨ e = 29) then Score.mul (pget p col (e + 28)) (Score.ofNat n)
      else pget p col' e := by
  refine ⟨by simp [sgpStep], fun col' e he => ?_⟩
  unfold sgpStep pget
  rw [getD_set!, getD_set!, getD_set!]
  simp only [size_set!']
  by_cases h29 : col' = col ∧ e = 29
  · obtain ⟨rfl, rfl⟩ := h29
    rw [if_pos ⟨rfl, by omega⟩, if_pos ⟨rfl, by simp⟩]
  · rw [if_neg (fun h => h29 ⟨by omega, by omega⟩)]
    by_cases h28 : col' = col ∧ e = 28
    · obtain ⟨rfl, rfl⟩ := h28
      rw [if_pos ⟨rfl, by omega⟩, if_pos ⟨rfl, by simp⟩]
    · rw [if_neg (fun h => h28 ⟨by omega, by omega⟩)]
      by_cases h27 : col' = col ∧ e = 27
      · obtain ⟨rfl, rfl⟩ := h27
        rw [if_pos ⟨rfl, by omega⟩, if_pos ⟨rfl, by simp⟩]
      · rw [if_neg (fun h => h27 ⟨by omega, by omega⟩), if_neg]
        rintro ⟨rfl, h | h | h⟩
        · exact h27 ⟨rfl, h⟩
        · exact h28 ⟨rfl, h⟩
        · exact h29 ⟨rfl, h⟩

theorem sgp_fold (n : Nat) (L : List Nat) (p : Array α) (hL : ∀ c ∈ L, 64 * c + 64 ≤ p.size) :
    (L.foldl (sgpStep n) p).size = p.size ∧
    ∀ col e, e < 64 → pget (L.foldl (sgpStep n) p) col e =
      if col ∈ L ∧ (e = 27 ∨ e = 28 ∨ e = 29) then Score.mul (pget p col (e + 28)) (Score.ofNat n)
      else pget p col e := by
  induction L generalizing p with
  | nil => simp
  | cons c L ih =>
    obtain ⟨hs, hg⟩ := sgpStep_spec n p c (hL c List.mem_cons_self)
    obtain ⟨h1, h2⟩ := ih (sgpStep n p c) (fun c' hc' => by rw [hs]; exact hL c' (List.mem_cons_of_mem _ hc'))
    refine ⟨by rw [List.foldl_cons, h1, hs], fun col e he => ?_⟩
    rw [List.foldl_cons, h2 col e he]
    by_cases hin : col ∈ L ∧ (e = 27 ∨ e = 28 ∨ e = 29)
    · rw [if_pos hin, if_pos ⟨List.mem_cons_of_mem _ hin.1, hin.2⟩, hg col (e + 28) (by omega), if_neg]
      rintro ⟨_, h | h | h⟩ <;> omega
    · rw [if_neg hin, hg col e he]
      by_cases hc : col = c ∧ (e = 27 ∨ e = 28 ∨ e = 29)
      · rw [if_pos hc, if_pos ⟨by rw [hc.1]; exact List.mem_cons_self, hc.2⟩, hc.1]
      · rw [if_neg hc, if_neg]
        rintro ⟨hm, he'⟩
        rcases List.mem_cons.mp hm with h | h
        · exact hc ⟨h, he'⟩
        · exact hin ⟨h, he'⟩

theorem setGapPenalties_spec (p : Array α) (n ncol : Nat) (hp : p.size = 64 * ncol) :
    (setGapPenalties p n).size = p.size ∧
    ∀ col e, col < ncol → e < 64 → pget (setGapPenalties p n) col e =
      if e = 27 ∨ e = 28 ∨ e = 29 then Score.mul (pget p col (e + 28)) (Score.ofNat n) else pget p col e := by
  have hfold : setGapPenalties p n = (List.range ncol).foldl (sgpStep n) p := by
    unfold setGapPenalties
    simp only
    rw [hp, Nat.mul_div_cancel_left _ (by decide : 0 < 64)]
    rfl
  obtain ⟨h1, h2⟩ := sgp_fold n (List.range ncol) p (fun c hc => by have := List.mem_range.mp hc; omega)
  rw [hfold]
  refine ⟨h1, fun col e hc he => ?_⟩
  rw [h2 col e he]
  by_cases h : e = 27 ∨ e = 28 ∨ e = 29
  · rw [if_pos ⟨List.mem_range.mpr hc, h⟩, if_pos h]
  · rw [if_neg (fun hh => h hh.2), if_neg h]


theorem updateStep_zero (ap : AlnParam α) (pa pb : Array α) (sa sb : Nat) (st : UpdState α) :
    updateStep ap pa pb sa sb st 0 = (colOf? pa st.pa).bind fun ca => (colOf? pb st.pb).bind fun cb =>
      some { pa := st.pa + 1, pb := st.pb + 1, out := st.out ++ addCols ca cb } := by
  unfold updateStep
  simp [bit]

/-- entry-wise sum of the first `j` columns -/
def SumUpTo (pa pb out : Array α) (j : Nat) : Prop :=
  out.size = 64 * j ∧ ∀ col e, col < j → e < 64 → pget out col e = Score.add (pget pa col e) (pget pb col e)

theorem sumUpTo_snoc (pa pb out : Array α) (j : Nat) (h : SumUpTo pa pb out j)
    (ca cb : Array α) (hca : ca.size = 64) (hcb : cb.size = 64)
    (ha : ∀ e, e < 64 → ca.getD e Score.zero = pget pa j e) (hb : ∀ e, e < 64 → cb.getD e Score.zero = pget pb j e) :
    SumUpTo pa pb (out ++ addCols ca cb) (j + 1) := by
  obtain ⟨hs, hg⟩ := h
  refine ⟨by rw [Array.size_append, hs, addCols_size]; omega, fun col e hc he => ?_⟩
  by_cases hlt : col < j
  · rw [pget_append_left _ _ _ _ (by omega), hg col e hlt he]
  · have : col = j := by omega
    subst this
    rw [pget_append_right _ _ col e hs, addCols_getD _ _ e he, ha e he, hb e he]

theorem updateN_fold (ap : AlnParam α) (pa pb : Array α) (sa sb ncol : Nat)
    (hpa : pa.size = 64 * ncol) (hpb : pb.size = 64 * ncol) :
    ∀ n j out, j + n ≤ ncol → SumUpTo pa pb out j →
      ∃ out', (List.replicate n 0).foldlM (updateStep ap pa pb sa sb) { pa := j, pb := j, out := out } =
        some { pa := j + n, pb := j + n, out := out' } ∧ SumUpTo pa pb out' (j + n) := by
  intro n
  induction n with
  | zero => intro j out _ h; exact ⟨out, rfl, h⟩
  | succ n ih =>
    intro j out hj h
    obtain ⟨ca, hca1, hca2, hca3⟩ := colOf?_spec pa j (by omega)
    obtain ⟨cb, hcb1, hcb2, hcb3⟩ := colOf?_spec pb j (by omega)
    have hstep : updateStep ap pa pb sa sb { pa := j, pb := j, out := out } 0 =
        some { pa := j + 1, pb := j + 1, out := out ++ addCols ca cb } := by
      rw [updateStep_zero]; simp only [hca1, hcb1, Option.bind]
    obtain ⟨out', h1, h2⟩ := ih (j + 1) (out ++ addCols ca cb) (by omega)
      (sumUpTo_snoc pa pb out j h ca cb hca2 hcb2 hca3 hcb3)
    refine ⟨out', ?_, by rw [show j + (n + 1) = j + 1 + n by omega]; exact h2⟩
    rw [List.replicate_succ, List.foldlM_cons, hstep]
    simp only [Option.bind_eq_bind, Option.bind]
    rw [h1, show j + (n + 1) = j + 1 + n by omega]

/-- **`update_n` along the diagonal**: the new profile is the entry-wise sum -/
theorem updateN_diag (ap : AlnParam α) (pa pb : Array α) (sa sb len : Nat)
    (hpa : pa.size = 64 * (len + 2)) (hpb : pb.size = 64 * (len + 2)) :
    ∃ p, updateN ap pa pb (List.replicate len 0) sa sb = some p ∧ p.size = 64 * (len + 2) ∧
      ∀ col e, col < len + 2 → e < 64 → pget p col e = Score.add (pget pa col e) (pget pb col e) := by
  obtain ⟨c0a, h0a1, h0a2, h0a3⟩ := colOf?_spec pa 0 (by omega)
  obtain ⟨c0b, h0b1, h0b2, h0b3⟩ := colOf?_spec pb 0 (by omega)
  have hinit : SumUpTo pa pb (addCols c0a c0b) 1 := by
    have := sumUpTo_snoc pa pb #[] 0 ⟨rfl, fun _ _ h => absurd h (by omega)⟩ c0a c0b h0a2 h0b2 h0a3 h0b3
    simpa using this
  obtain ⟨out', hf, hsum⟩ := updateN_fold ap pa pb sa sb (len + 2) hpa hpb len 1 _ (by omega) hinit
  obtain ⟨cla, hla1, hla2, hla3⟩ := colOf?_spec pa (1 + len) (by omega)
  obtain ⟨clb, hlb1, hlb2, hlb3⟩ := colOf?_spec pb (1 + len) (by omega)
  have hfin := sumUpTo_snoc pa pb out' (1 + len) hsum cla clb hla2 hlb2 hla3 hlb3
  refine ⟨out' ++ addCols cla clb, ?_, by rw [hfin.1]; omega, fun col e hc he => hfin.2 col e (by omega) he⟩
  unfold updateN
  rw [takeWhile_replicate_zero]
  simp only [h0a1, h0b1, Option.bind_eq_bind, Option.bind, hf, hla1, hlb1]
  rfl


end Kalign.PG
