import KalignModel.Lemmas.C12SoftVal
/-!
# The length-bias term of `d_estimation` on `SoftF32`, two-sided (C12, slice AA)

`lenTermS la lb = (float)min(10000, s) / (float)10000` takes 10001 values `lenQ j`, `j = 0 … 10000`.  Each is checked by kernel
evaluation of the software division (about one minute for all): it is non-negative, finite, and within the grid interval
`[lenLo j, lenHi j]·2⁻²⁰` around `j / 10000` (`lenLo j = ⌊j·2²⁰/10000⌋ − 1`, `lenHi j = ⌊j·2²⁰/10000⌋ + 2`).
-/
set_option exponentiation.threshold 512
namespace Kalign
open SoftF32

def lenLo (j : Nat) : Nat := j * 1048576 / 10000 - 1
def lenHi (j : Nat) : Nat := j * 1048576 / 10000 + 2
/-- `(float)j / (float)10000` -/
def lenQ (j : Nat) : SoftF32 := SoftF32.div (SoftF32.ofNat j) (SoftF32.ofNat 10000)

def lenOk2 (j : Nat) : Bool :=
  !(lenQ j).sign && decide ((lenQ j).mag < 2139095040) && decide (lenLo j * 2 ^ 129 ≤ magVal (lenQ j).mag) &&
    decide (magVal (lenQ j).mag ≤ lenHi j * 2 ^ 129)

set_option maxRecDepth 100000 in
theorem lenOk2_all : (List.range 10001).all lenOk2 = true := by decide +kernel

/-- **`lenLo j·2⁻²⁰ ≤ (float)j / 10000.0F ≤ lenHi j·2⁻²⁰`**, non-negative and finite, for every `j ≤ 10000` -/
theorem lenQ_spec {j : Nat} (hj : j ≤ 10000) :
    (lenQ j).sign = false ∧ (lenQ j).mag < 2139095040 ∧ lenLo j * 2 ^ 129 ≤ magVal (lenQ j).mag ∧
      magVal (lenQ j).mag ≤ lenHi j * 2 ^ 129 := by
  have h := List.all_eq_true.1 lenOk2_all j (List.mem_range.2 (by omega))
  unfold lenOk2 at h
  simp only [Bool.and_eq_true, Bool.not_eq_true', decide_eq_true_eq] at h
  exact ⟨h.1.1.1, h.1.1.2, h.1.2, h.2⟩

theorem lenTermS_eq (la lb : Nat) : lenTermS la lb = lenQ (min 10000 ((la + lb) / 2)) := rfl

end Kalign
