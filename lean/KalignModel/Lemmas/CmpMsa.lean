import KalignModel.Lemmas.Cmp
import KalignModel.Lemmas.Sort
import KalignModel.Lemmas.Strncmp
/-! # Lemmas on `kalign_msa_compare`: the double loop, the sort, and the specification `rel` -/
namespace Kalign
open List

/-! ## D1. sums of counters -/

def statsSum (l : List CmpStats) : CmpStats := l.foldr (· + ·) 0

def identTot (c : CmpStats) : Nat := c.identAligned + c.identGap
def refTot (c : CmpStats) : Nat := c.refAligned + c.refGap

theorem identTot_add (a b : CmpStats) : identTot (a + b) = identTot a + identTot b := by
  show (a.identAligned + b.identAligned) + (a.identGap + b.identGap) = _
  unfold identTot; omega
theorem refTot_add (a b : CmpStats) : refTot (a + b) = refTot a + refTot b := by
  show (a.refAligned + b.refAligned) + (a.refGap + b.refGap) = _
  unfold refTot; omega
theorem identTot_zero : identTot 0 = 0 := rfl
theorem refTot_zero : refTot 0 = 0 := rfl

theorem identTot_statsSum (l : List CmpStats) : identTot (statsSum l) = (l.map identTot).sum := by
  induction l with
  | nil => rfl
  | cons a l ih => simp only [statsSum, foldr_cons, map_cons, sum_cons] at ih ⊢; rw [identTot_add, ih]
theorem refTot_statsSum (l : List CmpStats) : refTot (statsSum l) = (l.map refTot).sum := by
  induction l with
  | nil => rfl
  | cons a l ih => simp only [statsSum, foldr_cons, map_cons, sum_cons] at ih ⊢; rw [refTot_add, ih]

/-- a pair of rows with the same name: one from the reference, one from the test alignment -/
abbrev ZRow := NRow × NRow

/-- what the double loop is supposed to add up for rows `z` (index i) and `w` (index j) -/
def zStats (z w : ZRow) : CmpStats := pairStats z.1.name w.1.name z.1.row w.1.row z.2.row w.2.row

def pairStatsSum : List ZRow → CmpStats
  | [] => 0
  | z :: Z => statsSum (Z.map (zStats z)) + pairStatsSum Z

/-- side conditions on the zipped, sorted alignments -/
structure ZOK (Z : List ZRow) (wR wT : Nat) : Prop where
  name : ∀ z ∈ Z, z.1.name = z.2.name
  nres : ∀ z ∈ Z, nres z.2.row = nres z.1.row
  widthR : ∀ z ∈ Z, z.1.row.length = wR
  widthT : ∀ z ∈ Z, z.2.row.length = wT
  nodup : (Z.map (·.1.name)).Nodup

theorem ZOK.tail {z : ZRow} {Z : List ZRow} {wR wT : Nat} (h : ZOK (z :: Z) wR wT) : ZOK Z wR wT where
  name := fun w hw => h.name w (mem_cons_of_mem _ hw)
  nres := fun w hw => h.nres w (mem_cons_of_mem _ hw)
  widthR := fun w hw => h.widthR w (mem_cons_of_mem _ hw)
  widthT := fun w hw => h.widthT w (mem_cons_of_mem _ hw)
  nodup := by have := h.nodup; simp only [map_cons, nodup_cons] at this; exact this.2

theorem ZOK.head_ne {z : ZRow} {Z : List ZRow} {wR wT : Nat} (h : ZOK (z :: Z) wR wT) :
    ∀ w ∈ Z, z.1.name ≠ w.1.name := by
  intro w hw e
  have := h.nodup
  simp only [map_cons, nodup_cons, mem_map] at this
  exact this.1 ⟨w, hw, e.symm⟩

theorem cmpInner_spec (z : ZRow) (Z : List ZRow) (wR wT : Nat) (h : ZOK (z :: Z) wR wT) :
    ∀ (Z' : List ZRow), (∀ w ∈ Z', w ∈ Z) →
      cmpInner z.1.row z.2.row (Z'.map (·.1.row)) (Z'.map (·.2.row)) = some (statsSum (Z'.map (zStats z))) := by
  intro Z'
  induction Z' with
  | nil => intro _; rfl
  | cons w Z' ih =>
    intro hsub
    have hw : w ∈ Z := hsub w mem_cons_self
    have hw' : w ∈ z :: Z := mem_cons_of_mem _ hw
    have hz' : z ∈ z :: Z := mem_cons_self
    simp only [map_cons, cmpInner]
    rw [ih (fun x hx => hsub x (mem_cons_of_mem _ hx))]
    rw [comparePair_spec z.1.name w.1.name (h.head_ne w hw) z.1.row w.1.row z.2.row w.2.row
      ((h.widthR z hz').trans (h.widthR w hw').symm) ((h.widthT z hz').trans (h.widthT w hw').symm)
      (h.nres z hz') (h.nres w hw')]
    rfl

theorem msaCompareCounts_spec (Z : List ZRow) (wR wT : Nat) (h : ZOK Z wR wT) :
    msaCompareCounts (Z.map (·.1.row)) (Z.map (·.2.row)) = some (pairStatsSum Z) := by
  induction Z with
  | nil => rfl
  | cons z Z ih =>
    cases Z with
    | nil => rfl
    | cons z' Z =>
      have ih' := ih h.tail
      have hin := cmpInner_spec z (z' :: Z) wR wT h (z' :: Z) (fun w hw => hw)
      simp only [map_cons] at ih' hin ⊢
      simp only [msaCompareCounts, hin, ih']
      rfl

/-! ## D2. totals of one pair -/

theorem countP_isSome_add_isNone (l : List (Option Nat)) :
    l.countP (·.isSome) + l.countP (·.isNone) = l.length := by
  induction l with
  | nil => rfl
  | cons a l ih => cases a <;> simp <;> omega

/-- agreement of the partner lists of the ordered pair (z, w) in the two alignments -/
def G (z w : ZRow) : Nat :=
  agree (fun _ => true) (partners z.1.row w.1.row) (partners z.2.row w.2.row)

theorem identTot_zStats (z w : ZRow) (hne : z.1.name ≠ w.1.name) : identTot (zStats z w) = G z w + G w z := by
  unfold zStats
  rw [pairStats_eq _ _ hne]
  unfold identTot G
  simp only
  rw [← agree_split, ← agree_split]; omega

theorem refTot_zStats (z w : ZRow) (hne : z.1.name ≠ w.1.name) :
    refTot (zStats z w) = nres z.1.row + nres w.1.row := by
  unfold zStats
  rw [pairStats_eq _ _ hne]
  unfold refTot
  simp only
  have h1 := countP_isSome_add_isNone (partners z.1.row w.1.row)
  have h2 := countP_isSome_add_isNone (partners w.1.row z.1.row)
  rw [length_partners] at h1 h2
  omega

/-! ## D3/D4. sums over pairs -/

def pairSum {β : Type} (F : β → β → Nat) : List β → Nat
  | [] => 0
  | z :: Z => (Z.map (F z)).sum + pairSum F Z

/-- the sum over ordered pairs of differently named rows -/
def dsum (F : ZRow → ZRow → Nat) (Z : List ZRow) : Nat :=
  (Z.map fun z => (Z.map fun w => if z.1.name ≠ w.1.name then F z w else 0).sum).sum

theorem sum_map_add {β : Type} (f g : β → Nat) (l : List β) :
    (l.map fun x => f x + g x).sum = (l.map f).sum + (l.map g).sum := by
  induction l with
  | nil => rfl
  | cons a l ih => simp only [map_cons, sum_cons, ih]; omega

theorem identTot_pairStatsSum (Z : List ZRow) (hnd : (Z.map (·.1.name)).Nodup) :
    identTot (pairStatsSum Z) = pairSum (fun z w => G z w + G w z) Z := by
  induction Z with
  | nil => rfl
  | cons z Z ih =>
    simp only [map_cons, nodup_cons, mem_map] at hnd
    simp only [pairStatsSum, pairSum, identTot_add, identTot_statsSum, map_map, ih hnd.2]
    congr 2
    apply map_congr_left
    intro w hw
    exact identTot_zStats z w (fun e => hnd.1 ⟨w, hw, e.symm⟩)

theorem refTot_pairStatsSum (Z : List ZRow) (hnd : (Z.map (·.1.name)).Nodup) :
    refTot (pairStatsSum Z) = pairSum (fun z w => nres z.1.row + nres w.1.row) Z := by
  induction Z with
  | nil => rfl
  | cons z Z ih =>
    simp only [map_cons, nodup_cons, mem_map] at hnd
    simp only [pairStatsSum, pairSum, refTot_add, refTot_statsSum, map_map, ih hnd.2]
    congr 2
    apply map_congr_left
    intro w hw
    exact refTot_zStats z w (fun e => hnd.1 ⟨w, hw, e.symm⟩)

theorem dsum_eq_pairSum (F : ZRow → ZRow → Nat) (Z : List ZRow) (hnd : (Z.map (·.1.name)).Nodup) :
    dsum F Z = pairSum (fun z w => F z w + F w z) Z := by
  induction Z with
  | nil => rfl
  | cons z Z ih =>
    simp only [map_cons, nodup_cons, mem_map] at hnd
    have hne : ∀ w ∈ Z, z.1.name ≠ w.1.name := fun w hw e => hnd.1 ⟨w, hw, e.symm⟩
    have ih' := ih hnd.2
    unfold dsum at ih' ⊢
    simp only [map_cons, sum_cons, pairSum, ne_eq, not_true_eq_false, if_false, Nat.zero_add]
    have h1 : (Z.map fun w => if ¬ z.1.name = w.1.name then F z w else 0) = Z.map (F z) := by
      apply map_congr_left; intro w hw; simp [hne w hw]
    have h2 : (Z.map fun x => (if ¬ x.1.name = z.1.name then F x z else 0) +
        (Z.map fun w => if ¬ x.1.name = w.1.name then F x w else 0).sum)
        = Z.map fun x => F x z + (Z.map fun w => if ¬ x.1.name = w.1.name then F x w else 0).sum := by
      apply map_congr_left; intro w hw
      have : ¬ w.1.name = z.1.name := fun e => hne w hw e.symm
      simp [this]
    rw [h1, h2, sum_map_add, sum_map_add]
    simp only [ne_eq] at ih'
    rw [ih']
    omega

/-! ## D5. the specification `rel` as sums over pairs -/

theorem mem_rel {A : List NRow} {e : Rel} :
    e ∈ rel A ↔ ∃ s ∈ A, ∃ t ∈ A, s.name ≠ t.name ∧ e ∈ relPair s t := by
  unfold rel
  simp only [mem_flatMap]
  constructor
  · rintro ⟨s, hs, t, ht, he⟩
    by_cases hne : s.name ≠ t.name
    · rw [if_pos hne] at he; exact ⟨s, hs, t, ht, hne, he⟩
    · rw [if_neg hne] at he; cases he
  · rintro ⟨s, hs, t, ht, hne, he⟩
    exact ⟨s, hs, t, ht, by rw [if_pos hne]; exact he⟩

theorem length_relPair (s t : NRow) : (relPair s t).length = nres s.row := by
  rw [relPair_eq, length_map, length_zipIdx, length_partners]

theorem eq_of_name_eq {A : List NRow} (hnd : (A.map (·.name)).Nodup) {a b : NRow}
    (ha : a ∈ A) (hb : b ∈ A) (h : a.name = b.name) : a = b := by
  induction A with
  | nil => cases ha
  | cons x A ih =>
    simp only [map_cons, nodup_cons, mem_map] at hnd
    rcases mem_cons.mp ha with rfl | ha' <;> rcases mem_cons.mp hb with rfl | hb'
    · rfl
    · exact absurd ⟨b, hb', h.symm⟩ hnd.1
    · exact absurd ⟨a, ha', h⟩ hnd.1
    · exact ih hnd.2 ha' hb'

theorem length_rel (Z : List ZRow) :
    (rel (Z.map (·.1))).length = dsum (fun z _ => nres z.1.row) Z := by
  unfold rel dsum
  rw [length_flatMap, map_map]
  congr 1
  apply map_congr_left
  intro z _
  simp only [Function.comp_def]
  rw [length_flatMap, map_map]
  congr 1
  apply map_congr_left
  intro w _
  simp only [Function.comp_def]
  by_cases h : z.1.name ≠ w.1.name
  · rw [if_pos h, if_pos h, length_relPair]
  · rw [if_neg h, if_neg h]; rfl

theorem filter_rel_length (Z : List ZRow) (hname : ∀ z ∈ Z, z.1.name = z.2.name)
    (hnd : (Z.map (·.1.name)).Nodup) :
    ((rel (Z.map (·.1))).filter fun e => decide (e ∈ rel (Z.map (·.2)))).length = dsum G Z := by
  have hnd2 : ((Z.map (·.2)).map (·.name)).Nodup := by
    rw [map_map]
    have : Z.map ((·.name) ∘ (·.2)) = Z.map (·.1.name) := by
      apply map_congr_left; intro z hz; exact (hname z hz).symm
    rw [this]; exact hnd
  unfold dsum
  conv => lhs; unfold rel
  rw [filter_flatMap, length_flatMap, map_map]
  congr 1
  apply map_congr_left
  intro z hz
  simp only [Function.comp_def]
  rw [filter_flatMap, length_flatMap, map_map]
  congr 1
  apply map_congr_left
  intro w hw
  simp only [Function.comp_def]
  by_cases h : z.1.name ≠ w.1.name
  · rw [if_pos h, if_pos h]
    have h2 : z.2.name ≠ w.2.name := by rw [← hname z hz, ← hname w hw]; exact h
    have := filter_relPair_mem_length (fun _ => true) z.1 w.1 z.2 w.2 (hname z hz).symm (hname w hw).symm
    simp only [Bool.and_true] at this
    unfold G
    rw [← this]
    congr 1
    apply filter_congr
    intro e he
    have htag := mem_relPair_tags he
    have : e ∈ rel (Z.map (·.2)) ↔ e ∈ relPair z.2 w.2 := by
      constructor
      · intro hm
        obtain ⟨s', hs', t', ht', _, he'⟩ := mem_rel.mp hm
        have htag' := mem_relPair_tags he'
        have hz2 : z.2 ∈ Z.map (·.2) := mem_map_of_mem hz
        have hw2 : w.2 ∈ Z.map (·.2) := mem_map_of_mem hw
        have e1 : s' = z.2 := eq_of_name_eq hnd2 hs' hz2 (by rw [← htag'.1, htag.1, hname z hz])
        have e2 : t' = w.2 := eq_of_name_eq hnd2 ht' hw2 (by rw [← htag'.2, htag.2, hname w hw])
        rw [← e1, ← e2]; exact he'
      · intro hm
        exact mem_rel.mpr ⟨z.2, mem_map_of_mem hz, w.2, mem_map_of_mem hw, h2, hm⟩
    exact decide_eq_decide.mpr this
  · rw [if_neg h, if_neg h]; rfl

/-- the model's score of the zipped, sorted alignments is the specification's -/
theorem scoreQ_pairStatsSum (Z : List ZRow) (hname : ∀ z ∈ Z, z.1.name = z.2.name)
    (hnd : (Z.map (·.1.name)).Nodup) :
    scoreQ (pairStatsSum Z) = scoreSpec (Z.map (·.1)) (Z.map (·.2)) := by
  unfold scoreQ scoreSpec
  have h1 := identTot_pairStatsSum Z hnd
  have h2 := refTot_pairStatsSum Z hnd
  unfold identTot at h1
  unfold refTot at h2
  rw [h1, h2, filter_rel_length Z hname hnd, length_rel, dsum_eq_pairSum G Z hnd,
    dsum_eq_pairSum (fun z _ => nres z.1.row) Z hnd]

/-! ## E7. the specification does not depend on the order of the rows -/

theorem flatMap_perm_left {β γ : Type} (l : List β) {f g : β → List γ} (h : ∀ a ∈ l, (f a).Perm (g a)) :
    (l.flatMap f).Perm (l.flatMap g) := by
  induction l with
  | nil => simp
  | cons a l ih =>
    simp only [flatMap_cons]
    exact (h a mem_cons_self).append (ih fun b hb => h b (mem_cons_of_mem _ hb))

theorem rel_perm {A A' : List NRow} (hp : A.Perm A') : (rel A).Perm (rel A') := by
  unfold rel
  refine (Perm.flatMap_right _ hp).trans ?_
  apply flatMap_perm_left
  intro s _
  exact Perm.flatMap_right _ hp

theorem scoreSpec_perm {R R' T T' : List NRow} (hR : R.Perm R') (hT : T.Perm T') :
    scoreSpec R T = scoreSpec R' T' := by
  unfold scoreSpec
  have h1 := (rel_perm hR).length_eq
  have hmem : ∀ e, decide (e ∈ rel T) = decide (e ∈ rel T') := by
    intro e; simp only [(rel_perm hT).mem_iff]
  have h2 : ((rel R).filter fun e => decide (e ∈ rel T)).length = ((rel R').filter fun e => decide (e ∈ rel T')).length := by
    rw [((rel_perm hR).filter _).length_eq]
    congr 1
    apply filter_congr
    intro e _
    exact hmem e
  rw [h1, h2]

end Kalign
