import KalignModel.Lemmas.CmpSort
/-! # all-gap columns do not change the partner relation; symmetry of `compare_pair` -/
namespace Kalign
open List

theorem shiftBy_zero : shiftBy 0 = id := by funext o; cases o <;> simp [shiftBy]

theorem length_deflate_eq (m : List Bool) (s t : Row) (h : s.length = t.length) :
    (deflate m s).length = (deflate m t).length := by
  induction m generalizing s t with
  | nil => simpa [deflate] using h
  | cons b m ih =>
    cases s with
    | nil =>
      cases t with
      | nil => rfl
      | cons _ _ => simp at h
    | cons a s =>
      cases t with
      | nil => simp at h
      | cons c t =>
        have h' : s.length = t.length := by simpa using h
        cases b <;> simp [deflate, ih s t h']

theorem partners_deflate (m : List Bool) (s t : Row) (h : s.length = t.length)
    (hs : gapsAt m s = true) (ht : gapsAt m t = true) :
    partners (deflate m s) (deflate m t) = partners s t := by
  induction m generalizing s t with
  | nil => simp [deflate]
  | cons b m ih =>
    cases s with
    | nil =>
      cases t with
      | nil => cases b <;> rfl
      | cons _ _ => simp at h
    | cons a s =>
      cases t with
      | nil => simp at h
      | cons c t =>
        have h' : s.length = t.length := by simpa using h
        cases b with
        | true =>
          simp only [gapsAt, Bool.and_eq_true, Bool.not_eq_true'] at hs ht
          simp only [deflate]
          rw [ih s t h' hs.2 ht.2, partners_cons]
          simp [hs.1, ht.1, shiftBy_zero]
        | false =>
          simp only [gapsAt] at hs ht
          simp only [deflate]
          rw [partners_cons, partners_cons, ih s t h' hs ht]

theorem residuesOf_deflate (m : List Bool) (r : Row) (h : gapsAt m r = true) :
    residuesOf (deflate m r) = residuesOf r := by
  induction m generalizing r with
  | nil => simp [deflate]
  | cons b m ih =>
    cases r with
    | nil => cases b <;> rfl
    | cons a r =>
      cases b with
      | true =>
        simp only [gapsAt, Bool.and_eq_true, Bool.not_eq_true'] at h
        simp only [deflate, residuesOf, filter_cons, h.1]
        exact ih r h.2
      | false =>
        simp only [gapsAt] at h
        simp only [deflate, residuesOf, filter_cons]
        have := ih r h
        unfold residuesOf at this
        rw [this]

theorem pairSum_congr {β : Type} {F F' : β → β → Nat} (Z : List β)
    (h : ∀ z ∈ Z, ∀ w ∈ Z, F z w = F' z w) : pairSum F Z = pairSum F' Z := by
  induction Z with
  | nil => rfl
  | cons z Z ih =>
    simp only [pairSum]
    rw [ih (fun a ha b hb => h a (mem_cons_of_mem _ ha) b (mem_cons_of_mem _ hb))]
    congr 1
    congr 1
    apply map_congr_left
    intro w hw
    exact h z mem_cons_self w (mem_cons_of_mem _ hw)

theorem agree_true_self (l : List (Option Nat)) : agree (fun _ => true) l l = l.length := by
  rw [agree_self]; simp

/-- same up to all-gap columns and row order ⇒ the same named sequences -/
theorem namedSeqs_perm_of_sameModAllGap {R T : List NRow} (h : SameModAllGap R T) :
    (namedSeqs R).Perm (namedSeqs T) := by
  obtain ⟨mR, mT, gR, gT, hp⟩ := h
  have e1 : namedSeqs R = (R.map fun x => (x.name, deflate mR x.row)).map fun p => (p.1, residuesOf p.2) := by
    unfold namedSeqs
    rw [map_map]
    apply map_congr_left
    intro x hx
    simp [residuesOf_deflate mR x.row (gR x hx)]
  have e2 : namedSeqs T = (T.map fun x => (x.name, deflate mT x.row)).map fun p => (p.1, residuesOf p.2) := by
    unfold namedSeqs
    rw [map_map]
    apply map_congr_left
    intro x hx
    simp [residuesOf_deflate mT x.row (gT x hx)]
  rw [e1, e2]
  exact hp.map _

/-- the heart of `score_100_of_same_mod_allgap` -/
theorem identTot_eq_refTot_of_sameModAllGap (R T : List NRow) (wR wT : Nat) (hok : NamesOK R)
    (h : SameModAllGap R T) (Z : List ZRow) (z1 : Z.map (·.1) = sortMsa R) (z2 : Z.map (·.2) = sortMsa T)
    (hZ : ZOK Z wR wT) : identTot (pairStatsSum Z) = refTot (pairStatsSum Z) := by
  have hsame := namedSeqs_perm_of_sameModAllGap h
  have hokT := namesOK_of_namedSeqs_perm hok hsame
  obtain ⟨mR, mT, gR, gT, hp⟩ := h
  rw [identTot_pairStatsSum Z hZ.nodup, refTot_pairStatsSum Z hZ.nodup]
  apply pairSum_congr
  have hmemR : ∀ z ∈ Z, z.1 ∈ R := fun z hz =>
    (sortMsa_perm_self R).mem_iff.mp (by rw [← z1]; exact mem_map_of_mem (f := (·.1)) hz)
  have hmemT : ∀ z ∈ Z, z.2 ∈ T := fun z hz =>
    (sortMsa_perm_self T).mem_iff.mp (by rw [← z2]; exact mem_map_of_mem (f := (·.2)) hz)
  have hdef : ∀ z ∈ Z, deflate mR z.1.row = deflate mT z.2.row := by
    intro z hz
    have hm : (z.1.name, deflate mR z.1.row) ∈ T.map fun y => (y.name, deflate mT y.row) :=
      hp.mem_iff.mp (mem_map_of_mem (f := fun x : NRow => (x.name, deflate mR x.row)) (hmemR z hz))
    obtain ⟨y, hy, e⟩ := mem_map.mp hm
    have en : y.name = z.2.name := (congrArg Prod.fst e).trans (hZ.name z hz)
    have : y = z.2 := eq_of_nodup_map hokT.names_nodup hy (hmemT z hz) en
    rw [← this]; exact (congrArg Prod.snd e).symm
  have hpart : ∀ z ∈ Z, ∀ w ∈ Z, partners z.1.row w.1.row = partners z.2.row w.2.row := by
    intro z hz w hw
    rw [← partners_deflate mR z.1.row w.1.row ((hZ.widthR z hz).trans (hZ.widthR w hw).symm)
        (gR _ (hmemR z hz)) (gR _ (hmemR w hw)),
      ← partners_deflate mT z.2.row w.2.row ((hZ.widthT z hz).trans (hZ.widthT w hw).symm)
        (gT _ (hmemT z hz)) (gT _ (hmemT w hw)),
      hdef z hz, hdef w hw]
  intro z hz w hw
  unfold G
  rw [hpart z hz w hw, hpart w hw z hz, agree_true_self, agree_true_self, length_partners, length_partners,
    hZ.nres z hz, hZ.nres w hw]

/-! ## `compare_pair` is symmetric in its two rows -/

theorem scanPair_swap (n1 n2 : Nat) (s t : Row) :
    (scanPair n2 n1 t s).c1 = (scanPair n1 n2 s t).c2 ∧ (scanPair n2 n1 t s).c2 = (scanPair n1 n2 s t).c1 ∧
    (scanPair n2 n1 t s).aligned = (scanPair n1 n2 s t).aligned ∧ (scanPair n2 n1 t s).gap = (scanPair n1 n2 s t).gap := by
  induction s generalizing t n1 n2 with
  | nil => cases t <;> simp [scanPair]
  | cons a s ih =>
    cases t with
    | nil => simp [scanPair]
    | cons b t =>
      by_cases ha : isRes a <;> by_cases hb : isRes b
      · obtain ⟨h1, h2, h3, h4⟩ := ih (n1 + 1) (n2 + 1) t
        simp [scanPair, ha, hb, h1, h2, h3, h4]
      · obtain ⟨h1, h2, h3, h4⟩ := ih (n1 + 1) n2 t
        simp [scanPair, ha, hb, h1, h2, h3, h4]
      · obtain ⟨h1, h2, h3, h4⟩ := ih n1 (n2 + 1) t
        simp [scanPair, ha, hb, h1, h2, h3, h4]
      · obtain ⟨h1, h2, h3, h4⟩ := ih n1 n2 t
        simp [scanPair, ha, hb, h1, h2, h3, h4]

/-- exchanging the two rows (in both alignments) does not change any counter -/
theorem comparePair_symm (a1 a2 b1 b2 : Row) : comparePair a2 a1 b2 b1 = comparePair a1 a2 b1 b2 := by
  unfold comparePair
  by_cases hl : a1.length ≠ a2.length ∨ b1.length ≠ b2.length
  · have hl' : a2.length ≠ a1.length ∨ b2.length ≠ b1.length := by
      rcases hl with h | h
      · exact Or.inl (Ne.symm h)
      · exact Or.inr (Ne.symm h)
    rw [if_pos hl, if_pos hl']
  · have hl' : ¬ (a2.length ≠ a1.length ∨ b2.length ≠ b1.length) := by
      intro h; apply hl
      rcases h with h | h
      · exact Or.inl (Ne.symm h)
      · exact Or.inr (Ne.symm h)
    rw [if_neg hl, if_neg hl']
    have e1 : a1.length = a2.length := by
      by_cases e : a1.length = a2.length
      · exact e
      · exact absurd (Or.inl e) hl
    have e2 : b1.length = b2.length := by
      by_cases e : b1.length = b2.length
      · exact e
      · exact absurd (Or.inr e) hl
    have hf : comparePairFails a2 b2 = comparePairFails a1 b1 := by
      unfold comparePairFails; rw [e1, e2]
    rw [hf]
    by_cases hfail : comparePairFails a1 b1 = true
    · rw [if_pos hfail, if_pos hfail]
    · rw [if_neg hfail, if_neg hfail]
      obtain ⟨p1, p2, p3, p4⟩ := scanPair_swap 0 0 a1 a2
      obtain ⟨q1, q2, q3, q4⟩ := scanPair_swap 0 0 b1 b2
      simp only [p1, p2, p3, p4, q1, q2, q3, q4]
      cases identCount (scanPair 0 0 a1 a2).c1 (scanPair 0 0 b1 b2).c1 with
      | none =>
        cases identCount (scanPair 0 0 a1 a2).c2 (scanPair 0 0 b1 b2).c2 with
        | none => rfl
        | some p => rfl
      | some p =>
        cases identCount (scanPair 0 0 a1 a2).c2 (scanPair 0 0 b1 b2).c2 with
        | none => rfl
        | some q =>
          obtain ⟨x1, y1⟩ := p
          obtain ⟨x2, y2⟩ := q
          simp only [Option.some.injEq]
          rw [Nat.add_comm x2 x1, Nat.add_comm y2 y1]

end Kalign
