import KalignModel.Lemmas.LocalGlobal
/-!
# S3 for sub-rectangles: the reading of one Hirschberg level, with its context, versus the reference score

A level works on the rectangle `(sa..ea) × (sb..eb)` with middle row `mid`; the columns before it (`P1`, ending in kind
`fk`) and behind it (`P2`, starting in kind `bk`) are fixed.  For every complete column list `X1 ++ X2` of the rectangle
the level's reading plus the constant `ctxConst` (what the kernels of the whole problem charge for `P1` and `P2`) is
the reading of the global alignment `P1 ++ X1 ++ X2 ++ P2` by a level of the *whole* problem, hence within
`[S_T − gpo·nterm − slackLo, S_T + slackHi]` (`sub_level_bounds`).
-/
namespace Kalign

/-- the level's reading of a complete column list `X = X1 ++ X2` cut at `(consB X1, t)`, one-hot start states -/
def levelRead (cF cB : KCfg) (fk bk : Kind) (X1 X2 : List Col) (t : Int) : Int :=
  walkSc cF 0 0 fk X1 + walkSc cB 0 0 bk X2.reverse - joinCost cF t (consB X1)

/-- one-hot start state of kind `k` on the exact carrier -/
def hot (k : Kind) : States ExactScore :=
  match k with
  | .A => ⟨some 0, none, none⟩
  | .GA => ⟨none, some 0, none⟩
  | .GB => ⟨none, none, some 0⟩

theorem hot_get_self (k : Kind) : (hot k).get k = some 0 := by cases k <;> rfl

/-- the scoring problem of two code sequences -/
def ssW (gpo gpe tgpe : Int) (s : Nat → Nat → Int) (seq1 seq2 : Array Nat) (lenA lenB : Nat) : STW :=
  ⟨lenA, lenB, gpo, gpe, tgpe, fun i j => s (seq1.getD i 0) (seq2.getD j 0)⟩

theorem subCfgF (gpo gpe tgpe : Int) (s : Nat → Nat → Int) (seq1 seq2 : Array Nat) (lenA lenB : Nat) (r : Rect)
    (hb : r.startb < r.endb) (he : r.endb ≤ lenB) (hl : r.lenB = lenB) :
    SubCfg (cfgF gpo gpe tgpe s seq1 seq2 r) (ssW gpo gpe tgpe s seq1 seq2 lenA lenB).kcfg r.starta r.startb := by
  refine ⟨?_, ?_, ?_, ?_, rfl, rfl, rfl, rfl, rfl, fun p k => rfl⟩
  · show r.startb + (r.endb - r.startb) ≤ lenB; omega
  · show 1 ≤ r.endb - r.startb; omega
  · show (r.startb == 0) = true ↔ _; simp
  · show (r.endb == r.lenB) = true ↔ r.startb + (r.endb - r.startb) = lenB
    rw [beq_iff_eq, hl]; omega

theorem subCfgB (gpo gpe tgpe : Int) (s : Nat → Nat → Int) (seq1 seq2 : Array Nat) (lenA lenB : Nat) (r : Rect)
    (hb : r.startb < r.endb) (he : r.endb ≤ lenB) (hea : r.enda ≤ lenA) (hl : r.lenB = lenB) :
    SubCfg (cfgB gpo gpe tgpe s seq1 seq2 r) (ssW gpo gpe tgpe s seq1 seq2 lenA lenB).mirror.kcfg
      (lenA - r.enda) (lenB - r.endb) := by
  refine ⟨?_, ?_, ?_, ?_, rfl, rfl, rfl, rfl, rfl, fun p k => ?_⟩
  · show lenB - r.endb + (r.endb - r.startb) ≤ lenB; omega
  · show 1 ≤ r.endb - r.startb; omega
  · show (r.endb == r.lenB) = true ↔ _
    rw [beq_iff_eq, hl]; omega
  · show (r.startb == 0) = true ↔ lenB - r.endb + (r.endb - r.startb) = lenB
    rw [beq_iff_eq]; omega
  · show s (seq1.getD (r.enda - 1 - p) 0) (seq2.getD (r.endb - 1 - k) 0) =
      s (seq1.getD (lenA - 1 - (lenA - r.enda + p)) 0) (seq2.getD (lenB - 1 - (lenB - r.endb + k)) 0)
    have e1 : lenA - 1 - (lenA - r.enda + p) = r.enda - 1 - p := by omega
    have e2 : lenB - 1 - (lenB - r.endb + k) = r.endb - 1 - k := by omega
    rw [e1, e2]

theorem all_gapA_of_consA_zero (cs : List Col) (hs : Col.skip ∉ cs) (h : consA cs = 0) : ∀ x ∈ cs, x = Col.gapA := by
  induction cs with
  | nil => simp
  | cons c cs ih =>
    intro x hx
    rw [consA_cons] at h
    rcases List.mem_cons.mp hx with h' | h'
    · subst h'
      cases x with
      | skip => exact absurd (by simp) hs
      | both => simp [stepP] at h
      | gapB => simp [stepP] at h
      | gapA => rfl
    · exact ih (fun hm => hs (List.mem_cons_of_mem _ hm)) (by omega) x h'

theorem getLast?_of_all (c : Col) (cs : List Col) (h : ∀ x ∈ cs, x = c) : (c :: cs).getLast? = some c := by
  induction cs generalizing c with
  | nil => rfl
  | cons d ds ih =>
    have hd : d = c := h d (by simp)
    subst hd
    rw [List.getLast?_cons_cons]
    exact ih d (fun x hx => h x (List.mem_cons_of_mem _ hx))

/-- no gap-in-a column stands at row `L` when the list stays within `L` rows and does not end with one -/
theorem noGapAAt_of_last (L : Nat) (Z : List Col) (i : Nat) (hs : Col.skip ∉ Z) (hA : i + consA Z ≤ L)
    (hl : Z.getLast? ≠ some Col.gapA) : noGapAAt L i Z = true := by
  induction Z generalizing i with
  | nil => rfl
  | cons c cs ih =>
    have hs' : Col.skip ∉ cs := fun hm => hs (List.mem_cons_of_mem _ hm)
    have hA' : stepP i c + consA cs ≤ L := by rw [consA_cons] at hA; rw [stepP_eq i]; omega
    simp only [noGapAAt, Bool.and_eq_true, Bool.or_eq_true, bne_iff_ne, ne_eq]
    constructor
    · by_cases hc : c = .gapA
      · right
        intro hi
        subst hc
        apply hl
        have h0 : consA cs = 0 := by
          rw [consA_cons] at hA; simp only [stepP] at hA; omega
        exact getLast?_of_all _ _ (all_gapA_of_consA_zero cs hs' h0)
      · exact Or.inl hc
    · cases cs with
      | nil => rfl
      | cons d ds =>
        exact ih _ hs' hA' (by rw [List.getLast?_cons_cons] at hl; exact hl)

theorem firstKind_append_ne (bk : Kind) (X Y : List Col) (h : X ≠ []) : firstKind bk (X ++ Y) = firstKind bk X := by
  cases X with
  | nil => exact absurd rfl h
  | cons c cs => rfl

theorem firstKind_indep (bk bk' : Kind) (X : List Col) (h : X ≠ []) (hs : Col.skip ∉ X) :
    firstKind bk X = firstKind bk' X := by
  cases X with
  | nil => exact absurd rfl h
  | cons c cs => exact colKind_indep _ _ _ (fun hc => hs (by simp [hc]))

theorem ite_two (b : Bool) (x y : Int) :
    (if b = true then x else y) = y ∨ (if b = true then x else y) = x := by cases b <;> simp

theorem joinCost_six (c : KCfg) (k : Nat) :
    joinCost c 6 k =
      if k < c.n then (if c.tF then c.tgpe else c.gpe) else (if c.tL then c.tgpe else c.gpe) := by
  simp [joinCost]

/-- **S3 for a sub-rectangle with its context** -/
theorem sub_level_bounds (gpo gpe tgpe : Int) (s : Nat → Nat → Int) (seq1 seq2 : Array Nat) (lenA lenB : Nat)
    (hgpo : 0 ≤ gpo) (hgpe : 0 ≤ gpe) (htgpe : 0 ≤ tgpe)
    (sa mid ea sb eb : Nat) (h1 : sa ≤ mid) (h2 : mid < ea) (h3 : ea ≤ lenA) (h4 : sb < eb) (h5 : eb ≤ lenB)
    (P1 X1 X2 P2 : List Col)
    (hadj : adjOK .A (P1 ++ (X1 ++ X2) ++ P2) = true)
    (hA : consA (P1 ++ (X1 ++ X2) ++ P2) = lenA) (hB : consB (P1 ++ (X1 ++ X2) ++ P2) = lenB)
    (hP1a : consA P1 = sa) (hP1b : consB P1 = sb) (hX1a : consA X1 = mid - sa) (hX2a : consA X2 = ea - mid)
    (hXb : consB X1 + consB X2 = eb - sb)
    (hInvF : (sb = 0 ↔ sa = 0) ∨ lastKind .A P1 = .GB)
    (hInvB : (eb = lenB ↔ ea = lenA) ∨ firstKind .A P2 = .GB)
    (t : Int) (hadm : Adm (eb - sb) (consB X1) t)
    (hfk : lastKind (lastKind .A P1) X1 = fkOf t) (hbk : lastKind (firstKind .A P2) X2.reverse = bkOf t)
    (hokF : walkOK (cfgF gpo gpe tgpe s seq1 seq2 ⟨sa, mid, sb, eb, lenB⟩) 0 0 (lastKind .A P1) X1 = true)
    (hokB : walkOK (cfgB gpo gpe tgpe s seq1 seq2 ⟨mid, ea, sb, eb, lenB⟩) 0 0 (firstKind .A P2) X2.reverse = true) :
    let w := ssW gpo gpe tgpe s seq1 seq2 lenA lenB
    let Y := P1 ++ (X1 ++ X2) ++ P2
    let C := walkSc w.kcfg 0 0 .A P1 + walkSc w.mirror.kcfg 0 0 .A P2.reverse
    let R := levelRead (cfgF gpo gpe tgpe s seq1 seq2 ⟨sa, mid, sb, eb, lenB⟩)
      (cfgB gpo gpe tgpe s seq1 seq2 ⟨mid, ea, sb, eb, lenB⟩) (lastKind .A P1) (firstKind .A P2) X1 X2 t
    w.walk 0 0 .A Y - gpo * (nterm Y : Int) - w.slackLo ≤ R + C ∧ R + C ≤ w.walk 0 0 .A Y + w.slackHi := by
  intro w Y C R
  have hYeq : Y = (P1 ++ X1) ++ (X2 ++ P2) := by simp [Y]
  have hskip := adjOK_noskip _ _ hadj
  have hsP1 : Col.skip ∉ P1 := fun h => hskip (by simp [h])
  have hsX1 : Col.skip ∉ X1 := fun h => hskip (by simp [h])
  have hsX2 : Col.skip ∉ X2 := fun h => hskip (by simp [h])
  have hsP2 : Col.skip ∉ P2 := fun h => hskip (by simp [h])
  have hX2ne : X2 ≠ [] := consA_pos_ne_nil (by omega)
  have hAs := hA; have hBs := hB
  simp only [consA_append, consB_append] at hAs hBs
  -- forward side
  have hadjF : adjOK .A (P1 ++ (X1 ++ X2 ++ P2)) = true := by
    have : P1 ++ (X1 ++ X2 ++ P2) = P1 ++ (X1 ++ X2) ++ P2 := by simp
    rw [this]; exact hadj
  have hokP1 : walkOK w.kcfg 0 0 .A P1 = true :=
    walkOK_prefix w.kcfg P1 (X1 ++ X2 ++ P2) 0 0 .A hadjF
      (by show 0 + consB (P1 ++ (X1 ++ X2 ++ P2)) = lenB; simp only [consB_append]; omega)
      (by simp only [consA_append]; omega)
  have hsubF := subCfgF gpo gpe tgpe s seq1 seq2 lenA lenB ⟨sa, mid, sb, eb, lenB⟩ h4 h5 rfl
  obtain ⟨hokG1, hscF⟩ := walk_local_global hsubF X1 0 0 (lastKind .A P1) hokF (fun _ => hInvF)
  simp only [Nat.add_zero] at hokG1 hscF
  have hokY1 : walkOK w.kcfg 0 0 .A (P1 ++ X1) = true := by
    rw [walkOK_append, hokP1, Nat.zero_add, Nat.zero_add, hP1a, hP1b, hokG1]; rfl
  have hscY1 : walkSc w.kcfg 0 0 .A (P1 ++ X1) = walkSc w.kcfg 0 0 .A P1 +
      walkSc (cfgF gpo gpe tgpe s seq1 seq2 ⟨sa, mid, sb, eb, lenB⟩) 0 0 (lastKind .A P1) X1 := by
    rw [walkSc_append, Nat.zero_add, Nat.zero_add, hP1a, hP1b, hscF]
  -- backward side
  have hrevY : (P1 ++ (X1 ++ X2) ++ P2).reverse = P2.reverse ++ (X2.reverse ++ (X1.reverse ++ P1.reverse)) := by
    simp
  have hadjR : adjOK .A (P2.reverse ++ (X2.reverse ++ (X1.reverse ++ P1.reverse))) = true := by
    rw [← hrevY]; exact adjOK_reverse .A .A _ hadj (Kind.compat_A_right _)
  have hokP2 : walkOK w.mirror.kcfg 0 0 .A P2.reverse = true :=
    walkOK_prefix w.mirror.kcfg P2.reverse _ 0 0 .A hadjR
      (by show 0 + consB (P2.reverse ++ (X2.reverse ++ (X1.reverse ++ P1.reverse))) = lenB
          simp only [consB_append, consB_reverse]; omega)
      (by simp only [consA_append, consA_reverse]; omega)
  have hsubB := subCfgB gpo gpe tgpe s seq1 seq2 lenA lenB ⟨mid, ea, sb, eb, lenB⟩ h4 h5 h3 rfl
  have hoa : lenA - ea = consA P2 := by omega
  have hob : lenB - eb = consB P2 := by omega
  obtain ⟨hokG2, hscB⟩ := walk_local_global hsubB X2.reverse 0 0 (firstKind .A P2) hokB (fun _ => by
    rcases hInvB with h | h
    · left; show lenB - eb = 0 ↔ lenA - ea = 0; omega
    · exact Or.inr h)
  simp only [Nat.add_zero] at hokG2 hscB
  change walkOK w.mirror.kcfg (lenA - ea) (lenB - eb) (firstKind .A P2) X2.reverse = true at hokG2
  change _ = walkSc w.mirror.kcfg (lenA - ea) (lenB - eb) (firstKind .A P2) X2.reverse at hscB
  rw [hoa, hob] at hokG2 hscB
  have hlkP2 : lastKind .A P2.reverse = firstKind .A P2 := lastKind_reverse _ _ hsP2
  have hokY2 : walkOK w.mirror.kcfg 0 0 .A (X2 ++ P2).reverse = true := by
    rw [List.reverse_append, walkOK_append, hokP2, Nat.zero_add, Nat.zero_add, consA_reverse, consB_reverse, hlkP2,
      hokG2]; rfl
  have hscY2 : walkSc w.mirror.kcfg 0 0 .A (X2 ++ P2).reverse = walkSc w.mirror.kcfg 0 0 .A P2.reverse +
      walkSc (cfgB gpo gpe tgpe s seq1 seq2 ⟨mid, ea, sb, eb, lenB⟩) 0 0 (firstKind .A P2) X2.reverse := by
    rw [List.reverse_append, walkSc_append, Nat.zero_add, Nat.zero_add, consA_reverse, consB_reverse, hlkP2, hscB]
  -- kinds at the cut
  have hx : lastKind .A (P1 ++ X1) = fkOf t := by rw [lastKind_append]; exact hfk
  have hy : firstKind .A (X2 ++ P2) = bkOf t := by
    rw [firstKind_append_ne _ _ _ hX2ne, firstKind_indep .A (firstKind .A P2) X2 hX2ne hsX2,
      ← lastKind_reverse _ _ hsX2]
    exact hbk
  have hcA : consA (P1 ++ X1) = mid := by rw [consA_append]; omega
  have hcB : consB (P1 ++ X1) = sb + consB X1 := by rw [consB_append]; omega
  -- the joining edge
  have hJ : w.JoinOK (lastKind .A (P1 ++ X1)) (firstKind .A (X2 ++ P2)) (consA (P1 ++ X1)) (consB (P1 ++ X1))
      (joinCost (cfgF gpo gpe tgpe s seq1 seq2 ⟨sa, mid, sb, eb, lenB⟩) t (consB X1)) := by
    rw [hx, hy, hcA, hcB]
    have ht : t = 1 ∨ t = 2 ∨ t = 3 ∨ t = 5 ∨ t = 6 ∨ t = 7 := by
      rcases hadm with h | h
      · exact h.2
      · rcases h.2 with h | h <;> simp [h]
    have hk : consB X1 ≤ eb - sb := by omega
    rcases ht with h | h | h | h | h | h <;> subst h
    · left; exact ⟨rfl, rfl, rfl⟩
    · right; left; exact ⟨rfl, Or.inl rfl, rfl⟩
    · right; left; exact ⟨rfl, Or.inr rfl, rfl⟩
    · right; right; left; exact ⟨Or.inl rfl, rfl, rfl⟩
    · right; right; right
      have hjc : joinCost (cfgF gpo gpe tgpe s seq1 seq2 ⟨sa, mid, sb, eb, lenB⟩) 6 (consB X1) =
          (if consB X1 < eb - sb then (if (sb == 0) = true then tgpe else gpe)
            else (if (eb == lenB) = true then tgpe else gpe)) := by
        rw [joinCost_six]; rfl
      rw [hjc]
      refine ⟨rfl, rfl, ?_, ?_⟩
      · by_cases hlt : consB X1 < eb - sb
        · simp only [hlt, if_true]; exact ite_two _ _ _
        · simp only [hlt, if_false]; exact ite_two _ _ _
      · intro hterm
        have hj : sb + consB X1 = 0 ∨ sb + consB X1 = lenB := by simpa [STW.termK, w, ssW] using hterm
        rcases hj with hj | hj
        · have h1' : consB X1 < eb - sb := by omega
          have h2' : (sb == 0) = true := by simp; omega
          simp [h1', h2']; rfl
        · have h1' : ¬ (consB X1 < eb - sb) := by omega
          have h2' : (eb == lenB) = true := by simp; omega
          simp [h1', h2']; rfl
    · right; right; left; exact ⟨Or.inr rfl, rfl, rfl⟩
  -- no gap-in-a column of the second part stands in row 0 of the whole problem
  have hrowB : noGapAAt lenA 0 (X2 ++ P2).reverse = true := by
    by_cases hm : 0 < mid
    · exact noGapAAt_of_lt _ _ _ (by rw [consA_reverse, consA_append]; omega)
    · have hm0 : mid = 0 := by omega
      refine noGapAAt_of_last lenA _ 0 (fun h => ?_) (by rw [consA_reverse, consA_append]; omega) ?_
      · rcases List.mem_append.mp (List.mem_reverse.mp h) with h' | h'
        · exact hsX2 h'
        · exact hsP2 h'
      · -- the last column of the reversed list is the first column of `X2`
        intro hlast
        cases hX2 : X2 with
        | nil => exact hX2ne hX2
        | cons c cs =>
          rw [hX2] at hlast hbk hokB hXb
          simp only [List.cons_append, List.reverse_cons] at hlast
          rw [List.getLast?_append] at hlast
          simp at hlast
          subst hlast
          -- then `t = 2`, the first part is empty and the backward kernel cannot walk this column
          have hlk : lastKind (firstKind .A P2) (cs.reverse ++ [Col.gapA]) = .GA := by
            rw [lastKind_snoc]; rfl
          rw [List.reverse_cons, hlk] at hbk
          have ht : t = 2 := by
            have ht : t = 1 ∨ t = 2 ∨ t = 3 ∨ t = 5 ∨ t = 6 ∨ t = 7 := by
              rcases hadm with h | h
              · exact h.2
              · rcases h.2 with h | h <;> simp [h]
            rcases ht with h | h | h | h | h | h <;> subst h <;> simp [bkOf] at hbk ⊢
          subst ht
          have hfkA : lastKind .A (P1 ++ X1) = .A := by rw [hx]; rfl
          have hnil : P1 ++ X1 = [] := by
            rcases lastKind_A_cases (P1 ++ X1) (fun h => by
              rcases List.mem_append.mp h with h' | h'
              · exact hsP1 h'
              · exact hsX1 h') hfkA with h | ⟨h, _⟩
            · exact h
            · omega
          have hX1nil : X1 = [] := (List.append_eq_nil_iff.mp hnil).2
          have hP1nil : P1 = [] := (List.append_eq_nil_iff.mp hnil).1
          rw [hP1nil] at hP1b
          rw [hX1nil] at hXb
          simp only [consB_nil] at hP1b hXb
          rw [List.reverse_cons, walkOK_append, Bool.and_eq_true] at hokB
          have hstep := hokB.2
          simp only [walkOK, Bool.and_true, stepOK, Bool.and_eq_true, decide_eq_true_eq, Nat.zero_add,
            consB_reverse, cfgB] at hstep
          simp only [Nat.zero_add, consB_gapA] at hXb
          omega
  have hmain := STW.level_bounds w hgpo hgpe htgpe (P1 ++ X1) (X2 ++ P2)
    (joinCost (cfgF gpo gpe tgpe s seq1 seq2 ⟨sa, mid, sb, eb, lenB⟩) t (consB X1))
    (by simp [hX2ne]) (by rw [← hYeq]; exact hadj) (by rw [← hYeq]; exact hA) (by rw [← hYeq]; exact hB)
    hokY1 hokY2 (by rw [hcA]; show mid < lenA; omega) hrowB hJ
  rw [← hYeq] at hmain
  have hR : w.levelRead (P1 ++ X1) (X2 ++ P2)
      (joinCost (cfgF gpo gpe tgpe s seq1 seq2 ⟨sa, mid, sb, eb, lenB⟩) t (consB X1)) = R + C := by
    simp only [STW.levelRead, hscY1, hscY2, R, C, levelRead]
    omega
  rw [hR] at hmain
  exact hmain
