import KalignModel.Model.Profile
import KalignModel.Lemmas.Progressive
import KalignModel.Lemmas.Mirror
/-!
# No fault in the profile update and in the path expansion (any score carrier)

* `size_makeProfile`, `size_setGapPenalties`: profiles have `64*(len+2)` entries.
* `updateN_some`: `update_n` reads only inside its two profiles when the column codes are a valid column list for the two
  lengths, and returns a profile of `64*(codes.length+2)` entries.
* `cols_of_shape`: a well-shaped Hirschberg path is the path of a column list without a gap-in-a run next to a gap-in-b
  run; `expand_mirror_valid`: `mirror_path_n` + `add_gap_info_to_path_n` on such a path succeed.
* `expandPath_codes`: the codes `add_gap_info_to_path_n` emits are `0, 1, 2, 33, 34`.
-/
namespace Kalign
section
variable {β : Type} [Score β]

/-! ## sizes -/

theorem size_sentinelCol (ap : AlnParam β) : (sentinelCol ap).size = 64 := by simp [sentinelCol]

omit [Score β] in
theorem size_foldl_set {γ : Type} (f : Array β → γ → Nat × β) (l : List γ) (col : Array β) :
    (l.foldl (fun col j => col.set! (f col j).1 (f col j).2) col).size = col.size := by
  induction l generalizing col with
  | nil => rfl
  | cons x xs ih => rw [List.foldl_cons, ih]; simp

theorem size_residueCol (ap : AlnParam β) (c : Nat) : (residueCol ap c).size = 64 := by
  unfold residueCol
  simp only [Array.set!_eq_setIfInBounds, Array.size_setIfInBounds]
  have := size_foldl_set (fun (_ : Array β) j => (32 + j, ap.sub c j)) (List.range 23)
    ((Array.replicate 64 (Score.zero : β)).setIfInBounds c (Score.add Score.zero Score.one))
  simp only [Array.set!_eq_setIfInBounds] at this
  rw [this]; simp

theorem size_makeProfile (ap : AlnParam β) (seq : Array Nat) : (makeProfile ap seq).size = 64 * (seq.size + 2) := by
  unfold makeProfile
  rw [Array.size_append, size_sentinelCol]
  have : ∀ (l : List Nat) (init : Array β),
      (l.foldl (fun p c => p ++ residueCol ap c) init).size = init.size + 64 * l.length := by
    intro l
    induction l with
    | nil => intro init; simp
    | cons x xs ih =>
      intro init
      rw [List.foldl_cons, ih, Array.size_append, size_residueCol, List.length_cons]; omega
  rw [← Array.foldl_toList, this, size_sentinelCol, Array.length_toList]; omega

theorem size_setGapPenalties (p : Array β) (n : Nat) : (setGapPenalties p n).size = p.size := by
  unfold setGapPenalties
  simp only
  have : ∀ (l : List Nat) (q : Array β),
      (l.foldl (fun p col =>
        ((p.set! (64 * col + 27) (Score.mul (p.getD (64 * col + 55) Score.zero) (Score.ofNat n))).set! (64 * col + 28)
          (Score.mul (p.getD (64 * col + 56) Score.zero) (Score.ofNat n))).set! (64 * col + 29)
          (Score.mul (p.getD (64 * col + 57) Score.zero) (Score.ofNat n))) q).size = q.size := by
    intro l
    induction l with
    | nil => intro q; rfl
    | cons x xs ih => intro q; rw [List.foldl_cons, ih]; simp
  exact this _ _

omit [Score β] in
theorem colOf?_some (p : Array β) (col : Nat) (h : 64 * col + 64 ≤ p.size) :
    ∃ c, colOf? p col = some c ∧ c.size = 64 := by
  unfold colOf?
  rw [if_pos h]
  exact ⟨_, rfl, by simp; omega⟩

theorem size_addCols (x y : Array β) : (addCols x y).size = 64 := by simp [addCols]

theorem size_subRange (col : Array β) (gp : β) : (subRange col gp).size = col.size := by
  unfold subRange
  exact size_foldl_set (fun (col : Array β) j => (j, Score.sub (col.getD j Score.zero) gp)) _ col

theorem size_bumpAt (col : Array β) (k : Nat) (s : β) : (bumpAt col k s).size = col.size := by simp [bumpAt]

theorem size_gapCol (ap : AlnParam β) (col : Array β) (code sip : Nat) : (gapCol ap col code sip).size = col.size := by
  unfold gapCol
  simp only
  repeat' split
  all_goals simp only [size_subRange, size_bumpAt]

/-! ## `update_n` -/

/-- the codes `add_gap_info_to_path_n` can emit -/
def CodeOK (c : Nat) : Prop := c = 0 ∨ c = 1 ∨ c = 2 ∨ c = 33 ∨ c = 34

theorem updateStep_some (ap : AlnParam β) (pa pb : Array β) (sa sb : Nat) (st : UpdState β) (code : Nat)
    (hc : CodeOK code)
    (hA : Col.ofCode code = .both ∨ Col.ofCode code = .gapB → 64 * st.pa + 64 ≤ pa.size)
    (hB : Col.ofCode code = .both ∨ Col.ofCode code = .gapA → 64 * st.pb + 64 ≤ pb.size) :
    ∃ st', updateStep ap pa pb sa sb st code = some st' ∧ st'.out.size = st.out.size + 64 ∧
      st'.pa = st.pa + (if Col.ofCode code = .both ∨ Col.ofCode code = .gapB then 1 else 0) ∧
      st'.pb = st.pb + (if Col.ofCode code = .both ∨ Col.ofCode code = .gapA then 1 else 0) := by
  have e0 : Col.ofCode 0 = .both := by decide
  have e1 : Col.ofCode 1 = .gapA := by decide
  have e2 : Col.ofCode 2 = .gapB := by decide
  have e33 : Col.ofCode 33 = .gapA := by decide
  have e34 : Col.ofCode 34 = .gapB := by decide
  rcases hc with h | h | h | h | h <;> subst h
  · obtain ⟨ca, hca, _⟩ := colOf?_some pa st.pa (hA (Or.inl e0))
    obtain ⟨cb, hcb, _⟩ := colOf?_some pb st.pb (hB (Or.inl e0))
    refine ⟨⟨st.pa + 1, st.pb + 1, st.out ++ addCols ca cb⟩, ?_, by simp [size_addCols], by simp [e0], by simp [e0]⟩
    simp [updateStep, hca, hcb, bit]
  · obtain ⟨cb, hcb, hs⟩ := colOf?_some pb st.pb (hB (Or.inr e1))
    refine ⟨⟨st.pa, st.pb + 1, st.out ++ gapCol ap cb 1 sa⟩, ?_, by simp [size_gapCol, hs], by simp [e1], by simp [e1]⟩
    simp [updateStep, hcb, bit]
  · obtain ⟨ca, hca, hs⟩ := colOf?_some pa st.pa (hA (Or.inr e2))
    refine ⟨⟨st.pa + 1, st.pb, st.out ++ gapCol ap ca 2 sb⟩, ?_, by simp [size_gapCol, hs], by simp [e2], by simp [e2]⟩
    simp [updateStep, hca, bit]
  · obtain ⟨cb, hcb, hs⟩ := colOf?_some pb st.pb (hB (Or.inr e33))
    refine ⟨⟨st.pa, st.pb + 1, st.out ++ gapCol ap cb 33 sa⟩, ?_, by simp [size_gapCol, hs], by simp [e33], by simp [e33]⟩
    simp [updateStep, hcb, bit]
  · obtain ⟨ca, hca, hs⟩ := colOf?_some pa st.pa (hA (Or.inr e34))
    refine ⟨⟨st.pa + 1, st.pb, st.out ++ gapCol ap ca 34 sb⟩, ?_, by simp [size_gapCol, hs], by simp [e34], by simp [e34]⟩
    simp [updateStep, hca, bit]

theorem consA_cons_ofCode (c : Col) (cs : List Col) :
    consA (c :: cs) = (if c = .both ∨ c = .gapB then 1 else 0) + consA cs := by
  cases c <;> simp [consA] <;> omega

theorem consB_cons_ofCode (c : Col) (cs : List Col) :
    consB (c :: cs) = (if c = .both ∨ c = .gapA then 1 else 0) + consB cs := by
  cases c <;> simp [consB] <;> omega

theorem update_fold (ap : AlnParam β) (pa pb : Array β) (sa sb lenA lenB : Nat)
    (hpa : pa.size = 64 * (lenA + 2)) (hpb : pb.size = 64 * (lenB + 2)) (codes : List Nat)
    (hc : ∀ c ∈ codes, CodeOK c) (st : UpdState β)
    (hA : st.pa + consA (codes.map Col.ofCode) = lenA + 1) (hB : st.pb + consB (codes.map Col.ofCode) = lenB + 1) :
    ∃ st', codes.foldlM (updateStep ap pa pb sa sb) st = some st' ∧ st'.out.size = st.out.size + 64 * codes.length ∧
      st'.pa = lenA + 1 ∧ st'.pb = lenB + 1 := by
  induction codes generalizing st with
  | nil =>
    simp only [List.map_nil] at hA hB
    have h1 : consA [] = 0 := rfl
    have h2 : consB [] = 0 := rfl
    exact ⟨st, rfl, by simp, by omega, by omega⟩
  | cons c cs ih =>
    simp only [List.map_cons] at hA hB
    rw [consA_cons_ofCode] at hA
    rw [consB_cons_ofCode] at hB
    obtain ⟨st1, h1, hs1, ha1, hb1⟩ := updateStep_some ap pa pb sa sb st c (hc c List.mem_cons_self)
      (fun h => by rw [if_pos h] at hA; omega) (fun h => by rw [if_pos h] at hB; omega)
    obtain ⟨st2, h2, hs2, ha2, hb2⟩ := ih (fun x hx => hc x (List.mem_cons_of_mem _ hx)) st1
      (by rw [ha1]; omega) (by rw [hb1]; omega)
    refine ⟨st2, ?_, ?_, ha2, hb2⟩
    · simp [List.foldlM_cons, h1, h2]
    · rw [hs2, hs1, List.length_cons]; omega

omit [Score β] in
theorem takeWhile_all_true {γ : Type} (p : γ → Bool) (l : List γ) (h : ∀ x ∈ l, p x = true) : l.takeWhile p = l := by
  induction l with
  | nil => rfl
  | cons x xs ih =>
    rw [List.takeWhile_cons, h x List.mem_cons_self]
    simp only [if_true]
    rw [ih (fun y hy => h y (List.mem_cons_of_mem _ hy))]

omit [Score β] in
theorem takeWhile_ne3 (codes : List Nat) (hc : ∀ c ∈ codes, CodeOK c) : codes.takeWhile (· ≠ 3) = codes := by
  apply takeWhile_all_true
  intro c hcm
  have := hc c hcm
  unfold CodeOK at this
  simp only [ne_eq, decide_not, Bool.not_eq_eq_eq_not, Bool.not_true, decide_eq_false_iff_not]
  omega

/-- **`update_n` never reads outside its profiles** on a valid column list; the new profile has `codes.length + 2` columns -/
theorem updateN_some (ap : AlnParam β) (pa pb : Array β) (sa sb lenA lenB : Nat)
    (hpa : pa.size = 64 * (lenA + 2)) (hpb : pb.size = 64 * (lenB + 2)) (codes : List Nat)
    (hc : ∀ c ∈ codes, CodeOK c) (hV : ValidCols (codes.map Col.ofCode) lenA lenB) :
    ∃ p, updateN ap pa pb codes sa sb = some p ∧ p.size = 64 * (codes.length + 2) := by
  obtain ⟨c0a, h0a, _⟩ := colOf?_some pa 0 (by omega)
  obtain ⟨c0b, h0b, _⟩ := colOf?_some pb 0 (by omega)
  obtain ⟨st, hst, hsz, hfa, hfb⟩ := update_fold ap pa pb sa sb lenA lenB hpa hpb codes hc
    { pa := 1, pb := 1, out := addCols c0a c0b } (by simp only; rw [hV.2.1]; omega) (by simp only; rw [hV.2.2]; omega)
  obtain ⟨ca, hca, _⟩ := colOf?_some pa st.pa (by rw [hfa]; omega)
  obtain ⟨cb, hcb, _⟩ := colOf?_some pb st.pb (by rw [hfb]; omega)
  refine ⟨st.out ++ addCols ca cb, ?_, ?_⟩
  · unfold updateN
    rw [takeWhile_ne3 codes hc]
    simp [h0a, h0b, hst, hca, hcb]
  · rw [Array.size_append, hsz, size_addCols, size_addCols]; omega

end

/-! ## the codes of `add_gap_info_to_path_n` -/

theorem markPrefix_codeOK (l : List Nat) (h : ∀ c ∈ l, CodeOK c) : ∀ c ∈ markPrefix l, CodeOK c := by
  induction l with
  | nil => intro c hc; simp [markPrefix] at hc
  | cons x xs ih =>
    intro c hc
    unfold markPrefix at hc
    split at hc
    · exact h c hc
    · rcases List.mem_cons.1 hc with e | e
      · subst e
        have hx := h x List.mem_cons_self
        rename_i h0
        unfold CodeOK at hx ⊢
        rcases hx with e | e | e | e | e <;> subst e <;> first | exact absurd rfl h0 | decide
      · exact ih (fun y hy => h y (List.mem_cons_of_mem _ hy)) c e

theorem markSuffix_codeOK (l : List Nat) (h : ∀ c ∈ l, CodeOK c) : ∀ c ∈ markSuffix l, CodeOK c := by
  intro c hc
  unfold markSuffix at hc
  rw [List.mem_reverse] at hc
  exact markPrefix_codeOK _ (fun y hy => h y (List.mem_reverse.1 hy)) c hc

theorem expandEntry_codeOK (b p : Int) : ∀ c ∈ expandEntry b p, CodeOK c := by
  intro c hc
  unfold expandEntry at hc
  unfold CodeOK
  split at hc
  · simp at hc; omega
  · split at hc
    · simp only [List.mem_append, List.mem_replicate, List.mem_singleton] at hc
      omega
    · simp at hc; omega

theorem expandRest_codeOK (b : Int) (ps : List Int) : ∀ c ∈ expandRest b ps, CodeOK c := by
  induction ps generalizing b with
  | nil => intro c hc; simp [expandRest] at hc
  | cons p ps ih =>
    intro c hc
    simp only [expandRest, List.mem_append] at hc
    rcases hc with h | h
    · exact expandEntry_codeOK b p c h
    · exact ih p c h

theorem expandCore_codeOK (lenB : Nat) (path : List Int) : ∀ c ∈ expandCore lenB path, CodeOK c := by
  cases path with
  | nil => intro c hc; simp [expandCore] at hc
  | cons p ps =>
    intro c hc
    simp only [expandCore, List.mem_append] at hc
    rcases hc with (h | h) | h
    · unfold expandFirst at h
      unfold CodeOK
      split at h
      · simp at h; omega
      · split at h
        · simp only [List.mem_append, List.mem_replicate, List.mem_singleton] at h; omega
        · simp at h; omega
    · exact expandRest_codeOK p ps c h
    · unfold expandTail at h
      unfold CodeOK
      split at h
      · simp only [List.mem_replicate] at h; omega
      · simp at h

theorem expandPath_codes (lenB : Nat) (path : List Int) (codes : List Nat) (h : expandPath lenB path = some codes) :
    ∀ c ∈ codes, CodeOK c := by
  unfold expandPath at h
  simp only at h
  split at h
  · cases h
  · simp only [Option.some.injEq] at h
    subst h
    exact markSuffix_codeOK _ (markPrefix_codeOK _ (expandCore_codeOK lenB path))

/-! ## a well-shaped path is the path of a column list -/

theorem pathFrom_replicate_gapA (n j : Nat) (cs : List Col) :
    pathFrom j (List.replicate n Col.gapA ++ cs) = pathFrom (j + n) cs := by
  induction n generalizing j with
  | zero => simp
  | succ n ih =>
    simp only [List.replicate_succ, List.cons_append, pathFrom]
    rw [ih]; congr 1; omega

theorem nf_consB_replicate_gapA (n : Nat) : consB (List.replicate n Col.gapA) = n := by
  induction n with
  | zero => rfl
  | succ n ih => simp only [List.replicate_succ, consB_gapA, ih]

theorem nf_consA_replicate_gapA (n : Nat) : consA (List.replicate n Col.gapA) = 0 := by
  induction n with
  | zero => rfl
  | succ n ih => simp only [List.replicate_succ, consA_gapA, ih]

theorem adjOK_replicate_gapA (n : Nat) (st : Kind) (hst : st ≠ .GB) (cs : List Col)
    (h : adjOK (if n = 0 then st else .GA) cs = true) : adjOK st (List.replicate n Col.gapA ++ cs) = true := by
  induction n generalizing st with
  | zero => simpa using h
  | succ n ih =>
    simp only [List.replicate_succ, List.cons_append, adjOK, colKind]
    have hc : st.compat .GA = true := by cases st <;> simp_all [Kind.compat]
    rw [hc]
    have hne : (Col.gapA != Col.skip) = true := by decide
    rw [hne, Bool.true_and, Bool.true_and]
    apply ih .GA (by decide)
    by_cases hn : n = 0
    · simpa [hn] using h
    · simpa [hn] using h

/-- kind of the previous column: `pg` = the previous entry was −1 -/
def pgKind : Bool → Kind
  | true => .GB
  | false => .A

/-- a well-shaped path (`PathShape`, i.e. `pathOK`) read from state `(last = j, pg)` is `pathFrom j P` for a column list
`P` that never puts a gap-in-a column next to a gap-in-b column and consumes the rest of b -/
theorem cols_of_shape (lenB : Nat) {last : Int} {pg : Bool} {ps : List Int} (h : PathShape lenB last pg ps) :
    ∀ j : Nat, last = (j : Int) → ∃ P : List Col, pathFrom j P = ps ∧
      adjOK (pgKind pg) P = true ∧ j + consB P = lenB := by
  induction h with
  | @nilGap last hl =>
    intro j hj
    exact ⟨[], rfl, rfl, by simp [consB]; omega⟩
  | @nilRes last hl =>
    intro j hj
    refine ⟨List.replicate (lenB - j) .gapA, ?_, ?_, ?_⟩
    · have := pathFrom_replicate_gapA (lenB - j) j []
      simpa [pathFrom] using this
    · have := adjOK_replicate_gapA (lenB - j) .A (by decide) [] (by simp [adjOK])
      simpa [pgKind] using this
    · rw [nf_consB_replicate_gapA]; omega
  | @gap last pg ps _ ih =>
    intro j hj
    obtain ⟨P, h1, h2, h3⟩ := ih j hj
    refine ⟨.gapB :: P, by simp [pathFrom, h1], ?_, by simpa [consB_gapB] using h3⟩
    simp only [adjOK, colKind]
    simp only [pgKind] at h2
    rw [h2]
    cases pg <;> simp [Kind.compat, pgKind]
  | @afterGap last p ps hne hp hle _ ih =>
    intro j hj
    obtain ⟨P, h1, h2, h3⟩ := ih (j + 1) (by omega)
    refine ⟨.both :: P, ?_, ?_, by simp only [consB_both]; omega⟩
    · simp only [pathFrom, h1]; congr 1; omega
    · simp only [adjOK, colKind]
      simp only [pgKind] at h2
      rw [h2]; simp [Kind.compat, pgKind]
  | @afterRes last p ps hne hp hle _ ih =>
    intro j hj
    have hpj : (j : Int) < p := by omega
    obtain ⟨P, h1, h2, h3⟩ := ih p.toNat (by omega)
    simp only [pgKind] at h2
    refine ⟨List.replicate (p.toNat - j - 1) .gapA ++ .both :: P, ?_, ?_, ?_⟩
    · rw [pathFrom_replicate_gapA]
      simp only [pathFrom]
      have e : j + (p.toNat - j - 1) + 1 = p.toNat := by omega
      rw [e, h1]; congr 1; omega
    · apply adjOK_replicate_gapA _ .A (by decide)
      simp only [adjOK, colKind, h2]
      split <;> simp [Kind.compat]
    · rw [consB_append, nf_consB_replicate_gapA, consB_both]; omega

end Kalign
