import KalignModel.Lemmas.Myers
/-!
# `bpm_block` computes Sellers' DP (composition over blocks, wildcard padding, inactive band)
-/
namespace Kalign

/-! ## words from bit functions -/

theorem getLsbD_one_shl (w k i : Nat) (_ : k < w) (hi : i < w) : ((1#w) <<< k).getLsbD i = decide (i = k) := by
  rw [BitVec.getLsbD_shiftLeft]
  by_cases h : i < k
  · simp [h]; omega
  · simp only [hi, decide_true, h, decide_false, Bool.not_false, Bool.and_self, Bool.true_and]
    rw [getLsbD_one' _ (by omega)]
    by_cases h2 : i = k
    · simp [h2]
    · have : i - k ≠ 0 := by omega
      simp [h2, this]

theorem bitsToBV_bit (w : Nat) (f : Nat → Bool) (n i : Nat) (hn : n ≤ w) (hi : i < w) :
    (bitsToBV w f n).getLsbD i = (decide (i < n) && f i) := by
  induction n with
  | zero => simp [bitsToBV]
  | succ n ih =>
    rw [bitsToBV, BitVec.getLsbD_or, ih (by omega)]
    by_cases hfn : f n = true
    · simp only [hfn, if_true]
      rw [getLsbD_one_shl w n i (by omega) hi]
      by_cases h : i = n
      · subst h; simp [hfn]
      · have h1 : (i < n + 1) = (i < n) := by apply propext; constructor <;> intro <;> omega
        simp [h, h1]
    · simp only [hfn]
      by_cases h : i = n
      · subst h; simp [hfn]
      · have h1 : (i < n + 1) = (i < n) := by apply propext; constructor <;> intro <;> omega
        simp [h1]

theorem peqWord_bit (p : List Nat) (m c b i : Nat) (hi : i < 64) :
    (peqWord p m c b).getLsbD i = (decide (m ≤ b * 64 + i) || (p.getD (b * 64 + i) 0 == c)) := by
  rw [peqWord, bitsToBV_bit 64 _ 64 i (Nat.le_refl _) hi]
  simp [hi]

/-! ## facts about the DP with `init = id` -/

theorem id_tri (i : Nat) : Tri (((id (i + 1) : Nat) : Int) - (id i : Nat)) := by
  right; right; simp only [id]; omega

theorem gD_row_zero (eq : Nat → Nat → Bool) (j : Nat) : gD id eq j 0 = 0 := by
  induction j with
  | zero => rw [gD]; rfl
  | succ j ih => rw [gD, ih]

theorem gD_col_zero (eq : Nat → Nat → Bool) (i : Nat) : gD id eq 0 i = i := by
  rw [gD]; rfl

theorem gD_succ_le (eq : Nat → Nat → Bool) (j i : Nat) : gD id eq j (i + 1) ≤ gD id eq j i + 1 := by
  have h := (deltas_tri id eq id_tri j i).1
  simp only [dV, Tri] at h
  omega

theorem gD_le_row (eq : Nat → Nat → Bool) (j i : Nat) : gD id eq j i ≤ i := by
  induction i with
  | zero => rw [gD_row_zero]; exact Nat.le_refl _
  | succ i ih => have := gD_succ_le eq j i; omega

/-- below a wildcard row the DP value moves along the diagonal -/
theorem gD_diag (eq : Nat → Nat → Bool) (j i : Nat) (he : eq i j = true) : gD id eq (j + 1) (i + 1) = gD id eq j i := by
  have h1 := (deltas_tri id eq id_tri j i).1
  have h2 := (deltas_tri id eq id_tri j i).2
  simp only [dV, dH, Tri] at h1 h2
  rw [gD, he]
  simp only [min3, if_true]
  omega

theorem gD_diag_k (eq : Nat → Nat → Bool) (m : Nat) (hw : ∀ i j, m ≤ i → eq i j = true) (k j i : Nat) (hi : m ≤ i) :
    gD id eq (j + k) (i + k) = gD id eq j i := by
  induction k with
  | zero => rfl
  | succ k ih =>
    rw [show j + (k + 1) = (j + k) + 1 by omega, show i + (k + 1) = (i + k) + 1 by omega,
      gD_diag eq (j + k) (i + k) (hw _ _ (by omega)), ih]

theorem gD_congr (init1 init2 : Nat → Nat) (eq1 eq2 : Nat → Nat → Bool) (I J : Nat)
    (hinit : ∀ i, i ≤ I → init1 i = init2 i)
    (h : ∀ i j, i < I → j < J → eq1 i j = eq2 i j) (j i : Nat) (hj : j ≤ J) (hi : i ≤ I) :
    gD init1 eq1 j i = gD init2 eq2 j i := by
  induction j generalizing i with
  | zero => rw [gD.eq_1, gD.eq_1, hinit i hi]
  | succ j ihj =>
    induction i with
    | zero => rw [gD.eq_2, gD.eq_2, ihj 0 (by omega) (by omega)]
    | succ i ihi =>
      rw [gD.eq_3, gD.eq_3 init2 eq2, ihi (by omega), ihj (i + 1) (by omega) hi, ihj i (by omega) (by omega),
        h i j (by omega) (by omega)]

/-! ## one text column over all blocks -/

theorem Enc.congr {w : Nat} {P M : BitVec w} {v v' : Nat → Int} (h : Enc P M v) (hv : ∀ i, i < w → v i = v' i) :
    Enc P M v' := by
  intro i hi
  rw [← hv i hi]
  exact h i hi

section blocks
variable (eq : Nat → Nat → Bool)

theorem refH_eq_dp (j b i : Nat) :
    refH (fun i => dV id eq j (b * 64 + i)) (fun i => eq (b * 64 + i) j) (dH id eq j (b * 64)) i
      = dH id eq j (b * 64 + i) := by
  induction i with
  | zero => rfl
  | succ i ih =>
    rw [refH, ih, show b * 64 + (i + 1) = (b * 64 + i) + 1 by omega, (cell_rule id eq j (b * 64 + i)).2]

theorem refV_eq_dp (j b i : Nat) :
    refV (fun i => dV id eq j (b * 64 + i)) (fun i => eq (b * 64 + i) j) (dH id eq j (b * 64)) i
      = dV id eq (j + 1) (b * 64 + i) := by
  rw [refV, refH_eq_dp, (cell_rule id eq j (b * 64 + i)).1]

/-- blocks `b, b+1, …` hold column `j`: vertical differences encoded in `P`,`M`, `score` = DP value at the lower edge -/
def BlocksOK (j : Nat) : Nat → List BlockSt → Prop
  | _, [] => True
  | b, s :: bs =>
    Enc s.P s.M (fun i => dV id eq j (b * 64 + i)) ∧ s.score = (gD id eq j ((b + 1) * 64) : Int) ∧ BlocksOK j (b + 1) bs

theorem colBlocks_spec (peqc : Nat → BitVec 64) (j B : Nat)
    (hpeq : ∀ b i, b < B → i < 64 → (peqc b).getLsbD i = eq (b * 64 + i) j)
    (b : Nat) (bs : List BlockSt) (hB : b + bs.length ≤ B) (hOK : BlocksOK eq j b bs) :
    BlocksOK eq (j + 1) b (colBlocks peqc b bs.length (dH id eq j (b * 64)) bs).1 ∧
    (colBlocks peqc b bs.length (dH id eq j (b * 64)) bs).2 = dH id eq j ((b + bs.length) * 64) ∧
    (colBlocks peqc b bs.length (dH id eq j (b * 64)) bs).1.length = bs.length := by
  induction bs generalizing b with
  | nil => simp [colBlocks, BlocksOK]
  | cons s bs ih =>
    obtain ⟨hEnc, hsc, hrest⟩ := hOK
    simp only [List.length_cons] at hB ⊢
    have hstep := block_step s.P s.M (peqc b) (dH id eq j (b * 64)) (fun i => dV id eq j (b * 64 + i))
      (fun i => eq (b * 64 + i) j) (by omega) hEnc (fun i hi => hpeq b i (by omega) hi)
      (deltas_tri id eq id_tri j (b * 64)).2
    have hout : (advanceBlock s.P s.M (peqc b) (dH id eq j (b * 64))).2.2 = dH id eq j ((b + 1) * 64) := by
      rw [hstep.2, refH_eq_dp, show b * 64 + 64 = (b + 1) * 64 by omega]
    have ih' := ih (b + 1) (by omega) hrest
    simp only [colBlocks]
    rw [hout]
    refine ⟨⟨?_, ?_, ih'.1⟩, ?_, ?_⟩
    · exact hstep.1.congr (fun i _ => refV_eq_dp eq j b i)
    · show s.score + dH id eq j ((b + 1) * 64) = _
      rw [hsc]; simp only [dH]; omega
    · rw [ih'.2.1, show b + 1 + bs.length = b + (bs.length + 1) by omega]
    · simp only [List.length_cons, ih'.2.2]

theorem blkScore_of_ok (j b : Nat) (bs : List BlockSt) (hOK : BlocksOK eq j b bs) (r : Nat) (hr : r < bs.length) :
    blkScore bs r = (gD id eq j ((b + r + 1) * 64) : Int) := by
  induction bs generalizing b r with
  | nil => simp at hr
  | cons s bs ih =>
    obtain ⟨_, hsc, hrest⟩ := hOK
    cases r with
    | zero => simpa [blkScore] using hsc
    | succ r =>
      have := ih (b + 1) hrest r (by simpa using hr)
      simp only [blkScore, List.getD_cons_succ] at this ⊢
      rw [this, show b + 1 + r + 1 = b + (r + 1) + 1 by omega]

theorem bandShrink_id (bs : List BlockSt) (lim : Int) (y : Nat) (h : y = 0 ∨ blkScore bs y < lim) :
    bandShrink bs lim y = y := by
  cases y with
  | zero => rfl
  | succ y =>
    rcases h with h | h
    · omega
    · rw [bandShrink, if_neg (by omega)]

/-- running minimum of the lower-right score: `m`, then the DP values of row `R` in columns `1..j` -/
def kminF (m R : Nat) : Nat → Nat
  | 0 => m
  | j + 1 => min (kminF m R j) (gD id eq (j + 1) R)

structure BInv (bmax m j : Nat) (st : BpmSt) : Prop where
  len : st.blocks.length = bmax
  y : st.y + 1 = bmax
  ok : BlocksOK eq j 0 st.blocks
  k : st.k = (kminF eq m (bmax * 64) j : Int)

/-- one column of `bpm_block`: all blocks are advanced, the band neither grows nor shrinks -/
theorem bpmBlockCol_spec (peq : Nat → Nat → BitVec 64) (bmax m j c : Nat)
    (hpeq : ∀ b i, b < bmax → i < 64 → (peq c b).getLsbD i = eq (b * 64 + i) j)
    (hband : bmax = 1 ∨ bmax * 64 < m + 64) (st : BpmSt) (hI : BInv eq bmax m j st) :
    BInv eq bmax m (j + 1) (bpmBlockCol peq bmax m st c) := by
  obtain ⟨hlen, hy, hok, hk⟩ := hI
  have hspec := colBlocks_spec eq (peq c) j bmax hpeq 0 st.blocks (by omega) hok
  rw [Nat.zero_mul, dH_zero, hlen, ← hy] at hspec
  obtain ⟨hok', hcarry, hlen'⟩ := hspec
  have hsc : blkScore (colBlocks (peq c) 0 (st.y + 1) 0 st.blocks).1 st.y = (gD id eq (j + 1) (bmax * 64) : Int) := by
    rw [blkScore_of_ok eq (j + 1) 0 _ hok' st.y (by omega), show 0 + st.y + 1 = bmax by omega]
  have hshr : bandShrink (colBlocks (peq c) 0 (st.y + 1) 0 st.blocks).1 ((m : Int) + 64) st.y = st.y := by
    apply bandShrink_id
    rcases hband with h | h
    · left; omega
    · right
      rw [hsc]
      have := gD_le_row eq (j + 1) (bmax * 64)
      omega
  unfold bpmBlockCol
  simp only
  rw [if_neg (by omega), hshr, hsc]
  refine ⟨by simpa using hlen'.trans (by omega), hy, hok', ?_⟩
  simp only [kminF, hk]
  split <;> omega

end blocks

/-! ## the whole function -/

theorem getD_of_lt (l : List Nat) (i d : Nat) (h : i < l.length) : l.getD i d = l[i] := by
  simp [List.getD_eq_getElem?_getD, h]

theorem getD_of_ge (l : List Nat) (i d : Nat) (h : l.length ≤ i) : l.getD i d = d := by
  simp [List.getD_eq_getElem?_getD, h]

theorem divCeil_facts (m : Nat) :
    1 ≤ divCeil m 64 ∧ m ≤ 64 * divCeil m 64 ∧ (divCeil m 64 = 1 ∨ divCeil m 64 * 64 < m + 64) := by
  unfold divCeil
  by_cases h : m = 0
  · simp [h]
  · simp only [h, if_false]
    by_cases h2 : m % 64 = 0
    · simp only [h2, if_true]; omega
    · simp only [h2, if_false]; omega

theorem tab_lookup (f : Nat → Nat → BitVec 64) (C B c b : Nat) (hc : c < C) (hb : b < B) :
    ((((List.range C).map fun c => ((List.range B).map fun b => f c b).toArray).toArray).getD c #[]).getD b 0#64
      = f c b := by
  simp [Array.getD, hc, hb]

theorem blocksOK_init (eq : Nat → Nat → Bool) (f : Nat → BlockSt) (k b : Nat)
    (h : ∀ b', b ≤ b' → b' < b + k → f b' = { P := BitVec.allOnes 64, M := 0#64, score := (((b' + 1) * 64 : Nat) : Int) }) :
    BlocksOK eq 0 b ((List.range' b k).map f) := by
  induction k generalizing b with
  | zero => simp [BlocksOK]
  | succ k ih =>
    rw [List.range'_succ, List.map_cons]
    refine ⟨?_, ?_, ih (b + 1) (fun b' h1 h2 => h b' (by omega) (by omega))⟩
    · rw [h b (Nat.le_refl _) (by omega)]
      intro i hi
      have : dV id eq 0 (b * 64 + i) = 1 := by simp only [dV, gD_col_zero]; omega
      dsimp only
      refine ⟨by rw [this]; exact Or.inr (Or.inr rfl), ?_, ?_⟩
      · rw [BitVec.getLsbD_allOnes]; simp [this, hi]
      · simp [this]
    · rw [h b (Nat.le_refl _) (by omega), gD_col_zero]

theorem fold_cols (eq : Nat → Nat → Bool) (peq : Nat → Nat → BitVec 64) (bmax m : Nat) (T : List Nat)
    (hpeq : ∀ j b i, j < T.length → b < bmax → i < 64 → (peq (T.getD j 0) b).getLsbD i = eq (b * 64 + i) j)
    (hband : bmax = 1 ∨ bmax * 64 < m + 64) (st0 : BpmSt) (h0 : BInv eq bmax m 0 st0) (j : Nat) (hj : j ≤ T.length) :
    BInv eq bmax m j ((T.take j).foldl (bpmBlockCol peq bmax m) st0) := by
  induction j with
  | zero => simpa using h0
  | succ j ih =>
    have hj' : j < T.length := by omega
    rw [← List.take_append_getElem hj', List.foldl_append]
    simp only [List.foldl_cons, List.foldl_nil]
    apply bpmBlockCol_spec eq peq bmax m j T[j] _ hband _ (ih (by omega))
    intro b i hb hi
    have := hpeq j b i hj' hb hi
    rwa [getD_of_lt _ _ _ hj'] at this

/-- what the running minimum is -/
theorem kminF_props (eq : Nat → Nat → Bool) (m R J : Nat) :
    kminF eq m R J ≤ m ∧ (∀ j', 1 ≤ j' → j' ≤ J → kminF eq m R J ≤ gD id eq j' R) ∧
    (kminF eq m R J = m ∨ ∃ j', 1 ≤ j' ∧ j' ≤ J ∧ kminF eq m R J = gD id eq j' R) := by
  induction J with
  | zero => exact ⟨Nat.le_refl _, fun j' h1 h2 => by omega, Or.inl rfl⟩
  | succ J ih =>
    obtain ⟨h1, h2, h3⟩ := ih
    simp only [kminF]
    refine ⟨by omega, ?_, ?_⟩
    · intro j' hj1 hj2
      by_cases h : j' = J + 1
      · subst h; exact Nat.min_le_right _ _
      · exact Nat.le_trans (Nat.min_le_left _ _) (h2 j' hj1 (by omega))
    · rcases Nat.le_total (kminF eq m R J) (gD id eq (J + 1) R) with h | h
      · rw [Nat.min_eq_left h]
        rcases h3 with h3 | ⟨j', a, b, c⟩
        · exact Or.inl h3
        · exact Or.inr ⟨j', a, by omega, c⟩
      · rw [Nat.min_eq_right h]
        exact Or.inr ⟨J + 1, by omega, Nat.le_refl _, rfl⟩

/-- `bpm_block` returns the value of Sellers' DP for the first 1024 symbols of the pattern -/
theorem bpmBlock_eq_sellers (t p : List Nat) (ht : ∀ c ∈ t, c < 13) :
    bpmBlock t p = some ((sellers (p.take 1024) t : Nat) : Int) := by
  have hany : (t.any fun c => decide (SIGMA ≤ c)) = false := by
    rw [List.any_eq_false]
    intro c hc
    have := ht c hc
    intro h
    have h' : SIGMA ≤ c := of_decide_eq_true h
    simp only [SIGMA] at h'
    omega
  unfold bpmBlock
  rw [hany]
  simp only [Bool.false_eq_true, if_false]
  generalize hm : min p.length 1024 = m
  obtain ⟨hb1, hbm, hband⟩ := divCeil_facts m
  generalize hbmax : divCeil m 64 = bmax at hb1 hbm hband
  generalize hW : 64 * bmax - m = W
  -- the padded text and the padded match predicate
  let T := t ++ List.replicate W 0
  let eq : Nat → Nat → Bool := fun i j => decide (m ≤ i) || (p.getD i 0 == T.getD j 0)
  have hT13 : ∀ j, T.getD j 0 < 13 := by
    intro j
    by_cases hj : j < T.length
    · rw [getD_of_lt _ _ _ hj]
      rcases List.mem_append.1 (List.getElem_mem hj) with h | h
      · exact ht _ h
      · rw [(List.mem_replicate.1 h).2]; omega
    · rw [getD_of_ge _ _ _ (by omega)]; omega
  have hst := fold_cols eq
    (fun c b => ((((List.range SIGMA).map fun c => ((List.range bmax).map fun b => peqWord p m c b).toArray).toArray).getD c
      #[]).getD b 0#64) bmax m T
    (by
      intro j b i _ hb hi
      rw [tab_lookup (peqWord p m) SIGMA bmax _ b (hT13 j) hb, peqWord_bit p m _ b i hi])
    hband
    { blocks := (List.range bmax).map fun b =>
        if b ≤ bmax - 1 then { P := BitVec.allOnes 64, M := 0#64, score := (((b + 1) * 64 : Nat) : Int) }
        else ⟨0#64, 0#64, 0⟩,
      y := bmax - 1, k := (m : Int) }
    ⟨by simp, by show bmax - 1 + 1 = bmax; omega, by
        rw [List.range_eq_range']
        apply blocksOK_init
        intro b' _ h2
        rw [if_pos (by omega)], rfl⟩
    T.length (Nat.le_refl _)
  rw [List.take_length] at hst
  have hk := hst.k
  -- from the running minimum to Sellers' DP
  have hR : bmax * 64 = m + W := by omega
  rw [hR] at hk
  have hwild : ∀ i j, m ≤ i → eq i j = true := by intro i j h; simp [eq, h]
  have hTlen : T.length = t.length + W := by simp [T]
  obtain ⟨k1, k2, k3⟩ := kminF_props eq m (m + W) T.length
  have hdiag : ∀ j', gD id eq j' (m + W) = if W ≤ j' then gD id eq (j' - W) m else m + W - j' := by
    intro j'
    split
    · rename_i h
      have := gD_diag_k eq m hwild W (j' - W) m (Nat.le_refl _)
      rw [show j' - W + W = j' by omega] at this
      exact this
    · rename_i h
      have := gD_diag_k eq m hwild j' 0 (m + W - j') (by omega)
      rw [show 0 + j' = j' by omega, show m + W - j' + j' = m + W by omega, gD_col_zero] at this
      exact this
  have hplen : (p.take 1024).length = m := by rw [List.length_take, Nat.min_comm]; exact hm
  have hcongr : ∀ j, j ≤ t.length → gD id eq j m = gD id (eqPT (p.take 1024) t) j m := by
    intro j hj
    apply gD_congr id id eq (eqPT (p.take 1024) t) m t.length (fun _ _ => rfl) _ j m hj (Nat.le_refl _)
    intro i j' hi hj'
    have hi' : i < p.length := by omega
    have hip : i < (p.take 1024).length := by omega
    have hjT : j' < T.length := by omega
    have hTj : T[j'] = t[j'] := List.getElem_append_left hj'
    have hmi : ¬ m ≤ i := by omega
    simp only [eq, eqPT, List.getElem?_eq_getElem hip, List.getElem?_eq_getElem hj', getD_of_lt _ _ _ hi',
      getD_of_lt _ _ _ hjT, List.getElem_take, Option.some.injEq, hTj, hmi, decide_false, Bool.false_or]
    rw [Bool.eq_iff_iff]; simp
  have hS := sellers_eq (p.take 1024) t
  rw [hplen] at hS
  have key : kminF eq m (m + W) T.length = sellers (p.take 1024) t := by
    rw [hS]
    apply Nat.le_antisymm
    · rcases foldl_min_attained ((List.range (t.length + 1)).map fun j => gD id (eqPT (p.take 1024) t) j m) m with h | h
      · rw [h]; exact k1
      · obtain ⟨j, hj, he⟩ := List.mem_map.1 h
        have hj' : j ≤ t.length := by have := List.mem_range.1 hj; omega
        rw [← he, ← hcongr j hj']
        by_cases h0 : j + W = 0
        · have : j = 0 := by omega
          rw [this, gD_col_zero]; exact k1
        · have := k2 (j + W) (by omega) (by omega)
          rw [hdiag (j + W), if_pos (by omega), show j + W - W = j by omega] at this
          exact this
    · rcases k3 with h | ⟨j', h1, h2, h3⟩
      · rw [h]; exact foldl_min_le_init _ _
      · rw [h3, hdiag j']
        split
        · rename_i hw
          rw [hcongr (j' - W) (by omega)]
          apply foldl_min_le_mem
          exact List.mem_map.2 ⟨j' - W, List.mem_range.2 (by omega), rfl⟩
        · exact Nat.le_trans (foldl_min_le_init _ _) (by omega)
  rw [← key, ← hk]

end Kalign
