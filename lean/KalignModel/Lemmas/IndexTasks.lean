import KalignModel.Lemmas.TaskLeaves
/-!
# Every index of a task table built by `buildTasks` is a node id `< 2·numseq − 1` (slice AD, item 4)
-/
namespace Kalign.Pipeline
open Kalign Kalign.Kmeans Kalign.Sched

theorem nodup_of_nodup_flatMap {α β : Type} (f : α → List β) (l : List α) (h : (l.flatMap f).Nodup) :
    ∀ x ∈ l, (f x).Nodup := by
  induction l with
  | nil => intro x hx; cases hx
  | cons y ys ih =>
    rw [List.flatMap_cons, List.nodup_append] at h
    intro x hx
    rcases List.mem_cons.1 hx with e | hx
    · subst e; exact h.1
    · exact ih h.2.1 x hx

/-- **the operands and the result of every task of a table `buildTasks` returns are node ids below `2·numseq − 1`**
(the size of `msa->nsip`, `msa->plen`, `t->profile`); the result is an internal node, the two operands differ -/
theorem buildTasks_indices (avx : Bool) (codes : Array (List Nat)) (tasks : Array (Nat × Nat × Nat))
    (h : buildTasks avx codes = .ok tasks) :
    ∀ t ∈ tasks.toList, t.1 ≠ t.2.1 ∧ t.1 < 2 * codes.size - 1 ∧ t.2.1 < 2 * codes.size - 1 ∧
      codes.size ≤ t.2.2 ∧ t.2.2 < 2 * codes.size - 1 := by
  obtain ⟨T, e, hp⟩ := buildTasks_tree avx codes tasks h
  subst e
  intro t ht
  have ht' : t ∈ Kmeans.sortTasks (treeTasks T codes.size) := by simpa using ht
  have hperm := msortBy_perm taskTakeLeft (treeTasks T codes.size)
  have hmem : t ∈ Kmeans.createTasks (label T codes.size) := hperm.mem_iff.1 ht'
  have hN : Tree.nint T + 1 = codes.size := by
    have h1 := treeTasks_length T codes.size
    have h2 := length_sortTasks T codes.size
    have h3 := hperm.length_eq
    have h4 := hp.length_eq
    simp only [List.length_range] at h4
    unfold Kmeans.sortTasks at h2
    omega
  have hleaves : (label T codes.size).leaves = T.leaves := (labelFrom_spec T codes.size).2.1
  have hiids : Kmeans.LTree.iids (label T codes.size) = List.range' codes.size (Tree.nint T) :=
    (labelFrom_iids T codes.size).1
  have k := kids_perm_leaves (label T codes.size)
  rw [hleaves, hiids] at k
  have hlt : ∀ x ∈ T.leaves ++ List.range' codes.size (Tree.nint T), x < 2 * codes.size - 1 := by
    intro x hx
    rcases List.mem_append.1 hx with hx | hx
    · have := List.mem_range.1 (hp.mem_iff.1 hx); omega
    · rw [List.mem_range'_1] at hx; omega
  have hnd : (T.leaves ++ List.range' codes.size (Tree.nint T)).Nodup := by
    rw [List.nodup_append]
    refine ⟨hp.nodup_iff.2 List.nodup_range, List.nodup_range' 1, ?_⟩
    intro a ha b hb e
    have h1 := List.mem_range.1 (hp.mem_iff.1 ha)
    rw [List.mem_range'_1] at hb
    omega
  have hkids : ∀ x ∈ allKids (Kmeans.createTasks (label T codes.size)), x < 2 * codes.size - 1 :=
    fun x hx => hlt x (k.mem_iff.1 (List.mem_append.2 (Or.inl hx)))
  have hkn : (allKids (Kmeans.createTasks (label T codes.size))).Nodup :=
    (List.nodup_append.1 (k.nodup_iff.2 hnd)).1
  have ha : t.1 ∈ allKids (Kmeans.createTasks (label T codes.size)) :=
    List.mem_flatMap.2 ⟨t, hmem, by simp⟩
  have hb : t.2.1 ∈ allKids (Kmeans.createTasks (label T codes.size)) :=
    List.mem_flatMap.2 ⟨t, hmem, by simp⟩
  have hc : t.2.2 ∈ List.range' codes.size (Tree.nint T) := by
    have := (createTasks_c_perm (label T codes.size)).mem_iff.1 (List.mem_map.2 ⟨t, hmem, rfl⟩)
    rwa [hiids] at this
  rw [List.mem_range'_1] at hc
  refine ⟨?_, hkids _ ha, hkids _ hb, hc.1, by omega⟩
  have h2 := nodup_of_nodup_flatMap _ _ hkn t hmem
  intro e
  rw [e] at h2
  simp at h2

end Kalign.Pipeline
