import KalignModel.Model.Score
import KalignModel.Lemmas.Progressive
/-! helper lemmas for C08 (diagonal optimality under Φ; all-zero gap vectors under diagonal merges) -/
namespace Kalign
variable {α : Type}

/-! ## `gapCols`, `subSum` on the diagonal -/

/-- sum of the self-substitution scores of a sequence -/
def dSum (sub : Nat → Nat → Int) : List Nat → Int
  | [] => 0
  | x :: l => sub x x + dSum sub l

@[simp] theorem gapCols_nil : gapCols [] = 0 := rfl
@[simp] theorem gapCols_both (cs : List Col) : gapCols (.both :: cs) = gapCols cs := by simp [gapCols]
@[simp] theorem gapCols_skip (cs : List Col) : gapCols (.skip :: cs) = gapCols cs := by simp [gapCols]
@[simp] theorem gapCols_gapA (cs : List Col) : gapCols (.gapA :: cs) = gapCols cs + 1 := by simp [gapCols]
@[simp] theorem gapCols_gapB (cs : List Col) : gapCols (.gapB :: cs) = gapCols cs + 1 := by simp [gapCols]

theorem gapCols_diag (n : Nat) : gapCols (diagCols n) = 0 := by
  induction n with
  | zero => rfl
  | succ n ih => rw [diagCols, List.replicate_succ, gapCols_both]; exact ih

theorem subSum_diag (sub : Nat → Nat → Int) (s : List Nat) :
    subSum sub (diagCols s.length) s s = dSum sub s := by
  induction s with
  | nil => rfl
  | cons x s ih =>
    rw [List.length_cons, diagCols, List.replicate_succ]
    simp only [subSum, dSum]
    rw [← ih]; rfl

theorem upperScore_diag (sub : Nat → Nat → Int) (c : Int) (s : List Nat) :
    upperScore sub c (diagCols s.length) s s = dSum sub s := by
  simp [upperScore, gapCols_diag, subSum_diag]

/-- a valid column list without gap columns is the diagonal -/
theorem eq_diag_of_gapCols_zero (cs : List Col) (hs : Col.skip ∉ cs) (hg : gapCols cs = 0) :
    cs = diagCols (consA cs) := by
  induction cs with
  | nil => rfl
  | cons c cs ih =>
    cases c
    · rw [gapCols_both] at hg
      have hs' : Col.skip ∉ cs := fun h => hs (List.mem_cons_of_mem _ h)
      rw [consA_both, diagCols, List.replicate_succ]
      congr 1
      exact ih hs' hg
    · rw [gapCols_gapA] at hg; omega
    · rw [gapCols_gapB] at hg; omega
    · exact absurd (List.mem_cons_self) hs

/-! ## the counting inequality -/

/-- twice the substitution part plus `(1 - 2c)` per gap column is bounded by the self-scores of both sequences
(each matched pair by the first half of Φ, each unmatched residue by the second half, in integers) -/
theorem two_subSum_le (sub : Nat → Nat → Int) (c : Int) (L : Nat)
    (h1 : ∀ x, x < L → 1 ≤ sub x x + 2 * c)
    (h2 : ∀ x, x < L → ∀ y, y < L → 2 * sub x y ≤ sub x x + sub y y)
    (cs : List Col) (a b : List Nat) (hs : Col.skip ∉ cs)
    (ha : consA cs = a.length) (hb : consB cs = b.length)
    (hal : ∀ x ∈ a, x < L) (hbl : ∀ y ∈ b, y < L) :
    2 * subSum sub cs a b - 2 * (c * (gapCols cs : Int)) + (gapCols cs : Int) ≤ dSum sub a + dSum sub b := by
  induction cs generalizing a b with
  | nil =>
    cases a with
    | nil =>
      cases b with
      | nil => simp [subSum, dSum]
      | cons y b => simp at hb
    | cons x a => simp at ha
  | cons col cs ih =>
    have hs' : Col.skip ∉ cs := fun h => hs (List.mem_cons_of_mem _ h)
    cases col with
    | both =>
      cases a with
      | nil => simp at ha
      | cons x a =>
        cases b with
        | nil => simp at hb
        | cons y b =>
          rw [consA_both, List.length_cons] at ha
          rw [consB_both, List.length_cons] at hb
          have hx := hal x List.mem_cons_self
          have hy := hbl y List.mem_cons_self
          have := ih a b hs' (by omega) (by omega)
            (fun z hz => hal z (List.mem_cons_of_mem _ hz)) (fun z hz => hbl z (List.mem_cons_of_mem _ hz))
          have h2' := h2 x hx y hy
          simp only [subSum, dSum, gapCols_both]
          omega
    | gapA =>
      cases b with
      | nil => simp at hb
      | cons y b =>
        rw [consA_gapA] at ha
        rw [consB_gapA, List.length_cons] at hb
        have hy := hbl y List.mem_cons_self
        have := ih a b hs' ha (by omega) hal (fun z hz => hbl z (List.mem_cons_of_mem _ hz))
        have h1' := h1 y hy
        simp only [subSum, dSum, gapCols_gapA, Int.natCast_add, Int.mul_add, Int.natCast_one, Int.mul_one]
        omega
    | gapB =>
      cases a with
      | nil => simp at ha
      | cons x a =>
        rw [consA_gapB, List.length_cons] at ha
        rw [consB_gapB] at hb
        have hx := hal x List.mem_cons_self
        have := ih a b hs' (by omega) hb (fun z hz => hal z (List.mem_cons_of_mem _ hz)) hbl
        have h1' := h1 x hx
        simp only [subSum, dSum, gapCols_gapB, Int.natCast_add, Int.mul_add, Int.natCast_one, Int.mul_one]
        omega
    | skip => exact absurd List.mem_cons_self hs

/-! ## unpacking Φ -/

theorem phi_spec {m : List (List Int)} {gpo gpe tgpe : Int} {L : Nat} (h : phi m gpo gpe tgpe L = true) :
    (∀ x, x < L → 1 ≤ subOf m x x + 2 * min gpe tgpe) ∧
    (∀ x, x < L → ∀ y, y < L → 2 * subOf m x y ≤ subOf m x x + subOf m y y) := by
  simp only [phi, Bool.and_eq_true, decide_eq_true_eq, List.all_eq_true, List.mem_range] at h
  obtain ⟨_, h⟩ := h
  refine ⟨fun x hx => ?_, fun x hx y hy => (h x hx).2 y hy⟩
  have := (h x hx).1
  omega

/-- the strict optimality of the diagonal, from the two halves of Φ -/
theorem diag_strict_opt (sub : Nat → Nat → Int) (c : Int) (L : Nat)
    (h1 : ∀ x, x < L → 1 ≤ sub x x + 2 * c)
    (h2 : ∀ x, x < L → ∀ y, y < L → 2 * sub x y ≤ sub x x + sub y y)
    (s : List Nat) (hs : ∀ x ∈ s, x < L)
    (cs : List Col) (hv : ValidCols cs s.length s.length) (hne : cs ≠ diagCols s.length) :
    upperScore sub c cs s s < upperScore sub c (diagCols s.length) s s := by
  obtain ⟨hskip, ha, hb⟩ := hv
  have key := two_subSum_le sub c L h1 h2 cs s s hskip ha hb hs hs
  have hg : gapCols cs ≠ 0 := by
    intro hg
    apply hne
    have := eq_diag_of_gapCols_zero cs hskip hg
    rw [ha] at this
    exact this
  rw [upperScore_diag]
  unfold upperScore
  omega

/-! ## diagonal merges keep all gap vectors zero -/

theorem gapVecA_replicate_both (n : Nat) : gapVecA (List.replicate n Col.both) = List.replicate (n + 1) 0 := by
  induction n with
  | zero => rfl
  | succ n ih => rw [List.replicate_succ, gapVecA, ih]; rfl

theorem gapVecB_replicate_both (n : Nat) : gapVecB (List.replicate n Col.both) = List.replicate (n + 1) 0 := by
  induction n with
  | zero => rfl
  | succ n ih => rw [List.replicate_succ, gapVecB, ih]; rfl

theorem updateGaps_zero (k m : Nat) :
    updateGaps (List.replicate k 0) (List.replicate m 0) = List.replicate k 0 := by
  induction k generalizing m with
  | zero => rfl
  | succ k ih =>
    rw [List.replicate_succ, updateGaps]
    simp only [Nat.zero_add, List.take_replicate, List.drop_replicate, List.sum_replicate_nat, Nat.mul_zero]
    rw [ih]

theorem map_ofCode_replicate_zero (n : Nat) :
    (List.replicate n 0).map Col.ofCode = List.replicate n Col.both := by
  rw [List.map_replicate]; rfl

/-- invariant of the progressive alignment of identical sequences with the diagonal aligner -/
theorem alignTree_identical (s : List Nat) (T : Tree) :
    (∀ m ∈ alignTree (fun _ => s) (fun _ _ => List.replicate s.length 0) T,
        m.seq.res = s ∧ m.seq.gaps = List.replicate (s.length + 1) 0) ∧
    ((alignTree (fun _ => s) (fun _ _ => List.replicate s.length 0) T).map (·.idx)).Perm T.leaves := by
  induction T with
  | leaf i =>
    refine ⟨?_, by simp [alignTree, Tree.leaves]⟩
    intro m hm
    simp only [alignTree, List.mem_singleton] at hm
    subst hm
    exact ⟨rfl, rfl⟩
  | node l r ihl ihr =>
    obtain ⟨iA, pA⟩ := ihl
    obtain ⟨iB, pB⟩ := ihr
    simp only [alignTree]
    refine ⟨?_, ?_⟩
    · intro m hm
      rw [mem_mergeGroups, map_ofCode_replicate_zero] at hm
      rcases hm with ⟨m0, hm0, rfl⟩ | ⟨m0, hm0, rfl⟩
      · obtain ⟨hr, hg⟩ := iA m0 hm0
        refine ⟨hr, ?_⟩
        simp only [updA, hg, gapVecA_replicate_both, updateGaps_zero]
      · obtain ⟨hr, hg⟩ := iB m0 hm0
        refine ⟨hr, ?_⟩
        simp only [updB, hg, gapVecB_replicate_both, updateGaps_zero]
    · rw [mergeGroups_idx, Tree.leaves]
      exact (List.reverse_perm _).trans pA |>.append ((List.reverse_perm _).trans pB)

theorem finalRow_identical (s : List Nat) (T : Tree) (hnd : T.leaves.Nodup) (i : Nat) (hi : i ∈ T.leaves) :
    finalRow (alignTree (fun _ => s) (fun _ _ => List.replicate s.length 0) T) i = some (s.map some) := by
  obtain ⟨inv, perm⟩ := alignTree_identical s T
  have hmem := perm.mem_iff.2 hi
  rw [List.mem_map] at hmem
  obtain ⟨m, hm, rfl⟩ := hmem
  rw [finalRow_of_mem _ (perm.nodup_iff.2 hnd) m hm]
  obtain ⟨hr, hg⟩ := inv m hm
  rw [GSeq.row, hr, hg, makeLinear_replicate_zero]

end Kalign
