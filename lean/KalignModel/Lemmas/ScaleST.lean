import KalignModel.Lemmas.ProfKernelPP
/-!
# The reference score scales with the parameters
-/
namespace Kalign

def STW.scale (w : STW) (K : Int) : STW :=
  ⟨w.lenA, w.lenB, K * w.gpo, K * w.gpe, K * w.tgpe, fun i j => K * w.sc i j⟩

theorem STW.walk_scale (w : STW) (K : Int) (cs : List Col) (i j : Nat) (st : Kind) :
    (w.scale K).walk i j st cs = K * w.walk i j st cs := by
  induction cs generalizing i j st with
  | nil => simp [STW.walk]
  | cons c cs ih =>
    simp only [STW.walk, ih, Int.mul_add]
    have hT : ∀ g i j, (w.scale K).termK g i j = w.termK g i j := fun g i j => by cases g <;> rfl
    have hcol : (w.scale K).stCol c i j = K * w.stCol c i j := by
      cases c <;> simp only [STW.stCol, hT]
      · rfl
      · split <;> simp [STW.scale, Int.mul_neg]
      · split <;> simp [STW.scale, Int.mul_neg]
      · simp
    have hE : ∀ u v, (w.scale K).stE u v i j = K * w.stE u v i j := by
      intro u v
      cases u <;> cases v <;> simp only [STW.stE, hT] <;> (try split) <;> (try split) <;>
        simp [STW.scale, Int.mul_neg]
    rw [hcol, hE]

theorem scoreST_scale (sub : Nat → Nat → Int) (gpo gpe tgpe K : Int) (cs : List Col) (a b : List Nat) :
    scoreST (fun x y => K * sub x y) (K * gpo) (K * gpe) (K * tgpe) cs a b = K * scoreST sub gpo gpe tgpe cs a b := by
  unfold scoreST
  exact STW.walk_scale ⟨a.length, b.length, gpo, gpe, tgpe, fun i j => sub (a.getD i 0) (b.getD j 0)⟩ K cs 0 0 .A

theorem max_zero_scale (K x : Int) (hK : 0 ≤ K) : max 0 (K * x) = K * max 0 x := by
  by_cases hx : 0 ≤ x
  · have : 0 ≤ K * x := Int.mul_nonneg hK hx
    rw [Int.max_eq_right this, Int.max_eq_right hx]
  · have hx' : x ≤ 0 := by omega
    have : K * x ≤ 0 := Int.mul_nonpos_of_nonneg_of_nonpos hK hx'
    rw [Int.max_eq_left this, Int.max_eq_left hx']; simp

theorem max_scale (K x y : Int) (hK : 0 ≤ K) : max (K * x) (K * y) = K * max x y := by
  by_cases hxy : x ≤ y
  · rw [Int.max_eq_right hxy, Int.max_eq_right (Int.mul_le_mul_of_nonneg_left hxy hK)]
  · have hyx : y ≤ x := by omega
    rw [Int.max_eq_left hyx, Int.max_eq_left (Int.mul_le_mul_of_nonneg_left hyx hK)]

/-- the slack terms of the scaled parameters -/
theorem slack_scale (K gpo gpe tgpe : Int) (hK : 0 ≤ K) :
    max 0 (max (K * tgpe - K * gpe) (K * tgpe - K * gpo)) + max 0 (K * gpe - K * tgpe) =
      K * (max 0 (max (tgpe - gpe) (tgpe - gpo)) + max 0 (gpe - tgpe)) := by
  rw [← Int.mul_sub, ← Int.mul_sub, ← Int.mul_sub, max_scale _ _ _ hK, max_zero_scale _ _ hK, max_zero_scale _ _ hK,
    Int.mul_add]

end Kalign
