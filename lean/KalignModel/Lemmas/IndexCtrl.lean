import KalignModel.Lemmas.IndexKernel2
/-!
# The checked Hirschberg controller agrees with the totalised one (slice AD, item 2)

Generic part: for checked kernels that agree with the totalised ones on state arrays satisfying an invariant `S`
("slot 0 exists") which the kernels preserve, the checked controllers return `some` of what the totalised controllers
return.  Nothing depends on the fault analysis: the only totalised accesses of the controller are slot 0 of `f`/`b`.
-/
namespace Kalign
section generic
variable {φ α : Type}

structure KAgree (KC : KernelsC φ α) (K : Kernels φ α) (S : φ → Prop) : Prop where
  get0 : ∀ f, S f → KC.get0 f = some (K.get0 f)
  set0 : ∀ f s, S f → KC.set0 f s = some (K.set0 f s) ∧ S (K.set0 f s)
  step : ∀ f b (sa mid ea sb eb : Int), S f → S b →
    KC.step f b sa mid ea sb eb = some (K.step f b sa mid ea sb eb) ∧
      ∀ r, K.step f b sa mid ea sb eb = some r → S r.f ∧ S r.b
  stA : KC.stA = K.stA
  stGA : KC.stGA = K.stGA
  stGB : KC.stGB = K.stGB

/-- slot 0 of both state arrays exists -/
def MemS (S : φ → Prop) (m : Mem φ α) : Prop := S m.f ∧ S m.b

/-- a checked recursive call agrees with the totalised one and keeps the invariant -/
def RecAgree (S : φ → Prop) (recC : Mem φ α → Option (Mem φ α)) (rec : Mem φ α → Mem φ α) : Prop :=
  ∀ m, MemS S m → recC m = some (rec m) ∧ MemS S (rec m)

variable {KC : KernelsC φ α} {K : Kernels φ α} {S : φ → Prop}

theorem KAgree.st (h : KAgree KC K S) (k : Kind) : KC.st k = K.st k := by
  cases k
  · exact h.stA
  · exact h.stGA
  · exact h.stGB

theorem memS_setPath {m : Mem φ α} (h : MemS S m) (i v : Int) : MemS S (m.setPath i v) := by
  unfold Mem.setPath; split <;> exact h

theorem alnFwdC_eq (h : KAgree KC K S) (m : Mem φ α) (hm : MemS S m) (inF : States α) (k1 k2 : Kind) (a b c d : Int) :
    alnFwdC KC m inF k1 k2 a b c d = some (alnFwd K m inF k1 k2 a b c d) ∧ MemS S (alnFwd K m inF k1 k2 a b c d) := by
  obtain ⟨e1, s1⟩ := h.set0 m.f inF hm.1
  obtain ⟨e2, s2⟩ := h.set0 m.b (K.st k2) hm.2
  refine ⟨?_, s1, s2⟩
  simp only [alnFwdC, Mem.restoreFC, Mem.setBC, e1, Option.map_some, Option.bind_some, h.st, e2]
  rfl

theorem alnBwdC_eq (h : KAgree KC K S) (m : Mem φ α) (hm : MemS S m) (inB : States α) (k1 k2 : Kind) (a b c d : Int) :
    alnBwdC KC m inB k1 k2 a b c d = some (alnBwd K m inB k1 k2 a b c d) ∧ MemS S (alnBwd K m inB k1 k2 a b c d) := by
  obtain ⟨e1, s1⟩ := h.set0 m.f (K.st k2) hm.1
  obtain ⟨e2, s2⟩ := h.set0 m.b inB hm.2
  refine ⟨?_, s1, s2⟩
  simp only [alnBwdC, Mem.setFC, Mem.restoreBC, Mem.setRect, h.st, e1, Option.map_some, Option.bind_some, e2]
  rfl

theorem alnContinueC_eq (h : KAgree KC K S) (recC : Mem φ α → Option (Mem φ α)) (rec : Mem φ α → Mem φ α)
    (hrec : RecAgree S recC rec) (m : Mem φ α) (hm : MemS S m) (inF inB : States α) (fk bk : Kind)
    (sa ea sb eb mid meet t : Int) :
    alnContinueC KC recC m inF inB fk bk sa ea sb eb mid meet t =
        some (alnContinue K rec m inF inB fk bk sa ea sb eb mid meet t) ∧
      MemS S (alnContinue K rec m inF inB fk bk sa ea sb eb mid meet t) := by
  have two : ∀ (m3 : Mem φ α), MemS S m3 → ∀ (k2 k3 : Kind) (a b c d a' b' c' d' : Int),
      (((alnFwdC KC m3 inF fk k2 a b c d).bind recC).bind fun m =>
          (alnBwdC KC m inB bk k3 a' b' c' d').bind recC) =
        some (rec (alnBwd K (rec (alnFwd K m3 inF fk k2 a b c d)) inB bk k3 a' b' c' d')) ∧
      MemS S (rec (alnBwd K (rec (alnFwd K m3 inF fk k2 a b c d)) inB bk k3 a' b' c' d')) := by
    intro m3 h3 k2 k3 a b c d a' b' c' d'
    obtain ⟨e1, s1⟩ := alnFwdC_eq h m3 h3 inF fk k2 a b c d
    obtain ⟨e2, s2⟩ := hrec _ s1
    obtain ⟨e3, s3⟩ := alnBwdC_eq h _ s2 inB bk k3 a' b' c' d'
    obtain ⟨e4, s4⟩ := hrec _ s3
    refine ⟨?_, s4⟩
    rw [e1, Option.bind_some, e2, Option.bind_some, e3, Option.bind_some, e4]
  unfold alnContinueC alnContinue
  dsimp only
  split
  · exact two _ (memS_setPath (memS_setPath hm _ _) _ _) _ _ _ _ _ _ _ _ _ _
  split
  · exact two _ (memS_setPath hm _ _) _ _ _ _ _ _ _ _ _ _
  split
  · exact two _ (memS_setPath hm _ _) _ _ _ _ _ _ _ _ _ _
  split
  · exact two _ (memS_setPath hm _ _) _ _ _ _ _ _ _ _ _ _
  split
  · exact two _ hm _ _ _ _ _ _ _ _ _ _
  split
  · exact two _ (memS_setPath hm _ _) _ _ _ _ _ _ _ _ _ _
  · exact ⟨rfl, hm⟩

theorem runnerBodyC_eq (h : KAgree KC K S) (so : Bool) (recC : Mem φ α → Option (Mem φ α)) (rec : Mem φ α → Mem φ α)
    (hrec : RecAgree S recC rec) (m : Mem φ α) (hm : MemS S m) :
    runnerBodyC KC so recC m = some (runnerBody K so rec m) ∧ MemS S (runnerBody K so rec m) := by
  unfold runnerBodyC runnerBody
  rw [h.get0 _ hm.1, Option.bind_some, h.get0 _ hm.2, Option.bind_some]
  dsimp only
  obtain ⟨e, hs⟩ := h.step m.f m.b m.starta ((m.enda - m.starta) / 2 + m.starta) m.enda m.startb m.endb hm.1 hm.2
  rw [e, Option.bind_some]
  cases hr : K.step m.f m.b m.starta ((m.enda - m.starta) / 2 + m.starta) m.enda m.startb m.endb with
  | none => exact ⟨rfl, hm⟩
  | some r =>
    obtain ⟨s1, s2⟩ := hs r hr
    dsimp only
    cases so with
    | true => exact ⟨rfl, s1, s2⟩
    | false =>
      simp only [Bool.false_eq_true, if_false]
      exact alnContinueC_eq h recC rec hrec _ ⟨s1, s2⟩ _ _ _ _ _ _ _ _ _ _ _

theorem runnerSerialC_eq (h : KAgree KC K S) (so : Bool) (n : Nat) :
    RecAgree S (runnerSerialC KC so n) (runnerSerial K so n) := by
  induction n with
  | zero => intro m hm; exact ⟨rfl, hm⟩
  | succ n ih =>
    intro m hm
    rw [runnerSerialC, runnerSerial]
    split
    · exact ⟨rfl, hm⟩
    split
    · exact ⟨rfl, hm⟩
    split
    · exact ⟨rfl, hm⟩
    exact runnerBodyC_eq h so _ _ ih m hm

theorem runnerC_eq (h : KAgree KC K S) (so : Bool) (n : Nat) :
    RecAgree S (runnerC KC so n) (runner K so n) := by
  induction n with
  | zero => intro m hm; exact ⟨rfl, hm⟩
  | succ n ih =>
    intro m hm
    rw [runnerC, runner]
    split
    · exact ⟨rfl, hm⟩
    have hser : (if m.enda - m.starta < 500 then runnerSerialC KC so (n + 1) m else some m) =
          some (if m.enda - m.starta < 500 then runnerSerial K so (n + 1) m else m) ∧
        MemS S (if m.enda - m.starta < 500 then runnerSerial K so (n + 1) m else m) := by
      split
      · exact runnerSerialC_eq h so (n + 1) m hm
      · exact ⟨rfl, hm⟩
    obtain ⟨e, hs⟩ := hser
    rw [e, Option.bind_some]
    dsimp only
    generalize (if m.enda - m.starta < 500 then runnerSerial K so (n + 1) m else m) = m' at hs ⊢
    split
    · exact ⟨rfl, hs⟩
    split
    · exact ⟨rfl, hs⟩
    split
    · exact ⟨rfl, hs⟩
    exact runnerBodyC_eq h so _ _ ih _ hs

end generic
end Kalign

namespace Kalign
section real
variable {β : Type} [Score β]

omit [Score β] in
theorem blitC_eq (arr : Array (States β)) (at_ : Nat) (cells : List (States β)) :
    blitC arr at_ cells = some (blit arr at_ cells) := by
  unfold blitC blit
  split
  · rename_i hle
    have key : ∀ (cells : List (States β)) (p : Array (States β) × Nat), p.2 + cells.length ≤ p.1.size →
        foldlC (fun (p : Array (States β) × Nat) c => (asetC p.1 p.2 c).map fun a => (a, p.2 + 1)) p cells =
          some (cells.foldl (fun (p : Array (States β) × Nat) c => (p.1.set! p.2 c, p.2 + 1)) p) := by
      intro cells
      induction cells with
      | nil => intro p _; rfl
      | cons c cs ih =>
        intro p hp
        simp only [List.length_cons] at hp
        rw [foldlC, asetC_eq _ _ _ (by omega), Option.map_some, Option.bind_some, List.foldl_cons]
        exact ih _ (by simp; omega)
    rw [key cells (arr, at_) hle]
    rfl
  · rfl

omit [Score β] in
theorem blit_size_idx (arr a' : Array (States β)) (at_ : Nat) (cells : List (States β)) (h : blit arr at_ cells = some a') :
    a'.size = arr.size := by
  by_cases hle : at_ + cells.length ≤ arr.size
  · obtain ⟨a'', e, hs⟩ := blit_isSome arr at_ cells hle
    rw [e] at h
    cases h
    exact hs
  · unfold blit at h
    rw [if_neg hle] at h
    cases h

theorem realStepC_eq (ap : AlnParam β) (hw : ap.wf) (ops : Operands β) (lenA lenB : Nat)
    (hl : ops.lens? = some (lenA, lenB)) (f b : Array (States β)) (sa mid ea sb eb : Int) :
    realStepC ap ops lenA lenB f b sa mid ea sb eb = some (realStep ap ops lenA lenB f b sa mid ea sb eb) := by
  unfold realStepC realStep
  split
  · rename_i hc
    obtain ⟨h0, h1, h2, h3, h4, h5, h6, h7, h8⟩ := hc
    have vF : (⟨sa.toNat, mid.toNat, sb.toNat, eb.toNat, lenB⟩ : Rect).valid lenA lenB = true :=
      (Rect.valid_iff _ _ _).mpr ⟨by show sa.toNat ≤ mid.toNat; omega, by show mid.toNat ≤ lenA; omega,
        by show sb.toNat < eb.toNat; omega, by show eb.toNat ≤ lenB; omega, rfl⟩
    have vB : (⟨mid.toNat, ea.toNat, sb.toNat, eb.toNat, lenB⟩ : Rect).valid lenA lenB = true :=
      (Rect.valid_iff _ _ _).mpr ⟨by show mid.toNat ≤ ea.toNat; omega, by show ea.toNat ≤ lenA; omega,
        by show sb.toNat < eb.toNat; omega, by show eb.toNat ≤ lenB; omega, rfl⟩
    dsimp only
    rw [getElem?_eq_some_getD f 0 States.negInf h7, Option.bind_some, kForwardC_eq ap hw ops _ lenA lenB hl vF,
      Option.bind_some, getElem?_eq_some_getD b 0 States.negInf h8, Option.bind_some,
      kBackwardC_eq ap hw ops _ lenA lenB hl vB, Option.bind_some, blitC_eq, Option.bind_some, blitC_eq, Option.bind_some]
    cases blit f sb.toNat (kForward ap ops ⟨sa.toNat, mid.toNat, sb.toNat, eb.toNat, lenB⟩ (f.getD 0 States.negInf)) with
    | none => rfl
    | some f' =>
      cases blit b sb.toNat (kBackward ap ops ⟨mid.toNat, ea.toNat, sb.toNat, eb.toNat, lenB⟩ (b.getD 0 States.negInf)) with
      | none => rfl
      | some b' =>
        dsimp only
        rw [kMeetupC_eq ap ops _ lenA lenB mid.toNat hl vF (by omega) _ _
          (by rw [length_kForward]; exact Nat.le_refl _)]
        rfl
  · rfl

/-- **the checked real kernels agree with the totalised ones** on state arrays with a slot 0 -/
theorem realKernels_agree (ap : AlnParam β) (hw : ap.wf) (ops : Operands β) (lenA lenB : Nat)
    (hl : ops.lens? = some (lenA, lenB)) :
    KAgree (realKernelsC ap ops lenA lenB) (realKernels ap ops lenA lenB) (fun a : Array (States β) => 0 < a.size) where
  get0 := fun f hf => getElem?_eq_some_getD f 0 States.negInf hf
  set0 := fun f s hf => ⟨asetC_eq f 0 s hf, by simpa [realKernels] using hf⟩
  step := by
    intro f b sa mid ea sb eb hf hb
    refine ⟨realStepC_eq ap hw ops lenA lenB hl f b sa mid ea sb eb, ?_⟩
    intro r hr
    simp only [realKernels, realStep] at hr
    split at hr
    · try dsimp only at hr
      split at hr
      · rename_i f' b' ef eb'
        cases hr
        exact ⟨by rw [blit_size_idx _ _ _ _ ef]; exact hf, by rw [blit_size_idx _ _ _ _ eb']; exact hb⟩
      · cases hr
    · cases hr
  stA := rfl
  stGA := rfl
  stGB := rfl

theorem initMemC_eq (lenA lenB : Nat) :
    (initMemC lenA lenB : Option (Mem (Array (States β)) β)) = some (initMem lenA lenB) := by
  unfold initMemC initMem
  dsimp only
  rw [asetC_eq _ _ _ (by simp)]
  rfl

theorem initMem_memS (lenA lenB : Nat) :
    MemS (fun a : Array (States β) => 0 < a.size) (initMem lenA lenB : Mem (Array (States β)) β) := by
  constructor <;> simp [initMem]

/-- **every slot-0 read/write and every kernel access of a Hirschberg run is in range** -/
theorem alnRunC_eq (entry : Entry) (ap : AlnParam β) (hw : ap.wf) (ops : Operands β) (lenA lenB : Nat)
    (hl : ops.lens? = some (lenA, lenB)) (m : Mem (Array (States β)) β) (hf : 0 < m.f.size) (hb : 0 < m.b.size) :
    alnRunC entry ap ops lenA lenB m = some (alnRun entry ap ops lenA lenB m) := by
  unfold alnRunC alnRun
  cases entry with
  | parallel => exact (runnerC_eq (realKernels_agree ap hw ops lenA lenB hl) false m.fuel m ⟨hf, hb⟩).1
  | serial => exact (runnerSerialC_eq (realKernels_agree ap hw ops lenA lenB hl) false m.fuel m ⟨hf, hb⟩).1

/-! ## the path array keeps its size: `Mem.pathEntries` reads inside -/
section pathsize
variable {φ α : Type}

theorem setPath_path_size (m : Mem φ α) (i v : Int) : (m.setPath i v).path.size = m.path.size := by
  unfold Mem.setPath; split
  · simp
  · rfl

/-- a recursive call that keeps the size of the path array -/
def RecPath (rec : Mem φ α → Mem φ α) : Prop := ∀ m, (rec m).path.size = m.path.size

theorem alnContinue_path_size (K : Kernels φ α) (rec : Mem φ α → Mem φ α) (hrec : RecPath rec) (m : Mem φ α)
    (inF inB : States α) (fk bk : Kind) (sa ea sb eb mid meet t : Int) :
    (alnContinue K rec m inF inB fk bk sa ea sb eb mid meet t).path.size = m.path.size := by
  unfold alnContinue
  dsimp only
  repeat' split
  all_goals simp [hrec _, alnBwd, alnFwd, Mem.restoreB, Mem.restoreF, Mem.setF, Mem.setB, Mem.setRect, setPath_path_size]

theorem runnerBody_path_size (K : Kernels φ α) (so : Bool) (rec : Mem φ α → Mem φ α) (hrec : RecPath rec) (m : Mem φ α) :
    (runnerBody K so rec m).path.size = m.path.size := by
  unfold runnerBody
  dsimp only
  split
  · rfl
  · split
    · rfl
    · rw [alnContinue_path_size K rec hrec]

theorem runnerSerial_path_size (K : Kernels φ α) (so : Bool) (n : Nat) : RecPath (runnerSerial K so n) := by
  induction n with
  | zero => intro m; rfl
  | succ n ih =>
    intro m
    rw [runnerSerial]
    repeat' split
    all_goals first | rfl | exact runnerBody_path_size K so _ ih m

theorem runner_path_size (K : Kernels φ α) (so : Bool) (n : Nat) : RecPath (runner K so n) := by
  induction n with
  | zero => intro m; rfl
  | succ n ih =>
    intro m
    rw [runner]
    split
    · rfl
    dsimp only
    have hs : (if m.enda - m.starta < 500 then runnerSerial K so (n + 1) m else m).path.size = m.path.size := by
      split
      · exact runnerSerial_path_size K so (n + 1) m
      · rfl
    generalize (if m.enda - m.starta < 500 then runnerSerial K so (n + 1) m else m) = m' at hs ⊢
    repeat' split
    all_goals first | exact hs | (rw [runnerBody_path_size K so _ ih]; exact hs)

end pathsize

theorem alnRun_path_size (entry : Entry) (ap : AlnParam β) (ops : Operands β) (lenA lenB : Nat)
    (m : Mem (Array (States β)) β) : (alnRun entry ap ops lenA lenB m).path.size = m.path.size := by
  unfold alnRun
  cases entry with
  | parallel => exact runner_path_size _ _ _ m
  | serial => exact runnerSerial_path_size _ _ _ m

omit [Score β] in
theorem pathEntriesC_eq {φ : Type} (m : Mem φ β) (lenA : Nat) (h : lenA < m.path.size) :
    m.pathEntriesC lenA = some (m.pathEntries lenA) := by
  unfold Mem.pathEntriesC Mem.pathEntries
  apply mapC_eq
  intro i hi
  have := List.mem_range'_1.mp hi
  exact getElem?_eq_some_getD _ _ _ (by omega)

end real
end Kalign
