import KalignModel.Lemmas.Hirschberg
import KalignModel.Model.DoAlign
/-!
# The Hirschberg controller never faults (Model/Hirschberg.lean), whatever the comparisons answer

`runnerSerial_no_fault`: for kernels that (i) answer on every non-degenerate rectangle inside the operands when the
state arrays are large enough, (ii) keep the state arrays large enough and (iii) return a cut column inside the
rectangle *whenever the transition is one of the six* (`StepSafe`), a run of `aln_runner_serial` from a
memory whose rectangle lies inside the operands, with the fuel `Mem.fuel`, ends with `fault = false`.

`realKernels_stepSafe`: the real kernels (`realStep`) are `StepSafe` for **every** score carrier: nothing
here depends on the value of a score or on the outcome of a comparison (`Score.gt` may answer anything).
-/
namespace Kalign
variable {φ α : Type}

/-! ## generic controller -/

/-- what the controller needs from the kernels; `S` = "state array large enough" -/
structure StepSafe (K : Kernels φ α) (S : φ → Prop) (lenA lenB : Nat) : Prop where
  set0 : ∀ f s, S f → S (K.set0 f s)
  step : ∀ f b (sa mid ea sb eb : Int), S f → S b → 0 ≤ sa → sa ≤ mid → mid ≤ ea → ea ≤ lenA → 0 ≤ sb → sb < eb →
    eb ≤ lenB → ∃ r, K.step f b sa mid ea sb eb = some r ∧ S r.f ∧ S r.b ∧
      (ValidT r.transition → sb ≤ r.meet ∧ r.meet ≤ eb)

/-- the part of the invariant that does not mention the rectangle -/
structure MemCore (S : φ → Prop) (lenA : Nat) (m : Mem φ α) : Prop where
  fault : m.fault = false
  f : S m.f
  b : S m.b
  path : lenA < m.path.size

/-- size of a rectangle: strictly decreases in every recursive call -/
def Mem.meas (m : Mem φ α) : Nat := (m.enda - m.starta).toNat + (m.endb - m.startb).toNat

/-- precondition of a call -/
structure CallOK (S : φ → Prop) (lenA lenB : Nat) (n : Nat) (m : Mem φ α) : Prop where
  core : MemCore S lenA m
  sa : 0 ≤ m.starta
  ea : m.enda ≤ lenA
  sb : 0 ≤ m.startb
  eb : m.endb ≤ lenB
  fuel : m.meas < n

theorem setPath_core {S : φ → Prop} {lenA : Nat} {m : Mem φ α} (h : MemCore S lenA m) (i v : Int)
    (h0 : 0 ≤ i) (h1 : i ≤ lenA) : MemCore S lenA (m.setPath i v) := by
  have hlt : i.toNat < m.path.size := by have := h.path; omega
  unfold Mem.setPath
  rw [if_pos ⟨h0, hlt⟩]
  exact ⟨h.fault, h.f, h.b, by simpa using h.path⟩

@[simp] theorem setPath_starta (m : Mem φ α) (i v : Int) : (m.setPath i v).starta = m.starta := by
  unfold Mem.setPath; split <;> rfl
@[simp] theorem setPath_enda (m : Mem φ α) (i v : Int) : (m.setPath i v).enda = m.enda := by
  unfold Mem.setPath; split <;> rfl
@[simp] theorem setPath_startb (m : Mem φ α) (i v : Int) : (m.setPath i v).startb = m.startb := by
  unfold Mem.setPath; split <;> rfl
@[simp] theorem setPath_endb (m : Mem φ α) (i v : Int) : (m.setPath i v).endb = m.endb := by
  unfold Mem.setPath; split <;> rfl

theorem alnFwd_callOK {K : Kernels φ α} {S : φ → Prop} {lenA lenB n : Nat} (hK : StepSafe K S lenA lenB)
    {m : Mem φ α} (h : MemCore S lenA m) (inF : States α) (k1 k2 : Kind) (a b c d : Int)
    (h1 : 0 ≤ a) (h2 : b ≤ lenA) (h3 : 0 ≤ c) (h4 : d ≤ lenB) (h5 : (b - a).toNat + (d - c).toNat < n) :
    CallOK S lenA lenB n (alnFwd K m inF k1 k2 a b c d) :=
  { core := ⟨h.fault, hK.set0 _ _ h.f, hK.set0 _ _ h.b, h.path⟩
    sa := h1, ea := h2, sb := h3, eb := h4, fuel := h5 }

theorem alnBwd_callOK {K : Kernels φ α} {S : φ → Prop} {lenA lenB n : Nat} (hK : StepSafe K S lenA lenB)
    {m : Mem φ α} (h : MemCore S lenA m) (inB : States α) (k1 k2 : Kind) (a b c d : Int)
    (h1 : 0 ≤ a) (h2 : b ≤ lenA) (h3 : 0 ≤ c) (h4 : d ≤ lenB) (h5 : (b - a).toNat + (d - c).toNat < n) :
    CallOK S lenA lenB n (alnBwd K m inB k1 k2 a b c d) :=
  { core := ⟨h.fault, hK.set0 _ _ h.f, hK.set0 _ _ h.b, h.path⟩
    sa := h1, ea := h2, sb := h3, eb := h4, fuel := h5 }

/-- `aln_continue` keeps the invariant when the recursive calls do -/
theorem alnContinue_core {K : Kernels φ α} {S : φ → Prop} {lenA lenB n : Nat} (hK : StepSafe K S lenA lenB)
    (rec : Mem φ α → Mem φ α) (hrec : ∀ x, CallOK S lenA lenB n x → MemCore S lenA (rec x))
    (m : Mem φ α) (hm : MemCore S lenA m) (inF inB : States α) (fk bk : Kind) (sa ea sb eb mid meet t : Int)
    (h0 : 0 ≤ sa) (h1 : sa ≤ mid) (h2 : mid < ea) (h3 : ea ≤ lenA) (h4 : 0 ≤ sb) (h5 : sb < eb) (h6 : eb ≤ lenB)
    (hfuel : (ea - sa).toNat + (eb - sb).toNat ≤ n)
    (hmeet : ValidT t → sb ≤ meet ∧ meet ≤ eb) :
    MemCore S lenA (alnContinue K rec m inF inB fk bk sa ea sb eb mid meet t) := by
  by_cases ht : ValidT t
  · obtain ⟨hm1, hm2⟩ := hmeet ht
    have two : ∀ (m3 : Mem φ α), MemCore S lenA m3 → ∀ (k2 k3 : Kind) (a b c d a' b' c' d' : Int),
        0 ≤ a → b ≤ lenA → 0 ≤ c → d ≤ lenB → (b - a).toNat + (d - c).toNat < n →
        0 ≤ a' → b' ≤ lenA → 0 ≤ c' → d' ≤ lenB → (b' - a').toNat + (d' - c').toNat < n →
        MemCore S lenA (rec (alnBwd K (rec (alnFwd K m3 inF fk k2 a b c d)) inB bk k3 a' b' c' d')) := by
      intro m3 h3' k2 k3 a b c d a' b' c' d' p1 p2 p3 p4 p5 q1 q2 q3 q4 q5
      exact hrec _ (alnBwd_callOK hK (hrec _ (alnFwd_callOK hK h3' inF fk k2 a b c d p1 p2 p3 p4 p5))
        inB bk k3 a' b' c' d' q1 q2 q3 q4 q5)
    rcases ht with h | h | h | h | h | h <;> subst h
    · rw [alnContinue_1]
      exact two _ (setPath_core (setPath_core hm _ _ (by omega) (by omega)) _ _ (by omega) (by omega)) _ _ _ _ _ _ _ _ _ _
        (by omega) (by omega) (by omega) (by omega) (by omega) (by omega) (by omega) (by omega) (by omega) (by omega)
    · rw [alnContinue_2]
      exact two _ (setPath_core hm _ _ (by omega) (by omega)) _ _ _ _ _ _ _ _ _ _
        (by omega) (by omega) (by omega) (by omega) (by omega) (by omega) (by omega) (by omega) (by omega) (by omega)
    · rw [alnContinue_3]
      exact two _ (setPath_core hm _ _ (by omega) (by omega)) _ _ _ _ _ _ _ _ _ _
        (by omega) (by omega) (by omega) (by omega) (by omega) (by omega) (by omega) (by omega) (by omega) (by omega)
    · rw [alnContinue_5]
      exact two _ (setPath_core hm _ _ (by omega) (by omega)) _ _ _ _ _ _ _ _ _ _
        (by omega) (by omega) (by omega) (by omega) (by omega) (by omega) (by omega) (by omega) (by omega) (by omega)
    · rw [alnContinue_6]
      exact two _ hm _ _ _ _ _ _ _ _ _ _
        (by omega) (by omega) (by omega) (by omega) (by omega) (by omega) (by omega) (by omega) (by omega) (by omega)
    · rw [alnContinue_7]
      exact two _ (setPath_core hm _ _ (by omega) (by omega)) _ _ _ _ _ _ _ _ _ _
        (by omega) (by omega) (by omega) (by omega) (by omega) (by omega) (by omega) (by omega) (by omega) (by omega)
  · have : alnContinue K rec m inF inB fk bk sa ea sb eb mid meet t = m := by
      unfold ValidT at ht
      unfold alnContinue
      simp only
      repeat' split
      all_goals first | rfl | (exfalso; omega)
    rw [this]; exact hm

/-- **the serial controller never faults** on kernels that are `StepSafe`: enough fuel, every path write inside the
array, every kernel call inside the operands -/
theorem runnerSerial_core {K : Kernels φ α} {S : φ → Prop} {lenA lenB : Nat} (hK : StepSafe K S lenA lenB)
    (n : Nat) (m : Mem φ α) (h : CallOK S lenA lenB n m) : MemCore S lenA (runnerSerial K false n m) := by
  induction n generalizing m with
  | zero => exact absurd h.fuel (by omega)
  | succ n ih =>
    rw [runnerSerial]
    have hf : ¬ m.fault = true := by simp [h.core.fault]
    rw [if_neg hf]
    by_cases ha : m.starta ≥ m.enda
    · rw [if_pos ha]; exact h.core
    rw [if_neg ha]
    by_cases hb : m.startb ≥ m.endb
    · rw [if_pos hb]; exact h.core
    rw [if_neg hb]
    unfold runnerBody
    simp only [Bool.false_eq_true, if_false]
    have hmid1 : m.starta ≤ (m.enda - m.starta) / 2 + m.starta := by omega
    have hmid2 : (m.enda - m.starta) / 2 + m.starta < m.enda := by omega
    obtain ⟨r, hr, hrf, hrb, hmeet⟩ := hK.step m.f m.b m.starta ((m.enda - m.starta) / 2 + m.starta) m.enda m.startb m.endb
      h.core.f h.core.b h.sa hmid1 (by omega) h.ea h.sb (by omega) h.eb
    rw [hr]
    simp only
    have hfu := h.fuel
    unfold Mem.meas at hfu
    refine alnContinue_core hK _ (fun x hx => ih x hx) _ ?_ _ _ _ _ _ _ _ _ _ _ _
      h.sa hmid1 hmid2 h.ea h.sb (by omega) h.eb (by omega) hmeet
    exact ⟨h.core.fault, hrf, hrb, h.core.path⟩

theorem runnerSerial_no_fault {K : Kernels φ α} {S : φ → Prop} {lenA lenB : Nat} (hK : StepSafe K S lenA lenB)
    (m : Mem φ α) (hcore : MemCore S lenA m) (hsa : 0 ≤ m.starta) (hea : m.enda ≤ lenA) (hsb : 0 ≤ m.startb)
    (heb : m.endb ≤ lenB) : (runnerSerial K false m.fuel m).fault = false :=
  (runnerSerial_core hK m.fuel m ⟨hcore, hsa, hea, hsb, heb, by unfold Mem.fuel Mem.meas; omega⟩).fault

/-! ## the real kernels -/
section real
variable {β : Type} [Score β]

theorem length_initRowGo (g : Nat → β → β → β) (n k : Nat) (p : States β) : (initRowGo g n k p).length = n := by
  induction n using Nat.strongRecOn generalizing k p with
  | _ n ih =>
    match n with
    | 0 => rfl
    | 1 => rfl
    | r + 2 => simp only [initRowGo, List.length_cons]; rw [ih (r + 1) (by omega)]

theorem length_initRow (g : Nat → β → β → β) (n : Nat) (s : States β) : (initRow g n s).length = n + 1 := by
  simp [initRow, length_initRowGo]

theorem length_rowGo (ops : RowOps β) (k : Nat) (a b c d e : β) (cells : List (States β)) :
    (rowGo ops k a b c d e cells).length = cells.length := by
  induction cells generalizing k a b c d e with
  | nil => rfl
  | cons x rest ih =>
    cases rest with
    | nil => rfl
    | cons y ys => simp only [rowGo, List.length_cons]; rw [ih]; rfl

theorem length_rowStep (ops : RowOps β) (cells : List (States β)) : (rowStep ops cells).length = cells.length := by
  cases cells with
  | nil => rfl
  | cons c rest => simp [rowStep, length_rowGo]

theorem length_runKernel (g : Nat → β → β → β) (n : Nat) (s : States β) (rows : List (RowOps β)) :
    (runKernel g n s rows).length = n + 1 := by
  unfold runKernel
  have : ∀ (cells : List (States β)), (rows.foldl (fun cells ops => rowStep ops cells) cells).length = cells.length := by
    induction rows with
    | nil => intro _; rfl
    | cons r rs ih => intro cells; rw [List.foldl_cons, ih, length_rowStep]
  rw [this, length_initRow]

theorem length_kForward (ap : AlnParam β) (ops : Operands β) (r : Rect) (s : States β) :
    (kForward ap ops r s).length = r.endb - r.startb + 1 := by
  cases ops <;> simp [kForward, ssForward, spForward, ppForward, length_runKernel]

theorem length_kBackward (ap : AlnParam β) (ops : Operands β) (r : Rect) (s : States β) :
    (kBackward ap ops r s).length = r.endb - r.startb + 1 := by
  cases ops <;> simp [kBackward, ssBackward, spBackward, ppBackward, length_runKernel]

/-- the accumulator of `meetup` before column `i` -/
def AccInv (sb : Int) (i : Int) (acc : MeetAcc β) : Prop :=
  ValidT acc.transition → sb ≤ acc.c ∧ acc.c < i

omit [Score β] in
theorem AccInv.mono {sb : Int} {i j : Int} {acc : MeetAcc β} (h : AccInv sb i acc) (hij : i ≤ j) : AccInv sb j acc :=
  fun hv => by have := h hv; omega

theorem AccInv.try_ {sb : Int} {i : Nat} {acc : MeetAcc β} (h : AccInv sb ((i : Int) + 1) acc) (v : β) (t : Int)
    (hsb : sb ≤ i) : AccInv sb ((i : Int) + 1) (acc.try_ v t i) := by
  unfold MeetAcc.try_
  split
  · intro _; exact ⟨hsb, by show (i : Int) < i + 1; omega⟩
  · exact h

theorem meetupLoop_range (ops : MeetOps β) (sb eb : Nat) (fs bs : List (States β)) (i : Nat) (acc : MeetAcc β)
    (hsb : sb ≤ i) (hacc : AccInv (sb : Int) i acc) :
    AccInv (sb : Int) ((i : Int) + fs.length) (meetupLoop ops sb eb i fs bs acc) := by
  induction fs generalizing bs i acc with
  | nil =>
    rw [meetupLoop.eq_3 _ _ _ _ _ _ _ (by simp) (by simp)]
    exact hacc.mono (by simp)
  | cons f fs ih =>
    cases bs with
    | nil =>
      rw [meetupLoop.eq_3 _ _ _ _ _ _ _ (by simp) (by simp)]
      exact hacc.mono (by simp only [List.length_cons]; omega)
    | cons b bs =>
      have hsb' : (sb : Int) ≤ (i : Int) := by exact_mod_cast hsb
      have h1 : AccInv (sb : Int) ((i : Int) + 1) acc := hacc.mono (by omega)
      by_cases hone : fs = [] ∧ bs = []
      · obtain ⟨e1, e2⟩ := hone
        subst e1; subst e2
        simp only [meetupLoop, List.length_cons, List.length_nil]
        exact ((h1.try_ _ 3 hsb').try_ _ 6 hsb').mono (by omega)
      · rw [meetupLoop.eq_2 _ _ _ _ _ _ _ _ _ (fun a b => hone ⟨a, b⟩)]
        have h6 := (((((h1.try_ (Score.sub (Score.add f.a b.a) (Score.tie sb eb i)) 1 hsb').try_
          (Score.sub (ops.g2 i (Score.add f.a b.ga)) (Score.tie sb eb i)) 2 hsb').try_
          (Score.sub (ops.g3 (Score.add f.a b.gb)) (Score.tie sb eb i)) 3 hsb').try_
          (Score.sub (ops.g5 i (Score.add f.ga b.a)) (Score.tie sb eb i)) 5 hsb').try_
          (Score.sub (ops.g6 (Score.add f.gb b.gb)) (Score.tie sb eb i)) 6 hsb').try_
          (Score.sub (ops.g7 (Score.add f.gb b.a)) (Score.tie sb eb i)) 7 hsb'
        have := ih bs (i + 1) _ (by omega) (by simpa using h6)
        refine this.mono ?_
        simp only [List.length_cons]; omega

theorem meetupRun_range (ops : MeetOps β) (sb eb : Nat) (fs bs : List (States β)) (hlen : fs.length = eb - sb + 1)
    (hle : sb ≤ eb) :
    ValidT (meetupRun ops sb eb fs bs).transition →
      (sb : Int) ≤ (meetupRun ops sb eb fs bs).meet ∧ (meetupRun ops sb eb fs bs).meet ≤ eb := by
  intro hv
  have h0 : AccInv (sb : Int) (sb : Int) (⟨Score.negInf, -1, -1⟩ : MeetAcc β) := by
    intro h; revert h; unfold ValidT; simp
  have := meetupLoop_range ops sb eb fs bs sb _ (Nat.le_refl _) h0
  have h := this hv
  simp only [meetupRun]
  rw [hlen] at h
  omega

theorem kMeetup_range (ap : AlnParam β) (ops : Operands β) (r : Rect) (mid : Nat) (fs bs : List (States β))
    (hlen : fs.length = r.endb - r.startb + 1) (hle : r.startb ≤ r.endb) :
    ValidT (kMeetup ap ops r mid fs bs).transition →
      (r.startb : Int) ≤ (kMeetup ap ops r mid fs bs).meet ∧ (kMeetup ap ops r mid fs bs).meet ≤ r.endb := by
  cases ops <;> exact meetupRun_range _ _ _ _ _ hlen hle

omit [Score β] in
theorem blit_isSome (arr : Array (States β)) (at_ : Nat) (cells : List (States β)) (h : at_ + cells.length ≤ arr.size) :
    ∃ a', blit arr at_ cells = some a' ∧ a'.size = arr.size := by
  unfold blit
  rw [if_pos h]
  refine ⟨_, rfl, ?_⟩
  have : ∀ (cells : List (States β)) (p : Array (States β) × Nat),
      (cells.foldl (fun (p : Array (States β) × Nat) c => (p.1.set! p.2 c, p.2 + 1)) p).1.size = p.1.size := by
    intro cells
    induction cells with
    | nil => intro p; rfl
    | cons c cs ih => intro p; rw [List.foldl_cons, ih]; simp
  exact this cells _

/-- the real kernels are safe for the controller, for every score carrier and whatever `Score.gt` answers -/
theorem realKernels_stepSafe (ap : AlnParam β) (ops : Operands β) (lenA lenB : Nat) :
    StepSafe (realKernels ap ops lenA lenB) (fun a : Array (States β) => lenB + 1 ≤ a.size) lenA lenB where
  set0 := by intro f s h; simpa [realKernels] using h
  step := by
    intro f b sa mid ea sb eb hf hb h0 h1 h2 h3 h4 h5 h6
    simp only [realKernels, realStep]
    have hcond : 0 ≤ sa ∧ sa ≤ mid ∧ mid ≤ ea ∧ ea ≤ (lenA : Int) ∧ 0 ≤ sb ∧ sb < eb ∧ eb ≤ (lenB : Int) ∧
        0 < f.size ∧ 0 < b.size := ⟨h0, h1, h2, h3, h4, h5, h6, by omega, by omega⟩
    rw [if_pos hcond]
    have hl1 := length_kForward ap ops ⟨sa.toNat, mid.toNat, sb.toNat, eb.toNat, lenB⟩ (f.getD 0 States.negInf)
    have hl2 := length_kBackward ap ops ⟨mid.toNat, ea.toNat, sb.toNat, eb.toNat, lenB⟩ (b.getD 0 States.negInf)
    try dsimp only at hl1 hl2
    obtain ⟨f', hf', hfs⟩ := blit_isSome f sb.toNat _ (by rw [hl1]; omega)
    obtain ⟨b', hb', hbs⟩ := blit_isSome b sb.toNat _ (by rw [hl2]; omega)
    rw [hf', hb']
    refine ⟨_, rfl, by simpa [hfs] using hf, by simpa [hbs] using hb, ?_⟩
    intro hv
    have := kMeetup_range ap ops ⟨sa.toNat, mid.toNat, sb.toNat, eb.toNat, lenB⟩ mid.toNat _
      (kBackward ap ops ⟨mid.toNat, ea.toNat, sb.toNat, eb.toNat, lenB⟩ (b.getD 0 States.negInf)) hl1
      (by simp only; omega) hv
    simp only at this
    dsimp only
    omega

theorem initMem_core (lenA lenB : Nat) :
    MemCore (fun a : Array (States β) => lenB + 1 ≤ a.size) lenA (initMem lenA lenB : Mem (Array (States β)) β) := by
  refine ⟨rfl, ?_, ?_, ?_⟩ <;> simp [initMem] <;> omega

/-- **`aln_runner_serial` started by `do_align` never faults**: any operands, any lengths, any score carrier,
any outcome of the score comparisons -/
theorem alnRun_serial_no_fault (ap : AlnParam β) (ops : Operands β) (lenA lenB : Nat) :
    (alnRun .serial ap ops lenA lenB (initMem lenA lenB)).fault = false := by
  unfold alnRun
  exact runnerSerial_no_fault (realKernels_stepSafe ap ops lenA lenB) _ (initMem_core lenA lenB)
    (by simp [initMem]) (by simp [initMem]) (by simp [initMem]) (by simp [initMem])

/-- the callers read `path[1..len_a]`: inside the path array the run leaves behind -/
theorem alnRun_serial_path_size (ap : AlnParam β) (ops : Operands β) (lenA lenB : Nat) :
    lenA < (alnRun .serial ap ops lenA lenB (initMem lenA lenB)).path.size := by
  unfold alnRun
  exact (runnerSerial_core (realKernels_stepSafe ap ops lenA lenB) _ _
    ⟨initMem_core lenA lenB, by simp [initMem], by simp [initMem], by simp [initMem], by simp [initMem],
      by unfold Mem.fuel Mem.meas; omega⟩).path

end real
end Kalign
