import KalignModel.Lemmas.SoftKernelU
import KalignModel.Lemmas.SoftMeet
/-!
# The meetup on the software binary32, unit `2^u` as a parameter

`SoftMeet.lean` (fixed unit 2²⁰) with the unit exponent `u ≤ 79` as a parameter.
`tryAll_scanU`: scanning candidates that are each sentinel-like or bounded, starting from the sentinel `-FLT_MAX`, the accumulator
is either still the sentinel (`transition = -1`, no bounded candidate seen) or holds a bounded candidate that was seen.
`meetupRun_clsU`: with forward and backward cells classified against exact tables, the meetup returns an admissible cut whose
two parts are finite in the exact tables whenever there is one, and its sentinel otherwise.
-/
namespace Kalign
open SoftF32

/-! ## the meetup: the winner is a candidate with two finite parts -/

/-- state of the scan: still the sentinel (no bounded candidate seen), or a bounded maximum that belongs to a seen candidate
whose flag `P` is true -/
def MeetScanInvU (u B : Nat) (P : Int → Nat → Bool) (pre : List (SoftF32 × Int × Nat)) (acc : MeetAcc SoftF32) : Prop :=
  (acc.max = negMax ∧ acc.transition = -1 ∧ ∀ c ∈ pre, P c.2.1 c.2.2 = false) ∨
  (absLe acc.max (B * 2 ^ u) ∧ ∃ c ∈ pre, P c.2.1 c.2.2 = true ∧ acc.transition = c.2.1 ∧ acc.c = (c.2.2 : Int))

theorem try_scanU (u : Nat) (hu : u ≤ 79) (B : Nat) (hB : B < 16777216) (P : Int → Nat → Bool)
    (pre : List (SoftF32 × Int × Nat)) (acc : MeetAcc SoftF32) (c : SoftF32 × Int × Nat)
    (hc : ClsU u B c.1 (P c.2.1 c.2.2)) (h : MeetScanInvU u B P pre acc) :
    MeetScanInvU u B P (pre ++ [c]) (acc.try_ c.1 c.2.1 c.2.2) := by
  unfold MeetAcc.try_
  show MeetScanInvU u B P (pre ++ [c]) (if gt c.1 acc.max = true then ⟨c.1, c.2.1, c.2.2⟩ else acc)
  cases hP : P c.2.1 c.2.2
  · rw [hP] at hc
    have hs : Sent c.1 := by simpa using hc
    rcases h with ⟨h1, h2, h3⟩ | ⟨h1, c', hc', h2⟩
    · rw [h1, gt_sent_negMax hs]
      simp only [Bool.false_eq_true, if_false]
      left
      refine ⟨h1, h2, ?_⟩
      intro d hd
      rcases List.mem_append.1 hd with hd | hd
      · exact h3 d hd
      · simp only [List.mem_singleton] at hd; subst hd; exact hP
    · rw [gt_sent_fin hs h1 (unitU_lt127 hu hB)]
      simp only [Bool.false_eq_true, if_false]
      right
      exact ⟨h1, c', List.mem_append_left _ hc', h2⟩
  · rw [hP] at hc
    have hf : absLe c.1 (B * 2 ^ u) := by simpa using hc
    have hnew : MeetScanInvU u B P (pre ++ [c]) ⟨c.1, c.2.1, c.2.2⟩ :=
      Or.inr ⟨hf, c, List.mem_append_right _ (List.mem_singleton.2 rfl), hP, rfl, rfl⟩
    rcases h with ⟨h1, h2, h3⟩ | ⟨h1, c', hc', h2⟩
    · rw [h1, gt_fin_sent hf (unitU_lt127 hu hB) (Or.inl rfl)]
      simpa using hnew
    · split
      · exact hnew
      · right
        exact ⟨h1, c', List.mem_append_left _ hc', h2⟩

theorem tryAll_scanU (u : Nat) (hu : u ≤ 79) (B : Nat) (hB : B < 16777216) (P : Int → Nat → Bool) :
    ∀ (cs pre : List (SoftF32 × Int × Nat)) (acc : MeetAcc SoftF32),
      (∀ c ∈ cs, ClsU u B c.1 (P c.2.1 c.2.2)) → MeetScanInvU u B P pre acc →
        MeetScanInvU u B P (pre ++ cs) (tryAll acc cs) := by
  intro cs
  induction cs with
  | nil => intro pre acc _ h; simpa [tryAll] using h
  | cons c cs ih =>
    intro pre acc hall h
    have h1 := try_scanU u hu B hB P pre acc c (hall c (List.mem_cons_self ..)) h
    have h2 := ih (pre ++ [c]) _ (fun d hd => hall d (List.mem_cons_of_mem _ hd)) h1
    have e : pre ++ [c] ++ cs = pre ++ c :: cs := by simp
    rw [e] at h2
    exact h2

/-- the scan from the sentinel -/
theorem tryAll_from_sentinelU (u : Nat) (hu : u ≤ 79) (B : Nat) (hB : B < 16777216) (P : Int → Nat → Bool)
    (cs : List (SoftF32 × Int × Nat)) (hall : ∀ c ∈ cs, ClsU u B c.1 (P c.2.1 c.2.2)) :
    MeetScanInvU u B P cs (tryAll ⟨Score.negInf, -1, -1⟩ cs) := by
  have := tryAll_scanU u hu B hB P cs [] ⟨Score.negInf, -1, -1⟩ hall (Or.inl ⟨rfl, rfl, by simp⟩)
  simpa using this

/-- the penalty terms of the meetup keep the class, one more unit -/
structure MeetOpsBndU (u : Nat) (ops : MeetOps SoftF32) : Prop where
  g2 : ∀ (i B : Nat) (x : SoftF32) (p : Bool), B + 1 < 16777216 → ClsU u B x p → ClsU u (B + 1) (ops.g2 i x) p
  g3 : ∀ (B : Nat) (x : SoftF32) (p : Bool), B + 1 < 16777216 → ClsU u B x p → ClsU u (B + 1) (ops.g3 x) p
  g5 : ∀ (i B : Nat) (x : SoftF32) (p : Bool), B + 1 < 16777216 → ClsU u B x p → ClsU u (B + 1) (ops.g5 i x) p
  g6 : ∀ (B : Nat) (x : SoftF32) (p : Bool), B + 1 < 16777216 → ClsU u B x p → ClsU u (B + 1) (ops.g6 x) p
  g7 : ∀ (B : Nat) (x : SoftF32) (p : Bool), B + 1 < 16777216 → ClsU u B x p → ClsU u (B + 1) (ops.g7 x) p
  g6e : ∀ (B : Nat) (x : SoftF32) (p : Bool), B + 1 < 16777216 → ClsU u B x p → ClsU u (B + 1) (ops.g6e x) p

theorem cand_plainU {u : Nat} (hu : u ≤ 79) {Bf Bb : Nat} {x y t : SoftF32} {p q : Bool} (hx : ClsU u Bf x p)
    (hy : ClsU u Bb y q) (ht : absLe t (1 * 2 ^ u)) (hB : Bf + Bb + 2 < 16777216) :
    ClsU u (Bf + Bb + 2) (Score.sub (Score.add x y) t) (p && q) := by
  have h1 : ClsU u (Bf + Bb) (Score.add x y) (p && q) := clsU_add hu (B := Bf) (B' := Bb) hx hy (by omega)
  have h2 : ClsU u (Bf + Bb + 1) (Score.sub (Score.add x y) t) (p && q) :=
    clsU_sub_pen hu (B := Bf + Bb) (B' := 1) h1 ht (by omega)
  exact h2.mono (by omega)

theorem cand_penU {u : Nat} (hu : u ≤ 79) {Bf Bb : Nat} {x y t : SoftF32} {p q : Bool} (g : SoftF32 → SoftF32)
    (hg : ∀ (B : Nat) (x : SoftF32) (p : Bool), B + 1 < 16777216 → ClsU u B x p → ClsU u (B + 1) (g x) p)
    (hx : ClsU u Bf x p) (hy : ClsU u Bb y q) (ht : absLe t (1 * 2 ^ u)) (hB : Bf + Bb + 2 < 16777216) :
    ClsU u (Bf + Bb + 2) (Score.sub (g (Score.add x y)) t) (p && q) := by
  have h1 : ClsU u (Bf + Bb) (Score.add x y) (p && q) := clsU_add hu (B := Bf) (B' := Bb) hx hy (by omega)
  have h2 : ClsU u (Bf + Bb + 1) (g (Score.add x y)) (p && q) := hg _ _ _ (by omega) h1
  have h3 : ClsU u (Bf + Bb + 1 + 1) (Score.sub (g (Score.add x y)) t) (p && q) :=
    clsU_sub_pen hu (B := Bf + Bb + 1) (B' := 1) h2 ht (by omega)
  exact h3

theorem cellCands_clsU (u : Nat) (hu : u ≤ 79) (ops : MeetOps SoftF32) (hops : MeetOpsBndU u ops) (sb eb i Bf Bb : Nat)
    (f b : States SoftF32) (ef eb' : States ExactScore) (hB : Bf + Bb + 2 < 16777216)
    (hf : StClsU u Bf f ef) (hb : StClsU u Bb b eb') (ht : absLe (Score.tie sb eb i : SoftF32) (1 * 2 ^ u)) :
    ∀ c ∈ cellCands ops sb eb i f b,
      ClsU u (Bf + Bb + 2) c.1 ((ef.get (fkOf c.2.1)).isSome && (eb'.get (bkOf c.2.1)).isSome) ∧ c.2.2 = i ∧
        (c.2.1 = 1 ∨ c.2.1 = 2 ∨ c.2.1 = 3 ∨ c.2.1 = 5 ∨ c.2.1 = 6 ∨ c.2.1 = 7) := by
  intro c hc
  simp only [cellCands, List.mem_cons, List.not_mem_nil, or_false] at hc
  rcases hc with rfl | rfl | rfl | rfl | rfl | rfl
  · refine ⟨?_, rfl, Or.inl rfl⟩
    simp only [fkOf_1, bkOf_1, States.get_A]
    exact cand_plainU hu hf.1 hb.1 ht hB
  · refine ⟨?_, rfl, Or.inr (Or.inl rfl)⟩
    simp only [fkOf_2, bkOf_2, States.get_A, States.get_GA]
    exact cand_penU hu (ops.g2 _) (hops.g2 _) hf.1 hb.2.1 ht hB
  · refine ⟨?_, rfl, Or.inr (Or.inr (Or.inl rfl))⟩
    simp only [fkOf_3, bkOf_3, States.get_A, States.get_GB]
    exact cand_penU hu ops.g3 hops.g3 hf.1 hb.2.2 ht hB
  · refine ⟨?_, rfl, Or.inr (Or.inr (Or.inr (Or.inl rfl)))⟩
    simp only [fkOf_5, bkOf_5, States.get_A, States.get_GA]
    exact cand_penU hu (ops.g5 _) (hops.g5 _) hf.2.1 hb.1 ht hB
  · refine ⟨?_, rfl, Or.inr (Or.inr (Or.inr (Or.inr (Or.inl rfl))))⟩
    simp only [fkOf_6, bkOf_6, States.get_GB]
    exact cand_penU hu ops.g6 hops.g6 hf.2.2 hb.2.2 ht hB
  · refine ⟨?_, rfl, Or.inr (Or.inr (Or.inr (Or.inr (Or.inr rfl))))⟩
    simp only [fkOf_7, bkOf_7, States.get_A, States.get_GB]
    exact cand_penU hu ops.g7 hops.g7 hf.2.2 hb.1 ht hB

theorem lastCands_clsU (u : Nat) (hu : u ≤ 79) (ops : MeetOps SoftF32) (hops : MeetOpsBndU u ops) (sb eb i Bf Bb : Nat)
    (f b : States SoftF32) (ef eb' : States ExactScore) (hB : Bf + Bb + 2 < 16777216)
    (hf : StClsU u Bf f ef) (hb : StClsU u Bb b eb') (ht : absLe (Score.tie sb eb i : SoftF32) (1 * 2 ^ u)) :
    ∀ c ∈ lastCands ops sb eb i f b,
      ClsU u (Bf + Bb + 2) c.1 ((ef.get (fkOf c.2.1)).isSome && (eb'.get (bkOf c.2.1)).isSome) ∧ c.2.2 = i ∧
        (c.2.1 = 3 ∨ c.2.1 = 6) := by
  intro c hc
  simp only [lastCands, List.mem_cons, List.not_mem_nil, or_false] at hc
  rcases hc with rfl | rfl
  · refine ⟨?_, rfl, Or.inl rfl⟩
    simp only [fkOf_3, bkOf_3, States.get_A, States.get_GB]
    exact cand_penU hu ops.g3 hops.g3 hf.1 hb.2.2 ht hB
  · refine ⟨?_, rfl, Or.inr rfl⟩
    simp only [fkOf_6, bkOf_6, States.get_GB]
    exact cand_penU hu ops.g6e hops.g6e hf.2.2 hb.2.2 ht hB

theorem allCands_clsU (u : Nat) (hu : u ≤ 79) (ops : MeetOps SoftF32) (hops : MeetOpsBndU u ops) (sb eb Bf Bb : Nat)
    (F Bk : Nat → States SoftF32) (EF EB : Nat → States ExactScore) (hB : Bf + Bb + 2 < 16777216) :
    ∀ d k0, (∀ k, k0 ≤ k → k ≤ k0 + d → StClsU u Bf (F k) (EF k) ∧ StClsU u Bb (Bk k) (EB k) ∧
        absLe (Score.tie sb eb (sb + k) : SoftF32) (1 * 2 ^ u)) →
      ∀ c ∈ allCands ops sb eb F Bk k0 d,
        ClsU u (Bf + Bb + 2) c.1 (finAt EF EB sb c.2.1 c.2.2) ∧ ∃ k, AdmFrom k0 d k c.2.1 ∧ c.2.2 = sb + k := by
  intro d
  induction d with
  | zero =>
    intro k0 h c hc
    simp only [allCands] at hc
    obtain ⟨h1, h2, h3⟩ := h k0 (Nat.le_refl _) (by omega)
    obtain ⟨c1, c2, c3⟩ := lastCands_clsU u hu ops hops sb eb (sb + k0) Bf Bb _ _ _ _ hB h1 h2 h3 c hc
    refine ⟨?_, k0, Or.inr ⟨by omega, c3⟩, c2⟩
    unfold finAt
    rw [c2, Nat.add_sub_cancel_left]
    exact c1
  | succ d ih =>
    intro k0 h c hc
    simp only [allCands, List.mem_append] at hc
    rcases hc with hc | hc
    · obtain ⟨h1, h2, h3⟩ := h k0 (Nat.le_refl _) (by omega)
      obtain ⟨c1, c2, c3⟩ := cellCands_clsU u hu ops hops sb eb (sb + k0) Bf Bb _ _ _ _ hB h1 h2 h3 c hc
      refine ⟨?_, k0, Or.inl ⟨Nat.le_refl _, by omega, c3⟩, c2⟩
      unfold finAt
      rw [c2, Nat.add_sub_cancel_left]
      exact c1
    · obtain ⟨c1, k, c2, c3⟩ := ih (k0 + 1) (fun k hk1 hk2 => h k (by omega) (by omega)) c hc
      refine ⟨c1, k, ?_, c3⟩
      rcases c2 with ⟨a1, a2, a3⟩ | ⟨a1, a2⟩
      · exact Or.inl ⟨by omega, by omega, a3⟩
      · exact Or.inr ⟨by omega, a2⟩

/-- **the meetup on `SoftF32`, unit `2^u`**: if some admissible cut has two finite parts, the meetup returns such a cut;
otherwise it keeps its sentinel `transition = -1` -/
theorem meetupRun_clsU (u : Nat) (hu : u ≤ 79) (ops : MeetOps SoftF32) (hops : MeetOpsBndU u ops) (sb eb n Bf Bb : Nat)
    (F Bk : Nat → States SoftF32) (EF EB : Nat → States ExactScore) (hB : Bf + Bb + 2 < 16777216)
    (h : ∀ k, k ≤ n → StClsU u Bf (F k) (EF k) ∧ StClsU u Bb (Bk k) (EB k) ∧
      absLe (Score.tie sb eb (sb + k) : SoftF32) (1 * 2 ^ u)) :
    let r := meetupRun ops sb eb ((List.range (n + 1)).map F) ((List.range (n + 1)).map Bk)
    (∃ k t, Adm n k t ∧ finAt EF EB sb t (sb + k) = true ∧ r.meet = ((sb + k : Nat) : Int) ∧ r.transition = t) ∨
    (r.transition = -1 ∧ ∀ k t, Adm n k t → finAt EF EB sb t (sb + k) = false) := by
  intro r
  have hr : r = (let a := tryAll ⟨Score.negInf, -1, -1⟩ (allCands ops sb eb F Bk 0 n); ⟨a.c, a.transition, a.max⟩) :=
    meetupRun_eq ops sb eb n F Bk
  have hcls := allCands_clsU u hu ops hops sb eb Bf Bb F Bk EF EB hB n 0 (fun k _ hk => h k (by omega))
  have hscan := tryAll_from_sentinelU u hu (Bf + Bb + 2) hB (finAt EF EB sb) (allCands ops sb eb F Bk 0 n)
    (fun c hc => (hcls c hc).1)
  rw [hr]
  simp only
  rcases hscan with ⟨_, h2, h3⟩ | ⟨_, c, hc, h2, h3, h4⟩
  · right
    refine ⟨h2, ?_⟩
    intro k t hadm
    obtain ⟨c, hc, c1, c2⟩ := allCands_complete ops sb eb F Bk n 0 k t ((admFrom_zero n k t).2 hadm)
    have := h3 c hc
    rw [c1, c2] at this
    exact this
  · left
    obtain ⟨_, k, hk, hk2⟩ := hcls c hc
    refine ⟨k, c.2.1, (admFrom_zero n k _).1 hk, ?_, ?_, h3⟩
    · rw [← hk2]; exact h2
    · rw [h4, hk2]

/-! ## non-vacuity: the fixed-unit theory is the instance `u = 20` -/

theorem meetOpsBndU_of_meetOpsBnd {ops : MeetOps SoftF32} (h : MeetOpsBnd ops) : MeetOpsBndU 20 ops := by
  refine ⟨?_, ?_, ?_, ?_, ?_, ?_⟩
  · intro i B x p hB hx; exact (clsU_20 _ _ _).2 (h.g2 i B x p hB ((clsU_20 _ _ _).1 hx))
  · intro B x p hB hx; exact (clsU_20 _ _ _).2 (h.g3 B x p hB ((clsU_20 _ _ _).1 hx))
  · intro i B x p hB hx; exact (clsU_20 _ _ _).2 (h.g5 i B x p hB ((clsU_20 _ _ _).1 hx))
  · intro B x p hB hx; exact (clsU_20 _ _ _).2 (h.g6 B x p hB ((clsU_20 _ _ _).1 hx))
  · intro B x p hB hx; exact (clsU_20 _ _ _).2 (h.g7 B x p hB ((clsU_20 _ _ _).1 hx))
  · intro B x p hB hx; exact (clsU_20 _ _ _).2 (h.g6e B x p hB ((clsU_20 _ _ _).1 hx))

/-- `meetupRun_clsU` at `u = 20` gives back `meetupRun_cls` (so its hypotheses are satisfiable wherever those are) -/
example (ops : MeetOps SoftF32) (hops : MeetOpsBnd ops) (sb eb n Bf Bb : Nat)
    (F Bk : Nat → States SoftF32) (EF EB : Nat → States ExactScore) (hB : Bf + Bb + 2 < 16777216)
    (h : ∀ k, k ≤ n → StCls Bf (F k) (EF k) ∧ StCls Bb (Bk k) (EB k) ∧
      absLe (Score.tie sb eb (sb + k) : SoftF32) 1048576) :
    let r := meetupRun ops sb eb ((List.range (n + 1)).map F) ((List.range (n + 1)).map Bk)
    (∃ k t, Adm n k t ∧ finAt EF EB sb t (sb + k) = true ∧ r.meet = ((sb + k : Nat) : Int) ∧ r.transition = t) ∨
    (r.transition = -1 ∧ ∀ k t, Adm n k t → finAt EF EB sb t (sb + k) = false) :=
  meetupRun_clsU 20 (by decide) ops (meetOpsBndU_of_meetOpsBnd hops) sb eb n Bf Bb F Bk EF EB hB
    (fun k hk => ⟨(stClsU_20 _ _ _).2 (h k hk).1, (stClsU_20 _ _ _).2 (h k hk).2.1, absLe_unit (h k hk).2.2⟩)

end Kalign
