import KalignModel.Lemmas.IO.Basic
/-! vocabulary of the I/O property statements: name alphabet, well-formed alignments, `finalise_alignment` -/
namespace Kalign.IO

/-- checking a Boolean fact for all 256 bytes -/
theorem forall_byte (p : UInt8 → Bool) (h : ∀ i : Fin 256, p (UInt8.ofNat i.val) = true) (b : UInt8) :
    p b = true := by
  have := h ⟨b.toNat, b.toNat_lt⟩
  simpa using this

theorem imp_of_or {p q : Bool} (h : (!p || q) = true) (hp : p = true) : q = true := by
  cases p <;> simp_all

/-- the characters of names in property C06: letters, digits, `_ . | -` -/
def nameChar (b : UInt8) : Bool := isAlpha b || isDigit b || b == 95 || b == 46 || b == 124 || b == 45

/-- bytes of a finished row: letters and `'-'` -/
def rowChar (b : UInt8) : Bool := isAlpha b || b == 45

/-- everything the lemmas need to know about a byte that may occur in a name or a row, as one decidable fact -/
def plainChar (b : UInt8) : Bool :=
  !isCntrl b && !isSpace b && b != 62 && b != 47 && b != 58 && b != 33 && b != 10 && (isAlpha b || isPunct b || isDigit b)

theorem nameChar_plain (b : UInt8) (h : nameChar b = true) : plainChar b = true :=
  imp_of_or (forall_byte (fun b => !nameChar b || plainChar b) (by decide +kernel) b) h

theorem rowChar_plain (b : UInt8) (h : rowChar b = true) : plainChar b = true :=
  imp_of_or (forall_byte (fun b => !rowChar b || plainChar b) (by decide +kernel) b) h

theorem plain_not_cntrl (b : UInt8) (h : plainChar b = true) : isCntrl b = false := by
  have := imp_of_or (forall_byte (fun b => !plainChar b || !isCntrl b) (by decide +kernel) b) h
  simpa using this

theorem plain_not_space (b : UInt8) (h : plainChar b = true) : isSpace b = false := by
  have := imp_of_or (forall_byte (fun b => !plainChar b || !isSpace b) (by decide +kernel) b) h
  simpa using this

theorem plain_ne (b : UInt8) (h : plainChar b = true) : b ≠ 62 ∧ b ≠ 47 ∧ b ≠ 58 ∧ b ≠ 33 ∧ b ≠ 10 ∧ b ≠ 32 := by
  have := imp_of_or (forall_byte (fun b => !plainChar b || (b != 62 && b != 47 && b != 58 && b != 33 && b != 10 && b != 32))
    (by decide +kernel) b) h
  simp only [Bool.and_eq_true, bne_iff_ne, ne_eq] at this
  obtain ⟨⟨⟨⟨⟨h1, h2⟩, h3⟩, h4⟩, h5⟩, h6⟩ := this
  exact ⟨h1, h2, h3, h4, h5, h6⟩

def NameOK (n : Bytes) : Prop := 1 ≤ n.length ∧ n.length ≤ 200 ∧ ∀ b ∈ n, nameChar b = true
instance (n : Bytes) : Decidable (NameOK n) := by unfold NameOK; exact inferInstance

/-- `aln_len` of `finalise_alignment`: gaps plus residues of sequence 0 -/
def alnlenOf : List SeqRec → Nat
  | [] => 0
  | s :: _ => s.gaps.sum + s.res.length

/-- `finalise_alignment`: every `seq->seq` becomes its linear row -/
def finalise (S : List SeqRec) (bio L : Nat) (base : Bytes) : Alignment :=
  ⟨S.map fun s => ⟨s.name, linRow s.res s.gaps⟩, alnlenOf S, bio, L, base⟩

/-- well-formed aligned sequences: at least one row, all rows of the same width `≥ 1`, residues are letters,
names are 1..200 characters over the C06 alphabet -/
structure AlnWF (S : List SeqRec) : Prop where
  ne : S ≠ []
  names : ∀ s ∈ S, NameOK s.name
  res : ∀ s ∈ S, ∀ b ∈ s.res, isAlpha b = true
  gaps : ∀ s ∈ S, s.gaps.length = s.res.length + 1
  width : ∀ s ∈ S, s.gaps.sum + s.res.length = alnlenOf S
  pos : 1 ≤ alnlenOf S

instance (S : List SeqRec) : Decidable (AlnWF S) :=
  if h : S ≠ [] ∧ (∀ s ∈ S, NameOK s.name) ∧ (∀ s ∈ S, ∀ b ∈ s.res, isAlpha b = true) ∧
      (∀ s ∈ S, s.gaps.length = s.res.length + 1) ∧ (∀ s ∈ S, s.gaps.sum + s.res.length = alnlenOf S) ∧
      1 ≤ alnlenOf S
  then isTrue ⟨h.1, h.2.1, h.2.2.1, h.2.2.2.1, h.2.2.2.2.1, h.2.2.2.2.2⟩
  else isFalse fun w => h ⟨w.ne, w.names, w.res, w.gaps, w.width, w.pos⟩

theorem linRow_length (res : Bytes) (gaps : List Nat) (h : gaps.length = res.length + 1) :
    (linRow res gaps).length = gaps.sum + res.length := by
  induction res generalizing gaps with
  | nil => match gaps, h with
    | [g], _ => simp [linRow]
  | cons x xs ih => match gaps, h with
    | g :: g2 :: gs, h =>
      simp only [linRow, List.length_append, List.length_replicate, List.length_cons, List.sum_cons]
      rw [ih (g2 :: gs) (by simpa using h)]
      simp only [List.sum_cons]; omega

theorem linRow_rowChar (res : Bytes) (gaps : List Nat) (hres : ∀ b ∈ res, isAlpha b = true) :
    ∀ b ∈ linRow res gaps, rowChar b = true := by
  induction res generalizing gaps with
  | nil =>
    cases gaps with
    | nil => simp [linRow]
    | cons g gs =>
      intro b hb; simp only [linRow, List.mem_replicate] at hb; rw [hb.2]; decide
  | cons x xs ih =>
    cases gaps with
    | nil => intro b hb; simp only [linRow] at hb; simp [rowChar, hres b hb]
    | cons g gs =>
      intro b hb
      simp only [linRow, List.mem_append, List.mem_replicate, List.mem_cons] at hb
      rcases hb with hb | hb | hb
      · rw [hb.2]; decide
      · subst hb; simp [rowChar, hres b (by simp)]
      · exact ih gs (fun c hc => hres c (by simp [hc])) b hb

end Kalign.IO
