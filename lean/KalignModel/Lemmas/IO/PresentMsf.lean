import KalignModel.Lemmas.IO.Present
import KalignModel.Lemmas.IO.Msf
/-! the block phase of `read_msf` on arbitrary presentations -/
namespace Kalign.IO
open List

/-- a sequence line of an MSF block: the name directly followed by anything (the reader skips `strlen(name)` bytes) -/
def msfRowLine (r : Bytes × Bytes) : Bytes := r.1 ++ r.2

def StartsNonBlank (nm : Bytes) : Prop := ∃ b t, nm = b :: t ∧ isSpace b = false

theorem msfLine_row (nm c : Bytes) (h : StartsNonBlank nm) (done rest : List SeqAcc) (s : SeqAcc) (hs : s.name = nm) :
    msfLine ⟨done, s :: rest⟩ (msfRowLine (nm, c)) = some ⟨feed s c :: done, rest⟩ := by
  obtain ⟨b, t, rfl, hb⟩ := h
  simp only [msfRowLine, cons_append]
  unfold msfLine
  simp only [hb, Bool.false_eq_true, if_false, hs]
  have e2 : drop (b :: t).length (b :: (t ++ c)) = c := by
    rw [← cons_append, drop_left']; rfl
  rw [e2]

theorem msf_rows (ps : List Prog) (hn : ∀ p ∈ ps, StartsNonBlank p.1) (done rest : List SeqAcc) (ls : List Bytes) :
    msfFold ⟨done, ps.map Prog.acc ++ rest⟩ ((heads (ps.map Prog.row)).map msfRowLine ++ ls) =
      msfFold ⟨((ps.map Prog.next).map Prog.acc).reverse ++ done, rest⟩ ls := by
  induction ps generalizing done with
  | nil => simp [heads]
  | cons p ps ih =>
    simp only [map_cons, heads, cons_append] at ih ⊢
    have e : msfRowLine (p.row.fst, p.row.snd.headD []) = msfRowLine (p.1, p.2.2.headD []) := rfl
    rw [e, msfFold_cons _ _ _ _ (msfLine_row p.1 _ (hn p (by simp)) done _ (Prog.acc p)
      (feed_name (SeqAcc.new p.1) p.2.1))]
    rw [ih (fun x hx => hn x (by simp [hx]))]
    congr 2
    simp only [reverse_cons, append_assoc, singleton_append]
    congr 2
    simp only [Prog.acc, Prog.next, feed_append]

theorem msf_cons (cons ls : List Bytes) (h : ∀ l ∈ cons, BlankStart l) (st : Blk) :
    msfFold st (cons ++ ls) = msfFold st ls := by
  induction cons with
  | nil => rfl
  | cons l cs ih =>
    obtain ⟨b, t, hl, hb⟩ := h l (by simp)
    rw [cons_append, msfFold_cons st st l _ (by subst hl; simp [msfLine, hb])]
    exact ih (fun x hx => h x (by simp [hx]))

theorem msf_blanks (n : Nat) (ls : List Bytes) (st : Blk) :
    msfFold st (replicate (n + 1) [] ++ ls) = msfFold st.rewind ls := by
  induction n generalizing st with
  | zero => exact msfFold_cons st st.rewind [] ls rfl
  | succ n ih =>
    rw [replicate_succ, cons_append, msfFold_cons st st.rewind [] _ rfl, ih, rewind_rewind]

/-- an MSF body: per block the rows (name immediately followed by the payload), optional lines starting with a blank,
and at least one empty line -/
def msfPres (extra : Nat → List Bytes × Nat) : Nat → Nat → List RowC → List Bytes
  | 0, _, _ => []
  | k + 1, b, rs =>
    (heads rs).map msfRowLine ++ ((extra b).1 ++ (replicate ((extra b).2 + 1) [] ++ msfPres extra k (b + 1) (tails rs)))

theorem msf_pres_blocks (extra : Nat → List Bytes × Nat) (hx : ∀ b, ∀ l ∈ (extra b).1, BlankStart l)
    (k b : Nat) (ps : List Prog) (hk : ∀ p ∈ ps, p.2.2.length = k) (hn : ∀ p ∈ ps, StartsNonBlank p.1) :
    msfFold ⟨[], ps.map Prog.acc⟩ (msfPres extra k b (ps.map Prog.row)) = some ⟨[], ps.map Prog.final⟩ := by
  induction k generalizing ps b with
  | zero =>
    simp only [msfPres, msfFold_nil]
    congr 2
    apply map_congr_left
    intro p hp
    have : p.2.2 = [] := eq_nil_of_length_eq_zero (hk p hp)
    simp [Prog.acc, Prog.final, this]
  | succ k ih =>
    simp only [msfPres]
    have := msf_rows ps hn [] []
      ((extra b).1 ++ (replicate ((extra b).2 + 1) [] ++ msfPres extra k (b + 1) (tails (ps.map Prog.row))))
    simp only [append_nil] at this
    rw [this, msf_cons _ _ (hx b), msf_blanks]
    simp only [Blk.rewind, reverse_reverse, append_nil]
    rw [tails_prog, ih (b + 1) (ps.map Prog.next)]
    · congr 2
      rw [map_map]
      apply map_congr_left
      intro p hp
      have := hk p hp
      match hc : p.2.2, this with
      | c :: cs, _ => simp [Prog.final, Prog.next, hc]
    · intro q hq
      simp only [mem_map] at hq
      obtain ⟨p, hp, rfl⟩ := hq
      have := hk p hp
      simp only [Prog.next, length_tail]; omega
    · intro q hq
      simp only [mem_map] at hq
      obtain ⟨p, hp, rfl⟩ := hq
      exact hn p hp

end Kalign.IO
