import KalignModel.Lemmas.IO.Fasta
import KalignModel.Lemmas.IO.Clu
/-! what the scanner keeps of a line, and the readers on arbitrary presentations of the same records -/
namespace Kalign.IO
open List

/-! ## the scanner: letters are kept, punctuation is counted, everything else is skipped -/

/-- gap vector of a byte string: number of punctuation bytes before each letter, and behind the last one -/
def gapVec : Bytes → List Nat
  | [] => [0]
  | b :: t => if isAlpha b then 0 :: gapVec t else if isPunct b then bump (gapVec t) else gapVec t

theorem gapVec_ne_nil (l : Bytes) : gapVec l ≠ [] := by
  induction l with
  | nil => simp [gapVec]
  | cons b t ih =>
    simp only [gapVec]
    split
    · simp
    · split
      · cases h : gapVec t <;> simp [bump]
      · exact ih

theorem feed_rres (a : SeqAcc) (l : Bytes) : (feed a l).rres = (l.filter isAlpha).reverse ++ a.rres := by
  induction l generalizing a with
  | nil => rfl
  | cons b t ih =>
    rw [feed_cons, ih]
    unfold feedByte
    by_cases h1 : isAlpha b = true
    · simp [h1]
    · by_cases h2 : isPunct b = true <;> simp [h1, h2]

/-- adding `c` to the head of a gap vector -/
def addHead (c : Nat) : List Nat → List Nat
  | [] => [c]
  | g :: gs => (g + c) :: gs

theorem addHead_bump (c : Nat) (l : List Nat) : addHead c (bump l) = addHead (c + 1) l := by
  cases l with
  | nil => simp [bump, addHead]; omega
  | cons g gs => simp [bump, addHead]; omega

theorem feed_gaps (a : SeqAcc) (l : Bytes) :
    ((feed a l).cur :: (feed a l).rgaps).reverse = a.rgaps.reverse ++ addHead a.cur (gapVec l) := by
  induction l generalizing a with
  | nil => simp [feed, gapVec, addHead]
  | cons b t ih =>
    rw [feed_cons, ih]
    unfold feedByte
    by_cases h1 : isAlpha b = true
    · simp only [h1, if_true, gapVec, reverse_cons, append_assoc, singleton_append]
      congr 1
      cases h : gapVec t with
      | nil => exact absurd h (gapVec_ne_nil t)
      | cons g gs => simp [addHead]
    · by_cases h2 : isPunct b = true
      · simp only [h1, h2, if_true, gapVec, Bool.false_eq_true, if_false, addHead_bump]
      · simp [h1, h2, gapVec]

/-- **the scanner**: residues = the letters, gap vector = punctuation counts; blanks, digits, bytes ≥ 128 are ignored -/
theorem scan_spec (nm l : Bytes) :
    (feed (SeqAcc.new nm) l).finish = ⟨nm, l.filter isAlpha, gapVec l⟩ := by
  have h1 := feed_rres (SeqAcc.new nm) l
  have h2 := feed_gaps (SeqAcc.new nm) l
  have h3 := feed_name (SeqAcc.new nm) l
  simp only [SeqAcc.new, append_nil, reverse_nil, nil_append] at h1 h2 h3
  simp only [SeqAcc.finish, SeqAcc.new, h1, h2, h3, reverse_reverse]
  congr 1
  cases h : gapVec l with
  | nil => exact absurd h (gapVec_ne_nil l)
  | cons g gs => simp [addHead]

theorem gapVec_sum (l : Bytes) : (gapVec l).sum = (l.filter isPunct).length := by
  have hb : ∀ g : List Nat, (bump g).sum = g.sum + 1 := by
    intro g; cases g <;> simp [bump]; omega
  have hap : ∀ b, isAlpha b = true → isPunct b = false := by
    intro b h
    have := imp_of_or (forall_byte (fun b => !isAlpha b || !isPunct b) (by decide +kernel) b) h
    simpa using this
  induction l with
  | nil => rfl
  | cons b t ih =>
    simp only [gapVec]
    by_cases h1 : isAlpha b = true
    · simp [h1, hap b h1, ih]
    · by_cases h2 : isPunct b = true
      · simp [h1, h2, hb, ih]
      · simp [h1, h2, ih]

/-! ## FASTA presentations -/

/-- a presentation of records: per record the header line and any number of sequence lines -/
def faPres (recs : List (Bytes × List Bytes)) : List Bytes := recs.flatMap fun r => (62 :: r.1) :: r.2

theorem faFold_pres (recs : List (Bytes × List Bytes)) (st : FaState)
    (h62 : ∀ r ∈ recs, ∀ l ∈ r.2, l.head? ≠ some 62) :
    ∃ st', faFold st (faPres recs) = some st' ∧
      st'.seqs = st.seqs ++ recs.map fun r => (feed (SeqAcc.new r.1) r.2.flatten).finish := by
  induction recs generalizing st with
  | nil => exact ⟨st, rfl, by simp⟩
  | cons r rs ih =>
    obtain ⟨st', h1, h2⟩ := ih ⟨st.push, some (feed (SeqAcc.new r.1) r.2.flatten)⟩
      (fun x hx => h62 x (by simp [hx]))
    refine ⟨st', ?_, ?_⟩
    · simp only [faPres, flatMap_cons, cons_append, faFold, faLine_header]
      rw [faFold_chunks _ _ _ _ (h62 r (by simp))]
      exact h1
    · rw [h2]
      simp [FaState.seqs_eq, FaState.push]

/-- lines before the first header that hold neither letters nor punctuation are skipped -/
theorem faFold_junk (pre rest : List Bytes) (done : List SeqAcc)
    (h : ∀ l ∈ pre, l.head? ≠ some 62 ∧ l.any (fun b => isAlpha b || isPunct b) = false) :
    faFold ⟨done, none⟩ (pre ++ rest) = faFold ⟨done, none⟩ rest := by
  induction pre with
  | nil => rfl
  | cons l ls ih =>
    obtain ⟨h1, h2⟩ := h l (by simp)
    have : faLine ⟨done, none⟩ l = some ⟨done, none⟩ := by
      unfold faLine
      split
      · simp at h1
      · simp [h2]
    simp only [cons_append, faFold, this]
    exact ih (fun x hx => h x (by simp [hx]))

/-! ## Clustal presentations -/

/-- a sequence line of a block: name, one blank, then anything -/
def cluRowLine (r : Bytes × Bytes) : Bytes := r.1 ++ 32 :: r.2

structure NmOK' (nm : Bytes) : Prop where
  ne : nm ≠ []
  le : nm.length ≤ 200
  nosp : ∀ b ∈ nm, isSpace b = false

theorem cluLine_row (nm c : Bytes) (h : NmOK' nm) (done rest : List SeqAcc) :
    cluLine ⟨done, rest⟩ (cluRowLine (nm, c)) =
      ⟨feed { (rest.headD (SeqAcc.new [])) with name := nm } c :: done, rest.tail⟩ := by
  obtain ⟨b, nm', rfl⟩ := exists_cons_of_ne_nil h.ne
  have hb : isSpace b = false := h.nosp b (by simp)
  have hj := cluNameLen_seqLine (b :: nm') c h.le h.nosp
  simp only [cluRowLine, cons_append] at hj ⊢
  unfold cluLine
  simp only [hb, Bool.false_eq_true, if_false, hj]
  have e1 : take (b :: nm').length (b :: (nm' ++ 32 :: c)) = b :: nm' := by
    rw [← cons_append, take_left']; rfl
  have e2 : drop (b :: nm').length (b :: (nm' ++ 32 :: c)) = 32 :: c := by
    rw [← cons_append, drop_left']; rfl
  rw [e1, e2]
  have e3 : ∀ a : SeqAcc, feed a (32 :: c) = feed a c := fun a => feed_blanks a 1 c
  rw [e3]
  cases rest <;> rfl

/-- lines that start with a blank (conservation lines) change nothing -/
theorem cluLine_blankStart (st : Blk) (l : Bytes) (b : UInt8) (t : Bytes) (hl : l = b :: t) (hb : isSpace b = true) :
    cluLine st l = st := by
  subst hl; simp [cluLine, hb]

end Kalign.IO

namespace Kalign.IO
open List

theorem clu_rows (hs : List (Bytes × Bytes)) (hn : ∀ r ∈ hs, NmOK' r.1) (done rest : List SeqAcc) :
    (hs.map cluRowLine).foldl cluLine ⟨done, rest⟩ = ⟨(zipFeed rest hs).reverse ++ done, rest.drop hs.length⟩ := by
  induction hs generalizing done rest with
  | nil => simp [zipFeed]
  | cons r hs ih =>
    simp only [map_cons, foldl_cons]
    rw [show r = (r.1, r.2) from rfl, cluLine_row r.1 r.2 (hn r (by simp)), ih (fun x hx => hn x (by simp [hx]))]
    simp [zipFeed]

def BlankStart (l : Bytes) : Prop := ∃ b t, l = b :: t ∧ isSpace b = true

theorem clu_cons (ls : List Bytes) (h : ∀ l ∈ ls, BlankStart l) (st : Blk) : ls.foldl cluLine st = st := by
  induction ls with
  | nil => rfl
  | cons l ls ih =>
    obtain ⟨b, t, hl, hb⟩ := h l (by simp)
    simp only [foldl_cons, cluLine_blankStart st l b t hl hb]
    exact ih (fun x hx => h x (by simp [hx]))

theorem rewind_rewind (st : Blk) : st.rewind.rewind = st.rewind := by simp [Blk.rewind]

theorem clu_blanks (n : Nat) (st : Blk) : (replicate (n + 1) ([] : Bytes)).foldl cluLine st = st.rewind := by
  induction n with
  | zero => rfl
  | succ n ih =>
    rw [replicate_succ, foldl_cons]
    have : cluLine st [] = st.rewind := rfl
    rw [this]
    have h2 := ih
    -- the remaining blank lines rewind an already rewound state
    have : ∀ (m : Nat) (s : Blk), (replicate (m + 1) ([] : Bytes)).foldl cluLine s.rewind = s.rewind := by
      intro m
      induction m with
      | zero => intro s; exact rewind_rewind s
      | succ m ihm =>
        intro s
        rw [replicate_succ, foldl_cons]
        have : cluLine s.rewind [] = s.rewind.rewind := rfl
        rw [this, rewind_rewind]; exact ihm s
    exact this n st

/-- a Clustal body: per block the rows (name, blank, payload), optional lines starting with a blank, and at least one
empty line; `extra b` = (conservation lines, number of additional empty lines) of block `b` -/
def cluPres (extra : Nat → List Bytes × Nat) : Nat → Nat → List RowC → List Bytes
  | 0, _, _ => []
  | k + 1, b, rs =>
    (heads rs).map cluRowLine ++ (extra b).1 ++ replicate ((extra b).2 + 1) [] ++ cluPres extra k (b + 1) (tails rs)

theorem clu_block_pres (hs : List (Bytes × Bytes)) (hn : ∀ r ∈ hs, NmOK' r.1) (cons : List Bytes)
    (hc : ∀ l ∈ cons, BlankStart l) (n : Nat) (rest : List SeqAcc) :
    (hs.map cluRowLine ++ cons ++ replicate (n + 1) []).foldl cluLine ⟨[], rest⟩ =
      ⟨[], zipFeed rest hs ++ rest.drop hs.length⟩ := by
  rw [foldl_append, foldl_append, clu_rows hs hn, clu_cons cons hc, clu_blanks]
  simp [Blk.rewind]

theorem clu_pres_blocks (extra : Nat → List Bytes × Nat) (hx : ∀ b, ∀ l ∈ (extra b).1, BlankStart l)
    (k b : Nat) (ps : List Prog) (hk : ∀ p ∈ ps, p.2.2.length = k) (hn : ∀ p ∈ ps, NmOK' p.1) :
    (cluPres extra k b (ps.map Prog.row)).foldl cluLine ⟨[], ps.map Prog.acc⟩ = ⟨[], ps.map Prog.final⟩ := by
  induction k generalizing ps b with
  | zero =>
    simp only [cluPres, foldl_nil]
    congr 1
    apply map_congr_left
    intro p hp
    have : p.2.2 = [] := eq_nil_of_length_eq_zero (hk p hp)
    simp [Prog.acc, Prog.final, this]
  | succ k ih =>
    simp only [cluPres]
    rw [foldl_append, clu_block_pres _ (fun r hr => by
      obtain ⟨p, hp, h1⟩ := heads_names ps r hr; rw [h1]; exact hn p hp) _ (hx b)]
    have hlen : (heads (ps.map Prog.row)).length = (ps.map Prog.acc).length := by simp [heads]
    rw [hlen, drop_length, append_nil, zipFeed_prog, tails_prog]
    rw [ih (b + 1) (ps.map Prog.next)]
    · congr 1
      rw [map_map]
      apply map_congr_left
      intro p hp
      have := hk p hp
      match hc : p.2.2, this with
      | c :: cs, _ => simp [Prog.final, Prog.next, hc]
    · intro q hq
      simp only [mem_map] at hq
      obtain ⟨p, hp, rfl⟩ := hq
      have := hk p hp
      simp only [Prog.next, length_tail]; omega
    · intro q hq
      simp only [mem_map] at hq
      obtain ⟨p, hp, rfl⟩ := hq
      exact hn p hp

/-- the whole body from the empty state -/
theorem clu_pres_all (extra : Nat → List Bytes × Nat) (hx : ∀ b, ∀ l ∈ (extra b).1, BlankStart l)
    (k : Nat) (rs : List RowC) (hk : ∀ r ∈ rs, r.2.length = k + 1) (hn : ∀ r ∈ rs, NmOK' r.1) :
    (cluPres extra (k + 1) 0 rs).foldl cluLine ⟨[], []⟩ =
      ⟨[], rs.map fun r => feed (SeqAcc.new r.1) r.2.flatten⟩ := by
  simp only [cluPres]
  rw [foldl_append, clu_block_pres _ (fun r hr => by
    simp only [heads, mem_map] at hr
    obtain ⟨r0, h0, rfl⟩ := hr
    exact hn r0 h0) _ (hx 0)]
  simp only [drop_nil, append_nil]
  let ps : List Prog := rs.map fun r => (r.1, r.2.headD [], r.2.tail)
  have h1 : zipFeed [] (heads rs) = ps.map Prog.acc := by
    simp only [ps, map_map, heads]
    generalize rs = l
    induction l with
    | nil => rfl
    | cons r l ih => simp only [map_cons, zipFeed, tail_nil, ih]; rfl
  have h2 : tails rs = ps.map Prog.row := by
    simp [ps, tails, Prog.row]
  rw [h1, h2, clu_pres_blocks extra hx k 1 ps]
  · congr 1
    simp only [ps, map_map]
    apply map_congr_left
    intro r hr
    have := hk r hr
    match hc : r.2, this with
    | c :: cs, _ => simp [Prog.final, hc]
  · intro p hp
    simp only [ps, mem_map] at hp
    obtain ⟨r, hr, rfl⟩ := hp
    have := hk r hr
    simp only [length_tail]; omega
  · intro p hp
    simp only [ps, mem_map] at hp
    obtain ⟨r, hr, rfl⟩ := hp
    exact hn r hr

end Kalign.IO
