import KalignModel.Model.IO.Read
import KalignModel.Model.IO.Write
import KalignModel.Model.Weave
/-! basic lemmas of the file-I/O model: lines, blocks of 60, the residue/gap scanner -/
namespace Kalign.IO

/-! ## lines -/

def emit (ls : List Bytes) : Bytes := ls.flatMap fun l => l ++ [10]

theorem splitLinesAux_line (l rest cur : Bytes) (acc : List Bytes) (h : ∀ b ∈ l, b ≠ 10) :
    splitLinesAux (l ++ 10 :: rest) cur acc = splitLinesAux rest [] ((cur.reverse ++ l) :: acc) := by
  induction l generalizing cur with
  | nil => simp [splitLinesAux]
  | cons b l ih =>
    have hb : (b == 10) = false := by simpa using h b (by simp)
    have := ih (b :: cur) (fun x hx => h x (by simp [hx]))
    simp [splitLinesAux, hb, this]

theorem splitLinesAux_emit (ls : List Bytes) (acc : List Bytes) (h : ∀ l ∈ ls, ∀ b ∈ l, b ≠ 10) :
    splitLinesAux (emit ls) [] acc = acc.reverse ++ ls := by
  induction ls generalizing acc with
  | nil => simp [emit, splitLinesAux]
  | cons l ls ih =>
    have h1 := splitLinesAux_line l (emit ls) [] acc (h l (by simp))
    have h2 := ih (l :: acc) (fun x hx => h x (by simp [hx]))
    simp only [emit, List.flatMap_cons, List.append_assoc, List.singleton_append] at h1 h2 ⊢
    rw [h1]; simp only [List.reverse_nil, List.nil_append]; rw [h2]; simp

theorem cutCntrl_eq_self (l : Bytes) (h : ∀ b ∈ l, isCntrl b = false) : cutCntrl l = l := by
  induction l with
  | nil => rfl
  | cons b l ih =>
    have hb := h b (by simp)
    have := ih (fun x hx => h x (by simp [hx]))
    simp only [cutCntrl] at this ⊢
    simp [hb, this]

theorem isCntrl_ten : isCntrl 10 = true := by decide

/-- a file made of complete lines without control bytes is read back as exactly these lines -/
theorem splitLines_emit (ls : List Bytes) (h : ∀ l ∈ ls, ∀ b ∈ l, isCntrl b = false) :
    splitLines (emit ls) = ls := by
  have h10 : ∀ l ∈ ls, ∀ b ∈ l, b ≠ 10 := by
    intro l hl b hb heq
    have := h l hl b hb
    rw [heq, isCntrl_ten] at this
    exact absurd this (by decide)
  unfold splitLines
  rw [splitLinesAux_emit ls [] h10]
  simp only [List.reverse_nil, List.nil_append]
  induction ls with
  | nil => rfl
  | cons l ls ih =>
    simp only [List.map_cons]
    rw [cutCntrl_eq_self l (h l (by simp)), ih (fun x hx => h x (by simp [hx]))]
    intro x hx; exact h10 x (by simp [hx])

theorem emit_append (a b : List Bytes) : emit (a ++ b) = emit a ++ emit b := by
  simp [emit]

/-! ## blocks of 60 -/

theorem blocks_flatten (r : Bytes) : (blocks r).flatten = r := by
  fun_induction blocks r with
  | case1 r h => simp
  | case2 r h ih => simp [ih]

theorem blocks_ne_nil (r : Bytes) : blocks r ≠ [] := by
  fun_induction blocks r <;> simp

theorem blocks_length_le (r : Bytes) : ∀ c ∈ blocks r, c.length ≤ 60 := by
  fun_induction blocks r with
  | case1 r h => intro c hc; simp at hc; subst hc; exact h
  | case2 r h ih =>
    intro c hc
    simp only [List.mem_cons] at hc
    rcases hc with rfl | hc
    · simp; omega
    · exact ih c hc

theorem blocks_pos (r : Bytes) (hr : r ≠ []) : ∀ c ∈ blocks r, 1 ≤ c.length := by
  fun_induction blocks r with
  | case1 r h =>
    intro c hc; simp at hc; subst hc
    cases c with
    | nil => exact absurd rfl hr
    | cons => simp
  | case2 r h ih =>
    intro c hc
    simp only [List.mem_cons] at hc
    rcases hc with rfl | hc
    · simp; omega
    · apply ih _ c hc
      intro h0
      have : (r.drop 60).length = 0 := by rw [h0]; rfl
      simp at this; omega

/-- all blocks but the last are exactly 60 wide -/
theorem blocks_dropLast (r : Bytes) : ∀ c ∈ (blocks r).dropLast, c.length = 60 := by
  fun_induction blocks r with
  | case1 r h => simp
  | case2 r h ih =>
    intro c hc
    have hne := blocks_ne_nil (r.drop 60)
    rw [List.dropLast_cons_of_ne_nil hne] at hc
    simp only [List.mem_cons] at hc
    rcases hc with rfl | hc
    · simp; omega
    · exact ih c hc

/-- number of blocks: at least one, then one per started 60 columns -/
theorem blocks_length (r : Bytes) : (blocks r).length = max 1 ((r.length + 59) / 60) := by
  fun_induction blocks r with
  | case1 r h => simp; omega
  | case2 r h ih => simp [ih]; omega

/-! ## the scanner -/

theorem feed_append (a : SeqAcc) (l1 l2 : Bytes) : feed a (l1 ++ l2) = feed (feed a l1) l2 := by
  simp [feed, List.foldl_append]

theorem feed_nil (a : SeqAcc) : feed a [] = a := rfl

theorem feed_cons (a : SeqAcc) (b : UInt8) (l : Bytes) : feed a (b :: l) = feed (feedByte a b) l := rfl

theorem feed_flatten (a : SeqAcc) (cs : List Bytes) : cs.foldl feed a = feed a cs.flatten := by
  induction cs generalizing a with
  | nil => rfl
  | cons c cs ih => simp [ih, feed_append]

theorem feed_blanks (a : SeqAcc) (k : Nat) (l : Bytes) : feed a (List.replicate k 32 ++ l) = feed a l := by
  induction k with
  | zero => simp
  | succ k ih =>
    rw [List.replicate_succ, List.cons_append, feed_cons]
    have : feedByte a 32 = a := by simp [feedByte, show isAlpha 32 = false by decide, show isPunct 32 = false by decide]
    rw [this, ih]

theorem feed_name (a : SeqAcc) (l : Bytes) : (feed a l).name = a.name := by
  induction l generalizing a with
  | nil => rfl
  | cons b l ih =>
    rw [feed_cons, ih]
    unfold feedByte; split
    · rfl
    · split <;> rfl

/-- the linear row of `make_linear_sequence` as bytes (`'-'` = 45) -/
def linRow : Bytes → List Nat → Bytes
  | [], g :: _ => List.replicate g 45
  | [], [] => []
  | x :: xs, g :: gs => List.replicate g 45 ++ x :: linRow xs gs
  | x :: xs, [] => x :: xs

theorem linRow_eq_makeLinear (res : Bytes) (gaps : List Nat) :
    linRow res gaps = (makeLinear res gaps).map fun | some c => c | none => 45 := by
  induction res generalizing gaps with
  | nil => cases gaps <;> simp [linRow, makeLinear]
  | cons x xs ih =>
    cases gaps with
    | nil => simp [linRow, makeLinear, Function.comp_def]
    | cons g gs => simp [linRow, makeLinear, ih]

theorem feed_dashes (a : SeqAcc) (g : Nat) : feed a (List.replicate g 45) = { a with cur := a.cur + g } := by
  induction g generalizing a with
  | zero => rfl
  | succ g ih =>
    rw [List.replicate_succ, feed_cons]
    have : feedByte a 45 = { a with cur := a.cur + 1 } := by
      simp [feedByte, show isAlpha 45 = false by decide, show isPunct 45 = true by decide]
    rw [this, ih]; simp; omega

theorem feed_linRow (a : SeqAcc) (res : Bytes) (gaps : List Nat) (hres : ∀ b ∈ res, isAlpha b = true)
    (hlen : gaps.length = res.length + 1) :
    feed a (linRow res gaps) =
      { name := a.name, rres := res.reverse ++ a.rres,
        rgaps := (match gaps.dropLast with | [] => [] | g :: gs => (a.cur + g) :: gs).reverse ++ a.rgaps,
        cur := (if res.isEmpty then a.cur else 0) + gaps.getLast! } := by
  induction res generalizing a gaps with
  | nil =>
    match gaps, hlen with
    | [g], _ => simp [linRow, feed_dashes]
  | cons x xs ih =>
    match gaps, hlen with
    | g :: g2 :: gs, hlen =>
      have hx : isAlpha x = true := hres x (by simp)
      rw [linRow, feed_append, feed_dashes, feed_cons]
      have : feedByte { a with cur := a.cur + g } x =
          { name := a.name, rres := x :: a.rres, rgaps := (a.cur + g) :: a.rgaps, cur := 0 } := by
        simp [feedByte, hx]
      rw [this, ih _ (g2 :: gs) (fun b hb => hres b (by simp [hb])) (by simpa using hlen)]
      cases xs with
      | nil =>
        match gs, hlen with
        | [], _ => simp
      | cons y ys =>
        match gs, hlen with
        | g3 :: gs', _ => simp

/-- reading a linear row into a fresh sequence gives back residues and gap vector -/
theorem feed_linRow_new (nm res : Bytes) (gaps : List Nat) (hres : ∀ b ∈ res, isAlpha b = true)
    (hlen : gaps.length = res.length + 1) :
    (feed (SeqAcc.new nm) (linRow res gaps)).finish = ⟨nm, res, gaps⟩ := by
  rw [feed_linRow _ res gaps hres hlen]
  simp only [SeqAcc.new, SeqAcc.finish, Nat.zero_add, List.append_nil, List.reverse_reverse]
  have h1 : (match gaps.dropLast with | [] => [] | g :: gs => g :: gs) = gaps.dropLast := by
    cases gaps.dropLast <;> rfl
  have h2 : gaps ≠ [] := by intro h; rw [h] at hlen; simp at hlen
  have h3 : gaps.dropLast ++ [gaps.getLast?.getD 0] = gaps := by
    rw [List.getLast?_eq_some_getLast h2]
    simp [List.dropLast_concat_getLast]
  simp [h1, h3]

end Kalign.IO
