import KalignModel.Lemmas.IO.Clu
import KalignModel.Lemmas.IO.Sniff
import KalignModel.Lemmas.IO.Numbers
/-! the MSF reader on the written layout -/
namespace Kalign.IO
open List

/-! ## adjacent pairs (to exclude `Len:` from the `MSF:` line) -/

def hasPair (a b : UInt8) : Bytes → Bool
  | x :: y :: t => (x == a && y == b) || hasPair a b (y :: t)
  | _ => false

theorem hasPair_cons_ne (a b x : UInt8) (l : Bytes) (h : x ≠ a) : hasPair a b (x :: l) = hasPair a b l := by
  cases l with
  | nil => simp [hasPair]
  | cons y t => simp [hasPair, h]

theorem hasPair_not_mem (a b : UInt8) (l : Bytes) (h : b ∉ l) : hasPair a b l = false := by
  induction l with
  | nil => rfl
  | cons x t ih =>
    cases t with
    | nil => rfl
    | cons y t' =>
      have hy : y ≠ b := by intro e; exact h (by simp [e])
      simp only [hasPair, Bool.or_eq_false_iff, Bool.and_eq_false_iff, beq_eq_false_iff_ne, ne_eq]
      exact ⟨Or.inr hy, ih (fun hm => h (mem_cons_of_mem _ hm))⟩

theorem hasPair_append (a b : UInt8) (l1 l2 : Bytes) (h : l2.head? ≠ some b) :
    hasPair a b (l1 ++ l2) = (hasPair a b l1 || hasPair a b l2) := by
  induction l1 with
  | nil => simp [hasPair]
  | cons x t ih =>
    cases t with
    | nil =>
      cases l2 with
      | nil => simp [hasPair]
      | cons y t2 =>
        have hy : y ≠ b := by simpa using h
        simp [hasPair, hy]
    | cons y t' =>
      simp only [cons_append, hasPair] at ih ⊢
      rw [ih, Bool.or_assoc]

theorem hasPair_of_hasSub (a b : UInt8) (needle hay : Bytes) (hn : hasPair a b needle = true)
    (hs : hasSub needle hay = true) : hasPair a b hay = true := by
  have hpre : ∀ (n h : Bytes), n <+: h → hasPair a b n = true → hasPair a b h = true := by
    intro n
    induction n with
    | nil => intro h _ hp; simp [hasPair] at hp
    | cons x t ih =>
      intro h hpf hp
      obtain ⟨s, rfl⟩ := hpf
      cases t with
      | nil => simp [hasPair] at hp
      | cons y t' =>
        simp only [hasPair, Bool.or_eq_true, Bool.and_eq_true, beq_iff_eq] at hp
        simp only [cons_append, hasPair, Bool.or_eq_true, Bool.and_eq_true, beq_iff_eq]
        rcases hp with hp | hp
        · exact Or.inl hp
        · exact Or.inr (ih (y :: (t' ++ s)) ⟨s, rfl⟩ hp)
  unfold hasSub at hs
  induction hay with
  | nil =>
    simp only [findSub] at hs
    split at hs
    · rename_i h0; simp at h0; subst h0; simp [hasPair] at hn
    · simp at hs
  | cons x t ih =>
    simp only [findSub] at hs
    split at hs
    · rename_i hp
      exact hpre _ _ (List.isPrefixOf_iff_prefix.mp hp) hn
    · have := ih hs
      cases t with
      | nil => simp [hasPair] at this
      | cons y t' => simp only [hasPair, this, Bool.or_true]

/-! ## bytes of digits -/

theorem digit_plain (b : UInt8) (h : isDigit b = true) : plainChar b = true :=
  imp_of_or (forall_byte (fun b => !isDigit b || plainChar b) (by decide +kernel) b) h

theorem digit_ne (b : UInt8) (h : isDigit b = true) : b ≠ 110 := by
  have := imp_of_or (forall_byte (fun b => !isDigit b || b != 110) (by decide +kernel) b) h
  simpa using this

/-! ## header lines -/

/-- bytes that neither end a line early nor form the `//` separator -/
def okb (b : UInt8) : Bool := !isCntrl b && b != 47

def AllOk (l : Bytes) : Prop := ∀ b ∈ l, okb b = true

theorem AllOk.append {l1 l2 : Bytes} (h1 : AllOk l1) (h2 : AllOk l2) : AllOk (l1 ++ l2) := by
  intro b hb; rcases mem_append.mp hb with h | h
  · exact h1 b h
  · exact h2 b h

theorem AllOk.cons {x : UInt8} {l : Bytes} (hx : okb x = true) (h : AllOk l) : AllOk (x :: l) := by
  intro b hb; rcases mem_cons.mp hb with rfl | h'
  · exact hx
  · exact h b h'

theorem plain_okb (b : UInt8) (h : plainChar b = true) : okb b = true :=
  imp_of_or (forall_byte (fun b => !plainChar b || okb b) (by decide +kernel) b) h

theorem AllOk.of_plain {l : Bytes} (h : ∀ b ∈ l, plainChar b = true) : AllOk l := fun b hb => plain_okb b (h b hb)

theorem AllOk.blanks (k : Nat) : AllOk (replicate k 32) := by
  intro b hb; rw [(mem_replicate.mp hb).2]; decide

theorem AllOk.digits (n : Nat) : AllOk (decDigits n) :=
  AllOk.of_plain (fun b hb => digit_plain b (decDigits_isDigit n b hb))

theorem AllOk.padLeft (w : Nat) {l : Bytes} (h : AllOk l) : AllOk (padLeft w l) := (AllOk.blanks _).append h
theorem AllOk.padRight (w : Nat) {l : Bytes} (h : AllOk l) : AllOk (padRight w l) := h.append (AllOk.blanks _)

theorem AllOk.not_cntrl {l : Bytes} (h : AllOk l) : ∀ b ∈ l, isCntrl b = false := by
  intro b hb; have := h b hb; simp only [okb, Bool.and_eq_true, Bool.not_eq_true'] at this; exact this.1

theorem AllOk.no_sep {l : Bytes} (h : AllOk l) : hasSub (ascii "//") l = false := by
  apply hasSub_false _ _ 47 (by decide)
  intro hm; have := h 47 hm; simp [okb] at this

/-- what the theorems need of the output base name and of the `strftime` text -/
structure HdrOK (base date : Bytes) : Prop where
  base : ∀ b ∈ base, nameChar b = true
  dateOk : AllOk date
  datePair : hasPair 110 58 date = false
  dateHead : date.head? ≠ some 58

instance (base date : Bytes) : Decidable (HdrOK base date) :=
  if h : (∀ b ∈ base, nameChar b = true) ∧ (∀ b ∈ date, okb b = true) ∧ hasPair 110 58 date = false ∧
      date.head? ≠ some 58
  then isTrue ⟨h.1, h.2.1, h.2.2.1, h.2.2.2⟩
  else isFalse fun w => h ⟨w.base, w.dateOk, w.datePair, w.dateHead⟩

theorem msfTypeChar_cases (A : Alignment) : msfTypeChar A = 80 ∨ msfTypeChar A = 78 := by
  unfold msfTypeChar; split <;> simp

theorem msfInfoLine_ok (date : Bytes) (A : Alignment) (h : HdrOK A.basename date) : AllOk (msfInfoLine date A) := by
  unfold msfInfoLine
  have hb : AllOk A.basename := AllOk.of_plain (fun b hb => nameChar_plain b (h.base b hb))
  have htc : AllOk [msfTypeChar A] := by
    intro b hb; simp only [mem_singleton] at hb
    rcases msfTypeChar_cases A with e | e <;> rw [hb, e] <;> decide
  have l1 : AllOk (ascii "  MSF: ") := by intro b hb; revert b; decide
  have l2 : AllOk (ascii "  Type: ") := by intro b hb; revert b; decide
  have l3 : AllOk (ascii "  ") := by intro b hb; revert b; decide
  have l4 : AllOk (ascii "  Check: ") := by intro b hb; revert b; decide
  have l5 : AllOk (ascii "  ..") := by intro b hb; revert b; decide
  exact ((((((((AllOk.cons (by decide) hb).append l1).append (AllOk.digits _)).append l2).append htc).append l3).append
    h.dateOk).append l4).append (AllOk.digits _) |>.append l5

theorem digits_head (n : Nat) : (decDigits n).head? ≠ some 58 := by
  cases hd : decDigits n with
  | nil => simp
  | cons x t =>
    have := decDigits_isDigit n x (by rw [hd]; simp)
    simp only [head?_cons, ne_eq, Option.some.injEq]
    intro e; rw [e] at this; revert this; decide

theorem digits_noPair (n : Nat) : hasPair 110 58 (decDigits n) = false := by
  apply hasPair_not_mem
  intro hm
  have := decDigits_isDigit n 58 hm
  revert this; decide

/-- the `MSF:` line is not taken for a `Name:` line: it does not contain `Len:` -/
theorem msfInfoLine_noLen (date : Bytes) (A : Alignment) (h : HdrOK A.basename date) :
    hasSub (ascii "Len:") (msfInfoLine date A) = false := by
  have hp : hasPair 110 58 (msfInfoLine date A) = false := by
    unfold msfInfoLine
    have hb : hasPair 110 58 (32 :: A.basename) = false := by
      rw [hasPair_cons_ne _ _ _ _ (by decide)]
      apply hasPair_not_mem
      intro hm
      have := nameChar_plain 58 (h.base 58 hm)
      revert this; decide
    have htc : hasPair 110 58 [msfTypeChar A] = false := rfl
    rw [hasPair_append _ _ _ _ (by decide), hasPair_append _ _ _ _ (digits_head _),
      hasPair_append _ _ _ _ (by decide), hasPair_append _ _ _ _ h.dateHead, hasPair_append _ _ _ _ (by decide),
      hasPair_append _ _ _ _ (by rcases msfTypeChar_cases A with e | e <;> simp [e]),
      hasPair_append _ _ _ _ (by decide), hasPair_append _ _ _ _ (digits_head _), hasPair_append _ _ _ _ (by decide)]
    simp only [hb, htc, digits_noPair, h.datePair, Bool.or_false]
    decide
  cases hs : hasSub (ascii "Len:") (msfInfoLine date A) with
  | false => rfl
  | true =>
    have := hasPair_of_hasSub 110 58 _ _ (by decide) hs
    rw [hp] at this; exact absurd this (by decide)

theorem msfInfoLine_noName (date : Bytes) (A : Alignment) (h : HdrOK A.basename date) :
    msfName (msfInfoLine date A) = none := by
  have hl := msfInfoLine_noLen date A h
  unfold msfName
  split
  · simp [hl]
  · rfl

/-! ## `Name:` lines -/

theorem replicate_append_cons (q : Nat) (x : UInt8) (t : Bytes) :
    replicate q x ++ x :: t = x :: (replicate q x ++ t) := by
  induction q with
  | zero => rfl
  | succ q ih => simp [replicate_succ, ih]

theorem takeWhile_append_stop (p : UInt8 → Bool) (nm t : Bytes) (x : UInt8) (h : ∀ b ∈ nm, p b = true)
    (hx : p x = false) : takeWhile p (nm ++ x :: t) = nm := by
  induction nm with
  | nil => simp [hx]
  | cons b bs ih =>
    simp [h b (by simp), ih (fun y hy => h y (by simp [hy]))]

/-- the text behind the name in a `Name:` line -/
def nameLineTail (alnlen chk : Nat) : Bytes :=
  ascii "  " ++ padLeft 5 (decDigits alnlen) ++ ascii "  Check: " ++ padLeft 4 (decDigits chk) ++ ascii "  Weight: 1.00"

theorem msfNameLine_eq (mx alnlen : Nat) (r : Row) (h : NmOK mx r.name) :
    msfNameLine mx alnlen r =
      32 :: (ascii "Name:" ++ 32 :: (r.name ++ 32 :: (replicate (mx - r.name.length) 32 ++
        32 :: (ascii "Len:" ++ nameLineTail alnlen (gcgChecksum r.row alnlen))))) := by
  unfold msfNameLine nameLineTail padRight
  rw [take_of_length_le h.mx]
  have e1 : ascii " Name: " = 32 :: (ascii "Name:" ++ [32]) := by decide
  have e2 : ascii "  Len:  " = 32 :: 32 :: (ascii "Len:" ++ ascii "  ") := by decide
  rw [e1, e2]
  simp only [cons_append, append_assoc, nil_append, replicate_append_cons]

theorem msfNameLine_ok (mx alnlen : Nat) (r : Row) (_h : NmOK mx r.name) (hp : ∀ b ∈ r.name, plainChar b = true) :
    AllOk (msfNameLine mx alnlen r) := by
  unfold msfNameLine
  have l1 : AllOk (ascii " Name: ") := by intro b hb; revert b; decide
  have l2 : AllOk (ascii "  Len:  ") := by intro b hb; revert b; decide
  have l4 : AllOk (ascii "  Check: ") := by intro b hb; revert b; decide
  have l5 : AllOk (ascii "  Weight: 1.00") := by intro b hb; revert b; decide
  have hn : AllOk (r.name.take mx) := AllOk.of_plain (fun b hb => hp b (mem_of_mem_take hb))
  exact (((((l1.append (hn.padRight _)).append l2).append ((AllOk.digits _).padLeft _)).append l4).append
    ((AllOk.digits _).padLeft _)).append l5

/-- a `Name:` line yields exactly the name -/
theorem msfName_nameLine (mx alnlen : Nat) (r : Row) (h : NmOK mx r.name) :
    msfName (msfNameLine mx alnlen r) = some r.name := by
  rw [msfNameLine_eq mx alnlen r h]
  generalize hT : nameLineTail alnlen (gcgChecksum r.row alnlen) = T
  generalize hq : mx - r.name.length = q
  obtain ⟨b, nm', hnm⟩ := exists_cons_of_ne_nil h.ne
  have hb : isSpace b = false := h.nosp b (by rw [hnm]; simp)
  -- strstr(line, "Name:")
  have hf : findSub (ascii "Name:") (32 :: (ascii "Name:" ++ 32 :: (r.name ++ 32 :: (replicate q 32 ++
      32 :: (ascii "Len:" ++ T))))) = some (ascii "Name:" ++ 32 :: (r.name ++ 32 :: (replicate q 32 ++
      32 :: (ascii "Len:" ++ T)))) := by
    have e : ascii "Name:" = [78, 97, 109, 101, 58] := by decide
    rw [e]
    simp [findSub, isPrefixOf]
  -- strstr(line, "Len:")
  have hl : hasSub (ascii "Len:") (32 :: (ascii "Name:" ++ 32 :: (r.name ++ 32 :: (replicate q 32 ++
      32 :: (ascii "Len:" ++ T))))) = true := by
    have := hasSub_append (ascii "Len:") (32 :: (ascii "Name:" ++ 32 :: (r.name ++ 32 :: (replicate q 32 ++ [32])))) T
    simpa [append_assoc] using this
  unfold msfName
  rw [hf]
  simp only [hl, if_true]
  have e5 : drop 5 (ascii "Name:" ++ 32 :: (r.name ++ 32 :: (replicate q 32 ++ 32 :: (ascii "Len:" ++ T)))) =
      32 :: (r.name ++ 32 :: (replicate q 32 ++ 32 :: (ascii "Len:" ++ T))) := by
    have e : ascii "Name:" = [78, 97, 109, 101, 58] := by decide
    rw [e]; rfl
  rw [e5]
  have ed : dropWhile isSpace (32 :: (r.name ++ 32 :: (replicate q 32 ++ 32 :: (ascii "Len:" ++ T)))) =
      r.name ++ 32 :: (replicate q 32 ++ 32 :: (ascii "Len:" ++ T)) := by
    rw [hnm]
    simp [hb, show isSpace 32 = true by decide]
  rw [ed, takeWhile_append_stop _ _ _ _ (fun b hb => by simp [h.nosp b hb]) (by decide)]
  rw [take_of_length_le (by have := h.le; omega)]

/-! ## header phase -/

theorem msfHeader_skip (l : Bytes) (ls : List Bytes) (acc : List SeqAcc) (h1 : hasSub (ascii "//") l = false)
    (h2 : msfName l = none) : msfHeader (l :: ls) acc = msfHeader ls acc := by
  simp [msfHeader, h1, h2]

theorem msfHeader_name (l nm : Bytes) (ls : List Bytes) (acc : List SeqAcc) (h1 : hasSub (ascii "//") l = false)
    (h2 : msfName l = some nm) : msfHeader (l :: ls) acc = msfHeader ls (SeqAcc.new nm :: acc) := by
  simp [msfHeader, h1, h2]

theorem msfHeader_names (mx alnlen : Nat) (rows : List Row)
    (hn : ∀ r ∈ rows, NmOK mx r.name ∧ ∀ b ∈ r.name, plainChar b = true) (rest : List Bytes) (acc : List SeqAcc) :
    msfHeader (rows.map (msfNameLine mx alnlen) ++ rest) acc =
      msfHeader rest ((rows.map fun r => SeqAcc.new r.name).reverse ++ acc) := by
  induction rows generalizing acc with
  | nil => rfl
  | cons r rs ih =>
    obtain ⟨h1, h2⟩ := hn r (by simp)
    simp only [map_cons, cons_append]
    rw [msfHeader_name _ r.name _ _ (msfNameLine_ok mx alnlen r h1 h2).no_sep (msfName_nameLine mx alnlen r h1),
      ih (fun x hx => hn x (by simp [hx]))]
    simp

theorem msfMagic_skip (A : Alignment) :
    hasSub (ascii "//") (msfMagic A) = false ∧ msfName (msfMagic A) = none ∧ AllOk (msfMagic A) := by
  unfold msfMagic
  split
  · exact ⟨by decide, by decide, by intro b hb; revert b; decide⟩
  · split
    · exact ⟨by decide, by decide, by intro b hb; revert b; decide⟩
    · exact ⟨by decide, by decide, by intro b hb; revert b; decide⟩

/-- the header phase of `read_msf` on a written file: one fresh sequence per `Name:` line, in order; the lines after `//` -/
theorem msfHeader_written (date : Bytes) (A : Alignment) (h : HdrOK A.basename date)
    (hn : ∀ r ∈ A.rows, NmOK (maxNameLen A) r.name ∧ ∀ b ∈ r.name, plainChar b = true) (body : List Bytes) :
    msfHeader (msfHeaderLines date A ++ body) [] = (A.rows.map fun r => SeqAcc.new r.name, [] :: body) := by
  unfold msfHeaderLines
  simp only [cons_append, nil_append, append_assoc]
  have he : hasSub (ascii "//") [] = false ∧ msfName [] = none := ⟨by decide, by decide⟩
  rw [msfHeader_skip _ _ _ (msfMagic_skip A).1 (msfMagic_skip A).2.1, msfHeader_skip _ _ _ he.1 he.2,
    msfHeader_skip _ _ _ (msfInfoLine_ok date A h).no_sep (msfInfoLine_noName date A h),
    msfHeader_skip _ _ _ he.1 he.2, msfHeader_names _ _ _ hn, msfHeader_skip _ _ _ he.1 he.2]
  have hs : hasSub (ascii "//") (ascii "//") = true := by decide
  simp [msfHeader, hs]

/-! ## block phase -/

theorem msfLine_seq (mx : Nat) (nm c : Bytes) (h : NmOK mx nm) (done rest : List SeqAcc) (s : SeqAcc)
    (hs : s.name = nm) :
    msfLine ⟨done, s :: rest⟩ (seqLine mx nm c) = some ⟨feed s c :: done, rest⟩ := by
  rw [seqLine_eq mx nm c h]
  obtain ⟨b, nm', rfl⟩ := exists_cons_of_ne_nil h.ne
  have hb : isSpace b = false := h.nosp b (by simp)
  simp only [cons_append]
  unfold msfLine
  simp only [hb, Bool.false_eq_true, if_false, hs]
  have e2 : drop (b :: nm').length (b :: (nm' ++ 32 :: (replicate (mx + 4 - (b :: nm').length) 32 ++ c))) =
      32 :: (replicate (mx + 4 - (b :: nm').length) 32 ++ c) := by
    rw [← cons_append, drop_left']; rfl
  rw [e2]
  have := feed_blanks s (mx + 4 - (b :: nm').length + 1) c
  rw [replicate_succ, cons_append] at this
  rw [this]

theorem msfFold_nil (st : Blk) : msfFold st [] = some st := rfl

theorem msfFold_cons (st st' : Blk) (l : Bytes) (ls : List Bytes) (h : msfLine st l = some st') :
    msfFold st (l :: ls) = msfFold st' ls := by
  simp [msfFold, h]

theorem msf_block (mx : Nat) (ps : List Prog) (hn : ∀ p ∈ ps, NmOK mx p.1) (done rest : List SeqAcc)
    (ls : List Bytes) :
    msfFold ⟨done, ps.map Prog.acc ++ rest⟩ (blockLines mx (heads (ps.map Prog.row)) ++ ls) =
      msfFold ⟨((ps.map Prog.next).map Prog.acc).reverse ++ done, rest⟩ ls := by
  induction ps generalizing done with
  | nil => simp [blockLines, heads]
  | cons p ps ih =>
    simp only [map_cons, heads, blockLines, cons_append] at ih ⊢
    have e : seqLine mx p.row.fst (p.row.snd.headD []) = seqLine mx p.1 (p.2.2.headD []) := rfl
    rw [e]
    rw [msfFold_cons _ _ _ _ (msfLine_seq mx p.1 _ (hn p (by simp)) done _ (Prog.acc p)
      (feed_name (SeqAcc.new p.1) p.2.1))]
    rw [ih (fun x hx => hn x (by simp [hx]))]
    congr 2
    simp only [reverse_cons, append_assoc, singleton_append]
    congr 2
    simp only [Prog.acc, Prog.next, feed_append]

theorem msf_blocks (mx k : Nat) (ps : List Prog) (hne : ps ≠ []) (hk : ∀ p ∈ ps, p.2.2.length = k)
    (hn : ∀ p ∈ ps, NmOK mx p.1) :
    msfFold ⟨[], ps.map Prog.acc⟩ (majorLines mx k (ps.map Prog.row)) = some ⟨[], ps.map Prog.final⟩ := by
  induction k generalizing ps with
  | zero =>
    simp only [majorLines, msfFold_nil]
    congr 2
    apply map_congr_left
    intro p hp
    have : p.2.2 = [] := eq_nil_of_length_eq_zero (hk p hp)
    simp [Prog.acc, Prog.final, this]
  | succ k ih =>
    have hne' : ps.map Prog.row ≠ [] := by simpa using hne
    simp only [majorLines, if_pos hne', append_assoc]
    have := msf_block mx ps hn [] [] ([[], []] ++ majorLines mx k (tails (ps.map Prog.row)))
    simp only [append_nil] at this
    rw [this]
    simp only [cons_append, nil_append]
    rw [msfFold_cons _ ⟨[], (ps.map Prog.next).map Prog.acc⟩ _ _ (by simp [msfLine, Blk.rewind]),
      msfFold_cons _ ⟨[], (ps.map Prog.next).map Prog.acc⟩ _ _ (by simp [msfLine, Blk.rewind])]
    rw [tails_prog, ih (ps.map Prog.next) (by simpa using hne)]
    · congr 2
      rw [map_map]
      apply map_congr_left
      intro p hp
      have := hk p hp
      match hc : p.2.2, this with
      | c :: cs, _ => simp [Prog.final, Prog.next, hc]
    · intro q hq
      simp only [mem_map] at hq
      obtain ⟨p, hp, rfl⟩ := hq
      have := hk p hp
      simp only [Prog.next, length_tail]; omega
    · intro q hq
      simp only [mem_map] at hq
      obtain ⟨p, hp, rfl⟩ := hq
      exact hn p hp

/-- **the MSF reader on the written layout** -/
theorem readMsf_layout (date : Bytes) (A : Alignment) (h : HdrOK A.basename date) (hne : A.rows ≠ [])
    (hn : ∀ r ∈ A.rows, NmOK (maxNameLen A) r.name ∧ ∀ b ∈ r.name, plainChar b = true) (k : Nat)
    (hk : ∀ r ∈ rowsC A, r.2.length = k) :
    readMsf (msfHeaderLines date A ++ majorLines (maxNameLen A) k (rowsC A)) =
      some (A.rows.map (scanRow A.alnlen)) := by
  unfold readMsf
  rw [msfHeader_written date A h hn]
  simp only
  let ps : List Prog := (rowsC A).map fun r => (r.1, [], r.2)
  have h1 : (A.rows.map fun r => SeqAcc.new r.name) = ps.map Prog.acc := by
    simp [ps, rowsC, Prog.acc, feed_nil]
  have h2 : rowsC A = ps.map Prog.row := by
    simp only [ps, map_map]
    conv => lhs; rw [← map_id (rowsC A)]
    apply map_congr_left
    intro r _; rfl
  rw [msfFold_cons _ ⟨[], A.rows.map fun r => SeqAcc.new r.name⟩ _ _ (by simp [msfLine, Blk.rewind])]
  rw [h1, h2, msf_blocks (maxNameLen A) k ps (by simpa [ps, rowsC] using hne)]
  · simp only [Option.map_some, Blk.seqs, reverse_nil, nil_append, Option.some.injEq]
    rw [← rowsC_final']
    simp [ps, Prog.final]
  · intro p hp
    simp only [ps, mem_map] at hp
    obtain ⟨r, hr, rfl⟩ := hp
    exact hk r hr
  · intro p hp
    simp only [ps, mem_map] at hp
    obtain ⟨r, hr, rfl⟩ := hp
    simp only [rowsC, mem_map] at hr
    obtain ⟨r0, h0, rfl⟩ := hr
    exact (hn r0 h0).1
where
  rowsC_final' : ((rowsC A).map fun r => feed (SeqAcc.new r.1) r.2.flatten).map SeqAcc.finish =
      A.rows.map (scanRow A.alnlen) := by
    simp only [rowsC, map_map]
    apply map_congr_left
    intro r _
    simp [Function.comp, scanRow, blocks_flatten]

end Kalign.IO
