import KalignModel.Lemmas.IO.Spec
/-! FASTA writer layout and the reader on it -/
namespace Kalign.IO

/-- row lines of one record -/
def faChunks (alnlen : Nat) (r : Row) : List Bytes :=
  if (r.row.take alnlen).isEmpty then [] else blocks (r.row.take alnlen)

/-- the lines of the FASTA file -/
def faLines (alnlen : Nat) (rows : List Row) : List Bytes :=
  rows.flatMap fun r => (62 :: r.name) :: faChunks alnlen r

theorem emit_cons (l : Bytes) (ls : List Bytes) : emit (l :: ls) = l ++ 10 :: emit ls := by
  simp [emit]

theorem fastaRecord_eq (alnlen : Nat) (r : Row) :
    fastaRecord alnlen r = emit ((62 :: r.name) :: faChunks alnlen r) := by
  simp only [fastaRecord, faChunks, emit_cons]
  split <;> simp [emit]

theorem writeFasta_eq_emit (A : Alignment) : writeFasta A = emit (faLines A.alnlen A.rows) := by
  unfold writeFasta faLines
  induction A.rows with
  | nil => rfl
  | cons r rs ih =>
    simp only [List.flatMap_cons, ih, fastaRecord_eq, emit_append]

theorem faChunks_flatten (alnlen : Nat) (r : Row) : (faChunks alnlen r).flatten = r.row.take alnlen := by
  unfold faChunks
  split
  · rename_i h; simp at h; simp [h]
  · exact blocks_flatten _

theorem faChunks_mem (alnlen : Nat) (r : Row) : ∀ c ∈ faChunks alnlen r, c ≠ [] ∧ ∀ b ∈ c, b ∈ r.row := by
  intro c hc
  unfold faChunks at hc
  split at hc
  · simp at hc
  · rename_i h
    have hne : r.row.take alnlen ≠ [] := by simpa using h
    have h1 := blocks_pos _ hne c hc
    refine ⟨by intro h0; rw [h0] at h1; simp at h1, ?_⟩
    intro b hb
    have : b ∈ (blocks (r.row.take alnlen)).flatten := List.mem_flatten.mpr ⟨c, hc, hb⟩
    rw [blocks_flatten] at this
    exact List.mem_of_mem_take this

/-! ## the reader -/

theorem faLine_header (st : FaState) (nm : Bytes) :
    faLine st (62 :: nm) =
      some { done := (match st.cur with | some c => c :: st.done | none => st.done), cur := some (SeqAcc.new nm) } := by
  rfl

theorem faLine_seq (done : List SeqAcc) (a : SeqAcc) (c : Bytes) (hc : c.head? ≠ some 62) :
    faLine ⟨done, some a⟩ c = some ⟨done, some (feed a c)⟩ := by
  unfold faLine
  split
  · rename_i nm; simp at hc
  · rfl

theorem faFold_chunks (done : List SeqAcc) (a : SeqAcc) (cs rest : List Bytes)
    (hcs : ∀ c ∈ cs, c.head? ≠ some 62) :
    faFold ⟨done, some a⟩ (cs ++ rest) = faFold ⟨done, some (feed a cs.flatten)⟩ rest := by
  induction cs generalizing a with
  | nil => rfl
  | cons c cs ih =>
    simp only [List.cons_append, faFold, faLine_seq done a c (hcs c (by simp))]
    rw [ih _ (fun x hx => hcs x (by simp [hx]))]
    simp [feed_append]

def FaState.push (st : FaState) : List SeqAcc := match st.cur with | some c => c :: st.done | none => st.done

theorem FaState.seqs_eq (st : FaState) : st.seqs = st.push.reverse.map SeqAcc.finish := rfl

/-- what the scanner makes of a record -/
def scanRow (alnlen : Nat) (r : Row) : SeqRec := (feed (SeqAcc.new r.name) (r.row.take alnlen)).finish

theorem faFold_lines (alnlen : Nat) (rows : List Row) (st : FaState)
    (h62 : ∀ r ∈ rows, ∀ b ∈ r.row, b ≠ 62) :
    ∃ st', faFold st (faLines alnlen rows) = some st' ∧ st'.seqs = st.seqs ++ rows.map (scanRow alnlen) := by
  induction rows generalizing st with
  | nil => exact ⟨st, rfl, by simp⟩
  | cons r rs ih =>
    have hch : ∀ c ∈ faChunks alnlen r, c.head? ≠ some 62 := by
      intro c hc
      obtain ⟨hne, hmem⟩ := faChunks_mem alnlen r c hc
      cases c with
      | nil => exact absurd rfl hne
      | cons b t =>
        simp only [List.head?_cons, ne_eq, Option.some.injEq]
        exact h62 r (by simp) b (hmem b (by simp))
    obtain ⟨st', h1, h2⟩ := ih ⟨st.push, some (feed (SeqAcc.new r.name) (faChunks alnlen r).flatten)⟩
      (fun x hx => h62 x (by simp [hx]))
    refine ⟨st', ?_, ?_⟩
    · simp only [faLines, List.flatMap_cons, List.cons_append, faFold, faLine_header]
      rw [faFold_chunks _ _ _ _ hch]
      exact h1
    · rw [h2, faChunks_flatten]
      simp [FaState.seqs_eq, FaState.push, scanRow]

/-- the FASTA reader on a written file: the scanner applied to every row, names kept, order kept -/
theorem readFasta_writeFasta (A : Alignment)
    (hname : ∀ r ∈ A.rows, ∀ b ∈ r.name, isCntrl b = false)
    (hrow : ∀ r ∈ A.rows, ∀ b ∈ r.row, isCntrl b = false ∧ b ≠ 62) :
    readFasta (splitLines (writeFasta A)) = some (A.rows.map (scanRow A.alnlen)) := by
  rw [writeFasta_eq_emit, splitLines_emit]
  · obtain ⟨st', h1, h2⟩ := faFold_lines A.alnlen A.rows ⟨[], none⟩ (fun r hr b hb => (hrow r hr b hb).2)
    simp only [readFasta, h1, Option.map_some, h2]
    simp [FaState.seqs]
  · intro l hl b hb
    simp only [faLines, List.mem_flatMap, List.mem_cons] at hl
    obtain ⟨r, hr, hl | hl⟩ := hl
    · subst hl
      simp only [List.mem_cons] at hb
      rcases hb with rfl | hb
      · decide
      · exact hname r hr b hb
    · exact (hrow r hr b ((faChunks_mem A.alnlen r l hl).2 b hb)).1

end Kalign.IO
