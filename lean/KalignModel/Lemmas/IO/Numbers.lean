import KalignModel.Lemmas.IO.Spec
/-! `%d` and the GCG checksum against their specifications -/
namespace Kalign.IO
open List

def byteOfChar (c : Char) : UInt8 := UInt8.ofNat c.toNat

theorem digitByte (d : Nat) (h : d < 10) : UInt8.ofNat (48 + d) = byteOfChar (Nat.digitChar d) := by
  have : ∀ i : Fin 10, UInt8.ofNat (48 + i.val) = byteOfChar (Nat.digitChar i.val) := by decide
  exact this ⟨d, h⟩

theorem decDigitsAux_eq (fuel n : Nat) (ds : List Char) :
    decDigitsAux fuel n (ds.map byteOfChar) = (Nat.toDigitsCore 10 fuel n ds).map byteOfChar := by
  induction fuel generalizing n ds with
  | zero => rfl
  | succ fuel ih =>
    simp only [decDigitsAux, Nat.toDigitsCore]
    rw [digitByte (n % 10) (Nat.mod_lt _ (by decide))]
    split
    · simp
    · have := ih (n / 10) (Nat.digitChar (n % 10) :: ds)
      simpa using this

/-- `%d`: the decimal digits of `n`, the same characters as Lean's `toString n` -/
theorem decDigits_eq (n : Nat) : decDigits n = (Nat.toDigits 10 n).map byteOfChar := by
  have := decDigitsAux_eq (n + 1) n []
  simpa [decDigits, Nat.toDigits] using this

theorem decDigits_eq_toString (n : Nat) : decDigits n = (toString n).toList.map byteOfChar := by
  rw [decDigits_eq]
  show _ = (Nat.repr n).toList.map byteOfChar
  rw [Nat.toList_repr]

theorem isDigit_byteOfChar (c : Char) (h : c.isDigit = true) : isDigit (byteOfChar c) = true := by
  have h1 : 48 ≤ c.toNat ∧ c.toNat ≤ 57 := by
    simp only [Char.isDigit, Bool.and_eq_true, decide_eq_true_eq] at h
    have a := h.1; have b := h.2
    simp only [UInt32.le_iff_toNat_le] at a b
    exact ⟨a, b⟩
  simp only [isDigit, byteOfChar, Bool.and_eq_true, decide_eq_true_eq, UInt8.le_iff_toNat_le, UInt8.toNat_ofNat']
  simp
  omega

theorem decDigits_isDigit (n : Nat) : ∀ b ∈ decDigits n, isDigit b = true := by
  intro b hb
  rw [decDigits_eq, mem_map] at hb
  obtain ⟨c, hc, rfl⟩ := hb
  exact isDigit_byteOfChar c (Nat.isDigit_of_mem_toDigits (by decide) (by decide) hc)

theorem decDigits_ne_nil (n : Nat) : decDigits n ≠ [] := by
  rw [decDigits_eq]
  intro h
  exact Nat.toDigits_ne_nil (map_eq_nil_iff.mp h)

/-- value of a decimal digit string -/
def decValue (l : Bytes) : Nat := l.foldl (fun v b => 10 * v + (b.toNat - 48)) 0

theorem decValue_decDigits (n : Nat) : decValue (decDigits n) = n := by
  have h := @Nat.ofDigitChars_ten_toDigits n
  rw [decDigits_eq]
  have key : ∀ (l : List Char) (v : Nat), (∀ c ∈ l, c.isDigit = true) →
      foldl (fun v b => 10 * v + (b.toNat - 48)) v (l.map byteOfChar) = Nat.ofDigitChars 10 l v := by
    intro l
    induction l with
    | nil => intro v _; rfl
    | cons c cs ih =>
      intro v hd
      simp only [map_cons, foldl_cons, Nat.ofDigitChars_cons]
      have hc := hd c (by simp)
      have h1 : 48 ≤ c.toNat ∧ c.toNat ≤ 57 := by
        simp only [Char.isDigit, Bool.and_eq_true, decide_eq_true_eq] at hc
        have a := hc.1; have b := hc.2
        simp only [UInt32.le_iff_toNat_le] at a b
        exact ⟨a, b⟩
      have h2 : (byteOfChar c).toNat = c.toNat := by
        simp only [byteOfChar, UInt8.toNat_ofNat']
        omega
      rw [h2]
      exact ih _ (fun x hx => hd x (by simp [hx]))
  unfold decValue
  rw [key _ 0 (fun c hc => Nat.isDigit_of_mem_toDigits (by decide) (by decide) hc)]
  exact h

/-! ## GCG checksum -/

/-- the sum of squid's `GCGchecksum` before the reductions modulo 10000 -/
def gcgSum : Nat → Bytes → Nat
  | _, [] => 0
  | i, b :: bs => (i % 57 + 1) * (toUpper b).toNat + gcgSum (i + 1) bs

theorem gcgAux_eq (i chk : Nat) (l : Bytes) (h : chk < 10000) : gcgAux i chk l = (chk + gcgSum i l) % 10000 := by
  induction l generalizing i chk with
  | nil => simp only [gcgAux, gcgSum, Nat.add_zero]; omega
  | cons b bs ih =>
    simp only [gcgAux, gcgSum]
    rw [ih _ _ (Nat.mod_lt _ (by decide))]
    omega

/-- `GCGchecksum(seq, len)` = Σ_{i < len} (i mod 57 + 1) · toupper(seq[i])  mod 10000 -/
theorem gcgChecksum_eq (seq : Bytes) (len : Nat) : gcgChecksum seq len = gcgSum 0 (seq.take len) % 10000 := by
  simp [gcgChecksum, gcgAux_eq]

theorem gcgSum_eq_sum (i : Nat) (l : Bytes) :
    gcgSum i l = ((List.range l.length).map fun k => ((i + k) % 57 + 1) * (toUpper l[k]!).toNat).sum := by
  induction l generalizing i with
  | nil => rfl
  | cons b bs ih =>
    simp only [gcgSum, length_cons, List.range_succ_eq_map, map_cons, sum_cons, map_map]
    rw [ih (i + 1)]
    simp only [Nat.add_zero, getElem!_cons_zero]
    congr 2
    apply map_congr_left
    intro k _
    simp only [Function.comp]
    rw [show i + 1 + k = i + (k + 1) by omega]
    simp

theorem gcgMult_lt (rows : List Row) (alnlen chk : Nat) (h : chk < 10000) :
    rows.foldl (fun chk r => (chk + gcgChecksum r.row alnlen) % 10000) chk < 10000 := by
  induction rows generalizing chk with
  | nil => exact h
  | cons r rs ih => exact ih _ (Nat.mod_lt _ (by decide))

theorem gcgMult_fold (rows : List Row) (alnlen chk : Nat) :
    rows.foldl (fun chk r => (chk + gcgChecksum r.row alnlen) % 10000) chk % 10000 =
      (chk + (rows.map fun r => gcgChecksum r.row alnlen).sum) % 10000 := by
  induction rows generalizing chk with
  | nil => simp
  | cons r rs ih =>
    simp only [foldl_cons, map_cons, sum_cons]
    rw [ih]
    omega

/-- `GCGMultchecksum` = sum of the row checksums mod 10000 -/
theorem gcgMult_eq (A : Alignment) :
    gcgMult A = (A.rows.map fun r => gcgChecksum r.row A.alnlen).sum % 10000 := by
  have h1 := gcgMult_fold A.rows A.alnlen 0
  have h2 := gcgMult_lt A.rows A.alnlen 0 (by decide)
  unfold gcgMult
  rw [Nat.mod_eq_of_lt h2] at h1
  simpa using h1

end Kalign.IO
