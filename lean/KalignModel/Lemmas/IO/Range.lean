import KalignModel.Lemmas.IO.Layout
/-! index form of the blocks: block `b` of a row is `row[60 b .. 60 b + 60)` -/
namespace Kalign.IO
open List

/-- columns `60 b .. 60 b + 59` of a row -/
def chunkOf (r : Bytes) (b : Nat) : Bytes := (r.drop (60 * b)).take 60

theorem blocks_eq_range (r : Bytes) :
    blocks r = (List.range (numBlocks r.length)).map (chunkOf r) := by
  fun_induction blocks r with
  | case1 r h =>
    have : numBlocks r.length = 1 := by unfold numBlocks; omega
    rw [this]
    simp [chunkOf, List.range_succ, List.take_of_length_le h]
  | case2 r h ih =>
    have : numBlocks r.length = numBlocks (r.drop 60).length + 1 := by
      simp only [numBlocks, length_drop]; omega
    rw [this, List.range_succ_eq_map, ih]
    simp only [map_cons, map_map, chunkOf, Nat.mul_zero, drop_zero, cons.injEq, true_and]
    apply map_congr_left
    intro b _
    show chunkOf (drop 60 r) b = chunkOf r (b + 1)
    simp only [chunkOf, drop_drop]
    rw [show 60 + 60 * b = 60 * (b + 1) by omega]

theorem majorLines_range (mx : Nat) (rows : List Row) (g : Row → Nat → Bytes) (k b0 : Nat) :
    majorLines mx k (rows.map fun r => (r.name, (List.range k).map fun b => g r (b0 + b))) =
      (List.range k).flatMap fun b =>
        (rows.map fun r => seqLine mx r.name (g r (b0 + b))) ++ (if rows ≠ [] then [[], []] else []) := by
  induction k generalizing b0 with
  | zero => rfl
  | succ k ih =>
    have hh : heads (rows.map fun r => (r.name, (List.range (k + 1)).map fun b => g r (b0 + b))) =
        rows.map fun r => (r.name, g r b0) := by
      simp [heads, List.range_succ_eq_map]
    have ht : tails (rows.map fun r => (r.name, (List.range (k + 1)).map fun b => g r (b0 + b))) =
        rows.map fun r => (r.name, (List.range k).map fun b => g r (b0 + 1 + b)) := by
      simp only [tails, map_map, List.range_succ_eq_map, map_cons]
      apply map_congr_left
      intro r _
      simp only [Function.comp, Prod.mk.injEq, true_and]
      apply map_congr_left
      intro b _
      simp only [Function.comp]
      congr 1; omega
    simp only [majorLines]
    rw [hh, ht, ih (b0 + 1)]
    rw [List.range_succ_eq_map (n := k)]
    simp only [flatMap_cons, flatMap_map, blockLines, map_map, Nat.add_zero, Function.comp_def]
    congr 1
    · simp
    · have : ∀ b : Nat, b0 + 1 + b = b0 + b.succ := by intro b; omega
      simp only [this]

/-- block `b` of the Clustal/MSF body: one line per sequence in order (name, blanks up to column `max_name_len + 5`,
columns `60 b ..`), then two empty lines -/
def blockText (A : Alignment) (b : Nat) : List Bytes :=
  (A.rows.map fun r => seqLine (maxNameLen A) r.name (chunkOf (r.row.take A.alnlen) b)) ++
    (if A.rows ≠ [] then [[], []] else [])

theorem majorLines_eq_blockText (A : Alignment) (hb : A.InBounds) :
    majorLines (maxNameLen A) (numBlocks A.alnlen) (rowsC A) =
      (List.range (numBlocks A.alnlen)).flatMap (blockText A) := by
  have h1 : rowsC A = A.rows.map fun r =>
      (r.name, (List.range (numBlocks A.alnlen)).map fun b => chunkOf (r.row.take A.alnlen) (0 + b)) := by
    unfold rowsC
    apply map_congr_left
    intro r hr
    rw [blocks_eq_range, length_take, Nat.min_eq_left (hb r hr)]
    simp
  rw [h1, majorLines_range]
  unfold blockText
  simp only [Nat.zero_add, ne_eq, ite_not]

theorem chunkOf_length_le (r : Bytes) (b : Nat) : (chunkOf r b).length ≤ 60 := by
  simp [chunkOf]; omega

theorem chunkOf_flatten (r : Bytes) : ((List.range (numBlocks r.length)).map (chunkOf r)).flatten = r := by
  rw [← blocks_eq_range, blocks_flatten]

end Kalign.IO
