import KalignModel.Lemmas.IO.Spec
/-! `strstr` and `detect_alignment_format` facts -/
namespace Kalign.IO
open List

theorem findSub_mem (needle hay s : Bytes) (h : findSub needle hay = some s) : ∀ b ∈ needle, b ∈ hay := by
  induction hay with
  | nil =>
    simp only [findSub] at h
    split at h
    · rename_i h0; simp at h0; subst h0; simp
    · simp at h
  | cons x t ih =>
    simp only [findSub] at h
    split at h
    · rename_i hp
      intro b hb
      exact (List.isPrefixOf_iff_prefix.mp hp).subset hb
    · intro b hb
      exact mem_cons_of_mem _ (ih h b hb)

/-- a needle containing a byte that the line does not contain is not found -/
theorem hasSub_false (needle hay : Bytes) (b : UInt8) (hb : b ∈ needle) (hn : b ∉ hay) : hasSub needle hay = false := by
  unfold hasSub
  cases h : findSub needle hay with
  | none => rfl
  | some s => exact absurd (findSub_mem _ _ _ h b hb) hn

theorem hasSub_append (needle pre post : Bytes) : hasSub needle (pre ++ needle ++ post) = true := by
  unfold hasSub
  induction pre with
  | nil =>
    cases hn : needle ++ post with
    | nil =>
      have h1 : needle = [] := (append_eq_nil_iff.mp hn).1
      have h2 : post = [] := (append_eq_nil_iff.mp hn).2
      simp [findSub, h1, h2]
    | cons x t =>
      simp only [nil_append, hn, findSub]
      rw [← hn, if_pos (List.isPrefixOf_iff_prefix.mpr (prefix_append _ _))]
      rfl
  | cons x t ih =>
    simp only [cons_append, findSub]
    split
    · rfl
    · simpa using ih

/-- none of the MSF / Clustal hint strings occurs in a line without `'!'`, `':'` and blanks -/
theorem noHints (l : Bytes) (h33 : (33 : UInt8) ∉ l) (h58 : (58 : UInt8) ∉ l) (h32 : (32 : UInt8) ∉ l) :
    countHints msfHints l = 0 ∧ countHints cluHints l = 0 := by
  have a1 := hasSub_false (ascii "!!AA_MULTIPLE_ALIGNMENT") l 33 (by decide) h33
  have a2 := hasSub_false (ascii "!!NA_MULTIPLE_ALIGNMENT") l 33 (by decide) h33
  have a3 := hasSub_false (ascii "MSF:") l 58 (by decide) h58
  have b1 := hasSub_false (ascii "multiple sequence alignment") l 32 (by decide) h32
  have b2 := hasSub_false (ascii "CLUSTAL W") l 32 (by decide) h32
  have b3 := hasSub_false (ascii "CLUSTAL O") l 32 (by decide) h32
  simp [countHints, msfHints, cluHints, a1, a2, a3, b1, b2, b3]

theorem sum_map_zero {α} (l : List α) (f : α → Nat) (h : ∀ x ∈ l, f x = 0) : (l.map f).sum = 0 := by
  induction l with
  | nil => rfl
  | cons x xs ih => simp [h x (by simp), ih (fun y hy => h y (by simp [hy]))]

theorem hints_1 (lines : List Bytes) : (hints lines).1 = ((lines.take 100).map fastaHint).sum := rfl
theorem hints_2 (lines : List Bytes) : (hints lines).2.1 = ((lines.take 100).map (countHints msfHints)).sum := rfl
theorem hints_3 (lines : List Bytes) : (hints lines).2.2 = ((lines.take 100).map (countHints cluHints)).sum := rfl

/-- the first line decides when it carries a hint -/
theorem detectFormat_head (l : Bytes) (ls : List Bytes) (k : Int) (h : lineKind l = some k) : detectFormat (l :: ls) = k := by
  unfold detectFormat
  simp [List.take_succ_cons, h]

/-- lines without any hint are skipped -/
theorem detectFormat_skip (l : Bytes) (ls : List Bytes) (h : lineKind l = none) :
    detectFormat (l :: ls) = ((ls.take 99).findSome? lineKind).getD (-1) := by
  unfold detectFormat
  simp [List.take_succ_cons, h]

theorem lineKind_fasta (l : Bytes) (h : fastaHint l ≠ 0) : lineKind l = some 1 := by
  unfold lineKind; simp [h]

theorem lineKind_clu (l : Bytes) (h0 : fastaHint l = 0) (h : countHints cluHints l ≠ 0) : lineKind l = some 3 := by
  unfold lineKind; simp [h0, h]

theorem lineKind_msf (l : Bytes) (h0 : fastaHint l = 0) (h1 : countHints cluHints l = 0) (h : countHints msfHints l ≠ 0) :
    lineKind l = some 2 := by
  unfold lineKind; simp [h0, h1, h]

theorem sum_map_pos {α} (x : α) (l : List α) (f : α → Nat) (h : f x ≠ 0) : ((x :: l).map f).sum ≠ 0 := by
  simp only [map_cons, sum_cons]; omega

theorem finishMsa_seqs (S : List SeqRec) (b l : Nat) : (finishMsa S b l).seqs = S := by
  unfold finishMsa; split; rfl

/-- `kalign_read_input` on a file whose first line is not one byte long, whose format is sniffed as `t` and whose
reader returns the non-empty list `S` -/
theorem readInput_ok (file : Bytes) (l : Bytes) (ls : List Bytes) (t : Int) (S : List SeqRec)
    (hlines : splitLines file = l :: ls) (hl : l.length ≠ 1)
    (hdet : detectFormat (l :: ls) = t) (ht : t ≠ -1) (hread : readAs t (l :: ls) = some S) (hne : S ≠ []) :
    readInput file = .ok (finishMsa S 2 255) := by
  unfold readInput readInput1
  simp only [hlines, hdet, hread]
  have hj : ((l.length : Int) - 1 == 0) = false := by
    simp only [beq_eq_false_iff_ne, ne_eq]; omega
  have ht' : (t == -1) = false := by simpa using ht
  have he : S.isEmpty = false := by cases S <;> simp_all
  have hlen : ((finishMsa S 2 255).seqs.length == 0) = false := by
    rw [finishMsa_seqs]; cases S <;> simp_all
  simp [hj, ht', he, hlen]

end Kalign.IO
