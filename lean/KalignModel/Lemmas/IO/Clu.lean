import KalignModel.Lemmas.IO.Layout
import KalignModel.Lemmas.IO.Fasta
/-! the Clustal reader on the block layout -/
namespace Kalign.IO
open List

/-- what the block readers need of a name printed in front of a row with `max_name_len = mx` -/
structure NmOK (mx : Nat) (nm : Bytes) : Prop where
  ne : nm ≠ []
  le : nm.length ≤ 200
  nosp : ∀ b ∈ nm, isSpace b = false
  mx : nm.length ≤ mx

theorem seqLine_eq (mx : Nat) (nm c : Bytes) (h : NmOK mx nm) :
    seqLine mx nm c = nm ++ 32 :: (replicate (mx + 4 - nm.length) 32 ++ c) := by
  have h1 : nameCut nm = nm := by
    unfold nameCut; exact take_of_length_le (by have := h.le; omega)
  unfold seqLine
  rw [h1]
  have : mx + 5 - nm.length = (mx + 4 - nm.length) + 1 := by have := h.mx; omega
  rw [this, replicate_succ]
  simp

theorem findIdx_append_hit (p : UInt8 → Bool) (nm : Bytes) (x : UInt8) (t : Bytes)
    (h : ∀ b ∈ nm, p b = false) (hx : p x = true) : findIdx p (nm ++ x :: t) = nm.length := by
  induction nm with
  | nil => simp [findIdx_cons, hx]
  | cons b bs ih =>
    have hb := h b (by simp)
    simp [findIdx_cons, hb, ih (fun y hy => h y (by simp [hy]))]

theorem cluNameLen_seqLine (nm t : Bytes) (hle : nm.length ≤ 200) (hns : ∀ b ∈ nm, isSpace b = false) :
    cluNameLen (nm ++ 32 :: t) = nm.length := by
  unfold cluNameLen
  have h1 : take 255 (nm ++ 32 :: t) = nm ++ 32 :: take (254 - nm.length) t := by
    rw [take_append, take_of_length_le (by omega)]
    have : 255 - nm.length = (254 - nm.length) + 1 := by omega
    rw [this, take_succ_cons]
  simp only [h1]
  rw [findIdx_append_hit isSpace nm 32 _ hns (by decide)]
  simp

theorem cluLine_seq (mx : Nat) (nm c : Bytes) (h : NmOK mx nm) (done rest : List SeqAcc) :
    cluLine ⟨done, rest⟩ (seqLine mx nm c) =
      ⟨feed { (rest.headD (SeqAcc.new [])) with name := nm } c :: done, rest.tail⟩ := by
  rw [seqLine_eq mx nm c h]
  obtain ⟨b, nm', rfl⟩ := exists_cons_of_ne_nil h.ne
  have hb : isSpace b = false := h.nosp b (by simp)
  have hj := cluNameLen_seqLine (b :: nm') (replicate (mx + 4 - (b :: nm').length) 32 ++ c) h.le h.nosp
  simp only [cons_append] at hj ⊢
  unfold cluLine
  simp only [hb, Bool.false_eq_true, if_false, hj]
  have e1 : take (b :: nm').length (b :: (nm' ++ 32 :: (replicate (mx + 4 - (b :: nm').length) 32 ++ c))) = b :: nm' := by
    rw [← cons_append, take_left']; rfl
  have e2 : drop (b :: nm').length (b :: (nm' ++ 32 :: (replicate (mx + 4 - (b :: nm').length) 32 ++ c))) =
      32 :: (replicate (mx + 4 - (b :: nm').length) 32 ++ c) := by
    rw [← cons_append, drop_left']; rfl
  rw [e1, e2]
  have e3 : ∀ a : SeqAcc, feed a (32 :: (replicate (mx + 4 - (b :: nm').length) 32 ++ c)) = feed a c := by
    intro a
    have := feed_blanks a (mx + 4 - (b :: nm').length + 1) c
    rwa [replicate_succ, cons_append] at this
  rw [e3]
  cases rest <;> rfl

/-- the sequences of a block meet the accumulated sequences one by one -/
def zipFeed : List SeqAcc → List (Bytes × Bytes) → List SeqAcc
  | _, [] => []
  | rest, r :: hs => feed { (rest.headD (SeqAcc.new [])) with name := r.1 } r.2 :: zipFeed rest.tail hs

theorem clu_block (mx : Nat) (hs : List (Bytes × Bytes)) (hn : ∀ r ∈ hs, NmOK mx r.1) (done rest : List SeqAcc) :
    (blockLines mx hs).foldl cluLine ⟨done, rest⟩ = ⟨(zipFeed rest hs).reverse ++ done, rest.drop hs.length⟩ := by
  induction hs generalizing done rest with
  | nil => simp [blockLines, zipFeed]
  | cons r hs ih =>
    simp only [blockLines, map_cons, foldl_cons] at ih ⊢
    rw [cluLine_seq mx r.1 r.2 (hn r (by simp)), ih (fun x hx => hn x (by simp [hx]))]
    simp [zipFeed]

theorem clu_block_sep (mx : Nat) (hs : List (Bytes × Bytes)) (hn : ∀ r ∈ hs, NmOK mx r.1) (rest : List SeqAcc) :
    (blockLines mx hs ++ [[], []]).foldl cluLine ⟨[], rest⟩ = ⟨[], zipFeed rest hs ++ rest.drop hs.length⟩ := by
  rw [foldl_append, clu_block mx hs hn]
  simp [cluLine, Blk.rewind]

/-- a sequence with the bytes consumed so far and the chunks still to come -/
abbrev Prog := Bytes × Bytes × List Bytes
def Prog.acc (p : Prog) : SeqAcc := feed (SeqAcc.new p.1) p.2.1
def Prog.row (p : Prog) : RowC := (p.1, p.2.2)
def Prog.next (p : Prog) : Prog := (p.1, p.2.1 ++ p.2.2.headD [], p.2.2.tail)
def Prog.final (p : Prog) : SeqAcc := feed (SeqAcc.new p.1) (p.2.1 ++ p.2.2.flatten)

theorem eta_name (a : SeqAcc) (nm : Bytes) (h : a.name = nm) : (⟨nm, a.rres, a.rgaps, a.cur⟩ : SeqAcc) = a := by
  cases a; simp_all

theorem zipFeed_prog (ps : List Prog) :
    zipFeed (ps.map Prog.acc) (heads (ps.map Prog.row)) = (ps.map Prog.next).map Prog.acc := by
  induction ps with
  | nil => rfl
  | cons p ps ih =>
    simp only [map_cons, heads, zipFeed, headD_cons, tail_cons] at ih ⊢
    rw [ih]
    congr 1
    simp only [Prog.acc, Prog.next, Prog.row]
    rw [feed_append, eta_name (feed (SeqAcc.new p.1) p.2.1) p.1 (feed_name (SeqAcc.new p.1) p.2.1)]

theorem tails_prog (ps : List Prog) : tails (ps.map Prog.row) = (ps.map Prog.next).map Prog.row := by
  simp [tails, Prog.row, Prog.next]

theorem heads_names (ps : List Prog) : ∀ r ∈ heads (ps.map Prog.row), ∃ p ∈ ps, r.1 = p.1 := by
  intro r hr
  simp only [heads, map_map, mem_map] at hr
  obtain ⟨p, hp, rfl⟩ := hr
  exact ⟨p, hp, rfl⟩

/-- later blocks: every block extends every accumulated sequence by its chunk -/
theorem clu_blocks (mx k : Nat) (ps : List Prog) (hne : ps ≠ []) (hk : ∀ p ∈ ps, p.2.2.length = k)
    (hn : ∀ p ∈ ps, NmOK mx p.1) :
    (majorLines mx k (ps.map Prog.row)).foldl cluLine ⟨[], ps.map Prog.acc⟩ = ⟨[], ps.map Prog.final⟩ := by
  induction k generalizing ps with
  | zero =>
    simp only [majorLines, foldl_nil]
    congr 1
    apply map_congr_left
    intro p hp
    have : p.2.2 = [] := eq_nil_of_length_eq_zero (hk p hp)
    simp [Prog.acc, Prog.final, this]
  | succ k ih =>
    have hne' : ps.map Prog.row ≠ [] := by simpa using hne
    have hm : majorLines mx (k + 1) (ps.map Prog.row) =
        (blockLines mx (heads (ps.map Prog.row)) ++ [[], []]) ++ majorLines mx k (tails (ps.map Prog.row)) := by
      simp only [majorLines, if_pos hne']
    rw [hm, foldl_append, clu_block_sep mx _ (fun r hr => by
      obtain ⟨p, hp, h1⟩ := heads_names ps r hr; rw [h1]; exact hn p hp)]
    have hlen : (heads (ps.map Prog.row)).length = (ps.map Prog.acc).length := by simp [heads]
    rw [hlen, drop_length, append_nil, zipFeed_prog, tails_prog]
    rw [ih (ps.map Prog.next) (by simpa using hne)]
    · congr 1
      rw [map_map]
      apply map_congr_left
      intro p hp
      have := hk p hp
      match hc : p.2.2, this with
      | c :: cs, _ => simp [Prog.final, Prog.next, hc]
    · intro q hq
      simp only [mem_map] at hq
      obtain ⟨p, hp, rfl⟩ := hq
      have := hk p hp
      simp only [Prog.next, length_tail]; omega
    · intro q hq
      simp only [mem_map] at hq
      obtain ⟨p, hp, rfl⟩ := hq
      exact hn p hp

/-- all blocks from the empty state (the first block creates the sequences) -/
theorem clu_all (mx k : Nat) (rs : List RowC) (hne : rs ≠ []) (hk : ∀ r ∈ rs, r.2.length = k + 1)
    (hn : ∀ r ∈ rs, NmOK mx r.1) :
    (majorLines mx (k + 1) rs).foldl cluLine ⟨[], []⟩ =
      ⟨[], rs.map fun r => feed (SeqAcc.new r.1) r.2.flatten⟩ := by
  have hm : majorLines mx (k + 1) rs = (blockLines mx (heads rs) ++ [[], []]) ++ majorLines mx k (tails rs) := by
    simp only [majorLines, if_pos hne]
  rw [hm, foldl_append, clu_block_sep mx _ (fun r hr => by
    simp only [heads, mem_map] at hr
    obtain ⟨r0, h0, rfl⟩ := hr
    exact hn r0 h0)]
  simp only [drop_nil, append_nil]
  let ps : List Prog := rs.map fun r => (r.1, r.2.headD [], r.2.tail)
  have h1 : zipFeed [] (heads rs) = ps.map Prog.acc := by
    simp only [ps, map_map, heads]
    generalize rs = l
    induction l with
    | nil => rfl
    | cons r l ih => simp only [map_cons, zipFeed, tail_nil, ih]; rfl
  have h2 : tails rs = ps.map Prog.row := by
    simp [ps, tails, Prog.row]
  rw [h1, h2, clu_blocks mx k ps (by simpa [ps] using hne)]
  · congr 1
    simp only [ps, map_map]
    apply map_congr_left
    intro r hr
    have := hk r hr
    match hc : r.2, this with
    | c :: cs, _ => simp [Prog.final, hc]
  · intro p hp
    simp only [ps, mem_map] at hp
    obtain ⟨r, hr, rfl⟩ := hp
    have := hk r hr
    simp only [length_tail]; omega
  · intro p hp
    simp only [ps, mem_map] at hp
    obtain ⟨r, hr, rfl⟩ := hp
    exact hn r hr

end Kalign.IO

namespace Kalign.IO
open List

theorem foldl_max_ge (l : List Row) (m0 : Nat) :
    m0 ≤ l.foldl (fun m r => max m (nameCut r.name).length) m0 ∧
    ∀ r ∈ l, (nameCut r.name).length ≤ l.foldl (fun m r => max m (nameCut r.name).length) m0 := by
  induction l generalizing m0 with
  | nil => simp
  | cons x xs ih =>
    simp only [foldl_cons, mem_cons]
    obtain ⟨h1, h2⟩ := ih (max m0 (nameCut x.name).length)
    refine ⟨by omega, ?_⟩
    intro r hr
    rcases hr with rfl | hr
    · omega
    · exact h2 r hr

theorem maxNameLen_ge (A : Alignment) : ∀ r ∈ A.rows, (nameCut r.name).length ≤ maxNameLen A :=
  (foldl_max_ge A.rows 0).2

/-- every byte of the body lines is a blank, a name byte or a row byte -/
theorem majorLines_bytes (P : UInt8 → Prop) (h32 : P 32) (mx k : Nat) (rs : List RowC)
    (h : ∀ r ∈ rs, (∀ b ∈ r.1, P b) ∧ ∀ c ∈ r.2, ∀ b ∈ c, P b) :
    ∀ l ∈ majorLines mx k rs, ∀ b ∈ l, P b := by
  induction k generalizing rs with
  | zero => simp [majorLines]
  | succ k ih =>
    intro l hl b hb
    simp only [majorLines, mem_append] at hl
    rcases hl with (hl | hl) | hl
    · simp only [blockLines, heads, map_map, mem_map] at hl
      obtain ⟨r, hr, rfl⟩ := hl
      simp only [Function.comp, seqLine, nameCut, mem_append, mem_replicate] at hb
      rcases hb with (hb | hb) | hb
      · exact (h r hr).1 b (mem_of_mem_take hb)
      · rw [hb.2]; exact h32
      · cases hc : r.2 with
        | nil => rw [hc] at hb; simp at hb
        | cons c cs => rw [hc] at hb; exact (h r hr).2 c (by rw [hc]; simp) b (by simpa using hb)
    · split at hl
      · simp only [mem_cons] at hl
        rcases hl with rfl | rfl | hl
        · simp at hb
        · simp at hb
        · simp at hl
      · simp at hl
    · refine ih (tails rs) ?_ l hl b hb
      intro r hr
      simp only [tails, mem_map] at hr
      obtain ⟨r0, h0, rfl⟩ := hr
      exact ⟨(h r0 h0).1, fun c hc b hb => (h r0 h0).2 c (mem_of_mem_tail hc) b hb⟩

end Kalign.IO
