import KalignModel.Lemmas.IO.Sniff
import KalignModel.Lemmas.IO.Present
/-! several input files (`merge_msa`), and what `kalign_run` keeps of the result (`dealign_msa`) -/
namespace Kalign.IO
open List

/-- `kalign_read_input` gets the sequences `S` out of `file`: the first line is not one byte long (the "was anything
read" test), the format is recognised, its reader succeeds and returns at least one sequence -/
structure FileReads (file : Bytes) (S : List SeqRec) : Prop where
  ex : ∃ l ls t, splitLines file = l :: ls ∧ l.length ≠ 1 ∧ detectFormat (l :: ls) = t ∧ t ≠ -1 ∧
    readAs t (l :: ls) = some S
  ne : S ≠ []

/-- the msa after one more file (`merge_msa` when there is one already) -/
def mergeStep (prev : Option Msa) (S : List SeqRec) : Msa :=
  match prev with
  | none => finishMsa S 2 255
  | some d => finishMsa (d.seqs ++ S) d.biotype d.L

/-- the recorded finding C04-split-class as an explicit hypothesis: the file's own detected class equals the class of
what was read before it (or nothing definite was read before it); otherwise `merge_msa` fails with
"Input alignments have different alphabets" -/
def classOK (prev : Option Msa) (S : List SeqRec) : Prop :=
  match prev with
  | none => True
  | some d => d.biotype = 2 ∨ d.biotype = (finishMsa S 2 255).biotype

def ClassOK : Option Msa → List (List SeqRec) → Prop
  | _, [] => True
  | prev, S :: Ss => classOK prev S ∧ ClassOK (some (mergeStep prev S)) Ss

def accum : Option Msa → List (List SeqRec) → Option Msa
  | prev, [] => prev
  | prev, S :: Ss => accum (some (mergeStep prev S)) Ss

theorem readInput1_of_reads (prev : Option Msa) (file : Bytes) (S : List SeqRec) (h : FileReads file S)
    (hc : classOK prev S) : readInput1 prev file = .ok (mergeStep prev S) := by
  obtain ⟨l, ls, t, hlines, hl, hdet, ht, hread⟩ := h.ex
  unfold readInput1
  simp only [hlines, hdet, hread]
  have hj : ((l.length : Int) - 1 == 0) = false := by
    simp only [beq_eq_false_iff_ne, ne_eq]; omega
  have ht' : (t == -1) = false := by simpa using ht
  have he : S.isEmpty = false := by have := h.ne; cases S <;> simp_all
  cases prev with
  | none =>
    have hlen : ((finishMsa S 2 255).seqs.length == 0) = false := by
      rw [finishMsa_seqs]; have := h.ne; cases S <;> simp_all
    simp [hj, ht', he, hlen, mergeStep]
  | some d =>
    have hlen : ((finishMsa (d.seqs ++ S) d.biotype d.L).seqs.length == 0) = false := by
      rw [finishMsa_seqs]; have := h.ne; cases S <;> simp_all
    have hcls : ¬(¬d.biotype = 2 ∧ ¬d.biotype = (finishMsa S 2 255).biotype) := by
      rcases hc with h1 | h1 <;> simp [h1]
    have hne := h.ne
    simp [hj, ht', he, mergeStep, hcls, finishMsa_seqs, hne]

/-- file `i` is read as `Ss[i]`, for all files -/
inductive AllReads : List Bytes → List (List SeqRec) → Prop
  | nil : AllReads [] []
  | cons {f S fs Ss} : FileReads f S → AllReads fs Ss → AllReads (f :: fs) (S :: Ss)

/-- reading the files in turn accumulates their sequences in file order -/
theorem readInputs_split (files : List Bytes) (Ss : List (List SeqRec)) (prev : Option Msa)
    (hr : AllReads files Ss) (hc : ClassOK prev Ss) :
    readInputs prev files = (match accum prev Ss with | none => .null | some m => .ok m) := by
  induction hr generalizing prev with
  | nil => cases prev <;> rfl
  | @cons f S fs Ss' h _ ih =>
    simp only [readInputs, readInput1_of_reads prev f S h hc.1, accum]
    exact ih _ hc.2

/-- the two log-likelihoods of `detect_alphabet` -/
def scores (lf : Array Nat) : Float × Float :=
  let dna := probTable Gen.dnaLetters Gen.prob_dna_letter Gen.prob_dna_other
  let prot := probTable Gen.proteinLetters Gen.prob_prot_letter Gen.prob_prot_other
  (List.range 128).foldl (fun (acc : Float × Float) (i : Nat) =>
    if lf[i]! ≠ 0 then
      (acc.1 + dna[i]! * Float.ofNat lf[i]!, acc.2 + prot[i]! * Float.ofNat lf[i]!)
    else acc) (0.0, 0.0)

/-- the decision of `detect_alphabet` -/
def classify (d p : Float) (bio L : Nat) : Nat × Nat :=
  if d == p then (bio, 255) else if d > p then (1, L) else if p > d then (0, L) else (bio, L)

theorem detectAlphabet_eq (lf : Array Nat) (b L : Nat) :
    detectAlphabet lf b L = classify (scores lf).1 (scores lf).2 b L := rfl

theorem detectAlphabet_L (lf : Array Nat) (b : Nat) : (detectAlphabet lf b 255).2 = 255 := by
  rw [detectAlphabet_eq]; unfold classify
  split
  · rfl
  · split
    · rfl
    · split <;> rfl

theorem finishMsa_L (S : List SeqRec) (b : Nat) : (finishMsa S b 255).L = 255 := by
  have := detectAlphabet_L (letterFreq S) b
  unfold finishMsa
  split
  rename_i b' l' h
  rw [h] at this
  exact this

theorem finishMsa_aligned (S : List SeqRec) (b L : Nat) : (finishMsa S b L).aligned = detectAligned S := by
  unfold finishMsa; split; rfl

theorem finishMsa_biotype (S : List SeqRec) (b L : Nat) :
    (finishMsa S b L).biotype = (detectAlphabet (letterFreq S) b L).1 := by
  unfold finishMsa; split; rename_i h; rw [h]

/-- a definite class (DNA or protein) does not depend on the class variable the call started with -/
theorem detectAlphabet_definite (lf : Array Nat) (L : Nat) (h : (detectAlphabet lf 2 L).1 ≠ 2) (b : Nat) :
    detectAlphabet lf b L = detectAlphabet lf 2 L := by
  rw [detectAlphabet_eq] at h ⊢
  rw [detectAlphabet_eq]
  unfold classify at h ⊢
  by_cases h1 : ((scores lf).1 == (scores lf).2) = true
  · simp [h1] at h
  · by_cases h2 : (scores lf).1 > (scores lf).2
    · simp [h1, h2]
    · by_cases h3 : (scores lf).2 > (scores lf).1
      · simp [h1, h2, h3]
      · simp [h1, h2, h3] at h

/-- shape of the accumulated msa: all sequences in order, `L = 255`, status and class recomputed from all of them -/
theorem accum_shape (Ss : List (List SeqRec)) (S0 : List SeqRec) (b : Nat) :
    ∃ b', accum (some (finishMsa S0 b 255)) Ss = some (finishMsa (S0 ++ Ss.flatten) b' 255) := by
  induction Ss generalizing S0 b with
  | nil => exact ⟨b, by simp [accum]⟩
  | cons S Ss ih =>
    simp only [accum, mergeStep, finishMsa_seqs, finishMsa_L]
    obtain ⟨b', h⟩ := ih (S0 ++ S) (finishMsa S0 b 255).biotype
    exact ⟨b', by rw [h]; simp⟩

/-! ## dealign_msa -/

/-- `dealign_msa` on one sequence: `gaps[0..len] = 0` -/
def dealignSeq (s : SeqRec) : SeqRec := { s with gaps := replicate (s.res.length + 1) 0 }

/-- `dealign_msa`: all gap vectors zero, status ALN_STATUS_UNALIGNED -/
def dealign (m : Msa) : Msa := { m with seqs := m.seqs.map dealignSeq, aligned := 1 }

/-- the step of `kalign_run` (aln_wrap.c): `if(msa->aligned != ALN_STATUS_UNALIGNED) dealign_msa(msa)` -/
def runDealign (m : Msa) : Msa := if m.aligned ≠ 1 then dealign m else m

def GapsWF (S : List SeqRec) : Prop := ∀ s ∈ S, s.gaps.length = s.res.length + 1

theorem all_zero_of_sum (l : List Nat) (h : l.sum = 0) : l = replicate l.length 0 := by
  induction l with
  | nil => rfl
  | cons x xs ih =>
    simp only [sum_cons] at h
    have hx : x = 0 := by omega
    have : xs.sum = 0 := by omega
    rw [length_cons, replicate_succ, hx, ← ih this]

theorem sum_zero_mem (l : List Nat) (h : l.sum = 0) : ∀ x ∈ l, x = 0 := by
  induction l with
  | nil => simp
  | cons y ys ih =>
    simp only [sum_cons] at h
    intro x hx
    rcases mem_cons.mp hx with rfl | hx
    · omega
    · exact ih (by omega) x hx

/-- status UNALIGNED means that there is no gap at all -/
theorem detectAligned_one (S : List SeqRec) (h : detectAligned S = 1) : ∀ s ∈ S, s.gaps.sum = 0 := by
  unfold detectAligned at h
  simp only at h
  intro s hs
  by_cases hg : (S.map fun s => s.gaps.sum).sum = 0
  · exact sum_zero_mem _ hg _ (mem_map.mpr ⟨s, hs, rfl⟩)
  · simp only [hg, ne_eq, not_false_eq_true, if_true] at h
    split at h <;> simp at h

theorem runDealign_finish (S : List SeqRec) (wf : GapsWF S) (b L : Nat) :
    runDealign (finishMsa S b L) =
      ⟨S.map dealignSeq, (finishMsa S b L).biotype, (finishMsa S b L).L, 1⟩ := by
  unfold runDealign
  split
  · simp [dealign, finishMsa_seqs]
  · rename_i h
    have h1 : (finishMsa S b L).aligned = 1 := by simpa using h
    have hs : S.map dealignSeq = S := by
      conv => rhs; rw [← map_id S]
      apply map_congr_left
      intro s hs
      have h0 := detectAligned_one S (by rw [← finishMsa_aligned S b L]; exact h1) s hs
      have := all_zero_of_sum s.gaps h0
      rw [wf s hs] at this
      cases s; simp_all [dealignSeq]
    have e : finishMsa S b L = ⟨(finishMsa S b L).seqs, (finishMsa S b L).biotype, (finishMsa S b L).L,
        (finishMsa S b L).aligned⟩ := rfl
    rw [e, h1, finishMsa_seqs, hs]

/-- `dealign_msa` forgets the gap vectors: what is left is a function of names and residues -/
theorem dealignSeq_congr (S1 S2 : List SeqRec)
    (h : S1.map (fun s => (s.name, s.res)) = S2.map (fun s => (s.name, s.res))) :
    S1.map dealignSeq = S2.map dealignSeq := by
  have : ∀ S : List SeqRec, S.map dealignSeq =
      (S.map fun s => (s.name, s.res)).map fun p => ⟨p.1, p.2, replicate (p.2.length + 1) 0⟩ := by
    intro S; simp [dealignSeq, Function.comp_def]
  rw [this S1, this S2, h]

end Kalign.IO
