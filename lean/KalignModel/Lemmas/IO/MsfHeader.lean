import KalignModel.Lemmas.IO.PresentMsf
/-!
# A grammar of MSF headers and the header phase of `read_msf` on it

A header is a list of lines, each either
* an *other* line: it contains no `//`, and lacks `Name:` or lacks `Len:` (blank lines, `!!NA_MULTIPLE_ALIGNMENT`,
  `PileUp`, free text, the `MSF: … Type: … Check: … ..` line, …), or
* a *name* line `pre ++ "Name:" ++ blanks ++ name ++ post` where `Name:` does not occur earlier (no occurrence starts
  inside `pre`), `blanks` are white space (possibly none), `name` is 1..255 non-blank bytes, `post` is empty or starts
  with a blank, the line contains `Len:` somewhere (before or behind the name, any value) and no `//`.
The header is closed by any line containing `//`.

NOT covered (and read differently by `read_msf`): a name line containing `//` anywhere (e.g. inside the name: it ends the
header), names longer than 255 bytes (truncated), a name line without `Len:` (skipped), a second `Name:` before the
intended one on the same line (the first one wins), names containing white space (cut at the first blank).
-/
namespace Kalign.IO
open List

theorem hasSub_cons (n : Bytes) (x : UInt8) (t : Bytes) :
    hasSub n (x :: t) = (n.isPrefixOf (x :: t) || hasSub n t) := by
  unfold hasSub
  simp only [findSub]
  split <;> simp_all

theorem isPrefixOf_append_of_le (n l m : Bytes) (h : n.length ≤ l.length) :
    n.isPrefixOf (l ++ m) = n.isPrefixOf l := by
  induction n generalizing l with
  | nil => simp
  | cons a n ih =>
    cases l with
    | nil => simp at h
    | cons b l =>
      simp only [cons_append, isPrefixOf]
      rw [ih l (by simpa using h)]

theorem findSub_self_append (n rest : Bytes) (hne : n ≠ []) : findSub n (n ++ rest) = some (n ++ rest) := by
  obtain ⟨a, n', rfl⟩ := exists_cons_of_ne_nil hne
  simp only [cons_append, findSub]
  rw [if_pos]
  rw [← cons_append]
  exact List.isPrefixOf_iff_prefix.mpr (prefix_append _ _)

/-- `strstr(line, "Name:")` finds the occurrence behind `pre` when none starts inside `pre` -/
theorem findSub_name_first (pre rest : Bytes) (h : hasSub (ascii "Name:") (pre ++ ascii "Name") = false) :
    findSub (ascii "Name:") (pre ++ ascii "Name:" ++ rest) = some (ascii "Name:" ++ rest) := by
  induction pre with
  | nil => exact findSub_self_append _ _ (by decide)
  | cons x t ih =>
    rw [cons_append, hasSub_cons, Bool.or_eq_false_iff] at h
    have e : x :: t ++ ascii "Name:" ++ rest = (x :: (t ++ ascii "Name")) ++ ([58] ++ rest) := by
      have : ascii "Name:" = ascii "Name" ++ [58] := by decide
      rw [this]; simp
    have hp : (ascii "Name:").isPrefixOf (x :: t ++ ascii "Name:" ++ rest) = false := by
      rw [e, isPrefixOf_append_of_le _ _ _ (by simp [show (ascii "Name:").length = 5 by decide,
        show (ascii "Name").length = 4 by decide])]
      exact h.1
    simp only [cons_append, append_assoc] at hp ⊢
    rw [findSub, if_neg (by simp [hp])]
    have := ih h.2
    simpa [append_assoc] using this

theorem dropWhile_blanks (blanks rest : Bytes) (b : UInt8) (hb : ∀ c ∈ blanks, isSpace c = true)
    (hx : isSpace b = false) : dropWhile isSpace (blanks ++ b :: rest) = b :: rest := by
  induction blanks with
  | nil => simp [hx]
  | cons c cs ih => simp [hb c (by simp), ih (fun y hy => hb y (by simp [hy]))]

theorem takeWhile_all (p : UInt8 → Bool) (l : Bytes) (h : ∀ b ∈ l, p b = true) : takeWhile p l = l := by
  induction l with
  | nil => rfl
  | cons b t ih => simp [h b (by simp), ih (fun y hy => h y (by simp [hy]))]

/-- a `Name:` line announcing `nm` -/
structure IsNameLine (l nm : Bytes) : Prop where
  shape : ∃ pre blanks post, l = pre ++ ascii "Name:" ++ blanks ++ nm ++ post ∧
    hasSub (ascii "Name:") (pre ++ ascii "Name") = false ∧ (∀ b ∈ blanks, isSpace b = true) ∧
    (post = [] ∨ ∃ b t, post = b :: t ∧ isSpace b = true)
  ne : nm ≠ []
  nosp : ∀ b ∈ nm, isSpace b = false
  le : nm.length ≤ 255
  len : hasSub (ascii "Len:") l = true
  nosep : hasSub (ascii "//") l = false

/-- any other header line -/
def IsOtherLine (l : Bytes) : Prop :=
  hasSub (ascii "//") l = false ∧ (hasSub (ascii "Name:") l = false ∨ hasSub (ascii "Len:") l = false)

instance (l : Bytes) : Decidable (IsOtherLine l) := by unfold IsOtherLine; exact inferInstance

theorem msfName_of_nameLine (l nm : Bytes) (h : IsNameLine l nm) : msfName l = some nm := by
  obtain ⟨pre, blanks, post, hl, hpre, hbl, hpost⟩ := h.shape
  obtain ⟨b, nm', hnm⟩ := exists_cons_of_ne_nil h.ne
  have hb : isSpace b = false := h.nosp b (by rw [hnm]; simp)
  have hf : findSub (ascii "Name:") l = some (ascii "Name:" ++ (blanks ++ nm ++ post)) := by
    have := findSub_name_first pre (blanks ++ nm ++ post) hpre
    rw [hl]; simpa [append_assoc] using this
  unfold msfName
  rw [hf]
  simp only [h.len, if_true]
  have e5 : drop 5 (ascii "Name:" ++ (blanks ++ nm ++ post)) = blanks ++ nm ++ post := by
    have e : ascii "Name:" = [78, 97, 109, 101, 58] := by decide
    rw [e]; rfl
  rw [e5]
  have ed : dropWhile isSpace (blanks ++ nm ++ post) = nm ++ post := by
    rw [hnm, append_assoc, cons_append, dropWhile_blanks blanks _ b hbl hb]
  rw [ed]
  have et : takeWhile (fun b => !isSpace b) (nm ++ post) = nm := by
    rcases hpost with rfl | ⟨c, t, rfl, hc⟩
    · rw [append_nil]; exact takeWhile_all _ _ (fun b hb => by simp [h.nosp b hb])
    · exact takeWhile_append_stop _ _ _ _ (fun b hb => by simp [h.nosp b hb]) (by simp [hc])
  rw [et, take_of_length_le h.le]

theorem msfName_of_otherLine (l : Bytes) (h : IsOtherLine l) : msfName l = none := by
  unfold msfName
  rcases h.2 with h1 | h1
  · unfold hasSub at h1
    cases hf : findSub (ascii "Name:") l with
    | none => rfl
    | some p => rw [hf] at h1; simp at h1
  · split
    · simp [h1]
    · rfl

/-- a header line with the name it announces (`none` for other lines) -/
abbrev HdrLine := Bytes × Option Bytes

def HdrLine.Valid (x : HdrLine) : Prop :=
  match x.2 with
  | some nm => IsNameLine x.1 nm
  | none => IsOtherLine x.1

def hdrNames (hdr : List HdrLine) : List Bytes := hdr.filterMap (·.2)

/-- **header phase on the grammar**: exactly the announced names, in order; the lines behind the `//` line remain -/
theorem msfHeader_grammar (hdr : List HdrLine) (hv : ∀ x ∈ hdr, x.Valid) (sep : Bytes)
    (hsep : hasSub (ascii "//") sep = true) (body : List Bytes) (acc : List SeqAcc) :
    msfHeader (hdr.map (·.1) ++ sep :: body) acc =
      (acc.reverse ++ (hdrNames hdr).map SeqAcc.new, body) := by
  induction hdr generalizing acc with
  | nil => simp [msfHeader, hsep, hdrNames]
  | cons x xs ih =>
    obtain ⟨l, o⟩ := x
    have hx := hv (l, o) (by simp)
    simp only [map_cons, cons_append]
    cases o with
    | none =>
      have hx' : IsOtherLine l := hx
      rw [msfHeader_skip _ _ _ hx'.1 (msfName_of_otherLine l hx'), ih (fun y hy => hv y (by simp [hy]))]
      simp [hdrNames]
    | some nm =>
      have hx' : IsNameLine l nm := hx
      rw [msfHeader_name _ nm _ _ hx'.nosep (msfName_of_nameLine l nm hx'), ih (fun y hy => hv y (by simp [hy]))]
      simp [hdrNames]

/-! ## sufficient conditions -/

/-- `pre` without a colon cannot hold the start of an earlier `Name:` -/
theorem pre_ok_of_no_colon (pre : Bytes) (h : (58 : UInt8) ∉ pre) :
    hasSub (ascii "Name:") (pre ++ ascii "Name") = false := by
  apply hasSub_false _ _ 58 (by decide)
  intro hm
  rcases mem_append.mp hm with h1 | h1
  · exact h h1
  · revert h1; decide

/-- a line without `/` and without `:` is an other line -/
theorem otherLine_of_plain (l : Bytes) (h47 : (47 : UInt8) ∉ l) (h58 : (58 : UInt8) ∉ l) : IsOtherLine l :=
  ⟨hasSub_false _ _ 47 (by decide) h47, Or.inl (hasSub_false _ _ 58 (by decide) h58)⟩

end Kalign.IO

namespace Kalign.IO
open List

/-! ## coverage: the headers kalign writes -/

theorem nameLine_written (mx alnlen : Nat) (r : Row) (h : NmOK mx r.name) (hp : ∀ b ∈ r.name, plainChar b = true) :
    IsNameLine (msfNameLine mx alnlen r) r.name where
  shape := by
    refine ⟨[32], [32], 32 :: (replicate (mx - r.name.length) 32 ++
      32 :: (ascii "Len:" ++ nameLineTail alnlen (gcgChecksum r.row alnlen))), ?_, by decide, by decide,
      Or.inr ⟨32, _, rfl, by decide⟩⟩
    rw [msfNameLine_eq mx alnlen r h]
    simp [append_assoc]
  ne := h.ne
  nosp := h.nosp
  le := by have := h.le; omega
  len := by
    rw [msfNameLine_eq mx alnlen r h]
    have := hasSub_append (ascii "Len:") (32 :: (ascii "Name:" ++ 32 :: (r.name ++ 32 ::
      (replicate (mx - r.name.length) 32 ++ [32])))) (nameLineTail alnlen (gcgChecksum r.row alnlen))
    simpa [append_assoc] using this
  nosep := (msfNameLine_ok mx alnlen r h hp).no_sep

/-- the header kalign writes, as an instance of the grammar -/
def writtenHdr (date : Bytes) (A : Alignment) : List HdrLine :=
  [(msfMagic A, none), ([], none), (msfInfoLine date A, none), ([], none)] ++
    A.rows.map (fun r => (msfNameLine (maxNameLen A) A.alnlen r, some r.name)) ++ [([], none)]

theorem writtenHdr_covers (date : Bytes) (A : Alignment) (h : HdrOK A.basename date)
    (hn : ∀ r ∈ A.rows, NmOK (maxNameLen A) r.name ∧ ∀ b ∈ r.name, plainChar b = true) :
    (∀ x ∈ writtenHdr date A, x.Valid) ∧ hdrNames (writtenHdr date A) = A.rows.map (·.name) ∧
    msfHeaderLines date A = (writtenHdr date A).map (·.1) ++ [ascii "//", []] := by
  refine ⟨?_, ?_, ?_⟩
  · intro x hx
    simp only [writtenHdr, cons_append, nil_append, mem_cons, mem_append, mem_map] at hx
    have he : IsOtherLine [] := by decide
    rcases hx with rfl | rfl | rfl | rfl | ⟨r, hr, rfl⟩ | rfl | hx
    · show IsOtherLine (msfMagic A)
      unfold msfMagic; split
      · decide
      · split <;> decide
    · exact he
    · exact ⟨(msfInfoLine_ok date A h).no_sep, Or.inr (msfInfoLine_noLen date A h)⟩
    · exact he
    · exact nameLine_written _ _ r (hn r hr).1 (hn r hr).2
    · exact he
    · simp at hx
  · simp [writtenHdr, hdrNames, filterMap_append, filterMap_map, Function.comp_def]
  · simp [writtenHdr, msfHeaderLines, Function.comp_def]

end Kalign.IO
