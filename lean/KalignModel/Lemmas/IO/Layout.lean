import KalignModel.Lemmas.IO.Sort
/-! closed form of the Clustal and MSF files: header lines, then block after block -/
namespace Kalign.IO
open List

def blockLines (mx : Nat) (hs : List (Bytes × Bytes)) : List Bytes := hs.map fun r => seqLine mx r.1 r.2

/-- the body as text lines: `k` blocks; behind every block the separator line `"\n"`, which `fprintf("%s\n")` turns
into two empty lines -/
def majorLines (mx : Nat) : Nat → List RowC → List Bytes
  | 0, _ => []
  | k + 1, rs => blockLines mx (heads rs) ++ (if rs ≠ [] then [[], []] else []) ++ majorLines mx k (tails rs)

theorem emitLines_append (a b : List OutLine) : emitLines (a ++ b) = emitLines a ++ emitLines b := by
  simp [emitLines]

theorem emitLines_gBlock (mx b i : Nat) (hs : List (Bytes × Bytes)) :
    emitLines (gBlock mx b i hs) = emit (blockLines mx hs) := by
  induction hs generalizing i with
  | nil => rfl
  | cons r rs ih =>
    simp only [gBlock, blockLines, map_cons] at ih ⊢
    simp only [emitLines, flatMap_cons] at ih ⊢
    rw [ih (i + 1)]
    simp [emit]

theorem emitLines_gMajor (n mx k b : Nat) (rs : List RowC) :
    emitLines (gMajor n mx 0 k b rs) = emit (majorLines mx k rs) := by
  induction k generalizing b rs with
  | zero => rfl
  | succ k ih =>
    simp only [gMajor, majorLines, emitLines_append, emit_append, emitLines_gBlock, ih]
    congr 2
    simp only [sepIf, true_and]
    split <;> simp [emitLines, emit, sepLine]

/-- number of blocks of an alignment: at least one, then one per started 60 columns -/
def numBlocks (alnlen : Nat) : Nat := max 1 ((alnlen + 59) / 60)

def rowsC (A : Alignment) : List RowC := A.rows.map fun r => (r.name, blocks (r.row.take A.alnlen))

theorem rowsC_blocks (A : Alignment) (hb : A.InBounds) :
    ∀ r ∈ A.rows, (blocks (r.row.take A.alnlen)).length = numBlocks A.alnlen := by
  intro r hr
  rw [blocks_length, length_take, Nat.min_eq_left (hb r hr)]
  rfl

theorem cluHeader_ok (ver : Bytes) :
    (cluHeader ver).Pairwise OutLine.lt ∧ ∀ x ∈ cluHeader ver, x.block < 0 := by
  simp [cluHeader, OutLine.lt]

/-- **Clustal file, closed form**: title line, empty line, then the blocks -/
theorem writeClu_eq (ver : Bytes) (A : Alignment) (hb : A.InBounds) :
    writeClu ver A =
      emit ([ascii "Kalign (" ++ ver ++ ascii ") multiple sequence alignment", []] ++
        majorLines (maxNameLen A) (numBlocks A.alnlen) (rowsC A)) := by
  unfold writeClu cluOutLines bodyOutLines
  rw [sortLines_layout (cluHeader ver) A.rows.length (maxNameLen A) A.alnlen (numBlocks A.alnlen) A.rows
    (cluHeader_ok ver).1 (cluHeader_ok ver).2 (Nat.le_refl _) (rowsC_blocks A hb)]
  rw [emitLines_append, emitLines_gMajor, emit_append]
  rfl

theorem headerOutFrom_mem (k : Int) (ls : List Bytes) :
    ∀ x ∈ headerOutFrom k ls, x.block = -1 ∧ k ≤ x.seqId := by
  induction ls generalizing k with
  | nil => simp [headerOutFrom]
  | cons l ls ih =>
    intro x hx
    simp only [headerOutFrom, mem_cons] at hx
    rcases hx with rfl | hx
    · simp
    · have := ih (k + 1) x hx; omega

theorem headerOutFrom_pairwise (k : Int) (ls : List Bytes) : (headerOutFrom k ls).Pairwise OutLine.lt := by
  induction ls generalizing k with
  | nil => simp [headerOutFrom]
  | cons l ls ih =>
    simp only [headerOutFrom, pairwise_cons]
    refine ⟨?_, ih (k + 1)⟩
    intro x hx
    have := headerOutFrom_mem (k + 1) ls x hx
    simp only [OutLine.lt]; omega

theorem emitLines_headerOutFrom (k : Int) (ls : List Bytes) : emitLines (headerOutFrom k ls) = emit ls := by
  induction ls generalizing k with
  | nil => rfl
  | cons l ls ih =>
    simp only [headerOutFrom, emitLines, flatMap_cons] at ih ⊢
    rw [ih (k + 1)]; simp [emit]

/-- **MSF file, closed form**: the header lines in creation order, then the blocks -/
theorem writeMsf_eq (date : Bytes) (A : Alignment) (hb : A.InBounds) :
    writeMsf date A =
      emit (msfHeaderLines date A ++ majorLines (maxNameLen A) (numBlocks A.alnlen) (rowsC A)) := by
  unfold writeMsf msfOutLines bodyOutLines msfHeaderOut
  rw [sortLines_layout _ A.rows.length (maxNameLen A) A.alnlen (numBlocks A.alnlen) A.rows
    (headerOutFrom_pairwise _ _) (fun x hx => by have := (headerOutFrom_mem _ _ x hx).1; omega)
    (Nat.le_refl _) (rowsC_blocks A hb)]
  rw [emitLines_append, emitLines_gMajor, emit_append, emitLines_headerOutFrom]
  rfl

end Kalign.IO
