import KalignModel.Lemmas.IO.Msf
/-!
# "letter, blank, letter"

All three Clustal hint strings of `detect_alignment_format` (`multiple sequence alignment`, `CLUSTAL W`, `CLUSTAL O`)
contain a single blank between two letters.  No line of a written MSF file does (every blank there has a blank, a
digit or a punctuation mark as neighbour), hence an MSF file is never taken for Clustal.  The pattern is recognised by
a 3-state automaton so that the proof composes over the pieces of a line.
-/
namespace Kalign.IO
open List

/-- 0 = nothing, 1 = previous byte is a letter, 2 = letter + one blank -/
def asaNext (st : Nat) (x : UInt8) : Nat := if isAlpha x then 1 else if x == 32 && st == 1 then 2 else 0

def asaFrom : Nat → Bytes → Bool
  | _, [] => false
  | st, x :: t => (st == 2 && isAlpha x) || asaFrom (asaNext st x) t

def asaEnd : Nat → Bytes → Nat
  | st, [] => st
  | st, x :: t => asaEnd (asaNext st x) t

theorem asaFrom_append (st : Nat) (l1 l2 : Bytes) :
    asaFrom st (l1 ++ l2) = (asaFrom st l1 || asaFrom (asaEnd st l1) l2) := by
  induction l1 generalizing st with
  | nil => simp [asaFrom, asaEnd]
  | cons x t ih => simp [asaFrom, asaEnd, ih, Bool.or_assoc]

theorem asaEnd_append (st : Nat) (l1 l2 : Bytes) : asaEnd st (l1 ++ l2) = asaEnd (asaEnd st l1) l2 := by
  induction l1 generalizing st with
  | nil => rfl
  | cons x t ih => simp [asaEnd, ih]

/-- the run from state 0 is behind every other run: same state or still 0 -/
theorem asaFrom_mono (l : Bytes) (q0 q : Nat) (h : q0 = q ∨ q0 = 0) (h0 : asaFrom q0 l = true) : asaFrom q l = true := by
  induction l generalizing q0 q with
  | nil => simp [asaFrom] at h0
  | cons x t ih =>
    simp only [asaFrom, Bool.or_eq_true, Bool.and_eq_true, beq_iff_eq] at h0 ⊢
    rcases h0 with h0 | h0
    · rcases h with rfl | rfl
      · exact Or.inl h0
      · exact absurd h0.1 (by decide)
    · right
      refine ih (asaNext q0 x) (asaNext q x) ?_ h0
      rcases h with rfl | rfl
      · exact Or.inl rfl
      · unfold asaNext
        by_cases ha : isAlpha x = true
        · simp [ha]
        · simp [ha]

theorem asaFrom_of_hasSub (needle hay : Bytes) (hn : asaFrom 0 needle = true) (hs : hasSub needle hay = true) :
    ∀ st, asaFrom st hay = true := by
  unfold hasSub at hs
  induction hay with
  | nil =>
    simp only [findSub] at hs
    split at hs
    · rename_i h0; simp at h0; subst h0; simp [asaFrom] at hn
    · simp at hs
  | cons x t ih =>
    intro st
    simp only [findSub] at hs
    split at hs
    · rename_i hp
      obtain ⟨s, hs'⟩ := List.isPrefixOf_iff_prefix.mp hp
      rw [← hs', asaFrom_append, asaFrom_mono needle 0 st (by cases st <;> simp) hn]
      rfl
    · simp only [asaFrom, Bool.or_eq_true]
      exact Or.inr (ih hs _)

theorem cluHints_asa : ∀ h ∈ cluHints, asaFrom 0 h = true := by decide

/-- a line without "letter, blank, letter" contains none of the Clustal hints -/
theorem noCluHints (l : Bytes) (h : asaFrom 0 l = false) : countHints cluHints l = 0 := by
  unfold countHints
  rw [countP_eq_zero]
  intro n hn hs
  have := asaFrom_of_hasSub n l (cluHints_asa n hn) hs 0
  rw [h] at this; exact absurd this (by decide)

/-! ## pieces -/

theorem asaNext_le (st : Nat) (x : UInt8) : asaNext st x ≤ 2 := by
  unfold asaNext; split
  · omega
  · split <;> omega

theorem asaEnd_le (st : Nat) (l : Bytes) (h : st ≤ 2) : asaEnd st l ≤ 2 := by
  induction l generalizing st with
  | nil => exact h
  | cons x t ih => exact ih _ (asaNext_le st x)

/-- two blanks reset the automaton -/
theorem asaFrom_two_blanks (st : Nat) (t : Bytes) : asaFrom st (32 :: 32 :: t) = asaFrom 0 t := by
  have h1 : asaNext (asaNext st 32) 32 = 0 := by
    unfold asaNext
    simp only [show isAlpha 32 = false by decide]
    by_cases h : st = 1 <;> simp [h]
  simp [asaFrom, show isAlpha 32 = false by decide, h1]

theorem asaEnd_two_blanks (st : Nat) (t : Bytes) : asaEnd st (32 :: 32 :: t) = asaEnd 0 t := by
  have h1 : asaNext (asaNext st 32) 32 = 0 := by
    unfold asaNext
    simp only [show isAlpha 32 = false by decide]
    by_cases h : st = 1 <;> simp [h]
  simp [asaEnd, h1]

/-- a piece without blanks, entered in state 0 or 1: no match, left in state 0 or 1 -/
theorem asa_noblank (l : Bytes) (h : (32 : UInt8) ∉ l) (st : Nat) (hst : st ≤ 1) :
    asaFrom st l = false ∧ asaEnd st l ≤ 1 := by
  induction l generalizing st with
  | nil => exact ⟨rfl, hst⟩
  | cons x t ih =>
    have hx : x ≠ 32 := by intro e; exact h (by simp [e])
    have hn : asaNext st x ≤ 1 := by
      unfold asaNext; split
      · omega
      · simp [hx]
    have := ih (fun hm => h (mem_cons_of_mem _ hm)) (asaNext st x) hn
    simp only [asaFrom, asaEnd]
    refine ⟨?_, this.2⟩
    rw [this.1]
    have : (st == 2) = false := by simp; omega
    simp [this]

/-- blanks only: no match; two or more blanks leave state 0 -/
theorem asa_blanks (k : Nat) (st : Nat) : asaFrom st (replicate k 32) = false := by
  induction k generalizing st with
  | zero => rfl
  | succ k ih => simp [replicate_succ, asaFrom, show isAlpha 32 = false by decide, ih]

theorem asaEnd_blanks (k : Nat) (st : Nat) (hk : 2 ≤ k) : asaEnd st (replicate k 32) = 0 := by
  obtain ⟨j, rfl⟩ : ∃ j, k = j + 2 := ⟨k - 2, by omega⟩
  rw [replicate_succ, replicate_succ, asaEnd_two_blanks]
  clear hk
  induction j with
  | zero => rfl
  | succ j ih =>
    rw [replicate_succ, asaEnd]
    have : asaNext 0 32 = 0 := by decide
    rw [this, ih]

/-! ## composing pieces -/

/-- a prefix without match that leaves the automaton in state 0 or 1 -/
def Good (l : Bytes) : Prop := asaFrom 0 l = false ∧ asaEnd 0 l ≤ 1
/-- a prefix without match that leaves the automaton in state 0 -/
def Good0 (l : Bytes) : Prop := asaFrom 0 l = false ∧ asaEnd 0 l = 0

theorem Good0.good {l : Bytes} (h : Good0 l) : Good l := ⟨h.1, by rw [h.2]; omega⟩
theorem good0_nil : Good0 [] := ⟨rfl, rfl⟩

theorem Good.noblank {X Y : Bytes} (h : Good X) (hY : (32 : UInt8) ∉ Y) : Good (X ++ Y) := by
  have := asa_noblank Y hY (asaEnd 0 X) h.2
  exact ⟨by rw [asaFrom_append, h.1, this.1]; rfl, by rw [asaEnd_append]; exact this.2⟩

theorem asa_nonalpha (l : Bytes) (h : ∀ b ∈ l, isAlpha b = false) : asaFrom 0 l = false ∧ asaEnd 0 l = 0 := by
  induction l with
  | nil => exact ⟨rfl, rfl⟩
  | cons x t ih =>
    have hx := h x (by simp)
    have hn : asaNext 0 x = 0 := by simp [asaNext, hx]
    have := ih (fun b hb => h b (by simp [hb]))
    simp [asaFrom, asaEnd, hn, this.1, this.2]

theorem Good0.nonalpha {X Y : Bytes} (h : Good0 X) (hY : ∀ b ∈ Y, isAlpha b = false) : Good0 (X ++ Y) := by
  have := asa_nonalpha Y hY
  exact ⟨by rw [asaFrom_append, h.1, h.2, this.1]; rfl, by rw [asaEnd_append, h.2]; exact this.2⟩

/-- a piece that starts with two blanks may follow anything -/
theorem good0_reset {X t : Bytes} (h : asaFrom 0 X = false) (ht : Good0 t) : Good0 (X ++ 32 :: 32 :: t) :=
  ⟨by rw [asaFrom_append, h, asaFrom_two_blanks, ht.1]; rfl, by rw [asaEnd_append, asaEnd_two_blanks]; exact ht.2⟩

theorem asaFrom_blanks_right {X : Bytes} (h : asaFrom 0 X = false) (k : Nat) :
    asaFrom 0 (X ++ replicate k 32) = false := by
  rw [asaFrom_append, h, asa_blanks]; rfl

theorem digits_nonalpha (n : Nat) : ∀ b ∈ decDigits n, isAlpha b = false := by
  intro b hb
  have := imp_of_or (forall_byte (fun b => !isDigit b || !isAlpha b) (by decide +kernel) b) (decDigits_isDigit n b hb)
  simpa using this

theorem pad_nonalpha (w n : Nat) : ∀ b ∈ padLeft w (decDigits n), isAlpha b = false := by
  intro b hb
  rcases mem_append.mp hb with h | h
  · rw [(mem_replicate.mp h).2]; decide
  · exact digits_nonalpha n b h

theorem plain_no_blank {l : Bytes} (h : ∀ b ∈ l, plainChar b = true) : (32 : UInt8) ∉ l := by
  intro hm; have := (plain_ne 32 (h 32 hm)).2.2.2.2.2; exact this rfl

/-! ## the lines of an MSF file -/

theorem seqLine_asa (mx : Nat) (nm c : Bytes) (h : NmOK mx nm) (hn : (32 : UInt8) ∉ nm) (hc : (32 : UInt8) ∉ c) :
    asaFrom 0 (seqLine mx nm c) = false := by
  rw [seqLine_eq mx nm c h]
  have e : nm ++ 32 :: (replicate (mx + 4 - nm.length) 32 ++ c) =
      (nm ++ replicate (mx + 4 - nm.length + 1) 32) ++ c := by
    simp [replicate_succ]
  rw [e]
  have g1 : Good nm := by simpa using good0_nil.good.noblank hn
  have g2 : Good0 (nm ++ replicate (mx + 4 - nm.length + 1) 32) :=
    ⟨asaFrom_blanks_right g1.1 _, by rw [asaEnd_append, asaEnd_blanks _ _ (by have := h.mx; omega)]⟩
  exact (g2.good.noblank hc).1

theorem msfNameLine_asa (mx alnlen : Nat) (r : Row) (hn : (32 : UInt8) ∉ r.name) :
    asaFrom 0 (msfNameLine mx alnlen r) = false := by
  unfold msfNameLine padRight
  have g1 : Good0 (ascii " Name: ") := ⟨by decide, by decide⟩
  have g2 : Good (ascii " Name: " ++ r.name.take mx) := g1.good.noblank (fun hm => hn (mem_of_mem_take hm))
  have g3 : asaFrom 0 (ascii " Name: " ++ (r.name.take mx ++ replicate (mx - (r.name.take mx).length) 32)) = false := by
    rw [← append_assoc]; exact asaFrom_blanks_right g2.1 _
  have e1 : ascii "  Len:  " = 32 :: 32 :: ascii "Len:  " := by decide
  have e2 : ascii "  Check: " = 32 :: 32 :: ascii "Check: " := by decide
  have e3 : ascii "  Weight: 1.00" = 32 :: 32 :: ascii "Weight: 1.00" := by decide
  rw [e1, e2, e3]
  have g4 := good0_reset g3 (t := ascii "Len:  ") ⟨by decide, by decide⟩
  have g5 := g4.nonalpha (pad_nonalpha 5 alnlen)
  have g6 := good0_reset g5.1 (t := ascii "Check: ") ⟨by decide, by decide⟩
  have g7 := g6.nonalpha (pad_nonalpha 4 (gcgChecksum r.row alnlen))
  exact (good0_reset g7.1 (t := ascii "Weight: 1.00") ⟨by decide, by decide⟩).1

theorem msfInfoLine_asa (date : Bytes) (A : Alignment) (hb : ∀ b ∈ A.basename, nameChar b = true)
    (hd : asaFrom 0 date = false) : asaFrom 0 (msfInfoLine date A) = false := by
  unfold msfInfoLine
  have g0 : Good0 [32] := ⟨by decide, by decide⟩
  have g1 : Good (32 :: A.basename) := by
    have := g0.good.noblank (Y := A.basename) (plain_no_blank (fun b h => nameChar_plain b (hb b h)))
    simpa using this
  have e1 : ascii "  MSF: " = 32 :: 32 :: ascii "MSF: " := by decide
  have e2 : ascii "  Type: " = 32 :: 32 :: ascii "Type: " := by decide
  have e3 : ascii "  " = 32 :: 32 :: [] := by decide
  have e4 : ascii "  Check: " = 32 :: 32 :: ascii "Check: " := by decide
  have e5 : ascii "  .." = 32 :: 32 :: ascii ".." := by decide
  rw [e1, e2, e3, e4, e5]
  have g2 := good0_reset g1.1 (t := ascii "MSF: ") ⟨by decide, by decide⟩
  have g3 := g2.nonalpha (digits_nonalpha A.alnlen)
  have g4 := good0_reset g3.1 (t := ascii "Type: ") ⟨by decide, by decide⟩
  have g5 : Good (32 :: A.basename ++ 32 :: 32 :: ascii "MSF: " ++ decDigits A.alnlen ++ 32 :: 32 :: ascii "Type: " ++
      [msfTypeChar A]) := by
    apply g4.good.noblank
    rcases msfTypeChar_cases A with e | e <;> simp [e]
  have g6 := good0_reset g5.1 (t := []) good0_nil
  have g7 : asaFrom 0 (32 :: A.basename ++ 32 :: 32 :: ascii "MSF: " ++ decDigits A.alnlen ++ 32 :: 32 :: ascii "Type: " ++
      [msfTypeChar A] ++ [32, 32] ++ date) = false := by
    rw [asaFrom_append, g6.1, g6.2, hd]; rfl
  have g8 := good0_reset g7 (t := ascii "Check: ") ⟨by decide, by decide⟩
  have g9 := g8.nonalpha (digits_nonalpha (gcgMult A))
  exact (good0_reset g9.1 (t := ascii "..") ⟨by decide, by decide⟩).1

theorem msfMagic_asa (A : Alignment) : asaFrom 0 (msfMagic A) = false ∧ countHints msfHints (msfMagic A) ≠ 0 := by
  unfold msfMagic
  split
  · exact ⟨by decide, by decide⟩
  · split
    · exact ⟨by decide, by decide⟩
    · exact ⟨by decide, by decide⟩

/-- no body line of the block layout has "letter, blank, letter" -/
theorem majorLines_asa (mx k : Nat) (rs : List RowC)
    (h : ∀ r ∈ rs, NmOK mx r.1 ∧ (32 : UInt8) ∉ r.1 ∧ ∀ c ∈ r.2, (32 : UInt8) ∉ c) :
    ∀ l ∈ majorLines mx k rs, asaFrom 0 l = false := by
  induction k generalizing rs with
  | zero => simp [majorLines]
  | succ k ih =>
    intro l hl
    simp only [majorLines, mem_append] at hl
    rcases hl with (hl | hl) | hl
    · simp only [blockLines, heads, map_map, mem_map] at hl
      obtain ⟨⟨nm, cs⟩, hr, rfl⟩ := hl
      obtain ⟨h1, h2, h3⟩ := h (nm, cs) hr
      apply seqLine_asa mx _ _ h1 h2
      cases cs with
      | nil => simp
      | cons c cs => simpa using h3 c (by simp)
    · split at hl
      · simp only [mem_cons] at hl
        rcases hl with rfl | rfl | hl
        · rfl
        · rfl
        · simp at hl
      · simp at hl
    · refine ih (tails rs) ?_ l hl
      intro r hr
      simp only [tails, mem_map] at hr
      obtain ⟨r0, h0, rfl⟩ := hr
      obtain ⟨h1, h2, h3⟩ := h r0 h0
      exact ⟨h1, h2, fun c hc => h3 c (mem_of_mem_tail hc)⟩

end Kalign.IO
