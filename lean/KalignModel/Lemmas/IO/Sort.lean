import KalignModel.Lemmas.IO.Spec
/-!
# Layout of the sorted line buffer

`write_msa_clu` / `write_msa_msf` create the lines sequence by sequence (all blocks of sequence 0 — each followed by a
separator line —, then all blocks of sequence 1, ...) and sort them by `(block, seq_id)`.  The sorted buffer is the
header followed, block by block, by the lines of all sequences in order and the separator (`sortLines_layout`).
-/
namespace Kalign.IO
open List

/-! ## the order -/

def OutLine.lt (a b : OutLine) : Prop := a.block < b.block ∨ (a.block = b.block ∧ a.seqId < b.seqId)

theorem OutLine.le_iff (a b : OutLine) : OutLine.le a b = true ↔ a.lt b ∨ (a.block = b.block ∧ a.seqId = b.seqId) := by
  simp only [OutLine.le, OutLine.lt, Bool.or_eq_true, decide_eq_true_eq, Bool.and_eq_true, beq_iff_eq]
  omega

theorem OutLine.le_trans (a b c : OutLine) (h1 : OutLine.le a b = true) (h2 : OutLine.le b c = true) :
    OutLine.le a c = true := by
  simp only [OutLine.le, Bool.or_eq_true, decide_eq_true_eq, Bool.and_eq_true, beq_iff_eq] at *
  omega

theorem OutLine.le_total (a b : OutLine) : (OutLine.le a b || OutLine.le b a) = true := by
  simp only [OutLine.le, Bool.or_eq_true, decide_eq_true_eq, Bool.and_eq_true, beq_iff_eq]
  omega

theorem pairwise_lt_inj (t : List OutLine) (hs : t.Pairwise OutLine.lt) (a b : OutLine) (ha : a ∈ t) (hb : b ∈ t)
    (hk : a.block = b.block ∧ a.seqId = b.seqId) : a = b := by
  induction t with
  | nil => simp at ha
  | cons x xs ih =>
    rw [pairwise_cons] at hs
    simp only [mem_cons] at ha hb
    rcases ha with rfl | ha <;> rcases hb with rfl | hb
    · rfl
    · have := hs.1 b hb; simp only [OutLine.lt] at this; omega
    · have := hs.1 a ha; simp only [OutLine.lt] at this; omega
    · exact ih hs.2 ha hb

/-- sorting a buffer whose keys are all distinct: any strictly sorted arrangement of the same lines is the result -/
theorem sortLines_eq (l t : List OutLine) (hp : l ~ t) (hs : t.Pairwise OutLine.lt) : sortLines l = t := by
  unfold sortLines
  have hperm : (l.mergeSort OutLine.le) ~ t := (mergeSort_perm l OutLine.le).trans hp
  have h1 : (l.mergeSort OutLine.le).Pairwise (fun a b => OutLine.le a b = true) :=
    pairwise_mergeSort (le := OutLine.le) OutLine.le_trans OutLine.le_total l
  have h2 : t.Pairwise (fun a b => OutLine.le a b = true) :=
    hs.imp (fun {a b} h => (OutLine.le_iff a b).mpr (Or.inl h))
  refine Perm.eq_of_pairwise (le := fun a b => OutLine.le a b = true) ?_ h1 h2 hperm
  intro a b ha hb hab hba
  have ha' : a ∈ t := hperm.subset ha
  apply pairwise_lt_inj t hs a b ha' hb
  rw [OutLine.le_iff] at hab hba
  simp only [OutLine.lt] at hab hba
  omega

/-! ## rows as (name, list of chunks) -/

abbrev RowC := Bytes × List Bytes

def sepLine (n b : Nat) : OutLine := ⟨(b : Int), (n : Int), [10]⟩

/-- creation order (the C loops), from block `b` and sequence index `i` on -/
def gBody (n mx b : Nat) : Nat → List RowC → List OutLine
  | _, [] => []
  | i, r :: rs => seqOutLinesFrom n mx i r.1 b r.2 ++ gBody n mx b (i + 1) rs

/-- the lines of block `b` -/
def gBlock (mx b : Nat) : Nat → List (Bytes × Bytes) → List OutLine
  | _, [] => []
  | i, r :: rs => ⟨(b : Int), (i : Int), seqLine mx r.1 r.2⟩ :: gBlock mx b (i + 1) rs

def sepIf (n b i : Nat) (rs : List RowC) : List OutLine := if i = 0 ∧ rs ≠ [] then [sepLine n b] else []

def heads (rs : List RowC) : List (Bytes × Bytes) := rs.map fun r => (r.1, r.2.headD [])
def tails (rs : List RowC) : List RowC := rs.map fun r => (r.1, r.2.tail)

/-- block-major order: `k` blocks from block `b` on -/
def gMajor (n mx i : Nat) : Nat → Nat → List RowC → List OutLine
  | 0, _, _ => []
  | k + 1, b, rs => gBlock mx b i (heads rs) ++ sepIf n b i rs ++ gMajor n mx i k (b + 1) (tails rs)

theorem bodyFrom_eq_gBody (n mx alnlen i : Nat) (rows : List Row) :
    bodyFrom n mx alnlen i rows = gBody n mx 0 i (rows.map fun r => (r.name, blocks (r.row.take alnlen))) := by
  induction rows generalizing i with
  | nil => rfl
  | cons r rs ih => simp [bodyFrom, gBody, seqOutLines, ih]

theorem gBody_nil_chunks (n mx b i : Nat) (rs : List RowC) (h : ∀ r ∈ rs, r.2 = []) : gBody n mx b i rs = [] := by
  induction rs generalizing i with
  | nil => rfl
  | cons r rs ih =>
    have h0 : r.2 = [] := h r (by simp)
    simp [gBody, h0, seqOutLinesFrom, ih (i + 1) (fun x hx => h x (by simp [hx]))]

/-- peeling the first block off every row -/
theorem gBody_peel (n mx b i : Nat) (rs : List RowC) (h : ∀ r ∈ rs, r.2 ≠ []) :
    gBody n mx b i rs ~ gBlock mx b i (heads rs) ++ sepIf n b i rs ++ gBody n mx (b + 1) i (tails rs) := by
  induction rs generalizing i with
  | nil => simp [gBody, gBlock, heads, tails, sepIf]
  | cons r rs ih =>
    obtain ⟨nm, cs⟩ := r
    cases cs with
    | nil => exact absurd rfl (h (nm, []) (by simp))
    | cons c cs =>
      have ih' := ih (i + 1) (fun x hx => h x (by simp [hx]))
      have hs : sepIf n b (i + 1) rs = [] := by simp [sepIf]
      rw [hs, append_nil] at ih'
      simp only [gBody, seqOutLinesFrom, heads, tails, map_cons, headD_cons, tail_cons, gBlock] at ih' ⊢
      have hsep : sepIf n b i ((nm, c :: cs) :: rs) = (if i = 0 then [sepLine n b] else []) := by
        simp [sepIf]
      rw [hsep]
      simp only [sepLine]
      generalize (if i = 0 then [({ block := (b : Int), seqId := (n : Int), line := [10] } : OutLine)] else []) = S
      simp only [cons_append, append_assoc]
      refine Perm.cons _ ?_
      refine (Perm.append_left _ (Perm.append_left _ ih')).trans ?_
      exact (Perm.append_left S (perm_append_comm_assoc _ _ _)).trans (perm_append_comm_assoc _ _ _)

theorem tails_length (rs : List RowC) (k : Nat) (h : ∀ r ∈ rs, r.2.length = k + 1) :
    ∀ r ∈ tails rs, r.2.length = k := by
  intro r hr
  simp only [tails, mem_map] at hr
  obtain ⟨r0, h0, rfl⟩ := hr
  have := h r0 h0
  simp; omega

/-- creation order and block-major order hold the same lines -/
theorem gBody_perm_gMajor (n mx i k b : Nat) (rs : List RowC) (h : ∀ r ∈ rs, r.2.length = k) :
    gBody n mx b i rs ~ gMajor n mx i k b rs := by
  induction k generalizing b rs with
  | zero =>
    rw [gBody_nil_chunks n mx b i rs (fun r hr => by have := h r hr; exact List.eq_nil_of_length_eq_zero this)]
    exact Perm.refl _
  | succ k ih =>
    have hne : ∀ r ∈ rs, r.2 ≠ [] := by
      intro r hr h0; have := h r hr; rw [h0] at this; simp at this
    refine (gBody_peel n mx b i rs hne).trans ?_
    simp only [gMajor]
    exact Perm.append_left _ (ih (b + 1) (tails rs) (tails_length rs k h))

theorem gBlock_mem (mx b i : Nat) (hs : List (Bytes × Bytes)) :
    ∀ x ∈ gBlock mx b i hs, x.block = (b : Int) ∧ (i : Int) ≤ x.seqId ∧ x.seqId < (i : Int) + hs.length := by
  induction hs generalizing i with
  | nil => simp [gBlock]
  | cons r rs ih =>
    intro x hx
    simp only [gBlock, mem_cons] at hx
    rcases hx with rfl | hx
    · simp; omega
    · have := ih (i + 1) x hx
      simp only [length_cons]; omega

theorem gBlock_pairwise (mx b i : Nat) (hs : List (Bytes × Bytes)) : (gBlock mx b i hs).Pairwise OutLine.lt := by
  induction hs generalizing i with
  | nil => simp [gBlock]
  | cons r rs ih =>
    simp only [gBlock, pairwise_cons]
    refine ⟨?_, ih (i + 1)⟩
    intro x hx
    have := gBlock_mem mx b (i + 1) rs x hx
    simp only [OutLine.lt]; omega

theorem gMajor_mem (n mx i k b : Nat) (rs : List RowC) :
    ∀ x ∈ gMajor n mx i k b rs, (b : Int) ≤ x.block := by
  induction k generalizing b rs with
  | zero => simp [gMajor]
  | succ k ih =>
    intro x hx
    simp only [gMajor, mem_append] at hx
    rcases hx with (hx | hx) | hx
    · have := gBlock_mem mx b i (heads rs) x hx; omega
    · simp only [sepIf] at hx
      split at hx
      · simp only [mem_singleton] at hx; subst hx; simp [sepLine]
      · simp at hx
    · have := ih (b + 1) (tails rs) x hx; omega

theorem gMajor_pairwise (n mx i k b : Nat) (rs : List RowC) (hn : i + rs.length ≤ n) :
    (gMajor n mx i k b rs).Pairwise OutLine.lt := by
  induction k generalizing b rs with
  | zero => simp [gMajor]
  | succ k ih =>
    simp only [gMajor]
    have hlen : (tails rs).length = rs.length := by simp [tails]
    have hlenh : (heads rs).length = rs.length := by simp [heads]
    rw [pairwise_append, pairwise_append]
    refine ⟨⟨gBlock_pairwise mx b i (heads rs), ?_, ?_⟩, ih (b + 1) (tails rs) (by omega), ?_⟩
    · simp only [sepIf]; split <;> simp
    · intro x hx y hy
      have hx' := gBlock_mem mx b i (heads rs) x hx
      simp only [sepIf] at hy
      split at hy
      · simp only [mem_singleton] at hy; subst hy
        simp only [OutLine.lt, sepLine]; omega
      · simp at hy
    · intro x hx y hy
      have hy' := gMajor_mem n mx i k (b + 1) (tails rs) y hy
      simp only [mem_append] at hx
      rcases hx with hx | hx
      · have hx' := gBlock_mem mx b i (heads rs) x hx
        simp only [OutLine.lt]; omega
      · simp only [sepIf] at hx
        split at hx
        · simp only [mem_singleton] at hx; subst hx
          simp only [OutLine.lt, sepLine]; omega
        · simp at hx

/-- **Layout of the sorted line buffer.**  `hdr` are the header lines (block -1, strictly increasing ids), `rows` the
sequences whose rows all split into `k` blocks: sorting header + creation-order body gives the header followed by the
blocks, each listing all sequences in order and then the separator. -/
theorem sortLines_layout (hdr : List OutLine) (n mx alnlen k : Nat) (rows : List Row)
    (hh : hdr.Pairwise OutLine.lt) (hneg : ∀ x ∈ hdr, x.block < 0) (hn : rows.length ≤ n)
    (hk : ∀ r ∈ rows, (blocks (r.row.take alnlen)).length = k) :
    sortLines (hdr ++ bodyFrom n mx alnlen 0 rows) =
      hdr ++ gMajor n mx 0 k 0 (rows.map fun r => (r.name, blocks (r.row.take alnlen))) := by
  apply sortLines_eq
  · rw [bodyFrom_eq_gBody]
    apply Perm.append_left
    apply gBody_perm_gMajor
    intro r hr
    simp only [mem_map] at hr
    obtain ⟨r0, h0, rfl⟩ := hr
    exact hk r0 h0
  · rw [pairwise_append]
    refine ⟨hh, gMajor_pairwise n mx 0 k 0 _ (by simpa using hn), ?_⟩
    intro x hx y hy
    have h1 := hneg x hx
    have h2 := gMajor_mem n mx 0 k 0 _ y hy
    simp only [OutLine.lt]; omega

end Kalign.IO
