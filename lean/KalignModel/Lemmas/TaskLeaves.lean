import KalignModel.Lemmas.C10Tree
/-!
# The sorted task table determines the leaf list of the guide tree up to order

`GuideTreeDistinct` (Props/C05PipelineSoftL.lean) quantifies over *every* tree `T` whose sorted task table is the table
`buildTasks` returned; `buildTasks_tree` (Lemmas/C10Tree.lean) produces *one* such tree `T'` with `leaves.Perm (range n)`.  The
bridge: in a labelled tree the operand ids of all tasks together with the root id are, as a multiset, the leaves plus the
internal ids (`kids_perm_leaves`); `sort_tasks` permutes the tasks; for `T'` that multiset is `0 … n-1` plus `n … n+k-1`, which
has no repetition; so the leaves of `T` have no repetition either (`table_leaves_nodup`).
-/
namespace Kalign.Pipeline
open Kalign Kalign.Kmeans Kalign.Sched

/-- the operand ids of a task list -/
def allKids (ts : List (Nat × Nat × Nat)) : List Nat := ts.flatMap fun t => [t.1, t.2.1]

theorem allKids_perm {a b : List (Nat × Nat × Nat)} (h : a.Perm b) : (allKids a).Perm (allKids b) :=
  h.flatMap_right _

theorem kids_perm_leaves (L : Sched.LTree) : (allKids (Kmeans.createTasks L) ++ [L.id]).Perm (L.leaves ++ Kmeans.LTree.iids L) := by
  induction L with
  | leaf i => simp [allKids, Kmeans.createTasks, Sched.LTree.id, Sched.LTree.leaves, Kmeans.LTree.iids]
  | node c l r ihl ihr =>
    rw [List.perm_iff_count]
    intro a
    have h1 := ihl.count_eq a
    have h2 := ihr.count_eq a
    simp only [allKids, Kmeans.createTasks, Sched.LTree.id, Sched.LTree.leaves, Kmeans.LTree.iids, List.flatMap_cons, List.flatMap_append,
      List.count_append, List.count_cons, List.count_nil] at h1 h2 ⊢
    omega

/-- **two trees with the same sorted task table: if one has leaves `0 … n-1`, each once, the other has distinct leaves** -/
theorem table_leaves_nodup (n : Nat) (T T' : Tree) (hp : T'.leaves.Perm (List.range n))
    (h : (Kmeans.sortTasks (treeTasks T n)).toArray = (Kmeans.sortTasks (treeTasks T' n)).toArray) : T.leaves.Nodup := by
  cases hT : T with
  | leaf i => simp [Tree.leaves]
  | node l r =>
    rw [hT] at h
    have hl : Kmeans.sortTasks (treeTasks (.node l r) n) = Kmeans.sortTasks (treeTasks T' n) := by
      have := congrArg Array.toList h
      simpa using this
    have hperm : (treeTasks (.node l r) n).Perm (treeTasks T' n) := by
      have h1 := msortBy_perm taskTakeLeft (treeTasks (.node l r) n)
      have h2 := msortBy_perm taskTakeLeft (treeTasks T' n)
      unfold Kmeans.sortTasks at hl
      rw [hl] at h1
      exact h1.symm.trans h2
    have hlen : Tree.nint (.node l r) = Tree.nint T' := by
      rw [← length_sortTasks (.node l r) n, ← length_sortTasks T' n, hl]
    obtain ⟨L, R, hroot⟩ := label_node l r n
    -- `T'` is a node too
    cases hT' : T' with
    | leaf j =>
      rw [hT'] at hlen
      simp [Tree.nint] at hlen
    | node l' r' =>
      obtain ⟨L', R', hroot'⟩ := label_node l' r' n
      rw [hT'] at hlen hperm hp
      have k1 := kids_perm_leaves (label (.node l r) n)
      have k2 := kids_perm_leaves (label (.node l' r') n)
      have hid : (label (.node l r) n).id = (label (.node l' r') n).id := by
        rw [hroot, hroot']; simp only [Sched.LTree.id]; rw [hlen]
      have e1 : (label (.node l r) n).leaves = (Tree.node l r).leaves := (labelFrom_spec (.node l r) n).2.1
      have e2 : (label (.node l' r') n).leaves = (Tree.node l' r').leaves := (labelFrom_spec (.node l' r') n).2.1
      have i2 : Kmeans.LTree.iids (label (.node l' r') n) = List.range' n (Tree.nint (.node l' r')) :=
        (labelFrom_iids (.node l' r') n).1
      rw [e1] at k1
      rw [e2, i2] at k2
      have hnd2 : ((Tree.node l' r').leaves ++ List.range' n (Tree.nint (.node l' r'))).Nodup := by
        rw [List.nodup_append]
        refine ⟨hp.nodup_iff.2 List.nodup_range, List.nodup_range' 1, ?_⟩
        intro a ha b hb e
        have h1 := List.mem_range.1 (hp.mem_iff.1 ha)
        rw [List.mem_range'_1] at hb
        omega
      have hk : (allKids (Kmeans.createTasks (label (.node l r) n)) ++ [(label (.node l r) n).id]).Perm
          (allKids (Kmeans.createTasks (label (.node l' r') n)) ++ [(label (.node l' r') n).id]) := by
        rw [hid]
        exact List.Perm.append_right _ (allKids_perm hperm)
      have hnd1 := (k1.symm.trans (hk.trans k2)).nodup_iff.2 hnd2
      exact (List.nodup_append.1 hnd1).1

/-- **the leaves of every tree whose sorted task table `buildTasks` returned are pairwise distinct** -/
theorem buildTasks_leaves_nodup (avx : Bool) (codes : Array (List Nat)) (T : Tree)
    (h : buildTasks avx codes = .ok (Kmeans.sortTasks (treeTasks T codes.size)).toArray) : T.leaves.Nodup := by
  obtain ⟨T', e, hp⟩ := buildTasks_tree avx codes _ h
  exact table_leaves_nodup codes.size T T' hp e

end Kalign.Pipeline
