import KalignModel.Model.Pipeline
import KalignModel.Lemmas.NoFaultAlign
import KalignModel.Lemmas.NoFaultTasks
/-!
# `recursive_aln` on the sorted task table of a guide tree never faults and never runs out of fuel

* `NodeInv`: what `do_align` needs from a completed node (positive length, a sequence of codes `< 23` for a leaf, a profile
  of `64*(len+2)` entries for an internal node).
* `Reach`: the nodes that can occur as *operands* of a merge (leaves, and results of non-final merges of such nodes).
* `MonHyp`: **the hypothesis** — every serial Hirschberg run on two such operands passes the monitor (`meetupContract` at
  every meetup).  It is the only fact about score values used in this file.
* `mergeNodes_some`, `recAln_tree`: under `MonHyp`, every merge succeeds and `recAln` on the sorted task table of a tree
  returns a node holding every leaf of the tree: no `.fault`, no `.monitor`, no `.fuel`.
-/
namespace Kalign.Pipeline
open Kalign Kalign.Kmeans Kalign.Sched

structure NodeInv (N : Node) : Prop where
  len : 1 ≤ N.len
  nsip : 1 ≤ N.nsip
  leaf : N.nsip = 1 → N.seq.size = N.len ∧ N.seq.all (· < 23) = true
  prof : N.nsip ≠ 1 → ∃ p, N.prof = some p ∧ p.size = 64 * (N.len + 2)

/-- the profile `do_align` prepares for node `N` when the other operand has `other` sequences -/
def nodeProf (ap : AlnParam Float32) (N : Node) (other : Nat) : Array Float32 :=
  if N.nsip = 1 then makeProfile ap N.seq else setGapPenalties (N.prof.getD #[]) other

/-- the Hirschberg run of the merge of `A` and `B` -/
def mergeRun (entry : Entry) (ap : AlnParam Float32) (A B : Node) : Mem (Array (States Float32)) Float32 :=
  orientRun entry ap A.nsip B.nsip A.len B.len A.seq B.seq (nodeProf ap A B.nsip) (nodeProf ap B A.nsip)

/-- nodes that can be operands of a merge -/
inductive Reach (ap : AlnParam Float32) (codes : Array (List Nat)) : Node → Prop
  | leaf (i : Nat) : i < codes.size → Reach ap codes (leafNode codes i)
  | merge (A B N : Node) : Reach ap codes A → Reach ap codes B → mergeNodes .parallel ap A B false = .ok N →
      Reach ap codes N

/-- **the hypothesis about score values**: every Hirschberg run the progressive alignment can start passes the run-time
monitor (the meetup contract of Props/C07 holds at every meetup) -/
def MonHyp (ap : AlnParam Float32) (codes : Array (List Nat)) : Prop :=
  ∀ A B : Node, Reach ap codes A → Reach ap codes B → (mergeRun .serial ap A B).mon = true

def mergeState (A B : Node) : AlnState Float32 :=
  { seqs := #[A.seq, B.seq], profile := #[A.prof, B.prof, none], plen := #[A.len, B.len, 0],
    nsip := #[A.nsip, B.nsip, 0] }

theorem prep_left (ap : AlnParam Float32) (A B : Node) (hA : NodeInv A) :
    prepOperand ap (mergeState A B) 0 1 = some (A.len, nodeProf ap A B.nsip) ∧
      (nodeProf ap A B.nsip).size = 64 * (A.len + 2) := by
  unfold prepOperand nodeProf mergeState
  by_cases h : A.nsip = 1
  · obtain ⟨h1, h2⟩ := hA.leaf h
    rw [← h1]
    simp [h, h2, size_makeProfile]
  · obtain ⟨p, hp, hs⟩ := hA.prof h
    simp [h, hp, hs, size_setGapPenalties]

theorem prep_right (ap : AlnParam Float32) (A B : Node) (hB : NodeInv B) :
    prepOperand ap (mergeState A B) 1 0 = some (B.len, nodeProf ap B A.nsip) ∧
      (nodeProf ap B A.nsip).size = 64 * (B.len + 2) := by
  unfold prepOperand nodeProf mergeState
  by_cases h : B.nsip = 1
  · obtain ⟨h1, h2⟩ := hB.leaf h
    rw [← h1]
    simp [h, h2, size_makeProfile]
  · obtain ⟨p, hp, hs⟩ := hB.prof h
    simp [h, hp, hs, size_setGapPenalties]

/-- members of a node -/
def HasMembers (N : Node) (l : List Nat) : Prop := ∀ i ∈ l, ∃ m ∈ N.group, m.idx = i

theorem validColsB_complete {cs : List Col} {la lb : Nat} (h : ValidCols cs la lb) : validColsB cs la lb = true := by
  obtain ⟨h1, h2, h3⟩ := h
  simp only [validColsB, Bool.and_eq_true, Bool.not_eq_true', beq_iff_eq]
  refine ⟨⟨?_, h2⟩, h3⟩
  cases hc : cs.contains Col.skip with
  | false => rfl
  | true => exact absurd (by simpa using hc) h1

theorem consA_le_length (cs : List Col) : consA cs ≤ cs.length := by
  unfold consA; exact List.length_filter_le _ _

/-- **a merge of two operands succeeds** (no `.fault`, no `.monitor`), given the monitor on its serial Hirschberg run -/
theorem mergeNodes_some (ap : AlnParam Float32) (A B : Node) (isLast : Bool) (hA : NodeInv A) (hB : NodeInv B)
    (hmon : (mergeRun .serial ap A B).mon = true) :
    ∃ N, mergeNodes .parallel ap A B isLast = .ok N ∧ (isLast = false → NodeInv N) ∧
      (∀ l₁ l₂, HasMembers A l₁ → HasMembers B l₂ → HasMembers N (l₁ ++ l₂)) := by
  obtain ⟨pA, sA⟩ := prep_left ap A B hA
  obtain ⟨pB, sB⟩ := prep_right ap A B hB
  obtain ⟨st', out, hd, hm, hV, hp1, hp2⟩ := doAlign_some ap (mergeState A B) 0 1 2 isLast A.len B.len _ _
    (by decide) (by simp [mergeState]) (by simp [mergeState]) (by simp [mergeState]) (by simp [mergeState])
    pA pB sA sB hA.len hB.len (by simpa [mergeRun, mergeState] using hmon)
  unfold mergeNodes
  simp only
  have hd' : doAlign .parallel ap
      { seqs := #[A.seq, B.seq], profile := #[A.prof, B.prof, none], plen := #[A.len, B.len, 0],
        nsip := #[A.nsip, B.nsip, 0] } 0 1 2 isLast = some (st', out) := hd
  rw [hd']
  simp only [hm, Bool.not_true, Bool.false_eq_true, if_false, validColsB_complete hV]
  refine ⟨_, rfl, ?_, ?_⟩
  · intro hl
    obtain ⟨p, hp, hs⟩ := hp1 hl
    have hlen : 1 ≤ out.codes.length := by
      have := consA_le_length (out.codes.map Col.ofCode)
      rw [hV.2.1, List.length_map] at this
      have := hA.len
      omega
    refine ⟨hlen, by simp only; have := hA.nsip; omega, ?_, ?_⟩
    · intro h; simp only at h; have := hA.nsip; have := hB.nsip; omega
    · intro _; exact ⟨p, hp, hs⟩
  · intro l₁ l₂ h1 h2 i hi
    simp only [mergeGroups, List.mem_append, List.mem_map, List.mem_reverse]
    rcases List.mem_append.1 hi with h | h
    · obtain ⟨m, hm1, hm2⟩ := h1 i h
      exact ⟨_, Or.inl ⟨m, hm1, rfl⟩, hm2⟩
    · obtain ⟨m, hm1, hm2⟩ := h2 i h
      exact ⟨_, Or.inr ⟨m, hm1, rfl⟩, hm2⟩

theorem leafNode_inv (codes : Array (List Nat)) (i : Nat) (h1 : (codes.getD i []) ≠ [])
    (h2 : ∀ c ∈ codes.getD i [], c < 23) : NodeInv (leafNode codes i) := by
  refine ⟨?_, by simp [leafNode], ?_, ?_⟩
  · simp only [leafNode]; exact List.length_pos_iff.2 h1
  · intro _
    refine ⟨by simp [leafNode], ?_⟩
    show (codes.getD i []).toArray.all _ = true
    rw [List.all_toArray, List.all_eq_true]
    intro c hc
    simpa using h2 c hc
  · intro h; simp [leafNode] at h

/-! ## sub-trees -/

theorem LTree_Sub_trans {u v w : Sched.LTree} (h1 : Sched.LTree.Sub u v) (h2 : Sched.LTree.Sub v w) : Sched.LTree.Sub u w := by
  induction h2 with
  | refl => exact h1
  | left _ ih => exact .left ih
  | right _ ih => exact .right ih

theorem LTree_Sub_leaves_subset {v t : Sched.LTree} (h : Sched.LTree.Sub v t) : ∀ i ∈ v.leaves, i ∈ t.leaves := by
  induction h with
  | refl => exact fun i hi => hi
  | left _ ih => intro i hi; exact List.mem_append.2 (Or.inl (ih i hi))
  | right _ ih => intro i hi; exact List.mem_append.2 (Or.inr (ih i hi))

/-- the recursion of `recursive_aln` on the node numbered `x` (the closure `child` of `recAln`) -/
def childOf (ap : AlnParam Float32) (tasks : Array (Nat × Nat × Nat)) (codes : Array (List Nat)) (n fuel x : Nat) :
    Except PipeErr Node :=
  if x ≥ n then recAln ap tasks codes n fuel (x - n)
  else if x < codes.size then .ok (leafNode codes x) else .error .fault

theorem recAln_succ (ap : AlnParam Float32) (tasks : Array (Nat × Nat × Nat)) (codes : Array (List Nat)) (n fuel k : Nat)
    (a b c : Nat) (h : tasks[k]? = some (a, b, c)) :
    recAln ap tasks codes n (fuel + 1) k =
      match childOf ap tasks codes n fuel a with
      | .error e => .error e
      | .ok A =>
        match childOf ap tasks codes n fuel b with
        | .error e => .error e
        | .ok B => mergeNodes .parallel ap A B (k + 1 == tasks.size) := by
  rw [recAln]
  simp only [h]
  rfl

/-- **`recursive_aln` over the sorted task table of a tree**: every node of the tree is completed — no missing task, no
missing operand, no fault in a merge, no monitor violation, recursion depth at most the number of tasks — given `MonHyp` -/
theorem recAln_tree (ap : AlnParam Float32) (T : Tree) (codes : Array (List Nat))
    (hleaves : ∀ i ∈ T.leaves, i < codes.size)
    (hne : ∀ i, i < codes.size → codes.getD i [] ≠ [] ∧ ∀ c ∈ codes.getD i [], c < 23)
    (hmon : MonHyp ap codes) :
    ∀ v : Sched.LTree, Sched.LTree.Sub v (label T codes.size) → ∀ fuel, Kmeans.LTree.nint v ≤ fuel →
      ∃ N, childOf ap (Kmeans.sortTasks (treeTasks T codes.size)).toArray codes codes.size fuel v.id = .ok N ∧
        HasMembers N v.leaves ∧ (v.id + 1 < codes.size + Kmeans.Tree.nint T → NodeInv N ∧ Reach ap codes N) := by
  intro v
  induction v with
  | leaf i =>
    intro hsub fuel _
    have hi : i < codes.size := by
      apply hleaves
      rw [← (labelFrom_spec T codes.size).2.1]
      exact LTree_Sub_leaves_subset hsub i (by simp [Sched.LTree.leaves])
    refine ⟨leafNode codes i, ?_, ?_, ?_⟩
    · show childOf _ _ _ _ _ i = _
      unfold childOf
      rw [if_neg (by omega), if_pos hi]
    · intro j hj
      simp only [Sched.LTree.leaves, List.mem_singleton] at hj
      subst hj
      simp [leafNode]
    · intro _
      exact ⟨leafNode_inv codes i (hne i hi).1 (hne i hi).2, Reach.leaf i hi⟩
  | node c l r ihl ihr =>
    intro hsub fuel hfuel
    obtain ⟨hc1, hc2, hget⟩ := sortedTasks_get T codes.size hsub
    have hsl : Sched.LTree.Sub l (label T codes.size) := LTree_Sub_trans (.left (.refl l)) hsub
    have hsr : Sched.LTree.Sub r (label T codes.size) := LTree_Sub_trans (.right (.refl r)) hsub
    simp only [Kmeans.LTree.nint] at hfuel
    obtain ⟨f, rfl⟩ : ∃ f, fuel = f + 1 := ⟨fuel - 1, by omega⟩
    obtain ⟨A, hA, mA, iA⟩ := ihl hsl f (by omega)
    obtain ⟨B, hB, mB, iB⟩ := ihr hsr f (by omega)
    -- children carry smaller numbers than `c ≤ n + nint - 1`
    have hlt := labelFrom_child_lt T codes.size c l r hsub
    have hidl : l.id + 1 < codes.size + Kmeans.Tree.nint T := by
      cases l with
      | leaf i =>
        have : i < codes.size := by
          apply hleaves
          rw [← (labelFrom_spec T codes.size).2.1]
          exact LTree_Sub_leaves_subset hsl i (by simp [Sched.LTree.leaves])
        simp only [Sched.LTree.id]; omega
      | node c' l' r' =>
        have := hlt c' (List.mem_append.2 (Or.inl (Kmeans.LTree.id_mem_iids c' l' r')))
        simp only [Sched.LTree.id]; omega
    have hidr : r.id + 1 < codes.size + Kmeans.Tree.nint T := by
      cases r with
      | leaf i =>
        have : i < codes.size := by
          apply hleaves
          rw [← (labelFrom_spec T codes.size).2.1]
          exact LTree_Sub_leaves_subset hsr i (by simp [Sched.LTree.leaves])
        simp only [Sched.LTree.id]; omega
      | node c' l' r' =>
        have := hlt c' (List.mem_append.2 (Or.inr (Kmeans.LTree.id_mem_iids c' l' r')))
        simp only [Sched.LTree.id]; omega
    obtain ⟨invA, rA⟩ := iA hidl
    obtain ⟨invB, rB⟩ := iB hidr
    have hsize : (Kmeans.sortTasks (treeTasks T codes.size)).toArray.size = Kmeans.Tree.nint T := by
      simp [length_sortTasks]
    have hget' : (Kmeans.sortTasks (treeTasks T codes.size)).toArray[c - codes.size]? = some (l.id, r.id, c) := by
      simpa using hget
    obtain ⟨N, hN, hNinv, hNmem⟩ := mergeNodes_some ap A B
      (c - codes.size + 1 == (Kmeans.sortTasks (treeTasks T codes.size)).toArray.size) invA invB (hmon A B rA rB)
    refine ⟨N, ?_, hNmem _ _ mA mB, ?_⟩
    · show childOf _ _ _ _ _ c = _
      unfold childOf
      rw [if_pos hc1, recAln_succ ap _ codes codes.size f (c - codes.size) l.id r.id c hget']
      rw [hA, hB]
      exact hN
    · intro hlt
      simp only [Sched.LTree.id] at hlt
      have hlast : (c - codes.size + 1 == (Kmeans.sortTasks (treeTasks T codes.size)).toArray.size) = false := by
        rw [hsize]; simp; omega
      rw [hlast] at hN
      exact ⟨hNinv hlast, Reach.merge A B N rA rB hN⟩

theorem mergeNodes_ne_fuel (ap : AlnParam Float32) (A B : Node) (isLast : Bool) :
    mergeNodes .parallel ap A B isLast ≠ .error .fuel := by
  unfold mergeNodes
  simp only
  split
  · simp
  · split
    · simp
    · split <;> simp

/-- **`recursive_aln` never needs more recursion depth than there are tasks** — no hypothesis on score values: whatever the
merges return, the recursion over the sorted task table of a tree finds every task and ends within `nint` levels -/
theorem recAln_tree_no_fuel (ap : AlnParam Float32) (T : Tree) (codes : Array (List Nat))
    (hleaves : ∀ i ∈ T.leaves, i < codes.size) :
    ∀ v : Sched.LTree, Sched.LTree.Sub v (label T codes.size) → ∀ fuel, Kmeans.LTree.nint v ≤ fuel →
      childOf ap (Kmeans.sortTasks (treeTasks T codes.size)).toArray codes codes.size fuel v.id ≠ .error .fuel := by
  intro v
  induction v with
  | leaf i =>
    intro hsub fuel _
    have hi : i < codes.size := by
      apply hleaves
      rw [← (labelFrom_spec T codes.size).2.1]
      exact LTree_Sub_leaves_subset hsub i (by simp [Sched.LTree.leaves])
    show childOf _ _ _ _ _ i ≠ _
    unfold childOf
    rw [if_neg (by omega), if_pos hi]
    simp
  | node c l r ihl ihr =>
    intro hsub fuel hfuel
    obtain ⟨hc1, hc2, hget⟩ := sortedTasks_get T codes.size hsub
    have hsl : Sched.LTree.Sub l (label T codes.size) := LTree_Sub_trans (.left (.refl l)) hsub
    have hsr : Sched.LTree.Sub r (label T codes.size) := LTree_Sub_trans (.right (.refl r)) hsub
    simp only [Kmeans.LTree.nint] at hfuel
    obtain ⟨f, rfl⟩ : ∃ f, fuel = f + 1 := ⟨fuel - 1, by omega⟩
    have hA := ihl hsl f (by omega)
    have hB := ihr hsr f (by omega)
    have hget' : (Kmeans.sortTasks (treeTasks T codes.size)).toArray[c - codes.size]? = some (l.id, r.id, c) := by
      simpa using hget
    show childOf _ _ _ _ _ c ≠ _
    unfold childOf
    rw [if_pos hc1, recAln_succ ap _ codes codes.size f (c - codes.size) l.id r.id c hget']
    cases hAe : childOf ap (Kmeans.sortTasks (treeTasks T codes.size)).toArray codes codes.size f l.id with
    | error e =>
      simp only
      intro h
      simp only [Except.error.injEq] at h
      exact hA (by rw [hAe, h])
    | ok A =>
      simp only
      cases hBe : childOf ap (Kmeans.sortTasks (treeTasks T codes.size)).toArray codes codes.size f r.id with
      | error e =>
        simp only
        intro h
        simp only [Except.error.injEq] at h
        exact hB (by rw [hBe, h])
      | ok B =>
        simp only
        exact mergeNodes_ne_fuel ap A B _

end Kalign.Pipeline
