import KalignModel.Lemmas.HirschOpt3
/-!
# Memory-level facts: path writes, the body of the runner, pre- and postconditions
-/
namespace Kalign

section
variable {φ α : Type}

theorem setPath_inrange (m : Mem φ α) (i v : Int) (h0 : 0 ≤ i) (h1 : i.toNat < m.path.size) :
    m.setPath i v = { m with path := m.path.set! i.toNat v } := by
  unfold Mem.setPath
  rw [if_pos ⟨h0, h1⟩]

theorem setPath_pe (m : Mem φ α) (i v j : Int) (h0 : 0 ≤ i) (h1 : i.toNat < m.path.size) (hj : 0 ≤ j) :
    (m.setPath i v).pe j = if j = i then v else m.pe j := by
  rw [setPath_inrange m i v h0 h1]
  simp only [Mem.pe, Array.getD_eq_getD_getElem?, Array.set!_eq_setIfInBounds, Array.getElem?_setIfInBounds, h1]
  by_cases hji : j = i
  · subst hji; simp
  · have : i.toNat ≠ j.toNat := by omega
    simp [this, hji]

/-- memory after the kernels of one level have run (the record updates of `runnerBody`) -/
def afterStep (x : Mem φ α) (mid : Int) (r : KStep φ α) : Mem φ α :=
  { { x with enda := mid, starta2 := mid, enda2 := x.enda } with
    f := r.f, b := r.b,
    mon := x.mon && meetupContract x.fk x.bk x.starta x.enda x.startb x.endb mid r.meet r.transition,
    trace := ⟨x.starta, x.enda, x.startb, x.endb, r.meet, r.transition, r.score⟩ :: x.trace }

theorem runnerBody_eq (K : Kernels φ α) (rec : Mem φ α → Mem φ α) (x : Mem φ α) (r : KStep φ α)
    (hstep : K.step x.f x.b x.starta ((x.enda - x.starta) / 2 + x.starta) x.enda x.startb x.endb = some r) :
    runnerBody K false rec x =
      alnContinue K rec (afterStep x ((x.enda - x.starta) / 2 + x.starta) r) (K.get0 x.f) (K.get0 x.b) x.fk x.bk
        x.starta x.enda x.startb x.endb ((x.enda - x.starta) / 2 + x.starta) r.meet r.transition := by
  unfold runnerBody
  simp only [hstep, Bool.false_eq_true, if_false]
  rfl

@[simp] theorem afterStep_pe (x : Mem φ α) (mid : Int) (r : KStep φ α) : (afterStep x mid r).pe = x.pe := rfl
@[simp] theorem afterStep_path (x : Mem φ α) (mid : Int) (r : KStep φ α) : (afterStep x mid r).path = x.path := rfl
@[simp] theorem afterStep_fault (x : Mem φ α) (mid : Int) (r : KStep φ α) : (afterStep x mid r).fault = x.fault := rfl
@[simp] theorem afterStep_f (x : Mem φ α) (mid : Int) (r : KStep φ α) : (afterStep x mid r).f = r.f := rfl
@[simp] theorem afterStep_b (x : Mem φ α) (mid : Int) (r : KStep φ α) : (afterStep x mid r).b = r.b := rfl

theorem optSet_facts (m : Mem φ α) (c : Bool) (i v : Int) (h0 : 0 ≤ i) (h1 : i.toNat < m.path.size) :
    (optSet m c i v).fault = m.fault ∧ (optSet m c i v).f = m.f ∧ (optSet m c i v).b = m.b ∧
      (optSet m c i v).path.size = m.path.size ∧
      ∀ j, 0 ≤ j → (optSet m c i v).pe j = if c = true ∧ j = i then v else m.pe j := by
  unfold optSet
  cases c
  · simp
  · simp only [if_true, true_and]
    refine ⟨?_, ?_, ?_, ?_, fun j hj => setPath_pe m i v j h0 h1 hj⟩ <;> rw [setPath_inrange m i v h0 h1]
    simp

@[simp] theorem alnFwd_f (K : Kernels φ α) (m : Mem φ α) (s : States α) (k1 k2 : Kind) (a b c d : Int) :
    (alnFwd K m s k1 k2 a b c d).f = K.set0 m.f s := rfl
@[simp] theorem alnFwd_b (K : Kernels φ α) (m : Mem φ α) (s : States α) (k1 k2 : Kind) (a b c d : Int) :
    (alnFwd K m s k1 k2 a b c d).b = K.set0 m.b (K.st k2) := rfl
@[simp] theorem alnBwd_f (K : Kernels φ α) (m : Mem φ α) (s : States α) (k1 k2 : Kind) (a b c d : Int) :
    (alnBwd K m s k1 k2 a b c d).f = K.set0 m.f (K.st k2) := rfl
@[simp] theorem alnBwd_b (K : Kernels φ α) (m : Mem φ α) (s : States α) (k1 k2 : Kind) (a b c d : Int) :
    (alnBwd K m s k1 k2 a b c d).b = K.set0 m.b s := rfl

end

/-! ## pre- and postcondition of a call of the runner -/

/-- every path entry is still −1 or already the entry of `P` -/
def Good (P : List Col) (lenA : Nat) (x : MemE) : Prop :=
  ∀ i : Int, 1 ≤ i → i ≤ lenA → x.pe i = -1 ∨ x.pe i = pth P i

def Sizes (lenA lenB : Nat) (x : MemE) : Prop :=
  lenB + 1 ≤ x.f.size ∧ lenB + 1 ≤ x.b.size ∧ lenA + 2 ≤ x.path.size

def Decomp (P : List Col) (lenA lenB : Nat) (x : MemE) : Prop :=
  ∃ sa ea sb eb : Nat, x.starta = sa ∧ x.enda = ea ∧ x.startb = sb ∧ x.endb = eb ∧
    DD P lenA lenB sa ea sb eb x.fk x.bk ∧
    x.f.getD 0 States.negInf = hot x.fk ∧ x.b.getD 0 States.negInf = hot x.bk

def Pre (P : List Col) (lenA lenB : Nat) (x : MemE) : Prop :=
  x.fault = false ∧ Good P lenA x ∧ Sizes lenA lenB x ∧ 0 ≤ x.starta ∧ (x.enda ≤ x.starta ∨ Decomp P lenA lenB x)

def Post (P : List Col) (lenA lenB : Nat) (x r : MemE) : Prop :=
  r.fault = false ∧ (∀ i : Int, 1 ≤ i → i ≤ lenA → r.pe i = x.pe i ∨ r.pe i = pth P i) ∧
    (∀ i : Int, x.starta < i → i ≤ x.enda → r.pe i = pth P i) ∧ Sizes lenA lenB r ∧
    (r.enda ≤ r.starta ∨ r.endb ≤ r.startb)

def Meas (x : MemE) : Nat := (x.enda - x.starta).toNat + (x.endb - x.startb).toNat + 1

theorem Post_refl_deg (P : List Col) (lenA lenB : Nat) (x : MemE) (hf : x.fault = false) (hS : Sizes lenA lenB x)
    (hdeg : x.enda ≤ x.starta) : Post P lenA lenB x x :=
  ⟨hf, fun _ _ _ => Or.inl rfl, fun i h1 h2 => by omega, hS, Or.inl hdeg⟩

theorem Good_of_frame (P : List Col) (lenA : Nat) (x r : MemE) (hG : Good P lenA x)
    (hfr : ∀ i : Int, 1 ≤ i → i ≤ lenA → r.pe i = x.pe i ∨ r.pe i = pth P i) : Good P lenA r := by
  intro i h1 h2
  rcases hfr i h1 h2 with h | h
  · rw [h]; exact hG i h1 h2
  · exact Or.inr h

end Kalign
