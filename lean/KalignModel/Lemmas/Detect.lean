import KalignModel.Model.Detect
/-!
# Lemmas about `detectExact` (used by Props/C13, Props/C14)

`detectExact hist` compares two products of powers over `hist.zipIdx`.  Each factor depends on the byte only
through the two memberships (DNA letter?, protein letter?), so each product factorises into four powers whose
exponents are the class-wise totals of the histogram (`prodW_classes`).  All arithmetic is done on opaque names
(`aS`, `bS`, …); the needed numeric inequalities are proved once by `decide`.
-/
namespace Kalign
namespace DetectLemmas

/-! ## weighted sums / products over a list of (count, byte) pairs -/

/-- Σ of the counts of the entries whose byte satisfies `p` -/
def sumW (p : Nat → Bool) : List (Nat × Nat) → Nat
  | [] => 0
  | nc :: t => (if p nc.2 then nc.1 else 0) + sumW p t

/-- Π g(byte)^count -/
def prodW (g : Nat → Nat) : List (Nat × Nat) → Nat
  | [] => 1
  | nc :: t => g nc.2 ^ nc.1 * prodW g t

theorem foldl_prod (g : Nat → Nat) (l : List (Nat × Nat)) (init : Nat) :
    l.foldl (fun (acc : Nat) (nc : Nat × Nat) => acc * g nc.2 ^ nc.1) init = init * prodW g l := by
  induction l generalizing init with
  | nil => simp [prodW]
  | cons nc t ih => simp [List.foldl_cons, ih, prodW, Nat.mul_assoc]

theorem foldl_filter_sum (p : Nat → Bool) (l : List (Nat × Nat)) (init : Nat) :
    (l.filter fun nc => p nc.2).foldl (fun a nc => a + nc.1) init = init + sumW p l := by
  induction l generalizing init with
  | nil => simp [sumW]
  | cons nc t ih =>
    cases h : p nc.2 <;> simp [h, ih, sumW, Nat.add_assoc]

theorem foldl_add_zipIdx (hist : List Nat) (k init : Nat) :
    hist.foldl (· + ·) init = init + sumW (fun _ => true) (hist.zipIdx k) := by
  induction hist generalizing k init with
  | nil => simp [sumW]
  | cons a t ih => simp [List.zipIdx_cons, sumW, ih (k + 1), Nat.add_assoc]

theorem sumW_congr {p q : Nat → Bool} (l : List (Nat × Nat)) (h : ∀ nc ∈ l, p nc.2 = q nc.2) :
    sumW p l = sumW q l := by
  induction l with
  | nil => rfl
  | cons nc t ih =>
    simp only [sumW, h nc (List.mem_cons_self ..)]
    rw [ih (fun x hx => h x (List.mem_cons_of_mem _ hx))]

theorem sumW_false (l : List (Nat × Nat)) : sumW (fun _ => false) l = 0 := by
  induction l with
  | nil => rfl
  | cons nc t ih => simp [sumW, ih]

theorem sumW_mono {p q : Nat → Bool} (h : ∀ c, p c = true → q c = true) (l : List (Nat × Nat)) :
    sumW p l ≤ sumW q l := by
  induction l with
  | nil => exact Nat.le_refl _
  | cons nc t ih =>
    simp only [sumW]
    cases hp : p nc.2
    · simp only [Bool.false_eq_true, if_false]; omega
    · simp only [h _ hp, if_true]; omega

/-- the total splits into the four classes of two predicates -/
theorem sumW_split (d p : Nat → Bool) (l : List (Nat × Nat)) :
    sumW (fun _ => true) l =
      sumW (fun c => d c && p c) l + sumW (fun c => d c && !p c) l +
      sumW (fun c => !d c && p c) l + sumW (fun c => !d c && !p c) l := by
  induction l with
  | nil => rfl
  | cons nc t ih =>
    simp only [sumW, ih]
    rcases Bool.eq_false_or_eq_true (d nc.2) with hd | hd <;>
      rcases Bool.eq_false_or_eq_true (p nc.2) with hp | hp <;> simp [hd, hp] <;> omega

/-- a product whose factors depend on the byte only through two predicates is a product of four powers -/
theorem prodW_classes (d p : Nat → Bool) (x11 x10 x01 x00 : Nat) (g : Nat → Nat)
    (hg : ∀ c, g c = if d c then (if p c then x11 else x10) else (if p c then x01 else x00))
    (l : List (Nat × Nat)) :
    prodW g l =
      x11 ^ sumW (fun c => d c && p c) l * x10 ^ sumW (fun c => d c && !p c) l *
      x01 ^ sumW (fun c => !d c && p c) l * x00 ^ sumW (fun c => !d c && !p c) l := by
  induction l with
  | nil => rfl
  | cons nc t ih =>
    simp only [prodW, sumW, ih, hg nc.2]
    rcases Bool.eq_false_or_eq_true (d nc.2) with hd | hd <;>
      rcases Bool.eq_false_or_eq_true (p nc.2) with hp | hp <;>
      simp [hd, hp, Nat.pow_add, Nat.mul_assoc, Nat.mul_comm, Nat.mul_left_comm]

/-! ## the four classes of `detect_alphabet` -/

def isD (c : Nat) : Bool := Gen.dnaLettersB.contains c
def isP (c : Nat) : Bool := Gen.proteinLettersB.contains c

/-- cross-multiplied factor of the DNA model / of the protein model at byte `c` -/
def fA (c : Nat) : Nat := (pDna c).1 * (pProt c).2
def fB (c : Nat) : Nat := (pProt c).1 * (pDna c).2

/-- class S: letter of both sets; D: DNA only (empty); P: protein only; O: neither -/
def aS : Nat := Gen.prob_dna_letter.1 * Gen.prob_prot_letter.2
def bS : Nat := Gen.prob_prot_letter.1 * Gen.prob_dna_letter.2
def aD : Nat := Gen.prob_dna_letter.1 * Gen.prob_prot_other.2
def bD : Nat := Gen.prob_prot_other.1 * Gen.prob_dna_letter.2
def aP : Nat := Gen.prob_dna_other.1 * Gen.prob_prot_letter.2
def bP : Nat := Gen.prob_prot_letter.1 * Gen.prob_dna_other.2
def aO : Nat := Gen.prob_dna_other.1 * Gen.prob_prot_other.2
def bO : Nat := Gen.prob_prot_other.1 * Gen.prob_dna_other.2

theorem bS_lt_aS : bS < aS := by decide
theorem bS_pos : 0 < bS := by decide
theorem bO_pos : 0 < bO := by decide
theorem aO_le_bO : aO ≤ bO := by decide
theorem key_num : aS ^ 3 * aP < bS ^ 3 * bP := by decide

theorem fA_class (c : Nat) :
    fA c = if isD c then (if isP c then aS else aD) else (if isP c then aP else aO) := by
  unfold fA pDna pProt isD isP
  cases Gen.dnaLettersB.contains c <;> cases Gen.proteinLettersB.contains c <;> rfl

theorem fB_class (c : Nat) :
    fB c = if isD c then (if isP c then bS else bD) else (if isP c then bP else bO) := by
  unfold fB pDna pProt isD isP
  cases Gen.dnaLettersB.contains c <;> cases Gen.proteinLettersB.contains c <;> rfl

/-- class totals of a (count, byte) list -/
def nS (l : List (Nat × Nat)) : Nat := sumW (fun c => isD c && isP c) l
def nD (l : List (Nat × Nat)) : Nat := sumW (fun c => isD c && !isP c) l
def nP (l : List (Nat × Nat)) : Nat := sumW (fun c => !isD c && isP c) l
def nO (l : List (Nat × Nat)) : Nat := sumW (fun c => !isD c && !isP c) l

/-- the comparison made by `detectExact` -/
def decide3 (dn pn : Nat) : Bio :=
  if dn == pn then .unknown else if decide (dn > pn) then .dna else .protein

theorem decide3_dna {dn pn : Nat} (h : pn < dn) : decide3 dn pn = .dna := by
  have : dn ≠ pn := by omega
  simp [decide3, this, h]

theorem decide3_protein {dn pn : Nat} (h : dn < pn) : decide3 dn pn = .protein := by
  have h1 : dn ≠ pn := by omega
  have h2 : ¬ pn < dn := by omega
  simp [decide3, h1, h2]

theorem detectExact_eq_prodW (hist : List Nat) :
    detectExact hist = decide3 (prodW fA hist.zipIdx) (prodW fB hist.zipIdx) := by
  have h1 := foldl_prod fA hist.zipIdx 1
  have h2 := foldl_prod fB hist.zipIdx 1
  rw [Nat.one_mul] at h1 h2
  rw [← h1, ← h2]
  rfl

/-- every DNA letter of `detect_alphabet` is also one of its protein letters: class D is empty -/
theorem dna_sub_prot : ∀ c ∈ Gen.dnaLettersB, Gen.proteinLettersB.contains c = true := by decide

theorem classD_empty (c : Nat) : (isD c && !isP c) = false := by
  cases h : isD c
  · rfl
  · have hm : c ∈ Gen.dnaLettersB := by simpa [isD] using h
    unfold isP
    rw [dna_sub_prot c hm]
    rfl

theorem nD_eq_zero (l : List (Nat × Nat)) : nD l = 0 := by
  unfold nD
  rw [sumW_congr (q := fun _ => false) l (fun nc _ => classD_empty nc.2)]
  exact sumW_false l

/-- `detectExact` is a function of the class totals -/
theorem detectExact_eq_classes (hist : List Nat) :
    detectExact hist =
      decide3 (aS ^ nS hist.zipIdx * aD ^ nD hist.zipIdx * aP ^ nP hist.zipIdx * aO ^ nO hist.zipIdx)
              (bS ^ nS hist.zipIdx * bD ^ nD hist.zipIdx * bP ^ nP hist.zipIdx * bO ^ nO hist.zipIdx) := by
  rw [detectExact_eq_prodW, prodW_classes isD isP aS aD aP aO fA fA_class,
    prodW_classes isD isP bS bD bP bO fB fB_class]
  rfl

theorem total_eq_classes (l : List (Nat × Nat)) :
    sumW (fun _ => true) l = nS l + nP l + nO l := by
  have h := sumW_split isD isP l
  have h0 := nD_eq_zero l
  unfold nD at h0
  unfold nS nP nO
  omega

/-! ## the two arithmetic arguments -/

/-- grouping three shared letters with one protein-only letter -/
theorem key_pow {aS bS aP bP : Nat} (h1 : bS ≤ aS) (h2 : aS ^ 3 * aP < bS ^ 3 * bP) (hb : 0 < bS)
    {nS nP : Nat} (hn : nS ≤ 3 * nP) (hp : 0 < nP) :
    aS ^ nS * aP ^ nP < bS ^ nS * bP ^ nP := by
  obtain ⟨m, hm⟩ : ∃ m, 3 * nP = nS + m := ⟨3 * nP - nS, by omega⟩
  have hbm : 0 < bS ^ m := Nat.pow_pos hb
  apply Nat.lt_of_mul_lt_mul_right (a := bS ^ m)
  calc aS ^ nS * aP ^ nP * bS ^ m
      ≤ aS ^ nS * aP ^ nP * aS ^ m := Nat.mul_le_mul_left _ (Nat.pow_le_pow_left h1 m)
    _ = (aS ^ 3 * aP) ^ nP := by
        rw [Nat.mul_pow, ← Nat.pow_mul, hm, Nat.pow_add]
        simp [Nat.mul_assoc, Nat.mul_comm, Nat.mul_left_comm]
    _ < (bS ^ 3 * bP) ^ nP := Nat.pow_lt_pow_left h2 (by omega)
    _ = bS ^ nS * bP ^ nP * bS ^ m := by
        rw [Nat.mul_pow, ← Nat.pow_mul, hm, Nat.pow_add]
        simp [Nat.mul_assoc, Nat.mul_comm, Nat.mul_left_comm]

/-- (P1 core) only shared letters counted, at least one -/
theorem detect_dna_of_classes (hist : List Nat)
    (hP : nP hist.zipIdx = 0) (hO : nO hist.zipIdx = 0) (hS : 0 < nS hist.zipIdx) :
    detectExact hist = .dna := by
  rw [detectExact_eq_classes, nD_eq_zero, hP, hO]
  simp only [Nat.pow_zero, Nat.mul_one]
  exact decide3_dna (Nat.pow_lt_pow_left bS_lt_aS (by omega))

/-- (P2 core) at most three other bytes per protein-only letter, at least one protein-only letter -/
theorem detect_protein_of_classes (hist : List Nat)
    (hq : nS hist.zipIdx + nO hist.zipIdx ≤ 3 * nP hist.zipIdx) (hp : 0 < nP hist.zipIdx) :
    detectExact hist = .protein := by
  rw [detectExact_eq_classes, nD_eq_zero]
  simp only [Nat.pow_zero, Nat.mul_one]
  apply decide3_protein
  exact Nat.mul_lt_mul_of_lt_of_le
    (key_pow (Nat.le_of_lt bS_lt_aS) key_num bS_pos (by omega) hp)
    (Nat.pow_le_pow_left aO_le_bO _) (Nat.pow_pos bO_pos)

/-! ## histograms of sequence lists -/

theorem foldl_add_eq_sum (l : List Nat) : l.foldl (· + ·) 0 = l.sum := by
  rw [List.sum_eq_foldl]

/-- the histogram built by `histOf` (Props/C13) written with `count` over the concatenation -/
theorem hist_eq_count (seqs : List (List Nat)) (N : Nat) :
    ((List.range N).map fun c => (seqs.map fun s => s.count c).foldl (· + ·) 0) =
      (List.range N).map fun c => seqs.flatten.count c := by
  apply List.map_congr_left
  intro c _
  rw [foldl_add_eq_sum, List.count_flatten]

theorem zipIdx_map_range' (h : Nat → Nat) (s n : Nat) :
    ((List.range' s n).map h).zipIdx s = (List.range' s n).map fun c => (h c, c) := by
  induction n generalizing s with
  | zero => rfl
  | succ n ih => simp [List.range'_succ, List.zipIdx_cons, ih (s + 1)]

theorem countP_add_of_pointwise {q1 q2 q3 : Nat → Bool} (l : List Nat)
    (h : ∀ b, (if q1 b then 1 else 0) + (if q2 b then 1 else 0) = (if q3 b then 1 else 0 : Nat)) :
    l.countP q1 + l.countP q2 = l.countP q3 := by
  induction l with
  | nil => rfl
  | cons b t ih =>
    simp only [List.countP_cons]
    have := h b
    omega

theorem count_eq_countP_and (q : Nat → Bool) (s : Nat) (l : List Nat) :
    (if q s then l.count s else 0) = l.countP (fun b => q b && b == s) := by
  induction l with
  | nil => simp
  | cons b t ih =>
    simp only [List.count_cons, List.countP_cons, ← ih]
    by_cases hbs : b = s
    · subst hbs
      cases hq : q b <;> simp
    · have h1 : (b == s) = false := by simpa using hbs
      simp [h1]

/-- class total of the count histogram of `flat` over the bytes `s ≤ c < s + n` -/
theorem sumW_count_range' (q : Nat → Bool) (flat : List Nat) (s n : Nat) :
    sumW q ((List.range' s n).map fun c => (flat.count c, c)) =
      flat.countP (fun b => q b && decide (s ≤ b) && decide (b < s + n)) := by
  induction n generalizing s with
  | zero =>
    simp only [List.range'_zero, List.map_nil, sumW]
    symm
    rw [List.countP_eq_zero]
    intro b _
    simp
  | succ n ih =>
    simp only [List.range'_succ, List.map_cons, sumW, ih (s + 1), count_eq_countP_and]
    apply countP_add_of_pointwise
    intro b
    cases hq : q b
    · simp
    · by_cases h1 : b = s
      · subst h1
        have h2 : ¬ (b + 1 ≤ b) := by omega
        simp [h2]
      · have h2 : (b == s) = false := by simpa using h1
        by_cases h3 : s + 1 ≤ b ∧ b < s + 1 + n
        · have h4 : s ≤ b ∧ b < s + (n + 1) := by omega
          simp [h2, h3, h4]
        · have h4 : ¬ (s ≤ b ∧ b < s + (n + 1)) := by omega
          simp only [h2, Bool.true_and, Bool.and_eq_true, decide_eq_true_eq, h3, h4]
          simp

/-- class totals of the count histogram are the class counts of the bytes (all bytes below `N`) -/
theorem sumW_hist (q : Nat → Bool) (flat : List Nat) (N : Nat) (hb : ∀ b ∈ flat, b < N) :
    sumW q (((List.range N).map fun c => flat.count c).zipIdx) = flat.countP q := by
  rw [List.range_eq_range', zipIdx_map_range', sumW_count_range']
  apply List.countP_congr
  intro b hbm
  have := hb b hbm
  simp
  omega

end DetectLemmas
end Kalign
