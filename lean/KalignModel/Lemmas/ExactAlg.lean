import KalignModel.Model.Kernel
/-!
# Arithmetic of the exact score carrier `ExactScore = Option Int` (`none` = −∞)
-/
namespace Kalign

/-- `a ≤ b` with `none` the least element -/
def ole : Option Int → Option Int → Prop
  | none, _ => True
  | some _, none => False
  | some x, some y => x ≤ y

def omax : Option Int → Option Int → Option Int
  | some x, some y => some (max x y)
  | some x, none => some x
  | none, b => b

/-- subtract / add a finite amount -/
def osub (a : Option Int) (g : Int) : Option Int := a.map (· - g)
def oaddi (a : Option Int) (g : Int) : Option Int := a.map (· + g)

@[simp] theorem ole_none (b : Option Int) : ole none b := by simp [ole]
@[simp] theorem ole_some_none (x : Int) : ole (some x) none ↔ False := by simp [ole]
@[simp] theorem ole_some_some (x y : Int) : ole (some x) (some y) ↔ x ≤ y := by simp [ole]
@[simp] theorem osub_none (g : Int) : osub none g = none := rfl
@[simp] theorem osub_some (x g : Int) : osub (some x) g = some (x - g) := rfl
@[simp] theorem oaddi_none (g : Int) : oaddi none g = none := rfl
@[simp] theorem oaddi_some (x g : Int) : oaddi (some x) g = some (x + g) := rfl
@[simp] theorem omax_none_left (b : Option Int) : omax none b = b := by cases b <;> rfl
@[simp] theorem omax_none_right (a : Option Int) : omax a none = a := by cases a <;> rfl
@[simp] theorem omax_some_some (x y : Int) : omax (some x) (some y) = some (max x y) := rfl

theorem ole_refl (a : Option Int) : ole a a := by cases a <;> simp
theorem ole_trans {a b c : Option Int} (h1 : ole a b) (h2 : ole b c) : ole a c := by
  cases a <;> cases b <;> cases c <;> simp_all <;> omega
theorem ole_antisymm {a b : Option Int} (h1 : ole a b) (h2 : ole b a) : a = b := by
  cases a <;> cases b <;> simp_all <;> omega
theorem ole_omax_left (a b : Option Int) : ole a (omax a b) := by
  cases a <;> cases b <;> simp <;> omega
theorem ole_omax_right (a b : Option Int) : ole b (omax a b) := by
  cases a <;> cases b <;> simp <;> omega
theorem omax_cases (a b : Option Int) : omax a b = a ∨ omax a b = b := by
  cases a <;> cases b <;> simp <;> omega
theorem omax_le {a b c : Option Int} (h1 : ole a c) (h2 : ole b c) : ole (omax a b) c := by
  rcases omax_cases a b with h | h <;> rw [h] <;> assumption
theorem osub_mono {a b : Option Int} (g : Int) (h : ole a b) : ole (osub a g) (osub b g) := by
  cases a <;> cases b <;> simp_all
theorem oaddi_mono {a b : Option Int} (g : Int) (h : ole a b) : ole (oaddi a g) (oaddi b g) := by
  cases a <;> cases b <;> simp_all
theorem osub_zero (a : Option Int) : osub a 0 = a := by cases a <;> simp
theorem ole_none_right {a : Option Int} (h : ole a none) : a = none := by cases a <;> simp_all

/-! the operations of the `Score ExactScore` instance in these terms -/

theorem ex_sub_some (a : ExactScore) (g : Int) : Score.sub a (some g : ExactScore) = osub a g := by
  cases a <;> rfl
theorem ex_add_some (a : ExactScore) (g : Int) : Score.add a (some g : ExactScore) = oaddi a g := by
  cases a <;> rfl
theorem ex_add (a b : ExactScore) : Score.add a b = (match a, b with | some x, some y => some (x + y) | _, _ => none) := rfl
theorem ex_negInf : (Score.negInf : ExactScore) = none := rfl
theorem ex_zero : (Score.zero : ExactScore) = some 0 := rfl
theorem ex_gt (a b : ExactScore) : Score.gt a b = true ↔ ¬ ole a b := by
  cases a <;> cases b <;> simp [Score.gt]
theorem ex_smax (a b : ExactScore) : smax a b = omax a b := by
  cases a with
  | none => cases b <;> simp [smax, Score.gt]
  | some x =>
    cases b with
    | none => simp [smax, Score.gt]
    | some y =>
      simp only [smax, Score.gt, omax_some_some, decide_eq_true_eq]
      split
      · congr 1; omega
      · congr 1; omega
theorem ex_smax3 (a b c : ExactScore) : smax3 a b c = omax (omax a b) c := by
  simp [smax3, ex_smax]

end Kalign
