import KalignModel.Lemmas.SoftProfMon
import KalignModel.Lemmas.NoFaultRecC
/-!
# Profile entries stay bounded (software binary32)

* `makeProfile_entBnd`: every entry of `make_profile_n`'s result is finite and at most `2²⁰` (given `ApBnd`).
* `StoredBnd N p`: every entry of a stored profile outside the gap-penalty slots 27..29 is finite and at most `N`.
* `setGapPenalties_entBnd`: `set_gap_penalties_n` turns a stored profile of whole columns (`p.size % 64 = 0`) into a prepared
  operand profile (`EntBnd`); `setGapPenalties_stored`: it keeps `StoredBnd`.
* `updateN_stored` (`updateN_blk`): `update_n` of profiles bounded by `4·ka·2²⁰`, `4·kb·2²⁰` along `CodeOK` codes is bounded by
  `4·(ka+kb)·2²⁰` (and consists of whole columns).
* `Pipeline.reachC_profInv`, `Pipeline.nodeProfC_entBnd`: the stored / prepared profiles of every node the progressive
  alignment can reach.

Helper lemmas live in `Kalign.ProfBnd`.
-/
set_option exponentiation.threshold 512
namespace Kalign
open SoftF32

/-- a stored profile: every entry outside the gap-penalty slots 27..29 (of every column) is finite and at most `N`
(the slots 27..29 hold leftovers that `set_gap_penalties_n` overwrites before the profile is used) -/
def StoredBnd (N : Nat) (p : Array SoftF32) : Prop :=
  ∀ i, (i % 64 = 27 ∨ i % 64 = 28 ∨ i % 64 = 29) ∨ absLe (p.getD i Score.zero) N

namespace ProfBnd

theorem absLe_zero (N : Nat) : absLe (Score.zero : SoftF32) N := by
  refine ⟨by decide, ?_⟩
  have : magVal (Score.zero : SoftF32).mag = 0 := by decide
  omega

theorem absLe_one : absLe (SoftF32.add SoftF32.zero SoftF32.one) 1048576 := by
  have h := ofNat_absLe (n := 1) (by decide)
  have e : ofNat 1 = SoftF32.add SoftF32.zero SoftF32.one := by decide
  rw [e] at h
  exact h.mono (by decide)

/-- every entry (also outside the array) is bounded -/
def AllBnd (K : Nat) (p : Array SoftF32) : Prop := ∀ i, absLe (p.getD i Score.zero) K

theorem getD_oob (p : Array SoftF32) (i : Nat) (h : p.size ≤ i) : p.getD i Score.zero = Score.zero := by
  simp [Array.getD, Nat.not_lt.2 h]

theorem getD_append (p c : Array SoftF32) (i : Nat) :
    (p ++ c).getD i Score.zero = if i < p.size then p.getD i Score.zero else c.getD (i - p.size) Score.zero := by
  simp only [Array.getD_eq_getD_getElem?, Array.getElem?_append]
  split <;> rfl

theorem allBnd_replicate (K n : Nat) : AllBnd K (Array.replicate n (Score.zero : SoftF32)) := by
  intro i
  have : (Array.replicate n (Score.zero : SoftF32)).getD i Score.zero = Score.zero := by
    simp only [Array.getD_eq_getD_getElem?, Array.getElem?_replicate]
    split <;> rfl
  rw [this]; exact absLe_zero K

theorem allBnd_set {K : Nat} {p : Array SoftF32} (h : AllBnd K p) (j : Nat) {v : SoftF32} (hv : absLe v K) :
    AllBnd K (p.set! j v) := by
  intro i
  rw [getD_set!]
  by_cases hi : j = i ∧ j < p.size
  · rw [if_pos hi]; exact hv
  · rw [if_neg hi]; exact h i

theorem allBnd_append {K : Nat} {p c : Array SoftF32} (hp : AllBnd K p) (hc : AllBnd K c) : AllBnd K (p ++ c) := by
  intro i
  rw [getD_append]
  by_cases hi : i < p.size
  · rw [if_pos hi]; exact hp i
  · rw [if_neg hi]; exact hc _

theorem allBnd_sentinel (ap : AlnParam SoftF32) (hap : ApBnd ap) : AllBnd 1048576 (sentinelCol ap) := by
  unfold sentinelCol
  exact allBnd_set (allBnd_set (allBnd_set (allBnd_replicate _ _) _ (neg_absLe hap.gpo)) _ (neg_absLe hap.gpe)) _
    (neg_absLe hap.tgpe)

theorem allBnd_foldl_set {K : Nat} (f : Nat → SoftF32) (hf : ∀ j, absLe (f j) K) (l : List Nat) (col : Array SoftF32)
    (h : AllBnd K col) : AllBnd K (l.foldl (fun col j => col.set! (32 + j) (f j)) col) := by
  induction l generalizing col with
  | nil => exact h
  | cons x xs ih => rw [List.foldl_cons]; exact ih _ (allBnd_set h _ (hf x))

theorem allBnd_residue (ap : AlnParam SoftF32) (hap : ApBnd ap) (c : Nat) : AllBnd 1048576 (residueCol ap c) := by
  unfold residueCol
  exact allBnd_set (allBnd_set (allBnd_set
    (allBnd_foldl_set (fun j => ap.sub c j) (fun j => hap.sub c j) _ _ (allBnd_set (allBnd_replicate _ _) _ absLe_one))
    _ (neg_absLe hap.gpo)) _ (neg_absLe hap.gpe)) _ (neg_absLe hap.tgpe)

theorem allBnd_mp_fold (ap : AlnParam SoftF32) (hap : ApBnd ap) (l : List Nat) (init : Array SoftF32)
    (h : AllBnd 1048576 init) : AllBnd 1048576 (l.foldl (fun p c => p ++ residueCol ap c) init) := by
  induction l generalizing init with
  | nil => exact h
  | cons x xs ih => rw [List.foldl_cons]; exact ih _ (allBnd_append h (allBnd_residue ap hap x))

end ProfBnd
open ProfBnd

/-- **`make_profile_n`**: every entry is `0`, `0 + 1`, a substitution score or a negated penalty -/
theorem makeProfile_entBnd (ap : AlnParam SoftF32) (hap : ApBnd ap) (seq : Array Nat) :
    EntBnd 1048576 1048576 (makeProfile ap seq) := by
  have h : AllBnd 1048576 (makeProfile ap seq) := by
    unfold makeProfile
    rw [← Array.foldl_toList]
    exact allBnd_append (allBnd_mp_fold ap hap _ _ (allBnd_sentinel ap hap)) (allBnd_sentinel ap hap)
  intro i
  rw [ite_self]
  exact h i

/-! ## `set_gap_penalties_n` -/
namespace ProfBnd

/-- gap-penalty slot -/
def Gap (i : Nat) : Prop := i % 64 = 27 ∨ i % 64 = 28 ∨ i % 64 = 29

/-- gap slots selected by `D` are bounded by `G`, all non-gap entries by `N` -/
def SgpInv (N G : Nat) (D : Nat → Prop) (q : Array SoftF32) : Prop :=
  ∀ i, (Gap i → D i → absLe (q.getD i Score.zero) G) ∧ (¬ Gap i → absLe (q.getD i Score.zero) N)

theorem sgpInv_set {N G : Nat} {D D' : Nat → Prop} {q : Array SoftF32} (h : SgpInv N G D q) (j : Nat) (hj : Gap j)
    {v : SoftF32} (hv : absLe v G) (hjs : j < q.size) (hD : ∀ i, Gap i → D' i → D i ∨ i = j) :
    SgpInv N G D' (q.set! j v) := by
  intro i
  rw [getD_set!]
  by_cases hi : j = i ∧ j < q.size
  · rw [if_pos hi]
    obtain ⟨rfl, _⟩ := hi
    exact ⟨fun _ _ => hv, fun hn => absurd hj hn⟩
  · rw [if_neg hi]
    refine ⟨fun hg hd => ?_, (h i).2⟩
    rcases hD i hg hd with hd | rfl
    · exact (h i).1 hg hd
    · exact absurd ⟨rfl, hjs⟩ hi

/-- one column of `set_gap_penalties_n` -/
def sgpStepS (n : Nat) (p : Array SoftF32) (col : Nat) : Array SoftF32 :=
  ((p.set! (64 * col + 27) (Score.mul (p.getD (64 * col + 55) Score.zero) (Score.ofNat n))).set! (64 * col + 28)
    (Score.mul (p.getD (64 * col + 56) Score.zero) (Score.ofNat n))).set! (64 * col + 29)
    (Score.mul (p.getD (64 * col + 57) Score.zero) (Score.ofNat n))

theorem sgpStepS_inv {N n c t : Nat} (hn : n < 16777216) (hNn : N * n ≤ c * 2 ^ t) (hc : c < 16777216) (ht : t ≤ 104)
    (q : Array SoftF32) (k : Nat) (hk : 64 * k + 64 ≤ q.size) (h : SgpInv N (c * 2 ^ t) (fun i => i / 64 < k) q) :
    (sgpStepS n q k).size = q.size ∧ SgpInv N (c * 2 ^ t) (fun i => i / 64 < k + 1) (sgpStepS n q k) := by
  refine ⟨by simp [sgpStepS], ?_⟩
  have hv : ∀ e, e = 55 ∨ e = 56 ∨ e = 57 →
      absLe (Score.mul (q.getD (64 * k + e) Score.zero) (Score.ofNat n) : SoftF32) (c * 2 ^ t) := by
    intro e he
    have h1 : absLe (q.getD (64 * k + e) Score.zero) N := (h _).2 (by unfold Gap; omega)
    exact mul_absLe h1 (ofNat_absLe hn) hNn hc ht
  unfold sgpStepS
  have s1 := sgpInv_set (D' := fun i => i / 64 < k ∨ i = 64 * k + 27) h (64 * k + 27) (by unfold Gap; omega)
    (hv 55 (by omega)) (by omega) (fun i _ hd => hd)
  have s2 := sgpInv_set (D' := fun i => (i / 64 < k ∨ i = 64 * k + 27) ∨ i = 64 * k + 28) s1 (64 * k + 28)
    (by unfold Gap; omega) (hv 56 (by omega)) (by simp; omega) (fun i _ hd => hd)
  exact sgpInv_set s2 (64 * k + 29) (by unfold Gap; omega) (hv 57 (by omega)) (by simp; omega)
    (fun i hg hd => by unfold Gap at hg; omega)

theorem sgp_fold_inv {N n c t : Nat} (hn : n < 16777216) (hNn : N * n ≤ c * 2 ^ t) (hc : c < 16777216) (ht : t ≤ 104)
    (p : Array SoftF32) (hp : SgpInv N (c * 2 ^ t) (fun i => i / 64 < 0) p) (m : Nat) (hm : 64 * m ≤ p.size) :
    ((List.range m).foldl (sgpStepS n) p).size = p.size ∧
      SgpInv N (c * 2 ^ t) (fun i => i / 64 < m) ((List.range m).foldl (sgpStepS n) p) := by
  induction m with
  | zero => exact ⟨rfl, hp⟩
  | succ m ih =>
    obtain ⟨h1, h2⟩ := ih (by omega)
    rw [List.range_succ, List.foldl_append, List.foldl_cons, List.foldl_nil]
    obtain ⟨h3, h4⟩ := sgpStepS_inv hn hNn hc ht _ m (by omega) h2
    exact ⟨by rw [h3, h1], h4⟩

end ProfBnd
open ProfBnd

/-- **`set_gap_penalties_n`** on a stored profile of whole columns (`hsz`; without it a trailing partial column would keep its
unbounded slots 27..29): slots 27..29 become `p[55..57]·(float)n`, everything else is unchanged -/
theorem setGapPenalties_entBnd {N n c t : Nat} {p : Array SoftF32} (hp : StoredBnd N p) (hsz : p.size % 64 = 0)
    (hn : n < 16777216) (hNn : N * n ≤ c * 2 ^ t) (hc : c < 16777216) (ht : t ≤ 104) :
    EntBnd N (c * 2 ^ t) (setGapPenalties p n) := by
  have h0 : SgpInv N (c * 2 ^ t) (fun i => i / 64 < 0) p := by
    intro i
    refine ⟨fun _ hd => absurd hd (Nat.not_lt_zero _), fun hg => ?_⟩
    rcases hp i with h | h
    · exact absurd h hg
    · exact h
  obtain ⟨h1, h2⟩ := sgp_fold_inv hn hNn hc ht p h0 (p.size / 64) (by omega)
  have e : setGapPenalties p n = (List.range (p.size / 64)).foldl (sgpStepS n) p := rfl
  rw [e]
  intro i
  by_cases hg : i % 64 = 27 ∨ i % 64 = 28 ∨ i % 64 = 29
  · rw [if_pos hg]
    by_cases hi : i / 64 < p.size / 64
    · exact (h2 i).1 hg hi
    · rw [getD_oob _ _ (by rw [h1]; omega)]
      exact absLe_zero _
  · rw [if_neg hg]
    exact (h2 i).2 hg

/-- `set_gap_penalties_n` keeps the entries outside the slots 27..29 -/
theorem setGapPenalties_stored {N : Nat} {p : Array SoftF32} (hp : StoredBnd N p) (n : Nat) :
    StoredBnd N (setGapPenalties p n) := by
  have e : setGapPenalties p n = (List.range (p.size / 64)).foldl (sgpStepS n) p := rfl
  rw [e]
  generalize p.size / 64 = m
  induction m with
  | zero => exact hp
  | succ m ih =>
    rw [List.range_succ, List.foldl_append, List.foldl_cons, List.foldl_nil]
    generalize (List.range m).foldl (sgpStepS n) p = q at ih
    intro i
    by_cases hg : i % 64 = 27 ∨ i % 64 = 28 ∨ i % 64 = 29
    · exact Or.inl hg
    · right
      unfold sgpStepS
      rw [getD_set!, if_neg (by omega), getD_set!, if_neg (by omega), getD_set!, if_neg (by omega)]
      rcases ih i with h | h
      · exact absurd h hg
      · exact h

/-! ## `update_n` -/
namespace ProfBnd

/-- a 64-entry column whose entries outside the slots 27..29 are bounded -/
def ColBnd (K : Nat) (col : Array SoftF32) : Prop :=
  col.size = 64 ∧ ∀ e, e < 64 → (e = 27 ∨ e = 28 ∨ e = 29) ∨ absLe (col.getD e Score.zero) K

/-- whole columns, bounded outside the slots 27..29 -/
def Blk (K : Nat) (out : Array SoftF32) : Prop := out.size % 64 = 0 ∧ StoredBnd K out

theorem ColBnd.mono {K K' : Nat} {col : Array SoftF32} (h : ColBnd K col) (hK : K ≤ K') : ColBnd K' col :=
  ⟨h.1, fun e he => (h.2 e he).imp id (fun x => x.mono hK)⟩

theorem colBnd_blk {K : Nat} {col : Array SoftF32} (h : ColBnd K col) : Blk K col := by
  refine ⟨by rw [h.1], fun i => ?_⟩
  by_cases hi : i < 64
  · have := h.2 i hi
    rw [Nat.mod_eq_of_lt hi]
    exact this
  · right
    rw [getD_oob _ _ (by rw [h.1]; omega)]
    exact absLe_zero _

theorem blk_append {K : Nat} {out col : Array SoftF32} (ho : Blk K out) (hc : ColBnd K col) : Blk K (out ++ col) := by
  refine ⟨by rw [Array.size_append, hc.1]; have := ho.1; omega, fun i => ?_⟩
  rw [getD_append]
  by_cases hi : i < out.size
  · rw [if_pos hi]; exact ho.2 i
  · rw [if_neg hi]
    have h1 := ho.1
    have e : i % 64 = (i - out.size) % 64 := by omega
    rw [e]
    exact (colBnd_blk hc).2 _

theorem colOf?_bnd {N : Nat} {p col : Array SoftF32} (hp : StoredBnd N p) (c : Nat) (h : colOf? p c = some col) :
    ColBnd N col := by
  unfold colOf? at h
  split at h
  · rename_i hsz
    simp only [Option.some.injEq] at h
    subst h
    refine ⟨by simp; omega, fun e he => ?_⟩
    have : (p.extract (64 * c) (64 * c + 64)).getD e Score.zero = p.getD (64 * c + e) Score.zero := by
      rw [Array.getD_eq_getD_getElem?, Array.getD_eq_getD_getElem?, Array.getElem?_extract, if_pos (by omega)]
    rw [this]
    have := hp (64 * c + e)
    have e1 : (64 * c + e) % 64 = e := by omega
    rw [e1] at this
    exact this
  · cases h

theorem addCols_getD' (x y : Array SoftF32) (e : Nat) (he : e < 64) :
    (addCols x y).getD e Score.zero = SoftF32.add (x.getD e Score.zero) (y.getD e Score.zero) := by
  unfold addCols
  simp [Array.getD_eq_getD_getElem?, he]
  rfl

theorem addCols_bnd {A B c t : Nat} {x y : Array SoftF32} (hx : ColBnd A x) (hy : ColBnd B y)
    (hAB : A + B = c * 2 ^ t) (hc : c < 16777216) (ht : t ≤ 104) : ColBnd (A + B) (addCols x y) := by
  refine ⟨size_addCols x y, fun e he => ?_⟩
  rcases hx.2 e he with h1 | h1
  · exact Or.inl h1
  rcases hy.2 e he with h2 | h2
  · exact Or.inl h2
  right
  rw [addCols_getD' x y e he]
  exact add_absLe h1 h2 hAB hc ht

theorem subRange_fold_spec (gp : SoftF32) : ∀ (n s : Nat) (col : Array SoftF32),
    ((List.range' s n).foldl (fun col j => col.set! j (Score.sub (col.getD j Score.zero) gp)) col).size = col.size ∧
    ∀ e, ((List.range' s n).foldl (fun col j => col.set! j (Score.sub (col.getD j Score.zero) gp)) col).getD e Score.zero =
      if s ≤ e ∧ e < s + n ∧ e < col.size then Score.sub (col.getD e Score.zero) gp else col.getD e Score.zero := by
  intro n
  induction n with
  | zero =>
    intro s col
    refine ⟨rfl, fun e => ?_⟩
    rw [if_neg (by omega)]; rfl
  | succ n ih =>
    intro s col
    rw [List.range'_succ, List.foldl_cons]
    obtain ⟨h1, h2⟩ := ih (s + 1) (col.set! s (Score.sub (col.getD s Score.zero) gp))
    refine ⟨by rw [h1]; simp, fun e => ?_⟩
    rw [h2, getD_set!]
    simp only [size_set!']
    by_cases hes : s = e
    · subst hes
      rw [if_neg (by omega)]
      by_cases hs : s < col.size
      · rw [if_pos ⟨rfl, hs⟩, if_pos ⟨by omega, by omega, hs⟩]
      · rw [if_neg (fun h => hs h.2), if_neg (fun h => hs h.2.2)]
    · have hin : ¬ (s = e ∧ s < col.size) := fun h => hes h.1
      by_cases hc : s + 1 ≤ e ∧ e < s + 1 + n ∧ e < col.size
      · rw [if_pos hc, if_neg hin, if_pos ⟨by omega, by omega, hc.2.2⟩]
      · rw [if_neg hc, if_neg hin, if_neg (by omega)]

theorem gap_bnd {B S c t : Nat} {col : Array SoftF32} {s gp : SoftF32} (hcol : ColBnd B col) (hs : absLe s S)
    (hgp : absLe gp S) (hBS : B + S = c * 2 ^ t) (hc : c < 16777216) (ht : t ≤ 104) (k : Nat) (hk : k < 32) :
    ColBnd (B + S) (subRange (bumpAt col k s) gp) := by
  obtain ⟨h1, h2⟩ := subRange_fold_spec gp 23 32 (bumpAt col k s)
  have hb : (bumpAt col k s).size = 64 := by rw [size_bumpAt, hcol.1]
  refine ⟨by unfold subRange; rw [h1, hb], fun e he => ?_⟩
  by_cases hg : e = 27 ∨ e = 28 ∨ e = 29
  · exact Or.inl hg
  right
  have hce : absLe (col.getD e Score.zero) B := (hcol.2 e he).resolve_left hg
  unfold subRange
  rw [h2 e, hb]
  have hbe : (bumpAt col k s).getD e Score.zero =
      if k = e ∧ k < col.size then SoftF32.add (col.getD k Score.zero) s else col.getD e Score.zero := by
    unfold bumpAt
    rw [getD_set!]; rfl
  rw [hbe]
  by_cases hr : 32 ≤ e ∧ e < 32 + 23 ∧ e < 64
  · rw [if_pos hr, if_neg (by omega)]
    exact sub_absLe hce hgp hBS hc ht
  · rw [if_neg hr]
    by_cases hke : k = e ∧ k < col.size
    · rw [if_pos hke]
      obtain ⟨rfl, _⟩ := hke
      exact add_absLe hce hs hBS hc ht
    · rw [if_neg hke]
      exact hce.mono (by omega)

theorem gapCol_1 (ap : AlnParam SoftF32) (col : Array SoftF32) (sip : Nat) :
    gapCol ap col 1 sip = subRange (bumpAt col 24 (SoftF32.ofNat sip)) (SoftF32.mul ap.gpe (SoftF32.ofNat sip)) := rfl
theorem gapCol_2 (ap : AlnParam SoftF32) (col : Array SoftF32) (sip : Nat) :
    gapCol ap col 2 sip = subRange (bumpAt col 24 (SoftF32.ofNat sip)) (SoftF32.mul ap.gpe (SoftF32.ofNat sip)) := rfl
theorem gapCol_33 (ap : AlnParam SoftF32) (col : Array SoftF32) (sip : Nat) :
    gapCol ap col 33 sip = subRange (bumpAt col 25 (SoftF32.ofNat sip)) (SoftF32.mul ap.tgpe (SoftF32.ofNat sip)) := rfl
theorem gapCol_34 (ap : AlnParam SoftF32) (col : Array SoftF32) (sip : Nat) :
    gapCol ap col 34 sip = subRange (bumpAt col 25 (SoftF32.ofNat sip)) (SoftF32.mul ap.tgpe (SoftF32.ofNat sip)) := rfl

theorem two_pow_20 : (2 : Nat) ^ 20 = 1048576 := by decide

/-- a gap column: `4·k·2²⁰` grows by at most `sip·2²⁰` -/
theorem gapCol_bnd (ap : AlnParam SoftF32) (hap : ApBnd ap) {k sip : Nat} {col : Array SoftF32}
    (hcol : ColBnd (4 * k * 1048576) col) (hks : 4 * k + sip < 16777216) (code : Nat)
    (hcode : code = 1 ∨ code = 2 ∨ code = 33 ∨ code = 34) :
    ColBnd (4 * k * 1048576 + sip * 1048576) (gapCol ap col code sip) := by
  have hs : absLe (SoftF32.ofNat sip) (sip * 1048576) := (ofNat_absLe (by omega)).mono (by omega)
  have hm : ∀ {pen : SoftF32}, absLe pen 1048576 → absLe (SoftF32.mul pen (SoftF32.ofNat sip)) (sip * 1048576) := by
    intro pen hpen
    have := mul_absLe (c := sip) (t := 20) hpen (ofNat_absLe (n := sip) (by omega))
      (by rw [two_pow_20, Nat.mul_comm]; exact Nat.le_refl _) (by omega) (by decide)
    rwa [two_pow_20] at this
  have hBS : 4 * k * 1048576 + sip * 1048576 = (4 * k + sip) * 2 ^ 20 := by rw [two_pow_20]; omega
  rcases hcode with h | h | h | h <;> subst h
  · rw [gapCol_1]; exact gap_bnd hcol hs (hm hap.gpe) hBS hks (by decide) 24 (by decide)
  · rw [gapCol_2]; exact gap_bnd hcol hs (hm hap.gpe) hBS hks (by decide) 24 (by decide)
  · rw [gapCol_33]; exact gap_bnd hcol hs (hm hap.tgpe) hBS hks (by decide) 25 (by decide)
  · rw [gapCol_34]; exact gap_bnd hcol hs (hm hap.tgpe) hBS hks (by decide) 25 (by decide)

theorem addCols_bnd4 {ka kb : Nat} {x y : Array SoftF32} (hk : 4 * (ka + kb) < 16777216)
    (hx : ColBnd (4 * ka * 1048576) x) (hy : ColBnd (4 * kb * 1048576) y) :
    ColBnd (4 * (ka + kb) * 1048576) (addCols x y) := by
  have := addCols_bnd (c := 4 * (ka + kb)) (t := 20) hx hy (by rw [two_pow_20]; omega) hk (by decide)
  exact this.mono (by omega)

theorem updateStep_blk (ap : AlnParam SoftF32) (hap : ApBnd ap) (pa pb : Array SoftF32) (ka kb : Nat)
    (hk : 4 * (ka + kb) < 16777216) (hpa : StoredBnd (4 * ka * 1048576) pa) (hpb : StoredBnd (4 * kb * 1048576) pb)
    (st st' : UpdState SoftF32) (code : Nat) (hc : CodeOK code) (hst : Blk (4 * (ka + kb) * 1048576) st.out)
    (h : updateStep ap pa pb ka kb st code = some st') : Blk (4 * (ka + kb) * 1048576) st'.out := by
  rcases hc with hc | hc | hc | hc | hc <;> subst hc
  · simp [updateStep, bit, Option.bind_eq_some_iff] at h
    obtain ⟨ca, hca, cb, hcb, rfl⟩ := h
    exact blk_append hst (addCols_bnd4 hk (colOf?_bnd hpa _ hca) (colOf?_bnd hpb _ hcb))
  · simp [updateStep, bit, Option.bind_eq_some_iff] at h
    obtain ⟨cb, hcb, rfl⟩ := h
    exact blk_append hst ((gapCol_bnd ap hap (colOf?_bnd hpb _ hcb) (by omega) 1 (by omega)).mono (by omega))
  · simp [updateStep, bit, Option.bind_eq_some_iff] at h
    obtain ⟨ca, hca, rfl⟩ := h
    exact blk_append hst ((gapCol_bnd ap hap (colOf?_bnd hpa _ hca) (by omega) 2 (by omega)).mono (by omega))
  · simp [updateStep, bit, Option.bind_eq_some_iff] at h
    obtain ⟨cb, hcb, rfl⟩ := h
    exact blk_append hst ((gapCol_bnd ap hap (colOf?_bnd hpb _ hcb) (by omega) 33 (by omega)).mono (by omega))
  · simp [updateStep, bit, Option.bind_eq_some_iff] at h
    obtain ⟨ca, hca, rfl⟩ := h
    exact blk_append hst ((gapCol_bnd ap hap (colOf?_bnd hpa _ hca) (by omega) 34 (by omega)).mono (by omega))

theorem update_fold_blk (ap : AlnParam SoftF32) (hap : ApBnd ap) (pa pb : Array SoftF32) (ka kb : Nat)
    (hk : 4 * (ka + kb) < 16777216) (hpa : StoredBnd (4 * ka * 1048576) pa) (hpb : StoredBnd (4 * kb * 1048576) pb)
    (codes : List Nat) (hcodes : ∀ c ∈ codes, CodeOK c) (st st' : UpdState SoftF32)
    (hst : Blk (4 * (ka + kb) * 1048576) st.out)
    (h : codes.foldlM (updateStep ap pa pb ka kb) st = some st') : Blk (4 * (ka + kb) * 1048576) st'.out := by
  induction codes generalizing st with
  | nil =>
    simp only [List.foldlM_nil] at h
    cases h
    exact hst
  | cons c cs ih =>
    rw [List.foldlM_cons] at h
    cases h1 : updateStep ap pa pb ka kb st c with
    | none => rw [h1] at h; cases h
    | some st1 =>
      rw [h1] at h
      exact ih (fun x hx => hcodes x (List.mem_cons_of_mem _ hx)) st1
        (updateStep_blk ap hap pa pb ka kb hk hpa hpb st st1 c (hcodes c List.mem_cons_self) hst h1) h

/-- `update_n`: whole columns, bounded outside the slots 27..29 -/
theorem updateN_blk (ap : AlnParam SoftF32) (hap : ApBnd ap) (pa pb : Array SoftF32) (codes : List Nat)
    (hcodes : ∀ c ∈ codes, CodeOK c) (ka kb : Nat) (hk : 4 * (ka + kb) < 16777216)
    (hpa : StoredBnd (4 * ka * 1048576) pa) (hpb : StoredBnd (4 * kb * 1048576) pb) (newp : Array SoftF32)
    (h : updateN ap pa pb codes ka kb = some newp) : Blk (4 * (ka + kb) * 1048576) newp := by
  unfold updateN at h
  rw [takeWhile_ne3 codes hcodes] at h
  simp only [Option.bind_eq_bind, Option.bind_eq_some_iff, Option.pure_def, Option.some.injEq] at h
  obtain ⟨c0a, h0a, c0b, h0b, st, hst, ca, hca, cb, hcb, rfl⟩ := h
  have h0 : Blk (4 * (ka + kb) * 1048576) (addCols c0a c0b) :=
    colBnd_blk (addCols_bnd4 hk (colOf?_bnd hpa _ h0a) (colOf?_bnd hpb _ h0b))
  have h1 := update_fold_blk ap hap pa pb ka kb hk hpa hpb codes hcodes _ st h0 hst
  exact blk_append h1 (addCols_bnd4 hk (colOf?_bnd hpa _ hca) (colOf?_bnd hpb _ hcb))

end ProfBnd
open ProfBnd

set_option linter.unusedVariables false in
/-- **`update_n`**: the merged profile is bounded by `4·(ka+kb)·2²⁰` outside the slots 27..29 -/
theorem updateN_stored (ap : AlnParam SoftF32) (hap : ApBnd ap) (pa pb : Array SoftF32) (codes : List Nat)
    (hcodes : ∀ c ∈ codes, CodeOK c) (ka kb : Nat) (hk : 4 * (ka + kb) < 16777216) (hka : 1 ≤ ka) (hkb : 1 ≤ kb)
    (hpa : StoredBnd (4 * ka * 1048576) pa) (hpb : StoredBnd (4 * kb * 1048576) pb) (newp : Array SoftF32)
    (h : updateN ap pa pb codes ka kb = some newp) : StoredBnd (4 * (ka + kb) * 1048576) newp :=
  (updateN_blk ap hap pa pb codes hcodes ka kb hk hpa hpb newp h).2

/-! ## the stored profiles of the progressive alignment -/

section
variable {β : Type} [Score β]
theorem doAlign_prof (entry : Entry) (ap : AlnParam β) (st st' : AlnState β) (out : AlignOut β) (a b c : Nat)
    (hcp : c < st.profile.size) (h : doAlign entry ap st a b c false = some (st', out)) :
    ∃ lenA pa lenB pb codes p, prepOperand ap st a b = some (lenA, pa) ∧ prepOperand ap st b a = some (lenB, pb) ∧
      (∀ x ∈ codes, CodeOK x) ∧ updateN ap pa pb codes (st.nsip.getD a 0) (st.nsip.getD b 0) = some p ∧
      st'.profile.getD c none = some p := by
  by_cases hidx : a = b ∨ a ≥ st.nsip.size ∨ b ≥ st.nsip.size ∨ c ≥ st.nsip.size
  · exfalso; unfold doAlign at h; rw [if_pos hidx] at h; cases h
  cases hA : prepOperand ap st a b with
  | none => exfalso; unfold doAlign at h; rw [if_neg hidx, hA] at h; cases h
  | some x =>
    obtain ⟨lenA, pa⟩ := x
    cases hB : prepOperand ap st b a with
    | none => exfalso; unfold doAlign at h; rw [if_neg hidx, hA, hB] at h; cases h
    | some y =>
      obtain ⟨lenB, pb⟩ := y
      by_cases hlen : lenA = 0 ∨ lenB = 0
      · exfalso; unfold doAlign at h; rw [if_neg hidx, hA, hB] at h
        change (if lenA = 0 ∨ lenB = 0 then _ else _) = _ at h
        rw [if_pos hlen] at h; cases h
      · rw [doAlign_eq entry ap st a b c false lenA lenB pa pb hidx hlen hA hB] at h
        generalize orient (st.nsip.getD a 0) (st.nsip.getD b 0) lenA lenB (st.seqs.getD a #[]) (st.seqs.getD b #[]) pa pb = os at h
        obtain ⟨ops, swapped⟩ := os
        simp [dpTail, Option.bind_eq_some_iff] at h
        obtain ⟨_, codes, hcodes, newp, ⟨p, hup, rfl⟩, rfl, _⟩ := h
        refine ⟨lenA, pa, lenB, pb, codes, p, rfl, rfl, expandPath_codes _ _ _ hcodes, ?_, ?_⟩
        · simpa [Array.getD_eq_getD_getElem?] using hup
        · simp [Array.getD_eq_getD_getElem?, hcp]
end

theorem StoredBnd.mono {N N' : Nat} {p : Array SoftF32} (h : StoredBnd N p) (hN : N ≤ N') : StoredBnd N' p :=
  fun i => (h i).imp id (fun x => x.mono hN)

namespace Pipeline
open Kalign.ProfBnd

section
variable {α : Type} [Score α]

theorem prepOperand_left_eq (ap : AlnParam α) (A B : NodeC α) (l : Nat) (p : Array α)
    (h : prepOperand ap (mergeStateC A B) 0 1 = some (l, p)) : p = nodeProfC ap A B.nsip := by
  unfold prepOperand mergeStateC at h
  unfold nodeProfC
  by_cases hA : A.nsip = 1
  · simp [hA] at h
    rw [if_pos hA]
    exact h.2.2.symm
  · simp [hA] at h
    rw [if_neg hA]
    split at h
    · rename_i q hq
      simp at h
      rw [hq]
      exact h.2.2.symm
    · cases h

theorem prepOperand_right_eq (ap : AlnParam α) (A B : NodeC α) (l : Nat) (p : Array α)
    (h : prepOperand ap (mergeStateC A B) 1 0 = some (l, p)) : p = nodeProfC ap B A.nsip := by
  unfold prepOperand mergeStateC at h
  unfold nodeProfC
  by_cases hB : B.nsip = 1
  · simp [hB] at h
    rw [if_pos hB]
    exact h.2.2.symm
  · simp [hB] at h
    rw [if_neg hB]
    split at h
    · rename_i q hq
      simp at h
      rw [hq]
      exact h.2.2.symm
    · cases h

/-- the profile of a merged node is `update_n` of the two prepared operand profiles along `CodeOK` codes -/
theorem mergeNodesC_prof (ap : AlnParam α) (A B N : NodeC α) (h : mergeNodesC .parallel ap A B false = .ok N) :
    N.nsip = A.nsip + B.nsip ∧ ∃ codes p, (∀ x ∈ codes, CodeOK x) ∧
      updateN ap (nodeProfC ap A B.nsip) (nodeProfC ap B A.nsip) codes A.nsip B.nsip = some p ∧ N.prof = some p := by
  unfold mergeNodesC at h
  simp only at h
  split at h
  · cases h
  · rename_i st' out hd
    split at h
    · cases h
    · split at h
      · cases h
      · simp only [Except.ok.injEq] at h
        subst h
        refine ⟨rfl, ?_⟩
        obtain ⟨lenA, pa, lenB, pb, codes, p, hA, hB, hck, hup, hp⟩ :=
          doAlign_prof .parallel ap (mergeStateC A B) st' out 0 1 2 (by simp [mergeStateC]) hd
        rw [prepOperand_left_eq ap A B lenA pa hA, prepOperand_right_eq ap A B lenB pb hB] at hup
        exact ⟨codes, p, hck, by simpa [mergeStateC] using hup, hp⟩

theorem reachC_nsip_pos' (ap : AlnParam α) (codes : Array (List Nat)) (N : NodeC α) (h : ReachC ap codes N) :
    1 ≤ N.nsip := by
  induction h with
  | leaf i hi => simp [leafNodeC]
  | merge A B N _ _ hm ihA _ => rw [(mergeNodesC_prof ap A B N hm).1]; omega

end

/-- the stored profile of an internal node with `nsip` members is bounded by `4·nsip·2²⁰` -/
def ProfInvC (N : NodeC SoftF32) : Prop := N.nsip ≠ 1 → ∃ p, N.prof = some p ∧ StoredBnd (4 * N.nsip * 1048576) p

/-- `ProfInvC` plus: the stored profile consists of whole columns -/
def ProfInvS (N : NodeC SoftF32) : Prop := N.nsip ≠ 1 → ∃ p, N.prof = some p ∧ Blk (4 * N.nsip * 1048576) p

theorem nodeProfC_stored (ap : AlnParam SoftF32) (hap : ApBnd ap) (N : NodeC SoftF32) (hN : ProfInvS N)
    (other : Nat) : StoredBnd (4 * N.nsip * 1048576) (nodeProfC ap N other) := by
  unfold nodeProfC
  by_cases h1 : N.nsip = 1
  · rw [if_pos h1]
    have h : StoredBnd 1048576 (makeProfile ap N.seq) := fun i => by
      have := makeProfile_entBnd ap hap N.seq i
      rw [ite_self] at this
      exact Or.inr this
    exact h.mono (by omega)
  · rw [if_neg h1]
    obtain ⟨p, hp, hb⟩ := hN h1
    rw [hp]
    exact setGapPenalties_stored hb.2 other

theorem reachC_profInvS (ap : AlnParam SoftF32) (hap : ApBnd ap) (codes : Array (List Nat)) (N : NodeC SoftF32)
    (h : ReachC ap codes N) : 4 * N.nsip < 16777216 → ProfInvS N := by
  induction h with
  | leaf i hi => intro _ hne; exact absurd rfl hne
  | merge A B N rA rB hm ihA ihB =>
    intro hn hne
    obtain ⟨hns, cs, p, hck, hup, hp⟩ := mergeNodesC_prof ap A B N hm
    rw [hns] at hn ⊢
    refine ⟨p, hp, ?_⟩
    exact updateN_blk ap hap _ _ cs hck A.nsip B.nsip hn
      (nodeProfC_stored ap hap A (ihA (by omega)) B.nsip) (nodeProfC_stored ap hap B (ihB (by omega)) A.nsip) p hup

theorem reachC_profInv (ap : AlnParam SoftF32) (hap : ApBnd ap) (codes : Array (List Nat)) (N : NodeC SoftF32)
    (h : ReachC ap codes N) (hn : 4 * N.nsip < 16777216) : ProfInvC N := by
  intro hne
  obtain ⟨p, hp, hb⟩ := reachC_profInvS ap hap codes N h hn hne
  exact ⟨p, hp, hb.2⟩

/-- the prepared operand profile of a reachable node -/
theorem nodeProfC_entBnd (ap : AlnParam SoftF32) (hap : ApBnd ap) (codes : Array (List Nat)) (N : NodeC SoftF32)
    (h : ReachC ap codes N) (hN : N.nsip ≠ 1) (other : Nat) (hn : 4 * N.nsip < 16777216) (ho : other < 16777216)
    (c t : Nat) (hc : c < 16777216) (ht : t ≤ 104) (hb : 4 * N.nsip * 1048576 * other ≤ c * 2 ^ t) :
    EntBnd (4 * N.nsip * 1048576) (c * 2 ^ t) (nodeProfC ap N other) := by
  obtain ⟨p, hp, hblk⟩ := reachC_profInvS ap hap codes N h hn hN
  unfold nodeProfC
  rw [if_neg hN, hp]
  exact setGapPenalties_entBnd hblk.2 hblk.1 ho hb hc ht

end Pipeline

/-! ## non-vacuity -/

/-- a parameter set satisfying `ApBnd` -/
example : ApBnd ⟨#[], SoftF32.ofNat 5, SoftF32.ofNat 2, SoftF32.ofNat 1⟩ :=
  ⟨(ofNat_absLe (by decide)).mono (by decide), (ofNat_absLe (by decide)).mono (by decide),
    (ofNat_absLe (by decide)).mono (by decide), fun i j => by
      have : (⟨#[], SoftF32.ofNat 5, SoftF32.ofNat 2, SoftF32.ofNat 1⟩ : AlnParam SoftF32).sub i j = Score.zero := by
        simp [AlnParam.sub]
      rw [this]; exact ProfBnd.absLe_zero _⟩

/-- the hypotheses of `setGapPenalties_entBnd` on a concrete stored profile: a leaf profile (3 columns, `N = 4·1·2²⁰`), partner
with `n = 3` sequences, `c·2^t = 12·2²⁰` -/
example (ap : AlnParam SoftF32) (hap : ApBnd ap) :
    EntBnd (4 * 1 * 1048576) (12 * 2 ^ 20) (setGapPenalties (makeProfile ap #[7]) 3) :=
  setGapPenalties_entBnd (N := 4 * 1 * 1048576) (n := 3) (c := 12) (t := 20)
    (fun i => Or.inr (by have := makeProfile_entBnd ap hap #[7] i; rw [ite_self] at this; exact this.mono (by decide)))
    (by rw [size_makeProfile]; decide) (by decide) (by decide) (by decide) (by decide)

/-- the numeric hypotheses of `updateN_stored` / `Pipeline.nodeProfC_entBnd` for 1000 + 2000 sequences -/
example : 4 * (1000 + 2000) < 16777216 ∧ 4 * 1000 * 1048576 * 2000 ≤ 8000000 * 2 ^ 20 ∧ 8000000 < 16777216 := by decide

end Kalign
