import KalignModel.Model.Bpm
/-! Levenshtein distance: equations, the recurrence at the right end, substrings -/
namespace Kalign
variable {α : Type} [DecidableEq α]

def cost (x y : α) : Nat := if x = y then 0 else 1

theorem lev_nil_left (b : List α) : lev [] b = b.length := by
  simp [lev]

theorem lev_nil_right (a : List α) : lev a [] = a.length := by
  cases a <;> simp [lev]

theorem lev_cons_cons (x : α) (a : List α) (y : α) (b : List α) :
    lev (x :: a) (y :: b) = min (min (lev a (y :: b) + 1) (lev (x :: a) b + 1)) (lev a b + cost x y) := by
  rw [lev]; rfl

theorem min9 (A B C D E F G H I c c' : Nat) :
    min (min (min (min (A + 1) (B + 1)) (C + c) + 1) (min (min (D + 1) (E + 1)) (F + c) + 1))
        (min (min (G + 1) (H + 1)) (I + c) + c') =
      min (min (min (min (A + 1) (D + 1)) (G + c') + 1) (min (min (B + 1) (E + 1)) (H + c') + 1))
        (min (min (C + 1) (F + 1)) (I + c') + c) := by
  simp only [← Nat.add_min_add_right]
  simp only [Nat.add_assoc, Nat.add_comm c' c, Nat.add_comm 1 c, Nat.add_comm 1 c']
  ac_rfl

theorem lev_snoc_snoc (a b : List α) (x y : α) :
    lev (a ++ [x]) (b ++ [y]) = min (min (lev a (b ++ [y]) + 1) (lev (a ++ [x]) b + 1)) (lev a b + cost x y) := by
  induction a generalizing b with
  | nil =>
    induction b with
    | nil => simp [lev_cons_cons, lev_nil_left, lev_nil_right]
    | cons y' b' ihb =>
      simp only [List.nil_append, List.cons_append] at ihb ⊢
      rw [lev_cons_cons, ihb, lev_cons_cons x [] y' b']
      simp only [lev_nil_left, List.length_cons, List.length_append, List.length_nil]
      omega
  | cons x' a' iha =>
    induction b with
    | nil =>
      have h1 := iha []
      simp only [List.nil_append, List.cons_append] at h1 ⊢
      rw [lev_cons_cons, h1, lev_cons_cons x' a' y []]
      simp only [lev_nil_right, List.length_cons, List.length_append, List.length_nil]
      omega
    | cons y' b' ihb =>
      have h1 := iha (y' :: b')
      have h3 := iha b'
      simp only [List.cons_append] at h1 h3 ihb ⊢
      rw [lev_cons_cons, h1, ihb, h3, lev_cons_cons x' a' y' (b' ++ [y]), lev_cons_cons x' (a' ++ [x]) y' b',
        lev_cons_cons x' a' y' b']
      exact min9 _ _ _ _ _ _ _ _ _ _ _

/-! symmetry and length bounds of the specification distance -/
theorem cost_comm (x y : α) : cost x y = cost y x := by
  unfold cost; by_cases h : x = y
  · simp [h]
  · have : ¬ y = x := fun e => h e.symm
    simp [h, this]
theorem lev_symm (a b : List α) : lev a b = lev b a := by
  fun_induction lev a b with
  | case1 b => cases b <;> simp [lev_nil_right]
  | case2 x a => simp [lev_nil_left]
  | case3 x a y b ih1 ih2 ih3 =>
    have h := lev_cons_cons y b x a
    rw [h, ← ih1, ← ih2, ← ih3, cost_comm y x]
    show min (min (lev a (y :: b) + 1) (lev (x :: a) b + 1)) (lev a b + cost x y) = _
    omega
theorem lev_bounds (a b : List α) :
    a.length - b.length ≤ lev a b ∧ b.length - a.length ≤ lev a b ∧ lev a b ≤ max a.length b.length := by
  fun_induction lev a b with
  | case1 b => simp
  | case2 x a => simp
  | case3 x a y b ih1 ih2 ih3 =>
    simp only [List.length_cons] at *
    split <;> omega
