import KalignModel.Lemmas.SoftClassU
import KalignModel.Lemmas.SoftKernel
/-!
# The DP kernel tables on the software binary32, unit `2^u` and cost `C` per cell formula as parameters

The generic part of `SoftKernel.lean` (`StCls`, `OpsRel`, `GaRel`, `genTab_cls`: unit 2²⁰, cost 1) with the unit exponent `u`
and the per-formula cost `C` as parameters (the profile kernels need a larger unit and a larger cost).
`genTab_clsU`: cell `(p,k)` of the `SoftF32` table is sentinel-like where the exact cell is `−∞`, and finite with magnitude
`≤ (B₀ + C·(p+k))·2^u` where it is finite.
-/
namespace Kalign
open SoftF32

/-- the two carriers' classes of one DP state -/
def StClsU (u B : Nat) (s : States SoftF32) (e : States ExactScore) : Prop :=
  ClsU u B s.a e.a.isSome ∧ ClsU u B s.ga e.ga.isSome ∧ ClsU u B s.gb e.gb.isSome

theorem StClsU.mono {u B B' : Nat} {s : States SoftF32} {e : States ExactScore} (h : StClsU u B s e) (hB : B ≤ B') :
    StClsU u B' s e := ⟨h.1.mono hB, h.2.1.mono hB, h.2.2.mono hB⟩

theorem stClsU_negInf (u B : Nat) : StClsU u B (States.negInf : States SoftF32) (States.negInf : States ExactScore) :=
  ⟨clsU_negInf u B, clsU_negInf u B, clsU_negInf u B⟩

/-- class in ⟹ class out; every cell formula costs at most `C` units, the aligned cell at most `2·C` -/
structure OpsRelU (u C : Nat) (oS : RowOps SoftF32) (oE : RowOps ExactScore) : Prop where
  gbFirst : ∀ (B : Nat) (x y : SoftF32) (ex ey : ExactScore), B + 2 * C < 16777216 → ClsU u B x ex.isSome →
    ClsU u B y ey.isSome → ClsU u (B + C) (oS.gbFirst x y) (oE.gbFirst ex ey).isSome
  aCell : ∀ (k B : Nat) (x y z : SoftF32) (ex ey ez : ExactScore), B + 2 * C < 16777216 → ClsU u B x ex.isSome →
    ClsU u B y ey.isSome → ClsU u B z ez.isSome → ClsU u (B + 2 * C) (oS.aCell k x y z) (oE.aCell k ex ey ez).isSome
  gaCell : ∀ (k B : Nat) (x y : SoftF32) (ex ey : ExactScore), B + 2 * C < 16777216 → ClsU u B x ex.isSome →
    ClsU u B y ey.isSome → ClsU u (B + C) (oS.gaCell k x y) (oE.gaCell k ex ey).isSome
  gbMid : ∀ (B : Nat) (x y : SoftF32) (ex ey : ExactScore), B + 2 * C < 16777216 → ClsU u B x ex.isSome →
    ClsU u B y ey.isSome → ClsU u (B + C) (oS.gbMid x y) (oE.gbMid ex ey).isSome
  gbLast : ∀ (B : Nat) (x y : SoftF32) (ex ey : ExactScore), B + 2 * C < 16777216 → ClsU u B x ex.isSome →
    ClsU u B y ey.isSome → ClsU u (B + C) (oS.gbLast x y) (oE.gbLast ex ey).isSome

def GaRelU (u C : Nat) (gS : Nat → SoftF32 → SoftF32 → SoftF32) (gE : Nat → ExactScore → ExactScore → ExactScore) : Prop :=
  ∀ (k B : Nat) (x y : SoftF32) (ex ey : ExactScore), B + 2 * C < 16777216 → ClsU u B x ex.isSome → ClsU u B y ey.isSome →
    ClsU u (B + C) (gS k x y) (gE k ex ey).isSome

/-! ## the tables -/

/-- the nonlinear step supplied to `omega` -/
private theorem mul_step (C a b : Nat) (h : a = b + 1) : C * a = C * b + C := by
  subst h; exact Nat.mul_succ C b

theorem genRow0_clsU (u C : Nat) (gS : Nat → SoftF32 → SoftF32 → SoftF32)
    (gE : Nat → ExactScore → ExactScore → ExactScore)
    (hg : GaRelU u C gS gE) (n : Nat) (sS : States SoftF32) (sE : States ExactScore) (B0 L : Nat)
    (hL : B0 + C * L + 2 * C < 16777216) (hs : StClsU u B0 sS sE) :
    ∀ k, k ≤ L → StClsU u (B0 + C * k) (genRow0 gS n sS k) (genRow0 gE n sE k) := by
  intro k
  induction k with
  | zero => intro _; simpa [genRow0] using hs
  | succ k ih =>
    intro hk
    have ih' := ih (by omega)
    have e1 : C * (k + 1) = C * k + C := Nat.mul_succ C k
    have e2 : C * k ≤ C * L := Nat.mul_le_mul_left C (by omega)
    simp only [genRow0]
    by_cases hkn : k + 1 < n
    · rw [if_pos hkn, if_pos hkn]
      refine ⟨clsU_negInf _ _, ?_, clsU_negInf _ _⟩
      exact (hg (k + 1) (B0 + C * k) _ _ _ _ (by omega) ih'.2.1 ih'.1).mono (by omega)
    · rw [if_neg hkn, if_neg hkn]
      exact stClsU_negInf _ _

theorem genRow_clsU (u C : Nat) (oS : RowOps SoftF32) (oE : RowOps ExactScore) (ho : OpsRelU u C oS oE) (n : Nat)
    (pS : Nat → States SoftF32) (pE : Nat → States ExactScore) (B0 L p : Nat) (hL : B0 + C * L + 2 * C < 16777216)
    (hp : ∀ k, p + k ≤ L → StClsU u (B0 + C * (p + k)) (pS k) (pE k)) :
    ∀ k, p + 1 + k ≤ L → StClsU u (B0 + C * (p + 1 + k)) (genRow oS n pS k) (genRow oE n pE k) := by
  intro k
  induction k with
  | zero =>
    intro hk
    have h0 := hp 0 (by omega)
    have e1 : C * (p + 1 + 0) = C * (p + 0) + C := mul_step C _ _ (by omega)
    have e2 : C * (p + 1 + 0) ≤ C * L := Nat.mul_le_mul_left C hk
    simp only [genRow]
    refine ⟨clsU_negInf _ _, clsU_negInf _ _, ?_⟩
    exact (ho.gbFirst (B0 + C * (p + 0)) _ _ _ _ (by omega) h0.2.2 h0.1).mono (by omega)
  | succ k ih =>
    intro hk
    have ih' := ih (by omega)
    have hk0 := hp k (by omega)
    have hk1 := hp (k + 1) (by omega)
    -- the nonlinear facts for `omega`
    have eL : C * (p + 1 + (k + 1)) ≤ C * L := Nat.mul_le_mul_left C hk
    have e1 : C * (p + 1 + (k + 1)) = C * (p + 1 + k) + C := mul_step C _ _ (by omega)
    have e2 : C * (p + 1 + k) = C * (p + k) + C := mul_step C _ _ (by omega)
    have e3 : C * (p + (k + 1)) = C * (p + k) + C := mul_step C _ _ (by omega)
    have hA := (ho.aCell (k + 1) (B0 + C * (p + k)) _ _ _ _ _ _ (by omega) hk0.1 hk0.2.1 hk0.2.2).mono
      (show B0 + C * (p + k) + 2 * C ≤ B0 + C * (p + 1 + (k + 1)) by omega)
    by_cases hkn : k + 1 < n
    · simp only [genRow, if_pos hkn]
      refine ⟨hA, ?_, ?_⟩
      · exact (ho.gaCell (k + 1) (B0 + C * (p + 1 + k)) _ _ _ _ (by omega) ih'.2.1 ih'.1).mono (by omega)
      · exact (ho.gbMid (B0 + C * (p + (k + 1))) _ _ _ _ (by omega) hk1.2.2 hk1.1).mono (by omega)
    · simp only [genRow, if_neg hkn]
      refine ⟨hA, clsU_negInf _ _, ?_⟩
      exact (ho.gbLast (B0 + C * (p + (k + 1))) _ _ _ _ (by omega) hk1.2.2 hk1.1).mono (by omega)

/-- **the finiteness pattern of a `SoftF32` kernel table is that of the corresponding exact table**, with explicit bounds -/
theorem genTab_clsU (u C : Nat) (gS : Nat → SoftF32 → SoftF32 → SoftF32) (gE : Nat → ExactScore → ExactScore → ExactScore)
    (hg : GaRelU u C gS gE) (n : Nat) (sS : States SoftF32) (sE : States ExactScore)
    (oS : Nat → RowOps SoftF32) (oE : Nat → RowOps ExactScore) (ho : ∀ p, OpsRelU u C (oS p) (oE p))
    (B0 L : Nat) (hL : B0 + C * L + 2 * C < 16777216) (hs : StClsU u B0 sS sE) :
    ∀ p k, p + k ≤ L → StClsU u (B0 + C * (p + k)) (genTab gS n sS oS p k) (genTab gE n sE oE p k) := by
  intro p
  induction p with
  | zero =>
    intro k hk
    simp only [genTab, Nat.zero_add]
    exact genRow0_clsU u C gS gE hg n sS sE B0 L hL hs k (by omega)
  | succ p ih =>
    intro k hk
    simp only [genTab]
    exact genRow_clsU u C (oS p) (oE p) (ho p) n _ _ B0 L p hL ih k hk

/-! ## non-vacuity: the fixed-unit relations are the instance `u = 20`, `C = 1` -/

theorem stClsU_20 (B : Nat) (s : States SoftF32) (e : States ExactScore) : StClsU 20 B s e ↔ StCls B s e := by
  simp only [StClsU, StCls, clsU_20]

theorem opsRelU_of_opsRel {oS : RowOps SoftF32} {oE : RowOps ExactScore} (h : OpsRel oS oE) : OpsRelU 20 1 oS oE := by
  refine ⟨?_, ?_, ?_, ?_, ?_⟩
  · intro B x y ex ey hB hx hy
    exact (clsU_20 _ _ _).2 (h.gbFirst B x y ex ey (by omega) ((clsU_20 _ _ _).1 hx) ((clsU_20 _ _ _).1 hy))
  · intro k B x y z ex ey ez hB hx hy hz
    exact (clsU_20 _ _ _).2
      (h.aCell k B x y z ex ey ez (by omega) ((clsU_20 _ _ _).1 hx) ((clsU_20 _ _ _).1 hy) ((clsU_20 _ _ _).1 hz))
  · intro k B x y ex ey hB hx hy
    exact (clsU_20 _ _ _).2 (h.gaCell k B x y ex ey (by omega) ((clsU_20 _ _ _).1 hx) ((clsU_20 _ _ _).1 hy))
  · intro B x y ex ey hB hx hy
    exact (clsU_20 _ _ _).2 (h.gbMid B x y ex ey (by omega) ((clsU_20 _ _ _).1 hx) ((clsU_20 _ _ _).1 hy))
  · intro B x y ex ey hB hx hy
    exact (clsU_20 _ _ _).2 (h.gbLast B x y ex ey (by omega) ((clsU_20 _ _ _).1 hx) ((clsU_20 _ _ _).1 hy))

theorem gaRelU_of_gaRel {gS : Nat → SoftF32 → SoftF32 → SoftF32} {gE : Nat → ExactScore → ExactScore → ExactScore}
    (h : GaRel gS gE) : GaRelU 20 1 gS gE := by
  intro k B x y ex ey hB hx hy
  exact (clsU_20 _ _ _).2 (h k B x y ex ey (by omega) ((clsU_20 _ _ _).1 hx) ((clsU_20 _ _ _).1 hy))

/-- the hypotheses of `genTab_clsU` are satisfiable: the sequence–sequence kernel with bounded parameters -/
example (ap : AlnParam SoftF32) (hap : ApBnd ap) (seq1 seq2 : Array Nat) (r : Rect) (c : KCfg) (term : Bool) (n : Nat) :
    ∀ p k, p + k ≤ 1000 → StClsU 20 (0 + 1 * (p + k))
      (genTab (ssGaInit ap term) n States.negInf (ssOpsF ap seq1 seq2 r) p k)
      (genTab (absGaInit c) n States.negInf (absOps c) p k) :=
  genTab_clsU 20 1 _ _ (gaRelU_of_gaRel (ssGaInit_rel ap hap term c)) n _ _ _ _
    (fun p => opsRelU_of_opsRel (ssOpsF_rel ap hap seq1 seq2 r c p)) 0 1000 (by decide) (stClsU_negInf 20 0)

end Kalign
