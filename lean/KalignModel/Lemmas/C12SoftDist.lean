import KalignModel.Lemmas.C12SoftLen
import KalignModel.Lemmas.C12SoftUpgma
import KalignModel.Lemmas.Dist
/-!
# Entries of the binary32 distance matrix: copies against copies, copies against the rest (C12, slice AA)

An entry of `distMatrixS` is `(float)rawdist + lenterm`, computed in `SoftF32`.

* `entry_same`: raw distance 0 (identical sequences) ⟹ the entry is at most `lenHi (min 10000 |S|)·2⁻²⁰` in magnitude.
* `entry_cross`: raw distance ≥ 1 ⟹ the entry is at least `(2²⁰ + lenLo m)·2⁻²⁰` with `m = min 10000 ((la + lb) / 2)`
  (`(float)d ≥ 1.0` by monotonicity of `roundNatU`; the sum of two lower bounds on the grid is a lower bound of the rounded sum).
* `distMatrixS_get`: the entry `upgmaS` reads at `(i, j)` is `distEntryS` of the sequences `max i j`, `min i j`.
* **`upgmaS_dist_clade`**: fewer than 100 sequences over 13 letters, `S` among them, non-containment on 1024-prefixes ⟹ `upgmaS` over
  `distMatrixS` returns a tree with a subtree whose leaves are exactly the labels of the copies of `S`.  No length restriction: in
  units of 2⁻²⁰ the copies are at mutual distance `≤ ⌊m·2²⁰/10000⌋ + 2` (`m = min 10000 |S|`), everything else is at distance
  `≥ 2²⁰ + ⌊m'·2²⁰/10000⌋ − 1` with `m' = min 10000 (|S|/2)`, and the difference is at least `524 000 > 99·1049`.
-/
set_option exponentiation.threshold 512
namespace Kalign
open SoftF32

/-! ## one entry -/

theorem ofNat_zero_AbsV : AbsV (SoftF32.ofNat 0) 0 := by unfold AbsV; decide

theorem pow149 : (1048576 : Nat) * 2 ^ 129 = 2 ^ 149 := by decide

/-- `(float)d ≥ 1.0` for `1 ≤ d < 2³²` -/
theorem one_le_ofNat {d : Nat} (h1 : 1 ≤ d) (h : d < 4294967296) :
    (SoftF32.ofNat d).isFinite = true ∧ ((2 ^ 149 : Nat) : Int) ≤ toInt (SoftF32.ofNat d) := by
  have hb := ofNat_absLe_u32 h
  refine ⟨hb.finite, ?_⟩
  have hle : roundNatU 1 149 ≤ roundNatU d 149 := by
    apply roundNatU_mono
    exact Nat.mul_le_mul_right _ h1
  have hv : magVal (roundNatU 1 149) = 1 * 2 ^ 149 := magVal_roundNatU_small (by decide)
  have hfin := hb.1
  have hmag : (SoftF32.ofNat d).mag = roundNat d 149 := by
    unfold SoftF32.ofNat
    exact mag_pack _ _ (by
      have : roundNat d 149 ≤ infMag := Nat.min_le_right _ _
      simp only [infMag] at this; omega)
  have hsign : (SoftF32.ofNat d).sign = false := by
    unfold SoftF32.ofNat
    exact sign_pack _ _ (by
      have : roundNat d 149 ≤ infMag := Nat.min_le_right _ _
      simp only [infMag] at this; omega)
  rw [toInt_of_pos hsign, hmag]
  have hmin : roundNat d 149 = roundNatU d 149 := by
    rw [hmag] at hfin
    unfold roundNat at hfin ⊢
    simp only [infMag] at hfin ⊢
    omega
  rw [hmin]
  have := magVal_mono hle
  rw [hv, Nat.one_mul] at this
  omega

/-- identical sequences: the entry is the length term -/
theorem entry_same {S : List Nat} {d : SoftF32} (h0 : calcDistanceRaw S S = some 0) (h : distEntryS S S = some d) :
    AbsV d (lenHi (min 10000 S.length) * 2 ^ 129) := by
  unfold distEntryS calcDistanceS at h
  rw [h0] at h
  simp only [Option.map_some, Option.some.injEq] at h
  subst h
  rw [lenTermS_eq, show (S.length + S.length) / 2 = S.length by omega]
  obtain ⟨_, h2, _, h4⟩ := lenQ_spec (j := min 10000 S.length) (by omega)
  have hq : AbsV (lenQ (min 10000 S.length)) (lenHi (min 10000 S.length) * 2 ^ 129) := ⟨h2, h4⟩
  exact add_AbsV ofNat_zero_AbsV hq (by omega) (by unfold lenHi; omega) (by decide)

/-- raw distance at least 1: the entry is at least `1 +` the lower bound of the length term -/
theorem entry_cross {a b : List Nat} {d0 : Nat} {d : SoftF32} (h0 : calcDistanceRaw a b = some d0) (h1 : 1 ≤ d0)
    (h : distEntryS a b = some d) :
    (((1048576 + lenLo (min 10000 ((a.length + b.length) / 2))) * 2 ^ 129 : Nat) : Int) ≤ toInt d := by
  have hlt := calcDistanceRaw_lt h0
  unfold distEntryS calcDistanceS at h
  rw [h0] at h
  simp only [Option.map_some, Option.some.injEq] at h
  subst h
  rw [lenTermS_eq]
  have hm : min 10000 ((a.length + b.length) / 2) ≤ 10000 := by omega
  generalize min 10000 ((a.length + b.length) / 2) = m at *
  obtain ⟨q1, q2, q3, _⟩ := lenQ_spec hm
  obtain ⟨f1, f2⟩ := one_le_ofNat h1 hlt
  apply add_ge f1 ((isFinite_iff _).2 q2) (by unfold lenLo; omega) (by decide)
  rw [toInt_of_pos q1, Nat.add_mul, pow149]
  omega

/-! ## reading the matrix -/

theorem mapM_some_get {α β : Type} (f : α → Option β) :
    ∀ (l : List α) (a : List β), l.mapM f = some a → ∀ (i : Nat) (x : α), l[i]? = some x → ∃ y, a[i]? = some y ∧ f x = some y := by
  intro l
  induction l with
  | nil => intro a _ i x hx; simp at hx
  | cons z zs ih =>
    intro a ha i x hx
    rw [List.mapM_cons] at ha
    cases hz : f z with
    | none => rw [hz] at ha; cases ha
    | some y0 =>
      rw [hz] at ha
      cases hzs : zs.mapM f with
      | none => rw [hzs] at ha; cases ha
      | some ys =>
        rw [hzs] at ha
        have ha' : a = y0 :: ys := by cases ha; rfl
        subst ha'
        cases i with
        | zero =>
          simp only [List.getElem?_cons_zero, Option.some.injEq] at hx
          subst hx
          exact ⟨y0, rfl, hz⟩
        | succ i =>
          simp only [List.getElem?_cons_succ] at hx ⊢
          exact ih ys hzs i x hx

/-- the entry `upgmaS` reads at `(i, j)` -/
theorem distMatrixS_get (seqs : List (List Nat)) (dm : List (List SoftF32)) (h : distMatrixS seqs = some dm) (i j : Nat)
    (hi : i < seqs.length) (hj : j < seqs.length) :
    ∃ d, distEntryS (seqs.getD (max i j) []) (seqs.getD (min i j) []) = some d ∧
      FMatS.get ((dm.map List.toArray).toArray) i j = d := by
  unfold distMatrixS at h
  simp only at h
  obtain ⟨r, hr, hrow⟩ := mapM_some_get _ _ _ h i i (by simp [hi])
  obtain ⟨d, hd, hent⟩ := mapM_some_get _ _ _ hrow j j (by simp [hj])
  refine ⟨d, hent, ?_⟩
  unfold FMatS.get
  simp [Array.getD_eq_getD_getElem?, hr, hd]

/-! ## the two classes of entries -/

theorem lenLo_mono {j j' : Nat} (h : j ≤ j') : lenLo j ≤ lenLo j' := by unfold lenLo; omega

/-- the entry between two copies of `S` is `distEntryS S S` -/
theorem distMatrixS_same (seqs : List (List Nat)) (S : List Nat) (dm : List (List SoftF32)) (hdm : distMatrixS seqs = some dm)
    (i j : Nat) (hi : i < seqs.length) (hj : j < seqs.length) (ei : seqs.getD i [] = S) (ej : seqs.getD j [] = S) :
    ∃ d, distEntryS S S = some d ∧ FMatS.get ((dm.map List.toArray).toArray) i j = d := by
  obtain ⟨d, hd, hg⟩ := distMatrixS_get seqs dm hdm i j hi hj
  have e1 : seqs.getD (max i j) [] = S := by
    rcases Nat.le_total i j with h | h
    · rw [Nat.max_eq_right h]; exact ej
    · rw [Nat.max_eq_left h]; exact ei
  have e2 : seqs.getD (min i j) [] = S := by
    rcases Nat.le_total i j with h | h
    · rw [Nat.min_eq_left h]; exact ei
    · rw [Nat.min_eq_right h]; exact ej
  rw [e1, e2] at hd
  exact ⟨d, hd, hg⟩

/-- the entries (both orders) between a copy of `S` and a sequence `T ≠ S` satisfying the non-containment premise are one value
`distEntryS a b` with `{a, b} = {S, T}` and raw distance at least 1 -/
theorem distMatrixS_cross (seqs : List (List Nat)) (S : List Nat) (hsym : ∀ s ∈ seqs, ∀ c ∈ s, c < 13) (hS : S ∈ seqs)
    (hno : ∀ T ∈ seqs, T ≠ S → ¬ (T.take 1024 <:+: S) ∧ ¬ (S.take 1024 <:+: T))
    (dm : List (List SoftF32)) (hdm : distMatrixS seqs = some dm)
    (i z : Nat) (hi : i < seqs.length) (hz : z < seqs.length) (ei : seqs.getD i [] = S) (ez : seqs.getD z [] ≠ S) :
    ∃ a b d0 d, (a = S ∧ b = seqs.getD z [] ∨ a = seqs.getD z [] ∧ b = S) ∧ calcDistanceRaw a b = some d0 ∧ 1 ≤ d0 ∧
      distEntryS a b = some d ∧ FMatS.get ((dm.map List.toArray).toArray) i z = d ∧
      FMatS.get ((dm.map List.toArray).toArray) z i = d := by
  have hTm : seqs.getD z [] ∈ seqs := by
    rw [List.getD_eq_getElem?_getD, List.getElem?_eq_getElem hz]
    exact List.getElem_mem _
  obtain ⟨n1, n2⟩ := hno _ hTm ez
  have hsS := hsym S hS
  have hsT := hsym _ hTm
  obtain ⟨d, hd, hg⟩ := distMatrixS_get seqs dm hdm i z hi hz
  obtain ⟨d', hd', hg'⟩ := distMatrixS_get seqs dm hdm z i hz hi
  rw [Nat.max_comm z i, Nat.min_comm z i, hd] at hd'
  cases hd'
  have hor : (seqs.getD (max i z) [] = S ∧ seqs.getD (min i z) [] = seqs.getD z [] ∨
      seqs.getD (max i z) [] = seqs.getD z [] ∧ seqs.getD (min i z) [] = S) := by
    rcases Nat.le_total i z with h | h
    · rw [Nat.max_eq_right h, Nat.min_eq_left h, ei]; exact Or.inr ⟨rfl, rfl⟩
    · rw [Nat.max_eq_left h, Nat.min_eq_right h, ei]; exact Or.inl ⟨rfl, rfl⟩
  have hraw : ∃ d0, calcDistanceRaw (seqs.getD (max i z) []) (seqs.getD (min i z) []) = some d0 ∧ 1 ≤ d0 := by
    rcases hor with ⟨e1, e2⟩ | ⟨e1, e2⟩ <;> rw [e1, e2]
    · exact dist_pos_of_not_substring _ _ hsS hsT n1 n2
    · exact dist_pos_of_not_substring _ _ hsT hsS n2 n1
  obtain ⟨d0, h0, h1⟩ := hraw
  exact ⟨_, _, d0, d, hor, h0, h1, hd, hg, hg'⟩

/-- grid bound of an entry between two copies -/
theorem distMatrixS_same_grid (seqs : List (List Nat)) (S : List Nat) (hsym : ∀ s ∈ seqs, ∀ c ∈ s, c < 13) (hS : S ∈ seqs)
    (dm : List (List SoftF32)) (hdm : distMatrixS seqs = some dm)
    (i j : Nat) (hi : i < seqs.length) (hj : j < seqs.length) (ei : seqs.getD i [] = S) (ej : seqs.getD j [] = S) :
    AbsV (FMatS.get ((dm.map List.toArray).toArray) i j) (lenHi (min 10000 S.length) * 2 ^ 129) := by
  obtain ⟨d, hd, hg⟩ := distMatrixS_same seqs S dm hdm i j hi hj ei ej
  rw [hg]
  exact entry_same (dist_zero_of_equal S (hsym S hS)) hd

/-- grid bound of the entries between a copy and another sequence -/
theorem distMatrixS_cross_grid (seqs : List (List Nat)) (S : List Nat) (hsym : ∀ s ∈ seqs, ∀ c ∈ s, c < 13) (hS : S ∈ seqs)
    (hno : ∀ T ∈ seqs, T ≠ S → ¬ (T.take 1024 <:+: S) ∧ ¬ (S.take 1024 <:+: T))
    (dm : List (List SoftF32)) (hdm : distMatrixS seqs = some dm)
    (i z : Nat) (hi : i < seqs.length) (hz : z < seqs.length) (ei : seqs.getD i [] = S) (ez : seqs.getD z [] ≠ S) :
    (((1048576 + lenLo (min 10000 (S.length / 2))) * 2 ^ 129 : Nat) : Int) ≤ toInt (FMatS.get ((dm.map List.toArray).toArray) i z) ∧
    (((1048576 + lenLo (min 10000 (S.length / 2))) * 2 ^ 129 : Nat) : Int) ≤ toInt (FMatS.get ((dm.map List.toArray).toArray) z i) := by
  obtain ⟨a, b, d0, d, hab, h0, h1, hd, hg, hg'⟩ := distMatrixS_cross seqs S hsym hS hno dm hdm i z hi hz ei ez
  rw [hg, hg']
  have h2 := entry_cross h0 h1 hd
  have hmono : lenLo (min 10000 (S.length / 2)) ≤ lenLo (min 10000 ((a.length + b.length) / 2)) := by
    apply lenLo_mono
    rcases hab with ⟨rfl, rfl⟩ | ⟨rfl, rfl⟩ <;> omega
  have : (1048576 + lenLo (min 10000 (S.length / 2))) * 2 ^ 129 ≤
      (1048576 + lenLo (min 10000 ((a.length + b.length) / 2))) * 2 ^ 129 := Nat.mul_le_mul_right _ (by omega)
  have := Int.le_trans (Int.ofNat_le.2 this) h2
  exact ⟨this, this⟩

/-! ## the clade theorem over `distMatrixS` -/

/-- **copies of `S` form a clade of the binary32 UPGMA tree over the binary32 distance matrix.**  `samples` are the labels of the
positions, `c` marks the labels whose sequence is `S`. -/
theorem upgmaS_dist_clade (seqs : List (List Nat)) (samples : List Nat) (hlen : samples.length = seqs.length)
    (S : List Nat) (hn : seqs.length < 100) (hsym : ∀ s ∈ seqs, ∀ c ∈ s, c < 13) (c : Nat → Bool)
    (hc : ∀ i (hi : i < samples.length), c samples[i] = true ↔ seqs.getD i [] = S)
    (hS : S ∈ seqs)
    (hno : ∀ T ∈ seqs, T ≠ S → ¬ (T.take 1024 <:+: S) ∧ ¬ (S.take 1024 <:+: T)) :
    ∃ dm T, distMatrixS seqs = some dm ∧ upgmaS dm samples = some T ∧
      ∃ u ∈ T.subtrees, ∀ x, x ∈ u.leaves ↔ (x ∈ samples ∧ c x = true) := by
  obtain ⟨dm, hdm, hb⟩ := distMatrixS_some seqs hsym
  have hbnd : MatBnd (upgBnd 0) (upgmaInitS dm samples).dm := matBnd_of_rows _ dm hb
  have key := upgmaS_clade dm samples c (lenHi (min 10000 S.length)) (1048576 + lenLo (min 10000 (S.length / 2)))
    (by unfold lenLo; omega) (by unfold lenHi lenLo; omega)
    (by
      obtain ⟨i, hi, he⟩ := List.getElem_of_mem hS
      have hi' : i < samples.length := by omega
      refine ⟨samples[i], List.getElem_mem hi', (hc i hi').2 ?_⟩
      rw [List.getD_eq_getElem?_getD, List.getElem?_eq_getElem hi]; exact he)
    hbnd
    (by
      intro i j hi hj _ hci hcj
      exact distMatrixS_same_grid seqs S hsym hS dm hdm i j (by omega) (by omega) ((hc i hi).1 hci) ((hc j hj).1 hcj))
    (by
      intro i z hi hz hci hcz
      have ez : seqs.getD z [] ≠ S := by
        intro h
        have := (hc z hz).2 h
        rw [hcz] at this; cases this
      exact distMatrixS_cross_grid seqs S hsym hS hno dm hdm i z (by omega) (by omega) ((hc i hi).1 hci) ez)
  obtain ⟨T, hT, u, hu, hlu⟩ := key
  exact ⟨dm, T, hdm, hT, u, hu, hlu⟩

end Kalign
