import KalignModel.Lemmas.SoftKernel
/-!
# The meetup on the software binary32

`tryAll_scan`: scanning candidates that are each sentinel-like or bounded, starting from the sentinel `-FLT_MAX`, the accumulator
is either still the sentinel (`transition = -1`, no bounded candidate seen) or holds a bounded candidate that was seen.
`meetupRun_cls`: with forward and backward cells classified against exact tables, the meetup returns an admissible cut whose
two parts are finite in the exact tables whenever there is one, and its sentinel otherwise.
-/
namespace Kalign
open SoftF32

/-! ## the meetup: the winner is a candidate with two finite parts -/

/-- state of the scan: still the sentinel (no bounded candidate seen), or a bounded maximum that belongs to a seen candidate
whose flag `P` is true -/
def MeetScanInv (B : Nat) (P : Int → Nat → Bool) (pre : List (SoftF32 × Int × Nat)) (acc : MeetAcc SoftF32) : Prop :=
  (acc.max = negMax ∧ acc.transition = -1 ∧ ∀ c ∈ pre, P c.2.1 c.2.2 = false) ∨
  (absLe acc.max (B * 1048576) ∧ ∃ c ∈ pre, P c.2.1 c.2.2 = true ∧ acc.transition = c.2.1 ∧ acc.c = (c.2.2 : Int))

theorem try_scan (B : Nat) (hB : B < 16777216) (P : Int → Nat → Bool) (pre : List (SoftF32 × Int × Nat))
    (acc : MeetAcc SoftF32) (c : SoftF32 × Int × Nat) (hc : Cls B c.1 (P c.2.1 c.2.2)) (h : MeetScanInv B P pre acc) :
    MeetScanInv B P (pre ++ [c]) (acc.try_ c.1 c.2.1 c.2.2) := by
  unfold MeetAcc.try_
  show MeetScanInv B P (pre ++ [c]) (if gt c.1 acc.max = true then ⟨c.1, c.2.1, c.2.2⟩ else acc)
  cases hP : P c.2.1 c.2.2
  · rw [hP] at hc
    have hs : Sent c.1 := by simpa using hc
    rcases h with ⟨h1, h2, h3⟩ | ⟨h1, c', hc', h2⟩
    · rw [h1, gt_sent_negMax hs]
      simp only [Bool.false_eq_true, if_false]
      left
      refine ⟨h1, h2, ?_⟩
      intro d hd
      rcases List.mem_append.1 hd with hd | hd
      · exact h3 d hd
      · simp only [List.mem_singleton] at hd; subst hd; exact hP
    · rw [gt_sent_fin hs h1 (unit_lt127 B hB)]
      simp only [Bool.false_eq_true, if_false]
      right
      exact ⟨h1, c', List.mem_append_left _ hc', h2⟩
  · rw [hP] at hc
    have hf : absLe c.1 (B * 1048576) := by simpa using hc
    have hnew : MeetScanInv B P (pre ++ [c]) ⟨c.1, c.2.1, c.2.2⟩ :=
      Or.inr ⟨hf, c, List.mem_append_right _ (List.mem_singleton.2 rfl), hP, rfl, rfl⟩
    rcases h with ⟨h1, h2, h3⟩ | ⟨h1, c', hc', h2⟩
    · rw [h1, gt_fin_sent hf (unit_lt127 B hB) (Or.inl rfl)]
      simpa using hnew
    · split
      · exact hnew
      · right
        exact ⟨h1, c', List.mem_append_left _ hc', h2⟩

theorem tryAll_scan (B : Nat) (hB : B < 16777216) (P : Int → Nat → Bool) :
    ∀ (cs pre : List (SoftF32 × Int × Nat)) (acc : MeetAcc SoftF32),
      (∀ c ∈ cs, Cls B c.1 (P c.2.1 c.2.2)) → MeetScanInv B P pre acc → MeetScanInv B P (pre ++ cs) (tryAll acc cs) := by
  intro cs
  induction cs with
  | nil => intro pre acc _ h; simpa [tryAll] using h
  | cons c cs ih =>
    intro pre acc hall h
    have h1 := try_scan B hB P pre acc c (hall c (List.mem_cons_self ..)) h
    have h2 := ih (pre ++ [c]) _ (fun d hd => hall d (List.mem_cons_of_mem _ hd)) h1
    have e : pre ++ [c] ++ cs = pre ++ c :: cs := by simp
    rw [e] at h2
    exact h2

/-- the scan from the sentinel -/
theorem tryAll_from_sentinel (B : Nat) (hB : B < 16777216) (P : Int → Nat → Bool) (cs : List (SoftF32 × Int × Nat))
    (hall : ∀ c ∈ cs, Cls B c.1 (P c.2.1 c.2.2)) :
    MeetScanInv B P cs (tryAll ⟨Score.negInf, -1, -1⟩ cs) := by
  have := tryAll_scan B hB P cs [] ⟨Score.negInf, -1, -1⟩ hall (Or.inl ⟨rfl, rfl, by simp⟩)
  simpa using this

/-- both parts of candidate `(t, i)` are finite in the exact tables -/
def finAt (EF EB : Nat → States ExactScore) (sb : Nat) (t : Int) (i : Nat) : Bool :=
  ((EF (i - sb)).get (fkOf t)).isSome && ((EB (i - sb)).get (bkOf t)).isSome

/-- the penalty terms of the meetup keep the class, one more unit -/
structure MeetOpsBnd (ops : MeetOps SoftF32) : Prop where
  g2 : ∀ (i B : Nat) (x : SoftF32) (p : Bool), B + 1 < 16777216 → Cls B x p → Cls (B + 1) (ops.g2 i x) p
  g3 : ∀ (B : Nat) (x : SoftF32) (p : Bool), B + 1 < 16777216 → Cls B x p → Cls (B + 1) (ops.g3 x) p
  g5 : ∀ (i B : Nat) (x : SoftF32) (p : Bool), B + 1 < 16777216 → Cls B x p → Cls (B + 1) (ops.g5 i x) p
  g6 : ∀ (B : Nat) (x : SoftF32) (p : Bool), B + 1 < 16777216 → Cls B x p → Cls (B + 1) (ops.g6 x) p
  g7 : ∀ (B : Nat) (x : SoftF32) (p : Bool), B + 1 < 16777216 → Cls B x p → Cls (B + 1) (ops.g7 x) p
  g6e : ∀ (B : Nat) (x : SoftF32) (p : Bool), B + 1 < 16777216 → Cls B x p → Cls (B + 1) (ops.g6e x) p

theorem fkOf_1 : fkOf 1 = .A := by decide
theorem fkOf_2 : fkOf 2 = .A := by decide
theorem fkOf_3 : fkOf 3 = .A := by decide
theorem fkOf_5 : fkOf 5 = .GA := by decide
theorem fkOf_6 : fkOf 6 = .GB := by decide
theorem fkOf_7 : fkOf 7 = .GB := by decide
theorem bkOf_1 : bkOf 1 = .A := by decide
theorem bkOf_2 : bkOf 2 = .GA := by decide
theorem bkOf_3 : bkOf 3 = .GB := by decide
theorem bkOf_5 : bkOf 5 = .A := by decide
theorem bkOf_6 : bkOf 6 = .GB := by decide
theorem bkOf_7 : bkOf 7 = .A := by decide


theorem cand_plain {Bf Bb : Nat} {x y t : SoftF32} {p q : Bool} (hx : Cls Bf x p) (hy : Cls Bb y q)
    (ht : absLe t (1 * 1048576)) (hB : Bf + Bb + 2 < 16777216) :
    Cls (Bf + Bb + 2) (Score.sub (Score.add x y) t) (p && q) := by
  have h1 : Cls (Bf + Bb) (Score.add x y) (p && q) := cls_add hx hy (by omega)
  have h2 : Cls (Bf + Bb + 1) (Score.sub (Score.add x y) t) (p && q) := cls_sub_pen (B' := 1) h1 ht (by omega)
  exact h2.mono (by omega)

theorem cand_pen {Bf Bb : Nat} {x y t : SoftF32} {p q : Bool} (g : SoftF32 → SoftF32)
    (hg : ∀ (B : Nat) (x : SoftF32) (p : Bool), B + 1 < 16777216 → Cls B x p → Cls (B + 1) (g x) p)
    (hx : Cls Bf x p) (hy : Cls Bb y q) (ht : absLe t (1 * 1048576)) (hB : Bf + Bb + 2 < 16777216) :
    Cls (Bf + Bb + 2) (Score.sub (g (Score.add x y)) t) (p && q) := by
  have h1 : Cls (Bf + Bb) (Score.add x y) (p && q) := cls_add hx hy (by omega)
  have h2 : Cls (Bf + Bb + 1) (g (Score.add x y)) (p && q) := hg _ _ _ (by omega) h1
  have h3 : Cls (Bf + Bb + 1 + 1) (Score.sub (g (Score.add x y)) t) (p && q) := cls_sub_pen (B' := 1) h2 ht (by omega)
  exact h3

theorem cellCands_cls (ops : MeetOps SoftF32) (hops : MeetOpsBnd ops) (sb eb i Bf Bb : Nat)
    (f b : States SoftF32) (ef eb' : States ExactScore) (hB : Bf + Bb + 2 < 16777216)
    (hf : StCls Bf f ef) (hb : StCls Bb b eb') (htie : absLe (Score.tie sb eb i : SoftF32) 1048576) :
    ∀ c ∈ cellCands ops sb eb i f b,
      Cls (Bf + Bb + 2) c.1 ((ef.get (fkOf c.2.1)).isSome && (eb'.get (bkOf c.2.1)).isSome) ∧ c.2.2 = i ∧
        (c.2.1 = 1 ∨ c.2.1 = 2 ∨ c.2.1 = 3 ∨ c.2.1 = 5 ∨ c.2.1 = 6 ∨ c.2.1 = 7) := by
  have ht : absLe (Score.tie sb eb i : SoftF32) (1 * 1048576) := absLe_unit htie
  intro c hc
  simp only [cellCands, List.mem_cons, List.not_mem_nil, or_false] at hc
  rcases hc with rfl | rfl | rfl | rfl | rfl | rfl
  · refine ⟨?_, rfl, Or.inl rfl⟩
    simp only [fkOf_1, bkOf_1, States.get_A]
    exact cand_plain hf.1 hb.1 ht hB
  · refine ⟨?_, rfl, Or.inr (Or.inl rfl)⟩
    simp only [fkOf_2, bkOf_2, States.get_A, States.get_GA]
    exact cand_pen (ops.g2 _) (hops.g2 _) hf.1 hb.2.1 ht hB
  · refine ⟨?_, rfl, Or.inr (Or.inr (Or.inl rfl))⟩
    simp only [fkOf_3, bkOf_3, States.get_A, States.get_GB]
    exact cand_pen ops.g3 hops.g3 hf.1 hb.2.2 ht hB
  · refine ⟨?_, rfl, Or.inr (Or.inr (Or.inr (Or.inl rfl)))⟩
    simp only [fkOf_5, bkOf_5, States.get_A, States.get_GA]
    exact cand_pen (ops.g5 _) (hops.g5 _) hf.2.1 hb.1 ht hB
  · refine ⟨?_, rfl, Or.inr (Or.inr (Or.inr (Or.inr (Or.inl rfl))))⟩
    simp only [fkOf_6, bkOf_6, States.get_GB]
    exact cand_pen ops.g6 hops.g6 hf.2.2 hb.2.2 ht hB
  · refine ⟨?_, rfl, Or.inr (Or.inr (Or.inr (Or.inr (Or.inr rfl))))⟩
    simp only [fkOf_7, bkOf_7, States.get_A, States.get_GB]
    exact cand_pen ops.g7 hops.g7 hf.2.2 hb.1 ht hB

theorem lastCands_cls (ops : MeetOps SoftF32) (hops : MeetOpsBnd ops) (sb eb i Bf Bb : Nat)
    (f b : States SoftF32) (ef eb' : States ExactScore) (hB : Bf + Bb + 2 < 16777216)
    (hf : StCls Bf f ef) (hb : StCls Bb b eb') (htie : absLe (Score.tie sb eb i : SoftF32) 1048576) :
    ∀ c ∈ lastCands ops sb eb i f b,
      Cls (Bf + Bb + 2) c.1 ((ef.get (fkOf c.2.1)).isSome && (eb'.get (bkOf c.2.1)).isSome) ∧ c.2.2 = i ∧
        (c.2.1 = 3 ∨ c.2.1 = 6) := by
  have ht : absLe (Score.tie sb eb i : SoftF32) (1 * 1048576) := absLe_unit htie
  intro c hc
  simp only [lastCands, List.mem_cons, List.not_mem_nil, or_false] at hc
  rcases hc with rfl | rfl
  · refine ⟨?_, rfl, Or.inl rfl⟩
    simp only [fkOf_3, bkOf_3, States.get_A, States.get_GB]
    exact cand_pen ops.g3 hops.g3 hf.1 hb.2.2 ht hB
  · refine ⟨?_, rfl, Or.inr rfl⟩
    simp only [fkOf_6, bkOf_6, States.get_GB]
    exact cand_pen ops.g6e hops.g6e hf.2.2 hb.2.2 ht hB

/-- admissible `(k, t)` for the cells `k0 .. k0+d` (the last cell only has transitions 3 and 6) -/
def AdmFrom (k0 d k : Nat) (t : Int) : Prop :=
  (k0 ≤ k ∧ k < k0 + d ∧ (t = 1 ∨ t = 2 ∨ t = 3 ∨ t = 5 ∨ t = 6 ∨ t = 7)) ∨ (k = k0 + d ∧ (t = 3 ∨ t = 6))

theorem admFrom_zero (n k : Nat) (t : Int) : AdmFrom 0 n k t ↔ Adm n k t := by
  unfold AdmFrom Adm
  constructor
  · rintro (⟨_, h2, h3⟩ | ⟨h1, h2⟩)
    · exact Or.inl ⟨by omega, h3⟩
    · exact Or.inr ⟨by omega, h2⟩
  · rintro (⟨h1, h2⟩ | ⟨h1, h2⟩)
    · exact Or.inl ⟨by omega, by omega, h2⟩
    · exact Or.inr ⟨by omega, h2⟩

theorem allCands_cls (ops : MeetOps SoftF32) (hops : MeetOpsBnd ops) (sb eb Bf Bb : Nat)
    (F Bk : Nat → States SoftF32) (EF EB : Nat → States ExactScore) (hB : Bf + Bb + 2 < 16777216) :
    ∀ d k0, (∀ k, k0 ≤ k → k ≤ k0 + d → StCls Bf (F k) (EF k) ∧ StCls Bb (Bk k) (EB k) ∧
        absLe (Score.tie sb eb (sb + k) : SoftF32) 1048576) →
      ∀ c ∈ allCands ops sb eb F Bk k0 d,
        Cls (Bf + Bb + 2) c.1 (finAt EF EB sb c.2.1 c.2.2) ∧ ∃ k, AdmFrom k0 d k c.2.1 ∧ c.2.2 = sb + k := by
  intro d
  induction d with
  | zero =>
    intro k0 h c hc
    simp only [allCands] at hc
    obtain ⟨h1, h2, h3⟩ := h k0 (Nat.le_refl _) (by omega)
    obtain ⟨c1, c2, c3⟩ := lastCands_cls ops hops sb eb (sb + k0) Bf Bb _ _ _ _ hB h1 h2 h3 c hc
    refine ⟨?_, k0, Or.inr ⟨by omega, c3⟩, c2⟩
    unfold finAt
    rw [c2, Nat.add_sub_cancel_left]
    exact c1
  | succ d ih =>
    intro k0 h c hc
    simp only [allCands, List.mem_append] at hc
    rcases hc with hc | hc
    · obtain ⟨h1, h2, h3⟩ := h k0 (Nat.le_refl _) (by omega)
      obtain ⟨c1, c2, c3⟩ := cellCands_cls ops hops sb eb (sb + k0) Bf Bb _ _ _ _ hB h1 h2 h3 c hc
      refine ⟨?_, k0, Or.inl ⟨Nat.le_refl _, by omega, c3⟩, c2⟩
      unfold finAt
      rw [c2, Nat.add_sub_cancel_left]
      exact c1
    · obtain ⟨c1, k, c2, c3⟩ := ih (k0 + 1) (fun k hk1 hk2 => h k (by omega) (by omega)) c hc
      refine ⟨c1, k, ?_, c3⟩
      rcases c2 with ⟨a1, a2, a3⟩ | ⟨a1, a2⟩
      · exact Or.inl ⟨by omega, by omega, a3⟩
      · exact Or.inr ⟨by omega, a2⟩

/-- every admissible `(k, t)` occurs among the candidates -/
theorem allCands_complete (ops : MeetOps SoftF32) (sb eb : Nat) (F Bk : Nat → States SoftF32) :
    ∀ d k0 k t, AdmFrom k0 d k t → ∃ c ∈ allCands ops sb eb F Bk k0 d, c.2.1 = t ∧ c.2.2 = sb + k := by
  intro d
  induction d with
  | zero =>
    intro k0 k t h
    rcases h with ⟨h1, h2, _⟩ | ⟨h1, h2⟩
    · omega
    · have hk : k = k0 := by omega
      subst hk
      simp only [allCands, lastCands, List.mem_cons, List.not_mem_nil, or_false]
      rcases h2 with rfl | rfl
      · exact ⟨_, Or.inl rfl, rfl, rfl⟩
      · exact ⟨_, Or.inr rfl, rfl, rfl⟩
  | succ d ih =>
    intro k0 k t h
    by_cases hk : k = k0
    · subst hk
      have ht : t = 1 ∨ t = 2 ∨ t = 3 ∨ t = 5 ∨ t = 6 ∨ t = 7 := by
        rcases h with ⟨_, _, h3⟩ | ⟨h1, _⟩
        · exact h3
        · omega
      simp only [allCands, List.mem_append, cellCands, List.mem_cons, List.not_mem_nil, or_false]
      rcases ht with rfl | rfl | rfl | rfl | rfl | rfl
      · exact ⟨_, Or.inl (Or.inl rfl), rfl, rfl⟩
      · exact ⟨_, Or.inl (Or.inr (Or.inl rfl)), rfl, rfl⟩
      · exact ⟨_, Or.inl (Or.inr (Or.inr (Or.inl rfl))), rfl, rfl⟩
      · exact ⟨_, Or.inl (Or.inr (Or.inr (Or.inr (Or.inl rfl)))), rfl, rfl⟩
      · exact ⟨_, Or.inl (Or.inr (Or.inr (Or.inr (Or.inr (Or.inl rfl))))), rfl, rfl⟩
      · exact ⟨_, Or.inl (Or.inr (Or.inr (Or.inr (Or.inr (Or.inr rfl))))), rfl, rfl⟩
    · have h' : AdmFrom (k0 + 1) d k t := by
        rcases h with ⟨a1, a2, a3⟩ | ⟨a1, a2⟩
        · exact Or.inl ⟨by omega, by omega, a3⟩
        · exact Or.inr ⟨by omega, a2⟩
      obtain ⟨c, hc, c1, c2⟩ := ih (k0 + 1) k t h'
      exact ⟨c, by simp only [allCands, List.mem_append]; exact Or.inr hc, c1, c2⟩

/-- **the meetup on `SoftF32`**: if some admissible cut has two finite parts, the meetup returns such a cut; otherwise it keeps
its sentinel `transition = -1` -/
theorem meetupRun_cls (ops : MeetOps SoftF32) (hops : MeetOpsBnd ops) (sb eb n Bf Bb : Nat)
    (F Bk : Nat → States SoftF32) (EF EB : Nat → States ExactScore) (hB : Bf + Bb + 2 < 16777216)
    (h : ∀ k, k ≤ n → StCls Bf (F k) (EF k) ∧ StCls Bb (Bk k) (EB k) ∧
      absLe (Score.tie sb eb (sb + k) : SoftF32) 1048576) :
    let r := meetupRun ops sb eb ((List.range (n + 1)).map F) ((List.range (n + 1)).map Bk)
    (∃ k t, Adm n k t ∧ finAt EF EB sb t (sb + k) = true ∧ r.meet = ((sb + k : Nat) : Int) ∧ r.transition = t) ∨
    (r.transition = -1 ∧ ∀ k t, Adm n k t → finAt EF EB sb t (sb + k) = false) := by
  intro r
  have hr : r = (let a := tryAll ⟨Score.negInf, -1, -1⟩ (allCands ops sb eb F Bk 0 n); ⟨a.c, a.transition, a.max⟩) :=
    meetupRun_eq ops sb eb n F Bk
  have hcls := allCands_cls ops hops sb eb Bf Bb F Bk EF EB hB n 0 (fun k _ hk => h k (by omega))
  have hscan := tryAll_from_sentinel (Bf + Bb + 2) hB (finAt EF EB sb) (allCands ops sb eb F Bk 0 n)
    (fun c hc => (hcls c hc).1)
  rw [hr]
  simp only
  rcases hscan with ⟨_, h2, h3⟩ | ⟨_, c, hc, h2, h3, h4⟩
  · right
    refine ⟨h2, ?_⟩
    intro k t hadm
    obtain ⟨c, hc, c1, c2⟩ := allCands_complete ops sb eb F Bk n 0 k t ((admFrom_zero n k t).2 hadm)
    have := h3 c hc
    rw [c1, c2] at this
    exact this
  · left
    obtain ⟨_, k, hk, hk2⟩ := hcls c hc
    refine ⟨k, c.2.1, (admFrom_zero n k _).1 hk, ?_, ?_, h3⟩
    · rw [← hk2]; exact h2
    · rw [h4, hk2]

end Kalign
