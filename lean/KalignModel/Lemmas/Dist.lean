import KalignModel.Lemmas.BpmBlock
import KalignModel.Model.Dist
/-! distance 0 iff the pattern (its first 1024 symbols) occurs in the text -/
namespace Kalign

theorem lev_self {α : Type} [DecidableEq α] (a : List α) : lev a a = 0 := by
  induction a with
  | nil => simp [lev_nil_left]
  | cons x a ih => rw [lev_cons_cons, ih]; simp [cost]

theorem lev_eq_zero {α : Type} [DecidableEq α] (a b : List α) (h : lev a b = 0) : a = b := by
  induction a generalizing b with
  | nil =>
    rw [lev_nil_left] at h
    exact (List.eq_nil_of_length_eq_zero h).symm
  | cons x a ih =>
    cases b with
    | nil => rw [lev_nil_right] at h; simp at h
    | cons y b =>
      rw [lev_cons_cons] at h
      have h3 : lev a b + cost x y = 0 := by omega
      have hc : cost x y = 0 := by omega
      have hxy : x = y := by
        unfold cost at hc
        split at hc
        · assumption
        · omega
      rw [hxy, ih b (by omega)]

theorem levSub_eq_zero_iff {α : Type} [DecidableEq α] (p t : List α) : levSub p t = 0 ↔ p <:+: t := by
  have h := levSub_isMin p t
  constructor
  · intro h0
    obtain ⟨s, hs, he⟩ := h.2
    rw [h0] at he
    rw [lev_eq_zero p s he.symm]
    exact hs
  · intro hp
    have := h.1 p hp
    rw [lev_self] at this
    omega

theorem levSub_le_length {α : Type} [DecidableEq α] (p t : List α) : levSub p t ≤ p.length :=
  foldl_min_le_init _ _

/-- the integer returned by `calc_distance` (before the conversion to float) -/
theorem calcDistanceRaw_eq (a b : List Nat) (ha : ∀ c ∈ a, c < 13) (hb : ∀ c ∈ b, c < 13) :
    calcDistanceRaw a b =
      some (if a.length > b.length then levSub (b.take 1024) a else levSub (a.take 1024) b) := by
  unfold calcDistanceRaw
  split
  · rw [bpmBlock_eq_sellers a b ha, sellers_spec]
    simp only [Option.map_some, Option.some.injEq]
    have := levSub_le_length (b.take 1024) a
    rw [List.length_take] at this
    omega
  · rw [bpmBlock_eq_sellers b a hb, sellers_spec]
    simp only [Option.map_some, Option.some.injEq]
    have := levSub_le_length (a.take 1024) b
    rw [List.length_take] at this
    omega

/-- identical sequences are at edit distance 0 -/
theorem dist_zero_of_equal (s : List Nat) (hs : ∀ c ∈ s, c < 13) : calcDistanceRaw s s = some 0 := by
  rw [calcDistanceRaw_eq s s hs hs]
  simp only [Nat.lt_irrefl, gt_iff_lt, if_false]
  rw [(levSub_eq_zero_iff _ _).2 (List.take_prefix 1024 s).isInfix]

/-- if the first 1024 symbols of neither sequence occur in the other one, the edit distance is at least 1 -/
theorem dist_pos_of_not_substring (a b : List Nat) (ha : ∀ c ∈ a, c < 13) (hb : ∀ c ∈ b, c < 13)
    (h1 : ¬ (b.take 1024 <:+: a)) (h2 : ¬ (a.take 1024 <:+: b)) :
    ∃ d, calcDistanceRaw a b = some d ∧ 1 ≤ d := by
  rw [calcDistanceRaw_eq a b ha hb]
  refine ⟨_, rfl, ?_⟩
  split
  · have : levSub (b.take 1024) a ≠ 0 := fun h => h1 ((levSub_eq_zero_iff (b.take 1024) a).1 h)
    omega
  · have : levSub (a.take 1024) b ≠ 0 := fun h => h2 ((levSub_eq_zero_iff (a.take 1024) b).1 h)
    omega

/-- the exact distance 0 characterisation: the raw distance is 0 iff the pattern's first 1024 symbols occur in the text -/
theorem dist_zero_iff (a b : List Nat) (ha : ∀ c ∈ a, c < 13) (hb : ∀ c ∈ b, c < 13) :
    calcDistanceRaw a b = some 0 ↔
      (if a.length > b.length then b.take 1024 <:+: a else a.take 1024 <:+: b) := by
  rw [calcDistanceRaw_eq a b ha hb]
  split <;> simp [levSub_eq_zero_iff]

end Kalign
