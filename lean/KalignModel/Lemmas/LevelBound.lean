import KalignModel.Lemmas.KernelVsST
/-!
# S3 (whole problem): one Hirschberg level's reading of a complete alignment versus the reference score

A complete column list `Y = Y1 ++ Y2` of the problem `w`, cut after `Y1`; the forward kernel reads `Y1` from the near
corner, the backward kernel reads `Y2` from the far corner (`w.mirror`), the meetup subtracts `J` for the edge between
the two parts.  `levelRead_eq`:

    reading = S_T(Y) − (J + stE(edge)) − gpo·(tclose Y1 + tclose' Y2)

i.e. the reading differs from the reference score by the meetup's deviation on the joining edge and by `gpo` for the
leading run closed inside `Y1` and for the trailing run opened inside `Y2`.
-/
namespace Kalign

/-- the level's reading of `Y1 ++ Y2` on the whole problem -/
def STW.levelRead (w : STW) (Y1 Y2 : List Col) (J : Int) : Int :=
  walkSc w.kcfg 0 0 .A Y1 + walkSc w.mirror.kcfg 0 0 .A Y2.reverse - J

theorem STW.levelRead_eq (w : STW) (Y1 Y2 : List Col) (J : Int)
    (hadj : adjOK .A (Y1 ++ Y2) = true) (hA : consA (Y1 ++ Y2) = w.lenA) (hB : consB (Y1 ++ Y2) = w.lenB)
    (hokF : walkOK w.kcfg 0 0 .A Y1 = true) (hokB : walkOK w.mirror.kcfg 0 0 .A Y2.reverse = true)
    (hrowF : consA Y1 < w.lenA) (hrowB : noGapAAt w.lenA 0 Y2.reverse = true) :
    w.levelRead Y1 Y2 J =
      w.walk 0 0 .A (Y1 ++ Y2) - (J + w.stE (lastKind .A Y1) (firstKind .A Y2) (consA Y1) (consB Y1)) -
        w.gpo * ((w.tclose 0 0 .A Y1 : Int) + (w.mirror.tclose 0 0 .A Y2.reverse : Int)) := by
  rw [adjOK_append, Bool.and_eq_true] at hadj
  rw [consA_append] at hA
  rw [consB_append] at hB
  have h1 := STW.walkSc_kcfg w Y1 0 0 .A hokF (noGapAAt_of_lt _ _ _ (by omega))
  have h2 := STW.walkSc_kcfg w.mirror Y2.reverse 0 0 .A hokB hrowB
  have h3 := STW.walk_mirror w Y2 (consA Y1) (consB Y1) (lastKind .A Y1) hadj.2 hA hB
  rw [STW.levelRead, h1, h2, STW.walk_append, Nat.zero_add, Nat.zero_add, h3, Int.mul_add, STW.mirror_gpo]
  omega

/-! ## bounds -/

theorem both_notin_of_consA_zero (X : List Col) (h : consA X = 0) : Col.both ∉ X := by
  induction X with
  | nil => simp
  | cons c cs ih =>
    rw [consA_cons] at h
    intro hm
    rcases List.mem_cons.mp hm with h' | h'
    · subst h'; simp [stepP] at h
    · exact ih (by omega) h'

theorem both_notin_of_consB_zero (X : List Col) (h : consB X = 0) : Col.both ∉ X := by
  induction X with
  | nil => simp
  | cons c cs ih =>
    rw [consB_cons] at h
    intro hm
    rcases List.mem_cons.mp hm with h' | h'
    · subst h'; simp [stepK] at h
    · exact ih (by omega) h'

theorem lastKind_snoc (st : Kind) (X : List Col) (c : Col) : lastKind st (X ++ [c]) = colKind (lastKind st X) c := by
  simp [lastKind, List.foldl_append]

/-- a list that ends in kind `A` is empty or has consumed a residue of each sequence -/
theorem lastKind_A_cases (X : List Col) (hs : Col.skip ∉ X) (h : lastKind .A X = .A) :
    X = [] ∨ (1 ≤ consA X ∧ 1 ≤ consB X) := by
  rcases List.eq_nil_or_concat X with h0 | ⟨X', c, hX⟩
  · exact Or.inl h0
  · right
    subst hX
    rw [List.concat_eq_append, lastKind_snoc] at h
    rw [List.concat_eq_append, consA_append, consB_append]
    cases c with
    | skip => exact absurd (by simp) hs
    | both => simp
    | gapA => simp [colKind] at h
    | gapB => simp [colKind] at h

theorem startsGap_of_no_both (X : List Col) (hne : X ≠ []) (hs : Col.skip ∉ X) (hb : Col.both ∉ X) :
    startsGap X = true := by
  cases X with
  | nil => exact absurd rfl hne
  | cons c cs =>
    cases c with
    | skip => exact absurd (by simp) hs
    | both => exact absurd (by simp) hb
    | gapA => rfl
    | gapB => rfl

theorem startsGap_append_left (X Y : List Col) (hne : X ≠ []) : startsGap (X ++ Y) = startsGap X := by
  cases X with
  | nil => exact absurd rfl hne
  | cons c cs => rfl

theorem startsGap_of_firstKind (bk : Kind) (X : List Col) (hs : Col.skip ∉ X) (h : firstKind bk X ≠ .A) (hne : X ≠ []) :
    startsGap X = true := by
  cases X with
  | nil => exact absurd rfl hne
  | cons c cs =>
    cases c with
    | skip => exact absurd (by simp) hs
    | both => simp [firstKind, colKind] at h
    | gapA => rfl
    | gapB => rfl

theorem nterm_eq (Y : List Col) :
    nterm Y = (if startsGap Y then 1 else 0) + (if startsGap Y.reverse then 1 else 0) := by
  unfold nterm
  congr 1
  · cases Y with
    | nil => rfl
    | cons c cs => rfl
  · rw [← List.head?_reverse]
    cases Y.reverse with
    | nil => rfl
    | cons c cs => rfl

/-- what the meetup subtracts on the joining edge `(x, y)` at node `(i,j)`: nothing between two aligned columns, `gpo`
between an aligned and a gap column, `gpe` or `tgpe` inside a gap-in-b run — `tgpe` at least when the run is terminal -/
def STW.JoinOK (w : STW) (x y : Kind) (i j : Nat) (J : Int) : Prop :=
  (x = .A ∧ y = .A ∧ J = 0) ∨ (x = .A ∧ (y = .GA ∨ y = .GB) ∧ J = w.gpo) ∨
  ((x = .GA ∨ x = .GB) ∧ y = .A ∧ J = w.gpo) ∨
  (x = .GB ∧ y = .GB ∧ (J = w.gpe ∨ J = w.tgpe) ∧ (w.termK .GB i j = true → J = w.tgpe))

def STW.slackLo (w : STW) : Int := max 0 (max (w.tgpe - w.gpe) (w.tgpe - w.gpo))
def STW.slackHi (w : STW) : Int := max 0 (w.gpe - w.tgpe)

theorem STW.slackLo_ge (w : STW) : 0 ≤ w.slackLo ∧ w.tgpe - w.gpe ≤ w.slackLo ∧ w.tgpe - w.gpo ≤ w.slackLo :=
  ⟨Int.le_max_left _ _, Int.le_trans (Int.le_max_left _ _) (Int.le_max_right _ _),
    Int.le_trans (Int.le_max_right _ _) (Int.le_max_right _ _)⟩
theorem STW.slackHi_ge (w : STW) : 0 ≤ w.slackHi ∧ w.gpe - w.tgpe ≤ w.slackHi :=
  ⟨Int.le_max_left _ _, Int.le_max_right _ _⟩

theorem zero_or_one_of_le_ite (n : Nat) (b : Bool) (h : n ≤ (if b then 1 else 0)) :
    (n = 0) ∨ (n = 1 ∧ (if b then 1 else 0) = 1) := by
  cases b <;> simp at h ⊢ <;> omega

theorem ite_le_one (b : Bool) : (if b then 1 else 0 : Nat) ≤ 1 := by cases b <;> simp

/-! three arithmetic closers: the deviation `dev` on the joining edge plus `gpo` per closed/opened terminal run is
within the budget `gpo·(S + T) + slo` -/

theorem lo_general (gpo slo dev : Int) (lc tc S T : Nat) (hg : 0 ≤ gpo)
    (hlc : lc = 0 ∨ (lc = 1 ∧ S = 1)) (htc : tc = 0 ∨ (tc = 1 ∧ T = 1)) (hdev : dev ≤ slo) :
    dev + gpo * ((lc : Int) + (tc : Int)) ≤ gpo * ((S : Int) + (T : Int)) + slo := by
  have h1 : gpo * (lc : Int) ≤ gpo * (S : Int) := by
    rcases hlc with h | ⟨h, h'⟩
    · subst h; simpa using Int.mul_nonneg hg (Int.natCast_nonneg S)
    · subst h; subst h'; exact Int.le_refl _
  have h2 : gpo * (tc : Int) ≤ gpo * (T : Int) := by
    rcases htc with h | ⟨h, h'⟩
    · subst h; simpa using Int.mul_nonneg hg (Int.natCast_nonneg T)
    · subst h; subst h'; exact Int.le_refl _
  rw [Int.mul_add, Int.mul_add]
  omega

theorem lo_lead (gpo slo dev : Int) (lc tc S T : Nat) (hg : 0 ≤ gpo)
    (hlc : lc = 0) (hS : S = 1) (htc : tc = 0 ∨ (tc = 1 ∧ T = 1)) (hdev : dev ≤ gpo + slo) :
    dev + gpo * ((lc : Int) + (tc : Int)) ≤ gpo * ((S : Int) + (T : Int)) + slo := by
  have h2 : gpo * (tc : Int) ≤ gpo * (T : Int) := by
    rcases htc with h | ⟨h, h'⟩
    · subst h; simpa using Int.mul_nonneg hg (Int.natCast_nonneg T)
    · subst h; subst h'; exact Int.le_refl _
  subst hlc; subst hS
  rw [Int.mul_add, Int.mul_add]
  simp only [Int.natCast_zero, Int.natCast_one, Int.mul_zero, Int.mul_one]
  omega

theorem lo_trail (gpo slo dev : Int) (lc tc S T : Nat) (hg : 0 ≤ gpo)
    (htc : tc = 0) (hT : T = 1) (hlc : lc = 0 ∨ (lc = 1 ∧ S = 1)) (hdev : dev ≤ gpo + slo) :
    dev + gpo * ((lc : Int) + (tc : Int)) ≤ gpo * ((S : Int) + (T : Int)) + slo := by
  have h1 : gpo * (lc : Int) ≤ gpo * (S : Int) := by
    rcases hlc with h | ⟨h, h'⟩
    · subst h; simpa using Int.mul_nonneg hg (Int.natCast_nonneg S)
    · subst h; subst h'; exact Int.le_refl _
  subst htc; subst hT
  rw [Int.mul_add, Int.mul_add]
  simp only [Int.natCast_zero, Int.natCast_one, Int.mul_zero, Int.mul_one]
  omega

/-- **S3 for the whole problem**: the level's reading of a complete alignment lies in
`[S_T − gpo·nterm − slackLo, S_T + slackHi]` -/
theorem STW.level_bounds (w : STW) (hgpo : 0 ≤ w.gpo) (hgpe : 0 ≤ w.gpe) (htgpe : 0 ≤ w.tgpe)
    (Y1 Y2 : List Col) (J : Int) (hY2 : Y2 ≠ [])
    (hadj : adjOK .A (Y1 ++ Y2) = true) (hA : consA (Y1 ++ Y2) = w.lenA) (hB : consB (Y1 ++ Y2) = w.lenB)
    (hokF : walkOK w.kcfg 0 0 .A Y1 = true) (hokB : walkOK w.mirror.kcfg 0 0 .A Y2.reverse = true)
    (hrowF : consA Y1 < w.lenA) (hrowB : noGapAAt w.lenA 0 Y2.reverse = true)
    (hJ : w.JoinOK (lastKind .A Y1) (firstKind .A Y2) (consA Y1) (consB Y1) J) :
    w.walk 0 0 .A (Y1 ++ Y2) - w.gpo * (nterm (Y1 ++ Y2) : Int) - w.slackLo ≤ w.levelRead Y1 Y2 J ∧
      w.levelRead Y1 Y2 J ≤ w.walk 0 0 .A (Y1 ++ Y2) + w.slackHi := by
  rw [STW.levelRead_eq w Y1 Y2 J hadj hA hB hokF hokB hrowF hrowB, nterm_eq]
  have hskip := adjOK_noskip _ _ hadj
  have hs1 : Col.skip ∉ Y1 := fun h => hskip (List.mem_append_left _ h)
  have hs2 : Col.skip ∉ Y2 := fun h => hskip (List.mem_append_right _ h)
  have hs2r : Col.skip ∉ Y2.reverse := fun h => hs2 (List.mem_reverse.mp h)
  have hA' := hA; have hB' := hB
  rw [consA_append] at hA'
  rw [consB_append] at hB'
  have hY2r : Y2.reverse ≠ [] := by simpa using hY2
  have hT : startsGap (Y1 ++ Y2).reverse = startsGap Y2.reverse := by
    rw [List.reverse_append, startsGap_append_left _ _ hY2r]
  rw [hT]
  -- the two counts against the two flags
  have hlc := STW.tclose_corner w Y1 hokF (by omega)
  have htc := STW.tclose_corner w.mirror Y2.reverse hokB (by rw [consA_reverse]; simp; omega)
  have hSeq : Y1 ≠ [] → startsGap (Y1 ++ Y2) = startsGap Y1 := startsGap_append_left _ _
  have hlcS : w.tclose 0 0 .A Y1 = 0 ∨
      (w.tclose 0 0 .A Y1 = 1 ∧ (if startsGap (Y1 ++ Y2) then 1 else 0) = 1) := by
    by_cases hne : Y1 = []
    · left; rw [hne]; rfl
    · rw [hSeq hne]; exact zero_or_one_of_le_ite _ _ hlc
  have htcT := zero_or_one_of_le_ite _ _ htc
  -- leading / trailing situations at the cut
  have hlead : (consA Y1 = 0 ∨ consB Y1 = 0) → Y1 ≠ [] →
      w.tclose 0 0 .A Y1 = 0 ∧ (if startsGap (Y1 ++ Y2) then 1 else 0) = 1 := by
    intro h0 hne
    have hb : Col.both ∉ Y1 := by
      rcases h0 with h0 | h0
      · exact both_notin_of_consA_zero _ h0
      · exact both_notin_of_consB_zero _ h0
    refine ⟨STW.tclose_zero_of_no_both w Y1 0 0 .A hb, ?_⟩
    rw [hSeq hne, startsGap_of_no_both _ hne hs1 hb]; rfl
  have htrail : consB Y2 = 0 →
      w.mirror.tclose 0 0 .A Y2.reverse = 0 ∧ (if startsGap Y2.reverse then 1 else 0) = 1 := by
    intro h0
    have hb : Col.both ∉ Y2.reverse := fun h => both_notin_of_consB_zero _ h0 (List.mem_reverse.mp h)
    refine ⟨STW.tclose_zero_of_no_both w.mirror _ 0 0 .A hb, ?_⟩
    rw [startsGap_of_no_both _ hY2r hs2r hb]; rfl
  have hnil : Y1 = [] → w.tclose 0 0 .A Y1 = 0 := fun h => by rw [h]; rfl
  have hSg : startsGap (Y1 ++ Y2) = true → (if startsGap (Y1 ++ Y2) then 1 else 0 : Nat) = 1 := fun h => by
    rw [h]; rfl
  obtain ⟨hs0, hs1', hs2'⟩ := w.slackLo_ge
  obtain ⟨hh0, hh1⟩ := w.slackHi_ge
  -- abbreviations
  generalize w.tclose 0 0 .A Y1 = lc at hlcS hlead hnil
  generalize w.mirror.tclose 0 0 .A Y2.reverse = tc at htcT htrail
  generalize (if startsGap (Y1 ++ Y2) then 1 else 0 : Nat) = S at hlcS hlead hSg
  generalize (if startsGap Y2.reverse then 1 else 0 : Nat) = T at htcT htrail
  have hnn : 0 ≤ w.gpo * ((lc : Int) + (tc : Int)) :=
    Int.mul_nonneg hgpo (Int.add_nonneg (Int.natCast_nonneg _) (Int.natCast_nonneg _))
  -- it suffices to bound the deviation
  suffices hdev : (-w.slackHi ≤ J + w.stE (lastKind .A Y1) (firstKind .A Y2) (consA Y1) (consB Y1)) ∧
      (J + w.stE (lastKind .A Y1) (firstKind .A Y2) (consA Y1) (consB Y1)) + w.gpo * ((lc : Int) + (tc : Int)) ≤
        w.gpo * ((S : Int) + (T : Int)) + w.slackLo by
    obtain ⟨hd1, hd2⟩ := hdev
    simp only [Int.natCast_add]
    constructor <;> omega
  rcases hJ with ⟨hx, hy, hJ0⟩ | ⟨hx, hy, hJ0⟩ | ⟨hx, hy, hJ0⟩ | ⟨hx, hy, hJ0, hJt⟩
  · -- aligned / aligned
    rw [hx, hy, hJ0]
    simp only [STW.stE]
    exact ⟨by omega, lo_general _ _ _ _ _ _ _ hgpo hlcS htcT (by omega)⟩
  · -- aligned / gap
    rw [hx, hJ0]
    have hst : w.stE .A (firstKind .A Y2) (consA Y1) (consB Y1) =
        if w.termK (firstKind .A Y2) (consA Y1) (consB Y1) then 0 else - w.gpo := by
      rcases hy with hy | hy <;> rw [hy] <;> rfl
    rw [hst]
    by_cases hterm : w.termK (firstKind .A Y2) (consA Y1) (consB Y1) = true
    · rw [if_pos hterm]
      refine ⟨by omega, ?_⟩
      rcases lastKind_A_cases Y1 hs1 hx with h0 | ⟨hi, hj⟩
      · -- the cut is the near corner: a leading run starts the alignment
        have hS1 : startsGap (Y1 ++ Y2) = true := by
          rw [h0, List.nil_append]
          exact startsGap_of_firstKind .A Y2 hs2 (by rcases hy with hy | hy <;> rw [hy] <;> simp) hY2
        exact lo_lead _ _ _ _ _ _ _ hgpo (hnil h0) (hSg hS1) htcT (by omega)
      · -- a trailing gap-in-b run
        have hjB : consB Y1 = w.lenB := by
          rcases hy with hy | hy
          · rw [hy] at hterm
            have : consA Y1 = 0 ∨ consA Y1 = w.lenA := by simpa [STW.termK] using hterm
            omega
          · rw [hy] at hterm
            have : consB Y1 = 0 ∨ consB Y1 = w.lenB := by simpa [STW.termK] using hterm
            omega
        obtain ⟨ht0, hT1⟩ := htrail (by omega)
        exact lo_trail _ _ _ _ _ _ _ hgpo ht0 hT1 hlcS (by omega)
    · rw [if_neg hterm]
      exact ⟨by omega, lo_general _ _ _ _ _ _ _ hgpo hlcS htcT (by omega)⟩
  · -- gap / aligned
    rw [hy, hJ0]
    have hst : w.stE (lastKind .A Y1) .A (consA Y1) (consB Y1) =
        if w.termK (lastKind .A Y1) (consA Y1) (consB Y1) then 0 else - w.gpo := by
      rcases hx with hx | hx <;> rw [hx] <;> rfl
    rw [hst]
    have hne : Y1 ≠ [] := by
      intro h0; rw [h0] at hx; simp [lastKind] at hx
    by_cases hterm : w.termK (lastKind .A Y1) (consA Y1) (consB Y1) = true
    · rw [if_pos hterm]
      refine ⟨by omega, ?_⟩
      -- `Y2` starts with an aligned column, so it still consumes a residue of b
      have hcb : 1 ≤ consB Y2 := by
        cases Y2 with
        | nil => exact absurd rfl hY2
        | cons c cs =>
          cases c with
          | skip => exact absurd (by simp) hs2
          | both => simp
          | gapA => simp [firstKind, colKind] at hy
          | gapB => simp [firstKind, colKind] at hy
      have h0 : consA Y1 = 0 ∨ consB Y1 = 0 := by
        rcases hx with hx | hx
        · rw [hx] at hterm
          have : consA Y1 = 0 ∨ consA Y1 = w.lenA := by simpa [STW.termK] using hterm
          omega
        · rw [hx] at hterm
          have : consB Y1 = 0 ∨ consB Y1 = w.lenB := by simpa [STW.termK] using hterm
          omega
      obtain ⟨hl0, hS1⟩ := hlead h0 hne
      exact lo_lead _ _ _ _ _ _ _ hgpo hl0 hS1 htcT (by omega)
    · rw [if_neg hterm]
      exact ⟨by omega, lo_general _ _ _ _ _ _ _ hgpo hlcS htcT (by omega)⟩
  · -- inside a gap-in-b run
    rw [hx, hy]
    have hne : Y1 ≠ [] := by
      intro h0; rw [h0] at hx; simp [lastKind] at hx
    have hst : w.stE .GB .GB (consA Y1) (consB Y1) =
        if w.termK .GB (consA Y1) (consB Y1) then 0 else - w.gpe := by
      simp [STW.stE]
    rw [hst]
    by_cases hterm : w.termK .GB (consA Y1) (consB Y1) = true
    · rw [if_pos hterm, hJt hterm]
      refine ⟨by omega, ?_⟩
      have : consB Y1 = 0 ∨ consB Y1 = w.lenB := by simpa [STW.termK] using hterm
      rcases this with h0 | h0
      · obtain ⟨hl0, hS1⟩ := hlead (Or.inr h0) hne
        exact lo_lead _ _ _ _ _ _ _ hgpo hl0 hS1 htcT (by omega)
      · obtain ⟨ht0, hT1⟩ := htrail (by omega)
        exact lo_trail _ _ _ _ _ _ _ hgpo ht0 hT1 hlcS (by omega)
    · rw [if_neg hterm]
      rcases hJ0 with hJ0 | hJ0 <;> rw [hJ0]
      · exact ⟨by omega, lo_general _ _ _ _ _ _ _ hgpo hlcS htcT (by omega)⟩
      · exact ⟨by omega, lo_general _ _ _ _ _ _ _ hgpo hlcS htcT (by omega)⟩

end Kalign
