import KalignModel.Lemmas.DiagDirect3
import KalignModel.Lemmas.DpCodes
import KalignModel.Lemmas.ProfKernelPP
import KalignModel.Lemmas.ProfBuild2
/-!
# The controller on identical operands writes the diagonal's path (`RunOK`), also for groups of identical copies

`diag_runOK`: sequence – sequence.  `diag_runOK_sp`, `diag_runOK_pp`: a profile of `k` copies against the sequence / against a
profile of `m` copies — on such profiles the kernels are the sequence–sequence kernels with all scores multiplied by `K`
(`sp_realKernels_eq`, `pp_realKernels_eq`), and the per-residue condition is invariant under scaling by `K ≥ 1`.
-/
namespace Kalign

theorem diag_runOK (entry : Entry) (ap : AlnParam ExactScore) (gpo gpe tgpe : Int) (s : Nat → Nat → Int)
    (hap : ApOK ap gpo gpe tgpe s) (seq : Array Nat) (H : DiagRes gpo gpe tgpe s seq) :
    RunOK entry ap (.seqseq seq seq) seq.size seq.size (diagCols seq.size) := by
  have HC : CutHyp ap gpo gpe tgpe s seq seq seq.size seq.size (diagCols seq.size) :=
    diag_cutHyp ap gpo gpe tgpe s hap seq H
  have hfuel : seq.size + seq.size + 1 ≤ (initMem seq.size seq.size : MemE).fuel := by
    show seq.size + seq.size + 1 ≤ ((seq.size : Int) - 0).toNat + ((seq.size : Int) - 0).toNat + 2
    omega
  have hser := runner_path_cut ap gpo gpe tgpe s seq seq seq.size seq.size (diagCols seq.size) HC _ hfuel
  cases entry with
  | serial => exact hser
  | parallel =>
    have heq := runner_eq_serial_cut ap gpo gpe tgpe s seq seq seq.size seq.size (diagCols seq.size) HC
      (initMem seq.size seq.size : MemE).fuel _ (initMem_pre (diagCols seq.size) _ _ (consA_diag _) (consB_diag _)) (by
        show ((seq.size : Int) - 0).toNat + ((seq.size : Int) - 0).toNat + 1 ≤
          ((seq.size : Int) - 0).toNat + ((seq.size : Int) - 0).toNat + 2
        omega)
    unfold RunOK alnRun
    simp only
    rw [heq]
    exact hser

/-- the per-residue condition is invariant under multiplication of all scores by `K ≥ 1` -/
theorem DiagRes.scale {gpo gpe tgpe : Int} {s : Nat → Nat → Int} {seq : Array Nat} (H : DiagRes gpo gpe tgpe s seq)
    (K : Nat) (hK : 1 ≤ K) :
    DiagRes ((K : Int) * gpo) ((K : Int) * gpe) ((K : Int) * tgpe) (fun x y => (K : Int) * s x y) seq := by
  have hK0 : (0 : Int) ≤ (K : Int) := Int.natCast_nonneg K
  have hK1 : (1 : Int) ≤ (K : Int) := by omega
  refine ⟨Int.mul_nonneg hK0 H.hgpo, Int.mul_nonneg hK0 H.hgpe, Int.mul_nonneg hK0 H.htgpe, ?_, ?_⟩
  · intro x hx
    have h := H.hself x hx
    obtain ⟨g, hg⟩ : ∃ g, g = min gpo (min gpe tgpe) := ⟨_, rfl⟩
    rw [← hg] at h
    have h1 : (K : Int) * g ≤ (K : Int) * gpo := Int.mul_le_mul_of_nonneg_left (by omega) hK0
    have h2 : (K : Int) * g ≤ (K : Int) * gpe := Int.mul_le_mul_of_nonneg_left (by omega) hK0
    have h3 : (K : Int) * g ≤ (K : Int) * tgpe := Int.mul_le_mul_of_nonneg_left (by omega) hK0
    have h4 : (1 : Int) * (s x x + 2 * g) ≤ (K : Int) * (s x x + 2 * g) := Int.mul_le_mul_of_nonneg_right hK1 (by omega)
    have h5 : (K : Int) * (s x x + 2 * g) = (K : Int) * s x x + 2 * ((K : Int) * g) := by
      rw [Int.mul_add, Int.mul_left_comm]
    show 0 < (K : Int) * s x x + 2 * min ((K : Int) * gpo) (min ((K : Int) * gpe) ((K : Int) * tgpe))
    omega
  · intro x hx y hy
    have h := H.hdom x hx y hy
    have h1 : (K : Int) * (2 * s x y) ≤ (K : Int) * (s x x + s y y) := Int.mul_le_mul_of_nonneg_left h hK0
    rw [Int.mul_add, Int.mul_left_comm] at h1
    exact h1

theorem diagCols_swap (n : Nat) : (diagCols n).map Col.swap = diagCols n := by
  simp [diagCols, Col.swap]

/-- a profile of `k` identical copies (rows) against the sequence itself (columns) -/
theorem diag_runOK_sp (entry : Entry) (ap : AlnParam ExactScore) (gpo gpe tgpe : Int) (s : Nat → Nat → Int)
    (hap : ApOK ap gpo gpe tgpe s) (seq : Array Nat) (h23 : ∀ i, seq.getD i 0 < 23) (H : DiagRes gpo gpe tgpe s seq)
    (prof : Array ExactScore) (k : Nat) (hk : 1 ≤ k) (hP : ProfOK prof seq k 1 gpo gpe tgpe s) :
    RunOK entry ap (.seqprof prof seq k) seq.size seq.size (diagCols seq.size) := by
  have hK := sp_realKernels_eq ap gpo gpe tgpe s hap prof seq seq k hP h23 seq.size
  have := diag_runOK entry (scaleParam ap k) _ _ _ _ (scaleParam_ok ap gpo gpe tgpe s hap k) seq (H.scale k hk)
  unfold RunOK alnRun at this ⊢
  simp only at this ⊢
  rw [hK]
  exact this

/-- a profile of `k` identical copies (rows) against a profile of `m` identical copies (columns) -/
theorem diag_runOK_pp (entry : Entry) (ap : AlnParam ExactScore) (gpo gpe tgpe : Int) (s : Nat → Nat → Int)
    (hap : ApOK ap gpo gpe tgpe s) (hsym : ∀ x y, s x y = s y x) (seq : Array Nat) (h23 : ∀ i, seq.getD i 0 < 23)
    (H : DiagRes gpo gpe tgpe s seq) (prof1 prof2 : Array ExactScore) (k m : Nat) (hk : 1 ≤ k) (hm : 1 ≤ m)
    (hP1 : ProfOK prof1 seq k m gpo gpe tgpe s) (hP2 : ProfOK prof2 seq m k gpo gpe tgpe s) :
    RunOK entry ap (.profprof prof1 prof2) seq.size seq.size (diagCols seq.size) := by
  have hK := pp_realKernels_eq ap gpo gpe tgpe s hap hsym prof1 prof2 seq seq k m hk hP1 hP2 h23
  have := diag_runOK entry (scaleParam ap (k * m)) _ _ _ _ (scaleParam_ok ap gpo gpe tgpe s hap (k * m)) seq
    (H.scale (k * m) (Nat.mul_pos hk hm))
  unfold RunOK alnRun at this ⊢
  simp only at this ⊢
  rw [hK]
  exact this

end Kalign
