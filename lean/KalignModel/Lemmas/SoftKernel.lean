import KalignModel.Lemmas.SoftClass
import KalignModel.Lemmas.KernelSS
import KalignModel.Lemmas.MeetLevel
/-!
# The DP kernels on the software binary32: every cell is sentinel-like or bounded, in the pattern of the exact kernel

`genTab_cls`: the table of a kernel on `SoftF32` and the table of a kernel on the exact carrier whose cell formulas correspond
(`OpsRel`: class in ⟹ class out) have the same finiteness pattern: cell `(p,k)` of the `SoftF32` table is sentinel-like
(`-FLT_MAX` or `-∞`) where the exact cell is `−∞`, and finite with magnitude `≤ (B₀ + 2(p+k))·2²⁰` where it is finite.
`ssOps_rel`: the sequence–sequence cell formulas with parameters bounded by 2²⁰ correspond to `absOps c p` for every `c`.
-/
namespace Kalign
open SoftF32

/-! ## the sequence–sequence kernels as tables (any carrier) -/
section
variable {α : Type} [Score α]

/-- cell formulas of row `p` of `ssForward` -/
def ssOpsF (ap : AlnParam α) (seq1 seq2 : Array Nat) (r : Rect) (p : Nat) : RowOps α :=
  { gbFirst := ssGb ap (r.startb == 0)
    aCell := fun k pa pga pgb =>
      Score.add (smax3 pa (Score.sub pga ap.gpo) (Score.sub pgb ap.gpo))
        (ap.sub (seq1.getD (r.starta + p) 0) (seq2.getD (r.startb + k - 1) 0))
    gaCell := fun _ xga xa => smax (Score.sub xga ap.gpe) (Score.sub xa ap.gpo)
    gbMid := ssGb ap false
    gbLast := ssGb ap (r.endb == r.lenB) }

/-- cell formulas of row `p` (counted from the far end) of `ssBackward` -/
def ssOpsB (ap : AlnParam α) (seq1 seq2 : Array Nat) (r : Rect) (p : Nat) : RowOps α :=
  { gbFirst := ssGb ap (r.endb == r.lenB)
    aCell := fun k pa pga pgb =>
      Score.add (smax3 pa (Score.sub pga ap.gpo) (Score.sub pgb ap.gpo))
        (ap.sub (seq1.getD (r.starta + (r.enda - r.starta) - 1 - p) 0) (seq2.getD (r.endb - k) 0))
    gaCell := fun _ xga xa => smax (Score.sub xga ap.gpe) (Score.sub xa ap.gpo)
    gbMid := ssGb ap false
    gbLast := ssGb ap (r.startb == 0) }

theorem ssForward_eq_genTab (ap : AlnParam α) (seq1 seq2 : Array Nat) (r : Rect) (hb : r.startb < r.endb)
    (start : States α) :
    ssForward ap seq1 seq2 r start =
      (List.range (r.endb - r.startb + 1)).map
        (genTab (ssGaInit ap (r.startb == 0)) (r.endb - r.startb) start (ssOpsF ap seq1 seq2 r) (r.enda - r.starta)) := by
  unfold ssForward
  simp only
  rw [List.range'_eq_map_range, List.map_map]
  rw [runKernel_eq_genTab _ (r.endb - r.startb) (by omega)]
  rfl

theorem ssBackward_eq_genTab (ap : AlnParam α) (seq1 seq2 : Array Nat) (r : Rect) (hb : r.startb < r.endb)
    (start : States α) :
    ssBackward ap seq1 seq2 r start =
      ((List.range (r.endb - r.startb + 1)).map
        (genTab (ssGaInit ap (r.endb == r.lenB)) (r.endb - r.startb) start (ssOpsB ap seq1 seq2 r)
          (r.enda - r.starta))).reverse := by
  unfold ssBackward
  simp only
  rw [range'_reverse_eq, List.map_map]
  rw [runKernel_eq_genTab _ (r.endb - r.startb) (by omega)]
  rfl

end

/-! ## finiteness of the exact cell formulas -/

theorem gGap_isSome (term : Bool) (gpo gpe tgpe : Int) (g a : Option Int) :
    (gGap term gpo gpe tgpe g a).isSome = (g.isSome || a.isSome) := by
  unfold gGap
  cases term <;> cases g <;> cases a <;> simp [omax, osub]

theorem gAl_isSome (gpo s : Int) (a ga gb : Option Int) :
    (gAl gpo s a ga gb).isSome = (a.isSome || ga.isSome || gb.isSome) := by
  unfold gAl
  cases a <;> cases ga <;> cases gb <;> simp [omax, osub, oaddi]

/-! ## correspondence of cell formulas -/

/-- the two carriers' classes of one DP state -/
def StCls (B : Nat) (s : States SoftF32) (e : States ExactScore) : Prop :=
  Cls B s.a e.a.isSome ∧ Cls B s.ga e.ga.isSome ∧ Cls B s.gb e.gb.isSome

theorem StCls.mono {B B' : Nat} {s : States SoftF32} {e : States ExactScore} (h : StCls B s e) (hB : B ≤ B') :
    StCls B' s e := ⟨h.1.mono hB, h.2.1.mono hB, h.2.2.mono hB⟩

theorem stCls_negInf (B : Nat) : StCls B (States.negInf : States SoftF32) (States.negInf : States ExactScore) :=
  ⟨cls_negInf B, cls_negInf B, cls_negInf B⟩

/-- class in ⟹ class out, with the bound growing by at most one unit (two for the aligned cell) -/
structure OpsRel (oS : RowOps SoftF32) (oE : RowOps ExactScore) : Prop where
  gbFirst : ∀ (B : Nat) (x y : SoftF32) (ex ey : ExactScore), B + 2 < 16777216 → Cls B x ex.isSome → Cls B y ey.isSome →
    Cls (B + 1) (oS.gbFirst x y) (oE.gbFirst ex ey).isSome
  aCell : ∀ (k B : Nat) (x y z : SoftF32) (ex ey ez : ExactScore), B + 2 < 16777216 → Cls B x ex.isSome →
    Cls B y ey.isSome → Cls B z ez.isSome → Cls (B + 2) (oS.aCell k x y z) (oE.aCell k ex ey ez).isSome
  gaCell : ∀ (k B : Nat) (x y : SoftF32) (ex ey : ExactScore), B + 2 < 16777216 → Cls B x ex.isSome → Cls B y ey.isSome →
    Cls (B + 1) (oS.gaCell k x y) (oE.gaCell k ex ey).isSome
  gbMid : ∀ (B : Nat) (x y : SoftF32) (ex ey : ExactScore), B + 2 < 16777216 → Cls B x ex.isSome → Cls B y ey.isSome →
    Cls (B + 1) (oS.gbMid x y) (oE.gbMid ex ey).isSome
  gbLast : ∀ (B : Nat) (x y : SoftF32) (ex ey : ExactScore), B + 2 < 16777216 → Cls B x ex.isSome → Cls B y ey.isSome →
    Cls (B + 1) (oS.gbLast x y) (oE.gbLast ex ey).isSome

def GaRel (gS : Nat → SoftF32 → SoftF32 → SoftF32) (gE : Nat → ExactScore → ExactScore → ExactScore) : Prop :=
  ∀ (k B : Nat) (x y : SoftF32) (ex ey : ExactScore), B + 2 < 16777216 → Cls B x ex.isSome → Cls B y ey.isSome →
    Cls (B + 1) (gS k x y) (gE k ex ey).isSome

/-! ## the tables -/

theorem genRow0_cls (gS : Nat → SoftF32 → SoftF32 → SoftF32) (gE : Nat → ExactScore → ExactScore → ExactScore)
    (hg : GaRel gS gE) (n : Nat) (sS : States SoftF32) (sE : States ExactScore) (B0 L : Nat)
    (hL : B0 + 2 * L + 2 < 16777216) (hs : StCls B0 sS sE) :
    ∀ k, k ≤ L → StCls (B0 + 2 * k) (genRow0 gS n sS k) (genRow0 gE n sE k) := by
  intro k
  induction k with
  | zero => intro _; simpa [genRow0] using hs
  | succ k ih =>
    intro hk
    have ih' := ih (by omega)
    simp only [genRow0]
    by_cases hkn : k + 1 < n
    · rw [if_pos hkn, if_pos hkn]
      refine ⟨cls_negInf _, ?_, cls_negInf _⟩
      exact (hg (k + 1) (B0 + 2 * k) _ _ _ _ (by omega) ih'.2.1 ih'.1).mono (by omega)
    · rw [if_neg hkn, if_neg hkn]
      exact stCls_negInf _

theorem genRow_cls (oS : RowOps SoftF32) (oE : RowOps ExactScore) (ho : OpsRel oS oE) (n : Nat)
    (pS : Nat → States SoftF32) (pE : Nat → States ExactScore) (B0 L p : Nat) (hL : B0 + 2 * L + 2 < 16777216)
    (hp : ∀ k, p + k ≤ L → StCls (B0 + 2 * (p + k)) (pS k) (pE k)) :
    ∀ k, p + 1 + k ≤ L → StCls (B0 + 2 * (p + 1 + k)) (genRow oS n pS k) (genRow oE n pE k) := by
  intro k
  induction k with
  | zero =>
    intro hk
    have h0 := hp 0 (by omega)
    simp only [genRow]
    refine ⟨cls_negInf _, cls_negInf _, ?_⟩
    exact (ho.gbFirst (B0 + 2 * (p + 0)) _ _ _ _ (by omega) h0.2.2 h0.1).mono (by omega)
  | succ k ih =>
    intro hk
    have ih' := ih (by omega)
    have hk0 := hp k (by omega)
    have hk1 := hp (k + 1) (by omega)
    have hA := (ho.aCell (k + 1) (B0 + 2 * (p + k)) _ _ _ _ _ _ (by omega) hk0.1 hk0.2.1 hk0.2.2).mono
      (show B0 + 2 * (p + k) + 2 ≤ B0 + 2 * (p + 1 + (k + 1)) by omega)
    by_cases hkn : k + 1 < n
    · simp only [genRow, if_pos hkn]
      refine ⟨hA, ?_, ?_⟩
      · exact (ho.gaCell (k + 1) (B0 + 2 * (p + 1 + k)) _ _ _ _ (by omega) ih'.2.1 ih'.1).mono (by omega)
      · exact (ho.gbMid (B0 + 2 * (p + (k + 1))) _ _ _ _ (by omega) hk1.2.2 hk1.1).mono (by omega)
    · simp only [genRow, if_neg hkn]
      refine ⟨hA, cls_negInf _, ?_⟩
      exact (ho.gbLast (B0 + 2 * (p + (k + 1))) _ _ _ _ (by omega) hk1.2.2 hk1.1).mono (by omega)

/-- **the finiteness pattern of a `SoftF32` kernel table is that of the corresponding exact table**, with explicit bounds -/
theorem genTab_cls (gS : Nat → SoftF32 → SoftF32 → SoftF32) (gE : Nat → ExactScore → ExactScore → ExactScore)
    (hg : GaRel gS gE) (n : Nat) (sS : States SoftF32) (sE : States ExactScore)
    (oS : Nat → RowOps SoftF32) (oE : Nat → RowOps ExactScore) (ho : ∀ p, OpsRel (oS p) (oE p))
    (B0 L : Nat) (hL : B0 + 2 * L + 2 < 16777216) (hs : StCls B0 sS sE) :
    ∀ p k, p + k ≤ L → StCls (B0 + 2 * (p + k)) (genTab gS n sS oS p k) (genTab gE n sE oE p k) := by
  intro p
  induction p with
  | zero =>
    intro k hk
    simp only [genTab, Nat.zero_add]
    exact genRow0_cls gS gE hg n sS sE B0 L hL hs k (by omega)
  | succ p ih =>
    intro k hk
    simp only [genTab]
    exact genRow_cls (oS p) (oE p) (ho p) n _ _ B0 L p hL ih k hk

/-! ## the sequence–sequence cell formulas -/

/-- the parameters are finite and bounded by 2²⁰ (`aln_param_init` caps the penalties at 1e6 < 2²⁰) -/
structure ApBnd (ap : AlnParam SoftF32) : Prop where
  gpo : absLe ap.gpo 1048576
  gpe : absLe ap.gpe 1048576
  tgpe : absLe ap.tgpe 1048576
  sub : ∀ i j, absLe (ap.sub i j) 1048576

theorem absLe_unit {x : SoftF32} (h : absLe x 1048576) : absLe x (1 * 1048576) := by simpa using h

theorem ssGb_cls (ap : AlnParam SoftF32) (hap : ApBnd ap) (term : Bool) (B : Nat) (x y : SoftF32) (p q : Bool)
    (hB : B + 2 < 16777216) (hx : Cls B x p) (hy : Cls B y q) : Cls (B + 1) (ssGb ap term x y) (p || q) := by
  unfold ssGb
  cases term
  · simp only [Bool.false_eq_true, if_false]
    exact cls_smax (cls_sub_pen hx (absLe_unit hap.gpe) (by omega)) (cls_sub_pen hy (absLe_unit hap.gpo) (by omega))
      (by omega)
  · simp only [if_true]
    exact cls_sub_pen (cls_smax hx hy (by omega)) (absLe_unit hap.tgpe) (by omega)

theorem ssGaInit_cls (ap : AlnParam SoftF32) (hap : ApBnd ap) (term : Bool) (k B : Nat) (x y : SoftF32) (p q : Bool)
    (hB : B + 2 < 16777216) (hx : Cls B x p) (hy : Cls B y q) : Cls (B + 1) (ssGaInit ap term k x y) (p || q) :=
  ssGb_cls ap hap term B x y p q hB hx hy

theorem ssAl_cls (ap : AlnParam SoftF32) (hap : ApBnd ap) (i j B : Nat) (x y z : SoftF32) (p q r : Bool)
    (hB : B + 2 < 16777216) (hx : Cls B x p) (hy : Cls B y q) (hz : Cls B z r) :
    Cls (B + 2) (Score.add (smax3 x (Score.sub y ap.gpo) (Score.sub z ap.gpo)) (ap.sub i j)) (p || q || r) := by
  have hy' : Cls (B + 1) (Score.sub y ap.gpo) q := cls_sub_pen (B' := 1) hy (absLe_unit hap.gpo) (by omega)
  have hz' : Cls (B + 1) (Score.sub z ap.gpo) r := cls_sub_pen (B' := 1) hz (absLe_unit hap.gpo) (by omega)
  have hx' : Cls (B + 1) x p := hx.mono (by omega)
  have h1 : Cls (B + 1) (smax3 x (Score.sub y ap.gpo) (Score.sub z ap.gpo)) (p || q || r) :=
    cls_smax3 hx' hy' hz' (by omega)
  have hs : Cls 1 (ap.sub i j) true := by
    rw [cls_true]; exact absLe_unit (hap.sub i j)
  have h2 := cls_add h1 hs (by omega)
  rw [Bool.and_true] at h2
  exact h2

theorem ssGa_cls (ap : AlnParam SoftF32) (hap : ApBnd ap) (B : Nat) (x y : SoftF32) (p q : Bool)
    (hB : B + 2 < 16777216) (hx : Cls B x p) (hy : Cls B y q) :
    Cls (B + 1) (smax (Score.sub x ap.gpe) (Score.sub y ap.gpo)) (p || q) :=
  cls_smax (cls_sub_pen hx (absLe_unit hap.gpe) (by omega)) (cls_sub_pen hy (absLe_unit hap.gpo) (by omega)) (by omega)

theorem ssOpsF_rel (ap : AlnParam SoftF32) (hap : ApBnd ap) (seq1 seq2 : Array Nat) (r : Rect) (c : KCfg) (p : Nat) :
    OpsRel (ssOpsF ap seq1 seq2 r p) (absOps c p) := by
  refine ⟨?_, ?_, ?_, ?_, ?_⟩
  · intro B x y ex ey hB hx hy
    simp only [ssOpsF, absOps, gGap_isSome]
    exact ssGb_cls ap hap _ B x y _ _ hB hx hy
  · intro k B x y z ex ey ez hB hx hy hz
    simp only [ssOpsF, absOps, gAl_isSome]
    exact ssAl_cls ap hap _ _ B x y z _ _ _ hB hx hy hz
  · intro k B x y ex ey hB hx hy
    simp only [ssOpsF, absOps, gGap_isSome]
    exact ssGa_cls ap hap B x y _ _ hB hx hy
  · intro B x y ex ey hB hx hy
    simp only [ssOpsF, absOps, gGap_isSome]
    exact ssGb_cls ap hap _ B x y _ _ hB hx hy
  · intro B x y ex ey hB hx hy
    simp only [ssOpsF, absOps, gGap_isSome]
    exact ssGb_cls ap hap _ B x y _ _ hB hx hy

theorem ssOpsB_rel (ap : AlnParam SoftF32) (hap : ApBnd ap) (seq1 seq2 : Array Nat) (r : Rect) (c : KCfg) (p : Nat) :
    OpsRel (ssOpsB ap seq1 seq2 r p) (absOps c p) := by
  refine ⟨?_, ?_, ?_, ?_, ?_⟩
  · intro B x y ex ey hB hx hy
    simp only [ssOpsB, absOps, gGap_isSome]
    exact ssGb_cls ap hap _ B x y _ _ hB hx hy
  · intro k B x y z ex ey ez hB hx hy hz
    simp only [ssOpsB, absOps, gAl_isSome]
    exact ssAl_cls ap hap _ _ B x y z _ _ _ hB hx hy hz
  · intro k B x y ex ey hB hx hy
    simp only [ssOpsB, absOps, gGap_isSome]
    exact ssGa_cls ap hap B x y _ _ hB hx hy
  · intro B x y ex ey hB hx hy
    simp only [ssOpsB, absOps, gGap_isSome]
    exact ssGb_cls ap hap _ B x y _ _ hB hx hy
  · intro B x y ex ey hB hx hy
    simp only [ssOpsB, absOps, gGap_isSome]
    exact ssGb_cls ap hap _ B x y _ _ hB hx hy

theorem ssGaInit_rel (ap : AlnParam SoftF32) (hap : ApBnd ap) (term : Bool) (c : KCfg) :
    GaRel (ssGaInit ap term) (absGaInit c) := by
  intro k B x y ex ey hB hx hy
  simp only [absGaInit, gGap_isSome]
  exact ssGaInit_cls ap hap term k B x y _ _ hB hx hy

end Kalign
