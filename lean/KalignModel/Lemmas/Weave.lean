import KalignModel.Model.Weave
/-! Weave algebra **W** (DESIGN.md §3): helper lemmas for C01 / C10 / C12. -/
namespace Kalign
variable {α : Type}

theorem degap_replicate (n : Nat) : degap (List.replicate n (none : Option α)) = [] := by
  induction n with
  | zero => rfl
  | succ n ih => simp [degap, List.replicate_succ]

theorem degap_append (a b : List (Option α)) : degap (a ++ b) = degap a ++ degap b := by
  simp [degap, List.filterMap_append]

theorem degap_makeLinear (s : List α) (g : List Nat) (h : g.length = s.length + 1) :
    degap (makeLinear s g) = s := by
  induction s generalizing g with
  | nil =>
    match g, h with
    | [x], _ => simp [makeLinear, degap]
  | cons x xs ih =>
    match g, h with
    | y :: ys, h =>
      simp only [makeLinear]
      have := ih ys (by simpa using h)
      simp [degap] at this ⊢
      exact this

theorem rep_cons_rep {β : Type} (x : β) (a b : Nat) (L : List β) :
    List.replicate a x ++ x :: (List.replicate b x ++ L) = List.replicate (a + 1 + b) x ++ L := by
  induction a with
  | zero =>
    have : 0 + 1 + b = b + 1 := by omega
    rw [this, List.replicate_succ]; simp
  | succ a ih =>
    have : a + 1 + 1 + b = (a + 1 + b) + 1 := by omega
    rw [this, List.replicate_succ, List.replicate_succ, List.cons_append, List.cons_append, ih]

theorem insertCols_replicate_append (g : Nat) (rest : List (Option α)) (ng : List Nat)
    (h : g ≤ ng.length) :
    insertCols (List.replicate g none ++ rest) ng
      = List.replicate (g + (ng.take g).sum) none ++ insertCols rest (ng.drop g) := by
  induction g generalizing ng with
  | zero => simp
  | succ g ih =>
    match ng, h with
    | n :: ns, h =>
      have h' : g ≤ ns.length := by simpa using h
      simp only [List.replicate_succ, List.cons_append, insertCols, List.take_succ_cons,
        List.sum_cons, List.drop_succ_cons]
      rw [ih ns h']
      rw [rep_cons_rep]
      congr 2; omega

theorem length_makeLinear (s : List α) (g : List Nat) (h : g.length = s.length + 1) :
    (makeLinear s g).length = s.length + g.sum := by
  induction s generalizing g with
  | nil => match g, h with
    | [x], _ => simp [makeLinear]
  | cons x xs ih => match g, h with
    | y :: ys, h =>
      simp only [makeLinear, List.length_append, List.length_replicate, List.length_cons, List.sum_cons]
      rw [ih ys (by simpa using h)]; omega

/-- **weave**: the gap-vector update of `update_gaps` is exactly the insertion of whole gap columns
into the finished row. -/
theorem weave (s : List α) (g ng : List Nat) (hg : g.length = s.length + 1)
    (hng : ng.length = (makeLinear s g).length + 1) :
    insertCols (makeLinear s g) ng = makeLinear s (updateGaps g ng) := by
  induction s generalizing g ng with
  | nil =>
    match g, hg with
    | [x], _ =>
      simp only [makeLinear, List.length_replicate] at hng
      simp only [makeLinear, updateGaps]
      have := insertCols_replicate_append (α := α) x [] ng (by omega)
      simp only [List.append_nil] at this
      rw [this]
      have hd : (ng.drop x).length = 1 := by simp [hng]
      match hdd : ng.drop x, hd with
      | [n], _ =>
        simp only [insertCols]
        rw [List.replicate_append_replicate]
        congr 1
        have : ng.take (x+1) = ng.take x ++ [n] := by
          rw [List.take_add_one]; congr 1
          have := congrArg List.head? hdd; simpa [List.head?_drop] using this
        rw [this]; simp; omega
  | cons y ys ih =>
    match g, hg with
    | x :: xs, hg =>
      have hxs : xs.length = ys.length + 1 := by simpa using hg
      have hl := length_makeLinear ys xs hxs
      simp only [makeLinear, List.length_append, List.length_replicate, List.length_cons] at hng
      simp only [makeLinear, updateGaps]
      rw [insertCols_replicate_append x _ ng (by omega)]
      have hd : (ng.drop x).length = (makeLinear ys xs).length + 2 := by simp [hng]; omega
      match hdd : ng.drop x, hd with
      | n :: rest, hd =>
        simp only [insertCols]
        have hrest : rest = ng.drop (x+1) := by
          have := congrArg List.tail hdd; simpa [List.tail_drop] using this.symm
        rw [hrest, ih xs (ng.drop (x+1)) hxs (by rw [← hrest]; simpa using hd)]
        rw [← List.append_assoc, List.replicate_append_replicate]
        congr 2
        have : ng.take (x+1) = ng.take x ++ [n] := by
          rw [List.take_add_one]; congr 1
          have := congrArg List.head? hdd; simpa [List.head?_drop] using this
        rw [this]; simp; omega

end Kalign
