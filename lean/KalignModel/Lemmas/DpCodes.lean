import KalignModel.Lemmas.Mirror
/-!
# The dynamic-programming part of `do_align`: controller, `mirror_path_n` for swapped operands, `add_gap_info_to_path_n`
-/
namespace Kalign

/-- the column codes `do_align` computes from the operands it hands to the controller (`Model/DoAlign.lean`, the lines
between `initMem` and `expandPath`); `la × lb` is the problem as the controller sees it, `lenA × lenB` the caller's -/
def dpCodes (entry : Entry) (ap : AlnParam ExactScore) (ops : Operands ExactScore) (swapped : Bool)
    (la lb lenA lenB : Nat) : Option (List Nat) :=
  let m := alnRun entry ap ops la lb (initMem la lb)
  if m.fault then none
  else
    let raw := m.pathEntries la
    let path := if swapped then mirrorPath lenA raw else raw
    expandPath lenB path

/-- the controller does not fault and writes the path of `P` -/
def RunOK (entry : Entry) (ap : AlnParam ExactScore) (ops : Operands ExactScore) (la lb : Nat) (P : List Col) : Prop :=
  (alnRun entry ap ops la lb (initMem la lb)).fault = false ∧
    (alnRun entry ap ops la lb (initMem la lb)).pathEntries la = pathFrom 0 P

theorem initMem_pre (P : List Col) (lenA lenB : Nat) (hA : consA P = lenA) (hB : consB P = lenB) :
    Pre P lenA lenB (initMem lenA lenB : MemE) := by
  refine ⟨rfl, fun i _ _ => Or.inl (initMemE_pe _ _ i), ?_, by show (0 : Int) ≤ 0; omega, Or.inr ?_⟩
  · refine ⟨?_, ?_, ?_⟩ <;> simp [initMem] <;> omega
  · refine ⟨0, lenA, 0, lenB, rfl, rfl, rfl, rfl, ?_, ?_, ?_⟩
    · exact ⟨[], P, [], by simp, rfl, rfl, by simpa using hA, by simpa using hB, rfl, rfl,
        Or.inl (by simp), Or.inl (by simp)⟩
    · show ((Array.replicate (max lenA lenB + 2) States.negInf).set! 0 oneHotA).getD 0 States.negInf = hot .A
      simp [Array.getD]; rfl
    · show ((Array.replicate (max lenA lenB + 2) States.negInf).set! 0 oneHotA).getD 0 States.negInf = hot .A
      simp [Array.getD]; rfl

/-- sequence–sequence: both entry points write the path of the robust optimum -/
theorem ss_runOK (entry : Entry) (ap : AlnParam ExactScore) (gpo gpe tgpe : Int) (s : Nat → Nat → Int)
    (seq1 seq2 : Array Nat) (P : List Col) (H : OptHyp ap gpo gpe tgpe s seq1 seq2 seq1.size seq2.size P) :
    RunOK entry ap (.seqseq seq1 seq2) seq1.size seq2.size P := by
  have hfuel : seq1.size + seq2.size + 1 ≤ (initMem seq1.size seq2.size : MemE).fuel := by
    show seq1.size + seq2.size + 1 ≤ ((seq1.size : Int) - 0).toNat + ((seq2.size : Int) - 0).toNat + 2
    omega
  have hser := runner_path_opt ap gpo gpe tgpe s seq1 seq2 seq1.size seq2.size P H _ hfuel
  cases entry with
  | serial => exact hser
  | parallel =>
    have heq := runner_eq_serial_opt ap gpo gpe tgpe s seq1 seq2 seq1.size seq2.size P H
      (initMem seq1.size seq2.size : MemE).fuel _ (initMem_pre P _ _ H.hA H.hB) (by
        show ((seq1.size : Int) - 0).toNat + ((seq2.size : Int) - 0).toNat + 1 ≤
          ((seq1.size : Int) - 0).toNat + ((seq2.size : Int) - 0).toNat + 2
        omega)
    unfold RunOK alnRun
    simp only
    rw [heq]
    exact hser

theorem both_mem_of_valid (P : List Col) (la lb : Nat) (hV : ValidCols P la lb) (hadj : adjOK .A P = true)
    (h1 : 1 ≤ la) (h2 : 1 ≤ lb) : Col.both ∈ P := by
  refine Classical.byContradiction fun hnb => ?_
  have := (gaps_same .A P hadj hnb).2.2
  rw [hV.2.1, hV.2.2] at this
  omega

theorem dp_unswapped (entry : Entry) (ap : AlnParam ExactScore) (ops : Operands ExactScore) (lenA lenB : Nat)
    (P : List Col) (hrun : RunOK entry ap ops lenA lenB P)
    (hV : ValidCols P lenA lenB) (hadj : adjOK .A P = true) (h1 : 1 ≤ lenA) (h2 : 1 ≤ lenB) :
    ∃ codes, dpCodes entry ap ops false lenA lenB lenA lenB = some codes ∧ codes.map Col.ofCode = P := by
  unfold dpCodes
  simp only [hrun.1, hrun.2, Bool.false_eq_true, if_false]
  exact expandPath_pathFrom lenB P hadj hV.2.2 (by rw [hV.2.1]; exact h1) (both_mem_of_valid P _ _ hV hadj h1 h2)

/-- swapped operands: the controller works on `(b, a)` and writes the path of the exchanged column list; `mirror_path_n`
and `add_gap_info_to_path_n` give back `P` -/
theorem dp_swapped (entry : Entry) (ap : AlnParam ExactScore) (ops : Operands ExactScore) (lenA lenB : Nat)
    (P : List Col) (hrun : RunOK entry ap ops lenB lenA (P.map Col.swap))
    (hV : ValidCols P lenA lenB) (hadj : adjOK .A P = true) (h1 : 1 ≤ lenA) (h2 : 1 ≤ lenB) :
    ∃ codes, dpCodes entry ap ops true lenB lenA lenA lenB = some codes ∧ codes.map Col.ofCode = P := by
  unfold dpCodes
  simp only [hrun.1, hrun.2, Bool.false_eq_true, if_false, if_true]
  rw [mirrorPath_pathFrom _ lenA (by rw [consB_swap]; exact hV.2.1), map_swap_swap]
  exact expandPath_pathFrom lenB P hadj hV.2.2 (by rw [hV.2.1]; exact h1) (both_mem_of_valid P _ _ hV hadj h1 h2)

theorem map_swap_injective {P Q : List Col} (h : P.map Col.swap = Q.map Col.swap) : P = Q := by
  have := congrArg (List.map Col.swap) h
  rwa [map_swap_swap, map_swap_swap] at this

end Kalign
