import KalignModel.Model.Checked
import KalignModel.Lemmas.NoFaultRun
/-!
# The checked kernels agree with the totalised kernels on a valid rectangle (slice AD, item 1)
-/
namespace Kalign

/-! ## the generic combinators -/

theorem getElem?_eq_some_getD {γ : Type} (a : Array γ) (i : Nat) (d : γ) (h : i < a.size) :
    a[i]? = some (a.getD i d) := by
  simp [Array.getD, h]

theorem asetC_eq {γ : Type} (a : Array γ) (i : Nat) (v : γ) (h : i < a.size) : asetC a i v = some (a.set! i v) := by
  simp [asetC, h]

theorem foldlC_eq {σ γ : Type} (fC : σ → γ → Option σ) (f : σ → γ → σ) (l : List γ) (s : σ)
    (h : ∀ s x, x ∈ l → fC s x = some (f s x)) : foldlC fC s l = some (l.foldl f s) := by
  induction l generalizing s with
  | nil => rfl
  | cons x xs ih =>
    rw [foldlC, h s x (by simp), Option.bind_some, List.foldl_cons]
    exact ih _ (fun s y hy => h s y (by simp [hy]))

/-- `foldlC` with an invariant on the state -/
theorem foldlC_eq_inv {σ γ : Type} (I : σ → Prop) (fC : σ → γ → Option σ) (f : σ → γ → σ) (l : List γ) (s : σ)
    (hs : I s) (h : ∀ s x, x ∈ l → I s → fC s x = some (f s x) ∧ I (f s x)) :
    foldlC fC s l = some (l.foldl f s) ∧ I (l.foldl f s) := by
  induction l generalizing s with
  | nil => exact ⟨rfl, hs⟩
  | cons x xs ih =>
    obtain ⟨h1, h2⟩ := h s x (by simp) hs
    rw [foldlC, h1, Option.bind_some, List.foldl_cons]
    exact ih _ h2 (fun s y hy => h s y (by simp [hy]))

theorem foldrC_eq_inv {σ γ : Type} (I : σ → Prop) (fC : γ → σ → Option σ) (f : γ → σ → σ) (l : List γ) (s : σ)
    (hs : I s) (h : ∀ s x, x ∈ l → I s → fC x s = some (f x s) ∧ I (f x s)) :
    foldrC fC s l = some (l.foldr f s) ∧ I (l.foldr f s) := by
  induction l with
  | nil => exact ⟨rfl, hs⟩
  | cons x xs ih =>
    obtain ⟨h1, h2⟩ := ih (fun s y hy => h s y (by simp [hy]))
    obtain ⟨h3, h4⟩ := h _ x (by simp) h2
    rw [foldrC, h1, Option.bind_some, List.foldr_cons]
    exact ⟨h3, h4⟩

theorem mapC_eq {β γ : Type} (fC : β → Option γ) (f : β → γ) (l : List β) (h : ∀ x ∈ l, fC x = some (f x)) :
    mapC fC l = some (l.map f) := by
  induction l with
  | nil => rfl
  | cons x xs ih =>
    rw [mapC, h x (by simp), Option.bind_some, ih (fun y hy => h y (by simp [hy]))]
    rfl

theorem filterC_eq {γ : Type} (fC : γ → Option Bool) (f : γ → Bool) (l : List γ) (h : ∀ x ∈ l, fC x = some (f x)) :
    filterC fC l = some (l.filter f) := by
  induction l with
  | nil => rfl
  | cons x xs ih =>
    rw [filterC, h x (by simp), Option.bind_some, ih (fun y hy => h y (by simp [hy])), Option.bind_some, List.filter_cons]

section
variable {α : Type} [Score α]

/-! ## accessors -/

theorem pgetC_eq (p : Array α) (col k : Nat) (h : 64 * col + k < p.size) : pgetC p col k = some (pget p col k) := by
  unfold pgetC pget
  exact getElem?_eq_some_getD _ _ _ h

/-- column `col` exists in the flat profile -/
def ColOK (p : Array α) (col : Nat) : Prop := 64 * col + 64 ≤ p.size

theorem pgetC_col (p : Array α) (col k : Nat) (h : ColOK p col) (hk : k < 64) : pgetC p col k = some (pget p col k) :=
  pgetC_eq p col k (by unfold ColOK at h; omega)

theorem subC_eq (ap : AlnParam α) (hw : ap.wf) (i j : Nat) (hi : i < 23) (hj : j < 23) :
    ap.subC i j = some (ap.sub i j) := by
  obtain ⟨h1, h2⟩ := hw
  have hi' : i < ap.subm.size := by omega
  have hrow := h2 i hi
  unfold AlnParam.subC AlnParam.sub
  rw [getElem?_eq_some_getD ap.subm i #[] hi', Option.bind_some]
  exact getElem?_eq_some_getD _ _ _ (by omega)

theorem profGbC_eq (p : Array α) (col : Nat) (term : Bool) (h : ColOK p col) (gb ca : α) :
    profGbC p col term gb ca = some (profGb p col term gb ca) := by
  unfold profGbC profGb
  cases term
  · simp [pgetC_col p col _ h]
  · simp [pgetC_col p col _ h]

theorem mem_freqOf_lt (p : Array α) (col c : Nat) (h : c ∈ freqOf p col) : c < 23 := by
  unfold freqOf at h
  have := (List.mem_filter.mp h).1
  simpa using this

theorem freqOfC_eq (p : Array α) (col : Nat) (h : ColOK p col) : freqOfC p col = some (freqOf p col) := by
  unfold freqOfC freqOf
  apply filterC_eq
  intro j hj
  have : j < 23 := by simpa using hj
  rw [pgetC_col p col j h (by omega)]
  rfl

theorem dotAddC_eq (p1 : Array α) (c1 : Nat) (p2 : Array α) (c2 : Nat) (fr : List Nat) (pa : α)
    (h1 : ColOK p1 c1) (h2 : ColOK p2 c2) (hfr : ∀ c ∈ fr, c < 23) :
    dotAddC p1 c1 p2 c2 fr pa = some (dotAdd p1 c1 p2 c2 fr pa) := by
  unfold dotAddC dotAdd
  apply foldlC_eq
  intro s c hc
  have := hfr c hc
  rw [pgetC_col p1 c1 c h1 (by omega), pgetC_col p2 c2 (32 + c) h2 (by omega)]
  rfl

/-! ## the loop skeleton -/

/-- the checked cell formulas answer with the totalised ones on the cells a row of `n+1` cells evaluates -/
structure RowAgree (n : Nat) (oc : RowOpsC α) (o : RowOps α) : Prop where
  gbFirst : ∀ x y, oc.gbFirst x y = some (o.gbFirst x y)
  aCell : ∀ k, 1 ≤ k → k ≤ n → ∀ x y z, oc.aCell k x y z = some (o.aCell k x y z)
  gaCell : ∀ k, 1 ≤ k → k < n → ∀ x y, oc.gaCell k x y = some (o.gaCell k x y)
  gbMid : ∀ x y, oc.gbMid x y = some (o.gbMid x y)
  gbLast : ∀ x y, oc.gbLast x y = some (o.gbLast x y)

theorem initRowGoC_eq (gC : Nat → α → α → Option α) (g : Nat → α → α → α) (n : Nat)
    (hg : ∀ k, 1 ≤ k → k < n → ∀ x y, gC k x y = some (g k x y)) :
    ∀ (r k : Nat) (prev : States α), 1 ≤ k → k + r = n + 1 →
      initRowGoC gC r k prev = some (initRowGo g r k prev) := by
  intro r
  induction r using Nat.strongRecOn with
  | _ r ih =>
    intro k prev hk hkr
    match r with
    | 0 => rfl
    | 1 => rfl
    | r + 2 =>
      rw [initRowGoC, initRowGo, hg k hk (by omega), Option.bind_some]
      simp only
      rw [ih (r + 1) (by omega) (k + 1) _ (by omega) (by omega), Option.bind_some]

theorem initRowC_eq (gC : Nat → α → α → Option α) (g : Nat → α → α → α) (n : Nat)
    (hg : ∀ k, 1 ≤ k → k < n → ∀ x y, gC k x y = some (g k x y)) (start : States α) :
    initRowC gC n start = some (initRow g n start) := by
  unfold initRowC initRow
  rw [initRowGoC_eq gC g n hg n 1 start (by omega) (by omega), Option.bind_some]

theorem rowGoC_eq (n : Nat) (oc : RowOpsC α) (o : RowOps α) (h : RowAgree n oc o) (cells : List (States α)) :
    ∀ (k : Nat) (pa pga pgb xa xga : α), 1 ≤ k → k + cells.length = n + 1 →
      rowGoC oc k pa pga pgb xa xga cells = some (rowGo o k pa pga pgb xa xga cells) := by
  induction cells with
  | nil => intro k pa pga pgb xa xga _ _; rfl
  | cons c rest ih =>
    intro k pa pga pgb xa xga hk hlen
    cases rest with
    | nil =>
      simp only [List.length_cons, List.length_nil] at hlen
      rw [rowGoC, rowGo, h.aCell k hk (by omega), Option.bind_some, h.gbLast, Option.bind_some]
    | cons d ds =>
      simp only [List.length_cons] at hlen
      rw [rowGoC, rowGo, h.aCell k hk (by omega), Option.bind_some, h.gaCell k hk (by omega), Option.bind_some,
        h.gbMid, Option.bind_some]
      rw [ih (k + 1) _ _ _ _ _ (by omega) (by simp only [List.length_cons]; omega), Option.bind_some]
      all_goals (intro hh; cases hh)

theorem rowStepC_eq (n : Nat) (oc : RowOpsC α) (o : RowOps α) (h : RowAgree n oc o) (cells : List (States α))
    (hlen : cells.length = n + 1) : rowStepC oc cells = some (rowStep o cells) := by
  cases cells with
  | nil => rfl
  | cons c rest =>
    simp only [List.length_cons] at hlen
    rw [rowStepC, rowStep, h.gbFirst, Option.bind_some,
      rowGoC_eq n oc o h rest 1 _ _ _ _ _ (by omega) (by omega), Option.bind_some]

theorem runKernelC_eq {ι : Type} (gC : Nat → α → α → Option α) (g : Nat → α → α → α) (n : Nat)
    (hg : ∀ k, 1 ≤ k → k < n → ∀ x y, gC k x y = some (g k x y)) (start : States α)
    (idx : List ι) (mkC : ι → Option (RowOpsC α)) (mk : ι → RowOps α)
    (hrow : ∀ i ∈ idx, ∃ oc, mkC i = some oc ∧ RowAgree n oc (mk i)) :
    runKernelC gC n start (idx.map mkC) = some (runKernel g n start (idx.map mk)) := by
  unfold runKernelC runKernel
  rw [initRowC_eq gC g n hg, Option.bind_some]
  have key : ∀ (idx : List ι) (cells : List (States α)), cells.length = n + 1 →
      (∀ i ∈ idx, ∃ oc, mkC i = some oc ∧ RowAgree n oc (mk i)) →
      foldlC (fun cells o => o.bind fun ops => rowStepC ops cells) cells (idx.map mkC) =
        some ((idx.map mk).foldl (fun cells ops => rowStep ops cells) cells) := by
    intro idx
    induction idx with
    | nil => intro _ _ _; rfl
    | cons i is ih =>
      intro cells hlen hrow
      obtain ⟨oc, e, ha⟩ := hrow i (by simp)
      rw [List.map_cons, List.map_cons, foldlC, e, Option.bind_some, rowStepC_eq n oc _ ha cells hlen, Option.bind_some,
        List.foldl_cons]
      exact ih _ (by rw [length_rowStep]; exact hlen) (fun j hj => hrow j (by simp [hj]))
  exact key idx _ (length_initRow g n start) hrow

/-! ## rectangles and operands -/

theorem Rect.valid_iff (r : Rect) (lenA lenB : Nat) :
    r.valid lenA lenB = true ↔
      r.starta ≤ r.enda ∧ r.enda ≤ lenA ∧ r.startb < r.endb ∧ r.endb ≤ lenB ∧ r.lenB = lenB := by
  unfold Rect.valid; simp

theorem all_lt_getD (s : Array Nat) (h : s.all (· < 23) = true) (i : Nat) (hi : i < s.size) : s.getD i 0 < 23 := by
  rw [Array.all_eq_true] at h
  have := h i hi
  simp only [decide_eq_true_eq] at this
  simpa [Array.getD, hi] using this

omit [Score α] in
/-- what `Operands.lens? = some (lenA, lenB)` says -/
theorem lens_seqseq {s1 s2 : Array Nat} {lenA lenB : Nat} (h : (Operands.seqseq s1 s2 : Operands α).lens? = some (lenA, lenB)) :
    s1.all (· < 23) = true ∧ s2.all (· < 23) = true ∧ s1.size = lenA ∧ s2.size = lenB := by
  simp only [Operands.lens?] at h
  split at h
  · rename_i hc
    simp only [Option.some.injEq, Prod.mk.injEq] at h
    exact ⟨hc.1, hc.2, h.1, h.2⟩
  · cases h

omit [Score α] in
theorem lens_seqprof {p : Array α} {s2 : Array Nat} {sip lenA lenB : Nat}
    (h : (Operands.seqprof p s2 sip : Operands α).lens? = some (lenA, lenB)) :
    s2.all (· < 23) = true ∧ p.size = 64 * (lenA + 2) ∧ s2.size = lenB := by
  simp only [Operands.lens?] at h
  split at h
  · rename_i hc
    simp only [Option.some.injEq, Prod.mk.injEq] at h
    exact ⟨hc.1, by omega, h.2⟩
  · cases h

omit [Score α] in
theorem lens_profprof {p1 p2 : Array α} {lenA lenB : Nat}
    (h : (Operands.profprof p1 p2 : Operands α).lens? = some (lenA, lenB)) :
    p1.size = 64 * (lenA + 2) ∧ p2.size = 64 * (lenB + 2) := by
  simp only [Operands.lens?] at h
  split at h
  · rename_i hc
    simp only [Option.some.injEq, Prod.mk.injEq] at h
    exact ⟨by omega, by omega⟩
  · cases h

omit [Score α] in
theorem colOK_of_size (p : Array α) (len col : Nat) (hp : p.size = 64 * (len + 2)) (h : col ≤ len + 1) : ColOK p col := by
  unfold ColOK; omega

end
end Kalign
