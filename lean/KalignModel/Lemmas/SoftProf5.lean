import KalignModel.Lemmas.SoftProf4
import KalignModel.Lemmas.ProfKernelPP
/-!
# binary32: the profile–profile kernels on two profiles of identical copies (slice AB, part 5)

`prof1` = `k` copies of `seqA` prepared against `m`, `prof2` = `m` copies of `seqB` prepared against `k` (`ProfOKS`).  A column of
identical copies has a single non-zero residue count, so the dot product of cell `(i, j)` is the single product
`(float)k * half (m·sh(seqB[j], seqA[i])) = half (k·m·sh(seqB[j], seqA[i]))` — exact (`mul_ofNat_half`), and for a symmetric matrix the
entry `(scaleParamS ap (k*m)).sub seqA[i] seqB[j]` of the scaled sequence–sequence problem.  The gap slots are column dependent, so the
cell formulas agree where the skeleton evaluates them (`RowOps.AgreeN`); the result is nevertheless an equality of `Kernels` objects
(`pp_realKernels_eqS`), because `realStep` only runs on rectangles inside the operands.
-/
set_option exponentiation.threshold 512
namespace Kalign
open SoftF32

section pp
variable (U : Nat) (ap : AlnParam SoftF32) (go ge gt : Int) (sh : Nat → Nat → Int) (hh : HalfParam U ap go ge gt sh)
  (hsym : ∀ x y, sh x y = sh y x)
  (prof1 prof2 : Array SoftF32) (seqA seqB : Array Nat) (k m : Nat) (hk1 : 1 ≤ k) (hm1 : 1 ≤ m)
  (hKU : k * m * U < 16777216) (hK : k * m < 8388608)
  (hP1 : ProfOKS prof1 seqA k m go ge gt sh) (hP2 : ProfOKS prof2 seqB m k go ge gt sh)
  (hA23 : ∀ i, seqA.getD i 0 < 23)

include hP1 in
theorem pp_gaps1S (col : Nat) (hc : col ≤ seqA.size + 1) :
    pget prof1 col 27 = neg (half (go * ((k * m : Nat) : Int))) ∧ pget prof1 col 28 = neg (half (ge * ((k * m : Nat) : Int))) ∧
      pget prof1 col 29 = neg (half (gt * ((k * m : Nat) : Int))) :=
  ⟨hP1.g27 col hc, hP1.g28 col hc, hP1.g29 col hc⟩

include hP2 in
theorem pp_gaps2S (col : Nat) (hc : col ≤ seqB.size + 1) :
    pget prof2 col 27 = neg (half (go * ((k * m : Nat) : Int))) ∧ pget prof2 col 28 = neg (half (ge * ((k * m : Nat) : Int))) ∧
      pget prof2 col 29 = neg (half (gt * ((k * m : Nat) : Int))) := by
  have h1 := hP2.g27 col hc
  have h2 := hP2.g28 col hc
  have h3 := hP2.g29 col hc
  rw [Nat.mul_comm m k] at h1 h2 h3
  exact ⟨h1, h2, h3⟩

include hk1 hm1 hK hP1 hA23 in
theorem freqOf_copiesS (i : Nat) (hi : i < seqA.size) : freqOf prof1 (i + 1) = [seqA.getD i 0] := by
  have hk23 : k < 8388608 := by
    have : k * 1 ≤ k * m := Nat.mul_le_mul_left k hm1
    omega
  unfold freqOf
  apply filter_range_eq 23 _ (hA23 i)
  intro c hc
  rw [hP1.cnt i hi c hc]
  by_cases hca : c = seqA.getD i 0
  · simp only [hca, if_true, iff_true]
    exact isNonzero_ofNat hk1 hk23
  · simp only [hca, if_false, iff_false]
    rw [show Score.isNonzero SoftF32.zero = false from isNonzero_zero]
    simp

include hh hsym hk1 hm1 hKU hK hP1 hP2 hA23 in
/-- the substitution term of cell `(i, j)`: one exact product -/
theorem dotAdd_copiesS (i j : Nat) (hi : i < seqA.size) (hj : j < seqB.size) (acc : SoftF32) :
    dotAdd prof1 (i + 1) prof2 (j + 1) (freqOf prof1 (i + 1)).reverse acc =
      Score.add acc ((scaleParamS ap (k * m)).sub (seqA.getD i 0) (seqB.getD j 0)) := by
  have hk24 : k < 16777216 := by
    have : k * 1 ≤ k * m := Nat.mul_le_mul_left k hm1
    omega
  have hmU : m * U < 16777216 := by
    have : 1 * m ≤ k * m := Nat.mul_le_mul_right m hk1
    have : 1 * m * U ≤ k * m * U := Nat.mul_le_mul_right U this
    rw [Nat.one_mul] at this
    omega
  obtain ⟨_, _, _, ss⟩ := scaleParamS_half hh (K := k * m) (Nat.mul_pos hk1 hm1) (by omega) hKU
  rw [freqOf_copiesS go ge gt sh prof1 seqA k m hk1 hm1 hK hP1 hA23 i hi]
  simp only [List.reverse_cons, List.reverse_nil, List.nil_append, dotAdd, List.foldl_cons, List.foldl_nil]
  rw [hP1.cnt i hi _ (hA23 i), if_pos rfl, hP2.subE j hj _ (hA23 i), ss, hsym (seqB.getD j 0)]
  have e : sh (seqA.getD i 0) (seqB.getD j 0) * ((k * m : Nat) : Int) =
      sh (seqA.getD i 0) (seqB.getD j 0) * (m : Int) * (k : Int) := by
    push_cast
    rw [Int.mul_assoc, Int.mul_comm (m : Int) (k : Int)]
  congr 1
  show mul (SoftF32.ofNat k) _ = _
  rw [e]
  exact mul_ofNat_half hk1 hk24 (natAbs_mul_lt (hh.bs _ _) hmU) (by
    rw [← e]; exact natAbs_mul_lt (hh.bs _ _) hKU)

include hh hsym hk1 hm1 hKU hK hP1 hP2 hA23 in
theorem ppOpsF_agree (r : Rect) (p : Nat) (hrow : r.starta + p < seqA.size) (hbB : r.endb ≤ seqB.size) :
    (ppOpsF prof1 prof2 r p).AgreeN (r.endb - r.startb) (ssOpsF (scaleParamS ap (k * m)) seqA seqB r p) := by
  obtain ⟨so, se, st, _⟩ := scaleParamS_half hh (K := k * m) (Nat.mul_pos hk1 hm1) (by omega) hKU
  obtain ⟨g1, g2, g3⟩ := pp_gaps1S go ge gt sh prof1 seqA k m hP1 (r.starta + p + 1) (by omega)
  obtain ⟨g1', _, _⟩ := pp_gaps1S go ge gt sh prof1 seqA k m hP1 (r.starta + p) (by omega)
  have bo := natAbs_mul_lt hh.bo hKU
  have be := natAbs_mul_lt hh.be hKU
  have bt := natAbs_mul_lt hh.bt hKU
  refine ⟨?_, ?_, ?_, ?_, ?_⟩
  · exact profGb_eqS prof1 _ _ _ _ _ bo be bt so se st g1 g2 g3 _
  · intro k' hk'
    funext pa pga pgb
    obtain ⟨h1, _, _⟩ := pp_gaps2S go ge gt sh prof2 seqB k m hP2 (r.startb + (k' + 1) - 1) (by omega)
    have e : r.startb + (k' + 1) = (r.startb + k') + 1 := by omega
    have e' : r.startb + (k' + 1) - 1 = r.startb + k' := by omega
    simp only [ppOpsF, ssOpsF]
    rw [h1, g1', e, dotAdd_copiesS U ap go ge gt sh hh hsym prof1 prof2 seqA seqB k m hk1 hm1 hKU hK hP1 hP2 hA23
      (r.starta + p) (r.startb + k') hrow (by omega), S_add_neg _ bo, S_add_neg _ bo, ← so]
    simp only [Nat.add_sub_cancel]
  · intro k' hk'
    obtain ⟨h1, h2, _⟩ := pp_gaps2S go ge gt sh prof2 seqB k m hP2 (r.startb + (k' + 1)) (by omega)
    funext xga xa
    simp only [ppOpsF, ssOpsF]
    rw [h1, h2, S_add_neg _ bo, S_add_neg _ be, ← so, ← se]
  · exact profGb_eqS prof1 _ _ _ _ _ bo be bt so se st g1 g2 g3 false
  · exact profGb_eqS prof1 _ _ _ _ _ bo be bt so se st g1 g2 g3 _

include hh hsym hk1 hm1 hKU hK hP1 hP2 hA23 in
theorem ppOpsB_agree (r : Rect) (p : Nat) (hp : p < r.enda - r.starta) (ha : r.enda ≤ seqA.size) (hbB : r.endb ≤ seqB.size) :
    (ppOpsB prof1 prof2 r p).AgreeN (r.endb - r.startb) (ssOpsB (scaleParamS ap (k * m)) seqA seqB r p) := by
  obtain ⟨so, se, st, _⟩ := scaleParamS_half hh (K := k * m) (Nat.mul_pos hk1 hm1) (by omega) hKU
  have hrow : r.starta + (r.enda - r.starta) - 1 - p < seqA.size := by omega
  obtain ⟨g1, g2, g3⟩ := pp_gaps1S go ge gt sh prof1 seqA k m hP1 (r.starta + (r.enda - r.starta) - 1 - p + 1) (by omega)
  obtain ⟨g1', _, _⟩ := pp_gaps1S go ge gt sh prof1 seqA k m hP1 (r.starta + (r.enda - r.starta) - 1 - p + 2) (by omega)
  have bo := natAbs_mul_lt hh.bo hKU
  have be := natAbs_mul_lt hh.be hKU
  have bt := natAbs_mul_lt hh.bt hKU
  refine ⟨?_, ?_, ?_, ?_, ?_⟩
  · exact profGb_eqS prof1 _ _ _ _ _ bo be bt so se st g1 g2 g3 _
  · intro k' hk'
    funext pa pga pgb
    obtain ⟨h1, _, _⟩ := pp_gaps2S go ge gt sh prof2 seqB k m hP2 (r.endb - (k' + 1) + 2) (by omega)
    simp only [ppOpsB, ssOpsB]
    rw [h1, g1', dotAdd_copiesS U ap go ge gt sh hh hsym prof1 prof2 seqA seqB k m hk1 hm1 hKU hK hP1 hP2 hA23
      _ (r.endb - (k' + 1)) hrow (by omega), S_add_neg _ bo, S_add_neg _ bo, ← so]
  · intro k' hk'
    obtain ⟨h1, h2, _⟩ := pp_gaps2S go ge gt sh prof2 seqB k m hP2 (r.endb - (k' + 1) + 1) (by omega)
    funext xga xa
    simp only [ppOpsB, ssOpsB]
    rw [h1, h2, S_add_neg _ bo, S_add_neg _ be, ← so, ← se]
  · exact profGb_eqS prof1 _ _ _ _ _ bo be bt so se st g1 g2 g3 false
  · exact profGb_eqS prof1 _ _ _ _ _ bo be bt so se st g1 g2 g3 _

include hh hk1 hm1 hKU hK hP2 in
theorem ppGaInitF_agree (r : Rect) (hbB : r.endb ≤ seqB.size) (k' : Nat) (hk' : k' + 1 < r.endb - r.startb) :
    ppGaInitF prof2 r (k' + 1) = ssGaInit (scaleParamS ap (k * m)) (r.startb == 0) (k' + 1) := by
  obtain ⟨so, se, st, _⟩ := scaleParamS_half hh (K := k * m) (Nat.mul_pos hk1 hm1) (by omega) hKU
  obtain ⟨g1, g2, g3⟩ := pp_gaps2S go ge gt sh prof2 seqB k m hP2 (r.startb + (k' + 1)) (by omega)
  funext pga pa
  simp only [ppGaInitF, ssGaInit]
  rw [g1, g2, g3, S_add_neg _ (natAbs_mul_lt hh.bo hKU), S_add_neg _ (natAbs_mul_lt hh.be hKU),
    S_add_neg _ (natAbs_mul_lt hh.bt hKU), ← so, ← se, ← st]

include hh hk1 hm1 hKU hK hP2 in
theorem ppGaInitB_agree (r : Rect) (hbB : r.endb ≤ seqB.size) (k' : Nat) (hk' : k' + 1 < r.endb - r.startb) :
    ppGaInitB prof2 r (k' + 1) = ssGaInit (scaleParamS ap (k * m)) (r.endb == r.lenB) (k' + 1) := by
  obtain ⟨so, se, st, _⟩ := scaleParamS_half hh (K := k * m) (Nat.mul_pos hk1 hm1) (by omega) hKU
  obtain ⟨g1, g2, g3⟩ := pp_gaps2S go ge gt sh prof2 seqB k m hP2 (r.endb - (k' + 1) + 1) (by omega)
  funext pga pa
  simp only [ppGaInitB, ssGaInit]
  rw [g1, g2, g3, S_add_neg _ (natAbs_mul_lt hh.bo hKU), S_add_neg _ (natAbs_mul_lt hh.be hKU),
    S_add_neg _ (natAbs_mul_lt hh.bt hKU), ← so, ← se, ← st]

include hh hsym hk1 hm1 hKU hK hP1 hP2 hA23 in
theorem ppForward_eqS (r : Rect) (hb : r.startb < r.endb) (ha : r.enda ≤ seqA.size) (hbB : r.endb ≤ seqB.size)
    (start : States SoftF32) :
    ppForward prof1 prof2 r start = ssForward (scaleParamS ap (k * m)) seqA seqB r start := by
  rw [ppForward_eq_genTab prof1 prof2 r hb, ssForward_eq_genTab _ seqA seqB r hb]
  apply List.map_congr_left
  intro c hc
  have hc' : c ≤ r.endb - r.startb := by have := List.mem_range.mp hc; omega
  exact genTab_congrN _ _ (r.endb - r.startb) start _ _ (r.enda - r.starta)
    (ppGaInitF_agree U ap go ge gt sh hh prof2 seqB k m hk1 hm1 hKU hK hP2 r hbB)
    (fun p hp => ppOpsF_agree U ap go ge gt sh hh hsym prof1 prof2 seqA seqB k m hk1 hm1 hKU hK hP1 hP2 hA23 r p (by omega) hbB)
    _ (Nat.le_refl _) c hc'

include hh hsym hk1 hm1 hKU hK hP1 hP2 hA23 in
theorem ppBackward_eqS (r : Rect) (hb : r.startb < r.endb) (ha : r.enda ≤ seqA.size) (hbB : r.endb ≤ seqB.size)
    (start : States SoftF32) :
    ppBackward prof1 prof2 r start = ssBackward (scaleParamS ap (k * m)) seqA seqB r start := by
  rw [ppBackward_eq_genTab prof1 prof2 r hb, ssBackward_eq_genTab _ seqA seqB r hb]
  congr 1
  apply List.map_congr_left
  intro c hc
  have hc' : c ≤ r.endb - r.startb := by have := List.mem_range.mp hc; omega
  exact genTab_congrN _ _ (r.endb - r.startb) start _ _ (r.enda - r.starta)
    (ppGaInitB_agree U ap go ge gt sh hh prof2 seqB k m hk1 hm1 hKU hK hP2 r hbB)
    (fun p hp => ppOpsB_agree U ap go ge gt sh hh hsym prof1 prof2 seqA seqB k m hk1 hm1 hKU hK hP1 hP2 hA23 r p hp ha hbB)
    _ (Nat.le_refl _) c hc'

include hh hk1 hm1 hKU hK hP1 hP2 in
theorem pp_meet_eqS (r : Rect) (mid : Nat) (hm : mid ≤ seqA.size) (hbB : r.endb ≤ seqB.size) (F B : Nat → States SoftF32) :
    meetupRun (ppMeetOps prof1 prof2 r mid) r.startb r.endb
        ((List.range (r.endb - r.startb + 1)).map F) ((List.range (r.endb - r.startb + 1)).map B) =
      meetupRun (ssMeetOps (scaleParamS ap (k * m)) r) r.startb r.endb
        ((List.range (r.endb - r.startb + 1)).map F) ((List.range (r.endb - r.startb + 1)).map B) := by
  obtain ⟨so, se, st, _⟩ := scaleParamS_half hh (K := k * m) (Nat.mul_pos hk1 hm1) (by omega) hKU
  obtain ⟨g1, g2, g3⟩ := pp_gaps1S go ge gt sh prof1 seqA k m hP1 (mid + 1) (by omega)
  obtain ⟨g1', _, _⟩ := pp_gaps1S go ge gt sh prof1 seqA k m hP1 mid (by omega)
  have bo := natAbs_mul_lt hh.bo hKU
  have be := natAbs_mul_lt hh.be hKU
  have bt := natAbs_mul_lt hh.bt hKU
  have e27 : ∀ x, Score.add x (pget prof1 (mid + 1) 27) = Score.sub x (scaleParamS ap (k * m)).gpo := fun x => by
    rw [g1, so, S_add_neg _ bo]
  have e28 : ∀ x, Score.add x (pget prof1 (mid + 1) 28) = Score.sub x (scaleParamS ap (k * m)).gpe := fun x => by
    rw [g2, se, S_add_neg _ be]
  have e29 : ∀ x, Score.add x (pget prof1 (mid + 1) 29) = Score.sub x (scaleParamS ap (k * m)).tgpe := fun x => by
    rw [g3, st, S_add_neg _ bt]
  have e27' : ∀ x, Score.add x (pget prof1 mid 27) = Score.sub x (scaleParamS ap (k * m)).gpo := fun x => by
    rw [g1', so, S_add_neg _ bo]
  rw [meetupRun_eq, meetupRun_eq]
  rw [allCands_congr (ppMeetOps prof1 prof2 r mid) (ssMeetOps (scaleParamS ap (k * m)) r)]
  · funext x; simp only [ppMeetOps, ssMeetOps, e27]
  · funext x; simp only [ppMeetOps, ssMeetOps, e28, e29]
  · funext x; simp only [ppMeetOps, ssMeetOps, e27']
  · funext x; simp only [ppMeetOps, ssMeetOps, e28, e29]
  · intro i hi1 hi2
    obtain ⟨a1, _, _⟩ := pp_gaps2S go ge gt sh prof2 seqB k m hP2 (i + 1) (by omega)
    obtain ⟨a2, _, _⟩ := pp_gaps2S go ge gt sh prof2 seqB k m hP2 i (by omega)
    constructor
    · funext x; simp only [ppMeetOps, ssMeetOps]; rw [a1, so, S_add_neg _ bo]
    · funext x; simp only [ppMeetOps, ssMeetOps]; rw [a2, so, S_add_neg _ bo]

include hh hsym hk1 hm1 hKU hK hP1 hP2 hA23 in
/-- **one step of the binary32 kernels on two profiles of `k` and `m` copies = one step of the sequence–sequence kernels with all
scores multiplied by `(float)(k·m)`** (symmetric substitution matrix) -/
theorem pp_realStep_eqS :
    realStep ap (.profprof prof1 prof2) seqA.size seqB.size =
      realStep (scaleParamS ap (k * m)) (.seqseq seqA seqB) seqA.size seqB.size := by
  funext f b sa mid ea sb eb
  unfold realStep
  by_cases hc : 0 ≤ sa ∧ sa ≤ mid ∧ mid ≤ ea ∧ ea ≤ (seqA.size : Int) ∧ 0 ≤ sb ∧ sb < eb ∧ eb ≤ (seqB.size : Int) ∧
      0 < f.size ∧ 0 < b.size
  · rw [if_pos hc, if_pos hc]
    obtain ⟨h0, h1, h2', h3, h4, h5, h6, _, _⟩ := hc
    have hsb : sb.toNat < eb.toNat := by omega
    have eF : kForward ap (.profprof prof1 prof2) ⟨sa.toNat, mid.toNat, sb.toNat, eb.toNat, seqB.size⟩
          (f.getD 0 States.negInf) =
        kForward (scaleParamS ap (k * m)) (.seqseq seqA seqB) ⟨sa.toNat, mid.toNat, sb.toNat, eb.toNat, seqB.size⟩
          (f.getD 0 States.negInf) := by
      simp only [kForward]
      exact ppForward_eqS U ap go ge gt sh hh hsym prof1 prof2 seqA seqB k m hk1 hm1 hKU hK hP1 hP2 hA23 _ hsb
        (by show mid.toNat ≤ seqA.size; omega) (by show eb.toNat ≤ seqB.size; omega) _
    have eB : kBackward ap (.profprof prof1 prof2) ⟨mid.toNat, ea.toNat, sb.toNat, eb.toNat, seqB.size⟩
          (b.getD 0 States.negInf) =
        kBackward (scaleParamS ap (k * m)) (.seqseq seqA seqB) ⟨mid.toNat, ea.toNat, sb.toNat, eb.toNat, seqB.size⟩
          (b.getD 0 States.negInf) := by
      simp only [kBackward]
      exact ppBackward_eqS U ap go ge gt sh hh hsym prof1 prof2 seqA seqB k m hk1 hm1 hKU hK hP1 hP2 hA23 _ hsb
        (by show ea.toNat ≤ seqA.size; omega) (by show eb.toNat ≤ seqB.size; omega) _
    have eF' : kForward (scaleParamS ap (k * m)) (.seqseq seqA seqB) ⟨sa.toNat, mid.toNat, sb.toNat, eb.toNat, seqB.size⟩
          (f.getD 0 States.negInf) = (List.range (eb.toNat - sb.toNat + 1)).map
            (genTab (ssGaInit (scaleParamS ap (k * m)) (sb.toNat == 0)) (eb.toNat - sb.toNat) (f.getD 0 States.negInf)
              (ssOpsF (scaleParamS ap (k * m)) seqA seqB ⟨sa.toNat, mid.toNat, sb.toNat, eb.toNat, seqB.size⟩)
              (mid.toNat - sa.toNat)) := by
      simp only [kForward]
      exact ssForward_eq_genTab _ seqA seqB _ hsb _
    have eB' : kBackward (scaleParamS ap (k * m)) (.seqseq seqA seqB) ⟨mid.toNat, ea.toNat, sb.toNat, eb.toNat, seqB.size⟩
          (b.getD 0 States.negInf) = ((List.range (eb.toNat - sb.toNat + 1)).map
            (genTab (ssGaInit (scaleParamS ap (k * m)) (eb.toNat == seqB.size)) (eb.toNat - sb.toNat) (b.getD 0 States.negInf)
              (ssOpsB (scaleParamS ap (k * m)) seqA seqB ⟨mid.toNat, ea.toNat, sb.toNat, eb.toNat, seqB.size⟩)
              (ea.toNat - mid.toNat))).reverse := by
      simp only [kBackward]
      exact ssBackward_eq_genTab _ seqA seqB _ hsb _
    have eM := pp_meet_eqS U ap go ge gt sh hh prof1 prof2 seqA seqB k m hk1 hm1 hKU hK hP1 hP2
      ⟨sa.toNat, mid.toNat, sb.toNat, eb.toNat, seqB.size⟩ mid.toNat (by omega) (by show eb.toNat ≤ seqB.size; omega)
    simp only at eM
    simp only [eF, eB]
    simp only [eF', eB', map_range_reverse, kMeetup, eM]
  · rw [if_neg hc, if_neg hc]

include hh hsym hk1 hm1 hKU hK hP1 hP2 hA23 in
theorem pp_realKernels_eqS :
    realKernels ap (.profprof prof1 prof2) seqA.size seqB.size =
      realKernels (scaleParamS ap (k * m)) (.seqseq seqA seqB) seqA.size seqB.size := by
  unfold realKernels
  rw [pp_realStep_eqS U ap go ge gt sh hh hsym prof1 prof2 seqA seqB k m hk1 hm1 hKU hK hP1 hP2 hA23]

end pp
end Kalign
