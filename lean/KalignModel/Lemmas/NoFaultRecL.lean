import KalignModel.Lemmas.NoFaultRecC
/-!
# `recAlnC_tree'` with the monitor hypothesis only for the pairs of operands the recursion really forms

`ReachC` over-approximates the operands of `recursive_aln` (a node may be merged with itself, so `nsip` and `len` are
unbounded).  `ReachL` tracks the list of leaves of a reachable node: `nsip` = number of leaves (`ReachL.nsip`), `len` ≤ sum of
the lengths of the leaf sequences (`ReachL.len_le`).  `MonHypL ap codes Ls` asks the monitor only for pairs whose leaves
together form a sublist of `Ls`; `recAlnC_treeL` = `recAlnC_tree'` under `MonHypL ap codes T.leaves`.
-/
namespace Kalign.Pipeline
open Kalign Kalign.Kmeans Kalign.Sched

variable {α : Type} [Score α]

/-- reachable nodes together with the list of their leaves (left to right) -/
inductive ReachL (ap : AlnParam α) (codes : Array (List Nat)) : NodeC α → List Nat → Prop
  | leaf (i : Nat) : i < codes.size → ReachL ap codes (leafNodeC codes i) [i]
  | merge (A B N : NodeC α) (la lb : List Nat) : ReachL ap codes A la → ReachL ap codes B lb →
      mergeNodesC .parallel ap A B false = .ok N → ReachL ap codes N (la ++ lb)

theorem ReachL.reach {ap : AlnParam α} {codes : Array (List Nat)} {N : NodeC α} {l : List Nat}
    (h : ReachL ap codes N l) : ReachC ap codes N := by
  induction h with
  | leaf i hi => exact .leaf i hi
  | merge A B N la lb _ _ hN ihA ihB => exact .merge A B N ihA ihB hN

/-- what a successful merge returns: `nsip` adds up; `len` = number of columns of a column list that passed `validColsB` -/
theorem mergeNodesC_ok (entry : Entry) (ap : AlnParam α) (A B N : NodeC α) (isLast : Bool)
    (h : mergeNodesC entry ap A B isLast = .ok N) :
    N.nsip = A.nsip + B.nsip ∧
      ∃ cs : List Nat, N.len = cs.length ∧ validColsB (cs.map Col.ofCode) A.len B.len = true := by
  unfold mergeNodesC at h
  simp only at h
  split at h
  · cases h
  · rename_i st' out _
    split at h
    · cases h
    · split at h
      · cases h
      · rename_i hv
        simp only [Except.ok.injEq] at h
        subst h
        exact ⟨rfl, out.codes, rfl, by simpa using hv⟩

/-- every non-skip column consumes a column of side a or of side b -/
theorem length_le_consA_add_consB (cs : List Col) (h : Col.skip ∉ cs) : cs.length ≤ consA cs + consB cs := by
  induction cs with
  | nil => simp
  | cons c cs ih =>
    have ih' := ih (fun hm => h (List.mem_cons_of_mem _ hm))
    have hc : c ≠ Col.skip := fun e => h (e ▸ List.mem_cons_self)
    unfold consA consB at ih' ⊢
    cases c <;> simp_all <;> omega

theorem validColsB_length_le {cs : List Col} {la lb : Nat} (h : validColsB cs la lb = true) : cs.length ≤ la + lb := by
  simp only [validColsB, Bool.and_eq_true, Bool.not_eq_true', beq_iff_eq] at h
  obtain ⟨⟨h1, h2⟩, h3⟩ := h
  have := length_le_consA_add_consB cs (by
    intro hm
    have : cs.contains Col.skip = true := by simpa using hm
    rw [h1] at this; cases this)
  omega

theorem ReachL.nsip {ap : AlnParam α} {codes : Array (List Nat)} {N : NodeC α} {l : List Nat}
    (h : ReachL ap codes N l) : N.nsip = l.length := by
  induction h with
  | leaf i hi => simp [leafNodeC]
  | merge A B N la lb _ _ hN ihA ihB =>
    rw [(mergeNodesC_ok _ ap A B N false hN).1, ihA, ihB, List.length_append]

/-- the length of a node is at most the sum of the lengths of its leaves -/
theorem ReachL.len_le {ap : AlnParam α} {codes : Array (List Nat)} {N : NodeC α} {l : List Nat}
    (h : ReachL ap codes N l) : N.len ≤ (l.map fun i => (codes.getD i []).length).sum := by
  induction h with
  | leaf i hi => simp [leafNodeC]
  | merge A B N la lb _ _ hN ihA ihB =>
    obtain ⟨_, cs, h1, h2⟩ := mergeNodesC_ok _ ap A B N false hN
    have := validColsB_length_le h2
    rw [List.length_map] at this
    rw [List.map_append, List.sum_append]
    omega

/-- the monitor hypothesis only for the pairs of operands whose leaves together form a sublist of `Ls` -/
def MonHypL (ap : AlnParam α) (codes : Array (List Nat)) (Ls : List Nat) : Prop :=
  ∀ (A B : NodeC α) (la lb : List Nat), ReachL ap codes A la → ReachL ap codes B lb → NodeInvC A → NodeInvC B →
    List.Sublist (la ++ lb) Ls → (mergeRunC .serial ap A B).mon = true

theorem MonHypInvC.toL {ap : AlnParam α} {codes : Array (List Nat)} (h : MonHypInvC ap codes) (Ls : List Nat) :
    MonHypL ap codes Ls :=
  fun A B _ _ rA rB iA iB _ => h A B rA.reach rB.reach iA iB

theorem MonHypL.mono {ap : AlnParam α} {codes : Array (List Nat)} {Ls Ls' : List Nat} (h : MonHypL ap codes Ls')
    (hs : List.Sublist Ls Ls') : MonHypL ap codes Ls :=
  fun A B la lb rA rB iA iB hsub => h A B la lb rA rB iA iB (hsub.trans hs)

/-- the leaves of a sub-tree are a (contiguous) sublist of the leaves of the tree -/
theorem LTree_Sub_leaves_sublist {v t : Sched.LTree} (h : Sched.LTree.Sub v t) : List.Sublist v.leaves t.leaves := by
  induction h with
  | refl => exact List.Sublist.refl _
  | left _ ih => exact ih.trans (List.sublist_append_left _ _)
  | right _ ih => exact ih.trans (List.sublist_append_right _ _)

/-- **`recAlnC_tree'` under `MonHypL`**: the monitor is only needed for the pairs of operands the recursion forms — the two
children of an internal node of the guide tree, whose leaves together are a contiguous part of `T.leaves`; every non-final
node comes with `ReachL … v.leaves` -/
theorem recAlnC_treeL (ap : AlnParam α) (T : Tree) (codes : Array (List Nat))
    (hleaves : ∀ i ∈ T.leaves, i < codes.size)
    (hne : ∀ i, i < codes.size → codes.getD i [] ≠ [] ∧ ∀ c ∈ codes.getD i [], c < 23)
    (hmon : MonHypL ap codes T.leaves) :
    ∀ v : Sched.LTree, Sched.LTree.Sub v (label T codes.size) → ∀ fuel, Kmeans.LTree.nint v ≤ fuel →
      ∃ N, childOfC ap (Kmeans.sortTasks (treeTasks T codes.size)).toArray codes codes.size fuel v.id = .ok N ∧
        HasMembersC N v.leaves ∧ (v.id + 1 < codes.size + Kmeans.Tree.nint T →
          NodeInvC N ∧ ReachC ap codes N ∧ ReachL ap codes N v.leaves) := by
  intro v
  induction v with
  | leaf i =>
    intro hsub fuel _
    have hi : i < codes.size := by
      apply hleaves
      rw [← (labelFrom_spec T codes.size).2.1]
      exact LTree_Sub_leaves_subset hsub i (by simp [Sched.LTree.leaves])
    refine ⟨leafNodeC codes i, ?_, ?_, ?_⟩
    · show childOfC _ _ _ _ _ i = _
      unfold childOfC
      rw [if_neg (by omega), if_pos hi]
    · intro j hj
      simp only [Sched.LTree.leaves, List.mem_singleton] at hj
      subst hj
      simp [leafNodeC]
    · intro _
      exact ⟨leafNodeC_inv codes i (hne i hi).1 (hne i hi).2, ReachC.leaf i hi, ReachL.leaf i hi⟩
  | node c l r ihl ihr =>
    intro hsub fuel hfuel
    obtain ⟨hc1, hc2, hget⟩ := sortedTasks_get T codes.size hsub
    have hsl : Sched.LTree.Sub l (label T codes.size) := LTree_Sub_trans (.left (.refl l)) hsub
    have hsr : Sched.LTree.Sub r (label T codes.size) := LTree_Sub_trans (.right (.refl r)) hsub
    simp only [Kmeans.LTree.nint] at hfuel
    obtain ⟨f, rfl⟩ : ∃ f, fuel = f + 1 := ⟨fuel - 1, by omega⟩
    obtain ⟨A, hA, mA, iA⟩ := ihl hsl f (by omega)
    obtain ⟨B, hB, mB, iB⟩ := ihr hsr f (by omega)
    -- children carry smaller numbers than `c ≤ n + nint - 1`
    have hlt := labelFrom_child_lt T codes.size c l r hsub
    have hidl : l.id + 1 < codes.size + Kmeans.Tree.nint T := by
      cases l with
      | leaf i =>
        have : i < codes.size := by
          apply hleaves
          rw [← (labelFrom_spec T codes.size).2.1]
          exact LTree_Sub_leaves_subset hsl i (by simp [Sched.LTree.leaves])
        simp only [Sched.LTree.id]; omega
      | node c' l' r' =>
        have := hlt c' (List.mem_append.2 (Or.inl (Kmeans.LTree.id_mem_iids c' l' r')))
        simp only [Sched.LTree.id]; omega
    have hidr : r.id + 1 < codes.size + Kmeans.Tree.nint T := by
      cases r with
      | leaf i =>
        have : i < codes.size := by
          apply hleaves
          rw [← (labelFrom_spec T codes.size).2.1]
          exact LTree_Sub_leaves_subset hsr i (by simp [Sched.LTree.leaves])
        simp only [Sched.LTree.id]; omega
      | node c' l' r' =>
        have := hlt c' (List.mem_append.2 (Or.inr (Kmeans.LTree.id_mem_iids c' l' r')))
        simp only [Sched.LTree.id]; omega
    obtain ⟨invA, rA, lA⟩ := iA hidl
    obtain ⟨invB, rB, lB⟩ := iB hidr
    have hsize : (Kmeans.sortTasks (treeTasks T codes.size)).toArray.size = Kmeans.Tree.nint T := by
      simp [length_sortTasks]
    have hget' : (Kmeans.sortTasks (treeTasks T codes.size)).toArray[c - codes.size]? = some (l.id, r.id, c) := by
      simpa using hget
    obtain ⟨N, hN, hNinv, hNmem⟩ := mergeNodesC_some ap A B
      (c - codes.size + 1 == (Kmeans.sortTasks (treeTasks T codes.size)).toArray.size) invA invB
      (hmon A B l.leaves r.leaves lA lB invA invB (by
        have := LTree_Sub_leaves_sublist hsub
        unfold label at this
        rwa [(labelFrom_spec T codes.size).2.1] at this))
    refine ⟨N, ?_, hNmem _ _ mA mB, ?_⟩
    · show childOfC _ _ _ _ _ c = _
      unfold childOfC
      rw [if_pos hc1, recAlnC_succ ap _ codes codes.size f (c - codes.size) l.id r.id c hget']
      rw [hA, hB]
      exact hN
    · intro hlt
      simp only [Sched.LTree.id] at hlt
      have hlast : (c - codes.size + 1 == (Kmeans.sortTasks (treeTasks T codes.size)).toArray.size) = false := by
        rw [hsize]; simp; omega
      rw [hlast] at hN
      exact ⟨hNinv hlast, ReachC.merge A B N rA rB hN, ReachL.merge A B N _ _ lA lB hN⟩

end Kalign.Pipeline
