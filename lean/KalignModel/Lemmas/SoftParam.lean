import KalignModel.Lemmas.SoftKernel
import KalignModel.Model.PipelineSoft
/-!
# The parameters `aln_param_init` admits are bounded (software binary32)

`paramOfTableS_bnd`: every parameter set `paramOfTableS` returns satisfies `ApBnd`: the three penalties are either table values or
user values that passed `>= 0.0` and the cap `<= 1e6`, so they are finite, non-negative and at most 1e6 < 2²⁰; the substitution
scores are entries of the generated matrices (checked by `decide`) or the default `0.0`.
-/
set_option exponentiation.threshold 512
namespace Kalign.Pipeline
open Kalign Kalign.SoftF32

/-- decidable bound on a bit pattern: magnitude at most that of 2²⁰ -/
def bnd20 (n : Nat) : Bool := decide ((n % 4294967296) % 2147483648 ≤ 1233125376)

theorem absLe_of_bnd20 {n : Nat} (h : bnd20 n = true) : absLe (ofRaw n) 1048576 := by
  have hm : (ofRaw n).mag ≤ 1233125376 := by
    simpa [bnd20, mag, raw_ofRaw] using h
  refine ⟨by omega, ?_⟩
  have := magVal_mono hm
  have h20 : magVal 1233125376 = 1048576 * 2 ^ 149 := by decide
  omega

/-- non-negative and at most 1e6 ⟹ bounded -/
theorem absLe_of_ge_le {x : SoftF32} (h0 : SoftF32.ge x SoftF32.zero = true)
    (h1 : SoftF32.le x (SoftF32.ofNat 1000000) = true) : absLe x 1048576 := by
  have hk : (SoftF32.ofNat 1000000).key = 1232348160 := by decide
  have hz : SoftF32.zero.key = 0 := by decide
  simp only [SoftF32.ge, SoftF32.le, Bool.and_eq_true, Bool.not_eq_true', decide_eq_true_eq, hk, hz] at h0 h1
  have hm : x.mag ≤ 1232348160 := by
    have := h0.2
    have := h1.2
    unfold key at *
    cases hs : x.sign
    · simp only [hs, Bool.false_eq_true, if_false] at *; omega
    · simp only [hs, if_true] at *; omega
  refine ⟨by omega, ?_⟩
  have := magVal_mono hm
  have h6 : magVal 1232348160 = 1000000 * 2 ^ 149 := by decide
  omega

/-- the table rows are non-negative and within the cap -/
def rowOK (r : Gen.ParamRow) : Bool :=
  !r.ok || (SoftF32.ge (ofRaw r.gpoBits) SoftF32.zero && SoftF32.ge (ofRaw r.gpeBits) SoftF32.zero &&
    SoftF32.ge (ofRaw r.tgpeBits) SoftF32.zero)

theorem rows_ok : Gen.paramTable.all rowOK = true := by decide

theorem mats_ok : Gen.matricesBits.all (fun m => m.all fun row => row.all bnd20) = true := by decide

theorem entry_ok (rows : List (List Nat)) (h : rows.all (fun row => row.all bnd20) = true) (i j : Nat) :
    bnd20 ((rows.getD i []).getD j 0) = true := by
  rw [List.getD_eq_getElem?_getD, List.getD_eq_getElem?_getD]
  cases hi : rows[i]? with
  | none => simp; decide
  | some row =>
    simp only [Option.getD_some]
    cases hj : row[j]? with
    | none => simp; decide
    | some x =>
      simp only [Option.getD_some]
      have hrow : row ∈ rows := List.mem_of_getElem? hi
      have hx : x ∈ row := List.mem_of_getElem? hj
      rw [List.all_eq_true] at h
      have := h row hrow
      rw [List.all_eq_true] at this
      exact this x hx

theorem lookupRow_mem {bt : Nat} {t : Int} {r : Gen.ParamRow} (h : lookupRow bt t = some r) : r ∈ Gen.paramTable := by
  unfold lookupRow at h
  exact List.mem_of_find?_eq_some h

theorem alnParamInitS_pen {bt : Nat} {t : Int} {gpo gpe tgpe : SoftF32} {p : PSet SoftF32}
    (h : alnParamInitS bt t gpo gpe tgpe = some p) :
    absLe p.gpo 1048576 ∧ absLe p.gpe 1048576 ∧ absLe p.tgpe 1048576 := by
  unfold alnParamInitS at h
  cases hl : lookupRow bt t with
  | none => rw [hl] at h; cases h
  | some r =>
    rw [hl] at h
    simp only at h
    by_cases hok : r.ok = true
    · rw [if_pos hok] at h
      have hr := List.all_eq_true.1 rows_ok r (lookupRow_mem hl)
      simp only [rowOK, hok, Bool.not_true, Bool.false_or, Bool.and_eq_true] at hr
      obtain ⟨⟨r1, r2⟩, r3⟩ := hr
      split at h
      · rename_i hcap
        simp only [Option.some.injEq] at h
        subst h
        simp only [capOK, Gen.penaltyCaps, List.getD_cons_zero, List.getD_cons_succ, Bool.and_eq_true, Bool.or_eq_true,
          beq_iff_eq] at hcap
        obtain ⟨⟨c1, c2⟩, c3⟩ := hcap
        have c1' := c1.resolve_left (by decide)
        have c2' := c2.resolve_left (by decide)
        have c3' := c3.resolve_left (by decide)
        -- every field is non-negative: table value or guarded user value
        simp only [applyGuards, Gen.overrideGuardsT, List.foldl_cons, List.foldl_nil, argVal, PSet.set] at c1' c2' c3' ⊢
        refine ⟨absLe_of_ge_le ?_ c1', absLe_of_ge_le ?_ c2', absLe_of_ge_le ?_ c3'⟩
        · split <;> split <;> split <;> simp_all
        · split <;> split <;> split <;> simp_all
        · split <;> split <;> split <;> simp_all
      · cases h
    · rw [if_neg hok] at h; cases h

theorem sub_entry (rows : List (List Nat)) (h : rows.all (fun row => row.all bnd20) = true) (i j : Nat) :
    absLe (AlnParam.sub (α := SoftF32)
      { subm := (Array.range 23).map fun i => (Array.range 23).map fun j => SoftF32.ofRaw ((rows.getD i []).getD j 0),
        gpo := g1, gpe := g2, tgpe := g3 } i j) 1048576 := by
  unfold AlnParam.sub
  simp only
  have hz : absLe (Score.zero : SoftF32) 1048576 := by
    have := cls_zero 1; simpa using this
  by_cases hi : i < 23
  · by_cases hj : j < 23
    · have : (((Array.range 23).map fun i => (Array.range 23).map fun j =>
          SoftF32.ofRaw ((rows.getD i []).getD j 0)).getD i #[]).getD j Score.zero =
          SoftF32.ofRaw ((rows.getD i []).getD j 0) := by
        simp [Array.getD, hi, hj]
      rw [this]
      exact absLe_of_bnd20 (entry_ok rows h i j)
    · have : (((Array.range 23).map fun i => (Array.range 23).map fun j =>
          SoftF32.ofRaw ((rows.getD i []).getD j 0)).getD i #[]).getD j Score.zero = Score.zero := by
        simp [Array.getD, hi, hj]
      rw [this]; exact hz
  · have : (((Array.range 23).map fun i => (Array.range 23).map fun j =>
        SoftF32.ofRaw ((rows.getD i []).getD j 0)).getD i #[]).getD j Score.zero = Score.zero := by
      simp [Array.getD, hi]
    rw [this]; exact hz

/-- **every parameter set `aln_param_init` admits is bounded by 2²⁰** -/
theorem paramOfTableS_bnd {bt : Nat} {t : Int} {gpo gpe tgpe : SoftF32} {ap : AlnParam SoftF32}
    (h : paramOfTableS bt t gpo gpe tgpe = some ap) : ApBnd ap := by
  unfold paramOfTableS at h
  cases hp : alnParamInitS bt t gpo gpe tgpe with
  | none => rw [hp] at h; cases h
  | some p =>
    rw [hp] at h
    simp only at h
    obtain ⟨q1, q2, q3⟩ := alnParamInitS_pen hp
    cases hm : Gen.matricesBits[p.mat]? with
    | none => rw [hm] at h; cases h
    | some rows =>
      rw [hm] at h
      simp only [Option.some.injEq] at h
      subst h
      have hrows : rows.all (fun row => row.all bnd20) = true :=
        List.all_eq_true.1 mats_ok rows (List.mem_of_getElem? hm)
      exact ⟨q1, q2, q3, fun i j => sub_entry rows hrows i j⟩

end Kalign.Pipeline
