import KalignModel.Model.Cmp
/-! # Lemmas tying `compare_pair`'s tables and counters to the column-wise specification -/
namespace Kalign
open List

/-! ## A. the specification, recursively -/

theorem resColsFrom_shift (r : Row) (k : Nat) :
    ((r.zipIdx k).filterMap fun (x : Char × Nat) => if isRes x.1 then some x.2 else none)
      = (resCols r).map (· + k) := by
  unfold resCols
  induction r generalizing k with
  | nil => simp
  | cons a r ih =>
    simp only [zipIdx_cons, filterMap_cons]
    rw [ih (k + 1), ih (0 + 1)]
    by_cases h : isRes a
    · simp [h, Nat.add_comm, Nat.add_left_comm]
    · simp [h, Nat.add_comm, Nat.add_left_comm]

theorem resCols_cons (a : Char) (r : Row) :
    resCols (a :: r) = (if isRes a then [0] else []) ++ (resCols r).map (· + 1) := by
  have h := resColsFrom_shift r 1
  unfold resCols at h ⊢
  simp only [zipIdx_cons, filterMap_cons, Nat.zero_add]
  rw [h]
  by_cases ha : isRes a <;> simp [ha]

theorem length_resCols (r : Row) : (resCols r).length = nres r := by
  induction r with
  | nil => simp [resCols, nres]
  | cons a r ih =>
    rw [resCols_cons]
    unfold nres at ih ⊢
    by_cases h : isRes a <;> simp [h, ih] <;> omega

theorem partnerAt_zero (b : Char) (bs : Row) :
    partnerAt (b :: bs) 0 = if isRes b then some 0 else none := by
  simp [partnerAt]

theorem partnerAt_succ (b : Char) (bs : Row) (c : Nat) :
    partnerAt (b :: bs) (c + 1) = (partnerAt bs c).map (· + if isRes b then 1 else 0) := by
  unfold partnerAt
  simp only [getElem?_cons_succ, take_succ_cons, countP_cons]
  cases bs[c]? with
  | none => simp
  | some ch => by_cases h : isRes ch <;> simp [h]

/-- shift of a partner index -/
def shiftBy (k : Nat) (o : Option Nat) : Option Nat := o.map (· + k)

theorem partners_cons (a b : Char) (as bs : Row) :
    partners (a :: as) (b :: bs) =
      (if isRes a then [if isRes b then some 0 else none] else []) ++
        (partners as bs).map (shiftBy (if isRes b then 1 else 0)) := by
  unfold partners
  rw [resCols_cons, map_append, map_map]
  congr 1
  · by_cases h : isRes a <;> simp [h, partnerAt_zero]
  · rw [map_map]
    apply map_congr_left
    intro c _
    simp [partnerAt_succ, shiftBy]

theorem partners_nil_left (t : Row) : partners [] t = [] := by simp [partners, resCols]

theorem partners_nil_right (s : Row) : ∀ o ∈ partners s [], o = none := by
  intro o ho
  simp only [partners, mem_map] at ho
  obtain ⟨c, _, rfl⟩ := ho
  simp [partnerAt]

theorem length_partners (s t : Row) : (partners s t).length = nres s := by
  simp [partners, length_resCols]

/-- the recursion that the scanning loop performs, on the specification side -/
def partnersFrom (n2 : Nat) : Row → Row → List (Option Nat)
  | a :: as, b :: bs =>
    let rest := partnersFrom (n2 + if isRes b then 1 else 0) as bs
    if isRes a then (if isRes b then some n2 else none) :: rest else rest
  | _, _ => []

theorem partnersFrom_eq (n2 : Nat) (s t : Row) (h : s.length = t.length) :
    partnersFrom n2 s t = (partners s t).map (shiftBy n2) := by
  induction s generalizing t n2 with
  | nil => simp [partnersFrom, partners_nil_left]
  | cons a as ih =>
    cases t with
    | nil => simp at h
    | cons b bs =>
      have h' : as.length = bs.length := by simpa using h
      rw [partners_cons, partnersFrom, ih _ _ h', map_append, map_map]
      have hshift : (shiftBy n2 ∘ shiftBy (if isRes b then 1 else 0)) = shiftBy (n2 + if isRes b then 1 else 0) := by
        funext o; cases o <;> simp [shiftBy]; omega
      rw [hshift]
      by_cases ha : isRes a <;> by_cases hb : isRes b <;> simp [ha, hb, shiftBy]

theorem partnersFrom_zero (s t : Row) (h : s.length = t.length) : partnersFrom 0 s t = partners s t := by
  rw [partnersFrom_eq 0 s t h]
  have : shiftBy 0 = id := by funext o; cases o <;> simp [shiftBy]
  simp [this]

/-! ## B. the tables of `compare_pair` -/

/-- how a table entry encodes a partner -/
def enc : Option Nat → Int
  | some q => (q : Int)
  | none => -1

theorem enc_inj (a b : Option Nat) : enc a = enc b ↔ a = b := by
  cases a <;> cases b <;> simp [enc] <;> omega

theorem enc_ne_neg_one (a : Option Nat) : enc a ≠ -1 ↔ a.isSome := by
  cases a <;> simp [enc] <;> omega

theorem scanPair_spec (n1 n2 : Nat) (s t : Row) :
    (scanPair n1 n2 s t).c1 = (partnersFrom n2 s t).map enc ∧
    (scanPair n1 n2 s t).c2 = (partnersFrom n1 t s).map enc ∧
    (scanPair n1 n2 s t).aligned = (partnersFrom n2 s t).countP (·.isSome) + (partnersFrom n1 t s).countP (·.isSome) ∧
    (scanPair n1 n2 s t).gap = (partnersFrom n2 s t).countP (·.isNone) + (partnersFrom n1 t s).countP (·.isNone) := by
  induction s generalizing t n1 n2 with
  | nil => cases t <;> simp [scanPair, partnersFrom]
  | cons a as ih =>
    cases t with
    | nil => simp [scanPair, partnersFrom]
    | cons b bs =>
      by_cases ha : isRes a <;> by_cases hb : isRes b
      · obtain ⟨h1, h2, h3, h4⟩ := ih (n1 + 1) (n2 + 1) bs
        simp only [scanPair, partnersFrom, ha, hb, if_true, h1, h2, h3, h4, map_cons, enc, countP_cons]
        refine ⟨by simp, by simp, ?_, ?_⟩ <;> simp <;> omega
      · obtain ⟨h1, h2, h3, h4⟩ := ih (n1 + 1) n2 bs
        simp only [scanPair, partnersFrom, ha, hb, if_true, h1, h2, h3, h4, map_cons, enc, countP_cons]
        refine ⟨by simp, by simp, ?_, ?_⟩ <;> simp <;> omega
      · obtain ⟨h1, h2, h3, h4⟩ := ih n1 (n2 + 1) bs
        simp only [scanPair, partnersFrom, ha, hb, if_true, h1, h2, h3, h4, map_cons, enc, countP_cons]
        refine ⟨by simp, by simp, ?_, ?_⟩ <;> simp <;> omega
      · obtain ⟨h1, h2, h3, h4⟩ := ih n1 n2 bs
        simp only [scanPair, partnersFrom, ha, hb, h1, h2, h3, h4]
        refine ⟨by simp, by simp, ?_, ?_⟩ <;> simp

/-- number of positions where two partner lists agree on an entry satisfying `P` -/
def agree (P : Option Nat → Bool) : List (Option Nat) → List (Option Nat) → Nat
  | a :: as, b :: bs => (if P a && a == b then 1 else 0) + agree P as bs
  | _, _ => 0

theorem identCount_spec (lA lB : List (Option Nat)) (h : lB.length ≤ lA.length) :
    identCount (lA.map enc) (lB.map enc) = some (agree (·.isSome) lA lB, agree (·.isNone) lA lB) := by
  induction lA generalizing lB with
  | nil =>
    cases lB with
    | nil => simp [identCount, agree]
    | cons b lB => simp at h
  | cons a lA ih =>
    cases lB with
    | nil => simp [identCount, agree]
    | cons b lB =>
      have h' : lB.length ≤ lA.length := by simpa using h
      simp only [map_cons, identCount, ih lB h', agree]
      cases a with
      | none =>
        cases b with
        | none => simp [enc] <;> omega
        | some y => simp [enc] <;> omega
      | some x =>
        cases b with
        | none => simp [enc] <;> omega
        | some y =>
          by_cases hxy : x = y
          · subst hxy; simp [enc] <;> omega
          · have : ¬ ((x : Int) = (y : Int)) := by omega
            simp [enc, hxy, this] <;> omega

theorem agree_split (lA lB : List (Option Nat)) :
    agree (·.isSome) lA lB + agree (·.isNone) lA lB = agree (fun _ => true) lA lB := by
  induction lA generalizing lB with
  | nil => simp [agree]
  | cons a lA ih =>
    cases lB with
    | nil => simp [agree]
    | cons b lB =>
      simp only [agree]
      have := ih lB
      by_cases h : a == b
      · cases a <;> simp [h] <;> omega
      · cases a <;> simp [h] <;> omega

theorem agree_self (P : Option Nat → Bool) (l : List (Option Nat)) : agree P l l = l.countP P := by
  induction l with
  | nil => simp [agree]
  | cons a l ih => simp only [agree, ih, countP_cons]; by_cases h : P a <;> simp [h] <;> omega

theorem agree_le (P : Option Nat → Bool) (lA lB : List (Option Nat)) : agree P lA lB ≤ lA.countP P := by
  induction lA generalizing lB with
  | nil => simp [agree]
  | cons a lA ih =>
    cases lB with
    | nil => simp [agree]
    | cons b lB =>
      have := ih lB
      simp only [agree, countP_cons]
      by_cases h : P a <;> by_cases h2 : a == b <;> simp [h, h2] <;> omega

/-! ## C. the relations of one pair of rows -/

def mkRel (s t : Name) (x : Option Nat × Nat) : Rel := ((s, x.2), (t, x.1))

theorem relPair_eq (s t : NRow) :
    relPair s t = (partners s.row t.row).zipIdx.map (mkRel s.name t.name) := rfl

theorem mkRel_inj (s t : Name) : Function.Injective (mkRel s t) := by
  intro x y h
  simp only [mkRel, Prod.mk.injEq, true_and] at h
  exact Prod.ext h.2 h.1

theorem mem_relPair_tags {s t : NRow} {e : Rel} (h : e ∈ relPair s t) :
    e.1.1 = s.name ∧ e.2.1 = t.name := by
  rw [relPair_eq, mem_map] at h
  obtain ⟨x, _, rfl⟩ := h
  exact ⟨rfl, rfl⟩

theorem zipIdx_filter_fst_length {β : Type} (P : β → Bool) (l : List β) (k : Nat) :
    ((l.zipIdx k).filter fun x => P x.1).length = l.countP P := by
  induction l generalizing k with
  | nil => simp
  | cons a l ih =>
    simp only [zipIdx_cons, filter_cons, countP_cons]
    by_cases h : P a <;> simp [h, ih]

theorem filter_relPair_length (P : Option Nat → Bool) (s t : NRow) :
    ((relPair s t).filter fun e => P e.2.2).length = (partners s.row t.row).countP P := by
  rw [relPair_eq, filter_map, length_map]
  exact zipIdx_filter_fst_length P _ 0

theorem mem_map_inj {β γ : Type} {f : β → γ} (hf : Function.Injective f) {x : β} {l : List β} :
    f x ∈ l.map f ↔ x ∈ l := by
  constructor
  · intro h
    obtain ⟨y, hy, e⟩ := mem_map.mp h
    rw [← hf e]; exact hy
  · exact mem_map_of_mem

theorem zipIdx_filter_mem_length (P : Option Nat → Bool) (l1 l2 : List (Option Nat)) (k : Nat) :
    ((l1.zipIdx k).filter fun x => decide (x ∈ l2.zipIdx k) && P x.1).length = agree P l1 l2 := by
  induction l1 generalizing l2 k with
  | nil => simp [agree]
  | cons a l1 ih =>
    cases l2 with
    | nil => simp [agree]
    | cons b l2 =>
      have htail : (l1.zipIdx (k + 1)).filter (fun x => decide (x ∈ (b :: l2).zipIdx k) && P x.1)
          = (l1.zipIdx (k + 1)).filter (fun x => decide (x ∈ l2.zipIdx (k + 1)) && P x.1) := by
        apply filter_congr
        intro x hx
        have hk : k + 1 ≤ x.2 := le_snd_of_mem_zipIdx hx
        have : x ≠ (b, k) := by
          intro e; rw [e] at hk; simp at hk; omega
        simp [this]
      have hhead : (decide ((a, k) ∈ (b :: l2).zipIdx k) && P a) = (P a && a == b) := by
        have hnot : (a, k) ∉ l2.zipIdx (k + 1) := by
          intro hm
          have := le_snd_of_mem_zipIdx hm
          simp at this; omega
        by_cases hab : a = b
        · subst hab; simp [Bool.and_comm]
        · simp [hab, hnot]
      show (((a, k) :: l1.zipIdx (k + 1)).filter (fun x => decide (x ∈ (b :: l2).zipIdx k) && P x.1)).length = _
      rw [filter_cons, hhead, htail, agree]
      have := ih l2 (k + 1)
      by_cases h : (P a && a == b) = true
      · simp [h, this]; omega
      · simp [h, this]

theorem filter_relPair_mem_length (P : Option Nat → Bool) (s t s' t' : NRow)
    (hs : s'.name = s.name) (ht : t'.name = t.name) :
    ((relPair s t).filter fun e => decide (e ∈ relPair s' t') && P e.2.2).length
      = agree P (partners s.row t.row) (partners s'.row t'.row) := by
  rw [relPair_eq, relPair_eq, hs, ht, filter_map, length_map]
  rw [← zipIdx_filter_mem_length P _ _ 0]
  congr 1
  apply filter_congr
  intro x _
  simp only [Function.comp_def]
  simp only [mem_map_inj (mkRel_inj s.name t.name)]
  rfl

/-- the relations of the unordered pair of rows named `s`, `t` -/
def pairRel (s t : Name) (r1 r2 : Row) : List Rel :=
  relPair ⟨s, r1⟩ ⟨t, r2⟩ ++ relPair ⟨t, r2⟩ ⟨s, r1⟩

/-- the six counters as cardinalities of the specification's relations, restricted to one pair -/
def pairStats (s t : Name) (a1 a2 b1 b2 : Row) : CmpStats :=
  let RA := pairRel s t a1 a2
  let RB := pairRel s t b1 b2
  { refAligned := (RA.filter (·.isAligned)).length
    refGap := (RA.filter (·.isGap)).length
    identAligned := (RA.filter fun e => decide (e ∈ RB) && e.isAligned).length
    identGap := (RA.filter fun e => decide (e ∈ RB) && e.isGap).length
    testAligned := (RB.filter (·.isAligned)).length
    testGap := (RB.filter (·.isGap)).length }

theorem filter_pairRel_mem_length (P : Option Nat → Bool) (s t : Name) (hst : s ≠ t) (a1 a2 b1 b2 : Row) :
    ((pairRel s t a1 a2).filter fun e => decide (e ∈ pairRel s t b1 b2) && P e.2.2).length
      = agree P (partners a1 a2) (partners b1 b2) + agree P (partners a2 a1) (partners b2 b1) := by
  unfold pairRel
  rw [filter_append, length_append]
  congr 1
  · rw [← filter_relPair_mem_length P ⟨s, a1⟩ ⟨t, a2⟩ ⟨s, b1⟩ ⟨t, b2⟩ rfl rfl]
    congr 1
    apply filter_congr
    intro e he
    have htag := mem_relPair_tags he
    have : e ∉ relPair ⟨t, b2⟩ ⟨s, b1⟩ := by
      intro h
      have := mem_relPair_tags h
      exact hst (htag.1.symm.trans this.1)
    simp [mem_append, this]
  · rw [← filter_relPair_mem_length P ⟨t, a2⟩ ⟨s, a1⟩ ⟨t, b2⟩ ⟨s, b1⟩ rfl rfl]
    congr 1
    apply filter_congr
    intro e he
    have htag := mem_relPair_tags he
    have : e ∉ relPair ⟨s, b1⟩ ⟨t, b2⟩ := by
      intro h
      have := mem_relPair_tags h
      exact hst (this.1.symm.trans htag.1)
    simp [mem_append, this]

theorem filter_pairRel_length (P : Option Nat → Bool) (s t : Name) (r1 r2 : Row) :
    ((pairRel s t r1 r2).filter fun e => P e.2.2).length
      = (partners r1 r2).countP P + (partners r2 r1).countP P := by
  unfold pairRel
  rw [filter_append, length_append, filter_relPair_length, filter_relPair_length]

theorem pairStats_eq (s t : Name) (hst : s ≠ t) (a1 a2 b1 b2 : Row) :
    pairStats s t a1 a2 b1 b2 =
      { refAligned := (partners a1 a2).countP (·.isSome) + (partners a2 a1).countP (·.isSome)
        refGap := (partners a1 a2).countP (·.isNone) + (partners a2 a1).countP (·.isNone)
        identAligned := agree (·.isSome) (partners a1 a2) (partners b1 b2) + agree (·.isSome) (partners a2 a1) (partners b2 b1)
        identGap := agree (·.isNone) (partners a1 a2) (partners b1 b2) + agree (·.isNone) (partners a2 a1) (partners b2 b1)
        testAligned := (partners b1 b2).countP (·.isSome) + (partners b2 b1).countP (·.isSome)
        testGap := (partners b1 b2).countP (·.isNone) + (partners b2 b1).countP (·.isNone) } := by
  unfold pairStats
  simp only [Rel.isAligned, Rel.isGap]
  rw [filter_pairRel_length (·.isSome), filter_pairRel_length (·.isNone),
    filter_pairRel_length (·.isSome), filter_pairRel_length (·.isNone),
    filter_pairRel_mem_length (·.isSome) s t hst, filter_pairRel_mem_length (·.isNone) s t hst]

theorem partners_eq_nil_of_nres (s t : Row) (h : nres s = 0) : partners s t = [] := by
  rw [← length_eq_zero_iff, length_partners]; exact h

/-- **the counters of `compare_pair` are the cardinalities of the specification** (for two
alignments of the same two sequences) -/
theorem comparePair_spec (s t : Name) (hst : s ≠ t) (a1 a2 b1 b2 : Row)
    (hA : a1.length = a2.length) (hB : b1.length = b2.length)
    (h1 : nres b1 = nres a1) (h2 : nres b2 = nres a2) :
    comparePair a1 a2 b1 b2 = some (pairStats s t a1 a2 b1 b2) := by
  rw [pairStats_eq s t hst]
  unfold comparePair
  have hcond : ¬ (a1.length ≠ a2.length ∨ b1.length ≠ b2.length) := by simp [hA, hB]
  rw [if_neg hcond]
  by_cases hf : comparePairFails a1 b1 = true
  · rw [if_pos hf]
    have hz : nres a1 = 0 ∧ nres a2 = 0 ∧ nres b1 = 0 ∧ nres b2 = 0 := by
      simp only [comparePairFails, Bool.or_eq_true, decide_eq_true_eq] at hf
      rcases hf with hf | hf
      · have e1 : a1 = [] := length_eq_zero_iff.mp hf
        have e2 : a2 = [] := length_eq_zero_iff.mp (hA ▸ hf)
        subst e1 e2
        simp [nres] at h1 h2 ⊢
        exact ⟨h1, h2⟩
      · have e1 : b1 = [] := length_eq_zero_iff.mp hf
        have e2 : b2 = [] := length_eq_zero_iff.mp (hB ▸ hf)
        subst e1 e2
        simp [nres] at h1 h2 ⊢
        exact ⟨by simpa [nres] using h1.symm, by simpa [nres] using h2.symm⟩
    obtain ⟨z1, z2, z3, z4⟩ := hz
    simp only [partners_eq_nil_of_nres _ _ z1, partners_eq_nil_of_nres _ _ z2,
      partners_eq_nil_of_nres _ _ z3, partners_eq_nil_of_nres _ _ z4, countP_nil, agree]
    rfl
  · rw [if_neg hf]
    obtain ⟨ha1, ha2, ha3, ha4⟩ := scanPair_spec 0 0 a1 a2
    obtain ⟨hb1, hb2, hb3, hb4⟩ := scanPair_spec 0 0 b1 b2
    simp only [partnersFrom_zero _ _ hA, partnersFrom_zero _ _ hA.symm] at ha1 ha2 ha3 ha4
    simp only [partnersFrom_zero _ _ hB, partnersFrom_zero _ _ hB.symm] at hb1 hb2 hb3 hb4
    simp only [ha1, ha2, ha3, ha4, hb1, hb2, hb3, hb4]
    rw [identCount_spec _ _ (by rw [length_partners, length_partners]; omega),
      identCount_spec _ _ (by rw [length_partners, length_partners]; omega)]

end Kalign
