import KalignModel.Model.TreeSoft
import KalignModel.Lemmas.SoftMul
/-!
# The length-bias term of `d_estimation` on `SoftF32` is at most 1

`lenTermS la lb = (float)min(10000, s) / (float)10000` takes 10001 values; each is checked by kernel evaluation of the software
division (about 40 s): its pattern is at most the pattern `0x3f800000` of `1.0`.
-/
namespace Kalign
open SoftF32

/-- the pattern of the quotient is at most the pattern of `1.0` -/
def lenOk (k : Nat) : Bool :=
  decide ((SoftF32.div (SoftF32.ofNat k) (SoftF32.ofNat 10000)).mag ≤ 1065353216)

set_option maxRecDepth 100000 in
theorem lenOk_all : (List.range 10001).all lenOk = true := by decide +kernel

/-- **`0 ≤ add ≤ 1`**: the length term is finite and at most 1 -/
theorem lenTermS_absLe (la lb : Nat) : absLe (lenTermS la lb) 1 := by
  have hk : min 10000 ((la + lb) / 2) ∈ List.range 10001 := List.mem_range.2 (by omega)
  have h := List.all_eq_true.1 lenOk_all _ hk
  unfold lenOk at h
  have h' := of_decide_eq_true h
  unfold lenTermS absLe
  refine ⟨by omega, ?_⟩
  have e : magVal 1065353216 = 1 * 2 ^ 149 := by decide
  rw [← e]
  exact magVal_mono h'

end Kalign
