import KalignModel.Lemmas.SoftClass
/-!
# The tie-break term of the meetup on the software binary32 is bounded

`Score.tie c2 c3 i = fabsf((float)(c3 - c2)/2.0F + (float)c2 - (float)i) / 1000.0F`.  For `0 ≤ c2 ≤ i ≤ c3 < 2²²` the numerator is
computed exactly (halves of integers below 2²⁴) and the division by 1000 shrinks it: the term is finite and at most 2²⁰.
-/
set_option exponentiation.threshold 512
namespace Kalign.SoftF32

/-- division of finite non-zero values whose quotient exponent stays in the `roundNat` range -/
theorem div_nat_path {a b : SoftF32} (ha : a.isFinite = true) (hb : b.isFinite = true) (ha0 : a.mag ≠ 0) (hb0 : b.mag ≠ 0)
    (he : b.ex ≤ a.ex + 98) :
    div a b = pack (a.sign != b.sign)
      (roundNat (2 * (a.sig * 2 ^ 50 / b.sig) + (if (a.sig * 2 ^ 50) % b.sig = 0 then 0 else 1)) (a.ex + 98 - b.ex)) := by
  have h1 : a.isNaN = false := isNaN_of_finite ha
  have h2 : b.isNaN = false := isNaN_of_finite hb
  have h3 : a.isInf = false := by
    rw [isFinite_iff] at ha; rw [← Bool.not_eq_true, isInf_iff]; omega
  have h4 : b.isInf = false := by
    rw [isFinite_iff] at hb; rw [← Bool.not_eq_true, isInf_iff]; omega
  have h5 : a.isZero = false := by simp [isZero, ha0]
  have h6 : b.isZero = false := by simp [isZero, hb0]
  unfold div
  simp only [h1, h2, h3, h4, h5, h6, Bool.false_eq_true, if_false, Nat.shiftLeft_eq]
  unfold roundInt
  have hpos : (0 : Int) ≤ (a.ex : Int) - (b.ex : Int) + 98 := by omega
  rw [if_pos hpos]
  have : ((a.ex : Int) - (b.ex : Int) + 98).toNat = a.ex + 98 - b.ex := by omega
  rw [this]

theorem ex_ge_of_magVal {g t : Nat} (h : 2 ^ (t + 23) ≤ magVal g) : t ≤ magExp g := by
  -- the pattern `(t+1)·2²³` has value `2²³·2^t`
  have hv : magVal ((t + 1) * 8388608) = 2 ^ (t + 23) := by
    have := magVal_enc t 8388608 (Or.inr (Nat.le_refl _)) (by decide)
    have e : t * 8388608 + 8388608 = (t + 1) * 8388608 := by omega
    rw [e] at this
    rw [this, Nat.pow_add, Nat.mul_comm]
  rw [← hv, magVal_le_iff] at h
  unfold magExp
  have : t + 1 ≤ g / 8388608 := by
    rw [Nat.le_div_iff_mul_le (by decide)]; exact h
  omega

theorem sig_lt (x : SoftF32) : x.sig < 16777216 := by
  unfold sig magSig
  split <;> omega

theorem sig_pos {x : SoftF32} (h : x.mag ≠ 0) : 0 < x.sig := by
  unfold sig magSig
  split <;> omega

/-- `x / 2` is exact for an `x` of large enough exponent -/
theorem div_two {a : SoftF32} (ha : a.isFinite = true) (ha0 : a.mag ≠ 0) (he : 29 ≤ a.ex) :
    (div a two).sign = a.sign ∧ (div a two).mag < 2139095040 ∧ 2 * magVal (div a two).mag = magVal a.mag := by
  have htf : two.isFinite = true := by decide
  have ht0 : two.mag ≠ 0 := by decide
  have hts : two.sig = 8388608 := by decide
  have hte : two.ex = 127 := by decide
  have htsg : two.sign = false := by decide
  rw [div_nat_path ha htf ha0 ht0 (by rw [hte]; omega), hts, hte, htsg]
  have hq : a.sig * 2 ^ 50 / 8388608 = a.sig * 2 ^ 27 := by
    have : a.sig * 2 ^ 50 = a.sig * 2 ^ 27 * 8388608 := by
      have c : (2 : Nat) ^ 50 = 2 ^ 27 * 8388608 := by decide
      rw [c, Nat.mul_assoc]
    rw [this, Nat.mul_div_cancel _ (by decide)]
  have hr : a.sig * 2 ^ 50 % 8388608 = 0 := by
    have : a.sig * 2 ^ 50 = a.sig * 2 ^ 27 * 8388608 := by
      have c : (2 : Nat) ^ 50 = 2 ^ 27 * 8388608 := by decide
      rw [c, Nat.mul_assoc]
    rw [this, Nat.mul_mod_left]
  rw [hq, hr, if_pos rfl, Nat.add_zero]
  -- value: sig · 2²⁸ · 2^(ex−29) = sig · 2^(ex−1)
  have hval : 2 * (a.sig * 2 ^ 27) * 2 ^ (a.ex + 98 - 127) = a.sig * 2 ^ (a.ex - 1) := by
    have e1 : a.ex - 1 = 28 + (a.ex + 98 - 127) := by omega
    have h28 : (2 : Nat) ^ 28 = 2 * 2 ^ 27 := by decide
    rw [e1, Nat.pow_add, h28]
    generalize (2 : Nat) ^ 27 = Y
    generalize (2 : Nat) ^ (a.ex + 98 - 127) = X
    ac_rfl
  have hcong : roundNatU (2 * (a.sig * 2 ^ 27)) (a.ex + 98 - 127) = roundNatU a.sig (a.ex - 1) :=
    roundNatU_congr hval
  have hmv : magVal (roundNatU a.sig (a.ex - 1)) = a.sig * 2 ^ (a.ex - 1) := magVal_roundNatU_small (sig_lt a)
  have hdouble : 2 * (a.sig * 2 ^ (a.ex - 1)) = magVal a.mag := by
    rw [← sig_mul_ex]
    have : a.ex = (a.ex - 1) + 1 := by omega
    rw [this, Nat.pow_succ, Nat.add_sub_cancel]
    generalize (2 : Nat) ^ (a.ex - 1) = X
    ac_rfl
  have hfin : roundNatU a.sig (a.ex - 1) < 2139095040 := by
    rw [← magVal_lt_iff, hmv]
    have h1 := (isFinite_iff a).1 ha
    have h2 := (magVal_lt_iff (g := a.mag) (g' := 2139095040)).2 h1
    omega
  have hmin : roundNat (2 * (a.sig * 2 ^ 27)) (a.ex + 98 - 127) = roundNatU a.sig (a.ex - 1) := by
    unfold roundNat
    rw [hcong]
    exact Nat.min_eq_left (by simp only [infMag]; omega)
  rw [hmin, sign_pack _ _ (by omega), mag_pack _ _ (by omega), hmv]
  exact ⟨by cases a.sign <;> rfl, hfin, hdouble⟩

/-- `x / 1000` is at most `x / 256` -/
theorem div_thousand {a : SoftF32} (ha : a.isFinite = true) (ha0 : a.mag ≠ 0) (he : 37 ≤ a.ex) :
    (div a thousand).mag < 2139095040 ∧ 256 * magVal (div a thousand).mag ≤ magVal a.mag := by
  have htf : thousand.isFinite = true := by decide
  have ht0 : thousand.mag ≠ 0 := by decide
  have hts : thousand.sig = 16384000 := by decide
  have hte : thousand.ex = 135 := by decide
  rw [div_nat_path ha htf ha0 ht0 (by rw [hte]; omega), hts, hte]
  generalize hm : 2 * (a.sig * 2 ^ 50 / 16384000) + (if a.sig * 2 ^ 50 % 16384000 = 0 then 0 else 1) = m
  have hsp := sig_pos ha0
  have hq : a.sig * 2 ^ 50 / 16384000 ≤ a.sig * 2 ^ 27 := by
    have h1 : a.sig * 2 ^ 50 / 16384000 ≤ a.sig * 2 ^ 50 / 8388608 := Nat.div_le_div_left (by decide) (by decide)
    have h2 : a.sig * 2 ^ 50 / 8388608 = a.sig * 2 ^ 27 := by
      have : a.sig * 2 ^ 50 = a.sig * 2 ^ 27 * 8388608 := by
        have c : (2 : Nat) ^ 50 = 2 ^ 27 * 8388608 := by decide
        rw [c, Nat.mul_assoc]
      rw [this, Nat.mul_div_cancel _ (by decide)]
    omega
  have hmle : m ≤ a.sig * 2 ^ 29 := by
    have h29 : a.sig * 2 ^ 29 = 4 * (a.sig * 2 ^ 27) := by
      have : (2 : Nat) ^ 29 = 4 * 2 ^ 27 := by decide
      rw [this]
      generalize (2 : Nat) ^ 27 = Y
      ac_rfl
    have hpos : 1 ≤ a.sig * 2 ^ 27 := Nat.mul_pos hsp (by decide)
    rw [← hm, h29]
    split <;> omega
  -- m · 2^(ex−37) ≤ sig · 2^(ex−8)
  have hval : m * 2 ^ (a.ex + 98 - 135) ≤ a.sig * 2 ^ (a.ex - 8) := by
    have e1 : a.ex - 8 = 29 + (a.ex + 98 - 135) := by omega
    rw [e1, Nat.pow_add, ← Nat.mul_assoc]
    exact Nat.mul_le_mul_right _ hmle
  have hmono := roundNatU_mono hval
  have hmv : magVal (roundNatU a.sig (a.ex - 8)) = a.sig * 2 ^ (a.ex - 8) := magVal_roundNatU_small (sig_lt a)
  have h256 : 256 * (a.sig * 2 ^ (a.ex - 8)) = magVal a.mag := by
    rw [← sig_mul_ex]
    have : a.ex = (a.ex - 8) + 8 := by omega
    rw [this, Nat.pow_add, Nat.add_sub_cancel]
    have : (2 : Nat) ^ 8 = 256 := by decide
    rw [this]
    generalize (2 : Nat) ^ (a.ex - 8) = X
    ac_rfl
  have hfin8 : roundNatU a.sig (a.ex - 8) < 2139095040 := by
    rw [← magVal_lt_iff, hmv]
    have h1 := (isFinite_iff a).1 ha
    have h2 := (magVal_lt_iff (g := a.mag) (g' := 2139095040)).2 h1
    omega
  have hmin : roundNat m (a.ex + 98 - 135) = roundNatU m (a.ex + 98 - 135) := by
    unfold roundNat
    exact Nat.min_eq_left (by simp only [infMag]; omega)
  rw [hmin, mag_pack _ _ (by omega)]
  refine ⟨by omega, ?_⟩
  have := magVal_mono hmono
  rw [hmv] at this
  omega

end Kalign.SoftF32

namespace Kalign.SoftF32

theorem div_zero_left {a b : SoftF32} (ha0 : a.mag = 0) (hb : b.isFinite = true) (hb0 : b.mag ≠ 0) :
    div a b = pack (a.sign != b.sign) 0 := by
  have h1 : a.isNaN = false := by rw [← Bool.not_eq_true, isNaN_iff]; omega
  have h2 : b.isNaN = false := isNaN_of_finite hb
  have h3 : a.isInf = false := by rw [← Bool.not_eq_true, isInf_iff]; omega
  have h4 : b.isInf = false := by
    rw [isFinite_iff] at hb; rw [← Bool.not_eq_true, isInf_iff]; omega
  have h5 : a.isZero = true := by simp [isZero, ha0]
  have h6 : b.isZero = false := by simp [isZero, hb0]
  unfold div
  simp only [h1, h2, h3, h4, h5, h6, Bool.false_eq_true, if_false, if_true]

/-- an exact signed value on the grid (an integer below 2²⁴ times a power of two) is represented exactly -/
theorem toInt_packZ_grid {s0 : Bool} {z : Int} {c t : Nat} (hz : z.natAbs = c * 2 ^ t) (hc : c < 16777216) (ht : t ≤ 253) :
    (packZ s0 z).mag < 2139095040 ∧ toInt (packZ s0 z) = z := by
  by_cases h0 : z = 0
  · subst h0
    have hm : (packZ s0 0).mag = 0 := by rw [mag_packZ]; simp
    refine ⟨by omega, ?_⟩
    unfold toInt
    rw [hm]
    simp
  · have hmv : magVal (roundNatU c t) = c * 2 ^ t := magVal_roundNatU_small hc
    have hfin : roundNatU c t < 2139095040 := by
      rw [← magVal_lt_iff, hmv, magVal_infMag]
      have h1 : c * 2 ^ t < 16777216 * 2 ^ t := Nat.mul_lt_mul_of_pos_right hc (Nat.pow_pos (by decide))
      have h2 : (2 : Nat) ^ t ≤ 2 ^ 253 := Nat.pow_le_pow_right (by decide) ht
      have h3 : (16777216 : Nat) * 2 ^ 253 = 2 ^ 277 := by decide
      have h4 : (16777216 : Nat) * 2 ^ t ≤ 16777216 * 2 ^ 253 := Nat.mul_le_mul_left _ h2
      omega
    have hr : rnd z.natAbs = roundNatU c t := by rw [hz, ← roundNatU_eq_rnd]
    have hm : (packZ s0 z).mag = roundNatU c t := by
      rw [mag_packZ, if_neg h0, hr]
      exact Nat.min_eq_left (by simp only [infMag]; omega)
    have hs : (packZ s0 z).sign = decide (z < 0) := by rw [sign_packZ, if_neg h0]
    refine ⟨by omega, ?_⟩
    unfold toInt
    rw [hm, hs, hmv, ← hz]
    by_cases hneg : z < 0
    · simp only [hneg, decide_true, if_true]; omega
    · simp only [hneg, decide_false, Bool.false_eq_true, if_false]; omega

theorem alg1 (D S Y : Int) : D * Y + S * (2 * Y) = (D + 2 * S) * Y := by
  rw [Int.add_mul, Int.mul_assoc, Int.mul_left_comm]

theorem alg2 (D S I Y : Int) : (D + 2 * S) * Y - I * (2 * Y) = (D + 2 * S - 2 * I) * Y := by
  rw [Int.sub_mul, Int.mul_assoc 2 I Y, Int.mul_left_comm I 2 Y]

theorem c149 : ((2 ^ 149 : Nat) : Int) = 2 * ((2 ^ 148 : Nat) : Int) := by decide

theorem cast_grid (d sb : Nat) : (((d + 2 * sb) * 2 ^ 148 : Nat) : Int) = ((d : Int) + 2 * (sb : Int)) * ((2 ^ 148 : Nat) : Int) := by
  rw [Int.natCast_mul, Int.natCast_add, Int.natCast_mul]
  rfl

theorem isFinite_of_mag {x : SoftF32} (h : x.mag < 2139095040) : x.isFinite = true := (isFinite_iff x).2 h

theorem toInt_of_pos {x : SoftF32} (hs : x.sign = false) : toInt x = (magVal x.mag : Int) := by
  unfold toInt; rw [hs]; simp

/-- **the tie-break term is bounded** (columns below 2²²) -/
theorem tie_bound (sb eb i : Nat) (h1 : sb ≤ i) (h2 : i ≤ eb) (h3 : eb < 4194304) :
    absLe (Score.tie (sb : Int) (eb : Int) (i : Int) : SoftF32) 1048576 := by
  show absLe (div (abs (sub (add (div (ofInt ((eb : Int) - sb)) two) (ofInt sb)) (ofInt i))) thousand) 1048576
  -- (float)(c3 - c2)
  obtain ⟨d, hd⟩ : ∃ d : Nat, (eb : Int) - sb = d := ⟨eb - sb, by omega⟩
  rw [hd]
  have hdlt : (d : Int).natAbs < 16777216 := by omega
  obtain ⟨a1, a2, a3⟩ := ofInt_finite hdlt
  have a3' : (ofInt (d : Int)).sign = false := by rw [a3]; simp
  -- … / 2.0F
  have hH : (div (ofInt (d : Int)) two).mag < 2139095040 ∧ toInt (div (ofInt (d : Int)) two) = ((d * 2 ^ 148 : Nat) : Int) := by
    by_cases hd0 : d = 0
    · subst hd0
      have hm0 : (ofInt ((0 : Nat) : Int)).mag = 0 := by
        apply magVal_eq_zero.1; rw [a2]; simp
      rw [div_zero_left hm0 (by decide) (by decide)]
      have : (pack ((ofInt ((0 : Nat) : Int)).sign != two.sign) 0).mag = 0 := mag_pack _ _ (by decide)
      refine ⟨by omega, ?_⟩
      unfold toInt; rw [this]; simp
    · have hm0 : (ofInt (d : Int)).mag ≠ 0 := by
        intro h
        have := magVal_eq_zero.2 h
        rw [a2] at this
        have : 0 < (d : Int).natAbs * 2 ^ 149 := Nat.mul_pos (by omega) (by decide)
        omega
      have hex : 126 ≤ (ofInt (d : Int)).ex := by
        apply ex_ge_of_magVal
        rw [a2]
        have : 1 * 2 ^ 149 ≤ (d : Int).natAbs * 2 ^ 149 := Nat.mul_le_mul_right _ (by omega)
        omega
      obtain ⟨b1, b2, b3⟩ := div_two (isFinite_of_mag a1) hm0 (by omega)
      refine ⟨b2, ?_⟩
      rw [toInt_of_pos (by rw [b1]; exact a3')]
      rw [a2] at b3
      have e : (d : Int).natAbs = d := by omega
      rw [e] at b3
      have e2 : d * 2 ^ 149 = 2 * (d * 2 ^ 148) := by
        have : (2 : Nat) ^ 149 = 2 * 2 ^ 148 := by decide
        rw [this]
        generalize (2 : Nat) ^ 148 = X
        ac_rfl
      have : magVal (div (ofInt (d : Int)) two).mag = d * 2 ^ 148 := by omega
      rw [this]
  obtain ⟨hH1, hH2⟩ := hH
  -- … + (float)c2
  have hsb : (sb : Int).natAbs < 16777216 := by omega
  have hmidz : toInt (div (ofInt (d : Int)) two) + toInt (ofInt (sb : Int)) = (((d + 2 * sb) * 2 ^ 148 : Nat) : Int) := by
    rw [hH2, toInt_ofInt hsb, Int.natCast_mul d, c149, alg1, cast_grid]
  have hmid := add_eq_packZ (isFinite_of_mag hH1) (isFinite_of_mag (ofInt_finite hsb).1)
  rw [hmidz] at hmid
  obtain ⟨m1, m2⟩ := toInt_packZ_grid (s0 := ((div (ofInt (d : Int)) two).sign && (ofInt (sb : Int)).sign))
    (z := (((d + 2 * sb) * 2 ^ 148 : Nat) : Int)) (c := d + 2 * sb) (t := 148) (Int.natAbs_natCast _) (by omega) (by decide)
  rw [← hmid] at m1 m2
  -- … − (float)i
  have hi : (i : Int).natAbs < 16777216 := by omega
  have hxz : toInt (add (div (ofInt (d : Int)) two) (ofInt (sb : Int))) - toInt (ofInt (i : Int)) =
      ((d : Int) + 2 * sb - 2 * i) * ((2 ^ 148 : Nat) : Int) := by
    rw [m2, toInt_ofInt hi, cast_grid, c149, alg2]
  have hx := sub_eq_packZ (isFinite_of_mag m1) (isFinite_of_mag (ofInt_finite hi).1)
  rw [hxz] at hx
  generalize hw : ((d : Int) + 2 * sb - 2 * i).natAbs = w at *
  have hwlt : w < 16777216 := by omega
  obtain ⟨x1, x2⟩ := toInt_packZ_grid
    (s0 := ((add (div (ofInt (d : Int)) two) (ofInt (sb : Int))).sign && !(ofInt (i : Int)).sign))
    (z := ((d : Int) + 2 * sb - 2 * i) * ((2 ^ 148 : Nat) : Int)) (c := w) (t := 148)
    (by rw [Int.natAbs_mul, Int.natAbs_natCast, hw]) hwlt (by decide)
  rw [← hx] at x1 x2
  -- fabsf
  generalize sub (add (div (ofInt (d : Int)) two) (ofInt (sb : Int))) (ofInt (i : Int)) = x at *
  have hax1 : (abs x).mag = x.mag := mag_abs x
  have hxv : magVal x.mag = w * 2 ^ 148 := by
    have := natAbs_toInt x
    rw [x2, Int.natAbs_mul, Int.natAbs_natCast, hw] at this
    omega
  -- … / 1000.0F
  by_cases hw0 : x.mag = 0
  · rw [div_zero_left (by rw [hax1]; exact hw0) (by decide) (by decide)]
    have : (pack ((abs x).sign != thousand.sign) 0).mag = 0 := mag_pack _ _ (by decide)
    unfold absLe
    rw [this]
    exact ⟨by omega, by simp⟩
  · have hwpos : 1 ≤ w := by
      have : magVal x.mag ≠ 0 := fun h => hw0 (magVal_eq_zero.1 h)
      rw [hxv] at this
      rcases Nat.eq_zero_or_pos w with h | h
      · subst h; simp at this
      · exact h
    have hex : 125 ≤ (abs x).ex := by
      apply ex_ge_of_magVal
      show 2 ^ (125 + 23) ≤ magVal (abs x).mag
      rw [hax1, hxv]
      have : 1 * 2 ^ 148 ≤ w * 2 ^ 148 := Nat.mul_le_mul_right _ hwpos
      omega
    obtain ⟨t1, t2⟩ := div_thousand (isFinite_of_mag (by rw [hax1]; exact x1)) (by rw [hax1]; exact hw0) (by omega)
    refine ⟨t1, ?_⟩
    rw [hax1, hxv] at t2
    have h4 : w * 2 ^ 148 < 16777216 * 2 ^ 148 := Nat.mul_lt_mul_of_pos_right hwlt (by decide)
    have h5 : (16777216 : Nat) * 2 ^ 148 ≤ 256 * (1048576 * 2 ^ 149) := by decide
    omega

end Kalign.SoftF32
