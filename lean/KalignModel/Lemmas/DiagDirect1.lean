import KalignModel.Lemmas.OptCut
import KalignModel.Lemmas.DiagOpt
/-!
# The meetup of a square rectangle on the diagonal of (seq, seq) — direct argument (no margin)

For a kernel configuration `c` with cells `0..n` whose substitution scores are dominated by a "self-score" `d`
(`2·sc p k ≤ d p + d k`) and whose self-scores outweigh the cheapest gap charge `g` (`d i + 2·g ≥ 1`), every walk of the
kernel satisfies

    2·walkSc + #gap columns ≤ Σ d (rows consumed) + Σ d (cells consumed)          (`walk_le_diag`)

so a pair (forward walk, backward walk) that meets in the middle row of a square rectangle with at least one gap column
reads strictly less than the gap-free diagonal; the tie-break term `|n − 2k|` is minimal in the cell `k = n/2` of the
diagonal.  Hence the meetup returns `(n/2, 1)` (`diag_meet`).  No relation between `gpo`, `gpe`, `tgpe` is needed
(in particular `tgpe = 0` is fine).
-/
namespace Kalign

/-- prefix sums -/
def psum (d : Nat → Int) : Nat → Int
  | 0 => 0
  | n + 1 => psum d n + d n

/-- number of gap columns -/
def gapN : List Col → Nat
  | [] => 0
  | c :: cs => (if c = .both then 0 else 1) + gapN cs

structure DiagCfg (c : KCfg) (d : Nat → Int) (g E : Int) : Prop where
  hgpo : 0 ≤ c.gpo
  g1 : g ≤ c.gpo
  g2 : g ≤ c.gpe
  g3 : g ≤ c.tgpe
  hsc : ∀ p k, p < c.n → k < c.n → 2 * c.sc p k ≤ d p + d k
  hdiag : ∀ p, p < c.n → c.sc p p = d p
  hd : ∀ i, i < c.n → E ≤ d i + 2 * g

/-- **twice the value of a walk plus its number of gap columns is at most the self-scores of what it consumes** -/
theorem walk_le_diag (c : KCfg) (d : Nat → Int) (g E : Int) (H : DiagCfg c d g E) (X : List Col) :
    ∀ p k st a b, walkOK c p k st X = true → a = p + consA X → b = k + consB X → a ≤ c.n →
      2 * walkSc c p k st X + E * (gapN X : Int) ≤ (psum d a - psum d p) + (psum d b - psum d k) := by
  induction X with
  | nil =>
    intro p k st a b _ ha hb _
    subst ha hb
    simp [walkSc, gapN]
  | cons col cs ih =>
    intro p k st a b hw ha hb hle
    simp only [walkOK, Bool.and_eq_true] at hw
    obtain ⟨hs, hw'⟩ := hw
    cases col with
    | skip => simp [stepOK] at hs
    | both =>
      simp only [stepOK, decide_eq_true_eq] at hs
      simp only [consA_both, consB_both] at ha hb
      have ih' := ih (p + 1) (k + 1) .A a b hw' (by omega) (by omega) hle
      have h1 := H.hsc p k (by omega) (by omega)
      have h2 : psum d (p + 1) = psum d p + d p := rfl
      have h3 : psum d (k + 1) = psum d k + d k := rfl
      have h4 : gapN (Col.both :: cs) = gapN cs := by simp [gapN]
      have h5 : stepSc c p k st .both ≤ c.sc p k := by
        have := H.hgpo
        simp only [stepSc]
        split <;> omega
      have h6 : walkSc c p k st (Col.both :: cs) = stepSc c p k st .both + walkSc c (p + 1) (k + 1) .A cs := rfl
      rw [h4, h6]
      omega
    | gapA =>
      simp only [stepOK, Bool.and_eq_true, decide_eq_true_eq] at hs
      simp only [consA_gapA, consB_gapA] at ha hb
      have ih' := ih p (k + 1) .GA a b hw' (by omega) (by omega) hle
      have h1 := H.hd k (by omega)
      have h3 : psum d (k + 1) = psum d k + d k := rfl
      have h4 : E * ((gapN (Col.gapA :: cs) : Nat) : Int) = E * (gapN cs : Int) + E := by
        have : gapN (Col.gapA :: cs) = gapN cs + 1 := by simp [gapN]; omega
        rw [this]; push_cast; rw [Int.mul_add, Int.mul_one]
      have h5 : stepSc c p k st .gapA ≤ - g := by
        have := H.g1; have := H.g2; have := H.g3
        simp only [stepSc]
        split
        · omega
        · split <;> omega
      have h6 : walkSc c p k st (Col.gapA :: cs) = stepSc c p k st .gapA + walkSc c p (k + 1) .GA cs := rfl
      rw [h4, h6]
      omega
    | gapB =>
      simp only [stepOK, Bool.and_eq_true, decide_eq_true_eq] at hs
      simp only [consA_gapB, consB_gapB] at ha hb
      have ih' := ih (p + 1) k .GB a b hw' (by omega) (by omega) hle
      have h1 := H.hd p (by omega)
      have h3 : psum d (p + 1) = psum d p + d p := rfl
      have h4 : E * ((gapN (Col.gapB :: cs) : Nat) : Int) = E * (gapN cs : Int) + E := by
        have : gapN (Col.gapB :: cs) = gapN cs + 1 := by simp [gapN]; omega
        rw [this]; push_cast; rw [Int.mul_add, Int.mul_one]
      have h5 : stepSc c p k st .gapB ≤ - g := by
        have := H.g1; have := H.g2; have := H.g3
        simp only [stepSc]
        split
        · omega
        · split <;> omega
      have h6 : walkSc c p k st (Col.gapB :: cs) = stepSc c p k st .gapB + walkSc c (p + 1) k .GB cs := rfl
      rw [h4, h6]
      omega

/-! ## the diagonal walk -/

theorem diagCols_succ (m : Nat) : diagCols (m + 1) = .both :: diagCols m := by
  simp [diagCols, List.replicate_succ]

theorem walkOK_diag (c : KCfg) (m : Nat) : ∀ p k st, k + m ≤ c.n → walkOK c p k st (diagCols m) = true := by
  induction m with
  | zero => intro p k st _; rfl
  | succ m ih =>
    intro p k st h
    rw [diagCols_succ]
    simp only [walkOK, stepOK, Bool.and_eq_true, decide_eq_true_eq]
    exact ⟨by omega, ih _ _ _ (by simp only [stepK]; omega)⟩

theorem walkSc_diag (c : KCfg) (d : Nat → Int) (m : Nat) :
    ∀ p, (∀ i, i < p + m → c.sc i i = d i) → walkSc c p p .A (diagCols m) = psum d (p + m) - psum d p := by
  induction m with
  | zero => intro p _; simp [diagCols, walkSc]
  | succ m ih =>
    intro p h
    rw [diagCols_succ]
    have h6 : walkSc c p p .A (Col.both :: diagCols m) = stepSc c p p .A .both + walkSc c (p + 1) (p + 1) .A (diagCols m) :=
      rfl
    rw [h6, ih (p + 1) (fun i hi => h i (by omega))]
    have h2 : psum d (p + 1) = psum d p + d p := rfl
    have h3 : stepSc c p p .A .both = c.sc p p := by simp [stepSc]
    have h4 : p + 1 + m = p + (m + 1) := by omega
    rw [h3, h (p) (by omega), h4]
    omega

theorem lastKind_diag (m : Nat) : lastKind .A (diagCols m) = .A := by
  induction m with
  | zero => rfl
  | succ m ih =>
    rw [diagCols_succ]
    exact ih

theorem consA_diag (m : Nat) : consA (diagCols m) = m := consA_replicate_both m
theorem consB_diag (m : Nat) : consB (diagCols m) = m := consB_replicate_both m

theorem diagCols_reverse (m : Nat) : (diagCols m).reverse = diagCols m := by
  simp [diagCols]

theorem diagCols_add (a b : Nat) : diagCols (a + b) = diagCols a ++ diagCols b := by
  simp [diagCols, List.replicate_append_replicate]

/-- a column list without gap columns (and without `skip`) is a diagonal -/
theorem gapN_zero (X : List Col) (h : gapN X = 0) : X = diagCols (consA X) ∧ consB X = consA X := by
  induction X with
  | nil => exact ⟨rfl, rfl⟩
  | cons c cs ih =>
    simp only [gapN] at h
    by_cases hc : c = .both
    · subst hc
      simp only [if_true, Nat.zero_add] at h
      obtain ⟨h1, h2⟩ := ih h
      simp only [consA_both, consB_both]
      rw [diagCols_succ, ← h1]
      exact ⟨rfl, by omega⟩
    · rw [if_neg hc] at h
      omega

/-- a piece of a diagonal is a diagonal -/
theorem all_both_diag (X : List Col) (h : ∀ c ∈ X, c = .both) : X = diagCols X.length := by
  unfold diagCols
  exact List.eq_replicate_iff.2 ⟨rfl, h⟩

/-- without `skip` columns: rows + cells + gap columns = twice the number of columns -/
theorem gapN_parity (X : List Col) (hs : Col.skip ∉ X) : consA X + consB X + gapN X = 2 * X.length := by
  induction X with
  | nil => rfl
  | cons c cs ih =>
    have ih' := ih (fun h => hs (List.mem_cons_of_mem _ h))
    cases c with
    | skip => exact absurd (by simp) hs
    | both => simp [gapN]; omega
    | gapA => simp [gapN]; omega
    | gapB => simp [gapN]; omega

/-! ## prefix sums of a reversed weight -/

theorem psum_rev (D : Nat → Int) (sa ea : Nat) (h : sa ≤ ea) :
    ∀ j, j ≤ ea - sa →
      psum (fun i => D (sa + i)) (ea - sa - j) + psum (fun i => D (ea - 1 - i)) j =
        psum (fun i => D (sa + i)) (ea - sa) := by
  intro j
  induction j with
  | zero => intro _; simp [psum]
  | succ j ih =>
    intro hj
    have ih' := ih (by omega)
    have e1 : ea - sa - j = (ea - sa - (j + 1)) + 1 := by omega
    have e2 : psum (fun i => D (sa + i)) (ea - sa - j) =
        psum (fun i => D (sa + i)) (ea - sa - (j + 1)) + D (sa + (ea - sa - (j + 1))) := by
      rw [e1]; rfl
    have e3 : psum (fun i => D (ea - 1 - i)) (j + 1) = psum (fun i => D (ea - 1 - i)) j + D (ea - 1 - j) := rfl
    have e4 : sa + (ea - sa - (j + 1)) = ea - 1 - j := by omega
    rw [e2, e4] at ih'
    rw [e3]
    omega

/-! ## the meetup -/

theorem fkbk_one (t : Int) (ht : t = 1 ∨ t = 2 ∨ t = 3 ∨ t = 5 ∨ t = 6 ∨ t = 7) (h1 : fkOf t = .A) (h2 : bkOf t = .A) :
    t = 1 := by
  rcases ht with h | h | h | h | h | h <;> subst h <;> simp [fkOf, bkOf] at h1 h2 ⊢

theorem joinCost_nonneg (cF : KCfg) (h1 : 0 ≤ cF.gpo) (h2 : 0 ≤ cF.gpe) (h3 : 0 ≤ cF.tgpe) (t : Int) (k : Nat) :
    0 ≤ joinCost cF t k := by
  unfold joinCost
  split
  · omega
  · split
    · split <;> split <;> omega
    · omega

theorem tie_mid_min (sb n k : Nat) : tieOf sb (sb + n) (n / 2) ≤ tieOf sb (sb + n) k := by
  unfold tieOf
  omega

/-- **the meetup of a square rectangle of the diagonal returns the middle cell with transition 1** -/
theorem diag_meet (cF cB : KCfg) (dF dB : Nat → Int) (g : Int) (HF : DiagCfg cF dF g 1) (HB : DiagCfg cB dB g 1)
    (hnn : cB.n = cF.n) (hgpe : 0 ≤ cF.gpe) (htgpe : 0 ≤ cF.tgpe)
    (m1 m2 : Nat) (hm : m1 + m2 = cF.n) (hm2 : 1 ≤ m2) (hm1 : m1 = cF.n / 2)
    (T : Int) (hsum : ∀ k, k ≤ cF.n → psum dF k + psum dB (cF.n - k) = T)
    (sb eb : Nat) (heb : eb = sb + cF.n) :
    (absMeet cF cB m1 m2 (hot .A) (hot .A) sb eb).meet = ((sb + m1 : Nat) : Int) ∧
      (absMeet cF cB m1 m2 (hot .A) (hot .A) sb eb).transition = 1 := by
  have hn : 1 ≤ cF.n := by omega
  -- the diagonal pair of walks
  have hd1 : runF cF (initP (hot .A) .A) (diagCols m1) = ⟨m1, m1, fkOf 1, some (psum dF m1)⟩ := by
    rw [initP, hot_get_self, runF_some, walkOK_diag cF m1 0 0 .A (by omega), consA_diag, consB_diag, lastKind_diag,
      walkSc_diag cF dF m1 0 (fun i hi => HF.hdiag i (by omega))]
    simp [psum, fkOf]
  have hd2 : runF cB (initP (hot .A) .A) (diagCols m2) = ⟨m2, cF.n - m1, bkOf 1, some (psum dB m2)⟩ := by
    rw [initP, hot_get_self, runF_some, walkOK_diag cB m2 0 0 .A (by omega), consA_diag, consB_diag, lastKind_diag,
      walkSc_diag cB dB m2 0 (fun i hi => HB.hdiag i (by omega))]
    have : cF.n - m1 = m2 := by omega
    simp [psum, bkOf, this]
  have hadm1 : Adm cF.n m1 1 := Or.inl ⟨by omega, Or.inl rfl⟩
  have hsound := absMeet_sound cF cB hn hnn m1 m2 (hot .A) (hot .A) sb eb m1 1 hadm1 .A .A _ _ _ _ hd1 hd2
  rw [meetVal_some_some] at hsound
  have hfin : (absMeet cF cB m1 m2 (hot .A) (hot .A) sb eb).score ≠ none := by
    intro h0
    rw [h0] at hsound
    simp at hsound
  obtain ⟨k, t, hadm, hmeet, htrans, k0F, k0B, X1, X2r, v1, v2, hrun1, hrun2, hscore⟩ :=
    absMeet_attained cF cB hn hnn m1 m2 (hot .A) (hot .A) sb eb hfin
  obtain ⟨hw1, hv1, hA1, hB1, hl1⟩ := runF_hot cF .A k0F X1 _ _ _ _ hrun1
  obtain ⟨hw2, hv2, hA2, hB2, hl2⟩ := runF_hot cB .A k0B X2r _ _ _ _ hrun2
  have hkn : k ≤ cF.n := hadm.le
  have hvalid := hadm.valid
  rw [hscore, meetVal_some_some, ole_some_some] at hsound
  have hb1 := walk_le_diag cF dF g 1 HF X1 0 0 .A m1 k hw1 (by omega) (by omega) (by omega)
  have hb2 := walk_le_diag cB dB g 1 HB X2r 0 0 .A m2 (cF.n - k) hw2 (by omega) (by omega) (by omega)
  rw [← hv1, Int.one_mul] at hb1
  rw [← hv2, Int.one_mul] at hb2
  have hp0F : psum dF 0 = 0 := rfl
  have hp0B : psum dB 0 = 0 := rfl
  have hs1 := hsum k hkn
  have hs2 := hsum m1 (by omega)
  have hm2' : cF.n - m1 = m2 := by omega
  rw [hm2'] at hs2
  have hJ := joinCost_nonneg cF HF.hgpo hgpe htgpe t k
  have hJ1 : joinCost cF 1 m1 = 0 := by simp [joinCost]
  have htie : tieOf sb eb m1 ≤ tieOf sb eb k := by
    rw [heb, hm1]; exact tie_mid_min sb cF.n k
  have hG : gapN X1 = 0 ∧ gapN X2r = 0 := by omega
  obtain ⟨hX1, hX1b⟩ := gapN_zero X1 hG.1
  obtain ⟨hX2, hX2b⟩ := gapN_zero X2r hG.2
  have hk : k = m1 := by omega
  have hf : fkOf t = .A := by rw [← hl1, hX1]; exact lastKind_diag _
  have hbk : bkOf t = .A := by rw [← hl2, hX2]; exact lastKind_diag _
  have ht1 := fkbk_one t hvalid hf hbk
  exact ⟨by rw [hmeet, hk], by rw [htrans, ht1]⟩

end Kalign
