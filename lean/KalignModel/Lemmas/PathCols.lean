import KalignModel.Lemmas.Cut
import KalignModel.Model.Path
/-!
# Column lists and Hirschberg paths

`pathFrom j cs`: the path entries (1-based partner in b, or −1) of the a-consuming columns of `cs` when `j` residues of b
are already consumed.  `expandPath_pathFrom`: `add_gap_info_to_path_n` turns the path of a valid column list without a
gap-in-a run next to a gap-in-b run back into that column list.
-/
namespace Kalign

def pathFrom (j : Nat) : List Col → List Int
  | [] => []
  | .both :: cs => ((j + 1 : Nat) : Int) :: pathFrom (j + 1) cs
  | .gapA :: cs => pathFrom (j + 1) cs
  | .gapB :: cs => (-1) :: pathFrom j cs
  | .skip :: cs => pathFrom j cs

theorem length_pathFrom (j : Nat) (cs : List Col) : (pathFrom j cs).length = consA cs := by
  induction cs generalizing j with
  | nil => rfl
  | cons c cs ih => cases c <;> simp [pathFrom, ih]

theorem pathFrom_append (j : Nat) (xs ys : List Col) :
    pathFrom j (xs ++ ys) = pathFrom j xs ++ pathFrom (j + consB xs) ys := by
  induction xs generalizing j with
  | nil => simp [pathFrom]
  | cons c xs ih =>
    cases c with
    | both =>
      simp only [List.cons_append, pathFrom, ih, consB_both, List.cons.injEq, true_and]
      rw [show j + 1 + consB xs = j + (consB xs + 1) by omega]
    | gapA =>
      simp only [List.cons_append, pathFrom, ih, consB_gapA]
      rw [show j + 1 + consB xs = j + (consB xs + 1) by omega]
    | gapB => simp only [List.cons_append, pathFrom, ih, consB_gapB, List.cons.injEq, true_and]
    | skip => simp only [List.cons_append, pathFrom, ih, consB_skip]

/-- the entry of the a-consuming column that follows the prefix `Y1` -/
theorem pathFrom_entry (Y1 Y2 : List Col) (c : Col) (hc : c = .both ∨ c = .gapB) :
    (pathFrom 0 (Y1 ++ c :: Y2))[consA Y1]? = some (if c = .both then ((consB Y1 + 1 : Nat) : Int) else -1) := by
  rw [pathFrom_append, List.getElem?_append_right (by rw [length_pathFrom]; exact Nat.le_refl _), length_pathFrom,
    Nat.sub_self, Nat.zero_add]
  rcases hc with h | h <;> subst h <;> simp [pathFrom]

/-- column codes as `add_gap_info_to_path_n` emits them -/
def Col.code : Col → Nat
  | .both => 0
  | .gapA => 1
  | .gapB => 2
  | .skip => 3

theorem ofCode_code (c : Col) (h : c ≠ .skip) : Col.ofCode c.code = c := by
  cases c <;> simp_all [Col.code, Col.ofCode]

/-- `expandRest` followed by `expandTail` on the final entry (`b` if there is no further entry) -/
def expandRestTail (lenB : Nat) (b : Int) (ps : List Int) : List Nat :=
  expandRest b ps ++ expandTail lenB (ps.getLast?.getD b)

theorem expandRestTail_cons (lenB : Nat) (b p : Int) (ps : List Int) :
    expandRestTail lenB b (p :: ps) = expandEntry b p ++ expandRestTail lenB p ps := by
  unfold expandRestTail
  rw [expandRest, List.append_assoc]
  congr 2
  cases ps with
  | nil => rfl
  | cons q qs =>
    rw [List.getLast?_cons_cons, List.getLast?_eq_getLast (l := q :: qs) (by simp)]
    rfl

theorem expandCore_eq_restTail (lenB : Nat) (p : Int) (ps : List Int) :
    expandCore lenB (p :: ps) = expandRestTail lenB 0 (p :: ps) := by
  rw [expandRestTail_cons]
  show expandFirst p ++ expandRest p ps ++ expandTail lenB ((p :: ps).getLast?.getD p) =
    expandEntry 0 p ++ (expandRest p ps ++ expandTail lenB (ps.getLast?.getD p))
  rw [List.append_assoc]
  congr 1
  · unfold expandFirst expandEntry
    by_cases h1 : p = -1
    · simp [h1]
    · simp only [h1, if_false]
      by_cases h2 : p = 1
      · simp [h2]
      · have : p - 1 ≠ 0 := by omega
        simp [h2, this]
  · congr 2
    cases ps with
    | nil => rfl
    | cons q qs =>
      rw [List.getLast?_cons_cons, List.getLast?_eq_getLast (l := q :: qs) (by simp)]

/-- **the expansion of the rest of a path re-inserts the pending gap-in-a columns**: after a column of kind `st`
(`A` with partner `b`, or `GB`), with `g` gap-in-a columns seen since -/
theorem expandRestTail_pathFrom (lenB : Nat) (cs : List Col) (j g : Nat) (st : Kind) (b : Int)
    (hst : (st = .A ∧ 0 ≤ b ∧ b + g = j) ∨ (st = .GB ∧ b = -1 ∧ g = 0))
    (hadj : adjOK (if g = 0 then st else .GA) cs = true) (hB : j + consB cs = lenB) :
    expandRestTail lenB b (pathFrom j cs) = List.replicate g 1 ++ cs.map Col.code := by
  induction cs generalizing j g st b with
  | nil =>
    simp only [consB_nil, Nat.add_zero] at hB
    show [] ++ expandTail lenB b = List.replicate g 1 ++ []
    rw [List.nil_append, List.append_nil]
    unfold expandTail
    split
    · rename_i hc
      congr 1
      rcases hst with ⟨_, h0, hbg⟩ | ⟨_, hb, hg⟩ <;> omega
    · rename_i hc
      have hg0 : g = 0 := by
        rcases hst with ⟨_, h0, hbg⟩ | ⟨_, hb, hg⟩ <;> omega
      rw [hg0]; rfl
  | cons c cs ih =>
    simp only [adjOK, Bool.and_eq_true, bne_iff_ne, ne_eq] at hadj
    obtain ⟨⟨hs, hcompat⟩, hadj'⟩ := hadj
    cases c with
    | skip => exact absurd rfl hs
    | both =>
      simp only [pathFrom, expandRestTail_cons, consB_both] at hB ⊢
      have ih' := ih (j + 1) 0 .A ((j + 1 : Nat) : Int) (Or.inl ⟨rfl, by omega, by omega⟩)
        (by simpa [colKind] using hadj') (by omega)
      rw [ih']
      simp only [List.replicate_zero, List.nil_append, List.map_cons, Col.code]
      rcases hst with ⟨_, h0, hbg⟩ | ⟨_, hb, hg⟩
      · unfold expandEntry
        have h1 : ((j + 1 : Nat) : Int) ≠ -1 := by omega
        rw [if_neg h1]
        by_cases hg0 : g = 0
        · have : ¬ (((j + 1 : Nat) : Int) - 1 ≠ b ∧ b ≠ -1) := by omega
          rw [if_neg this, hg0]; rfl
        · have : ((j + 1 : Nat) : Int) - 1 ≠ b ∧ b ≠ -1 := by omega
          rw [if_pos this]
          have e : (((j + 1 : Nat) : Int) - b - 1).toNat = g := by omega
          rw [e, List.append_assoc]; rfl
      · unfold expandEntry
        have h1 : ((j + 1 : Nat) : Int) ≠ -1 := by omega
        rw [if_neg h1]
        have : ¬ (((j + 1 : Nat) : Int) - 1 ≠ b ∧ b ≠ -1) := by omega
        rw [if_neg this, hg]; rfl
    | gapA =>
      simp only [pathFrom, consB_gapA] at hB ⊢
      -- the previous column is not a gap-in-b column
      have hstA : st = .A ∧ 0 ≤ b ∧ b + g = j := by
        rcases hst with h | ⟨h1, _, hg⟩
        · exact h
        · rw [hg, h1] at hcompat; simp [colKind, Kind.compat] at hcompat
      have ih' := ih (j + 1) (g + 1) .A b (Or.inl ⟨rfl, hstA.2.1, by omega⟩)
        (by simpa [colKind] using hadj') (by omega)
      rw [ih', List.replicate_succ', List.append_assoc]
      rfl
    | gapB =>
      simp only [pathFrom, expandRestTail_cons, consB_gapB] at hB ⊢
      have hg0 : g = 0 := by
        by_cases hg0 : g = 0
        · exact hg0
        · rw [if_neg hg0] at hcompat; simp [colKind, Kind.compat] at hcompat
      have ih' := ih j 0 .GB (-1) (Or.inr ⟨rfl, rfl, rfl⟩) (by simpa [colKind] using hadj') hB
      rw [ih', hg0]
      simp [expandEntry, Col.code]

/-- **`add_gap_info_to_path_n` inverts `pathFrom`** on valid column lists -/
theorem expandPath_pathFrom (lenB : Nat) (P : List Col) (hadj : adjOK .A P = true) (hB : consB P = lenB)
    (hA : 1 ≤ consA P) (hboth : Col.both ∈ P) :
    ∃ codes, expandPath lenB (pathFrom 0 P) = some codes ∧ codes.map Col.ofCode = P := by
  have hcore : expandCore lenB (pathFrom 0 P) = P.map Col.code := by
    cases hp : pathFrom 0 P with
    | nil =>
      have := length_pathFrom 0 P
      rw [hp] at this
      simp at this
      omega
    | cons p ps =>
      rw [expandCore_eq_restTail, ← hp, expandRestTail_pathFrom lenB P 0 0 .A 0 (Or.inl ⟨rfl, by omega, by omega⟩)
        (by simpa using hadj) (by omega)]
      rfl
  have hskip := adjOK_noskip _ _ hadj
  have hmap : (P.map Col.code).map Col.ofCode = P := by
    rw [List.map_map]
    conv => rhs; rw [← List.map_id P]
    apply List.map_congr_left
    intro c hc
    exact ofCode_code c (fun h => hskip (h ▸ hc))
  refine ⟨markSuffix (markPrefix (P.map Col.code)), ?_, ?_⟩
  · unfold expandPath
    simp only [hcore]
    rw [if_neg]
    intro hall
    rw [List.all_eq_true] at hall
    have := hall 0 (List.mem_map.mpr ⟨.both, hboth, rfl⟩)
    simp at this
  · rw [map_ofCode_markSuffix, map_ofCode_markPrefix, hmap]

end Kalign
