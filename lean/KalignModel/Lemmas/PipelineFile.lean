import KalignModel.Model.PipelineFile
import KalignModel.Props.Pipeline
import KalignModel.Props.C04
import KalignModel.Props.C06
import KalignModel.Props.C15
/-!
# Lemmas for the file-to-file pipeline (`kalignFile`, Model/PipelineFile.lean)

* bytes ↔ characters; what every reader guarantees about the sequences it returns (`RecOK`: residues are letters,
  `gaps` has `len + 1` entries), hence `gapsClear_of_read`: the `PipeErr.fault` guard of `runMsa` is unreachable;
* `readFiles_seqs`: the msa holds the records of the files in file order;
* `kalignFile_ok`: what a successful run consists of; `runMsa_spec`: `kalignRunWith_integrity` on the msa;
* the bridge from the gapped rows of the pipeline to the `SeqRec`/`finalise` vocabulary of the I/O theorems
  (`recOfRow`, `alignmentOf_eq_finalise`, `alnWF_rows`).
-/
namespace Kalign.PipelineFile
open Kalign Kalign.IO Kalign.Pipeline List

/-! ## bytes and characters -/

theorem byteChar_toNat (b : UInt8) : (byteChar b).toNat = b.toNat := by
  unfold byteChar
  apply toNat_ofNat_of_valid
  have := b.toNat_lt
  unfold Nat.isValidChar; omega

theorem charByte_byteChar (b : UInt8) : charByte (byteChar b) = b := by
  unfold charByte
  rw [byteChar_toNat]
  exact UInt8.ofNat_toNat

theorem map_charByte_byteChar (l : Bytes) : (l.map byteChar).map charByte = l := by
  rw [map_map]
  conv => rhs; rw [← map_id l]
  apply map_congr_left
  intro b _
  exact charByte_byteChar b

/-! ## what the readers guarantee -/

def AccOK (a : SeqAcc) : Prop := (∀ b ∈ a.rres, isAlpha b = true) ∧ a.rgaps.length = a.rres.length

/-- residues are letters and there is one gap counter per residue plus one -/
def RecOK (s : SeqRec) : Prop := (∀ b ∈ s.res, isAlpha b = true) ∧ s.gaps.length = s.res.length + 1

theorem new_ok (nm : Bytes) : AccOK (SeqAcc.new nm) := ⟨by simp [SeqAcc.new], rfl⟩

theorem feedByte_ok (a : SeqAcc) (b : UInt8) (h : AccOK a) : AccOK (feedByte a b) := by
  unfold feedByte
  split
  · rename_i hb
    refine ⟨?_, by simp [h.2]⟩
    intro c hc
    simp only [mem_cons] at hc
    rcases hc with rfl | hc
    · exact hb
    · exact h.1 c hc
  · split
    · exact h
    · exact h

theorem feed_ok (a : SeqAcc) (l : Bytes) (h : AccOK a) : AccOK (feed a l) := by
  induction l generalizing a with
  | nil => exact h
  | cons b l ih => exact ih _ (feedByte_ok a b h)

theorem rename_ok (a : SeqAcc) (nm : Bytes) (h : AccOK a) : AccOK { a with name := nm } := h

theorem finish_ok (a : SeqAcc) (h : AccOK a) : RecOK a.finish := by
  refine ⟨?_, ?_⟩
  · intro b hb
    simp only [SeqAcc.finish, mem_reverse] at hb
    exact h.1 b hb
  · simp [SeqAcc.finish, h.2]

theorem faLine_ok (st st' : FaState) (l : Bytes) (h : faLine st l = some st')
    (hd : ∀ a ∈ st.done, AccOK a) (hc : ∀ a, st.cur = some a → AccOK a) :
    (∀ a ∈ st'.done, AccOK a) ∧ (∀ a, st'.cur = some a → AccOK a) := by
  unfold faLine at h
  split at h
  · simp only [Option.some.injEq] at h
    subst h
    refine ⟨?_, ?_⟩
    · intro a ha
      simp only at ha
      split at ha
      · rename_i c hcur
        simp only [mem_cons] at ha
        rcases ha with rfl | ha
        · exact hc _ hcur
        · exact hd a ha
      · exact hd a ha
    · intro a ha
      simp only [Option.some.injEq] at ha
      subst ha
      exact new_ok _
  · split at h
    · rename_i c hcur
      simp only [Option.some.injEq] at h
      subst h
      refine ⟨hd, ?_⟩
      intro a ha
      simp only [Option.some.injEq] at ha
      subst ha
      exact feed_ok _ _ (hc _ hcur)
    · split at h
      · cases h
      · simp only [Option.some.injEq] at h
        subst h
        exact ⟨hd, hc⟩

theorem faFold_ok (ls : List Bytes) (st st' : FaState) (h : faFold st ls = some st')
    (hd : ∀ a ∈ st.done, AccOK a) (hc : ∀ a, st.cur = some a → AccOK a) :
    (∀ a ∈ st'.done, AccOK a) ∧ (∀ a, st'.cur = some a → AccOK a) := by
  induction ls generalizing st with
  | nil =>
    simp only [faFold, Option.some.injEq] at h
    subst h
    exact ⟨hd, hc⟩
  | cons l ls ih =>
    simp only [faFold] at h
    split at h
    · rename_i st1 h1
      obtain ⟨hd1, hc1⟩ := faLine_ok st st1 l h1 hd hc
      exact ih st1 h hd1 hc1
    · cases h

theorem readFasta_ok (lines : List Bytes) (S : List SeqRec) (h : readFasta lines = some S) : ∀ s ∈ S, RecOK s := by
  unfold readFasta at h
  cases hf : faFold ⟨[], none⟩ lines with
  | none => rw [hf] at h; cases h
  | some st =>
    rw [hf] at h
    simp only [Option.map_some, Option.some.injEq] at h
    subst h
    obtain ⟨hd, hc⟩ := faFold_ok lines _ st hf (by simp) (by simp)
    intro s hs
    simp only [FaState.seqs, mem_map, mem_reverse] at hs
    obtain ⟨a, ha, rfl⟩ := hs
    apply finish_ok
    split at ha
    · rename_i c hcur
      simp only [mem_cons] at ha
      rcases ha with rfl | ha
      · exact hc _ hcur
      · exact hd a ha
    · exact hd a ha

def BlkOK (st : Blk) : Prop := (∀ a ∈ st.done, AccOK a) ∧ (∀ a ∈ st.rest, AccOK a)

theorem rewind_ok (st : Blk) (h : BlkOK st) : BlkOK st.rewind := by
  refine ⟨by simp [Blk.rewind], ?_⟩
  intro a ha
  simp only [Blk.rewind, mem_append, mem_reverse] at ha
  rcases ha with ha | ha
  · exact h.1 a ha
  · exact h.2 a ha

theorem seqs_ok (st : Blk) (h : BlkOK st) : ∀ s ∈ st.seqs, RecOK s := by
  intro s hs
  simp only [Blk.seqs, mem_map, mem_append, mem_reverse] at hs
  obtain ⟨a, ha, rfl⟩ := hs
  apply finish_ok
  rcases ha with ha | ha
  · exact h.1 a ha
  · exact h.2 a ha

theorem cluLine_ok (st : Blk) (l : Bytes) (h : BlkOK st) : BlkOK (cluLine st l) := by
  unfold cluLine
  split
  · exact rewind_ok st h
  · split
    · exact h
    · refine ⟨?_, ?_⟩
      · intro a ha
        simp only [mem_cons] at ha
        rcases ha with rfl | ha
        · apply feed_ok
          apply rename_ok
          split
          · rename_i s r hr
            exact h.2 s (by rw [hr]; simp)
          · exact new_ok _
        · exact h.1 a ha
      · intro a ha
        exact h.2 a (mem_of_mem_tail ha)

theorem cluFold_ok (ls : List Bytes) (st : Blk) (h : BlkOK st) : BlkOK (ls.foldl cluLine st) := by
  induction ls generalizing st with
  | nil => exact h
  | cons l ls ih => exact ih _ (cluLine_ok st l h)

theorem readClu_ok (lines : List Bytes) : ∀ s ∈ readClu lines, RecOK s :=
  seqs_ok _ (cluFold_ok _ _ ⟨by simp, by simp⟩)

theorem msfHeader_ok (ls : List Bytes) (acc : List SeqAcc) (h : ∀ a ∈ acc, AccOK a) :
    ∀ a ∈ (msfHeader ls acc).1, AccOK a := by
  induction ls generalizing acc with
  | nil => intro a ha; simp only [msfHeader, mem_reverse] at ha; exact h a ha
  | cons l ls ih =>
    unfold msfHeader
    split
    · intro a ha; simp only [mem_reverse] at ha; exact h a ha
    · split
      · apply ih
        intro a ha
        simp only [mem_cons] at ha
        rcases ha with rfl | ha
        · exact new_ok _
        · exact h a ha
      · exact ih acc h

theorem msfLine_ok (st st' : Blk) (l : Bytes) (hl : msfLine st l = some st') (h : BlkOK st) : BlkOK st' := by
  unfold msfLine at hl
  split at hl
  · simp only [Option.some.injEq] at hl
    subst hl
    exact rewind_ok st h
  · split at hl
    · simp only [Option.some.injEq] at hl
      subst hl
      exact h
    · split at hl
      · cases hl
      · rename_i s r hr
        simp only [Option.some.injEq] at hl
        subst hl
        refine ⟨?_, ?_⟩
        · intro a ha
          simp only [mem_cons] at ha
          rcases ha with rfl | ha
          · exact feed_ok _ _ (h.2 s (by rw [hr]; simp))
          · exact h.1 a ha
        · intro a ha
          exact h.2 a (by rw [hr]; simp [ha])

theorem msfFold_ok (ls : List Bytes) (st st' : Blk) (hl : msfFold st ls = some st') (h : BlkOK st) : BlkOK st' := by
  induction ls generalizing st with
  | nil =>
    simp only [msfFold, Option.some.injEq] at hl
    subst hl
    exact h
  | cons l ls ih =>
    simp only [msfFold] at hl
    split at hl
    · rename_i st1 h1
      exact ih st1 hl (msfLine_ok st st1 l h1 h)
    · cases hl

theorem readMsf_ok (lines : List Bytes) (S : List SeqRec) (h : readMsf lines = some S) : ∀ s ∈ S, RecOK s := by
  unfold readMsf at h
  simp only at h
  cases hf : msfFold ⟨[], (msfHeader lines []).1⟩ (msfHeader lines []).2 with
  | none => rw [hf] at h; cases h
  | some st =>
    rw [hf] at h
    simp only [Option.map_some, Option.some.injEq] at h
    subst h
    exact seqs_ok st (msfFold_ok _ _ st hf ⟨by simp, msfHeader_ok lines [] (by simp)⟩)

theorem readAs_ok (t : Int) (lines : List Bytes) (S : List SeqRec) (h : readAs t lines = some S) : ∀ s ∈ S, RecOK s := by
  unfold readAs at h
  split at h
  · exact readFasta_ok lines S h
  · split at h
    · exact readMsf_ok lines S h
    · split at h
      · simp only [Option.some.injEq] at h
        subst h
        exact readClu_ok lines
      · cases h

/-! ## `kalign_read_input` file by file -/

def prevSeqs : Option Msa → List SeqRec
  | none => []
  | some d => d.seqs

/-- the records `kalign_read_input` gets out of one file (nothing for an empty / unrecognised / unreadable one) -/
def fileRecs (f : Bytes) : List SeqRec :=
  match readInput1 none f with
  | .ok m => m.seqs
  | _ => []

/-- the three ways a call of `kalign_read_input` can end, and what the same file gives when read on its own -/
theorem readInput1_cases (prev : Option Msa) (f : Bytes) :
    (readInput1 prev f = .null ∧ readInput1 none f = .null) ∨
    readInput1 prev f = .fail ∨
    ∃ S, S ≠ [] ∧ (∀ s ∈ S, RecOK s) ∧ readInput1 none f = .ok (finishMsa S 2 255) ∧
      readInput1 prev f = .ok (IO.mergeStep prev S) := by
  unfold readInput1
  simp only
  split
  · exact Or.inl ⟨rfl, rfl⟩
  · rename_i l tl _
    by_cases hj : (((l.length : Int) - 1) == 0) = true
    · simp only [hj, if_true]
      exact Or.inl ⟨trivial, trivial⟩
    · simp only [hj, Bool.false_eq_true, if_false]
      by_cases ht : (detectFormat (splitLines f) == -1) = true
      · simp only [ht, if_true]
        exact Or.inl ⟨trivial, trivial⟩
      · simp only [ht, Bool.false_eq_true, if_false]
        cases hr : readAs (detectFormat (splitLines f)) (splitLines f) with
        | none => exact Or.inr (Or.inl rfl)
        | some S =>
          simp only
          by_cases he : S.isEmpty = true
          · simp only [he, if_true]
            exact Or.inr (Or.inl trivial)
          · have hne : S ≠ [] := by intro h; rw [h] at he; simp at he
            have hl : ((finishMsa S 2 255).seqs.length == 0) = false := by
              rw [finishMsa_seqs]; cases S <;> simp_all
            simp only [he, Bool.false_eq_true, if_false, hl]
            cases prev with
            | none =>
              simp only [hl, Bool.false_eq_true, if_false]
              exact Or.inr (Or.inr ⟨S, hne, readAs_ok _ _ S hr, rfl, rfl⟩)
            | some d =>
              simp only
              by_cases hm : (decide (d.biotype ≠ 2) && decide (d.biotype ≠ (finishMsa S 2 255).biotype)) = true
              · simp only [hm, if_true]
                exact Or.inr (Or.inl trivial)
              · simp only [hm, Bool.false_eq_true, if_false]
                have hl2 : ((finishMsa (d.seqs ++ (finishMsa S 2 255).seqs) d.biotype d.L).seqs.length == 0) = false := by
                  rw [finishMsa_seqs, finishMsa_seqs]; cases S <;> simp_all
                simp only [hl2, Bool.false_eq_true, if_false]
                refine Or.inr (Or.inr ⟨S, hne, readAs_ok _ _ S hr, rfl, ?_⟩)
                simp only [IO.mergeStep, finishMsa_seqs]

theorem mergeStep_seqs (prev : Option Msa) (S : List SeqRec) : (IO.mergeStep prev S).seqs = prevSeqs prev ++ S := by
  cases prev <;> simp [IO.mergeStep, prevSeqs, finishMsa_seqs]

/-- **the msa holds the records of the files in file order** -/
theorem readInputs_seqs (files : List Bytes) (prev : Option Msa) (m : Msa) (h : readInputs prev files = .ok m)
    (hp : ∀ s ∈ prevSeqs prev, RecOK s) :
    m.seqs = prevSeqs prev ++ (files.map fileRecs).flatten ∧ ∀ s ∈ m.seqs, RecOK s := by
  induction files generalizing prev with
  | nil =>
    cases prev with
    | none => simp [readInputs] at h
    | some d =>
      simp only [readInputs, ReadResult.ok.injEq] at h
      subst h
      exact ⟨by simp [prevSeqs], hp⟩
  | cons f fs ih =>
    rcases readInput1_cases prev f with ⟨h1, h2⟩ | h1 | ⟨S, hne, hok, h2, h1⟩
    · have hf : fileRecs f = [] := by simp [fileRecs, h2]
      simp only [readInputs, h1] at h
      have := ih prev h hp
      simpa [hf] using this
    · simp [readInputs, h1] at h
    · have hf : fileRecs f = S := by simp [fileRecs, h2, finishMsa_seqs]
      simp only [readInputs, h1] at h
      have := ih (some (IO.mergeStep prev S)) h (by
        intro s hs
        simp only [prevSeqs, mergeStep_seqs, mem_append] at hs
        rcases hs with hs | hs
        · exact hp s hs
        · exact hok s hs)
      simpa [hf, prevSeqs, mergeStep_seqs, append_assoc] using this

theorem takeWhile_isSome_of_all (files : List (Option Bytes)) (h : files.all Option.isSome = true) :
    (files.takeWhile Option.isSome).filterMap id = files.filterMap id := by
  have : ∀ l : List (Option Bytes), l.all Option.isSome = true → l.takeWhile Option.isSome = l := by
    intro l
    induction l with
    | nil => intro _; rfl
    | cons x xs ih =>
      intro hl
      simp only [all_cons, Bool.and_eq_true] at hl
      rw [takeWhile_cons, if_pos hl.1, ih hl.2]
  rw [this files h]

/-- a successful read: no file is missing, and `readInputs` of the contents succeeds with the same msa -/
theorem readFiles_ok (files : List (Option Bytes)) (m : Msa) (h : readFiles files = .ok m) :
    files.all Option.isSome = true ∧ readInputs none (files.filterMap id) = .ok m := by
  unfold readFiles at h
  split at h
  · cases h
  · cases h
  · rename_i r hr1 hr2
    by_cases ha : files.all Option.isSome = true
    · rw [if_pos ha] at h
      rw [takeWhile_isSome_of_all files ha] at h
      exact ⟨ha, h⟩
    · rw [if_neg ha] at h
      cases h

theorem readFiles_seqs (files : List (Option Bytes)) (m : Msa) (h : readFiles files = .ok m) :
    m.seqs = ((files.filterMap id).map fileRecs).flatten ∧ ∀ s ∈ m.seqs, RecOK s := by
  obtain ⟨_, hr⟩ := readFiles_ok files m h
  have := readInputs_seqs _ none m hr (by simp [prevSeqs])
  simpa [prevSeqs] using this

theorem filterMap_id_map_some {α : Type} (l : List α) : (l.map some).filterMap id = l := by
  induction l with
  | nil => rfl
  | cons a l ih => simp [ih]

/-- all files present: the loop of `run_kalign` is `readInputs` -/
theorem readFiles_map_some (files : List Bytes) : readFiles (files.map some) = readInputs none files := by
  unfold readFiles
  have ha : (files.map some).all Option.isSome = true := by simp
  rw [takeWhile_isSome_of_all _ ha, filterMap_id_map_some]
  cases readInputs none files <;> simp only [ha, if_true]

/-! ## `dealign_msa` -/

theorem dealignStep_eq_runDealign (m : Msa) : dealignStep m = runDealign m := rfl

theorem dealignStep_biotype (m : Msa) : (dealignStep m).biotype = m.biotype := by
  unfold dealignStep; split <;> rfl

theorem dealignStep_names_res (m : Msa) : namesRes (dealignStep m).seqs = namesRes m.seqs := by
  unfold dealignStep
  split
  · simp [namesRes, Function.comp_def]
  · rfl

/-- the guard of `runMsa` never fires on an msa whose sequences came from the readers -/
theorem gapsClear_of_aligned (m : Msa) (hm : m.aligned = IO.detectAligned m.seqs) :
    gapsClear (dealignStep m) = true := by
  unfold gapsClear dealignStep
  split
  · simp
  · rename_i h1
    have h1 : m.aligned = 1 := by simpa using h1
    rw [all_eq_true]
    intro s hs
    rw [all_eq_true]
    intro g hg
    have := sum_zero_mem _ (detectAligned_one m.seqs (by rw [← hm]; exact h1) s hs) g hg
    simp [this]

theorem mergeStep_aligned (prev : Option Msa) (S : List SeqRec) :
    (IO.mergeStep prev S).aligned = IO.detectAligned (IO.mergeStep prev S).seqs := by
  cases prev <;> simp [IO.mergeStep, finishMsa_aligned, finishMsa_seqs]

theorem readInputs_aligned (files : List Bytes) (prev : Option Msa) (m : Msa) (h : readInputs prev files = .ok m)
    (hp : ∀ d, prev = some d → d.aligned = IO.detectAligned d.seqs) : m.aligned = IO.detectAligned m.seqs := by
  induction files generalizing prev with
  | nil =>
    cases prev with
    | none => simp [readInputs] at h
    | some d =>
      simp only [readInputs, ReadResult.ok.injEq] at h
      subst h
      exact hp _ rfl
  | cons f fs ih =>
    rcases readInput1_cases prev f with ⟨h1, _⟩ | h1 | ⟨S, _, _, _, h1⟩
    · simp only [readInputs, h1] at h
      exact ih prev h hp
    · simp [readInputs, h1] at h
    · simp only [readInputs, h1] at h
      exact ih _ h (by intro d hd; cases hd; exact mergeStep_aligned prev S)

/-- **the `PipeErr.fault` guard of `runMsa` is unreachable** for an msa produced by `kalign_read_input` -/
theorem gapsClear_of_read (files : List (Option Bytes)) (m : Msa) (h : readFiles files = .ok m) :
    gapsClear (dealignStep m) = true :=
  gapsClear_of_aligned m (readInputs_aligned _ none m (readFiles_ok files m h).2 (by simp))

/-! ## the run after the read -/

/-- everything `run_kalign` does after the reading loop, as a function of the msa after the `dealign_msa` step -/
def afterRead (ver base date : Bytes) (m' : Msa) (type : Int) (gpo gpe tgpe : Float32) (fmt : Option String) :
    Except FileErr Bytes :=
  match (if !gapsClear m' then (.error .fault : Except PipeErr (List (Name × GRow)))
         else kalignRunWith (fun _ => bioOfCode m'.biotype) true (m'.seqs.map toInSeq) type gpo gpe tgpe) with
  | .error e => .error (.run e)
  | .ok out =>
    match writeMsa ver date (fmtBytes fmt) (alignmentOf out m'.biotype base) with
    | .fail => .error .format
    | .fault => .error .writeFault
    | .ok b => .ok b

theorem kalignFile_eq (ver base date : Bytes) (files : List (Option Bytes)) (type : Int) (gpo gpe tgpe : Float32)
    (fmt : Option String) :
    kalignFile ver base date files type gpo gpe tgpe fmt =
      match readFiles files with
      | .fault => .error .readFault
      | .fail => .error .read
      | .null => .error .noInput
      | .ok m => afterRead ver base date (dealignStep m) type gpo gpe tgpe fmt := by
  unfold kalignFile afterRead runMsa
  cases readFiles files <;> rfl

/-- `kalign_write_msa` succeeded: the format word was recognised and the file is what the writer of that format
produces (`writeAs`, Props/C06.lean) -/
theorem writeMsa_ok (ver date : Bytes) (fmt : Option Bytes) (A : Alignment) (out : Bytes)
    (h : writeMsa ver date fmt A = .ok out) :
    ∃ t : Nat, (t = 1 ∨ t = 2 ∨ t = 3) ∧ parseFormat fmt = some (t : Int) ∧ A.InBounds ∧ out = writeAs ver date t A := by
  unfold writeMsa at h
  split at h
  · cases h
  · rename_i t ht
    split at h
    · cases h
    · rename_i hb
      have hb : A.InBounds := by simpa using hb
      split at h
      · rename_i h1
        have h1 : t = 1 := by simpa using h1
        cases h
        exact ⟨1, Or.inl rfl, by rw [ht, h1]; rfl, hb, by simp [writeAs]⟩
      · split at h
        · rename_i h2
          have h2 : t = 2 := by simpa using h2
          cases h
          exact ⟨2, Or.inr (Or.inl rfl), by rw [ht, h2]; rfl, hb, by simp [writeAs]⟩
        · split at h
          · rename_i h3
            have h3 : t = 3 := by simpa using h3
            cases h
            exact ⟨3, Or.inr (Or.inr rfl), by rw [ht, h3]; rfl, hb, by simp [writeAs]⟩
          · cases h

/-- **anatomy of a successful run** -/
theorem kalignFile_ok {ver base date : Bytes} {files : List (Option Bytes)} {type : Int} {gpo gpe tgpe : Float32}
    {fmt : Option String} {out : Bytes} (h : kalignFile ver base date files type gpo gpe tgpe fmt = .ok out) :
    ∃ m rows, ∃ t : Nat, readFiles files = .ok m ∧ runMsa m type gpo gpe tgpe = .ok rows ∧
      (t = 1 ∨ t = 2 ∨ t = 3) ∧ parseFormat (fmtBytes fmt) = some (t : Int) ∧
      (alignmentOf rows m.biotype base).InBounds ∧ out = writeAs ver date t (alignmentOf rows m.biotype base) := by
  unfold kalignFile at h
  split at h
  · cases h
  · cases h
  · cases h
  · rename_i m hm
    split at h
    · cases h
    · rename_i rows hrows
      rw [dealignStep_biotype] at h
      split at h
      · cases h
      · cases h
      · rename_i b hb
        simp only [Except.ok.injEq] at h
        subst h
        obtain ⟨t, ht, hp, hin, ho⟩ := writeMsa_ok _ _ _ _ _ hb
        exact ⟨m, rows, t, hm, hrows, ht, hp, hin, ho⟩

theorem kalignRunWith_ok_more {det : List Nat → Bio} {avx : Bool} {inp : List InSeq} {type : Int} {gpo gpe tgpe : Float32}
    {out : List (Name × GRow)} (h : kalignRunWith det avx inp type gpo gpe tgpe = .ok out) :
    bioOf det inp ≠ .unknown ∧ 1 < (keptView inp).length := by
  unfold kalignRunWith at h
  split at h
  · cases h
  · simp only at h
    split at h
    · cases h
    · rename_i c hc
      split at h
      · cases h
      · rename_i rows hrows
        constructor
        · intro hb
          rw [hb] at hrows
          simp [stagesG] at hrows
        · have hs : (essentialInputCheck inp).isSome = true := by
            unfold canon at hc
            cases he : essentialInputCheck inp with
            | none => rw [he] at hc; cases hc
            | some _ => rfl
          rw [essentialInputCheck_isSome] at hs
          simp only [Bool.and_eq_true, decide_eq_true_eq] at hs
          exact hs.2

/-- the non-empty records of an msa as (name, residues) pairs, in order -/
def keptRecs (S : List SeqRec) : List (Bytes × Bytes) := (namesRes S).filter fun p => p.2.length ≠ 0

/-- **`kalignRunWith_integrity` for an msa from the readers**: one row per non-empty record, in input order, under its
name; degapped it is the record's residues; all rows have one length; there are at least two rows and the class is
DNA or protein -/
theorem runMsa_spec {m : Msa} {type : Int} {gpo gpe tgpe : Float32} {rows : List (Name × GRow)}
    (h : runMsa m type gpo gpe tgpe = .ok rows) :
    rows.map (fun x => (x.1, (degap x.2).map charByte)) = keptRecs m.seqs ∧
    (∃ L, ∀ x ∈ rows, x.2.length = L) ∧ 2 ≤ rows.length ∧ (m.biotype = 0 ∨ m.biotype = 1) := by
  unfold runMsa at h
  simp only at h
  split at h
  · cases h
  · obtain ⟨h1, h2, hL⟩ := kalignRunWith_integrity _ _ _ _ _ _ _ _ h
    obtain ⟨hb, hk⟩ := kalignRunWith_ok_more h
    have hfilter : ((dealignStep m).seqs.map toInSeq).filter (fun x => decide (x.seq.length ≠ 0)) =
        ((dealignStep m).seqs.filter fun s => decide (s.res.length ≠ 0)).map toInSeq := by
      rw [filter_map]
      congr 1
      apply filter_congr
      intro s _
      simp [toInSeq]
    have hkept : keptRecs m.seqs = ((dealignStep m).seqs.filter fun s => decide (s.res.length ≠ 0)).map
        fun s => (s.name, s.res) := by
      unfold keptRecs
      rw [← dealignStep_names_res m]
      unfold namesRes
      rw [filter_map]
      congr 1
    refine ⟨?_, hL, ?_, ?_⟩
    · rw [hkept, ← zip_map', ← zip_map']
      congr 1
      · rw [h1, hfilter, map_map]; rfl
      · have : rows.map (fun x => (degap x.2).map charByte) = (rows.map fun x => degap x.2).map (·.map charByte) := by
          rw [map_map]; rfl
        rw [this, h2, hfilter, map_map, map_map]
        apply map_congr_left
        intro s _
        simp only [Function.comp, toInSeq]
        exact map_charByte_byteChar s.res
    · have : rows.length = (keptView ((dealignStep m).seqs.map toInSeq)).length := by
        have := congrArg length h1
        simpa [keptView] using this
      omega
    · simp only [bioOf, dealignStep_biotype] at hb
      match hm : m.biotype with
      | 0 => exact Or.inl rfl
      | 1 => exact Or.inr rfl
      | n + 2 => rw [hm] at hb; simp [bioOfCode] at hb

/-! ## from gapped rows to the `SeqRec` / `finalise` vocabulary of the I/O theorems -/

/-- the gap vector `seq->gaps[0..len]` a gapped row stands for -/
def gapsOfG : GRow → List Nat
  | [] => [0]
  | none :: r => bump (gapsOfG r)
  | some _ :: r => 0 :: gapsOfG r

/-- the aligned sequence (name, residues, gap vector) a row of the result stands for -/
def recOfRow (x : Name × GRow) : SeqRec := ⟨x.1, (degap x.2).map charByte, gapsOfG x.2⟩

theorem gapsOfG_ne_nil (g : GRow) : gapsOfG g ≠ [] := by
  induction g with
  | nil => simp [gapsOfG]
  | cons x r ih =>
    cases x with
    | none => cases h : gapsOfG r <;> simp [gapsOfG, bump, h]
    | some c => simp [gapsOfG]

theorem degap_cons_none {α : Type} (r : List (Option α)) : degap (none :: r) = degap r := by simp [degap]
theorem degap_cons_some {α : Type} (c : α) (r : List (Option α)) : degap (some c :: r) = c :: degap r := by simp [degap]

theorem gapsOfG_length (g : GRow) : (gapsOfG g).length = (degap g).length + 1 := by
  induction g with
  | nil => rfl
  | cons x r ih =>
    cases x with
    | none =>
      rw [degap_cons_none, ← ih]
      simp only [gapsOfG]
      exact length_bump _ (gapsOfG_ne_nil r)
    | some c => simp [gapsOfG, degap_cons_some, ih]

theorem gapsOfG_sum (g : GRow) : (gapsOfG g).sum + (degap g).length = g.length := by
  induction g with
  | nil => rfl
  | cons x r ih =>
    cases x with
    | none =>
      have hb : ∀ l : List Nat, (bump l).sum = l.sum + 1 := by
        intro l; cases l <;> simp [bump]; omega
      rw [degap_cons_none]
      simp only [gapsOfG, hb, length_cons]
      omega
    | some c =>
      simp only [gapsOfG, degap_cons_some, sum_cons, length_cons]
      omega

theorem linRow_bump (res : Bytes) (gs : List Nat) (h : gs ≠ []) : linRow res (bump gs) = 45 :: linRow res gs := by
  cases gs with
  | nil => exact absurd rfl h
  | cons g gs =>
    cases res with
    | nil => simp [bump, linRow, replicate_succ]
    | cons x xs => simp [bump, linRow, replicate_succ]

theorem linRow_gapsOfG (g : GRow) : linRow ((degap g).map charByte) (gapsOfG g) = renderB g := by
  induction g with
  | nil => rfl
  | cons x r ih =>
    cases x with
    | none =>
      rw [degap_cons_none]
      simp only [gapsOfG]
      rw [linRow_bump _ _ (gapsOfG_ne_nil r), ih]
      rfl
    | some c =>
      rw [degap_cons_some]
      simp only [gapsOfG, map_cons, linRow, replicate_zero, nil_append, ih]
      rfl

theorem length_renderB (g : GRow) : (renderB g).length = g.length := by simp [renderB]

/-- **the msa handed to the writer is `finalise_alignment` of the aligned sequences** -/
theorem alignmentOf_eq_finalise (rows : List (Name × GRow)) (bio : Nat) (base : Bytes) :
    alignmentOf rows bio base = finalise (rows.map recOfRow) bio (alnAlphabet (bioOfCode bio)) base := by
  unfold alignmentOf finalise
  congr 1
  · rw [map_map]
    apply map_congr_left
    intro x _
    simp only [Function.comp, recOfRow, linRow_gapsOfG]
  · cases rows with
    | nil => rfl
    | cons x xs =>
      simp only [head?_cons, Option.map_some, Option.getD_some, map_cons, alnlenOf, recOfRow, length_map]
      exact (gapsOfG_sum x.2).symm

theorem mem_keptRecs {S : List SeqRec} {p : Bytes × Bytes} (h : p ∈ keptRecs S) :
    p.2.length ≠ 0 ∧ ∃ s ∈ S, p = (s.name, s.res) := by
  simp only [keptRecs, namesRes, mem_filter, mem_map, decide_eq_true_eq] at h
  obtain ⟨⟨s, hs, rfl⟩, hl⟩ := h
  exact ⟨hl, s, hs, rfl⟩

/-- every row of a successful run, seen as (name, residues), is a non-empty record of the msa -/
theorem row_mem_kept {m : Msa} {type : Int} {gpo gpe tgpe : Float32} {rows : List (Name × GRow)}
    (h : runMsa m type gpo gpe tgpe = .ok rows) {x : Name × GRow} (hx : x ∈ rows) :
    (x.1, (degap x.2).map charByte) ∈ keptRecs m.seqs := by
  rw [← (runMsa_spec h).1]
  exact mem_map.mpr ⟨x, hx, rfl⟩

/-- **the aligned sequences of a successful run are a well-formed alignment** in the sense of Props/C06.lean, provided
the names of the non-empty records are 1..200 characters over `[A-Za-z0-9_.|-]` -/
theorem alnWF_rows {m : Msa} {type : Int} {gpo gpe tgpe : Float32} {rows : List (Name × GRow)}
    (h : runMsa m type gpo gpe tgpe = .ok rows) (hok : ∀ s ∈ m.seqs, RecOK s)
    (hn : ∀ p ∈ keptRecs m.seqs, NameOK p.1) : AlnWF (rows.map recOfRow) := by
  obtain ⟨_, ⟨L, hL⟩, h2, _⟩ := runMsa_spec h
  have hwidth : ∀ x ∈ rows, (recOfRow x).gaps.sum + (recOfRow x).res.length = L := by
    intro x hx
    simp only [recOfRow, length_map]
    rw [gapsOfG_sum, hL x hx]
  have haln : alnlenOf (rows.map recOfRow) = L := by
    match rows, h2, hwidth with
    | x :: xs, _, hw => exact hw x (by simp)
  refine ⟨?_, ?_, ?_, ?_, ?_, ?_⟩
  · intro he
    have := congrArg length he
    simp only [length_map, length_nil] at this
    omega
  · intro s hs
    obtain ⟨x, hx, rfl⟩ := mem_map.mp hs
    exact hn _ (row_mem_kept h hx)
  · intro s hs b hb
    obtain ⟨x, hx, rfl⟩ := mem_map.mp hs
    obtain ⟨_, s0, hs0, he⟩ := mem_keptRecs (row_mem_kept h hx)
    simp only [Prod.mk.injEq] at he
    simp only [recOfRow] at hb
    rw [he.2] at hb
    exact (hok s0 hs0).1 b hb
  · intro s hs
    obtain ⟨x, _, rfl⟩ := mem_map.mp hs
    simp only [recOfRow, length_map]
    exact gapsOfG_length x.2
  · intro s hs
    obtain ⟨x, hx, rfl⟩ := mem_map.mp hs
    rw [haln]
    exact hwidth x hx
  · rw [haln]
    match rows, h2, hL with
    | x :: xs, _, hL' =>
      obtain ⟨hl, _⟩ := mem_keptRecs (row_mem_kept h (x := x) (by simp))
      simp only [length_map] at hl
      have := gapsOfG_sum x.2
      have := hL' x (by simp)
      omega

/-- rows of the alignment handed to the writer all have the declared width -/
theorem alignmentOf_rows_length {m : Msa} {type : Int} {gpo gpe tgpe : Float32} {rows : List (Name × GRow)}
    (h : runMsa m type gpo gpe tgpe = .ok rows) (bio : Nat) (base : Bytes) :
    ∀ r ∈ (alignmentOf rows bio base).rows, r.row.length = (alignmentOf rows bio base).alnlen := by
  obtain ⟨_, ⟨L, hL⟩, h2, _⟩ := runMsa_spec h
  intro r hr
  simp only [alignmentOf, mem_map] at hr
  obtain ⟨x, hx, rfl⟩ := hr
  simp only [alignmentOf, length_renderB]
  match rows, h2, hL, hx with
  | y :: ys, _, hL', hx' =>
    simp only [head?_cons, Option.map_some, Option.getD_some]
    rw [hL' x hx', hL' y (by simp)]

/-! ## the MSF header facts of Props/C15.lean for any alignment whose rows have the declared width

`msf_len` / `msf_checksums` are stated for `finalise S` with `AlnWF S` (names over the C06 alphabet); they use the
hypothesis only through `finalise_rows_length`.  The same statements for an arbitrary `Alignment` with that property
(names are arbitrary here): -/

theorem msf_len_of_width (date : Bytes) (A : Alignment) :
    (∃ rest, msfInfoLine date A = 32 :: A.basename ++ ascii "  MSF: " ++ decDigits A.alnlen ++ ascii "  Type: " ++ rest) ∧
    (∀ r ∈ A.rows, ∃ pre post, msfNameLine (maxNameLen A) A.alnlen r =
        pre ++ ascii "  Len:  " ++ padLeft 5 (decDigits A.alnlen) ++ ascii "  Check: " ++ post) ∧
    decValue (decDigits A.alnlen) = A.alnlen := by
  refine ⟨⟨[msfTypeChar A] ++ (ascii "  " ++ (date ++ (ascii "  Check: " ++ (decDigits (gcgMult A) ++ ascii "  ..")))), ?_⟩,
    ?_, decValue_decDigits _⟩
  · simp only [msfInfoLine, append_assoc, cons_append]
  · intro r _
    refine ⟨ascii " Name: " ++ padRight (maxNameLen A) (r.name.take (maxNameLen A)),
      padLeft 4 (decDigits (gcgChecksum r.row A.alnlen)) ++ ascii "  Weight: 1.00", ?_⟩
    simp only [msfNameLine, append_assoc]

theorem msf_checksums_of_width (date : Bytes) (A : Alignment) (hlen : ∀ r ∈ A.rows, r.row.length = A.alnlen) :
    (∀ r ∈ A.rows, ∃ pre, msfNameLine (maxNameLen A) A.alnlen r =
        pre ++ ascii "  Check: " ++ padLeft 4 (decDigits (gcgSum 0 r.row % 10000)) ++ ascii "  Weight: 1.00") ∧
    (∃ pre, msfInfoLine date A =
        pre ++ ascii "  Check: " ++ decDigits ((A.rows.map fun r => gcgSum 0 r.row % 10000).sum % 10000) ++ ascii "  ..") := by
  have hchk : ∀ r ∈ A.rows, gcgChecksum r.row A.alnlen = gcgSum 0 r.row % 10000 := by
    intro r hr
    rw [gcgChecksum_eq, ← hlen r hr, take_length]
  constructor
  · intro r hr
    refine ⟨ascii " Name: " ++ padRight (maxNameLen A) (r.name.take (maxNameLen A)) ++ ascii "  Len:  " ++
      padLeft 5 (decDigits A.alnlen), ?_⟩
    rw [← hchk r hr]
    simp only [msfNameLine, append_assoc]
  · refine ⟨32 :: A.basename ++ ascii "  MSF: " ++ decDigits A.alnlen ++ ascii "  Type: " ++ [msfTypeChar A] ++ ascii "  " ++
      date, ?_⟩
    have : (A.rows.map fun r => gcgSum 0 r.row % 10000) = A.rows.map fun r => gcgChecksum r.row A.alnlen :=
      map_congr_left (fun r hr => (hchk r hr).symm)
    rw [this, ← gcgMult_eq]
    simp only [msfInfoLine, append_assoc]

end Kalign.PipelineFile
