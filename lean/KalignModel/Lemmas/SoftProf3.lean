import KalignModel.Lemmas.SoftProf1
import KalignModel.Lemmas.SoftProf2
/-!
# The binary32 profile of `k` identical gap-free copies (slice AB, part 3)

`HalfParam U ap go ge gt sh`: the `SoftF32` parameter set `ap` consists of the dyadic values `go/2, ge/2, gt/2, sh i j/2` (integers of
magnitude at most `U`, penalties non-negative) — what `DyadicParam U ap apE` + `ApOK apE …` say about `ap` alone.

`ProfOKS prof seq k m go ge gt sh`: the binary32 image of `ProfOK` — what the kernels read from the profile of `k` copies of `seq`
prepared (`set_gap_penalties_n`) against a group of `m` sequences:

* slots 27/28/29 of every column: `−(k·m·go)/2`, `−(k·m·ge)/2`, `−(k·m·gt)/2` (as `neg (half …)`: for a zero penalty the slot is `−0`,
  which is what the C code computes — `-gpo` summed and multiplied — and what makes `x + slot = x − penalty` bit for bit);
* slots `32+c` of column `i+1`: `(k·sh(seq[i], c))/2`;  count slot `seq[i]`: `(float)k`, the other count slots `+0`.

`BuiltS ap seq p k`: `p` is obtained from `makeProfile ap seq` by diagonal `updateN` merges with any `setGapPenalties` in between
(binary32 twin of `Built`).  `builtS_profOKS`: such a profile prepared against `m` is `ProfOKS`, as long as `k·m·U < 2²⁴`, `k < 2²³`:
all the sums and products are exact (`neg_half_add`, `add_half`, `add_ofNat`, `mul_neg_half_ofNat`).
-/
set_option exponentiation.threshold 512
namespace Kalign
open SoftF32

structure HalfParam (U : Nat) (ap : AlnParam SoftF32) (go ge gt : Int) (sh : Nat → Nat → Int) : Prop where
  gpo : ap.gpo = half go
  gpe : ap.gpe = half ge
  tgpe : ap.tgpe = half gt
  sub : ∀ i j, ap.sub i j = half (sh i j)
  bo : go.natAbs ≤ U
  be : ge.natAbs ≤ U
  bt : gt.natAbs ≤ U
  bs : ∀ i j, (sh i j).natAbs ≤ U
  o0 : 0 ≤ go
  e0 : 0 ≤ ge
  t0 : 0 ≤ gt

/-- the half-unit integers behind a dyadic parameter set (exact carrier: units of 1/2000, so `gpo = 1000·go`) -/
theorem halfParam_of_dyadic {U : Nat} {ap : AlnParam SoftF32} {apE : AlnParam ExactScore} (hd : DyadicParam U ap apE)
    {gpo gpe tgpe : Int} {s : Nat → Nat → Int} (hap : ApOK apE gpo gpe tgpe s) (hgpo : 0 ≤ gpo) (hgpe : 0 ≤ gpe)
    (htgpe : 0 ≤ tgpe) :
    HalfParam U ap (gpo / 1000) (gpe / 1000) (tgpe / 1000) (fun x y => s x y / 1000) ∧
      gpo = 1000 * (gpo / 1000) ∧ gpe = 1000 * (gpe / 1000) ∧ tgpe = 1000 * (tgpe / 1000) ∧
      ∀ x y, s x y = 1000 * (s x y / 1000) := by
  obtain ⟨g1, b1, e1, f1⟩ := hd.gpo
  obtain ⟨g2, b2, e2, f2⟩ := hd.gpe
  obtain ⟨g3, b3, e3, f3⟩ := hd.tgpe
  rw [hap.gpo] at f1
  rw [hap.gpe] at f2
  rw [hap.tgpe] at f3
  injection f1 with f1
  injection f2 with f2
  injection f3 with f3
  have hs : ∀ i j, ∃ g : Int, g.natAbs ≤ U ∧ ap.sub i j = half g ∧ s i j = 1000 * g := by
    intro i j
    obtain ⟨g, b, e, f⟩ := hd.sub i j
    rw [hap.sub] at f
    injection f with f
    exact ⟨g, b, e, f⟩
  have q1 : gpo / 1000 = g1 := by omega
  have q2 : gpe / 1000 = g2 := by omega
  have q3 : tgpe / 1000 = g3 := by omega
  have qs : ∀ i j, s i j / 1000 = (hs i j).choose := by
    intro i j
    have := (hs i j).choose_spec.2.2
    omega
  refine ⟨⟨by rw [q1]; exact e1, by rw [q2]; exact e2, by rw [q3]; exact e3, ?_, by rw [q1]; exact b1, by rw [q2]; exact b2,
    by rw [q3]; exact b3, ?_, by omega, by omega, by omega⟩, by omega, by omega, by omega, ?_⟩
  · intro i j
    show ap.sub i j = half (s i j / 1000)
    rw [qs i j]; exact (hs i j).choose_spec.2.1
  · intro i j
    show (s i j / 1000).natAbs ≤ U
    rw [qs i j]; exact (hs i j).choose_spec.1
  · intro i j
    have := (hs i j).choose_spec.2.2
    omega

theorem natAbs_mul_lt {a : Int} {K U : Nat} (h : a.natAbs ≤ U) (hKU : K * U < 16777216) :
    (a * (K : Int)).natAbs < 16777216 := by
  rw [Int.natAbs_mul, Int.natAbs_natCast]
  have : a.natAbs * K ≤ U * K := Nat.mul_le_mul_right K h
  rw [Nat.mul_comm U K] at this
  omega

theorem natAbs_lt_of_le {a : Int} {K U : Nat} (h : a.natAbs ≤ U) (hK1 : 1 ≤ K) (hKU : K * U < 16777216) :
    a.natAbs < 16777216 := by
  have : 1 * U ≤ K * U := Nat.mul_le_mul_right U hK1
  omega

/-- the binary32 image of `ProfOK` -/
structure ProfOKS (prof : Array SoftF32) (seq : Array Nat) (k m : Nat) (go ge gt : Int) (sh : Nat → Nat → Int) : Prop where
  g27 : ∀ col, col ≤ seq.size + 1 → pget prof col 27 = neg (half (go * ((k * m : Nat) : Int)))
  g28 : ∀ col, col ≤ seq.size + 1 → pget prof col 28 = neg (half (ge * ((k * m : Nat) : Int)))
  g29 : ∀ col, col ≤ seq.size + 1 → pget prof col 29 = neg (half (gt * ((k * m : Nat) : Int)))
  subE : ∀ i, i < seq.size → ∀ c, c < 23 → pget prof (i + 1) (32 + c) = half (sh (seq.getD i 0) c * (k : Int))
  cnt : ∀ i, i < seq.size → ∀ c, c < 23 →
    pget prof (i + 1) c = if c = seq.getD i 0 then SoftF32.ofNat k else SoftF32.zero

/-- what is invariant under `set_gap_penalties_n`: everything outside the slots 27–29 -/
structure CopiesRawS (p : Array SoftF32) (seq : Array Nat) (k : Nat) (go ge gt : Int) (sh : Nat → Nat → Int) : Prop where
  size : p.size = 64 * (seq.size + 2)
  e55 : ∀ col, col ≤ seq.size + 1 → pget p col 55 = neg (half (go * (k : Int)))
  e56 : ∀ col, col ≤ seq.size + 1 → pget p col 56 = neg (half (ge * (k : Int)))
  e57 : ∀ col, col ≤ seq.size + 1 → pget p col 57 = neg (half (gt * (k : Int)))
  subE : ∀ i, i < seq.size → ∀ c, c < 23 → pget p (i + 1) (32 + c) = half (sh (seq.getD i 0) c * (k : Int))
  cnt : ∀ i, i < seq.size → ∀ c, c < 23 →
    pget p (i + 1) c = if c = seq.getD i 0 then SoftF32.ofNat k else SoftF32.zero

section
variable (U : Nat) (ap : AlnParam SoftF32) (go ge gt : Int) (sh : Nat → Nat → Int) (hh : HalfParam U ap go ge gt sh)
  (seq : Array Nat) (h23 : ∀ i, seq.getD i 0 < 23)

include hh h23 in
theorem makeProfile_rawS : CopiesRawS (makeProfile ap seq) seq 1 go ge gt sh := by
  obtain ⟨hs, h0, hl, hi⟩ := PG.makeProfile_spec ap seq
  have hneg : Score.neg ap.gpo = neg (half (go * ((1 : Nat) : Int))) ∧ Score.neg ap.gpe = neg (half (ge * ((1 : Nat) : Int))) ∧
      Score.neg ap.tgpe = neg (half (gt * ((1 : Nat) : Int))) := by
    rw [hh.gpo, hh.gpe, hh.tgpe]
    simp only [Int.natCast_one, Int.mul_one]
    exact ⟨rfl, rfl, rfl⟩
  have hcol : ∀ col, col ≤ seq.size + 1 → ∀ e, e = 55 ∨ e = 56 ∨ e = 57 →
      pget (makeProfile ap seq) col e =
        if e = 57 then Score.neg ap.tgpe else if e = 56 then Score.neg ap.gpe else Score.neg ap.gpo := by
    intro col hc e he
    have he64 : e < 64 := by omega
    by_cases hc0 : col = 0
    · subst hc0
      rw [h0 e he64, PG.sentinelCol_getD]
      rcases he with h | h | h <;> subst h <;> simp
    · by_cases hcl : col = seq.size + 1
      · subst hcl
        rw [hl e he64, PG.sentinelCol_getD]
        rcases he with h | h | h <;> subst h <;> simp
      · obtain ⟨i, rfl⟩ : ∃ i, col = i + 1 := ⟨col - 1, by omega⟩
        rw [hi i (by omega) e he64, PG.residueCol_getD ap _ (h23 i) e he64]
        rcases he with h | h | h <;> subst h <;> simp
  refine ⟨hs, ?_, ?_, ?_, ?_, ?_⟩
  · intro col hc; rw [hcol col hc 55 (Or.inl rfl)]; simp [hneg.1]
  · intro col hc; rw [hcol col hc 56 (Or.inr (Or.inl rfl))]; simp [hneg.2.1]
  · intro col hc; rw [hcol col hc 57 (Or.inr (Or.inr rfl))]; simp [hneg.2.2]
  · intro i hi' c hc
    rw [hi i hi' (32 + c) (by omega), PG.residueCol_getD ap _ (h23 i) (32 + c) (by omega)]
    rw [if_neg (by omega), if_neg (by omega), if_neg (by omega), if_pos ⟨by omega, by omega⟩, Nat.add_sub_cancel_left,
      hh.sub]
    simp
  · intro i hi' c hc
    rw [hi i hi' c (by omega), PG.residueCol_getD ap _ (h23 i) c (by omega)]
    rw [if_neg (by omega), if_neg (by omega), if_neg (by omega), if_neg (by omega)]
    by_cases hcc : c = seq.getD i 0
    · rw [if_pos hcc, if_pos hcc]; exact add_zero_one
    · rw [if_neg hcc, if_neg hcc]; rfl

theorem setGapPenalties_rawS (p : Array SoftF32) (k n : Nat) (h : CopiesRawS p seq k go ge gt sh) :
    CopiesRawS (setGapPenalties p n) seq k go ge gt sh := by
  obtain ⟨hs, hg⟩ := PG.setGapPenalties_spec p n (seq.size + 2) h.size
  have hkeep : ∀ col e, col ≤ seq.size + 1 → e < 64 → ¬ (e = 27 ∨ e = 28 ∨ e = 29) →
      pget (setGapPenalties p n) col e = pget p col e := fun col e hc he hne => by
    rw [hg col e (by omega) he, if_neg hne]
  refine ⟨by rw [hs]; exact h.size, ?_, ?_, ?_, ?_, ?_⟩
  · intro col hc; rw [hkeep col 55 hc (by omega) (by omega)]; exact h.e55 col hc
  · intro col hc; rw [hkeep col 56 hc (by omega) (by omega)]; exact h.e56 col hc
  · intro col hc; rw [hkeep col 57 hc (by omega) (by omega)]; exact h.e57 col hc
  · intro i hi c hc; rw [hkeep (i + 1) (32 + c) (by omega) (by omega) (by omega)]; exact h.subE i hi c hc
  · intro i hi c hc; rw [hkeep (i + 1) c (by omega) (by omega) (by omega)]; exact h.cnt i hi c hc

include hh in
theorem updateN_rawS (p1 p2 : Array SoftF32) (k1 k2 sa sb : Nat) (hkU : (k1 + k2) * U < 16777216) (hk : k1 + k2 < 8388608)
    (h1 : CopiesRawS p1 seq k1 go ge gt sh) (h2 : CopiesRawS p2 seq k2 go ge gt sh) :
    ∃ p, updateN ap p1 p2 (List.replicate seq.size 0) sa sb = some p ∧ CopiesRawS p seq (k1 + k2) go ge gt sh := by
  obtain ⟨p, hp, hs, hg⟩ := PG.updateN_diag ap p1 p2 sa sb seq.size h1.size h2.size
  have hU1 : k1 * U < 16777216 := by
    have : k1 * U ≤ (k1 + k2) * U := Nat.mul_le_mul_right U (by omega)
    omega
  have hU2 : k2 * U < 16777216 := by
    have : k2 * U ≤ (k1 + k2) * U := Nat.mul_le_mul_right U (by omega)
    omega
  have hpen : ∀ g : Int, 0 ≤ g → g.natAbs ≤ U →
      Score.add (neg (half (g * (k1 : Int)))) (neg (half (g * (k2 : Int)))) = neg (half (g * ((k1 + k2 : Nat) : Int))) := by
    intro g g0 gU
    show add _ _ = _
    rw [neg_half_add (Int.mul_nonneg g0 (Int.natCast_nonneg _)) (Int.mul_nonneg g0 (Int.natCast_nonneg _))
      (natAbs_mul_lt gU hU1) (natAbs_mul_lt gU hU2)]
    congr 2
    push_cast
    rw [Int.mul_add]
  refine ⟨p, hp, hs, ?_, ?_, ?_, ?_, ?_⟩
  · intro col hc
    rw [hg col 55 (by omega) (by omega), h1.e55 col hc, h2.e55 col hc]
    exact hpen go hh.o0 hh.bo
  · intro col hc
    rw [hg col 56 (by omega) (by omega), h1.e56 col hc, h2.e56 col hc]
    exact hpen ge hh.e0 hh.be
  · intro col hc
    rw [hg col 57 (by omega) (by omega), h1.e57 col hc, h2.e57 col hc]
    exact hpen gt hh.t0 hh.bt
  · intro i hi c hc
    rw [hg (i + 1) (32 + c) (by omega) (by omega), h1.subE i hi c hc, h2.subE i hi c hc]
    show add _ _ = _
    rw [add_half (natAbs_mul_lt (hh.bs _ _) hU1) (natAbs_mul_lt (hh.bs _ _) hU2)]
    congr 1
    push_cast
    rw [Int.mul_add]
  · intro i hi c hc
    rw [hg (i + 1) c (by omega) (by omega), h1.cnt i hi c hc, h2.cnt i hi c hc]
    by_cases hcc : c = seq.getD i 0
    · rw [if_pos hcc, if_pos hcc, if_pos hcc]
      exact add_ofNat hk
    · rw [if_neg hcc, if_neg hcc, if_neg hcc]
      exact add_zero_zero

include hh in
/-- a raw profile of `k` copies prepared against a group of `m` is what the kernels expect -/
theorem profOKS_of_raw (p : Array SoftF32) (k m : Nat) (hm : 1 ≤ m) (hkmU : k * m * U < 16777216) (hm24 : m < 16777216)
    (h : CopiesRawS p seq k go ge gt sh) : ProfOKS (setGapPenalties p m) seq k m go ge gt sh := by
  obtain ⟨_, hg⟩ := PG.setGapPenalties_spec p m (seq.size + 2) h.size
  have hraw := setGapPenalties_rawS go ge gt sh seq p k m h
  have hkU : k * U < 16777216 := by
    have : k * 1 ≤ k * m := Nat.mul_le_mul_left k hm
    have : k * 1 * U ≤ k * m * U := Nat.mul_le_mul_right U this
    rw [Nat.mul_one] at this
    omega
  have hscale : ∀ g : Int, g.natAbs ≤ U →
      Score.mul (neg (half (g * (k : Int)))) (Score.ofNat m : SoftF32) = neg (half (g * ((k * m : Nat) : Int))) := by
    intro g gU
    show mul _ (SoftF32.ofNat m) = _
    rw [mul_neg_half_ofNat hm hm24 (natAbs_mul_lt gU hkU) (by
      rw [Int.mul_assoc, ← Int.natCast_mul]; exact natAbs_mul_lt gU hkmU)]
    congr 2
    push_cast
    rw [Int.mul_assoc]
  refine ⟨?_, ?_, ?_, hraw.subE, hraw.cnt⟩
  · intro col hc
    rw [hg col 27 (by omega) (by omega), if_pos (Or.inl rfl), h.e55 col hc, hscale go hh.bo]
  · intro col hc
    rw [hg col 28 (by omega) (by omega), if_pos (Or.inr (Or.inl rfl)), h.e56 col hc, hscale ge hh.be]
  · intro col hc
    rw [hg col 29 (by omega) (by omega), if_pos (Or.inr (Or.inr rfl)), h.e57 col hc, hscale gt hh.bt]

end

/-- the binary32 profiles `do_align` can build for copies of `seq` along all-aligned merges (twin of `Built`) -/
inductive BuiltS (ap : AlnParam SoftF32) (seq : Array Nat) : Array SoftF32 → Nat → Prop
  | leaf : BuiltS ap seq (makeProfile ap seq) 1
  | prep (p : Array SoftF32) (k n : Nat) : BuiltS ap seq p k → BuiltS ap seq (setGapPenalties p n) k
  | merge (p1 p2 p : Array SoftF32) (k1 k2 sa sb : Nat) : BuiltS ap seq p1 k1 → BuiltS ap seq p2 k2 →
      updateN ap p1 p2 (List.replicate seq.size 0) sa sb = some p → BuiltS ap seq p (k1 + k2)

theorem builtS_pos {ap : AlnParam SoftF32} {seq : Array Nat} {p : Array SoftF32} {k : Nat} (h : BuiltS ap seq p k) : 1 ≤ k := by
  induction h with
  | leaf => exact Nat.le_refl _
  | prep _ _ _ _ ih => exact ih
  | merge _ _ _ _ _ _ _ _ _ _ ih1 _ => omega

theorem builtS_raw (U : Nat) (ap : AlnParam SoftF32) (go ge gt : Int) (sh : Nat → Nat → Int) (hh : HalfParam U ap go ge gt sh)
    (seq : Array Nat) (h23 : ∀ i, seq.getD i 0 < 23) (p : Array SoftF32) (k : Nat) (h : BuiltS ap seq p k)
    (hkU : k * U < 16777216) (hk : k < 8388608) : CopiesRawS p seq k go ge gt sh := by
  induction h with
  | leaf => exact makeProfile_rawS U ap go ge gt sh hh seq h23
  | prep p k n _ ih => exact setGapPenalties_rawS go ge gt sh seq p k n (ih hkU hk)
  | merge p1 p2 p k1 k2 sa sb _ _ hu ih1 ih2 =>
    have hU1 : k1 * U < 16777216 := by
      have : k1 * U ≤ (k1 + k2) * U := Nat.mul_le_mul_right U (by omega)
      omega
    have hU2 : k2 * U < 16777216 := by
      have : k2 * U ≤ (k1 + k2) * U := Nat.mul_le_mul_right U (by omega)
      omega
    obtain ⟨p', hp', hraw⟩ := updateN_rawS U ap go ge gt sh hh seq p1 p2 k1 k2 sa sb hkU hk (ih1 hU1 (by omega))
      (ih2 hU2 (by omega))
    rw [hu] at hp'
    injection hp' with hp'
    rw [hp']; exact hraw

/-- **binary32 `profile_of_copies`**: whatever the merge order, the profile of `k` copies prepared against `m` is `ProfOKS` -/
theorem builtS_profOKS (U : Nat) (ap : AlnParam SoftF32) (go ge gt : Int) (sh : Nat → Nat → Int) (hh : HalfParam U ap go ge gt sh)
    (seq : Array Nat) (h23 : ∀ i, seq.getD i 0 < 23) (p : Array SoftF32) (k m : Nat) (h : BuiltS ap seq p k) (hm : 1 ≤ m)
    (hkmU : k * m * U < 16777216) (hkm : k * m < 8388608) : ProfOKS (setGapPenalties p m) seq k m go ge gt sh := by
  have hk1 := builtS_pos h
  have hkle : k ≤ k * m := by
    have := Nat.mul_le_mul_left k hm
    rwa [Nat.mul_one] at this
  have hmle : m ≤ k * m := by
    have := Nat.mul_le_mul_right m hk1
    rwa [Nat.one_mul] at this
  have hkU : k * U < 16777216 := by
    have : k * U ≤ k * m * U := Nat.mul_le_mul_right U hkle
    omega
  exact profOKS_of_raw U ap go ge gt sh hh seq p k m hm hkmU (by omega)
    (builtS_raw U ap go ge gt sh hh seq h23 p k h hkU (by omega))

/-- merging is always possible (within the exactness budget) -/
theorem builtS_merge_exists (U : Nat) (ap : AlnParam SoftF32) (go ge gt : Int) (sh : Nat → Nat → Int)
    (hh : HalfParam U ap go ge gt sh) (seq : Array Nat) (h23 : ∀ i, seq.getD i 0 < 23)
    (p1 p2 : Array SoftF32) (k1 k2 sa sb : Nat) (h1 : BuiltS ap seq p1 k1) (h2 : BuiltS ap seq p2 k2)
    (hkU : (k1 + k2) * U < 16777216) (hk : k1 + k2 < 8388608) :
    ∃ p, updateN ap p1 p2 (List.replicate seq.size 0) sa sb = some p ∧ BuiltS ap seq p (k1 + k2) := by
  have hU1 : k1 * U < 16777216 := by
    have : k1 * U ≤ (k1 + k2) * U := Nat.mul_le_mul_right U (by omega)
    omega
  have hU2 : k2 * U < 16777216 := by
    have : k2 * U ≤ (k1 + k2) * U := Nat.mul_le_mul_right U (by omega)
    omega
  obtain ⟨p, hp, _⟩ := updateN_rawS U ap go ge gt sh hh seq p1 p2 k1 k2 sa sb hkU hk
    (builtS_raw U ap go ge gt sh hh seq h23 p1 k1 h1 hU1 (by omega))
    (builtS_raw U ap go ge gt sh hh seq h23 p2 k2 h2 hU2 (by omega))
  exact ⟨p, hp, BuiltS.merge p1 p2 p k1 k2 sa sb h1 h2 hp⟩

end Kalign
