import KalignModel.Lemmas.IndexKernel
import KalignModel.Lemmas.NoFaultProf
/-!
# The checked profile functions agree with the totalised ones (slice AD, item 3)
-/
namespace Kalign
section
variable {β : Type} [Score β]

theorem sentinelColC_eq (ap : AlnParam β) : sentinelColC ap = some (sentinelCol ap) := by
  unfold sentinelColC sentinelCol
  rw [asetC_eq _ _ _ (by simp), Option.bind_some, asetC_eq _ _ _ (by simp), Option.bind_some, asetC_eq _ _ _ (by simp)]

theorem residueColC_eq (ap : AlnParam β) (hw : ap.wf) (c : Nat) (hc : c < 23) : residueColC ap c = some (residueCol ap c) := by
  unfold residueColC residueCol
  rw [asetC_eq _ _ _ (by simp; omega), Option.bind_some]
  dsimp only
  obtain ⟨e, hs⟩ := foldlC_eq_inv (fun col : Array β => col.size = 64)
    (fun col j => (ap.subC c j).bind fun s => asetC col (32 + j) s) (fun col j => col.set! (32 + j) (ap.sub c j))
    (List.range 23) ((Array.replicate 64 (Score.zero : β)).set! c (Score.add (Score.zero : β) Score.one)) (by simp)
    (by
      intro col j hj hcol
      have hj' : j < 23 := by simpa using hj
      rw [subC_eq ap hw c j hc hj', Option.bind_some, asetC_eq _ _ _ (by omega)]
      exact ⟨rfl, by simpa using hcol⟩)
  rw [e, Option.bind_some]
  generalize List.foldl (fun col j => col.set! (32 + j) (ap.sub c j))
    ((Array.replicate 64 (Score.zero : β)).set! c (Score.add (Score.zero : β) Score.one)) (List.range 23) = col' at hs
  rw [asetC_eq _ _ _ (by omega), Option.bind_some, asetC_eq _ _ _ (by simp; omega), Option.bind_some,
    asetC_eq _ _ _ (by simp; omega)]

theorem makeProfileC_eq (ap : AlnParam β) (hw : ap.wf) (seq : Array Nat) (hs : seq.all (· < 23) = true) :
    makeProfileC ap seq = some (makeProfile ap seq) := by
  unfold makeProfileC makeProfile
  rw [sentinelColC_eq, Option.bind_some]
  simp only [Option.map_some]
  rw [foldlC_eq (fun p c => (residueColC ap c).map fun rc => p ++ rc) (fun p c => p ++ residueCol ap c) seq.toList _
    (by
      intro p c hc
      obtain ⟨i, hi, rfl⟩ := List.mem_iff_getElem.mp hc
      have : seq.getD i 0 < 23 := all_lt_getD seq hs i (by simpa using hi)
      have e : seq.toList[i] = seq.getD i 0 := by
        have hi' : i < seq.size := by simpa using hi
        simp [Array.getD, hi']
      rw [e, residueColC_eq ap hw _ this]
      rfl)]
  rw [Option.bind_some, Array.foldl_toList]

theorem setGapPenaltiesC_eq (prof : Array β) (nsip : Nat) : setGapPenaltiesC prof nsip = some (setGapPenalties prof nsip) := by
  unfold setGapPenaltiesC setGapPenalties
  refine (foldlC_eq_inv (fun p : Array β => p.size = prof.size) _ _ _ prof rfl ?_).1
  intro p col hcol hp
  have hc : col < prof.size / 64 := by simpa using hcol
  have hlt : 64 * col + 63 < p.size := by omega
  dsimp only
  rw [getElem?_eq_some_getD p _ Score.zero (by omega), Option.bind_some,
    getElem?_eq_some_getD p _ Score.zero (by omega), Option.bind_some,
    getElem?_eq_some_getD p _ Score.zero (by omega), Option.bind_some,
    asetC_eq _ _ _ (by omega), Option.bind_some, asetC_eq _ _ _ (by simp; omega), Option.bind_some,
    asetC_eq _ _ _ (by simp; omega)]
  exact ⟨rfl, by simpa using hp⟩

theorem addColsC_eq (x y : Array β) (hx : x.size = 64) (hy : y.size = 64) : addColsC x y = some (addCols x y) := by
  unfold addColsC addCols
  rw [mapC_eq _ (fun i => Score.add (x.getD i Score.zero) (y.getD i Score.zero)) _ (by
    intro i hi
    have : i < 64 := by simpa using hi
    rw [getElem?_eq_some_getD x i Score.zero (by omega), Option.bind_some,
      getElem?_eq_some_getD y i Score.zero (by omega), Option.bind_some])]
  rw [Option.map_some]
  congr 1
  apply Array.ext'
  simp [Array.toList_range]

theorem subRangeC_eq (col : Array β) (gp : β) (h : 55 ≤ col.size) : subRangeC col gp = some (subRange col gp) := by
  unfold subRangeC subRange
  refine (foldlC_eq_inv (fun c : Array β => c.size = col.size) _ _ _ col rfl ?_).1
  intro c j hj hc
  have := List.mem_range'_1.mp hj
  rw [getElem?_eq_some_getD c j Score.zero (by omega), Option.bind_some, asetC_eq _ _ _ (by omega)]
  exact ⟨rfl, by simpa using hc⟩

theorem bumpAtC_eq (col : Array β) (k : Nat) (s : β) (h : k < col.size) : bumpAtC col k s = some (bumpAt col k s) := by
  unfold bumpAtC bumpAt
  rw [getElem?_eq_some_getD col k Score.zero h, Option.bind_some, asetC_eq _ _ _ h]

theorem gapColC_eq (ap : AlnParam β) (col : Array β) (code sip : Nat) (h : 55 ≤ col.size) :
    gapColC ap col code sip = some (gapCol ap col code sip) := by
  have bs : ∀ (c : Array β) (k : Nat) (s gp : β), 55 ≤ c.size → k < 55 →
      ((bumpAtC c k s).bind fun c => subRangeC c gp) = some (subRange (bumpAt c k s) gp) := by
    intro c k s gp hc hk
    rw [bumpAtC_eq c k s (by omega), Option.bind_some, subRangeC_eq _ _ (by rw [size_bumpAt]; exact hc)]
  have ob : ∀ (c : Array β), 55 ≤ c.size →
      (if bit code 32 then
        (bumpAtC c 25 (Score.ofNat sip)).bind fun c =>
          (bumpAtC c 23 (Score.ofNat sip)).bind fun c =>
            subRangeC c (Score.add (Score.mul ap.tgpe (Score.ofNat sip)) (Score.mul ap.gpo (Score.ofNat sip)))
       else (bumpAtC c 23 (Score.ofNat sip)).bind fun c => subRangeC c (Score.mul ap.gpo (Score.ofNat sip))) =
      some (if bit code 32 then
        subRange (bumpAt (bumpAt c 25 (Score.ofNat sip)) 23 (Score.ofNat sip))
          (Score.add (Score.mul ap.tgpe (Score.ofNat sip)) (Score.mul ap.gpo (Score.ofNat sip)))
       else subRange (bumpAt c 23 (Score.ofNat sip)) (Score.mul ap.gpo (Score.ofNat sip))) := by
    intro c hc
    split
    · rw [bumpAtC_eq c 25 _ (by omega), Option.bind_some]
      exact bs _ 23 _ _ (by rw [size_bumpAt]; exact hc) (by omega)
    · exact bs c 23 _ _ hc (by omega)
  have obs : ∀ (c : Array β), 55 ≤ c.size →
      55 ≤ (if bit code 32 then
        subRange (bumpAt (bumpAt c 25 (Score.ofNat sip)) 23 (Score.ofNat sip))
          (Score.add (Score.mul ap.tgpe (Score.ofNat sip)) (Score.mul ap.gpo (Score.ofNat sip)))
       else subRange (bumpAt c 23 (Score.ofNat sip)) (Score.mul ap.gpo (Score.ofNat sip))).size := by
    intro c hc
    split <;> simp only [size_subRange, size_bumpAt] <;> exact hc
  unfold gapColC gapCol
  dsimp only
  split
  · split
    · exact bs col 25 _ _ h (by omega)
    · exact bs col 24 _ _ h (by omega)
  · by_cases h16 : bit code 16 = true
    · simp only [h16, if_true]
      rw [ob col h, Option.bind_some]
      split
      · exact ob _ (obs col h)
      · rfl
    · simp only [h16, Bool.false_eq_true, if_false, Option.bind_some]
      split
      · exact ob col h
      · rfl

omit [Score β] in
theorem colOf?_size (p c : Array β) (col : Nat) (h : colOf? p col = some c) : c.size = 64 := by
  unfold colOf? at h
  split at h
  · cases h; simp; omega
  · cases h


@[simp] theorem run_chk_some {γ : Type} (x : γ) : (chk (some x) : Chk γ) = pure x := rfl
@[simp] theorem run_mdl_some {γ : Type} (x : γ) : (mdl (some x) : Chk γ) = pure x := rfl
theorem mdl_none_bind {γ δ : Type} (f : γ → Chk δ) : (mdl (none : Option γ) >>= f) = mdl none := rfl
@[simp] theorem run_mdl_none {γ : Type} : (mdl (none : Option γ) : Chk γ).run = some none := rfl

theorem updateStepC_eq (ap : AlnParam β) (pa pb : Array β) (sa sb : Nat) (st : UpdState β) (code : Nat) :
    (updateStepC ap pa pb sa sb st code).run = some (updateStep ap pa pb sa sb st code) := by
  unfold updateStepC updateStep
  by_cases h0 : code = 0
  · subst h0
    have b1 : bit 0 1 = false := by decide
    have b2 : bit 0 2 = false := by decide
    cases hA : colOf? pa st.pa with
    | none => simp [hA, b1, b2, mdl_none_bind]
    | some ca =>
      cases hB : colOf? pb st.pb with
      | none => simp [hA, hB, b1, b2, mdl_none_bind]
      | some cb =>
        simp [hA, hB, b1, b2, addColsC_eq ca cb (colOf?_size _ _ _ hA) (colOf?_size _ _ _ hB)]
  · have h0' : (code == 0) = false := by simpa using h0
    by_cases h1 : bit code 1 = true
    · cases hB : colOf? pb st.pb with
      | none => simp [h0', h1, hB, mdl_none_bind]
      | some cb =>
        have g1 := gapColC_eq ap cb code sa (by rw [colOf?_size _ _ _ hB]; omega)
        by_cases h2 : bit code 2 = true
        · cases hA : colOf? pa st.pa with
          | none => simp [h0', h1, h2, hA, hB, g1, mdl_none_bind]
          | some ca =>
            have g2 := gapColC_eq ap ca code sb (by rw [colOf?_size _ _ _ hA]; omega)
            simp [h0', h1, h2, hA, hB, g1, g2]
        · simp [h0', h1, h2, hB, g1]
    · by_cases h2 : bit code 2 = true
      · cases hA : colOf? pa st.pa with
        | none => simp [h0', h1, h2, hA, mdl_none_bind]
        | some ca =>
          have g2 := gapColC_eq ap ca code sb (by rw [colOf?_size _ _ _ hA]; omega)
          simp [h0', h1, h2, hA, g2]
      · simp [h0', h1, h2]

omit [Score β] in
theorem foldlChk_eq {σ γ : Type} (f : σ → γ → Chk σ) (g : σ → γ → Option σ) (h : ∀ s x, (f s x).run = some (g s x))
    (l : List γ) (s : σ) : (foldlChk f s l).run = some (l.foldlM g s) := by
  induction l generalizing s with
  | nil => rfl
  | cons x xs ih =>
    rw [foldlChk, OptionT.run_bind, h s x, List.foldlM_cons]
    cases g s x with
    | none => rfl
    | some s' => exact ih s'

theorem updateNC_eq (ap : AlnParam β) (pa pb : Array β) (codes : List Nat) (sa sb : Nat) :
    (updateNC ap pa pb codes sa sb).run = some (updateN ap pa pb codes sa sb) := by
  unfold updateNC updateN
  cases hA : colOf? pa 0 with
  | none => simp [mdl_none_bind]
  | some c0a =>
    cases hB : colOf? pb 0 with
    | none => simp [mdl_none_bind]
    | some c0b =>
      have e0 := addColsC_eq c0a c0b (colOf?_size _ _ _ hA) (colOf?_size _ _ _ hB)
      have ef := foldlChk_eq (updateStepC ap pa pb sa sb) (updateStep ap pa pb sa sb) (updateStepC_eq ap pa pb sa sb)
        (codes.takeWhile (· ≠ 3)) { pa := 1, pb := 1, out := addCols c0a c0b }
      simp only [run_mdl_some, e0, run_chk_some, pure_bind, OptionT.run_bind, ef, Option.pure_def, Option.bind_eq_bind,
        Option.bind_some]
      cases List.foldlM (updateStep ap pa pb sa sb) { pa := 1, pb := 1, out := addCols c0a c0b }
          (codes.takeWhile (· ≠ 3)) with
      | none => rfl
      | some st =>
        try dsimp only
        cases hA' : colOf? pa st.pa with
        | none => simp [Option.elimM, hA']
        | some ca =>
          cases hB' : colOf? pb st.pb with
          | none => simp [Option.elimM, hA', hB']
          | some cb =>
            simp [Option.elimM, hA', hB', addColsC_eq ca cb (colOf?_size _ _ _ hA') (colOf?_size _ _ _ hB')]

end
end Kalign
