import KalignModel.Model.PipelineFileSoft
import KalignModel.Lemmas.PipelineFile
import KalignModel.Props.C05PipelineSoft2
/-!
# Lemmas for the whole-program model on the software binary32 (`kalignFileSoft2`, Model/PipelineFileSoft.lean)

`kalignFileSoft2` hands the reader's `biotype` to `kalignRunWithCB` as the detection function (as `kalignFile` does with
`kalignRunWith`), so the statements of Props/C05PipelineSoft2.lean (`kalignRunSoft2`: detection function `detectF`) and of
Props/Pipeline.lean (`kalignRunWith`: carrier `Float32`) are needed for an arbitrary detection function resp. an arbitrary carrier:

* `kalignRunWithCB_cases_det`, `kalignRunWithCB_soft2_never_faults`: `kalignRunWithCB_cases` / `kalignRunSoft2_never_faults_of_nonempty`
  for any `det` — composed from the same stage lemmas (`stagesCB_cases`, `buildTasks2_tree`, `monHypL_of_bounds`), which never
  looked at `det`;
* `recAlnC_groupOK`, `coreCB_spec`, `stagesCB_spec`, `kalignRunWithCB_integrity`: the integrity chain of Lemmas/Pipeline.lean /
  Props/Pipeline.lean over an arbitrary carrier (the proofs never compute with a score: `C01_merge_integrity` at every merge, its
  premise enforced by the run-time monitor of `mergeNodesC`);
* `RunSpec`, `kalignFileWith_ok`, `runMsaSoft2_spec`: what a successful run of the frame `kalignFileWith` consists of.
-/
namespace Kalign.Pipeline
open Kalign Kalign.Kmeans Kalign.Sched List

/-! ## no fault for any detection function -/

section
variable {α : Type} [Score α]

/-- `kalignRunWithCB_cases` (Lemmas/TreeSoftPipe.lean) for an arbitrary detection function -/
theorem kalignRunWithCB_cases_det (det : List Nat → Bio)
    (build : Array (List Nat) → Except PipeErr (Array (Nat × Nat × Nat)))
    (pm : Bio → Option (AlnParam α)) (inp : List InSeq)
    (hbuild : ∀ c, canon inp = some c → 2 ≤ (view c).length → ∃ T : Tree,
      build (treeCodes (bioOf det inp) c) =
        .ok (Kmeans.sortTasks (treeTasks T (treeCodes (bioOf det inp) c).size)).toArray ∧
      T.leaves.Perm (List.range (treeCodes (bioOf det inp) c).size))
    (hM : ∀ c ap T, canon inp = some c → pm (bioOf det inp) = some ap →
        build (treeCodes (bioOf det inp) c) =
          .ok (Kmeans.sortTasks (treeTasks T (treeCodes (bioOf det inp) c).size)).toArray →
        T.leaves.Perm (List.range (treeCodes (bioOf det inp) c).size) →
        MonHypL ap (alnCodes (bioOf det inp) c) T.leaves) :
    kalignRunWithCB det build pm inp ≠ .error .fuel ∧ kalignRunWithCB det build pm inp ≠ .error .tree ∧
    kalignRunWithCB det build pm inp ≠ .error .fault ∧ kalignRunWithCB det build pm inp ≠ .error .monitor := by
  unfold kalignRunWithCB
  by_cases hb : hasBadByte inp = true
  · simp [hb]
  simp only [hb, Bool.false_eq_true, if_false]
  cases hc : canon inp with
  | none => simp
  | some c =>
    simp only
    have s3 := stagesCB_cases build (bioOf det inp) pm (view c) (canon_nonempty inp c hc)
      (fun h2 => hbuild c hc h2) (fun ap T hp hb hl => hM c ap T hc hp hb hl)
    cases hs : stagesCB build (bioOf det inp) pm (view c) with
    | ok rows => simp
    | error e =>
      rw [hs] at s3
      simp only [ne_eq, Except.error.injEq] at s3 ⊢
      exact s3

end

/-- **the stages of `kalignRunSoft2` under any detection function never fault**: `K ≤ 2¹⁷` non-empty sequences of at most `M`
residues, `K · M < 2¹⁹` (the argument of `kalignRunSoft2_never_faults_of_nonempty`, which does not depend on `det`) -/
theorem kalignRunWithCB_soft2_never_faults (det : List Nat → Bio) (inp : List InSeq) (type : Int) (gpo gpe tgpe : SoftF32)
    (M : Nat) (hK : numNonEmpty inp ≤ 131072) (hlen : ∀ x ∈ inp, x.seq.length ≤ M) (hprod : numNonEmpty inp * M < 524288) :
    kalignRunWithCB det (buildTasks2 true) (fun bio => paramOfTableS bio.code type gpo gpe tgpe) inp ≠ .error .fuel ∧
    kalignRunWithCB det (buildTasks2 true) (fun bio => paramOfTableS bio.code type gpo gpe tgpe) inp ≠ .error .tree ∧
    kalignRunWithCB det (buildTasks2 true) (fun bio => paramOfTableS bio.code type gpo gpe tgpe) inp ≠ .error .fault ∧
    kalignRunWithCB det (buildTasks2 true) (fun bio => paramOfTableS bio.code type gpo gpe tgpe) inp ≠ .error .monitor := by
  have hszT : ∀ c, canon inp = some c → (treeCodes (bioOf det inp) c).size = numNonEmpty inp := by
    intro c hc
    rw [← canon_length_eq inp c hc]; simp [treeCodes]
  exact kalignRunWithCB_cases_det det (buildTasks2 true) (fun bio => paramOfTableS bio.code type gpo gpe tgpe) inp
    (by
      intro c hc h2
      exact buildTasks2_tree true _ (by rw [hszT c hc, ← canon_length_eq inp c hc]; omega) (by rw [hszT c hc]; omega)
        (treeCodes_lt13 _ c))
    (by
      intro c ap T hc hp _ hperm
      have hsz := hszT c hc
      have hsz2 : (alnCodes (bioOf det inp) c).size = numNonEmpty inp := by
        rw [← canon_length_eq inp c hc]; simp [alnCodes]
      have hTl : T.leaves.length = numNonEmpty inp := by rw [hperm.length_eq, List.length_range, hsz]
      refine monHypL_of_bounds hp _ T.leaves M (by omega) ?_ (by rw [hTl]; exact hprod)
      intro i hi
      have hi' : i < (alnCodes (bioOf det inp) c).size := by
        rw [hsz2, ← hsz]; exact List.mem_range.1 (hperm.mem_iff.1 hi)
      obtain ⟨x, hx, ex⟩ := alnCodes_length _ c i hi'
      obtain ⟨x', hx', ex'⟩ := canon_mem inp c hc x hx
      rw [ex, ← ex']
      exact hlen x' hx')

/-! ## integrity over an arbitrary carrier -/

section
variable {α : Type} [Score α]

/-- `NodeOK` (Lemmas/Pipeline.lean) for a node over the carrier `α` -/
def NodeOKC (seqs : Nat → List Nat) (N : NodeC α) : Prop :=
  GroupOK seqs N.group ∧ N.group ≠ [] ∧ N.len = N.group.plen

omit [Score α] in
theorem leafNodeC_groupOK (codes : Array (List Nat)) (i : Nat) :
    NodeOKC (α := α) (fun j => codes.getD j []) (leafNodeC codes i) := by
  refine ⟨⟨?_, ?_, ?_, ?_⟩, by simp [leafNodeC], ?_⟩
  · intro m hm
    simp only [leafNodeC, mem_singleton] at hm
    subst hm; simp [GSeq.WF]
  · intro m hm
    simp only [leafNodeC, mem_singleton] at hm
    subst hm; rfl
  · intro m hm
    simp only [leafNodeC, mem_singleton] at hm
    subst hm; rfl
  · intro k hk
    simp only [leafNodeC, Group.plen, GSeq.row, makeLinear_replicate_zero, length_map, map_cons, map_nil] at hk ⊢
    simp only [colAllGap, all_cons, all_nil, Bool.and_true, cell_map_some _ k hk]
    rfl
  · simp [leafNodeC, Group.plen, GSeq.row, makeLinear_replicate_zero]

theorem mergeNodesC_groupOK (seqs : Nat → List Nat) (entry : Entry) (ap : AlnParam α) (A B N : NodeC α)
    (isLast : Bool) (hA : NodeOKC seqs A) (hB : NodeOKC seqs B)
    (h : mergeNodesC entry ap A B isLast = .ok N) : NodeOKC seqs N := by
  unfold mergeNodesC at h
  simp only at h
  split at h
  · cases h
  · rename_i st' out _
    split at h
    · cases h
    · split at h
      · cases h
      · rename_i hv
        simp only [Except.ok.injEq] at h
        subst h
        have hv' : ValidCols (out.codes.map Col.ofCode) A.group.plen B.group.plen := by
          rw [← hA.2.2, ← hB.2.2]
          exact validColsB_sound (by simpa using hv)
        obtain ⟨h1, h2⟩ := C01_merge_integrity seqs out.codes A.group B.group hA.1 hB.1 hA.2.1 hB.2.1 hv'
        exact ⟨h1, mergeGroups_ne_nil _ _ _ hA.2.1, h2.symm⟩

theorem recAlnC_groupOK (ap : AlnParam α) (tasks : Array (Nat × Nat × Nat)) (codes : Array (List Nat)) (n : Nat) :
    ∀ (fuel k : Nat) (N : NodeC α), recAlnC ap tasks codes n fuel k = .ok N →
      NodeOKC (fun j => codes.getD j []) N := by
  intro fuel
  induction fuel with
  | zero => intro k N h; simp [recAlnC] at h
  | succ fuel ih =>
    intro k N h
    unfold recAlnC at h
    split at h
    · cases h
    · rename_i a b c _
      have child_ok : ∀ (x : Nat) (X : NodeC α),
          (if x ≥ n then recAlnC ap tasks codes n fuel (x - n)
           else if x < codes.size then .ok (leafNodeC codes x) else .error .fault) = .ok X →
          NodeOKC (fun j => codes.getD j []) X := by
        intro x X hx
        split at hx
        · exact ih _ _ hx
        · split at hx
          · simp only [Except.ok.injEq] at hx
            subst hx
            exact leafNodeC_groupOK codes x
          · cases hx
      simp only at h
      split at h
      · cases h
      · rename_i A hA
        split at h
        · cases h
        · rename_i B hB
          exact mergeNodesC_groupOK _ _ _ A B N _ (child_ok a A hA) (child_ok b B hB) h

/-- `core_spec` for `coreCB` -/
theorem coreCB_spec {build : Array (List Nat) → Except PipeErr (Array (Nat × Nat × Nat))} {pm : Option (AlnParam α)}
    {c1 c2 : List (List Nat)} {gaps : List (List Nat)} (h : coreCB build pm c1 c2 = .ok gaps) :
    gaps.length = c2.length ∧ ∃ L, ∀ i (h1 : i < c2.length) (h2 : i < gaps.length),
      gaps[i].length = c2[i].length + 1 ∧ c2[i].length + gaps[i].sum = L := by
  unfold coreCB at h
  simp only at h
  split at h
  · cases h
  · split at h
    · cases h
    · rename_i tasks _
      split at h
      · cases h
      · rename_i ap
        split at h
        · cases h
        · rename_i root hroot
          split at h
          · cases h
          · rename_i gp hgp
            simp only [Except.ok.injEq] at h
            subst h
            obtain ⟨hl, hg⟩ := mapM_option_get _ _ _ hgp
            have hok := recAlnC_groupOK ap tasks c2.toArray c2.length _ _ root hroot
            refine ⟨by simpa using hl, root.group.plen, ?_⟩
            intro i h1 h2
            have hi := hg i (by simpa using h1) h2
            simp only [getElem_range] at hi
            obtain ⟨m, hm, hidx, hgaps⟩ := finalGaps_some hi
            have hres := hok.1.res m hm
            have hwf := hok.1.wf m hm
            have hlen := hok.1.len m hm
            simp only [hidx, Array.getD_eq_getD_getElem?, List.getElem?_toArray, getElem?_eq_getElem h1,
              Option.getD_some] at hres
            unfold GSeq.WF at hwf
            rw [hgaps, hres] at hwf
            refine ⟨hwf, ?_⟩
            rw [GSeq.row, length_makeLinear _ _ (by rw [hgaps, hres]; exact hwf), hgaps, hres] at hlen
            exact hlen

/-- `stagesG_spec` for `stagesCB` -/
theorem stagesCB_spec {build : Array (List Nat) → Except PipeErr (Array (Nat × Nat × Nat))} {bio : Bio}
    {pm : Bio → Option (AlnParam α)} {V : List (Name × List Char)} {rows : List GRow}
    (h : stagesCB build bio pm V = .ok rows) :
    rows.length = V.length ∧ ∃ L, ∀ i (h1 : i < V.length) (h2 : i < rows.length),
      degap rows[i] = V[i].2 ∧ rows[i].length = L := by
  unfold stagesCB at h
  split at h
  · cases h
  · simp only at h
    split at h
    · cases h
    · rename_i gaps hc
      simp only [Except.ok.injEq] at h
      subst h
      obtain ⟨hl, L, hL⟩ := coreCB_spec hc
      simp only [length_map] at hl
      refine ⟨by simp [hl], L, ?_⟩
      intro i h1 h2
      have hg : i < gaps.length := by rw [hl]; exact h1
      obtain ⟨e1, e2⟩ := hL i (by simpa using h1) hg
      simp only [getElem_map, length_convertN, bytesOf, length_map] at e1 e2
      simp only [getElem_zipWith, getElem_map]
      exact ⟨degap_makeLinear _ _ e1, by rw [length_makeLinear _ _ e1]; exact e2⟩

/-- **`kalignRunWith_integrity` (Props/Pipeline.lean) for `kalignRunWithCB`**: any carrier, any detection function, any
task-table builder -/
theorem kalignRunWithCB_integrity (det : List Nat → Bio)
    (build : Array (List Nat) → Except PipeErr (Array (Nat × Nat × Nat))) (pm : Bio → Option (AlnParam α))
    (inp : List InSeq) (out : List (Name × GRow)) (h : kalignRunWithCB det build pm inp = .ok out) :
    out.map (·.1) = (inp.filter fun x => x.seq.length ≠ 0).map (·.name) ∧
    out.map (fun x => degap x.2) = (inp.filter fun x => x.seq.length ≠ 0).map (·.seq) ∧
    ∃ L, ∀ x ∈ out, x.2.length = L := by
  unfold kalignRunWithCB at h
  split at h
  · cases h
  · simp only at h
    split at h
    · cases h
    · rename_i c hc
      split at h
      · cases h
      · rename_i rows hrows
        simp only [Except.ok.injEq] at h
        subst h
        unfold canon at hc
        cases hE : essentialInputCheck inp with
        | none => rw [hE] at hc; cases hc
        | some E =>
          rw [hE] at hc
          simp only [Option.map_some, Option.some.injEq] at hc
          subst hc
          obtain ⟨hl, L, hL⟩ := stagesCB_spec hrows
          have hperm : (sortLenName E).Perm E := mergeSort_perm E leLenName
          have hlen : rows.length = E.length := by
            rw [hl]; simp [view, hperm.length_eq]
          have hfst := sortRank_zip_fst E (essentialInputCheck_ranks inp E hE) rows hlen
          have hview := essentialInputCheck_view inp E hE
          have hpair : ∀ z ∈ sortRankBy (fun x : RSeq × GRow => x.1.rank) ((sortLenName E).zip rows),
              degap z.2 = z.1.seq ∧ z.2.length = L := by
            intro z hz
            obtain ⟨i, h1, h2, rfl⟩ := mem_sortRank_zip hz
            have := hL i (by simpa [view] using h1) h2
            simpa [view] using this
          have hnames : E.map (·.name) = (inp.filter fun x => x.seq.length ≠ 0).map (·.name) := by
            have := congrArg (fun l => l.map (·.1)) hview
            simpa [view, keptView, map_map, Function.comp_def] using this
          have hseqs : E.map (·.seq) = (inp.filter fun x => x.seq.length ≠ 0).map (·.seq) := by
            have := congrArg (fun l => l.map (·.2)) hview
            simpa [view, keptView, map_map, Function.comp_def] using this
          unfold finish
          refine ⟨?_, ?_, L, ?_⟩
          · rw [map_map]
            have : ((fun x : Name × GRow => x.1) ∘ fun x : RSeq × GRow => (x.1.name, x.2))
                = (fun x : RSeq => x.name) ∘ (fun x : RSeq × GRow => x.1) := rfl
            rw [this, ← map_map, hfst, hnames]
          · have e := congrArg (fun l => l.map (·.seq)) hfst
            simp only [map_map] at e
            rw [map_map, ← hseqs, ← e]
            apply map_congr_left
            intro z hz
            exact (hpair z hz).1
          · intro x hx
            obtain ⟨z, hz, rfl⟩ := mem_map.1 hx
            exact (hpair z hz).2

/-- `kalignRunWith_ok_more` (Lemmas/PipelineFile.lean) for `kalignRunWithCB` -/
theorem kalignRunWithCB_ok_more {det : List Nat → Bio}
    {build : Array (List Nat) → Except PipeErr (Array (Nat × Nat × Nat))} {pm : Bio → Option (AlnParam α)}
    {inp : List InSeq} {out : List (Name × GRow)} (h : kalignRunWithCB det build pm inp = .ok out) :
    bioOf det inp ≠ .unknown ∧ 1 < (keptView inp).length := by
  unfold kalignRunWithCB at h
  split at h
  · cases h
  · simp only at h
    split at h
    · cases h
    · rename_i c hc
      split at h
      · cases h
      · rename_i rows hrows
        constructor
        · intro hb
          rw [hb] at hrows
          simp [stagesCB] at hrows
        · have hs : (essentialInputCheck inp).isSome = true := by
            unfold canon at hc
            cases he : essentialInputCheck inp with
            | none => rw [he] at hc; cases hc
            | some _ => rfl
          rw [essentialInputCheck_isSome] at hs
          simp only [Bool.and_eq_true, decide_eq_true_eq] at hs
          exact hs.2

/-! ## `PipeErr.badByte` comes from the byte check in front of the stages only -/

theorem mergeNodesC_ne_badByte (entry : Entry) (ap : AlnParam α) (A B : NodeC α) (isLast : Bool) :
    mergeNodesC entry ap A B isLast ≠ .error .badByte := by
  unfold mergeNodesC
  simp only
  split
  · simp
  · split
    · simp
    · split <;> simp

theorem recAlnC_ne_badByte (ap : AlnParam α) (tasks : Array (Nat × Nat × Nat)) (codes : Array (List Nat)) (n : Nat) :
    ∀ (fuel k : Nat), recAlnC ap tasks codes n fuel k ≠ .error .badByte := by
  intro fuel
  induction fuel with
  | zero => intro k; simp [recAlnC]
  | succ fuel ih =>
    intro k
    cases ht : tasks[k]? with
    | none => rw [recAlnC]; simp [ht]
    | some t =>
      obtain ⟨a, b, c⟩ := t
      rw [recAlnC_succ ap tasks codes n fuel k a b c ht]
      have hchild : ∀ x, childOfC ap tasks codes n fuel x ≠ .error .badByte := by
        intro x
        unfold childOfC
        split
        · exact ih _
        · split <;> simp
      cases hA : childOfC ap tasks codes n fuel a with
      | error e =>
        simp only
        intro h
        cases h
        exact hchild a hA
      | ok A =>
        simp only
        cases hB : childOfC ap tasks codes n fuel b with
        | error e =>
          simp only
          intro h
          cases h
          exact hchild b hB
        | ok B => exact mergeNodesC_ne_badByte _ _ _ _ _

theorem buildTasks2_ne_badByte (avx : Bool) (codes : Array (List Nat)) : buildTasks2 avx codes ≠ .error .badByte := by
  unfold buildTasks2
  simp only
  split
  · simp
  · split
    · simp
    · split <;> simp

theorem coreCB_soft2_ne_badByte (avx : Bool) (pm : Option (AlnParam α)) (c1 c2 : List (List Nat)) :
    coreCB (buildTasks2 avx) pm c1 c2 ≠ .error .badByte := by
  unfold coreCB
  simp only
  split
  · simp
  · split
    · rename_i e he
      intro h
      cases h
      exact buildTasks2_ne_badByte _ _ he
    · split
      · simp
      · split
        · rename_i e he
          intro h
          cases h
          exact recAlnC_ne_badByte _ _ _ _ _ _ he
        · split <;> simp

theorem stagesCB_soft2_ne_badByte (avx : Bool) (bio : Bio) (pm : Bio → Option (AlnParam α)) (V : List (Name × List Char)) :
    stagesCB (buildTasks2 avx) bio pm V ≠ .error .badByte := by
  unfold stagesCB
  split
  · simp
  · simp only
    split
    · rename_i e he
      intro h
      cases h
      exact coreCB_soft2_ne_badByte _ _ _ _ he
    · simp

/-- with no residue byte ≥ 128 in the input, `kalignRunWithCB` on the task-table builder of `kalignRunSoft2` never answers
`.badByte` -/
theorem kalignRunWithCB_soft2_ne_badByte (det : List Nat → Bio) (avx : Bool) (pm : Bio → Option (AlnParam α))
    (inp : List InSeq) (hb : hasBadByte inp = false) :
    kalignRunWithCB det (buildTasks2 avx) pm inp ≠ .error .badByte := by
  unfold kalignRunWithCB
  simp only [hb, Bool.false_eq_true, if_false]
  split
  · simp
  · split
    · rename_i e he
      intro h
      cases h
      exact stagesCB_soft2_ne_badByte _ _ _ _ he
    · simp

end

end Kalign.Pipeline

namespace Kalign.PipelineFile
open Kalign Kalign.IO Kalign.Pipeline List

/-! ## the frame `kalignFileWith` -/

/-- what the run stage guarantees about the rows it returns for the msa `m` (the conclusion of `runMsa_spec`): one row per
non-empty record, in input order, under its name; degapped it is the record's residues; all rows have one length; there are at
least two rows and the class is DNA or protein -/
def RunSpec (m : Msa) (rows : List (Name × GRow)) : Prop :=
  rows.map (fun x => (x.1, (degap x.2).map charByte)) = keptRecs m.seqs ∧
  (∃ L, ∀ x ∈ rows, x.2.length = L) ∧ 2 ≤ rows.length ∧ (m.biotype = 0 ∨ m.biotype = 1)

/-- **anatomy of a successful run of the frame** (`kalignFile_ok` for any run stage) -/
theorem kalignFileWith_ok {run : Msa → Except PipeErr (List (Name × GRow))} {ver base date : Bytes}
    {files : List (Option Bytes)} {fmt : Option String} {out : Bytes}
    (h : kalignFileWith run ver base date files fmt = .ok out) :
    ∃ m rows, ∃ t : Nat, readFiles files = .ok m ∧ run m = .ok rows ∧
      (t = 1 ∨ t = 2 ∨ t = 3) ∧ parseFormat (fmtBytes fmt) = some (t : Int) ∧
      (alignmentOf rows m.biotype base).InBounds ∧ out = writeAs ver date t (alignmentOf rows m.biotype base) := by
  unfold kalignFileWith at h
  split at h
  · cases h
  · cases h
  · cases h
  · rename_i m hm
    split at h
    · cases h
    · rename_i rows hrows
      rw [dealignStep_biotype] at h
      split at h
      · cases h
      · cases h
      · rename_i b hb
        simp only [Except.ok.injEq] at h
        subst h
        obtain ⟨t, ht, hp, hin, ho⟩ := writeMsa_ok _ _ _ _ _ hb
        exact ⟨m, rows, t, hm, hrows, ht, hp, hin, ho⟩

/-- **`runMsa_spec` for the run stage on the software binary32** -/
theorem runMsaSoft2_spec {m : Msa} {type : Int} {gpo gpe tgpe : SoftF32} {rows : List (Name × GRow)}
    (h : runMsaSoft2 m type gpo gpe tgpe = .ok rows) : RunSpec m rows := by
  unfold runMsaSoft2 at h
  simp only at h
  split at h
  · cases h
  · obtain ⟨h1, h2, hL⟩ := kalignRunWithCB_integrity _ _ _ _ _ h
    obtain ⟨hb, hk⟩ := kalignRunWithCB_ok_more h
    have hfilter : ((dealignStep m).seqs.map toInSeq).filter (fun x => decide (x.seq.length ≠ 0)) =
        ((dealignStep m).seqs.filter fun s => decide (s.res.length ≠ 0)).map toInSeq := by
      rw [filter_map]
      congr 1
      apply filter_congr
      intro s _
      simp [toInSeq]
    have hkept : keptRecs m.seqs = ((dealignStep m).seqs.filter fun s => decide (s.res.length ≠ 0)).map
        fun s => (s.name, s.res) := by
      unfold keptRecs
      rw [← dealignStep_names_res m]
      unfold namesRes
      rw [filter_map]
      congr 1
    refine ⟨?_, hL, ?_, ?_⟩
    · rw [hkept, ← zip_map', ← zip_map']
      congr 1
      · rw [h1, hfilter, map_map]; rfl
      · have : rows.map (fun x => (degap x.2).map charByte) = (rows.map fun x => degap x.2).map (·.map charByte) := by
          rw [map_map]; rfl
        rw [this, h2, hfilter, map_map, map_map]
        apply map_congr_left
        intro s _
        simp only [Function.comp, toInSeq]
        exact map_charByte_byteChar s.res
    · have : rows.length = (keptView ((dealignStep m).seqs.map toInSeq)).length := by
        have := congrArg length h1
        simpa [keptView] using this
      omega
    · simp only [bioOf, dealignStep_biotype] at hb
      match hm : m.biotype with
      | 0 => exact Or.inl rfl
      | 1 => exact Or.inr rfl
      | n + 2 => rw [hm] at hb; simp [bioOfCode] at hb

/-- `runMsa_spec` in the vocabulary of `RunSpec` -/
theorem runMsa_runSpec {m : Msa} {type : Int} {gpo gpe tgpe : Float32} {rows : List (Name × GRow)}
    (h : runMsa m type gpo gpe tgpe = .ok rows) : RunSpec m rows := runMsa_spec h

theorem row_mem_kept_of_spec {m : Msa} {rows : List (Name × GRow)} (h : RunSpec m rows) {x : Name × GRow} (hx : x ∈ rows) :
    (x.1, (degap x.2).map charByte) ∈ keptRecs m.seqs := by
  rw [← h.1]
  exact mem_map.mpr ⟨x, hx, rfl⟩

theorem alignmentOf_rows_length_of_spec {m : Msa} {rows : List (Name × GRow)} (h : RunSpec m rows) (bio : Nat) (base : Bytes) :
    ∀ r ∈ (alignmentOf rows bio base).rows, r.row.length = (alignmentOf rows bio base).alnlen := by
  obtain ⟨_, ⟨L, hL⟩, h2, _⟩ := h
  intro r hr
  simp only [alignmentOf, mem_map] at hr
  obtain ⟨x, hx, rfl⟩ := hr
  simp only [alignmentOf, length_renderB]
  match rows, h2, hL, hx with
  | y :: ys, _, hL', hx' =>
    simp only [head?_cons, Option.map_some, Option.getD_some]
    rw [hL' x hx', hL' y (by simp)]

end Kalign.PipelineFile
