import KalignModel.Lemmas.TreeSoftBound
/-!
# Value lemmas for the clade theorem on `SoftF32` (C12, slice AA)

Bounds in units of 2⁻¹⁴⁹ (`toInt`, `magVal`), on a grid `c · 2^t` with `c < 2²⁴` (every such number is a binary32 value, so rounding
a sum that is bounded by it stays bounded by it: round-to-nearest is monotone and exact on the grid).

* `AbsV x V`: `x` is finite and `|x| ≤ V` units (the fine-grained `absLe`).
* `add_AbsV`, `add_ge`: upper / lower bound of a sum; `mul_half_AbsV`, `mul_half_ge`: upper / lower bound of `x * 0.5F`
  (new: `roundFracU_ge`, `roundInt_mul_ge`, the lower-bound twins of `roundFracU_le`, `roundInt_mul_le`).
* `joinVal_AbsV`: `|x|, |y| ≤ c·2⁻²⁰` ⟹ `|(x + y) * 0.5F + 0.001F| ≤ (c + 1049)·2⁻²⁰` (`0.001F ≤ 1049·2⁻²⁰`, `c + 1049 < 2²³`).
* `joinVal_ge`: `x, y ≥ c·2⁻²⁰` ⟹ `(x + y) * 0.5F + 0.001F ≥ c·2⁻²⁰` (`0 < c < 2²³`).
-/
set_option exponentiation.threshold 512
namespace Kalign
namespace SoftF32

/-- `x` is finite and `|x| ≤ V` (units of 2⁻¹⁴⁹) -/
def AbsV (x : SoftF32) (V : Nat) : Prop := x.mag < 2139095040 ∧ magVal x.mag ≤ V

theorem AbsV.finite {x : SoftF32} {V : Nat} (h : AbsV x V) : x.isFinite = true := (isFinite_iff x).2 h.1

theorem AbsV.mono {x : SoftF32} {V V' : Nat} (h : AbsV x V) (hV : V ≤ V') : AbsV x V' := ⟨h.1, Nat.le_trans h.2 hV⟩

theorem AbsV.toInt_le {x : SoftF32} {V : Nat} (h : AbsV x V) : toInt x ≤ (V : Int) := by
  have h1 := natAbs_toInt x
  have h2 := h.2
  omega

theorem AbsV_of_absLe {x : SoftF32} {N : Nat} (h : absLe x N) : AbsV x (N * 2 ^ 149) := h

theorem grid_lt_inf {c t : Nat} (hc : c < 16777216) (ht : t ≤ 253) : c * 2 ^ t < 2 ^ 277 := by
  have h1 : c * 2 ^ t < 16777216 * 2 ^ t := Nat.mul_lt_mul_of_pos_right hc (Nat.pow_pos (by decide))
  have h2 : (2 : Nat) ^ t ≤ 2 ^ 253 := Nat.pow_le_pow_right (by decide) ht
  have h3 : (16777216 : Nat) * 2 ^ 253 = 2 ^ 277 := by decide
  have h4 : (16777216 : Nat) * 2 ^ t ≤ 16777216 * 2 ^ 253 := Nat.mul_le_mul_left _ h2
  omega

/-- the pattern of the grid value `c · 2^t` -/
theorem grid_pattern {c t : Nat} (hc : c < 16777216) (ht : t ≤ 253) :
    roundNatU c t < 2139095040 ∧ magVal (roundNatU c t) = c * 2 ^ t := by
  have hmv : magVal (roundNatU c t) = c * 2 ^ t := magVal_roundNatU_small hc
  refine ⟨?_, hmv⟩
  rw [← magVal_lt_iff, hmv, magVal_infMag]
  exact grid_lt_inf hc ht

theorem packZ_AbsV {s0 : Bool} {z : Int} {c t : Nat} (hc : c < 16777216) (ht : t ≤ 253)
    (hz : z.natAbs ≤ c * 2 ^ t) : AbsV (packZ s0 z) (c * 2 ^ t) := by
  unfold AbsV
  rw [mag_packZ]
  by_cases h0 : z = 0
  · simp [h0]
  rw [if_neg h0]
  have h1 := rnd_le_small hc hz
  have hlt : c * 2 ^ t < 2 ^ 277 := grid_lt_inf hc ht
  have hfin : rnd z.natAbs < 2139095040 := by
    rw [← magVal_lt_iff, magVal_infMag]; omega
  have : min (rnd z.natAbs) infMag = rnd z.natAbs := Nat.min_eq_left (by simp only [infMag]; omega)
  rw [this]
  exact ⟨hfin, h1⟩

/-- upper bound of a sum on the grid -/
theorem add_AbsV {a b : SoftF32} {A B c t : Nat} (ha : AbsV a A) (hb : AbsV b B)
    (hAB : A + B ≤ c * 2 ^ t) (hc : c < 16777216) (ht : t ≤ 253) : AbsV (add a b) (c * 2 ^ t) := by
  rw [add_of_finite ha.finite hb.finite, addFinite_eq]
  apply packZ_AbsV hc ht
  have h1 := natAbs_toInt a
  have h2 := natAbs_toInt b
  have h3 := ha.2
  have h4 := hb.2
  omega

/-- lower bound of a sum on the grid -/
theorem add_ge {a b : SoftF32} {c t : Nat} (ha : a.isFinite = true) (hb : b.isFinite = true) (hc : c < 16777216) (ht : t ≤ 253)
    (h : ((c * 2 ^ t : Nat) : Int) ≤ toInt a + toInt b) : ((c * 2 ^ t : Nat) : Int) ≤ toInt (add a b) := by
  obtain ⟨_, hg⟩ := toInt_packZ_grid (s0 := false) (z := ((c * 2 ^ t : Nat) : Int)) (c := c) (t := t) (Int.natAbs_natCast (c * 2 ^ t)) hc ht
  have hk : (packZ false ((c * 2 ^ t : Nat) : Int)).key ≤ (add a b).key := by
    rw [key_packZ, key_add ha hb]
    exact rndKey_mono h
  have := (key_le_iff _ _).1 hk
  rwa [hg] at this

/-! ## multiplication by `0.5F` -/

/-- lower bound for the fraction branch: if `magVal G ≤ m / 2^d` then the rounded pattern is at least `G` -/
theorem roundFracU_ge {m d G : Nat} (h : 2 ^ d * magVal G ≤ m) : G ≤ roundFracU m d := by
  have hD : 0 < 2 ^ d := Nat.pow_pos (by decide)
  by_cases hm : m = 0
  · subst hm
    have h0 : magVal G = 0 := by
      rcases Nat.eq_zero_or_pos (magVal G) with h0 | h0
      · exact h0
      · have := Nat.mul_pos hD h0; omega
    have := magVal_eq_zero.1 h0
    omega
  obtain ⟨E, q, hE, hq, _, hhi, hres⟩ := roundFracU_floor (d := d) hm
  have hv1 : magVal (E * 8388608 + (q + 1)) = (q + 1) * 2 ^ E := magVal_enc E (q + 1) (by omega) (by omega)
  have hlt : 2 ^ d * magVal G < 2 ^ d * magVal (E * 8388608 + (q + 1)) := by
    rw [hv1]
    have e : 2 ^ d * ((q + 1) * 2 ^ E) = (q + 1) * (2 ^ E * 2 ^ d) := by
      generalize (2 : Nat) ^ d = X
      generalize (2 : Nat) ^ E = Y
      ac_rfl
    rw [e]
    omega
  have h2 := magVal_lt_iff.1 (Nat.lt_of_mul_lt_mul_left hlt)
  rcases hres with hr | ⟨hr, _⟩ <;> omega

/-- the rounded product is at least every (finite or infinite) grid pattern below the exact product -/
theorem roundInt_mul_ge {sa sb ea eb G : Nat} (hG : G ≤ infMag) (h : magVal G * 2 ^ 149 ≤ sa * sb * 2 ^ (ea + eb)) :
    G ≤ roundInt (sa * sb) ((ea : Int) + eb - 149) := by
  unfold roundInt
  by_cases hpos : (0 : Int) ≤ (ea : Int) + eb - 149
  · rw [if_pos hpos]
    have e1 : ((ea : Int) + eb - 149).toNat = ea + eb - 149 := by omega
    rw [e1]
    have hsplit : 2 ^ (ea + eb) = 2 ^ (ea + eb - 149) * 2 ^ 149 := by
      have e : ea + eb - 149 + 149 = ea + eb := by omega
      rw [← Nat.pow_add, e]
    rw [hsplit, ← Nat.mul_assoc] at h
    have h' : magVal G * 2 ^ 0 ≤ sa * sb * 2 ^ (ea + eb - 149) := by
      rw [Nat.pow_zero, Nat.mul_one]
      exact Nat.le_of_mul_le_mul_right h (Nat.pow_pos (by decide))
    have h1 : roundNatU (magVal G) 0 ≤ roundNatU (sa * sb) (ea + eb - 149) := roundNatU_mono h'
    have h2 : roundNatU (magVal G) 0 = G := roundNatU_exact (by simp)
    unfold roundNat
    omega
  · rw [if_neg hpos]
    have e1 : (-((ea : Int) + eb - 149)).toNat = 149 - (ea + eb) := by omega
    rw [e1]
    have hsplit : 2 ^ 149 = 2 ^ (149 - (ea + eb)) * 2 ^ (ea + eb) := by
      have e : 149 - (ea + eb) + (ea + eb) = 149 := by omega
      rw [← Nat.pow_add, e]
    rw [hsplit, ← Nat.mul_assoc] at h
    have h' : 2 ^ (149 - (ea + eb)) * magVal G ≤ sa * sb := by
      rw [Nat.mul_comm (2 ^ (149 - (ea + eb)))]
      exact Nat.le_of_mul_le_mul_right h (Nat.pow_pos (by decide))
    have h1 := roundFracU_ge h'
    unfold roundFrac
    omega

theorem roundInt_le_inf (m : Nat) (e : Int) : roundInt m e ≤ infMag := by
  unfold roundInt roundNat roundFrac
  split <;> exact Nat.min_le_right _ _

/-! ## order laws (local copies of the three-line laws of Props/SoftFloat.lean, to keep the Lemmas layer below Props) -/

theorem lt_transL {a b c : SoftF32} (h1 : lt a b = true) (h2 : lt b c = true) : lt a c = true := by
  simp only [lt, Bool.and_eq_true, Bool.not_eq_true', decide_eq_true_eq] at *
  exact ⟨⟨h1.1.1, h2.1.2⟩, by omega⟩

theorem lt_irreflL (a : SoftF32) : lt a a = false := by simp [lt]

theorem lt_iff_toIntL {a b : SoftF32} (ha : a.isNaN = false) (hb : b.isNaN = false) :
    lt a b = true ↔ toInt a < toInt b := by
  simp only [lt, ha, hb, Bool.not_false, Bool.true_and, decide_eq_true_eq]
  exact key_lt_iff a b

end SoftF32
open SoftF32

theorem half_prod (a : SoftF32) : a.sig * sHalf.sig * 2 ^ (a.ex + sHalf.ex) = magVal a.mag * 2 ^ 148 := by
  have hs : sHalf.sig * 2 ^ sHalf.ex = 2 ^ 148 := by decide
  rw [← sig_mul_ex a, ← hs, Nat.pow_add]
  generalize (2 : Nat) ^ a.ex = X
  generalize (2 : Nat) ^ sHalf.ex = Y
  ac_rfl

/-- **halving, upper bound**: `|a| ≤ 2·c·2^t` ⟹ `|a · 0.5F| ≤ c·2^t` (units of 2⁻¹⁴⁹) -/
theorem mul_half_AbsV {a : SoftF32} {c t : Nat} (ha : AbsV a (2 * (c * 2 ^ t))) (hc : c < 16777216) (ht : t ≤ 253) :
    AbsV (SoftF32.mul a sHalf) (c * 2 ^ t) := by
  rw [mul_of_finite ha.finite sHalf_finite]
  obtain ⟨hG1, hG2⟩ := grid_pattern hc ht
  generalize roundNatU c t = G at hG1 hG2
  have hprod : a.sig * sHalf.sig * 2 ^ (a.ex + sHalf.ex) ≤ magVal G * 2 ^ 149 := by
    rw [half_prod, hG2]
    have h1 : magVal a.mag * 2 ^ 148 ≤ 2 * (c * 2 ^ t) * 2 ^ 148 := Nat.mul_le_mul_right _ ha.2
    have e2 : 2 * (c * 2 ^ t) * 2 ^ 148 = c * 2 ^ t * 2 ^ 149 := by
      have : (2 : Nat) ^ 149 = 2 * 2 ^ 148 := by decide
      rw [this]
      generalize (2 : Nat) ^ 148 = P
      generalize c * 2 ^ t = Q
      ac_rfl
    rw [e2] at h1
    exact h1
  have hle := roundInt_mul_le hprod
  generalize roundInt (a.sig * sHalf.sig) ((a.ex : Int) + sHalf.ex - 149) = r at hle
  unfold AbsV
  rw [mag_pack _ _ (by omega)]
  refine ⟨by omega, ?_⟩
  rw [← hG2]
  exact magVal_mono hle

/-- **halving, lower bound**: `a ≥ 2·c·2^t > 0` ⟹ `a · 0.5F ≥ c·2^t` -/
theorem mul_half_ge {a : SoftF32} {c t : Nat} (ha : a.isFinite = true) (hc : c < 16777216) (ht : t ≤ 253) (hpos : 0 < c)
    (h : ((2 * (c * 2 ^ t) : Nat) : Int) ≤ toInt a) : ((c * 2 ^ t : Nat) : Int) ≤ toInt (SoftF32.mul a sHalf) := by
  have hP : 0 < c * 2 ^ t := Nat.mul_pos hpos (Nat.pow_pos (by decide))
  have hsign : a.sign = false := by
    cases hs : a.sign
    · rfl
    · exfalso
      unfold toInt at h
      rw [hs] at h
      simp only [if_true] at h
      omega
  have hval : toInt a = (magVal a.mag : Int) := toInt_of_pos hsign
  rw [mul_of_finite ha sHalf_finite]
  obtain ⟨hG1, hG2⟩ := grid_pattern hc ht
  generalize roundNatU c t = G at hG1 hG2
  have hprod : magVal G * 2 ^ 149 ≤ a.sig * sHalf.sig * 2 ^ (a.ex + sHalf.ex) := by
    rw [half_prod, hG2]
    have h0 : 2 * (c * 2 ^ t) ≤ magVal a.mag := by omega
    have h1 : 2 * (c * 2 ^ t) * 2 ^ 148 ≤ magVal a.mag * 2 ^ 148 := Nat.mul_le_mul_right _ h0
    have e2 : 2 * (c * 2 ^ t) * 2 ^ 148 = c * 2 ^ t * 2 ^ 149 := by
      have : (2 : Nat) ^ 149 = 2 * 2 ^ 148 := by decide
      rw [this]
      generalize (2 : Nat) ^ 148 = P
      generalize c * 2 ^ t = Q
      ac_rfl
    rw [e2] at h1
    exact h1
  have hge := roundInt_mul_ge (by simp only [infMag]; omega) hprod
  have hinf := roundInt_le_inf (a.sig * sHalf.sig) ((a.ex : Int) + sHalf.ex - 149)
  generalize roundInt (a.sig * sHalf.sig) ((a.ex : Int) + sHalf.ex - 149) = r at hge hinf
  have hs2 : (a.sign != sHalf.sign) = false := by rw [hsign]; decide
  rw [hs2]
  have hr : r < 2147483648 := by simp only [infMag] at hinf; omega
  have : toInt (pack false r) = (magVal r : Int) := by
    rw [toInt_of_pos (sign_pack _ _ hr), mag_pack _ _ hr]
  rw [this, ← hG2]
  have := magVal_mono hge
  omega

/-! ## the join `(x + y) * 0.5F + 0.001F` on the grid 2⁻²⁰ (= 2¹²⁹ units) -/

theorem sMilli_AbsV : AbsV sMilli (1049 * 2 ^ 129) := by unfold AbsV; decide
theorem sMilli_nonneg : (0 : Int) ≤ toInt sMilli := by decide

/-- `|x|, |y| ≤ c·2⁻²⁰` ⟹ `|(x + y) * 0.5F + 0.001F| ≤ (c + 1049)·2⁻²⁰` -/
theorem joinVal_AbsV {x y : SoftF32} {c : Nat} (hc : c + 1049 < 8388608) (hx : AbsV x (c * 2 ^ 129)) (hy : AbsV y (c * 2 ^ 129)) :
    AbsV (joinVal x y) ((c + 1049) * 2 ^ 129) := by
  unfold joinVal
  have h1 : AbsV (SoftF32.add x y) ((2 * c) * 2 ^ 129) :=
    add_AbsV hx hy (by rw [Nat.mul_assoc, Nat.two_mul]; exact Nat.le_refl _) (by omega) (by decide)
  have h1' : AbsV (SoftF32.add x y) (2 * (c * 2 ^ 129)) := by rwa [Nat.mul_assoc] at h1
  have h2 := mul_half_AbsV h1' (by omega) (by decide)
  exact add_AbsV h2 sMilli_AbsV (by generalize (2 : Nat) ^ 129 = P; rw [Nat.add_mul]; omega) (by omega) (by decide)

/-- `x, y ≥ c·2⁻²⁰` ⟹ `(x + y) * 0.5F + 0.001F ≥ c·2⁻²⁰` (the operands bounded as in `joinVal_absLe`, for finiteness) -/
theorem joinVal_ge {x y : SoftF32} {k c : Nat} (hk : k + 1 < 8388608) (hx : absLe x (upgBnd k)) (hy : absLe y (upgBnd k))
    (hc0 : 0 < c) (hc : c < 8388608) (hxl : ((c * 2 ^ 129 : Nat) : Int) ≤ toInt x) (hyl : ((c * 2 ^ 129 : Nat) : Int) ≤ toInt y) :
    ((c * 2 ^ 129 : Nat) : Int) ≤ toInt (joinVal x y) := by
  unfold joinVal
  have h1 : absLe (SoftF32.add x y) (upgBnd k + upgBnd k) :=
    add_absLe (c := 8388608 + k) (t := 11) hx hy (by unfold upgBnd; omega) (by omega) (by decide)
  have h1' : absLe (SoftF32.add x y) (2 * ((8388608 + k) * 2 ^ 10)) := by
    have e : upgBnd k + upgBnd k = 2 * ((8388608 + k) * 2 ^ 10) := by unfold upgBnd; omega
    rwa [e] at h1
  have h2 := mul_half_absLe (c := 8388608 + k) (t := 10) h1' (by omega) (by decide)
  have g1 : (((2 * c) * 2 ^ 129 : Nat) : Int) ≤ toInt (SoftF32.add x y) := by
    apply add_ge hx.finite hy.finite (by omega) (by decide)
    have e : (2 * c) * 2 ^ 129 = c * 2 ^ 129 + c * 2 ^ 129 := by rw [Nat.mul_assoc, Nat.two_mul]
    rw [e]
    generalize c * 2 ^ 129 = Q at hxl hyl ⊢
    omega
  have g1' : ((2 * (c * 2 ^ 129) : Nat) : Int) ≤ toInt (SoftF32.add x y) := by rwa [Nat.mul_assoc] at g1
  have g2 := mul_half_ge h1.finite (by omega) (by decide) hc0 g1'
  apply add_ge h2.finite sMilli_AbsV.finite (by omega) (by decide)
  have := sMilli_nonneg
  generalize c * 2 ^ 129 = Q at g2 ⊢
  omega

end Kalign
