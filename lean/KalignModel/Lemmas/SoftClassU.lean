import KalignModel.Lemmas.SoftClass
/-!
# Value classes of the DP scores on the software binary32, with the unit `2^u` as a parameter

The theory of `SoftClass.lean` (fixed unit 2²⁰) with the unit exponent `u ≤ 79` as a parameter: `ClsU u B x p` says that `x` is
bounded by `B` units of `2^u` (`p = true`) or sentinel-like (`p = false`).  With `B < 2²⁴` the bound `B·2^u` stays below `2¹⁰³`,
which is what the sentinel absorption (`negMax_add`) and the exactness of the bounded sums (`add_absLe`) need.
-/
set_option exponentiation.threshold 512
namespace Kalign.SoftF32

/-- class of a score with unit `2^u`: bounded by `B·2^u` (`p = true`) or sentinel-like (`p = false`) -/
def ClsU (u B : Nat) (x : SoftF32) (p : Bool) : Prop := if p then absLe x (B * 2 ^ u) else Sent x

@[simp] theorem clsU_true (u B : Nat) (x : SoftF32) : ClsU u B x true ↔ absLe x (B * 2 ^ u) := by simp [ClsU]
@[simp] theorem clsU_false (u B : Nat) (x : SoftF32) : ClsU u B x false ↔ Sent x := by simp [ClsU]

theorem ClsU.mono {u B B' : Nat} {x : SoftF32} {p : Bool} (h : ClsU u B x p) (hB : B ≤ B') : ClsU u B' x p := by
  cases p
  · simpa using h
  · simp only [clsU_true] at h ⊢
    exact h.mono (Nat.mul_le_mul_right _ hB)

theorem clsU_negInf (u B : Nat) : ClsU u B (Score.negInf : SoftF32) false := by
  simp only [clsU_false]; exact Or.inl rfl

theorem clsU_zero (u B : Nat) : ClsU u B (Score.zero : SoftF32) true := by
  simp only [clsU_true]
  show absLe zero _
  refine ⟨by decide, ?_⟩
  have : magVal zero.mag = 0 := by decide
  omega

/-- the class of the fixed unit 2²⁰ is the instance `u = 20` -/
theorem clsU_20 (B : Nat) (x : SoftF32) (p : Bool) : ClsU 20 B x p ↔ Cls B x p := by
  cases p <;> simp

theorem unitU_lt {u B : Nat} (hu : u ≤ 79) (hB : B < 16777216) : B * 2 ^ u < 2 ^ 103 := by
  have hpos : 0 < 2 ^ u := Nat.pow_pos (by decide)
  have h1 : B * 2 ^ u < 16777216 * 2 ^ u := Nat.mul_lt_mul_of_pos_right hB hpos
  have h2 : (2 : Nat) ^ u ≤ 2 ^ 79 := Nat.pow_le_pow_right (by decide) hu
  have h3 : 16777216 * 2 ^ u ≤ 16777216 * 2 ^ 79 := Nat.mul_le_mul_left _ h2
  have h4 : (16777216 : Nat) * 2 ^ 79 = 2 ^ 103 := by
    rw [show (16777216 : Nat) = 2 ^ 24 by decide, ← Nat.pow_add]
  omega

theorem unitU_lt127 {u B : Nat} (hu : u ≤ 79) (hB : B < 16777216) : B * 2 ^ u < 2 ^ 127 := by
  have := unitU_lt hu hB
  have : (2 : Nat) ^ 103 < 2 ^ 127 := Nat.pow_lt_pow_right (by decide) (by decide)
  omega

theorem sent_add_finU {u : Nat} (hu : u ≤ 79) {x y : SoftF32} {B : Nat} (hx : Sent x) (hy : absLe y (B * 2 ^ u))
    (hB : B < 16777216) : Sent (add x y) := by
  rcases hx with rfl | rfl
  · left
    apply negMax_add hy.finite
    have := hy.2
    have : B * 2 ^ u * 2 ^ 149 < 2 ^ 103 * 2 ^ 149 := Nat.mul_lt_mul_of_pos_right (unitU_lt hu hB) (by decide)
    omega
  · right; exact negInfty_add hy.finite

theorem fin_add_sentU {u : Nat} (hu : u ≤ 79) {x y : SoftF32} {B : Nat} (hx : absLe x (B * 2 ^ u)) (hy : Sent y)
    (hB : B < 16777216) : Sent (add x y) := by
  rw [add_comm' (isNaN_of_finite hx.finite) (sent_not_nan hy)]
  exact sent_add_finU hu hy hx hB

theorem fin_add_finU {u : Nat} (hu : u ≤ 79) {x y : SoftF32} {B B' : Nat} (hx : absLe x (B * 2 ^ u))
    (hy : absLe y (B' * 2 ^ u)) (hB : B + B' < 16777216) : absLe (add x y) ((B + B') * 2 ^ u) := by
  have := add_absLe (c := B + B') (t := u) hx hy (by rw [Nat.add_mul]) hB (by omega)
  rwa [← Nat.add_mul] at this

/-- **addition respects the classes** -/
theorem clsU_add {u : Nat} (hu : u ≤ 79) {x y : SoftF32} {B B' : Nat} {p q : Bool} (hx : ClsU u B x p) (hy : ClsU u B' y q)
    (hB : B + B' < 16777216) : ClsU u (B + B') (Score.add x y) (p && q) := by
  show ClsU u (B + B') (add x y) (p && q)
  cases p <;> cases q
  · simp only [clsU_false, Bool.and_self] at *; exact sent_add_sent hx hy
  · simp only [clsU_false, clsU_true, Bool.and_true] at *
    exact sent_add_finU hu hx hy (by omega)
  · simp only [clsU_false, clsU_true, Bool.and_false] at *
    exact fin_add_sentU hu hx hy (by omega)
  · simp only [clsU_true, Bool.and_self] at *
    exact fin_add_finU hu hx hy hB

/-- subtraction of a bounded value (a penalty, the tie-break term) respects the classes -/
theorem clsU_sub_pen {u : Nat} (hu : u ≤ 79) {x y : SoftF32} {B B' : Nat} {p : Bool} (hx : ClsU u B x p)
    (hy : absLe y (B' * 2 ^ u)) (hB : B + B' < 16777216) : ClsU u (B + B') (Score.sub x y) p := by
  show ClsU u (B + B') (sub x y) p
  have hxn : x.isNaN = false := by
    cases p
    · exact sent_not_nan (by simpa using hx)
    · exact isNaN_of_finite (absLe.finite (by simpa using hx))
  rw [sub_of_not_nan hxn (isNaN_of_finite hy.finite)]
  have := clsU_add hu hx (show ClsU u B' (neg y) true by simpa using neg_absLe hy) hB
  rw [Bool.and_true] at this
  exact this

/-- **`MAX` respects the classes**: bounded as soon as one argument is -/
theorem clsU_smax {u : Nat} (hu : u ≤ 79) {x y : SoftF32} {B : Nat} {p q : Bool} (hx : ClsU u B x p) (hy : ClsU u B y q)
    (hB : B < 16777216) : ClsU u B (smax x y) (p || q) := by
  unfold smax
  show ClsU u B (if gt x y = true then x else y) (p || q)
  cases p <;> cases q
  · simp only [Bool.or_self]
    split
    · exact hx
    · exact hy
  · simp only [clsU_false, clsU_true, Bool.false_or] at *
    rw [gt_sent_fin hx hy (unitU_lt127 hu hB)]
    simpa using hy
  · simp only [clsU_false, clsU_true, Bool.or_false] at *
    rw [gt_fin_sent hx (unitU_lt127 hu hB) hy]
    simpa using hx
  · simp only [Bool.or_self]
    split
    · exact hx
    · exact hy

theorem clsU_smax3 {u : Nat} (hu : u ≤ 79) {x y z : SoftF32} {B : Nat} {p q r : Bool} (hx : ClsU u B x p) (hy : ClsU u B y q)
    (hz : ClsU u B z r) (hB : B < 16777216) : ClsU u B (smax3 x y z) (p || q || r) :=
  clsU_smax hu (clsU_smax hu hx hy hB) hz hB

end Kalign.SoftF32
