import KalignModel.Lemmas.ScaleST
import KalignModel.Lemmas.ProfBuild2
/-!
# The operand swap of `do_align`: `mirror_path_n` and the reference score under exchange of the two sides
-/
namespace Kalign

theorem map_swap_swap (cs : List Col) : (cs.map Col.swap).map Col.swap = cs := by
  induction cs with
  | nil => rfl
  | cons c cs ih => cases c <;> simp [Col.swap, ih]

theorem consA_swap (cs : List Col) : consA (cs.map Col.swap) = consB cs := (consB_eq_swap cs).symm
theorem consB_swap (cs : List Col) : consB (cs.map Col.swap) = consA cs := by
  have := consB_eq_swap (cs.map Col.swap)
  rw [map_swap_swap] at this
  exact this

theorem take_succ_set {α : Type} (o : List α) (j : Nat) (v : α) (h : j < o.length) :
    (o.set j v).take (j + 1) = o.take j ++ [v] := by
  induction o generalizing j with
  | nil => simp at h
  | cons x o ih =>
    cases j with
    | zero => simp
    | succ j => simp only [List.set_cons_succ, List.take_succ_cons, List.cons_append]; rw [ih j (by simpa using h)]

theorem drop_set_lt {α : Type} (o : List α) (j n : Nat) (v : α) (h : j < n) : (o.set j v).drop n = o.drop n := by
  induction o generalizing j n with
  | nil => simp
  | cons x o ih =>
    cases n with
    | zero => omega
    | succ n =>
      cases j with
      | zero => simp
      | succ j => simp only [List.set_cons_succ, List.drop_succ_cons]; exact ih j n (by omega)

theorem take_succ_of_get {α : Type} (o : List α) (j : Nat) (x : α) (h : o[j]? = some x) :
    o.take (j + 1) = o.take j ++ [x] := by
  induction o generalizing j with
  | nil => simp at h
  | cons y o ih =>
    cases j with
    | zero => simp at h; simp [h]
    | succ j => simp only [List.take_succ_cons, List.cons_append]; rw [ih j (by simpa using h)]

def mirrorUpd (o : List Int) (ip : Nat × Int) : List Int :=
  if ip.2 ≤ 0 then o else o.set (ip.2.toNat - 1) (ip.1 + 1 : Nat)

theorem mirror_fold (P : List Col) :
    ∀ (i0 j0 : Nat) (o : List Int), j0 + consB P ≤ o.length →
      (∀ t, j0 ≤ t → t < j0 + consB P → o[t]? = some (-1)) →
      (((pathFrom j0 P).zipIdx i0).map fun (p, i) => (i, p)).foldl mirrorUpd o =
        o.take j0 ++ pathFrom i0 (P.map Col.swap) ++ o.drop (j0 + consB P) := by
  induction P with
  | nil => intro i0 j0 o _ _; simp [pathFrom]
  | cons c cs ih =>
    intro i0 j0 o hlen hneg
    cases c with
    | skip =>
      simp only [consB_skip] at hlen hneg
      simp only [pathFrom, List.map_cons, Col.swap, consB_skip]
      exact ih i0 j0 o hlen hneg
    | both =>
      simp only [consB_both] at hlen hneg
      simp only [pathFrom, List.map_cons, Col.swap, consB_both, List.zipIdx_cons, List.foldl_cons]
      have hupd : mirrorUpd o (i0, ((j0 + 1 : Nat) : Int)) = o.set j0 ((i0 + 1 : Nat) : Int) := by
        unfold mirrorUpd
        have : ¬ (((j0 + 1 : Nat) : Int) ≤ 0) := by omega
        rw [if_neg this]
        congr 1
      rw [hupd, ih (i0 + 1) (j0 + 1) (o.set j0 ((i0 + 1 : Nat) : Int)) (by simp; omega) (fun t h1 h2 => by
        rw [List.getElem?_set_ne (by omega)]; exact hneg t (by omega) (by omega))]
      rw [take_succ_set o j0 _ (by omega), drop_set_lt o j0 _ _ (by omega),
        show j0 + 1 + consB cs = j0 + (consB cs + 1) by omega]
      simp
    | gapA =>
      simp only [consB_gapA] at hlen hneg
      simp only [pathFrom, List.map_cons, Col.swap, consB_gapA]
      rw [ih i0 (j0 + 1) o (by omega) (fun t h1 h2 => hneg t (by omega) (by omega)),
        take_succ_of_get o j0 (-1) (hneg j0 (Nat.le_refl _) (by omega)),
        show j0 + 1 + consB cs = j0 + (consB cs + 1) by omega]
      simp
    | gapB =>
      simp only [consB_gapB] at hlen hneg
      simp only [pathFrom, List.map_cons, Col.swap, consB_gapB, List.zipIdx_cons, List.foldl_cons]
      have hupd : mirrorUpd o (i0, (-1 : Int)) = o := by unfold mirrorUpd; simp
      rw [hupd, ih (i0 + 1) j0 o hlen hneg]

/-- **`mirror_path_n` turns the path of a column list into the path of the column list with the two sides exchanged** -/
theorem mirrorPath_pathFrom (P : List Col) (lenA : Nat) (hB : consB P = lenA) :
    mirrorPath lenA (pathFrom 0 P) = pathFrom 0 (P.map Col.swap) := by
  unfold mirrorPath
  have := mirror_fold P 0 0 (List.replicate lenA (-1)) (by simp [hB]) (fun t _ h2 => by
    rw [List.getElem?_replicate, if_pos (by omega)])
  show List.foldl mirrorUpd (List.replicate lenA (-1)) _ = _
  rw [this, hB]
  simp

/-! ## the reference score with the two sides exchanged -/

def STW.swap (w : STW) : STW := ⟨w.lenB, w.lenA, w.gpo, w.gpe, w.tgpe, fun i j => w.sc j i⟩

def Kind.swap : Kind → Kind
  | .A => .A | .GA => .GB | .GB => .GA

theorem STW.walk_swap (w : STW) (cs : List Col) (i j : Nat) (st : Kind) :
    w.swap.walk j i st.swap (cs.map Col.swap) = w.walk i j st cs := by
  induction cs generalizing i j st with
  | nil => rfl
  | cons c cs ih =>
    have hT : ∀ g, w.swap.termK (Kind.swap g) j i = w.termK g i j := fun g => by cases g <;> rfl
    have hE : ∀ u v, w.swap.stE (Kind.swap u) (Kind.swap v) j i = w.stE u v i j := by
      intro u v
      cases u <;> cases v <;> simp only [STW.stE, Kind.swap] <;>
        first
          | rfl
          | (rw [show w.swap.termK .GB j i = w.termK .GA i j from rfl]; rfl)
          | (rw [show w.swap.termK .GA j i = w.termK .GB i j from rfl]; rfl)
    have hK : colKind st.swap c.swap = (colKind st c).swap := by cases c <;> rfl
    simp only [List.map_cons, STW.walk, hK, hE]
    have hcol : w.swap.stCol c.swap j i = w.stCol c i j := by
      cases c <;> simp only [STW.stCol, Col.swap]
      · rfl
      · rw [show w.swap.termK .GB j i = w.termK .GA i j from rfl]; rfl
      · rw [show w.swap.termK .GA j i = w.termK .GB i j from rfl]; rfl
    have hp : stepP j c.swap = stepK j c := by cases c <;> rfl
    have hk : stepK i c.swap = stepP i c := by cases c <;> rfl
    rw [hcol, hp, hk, ih]

/-- symmetric matrix: the score of the exchanged column list on the exchanged sequences is the same -/
theorem scoreST_swap (sub : Nat → Nat → Int) (hsym : ∀ x y, sub x y = sub y x) (gpo gpe tgpe : Int) (cs : List Col)
    (a b : List Nat) : scoreST sub gpo gpe tgpe (cs.map Col.swap) b a = scoreST sub gpo gpe tgpe cs a b := by
  unfold scoreST
  have := STW.walk_swap ⟨a.length, b.length, gpo, gpe, tgpe, fun i j => sub (a.getD i 0) (b.getD j 0)⟩ cs 0 0 .A
  rw [← this]
  unfold STW.swap
  simp only [Kind.swap]
  congr 2
  funext i j
  exact hsym _ _

theorem adjOK_swap (st : Kind) (cs : List Col) : adjOK st.swap (cs.map Col.swap) = adjOK st cs := by
  induction cs generalizing st with
  | nil => rfl
  | cons c cs ih =>
    have hK : colKind st.swap c.swap = (colKind st c).swap := by cases c <;> rfl
    simp only [List.map_cons, adjOK, hK, ih]
    congr 1
    cases c <;> cases st <;> rfl

theorem nterm_swap (cs : List Col) : nterm (cs.map Col.swap) = nterm cs := by
  unfold nterm
  rw [List.head?_map, List.getLast?_map]
  congr 1
  · cases cs.head? with
    | none => rfl
    | some c => cases c <;> rfl
  · cases cs.getLast? with
    | none => rfl
    | some c => cases c <;> rfl

theorem validCols_swap (cs : List Col) (la lb : Nat) (h : ValidCols cs la lb) : ValidCols (cs.map Col.swap) lb la := by
  refine ⟨?_, by rw [consA_swap]; exact h.2.2, by rw [consB_swap]; exact h.2.1⟩
  intro hm
  obtain ⟨c, hc, hcs⟩ := List.mem_map.mp hm
  cases c <;> simp [Col.swap] at hcs
  exact h.1 hc

end Kalign
