import KalignModel.Lemmas.TreeSoftUpgma
import KalignModel.Lemmas.TreeSoftLen
import KalignModel.Lemmas.NoFaultTree
/-!
# The values in `upgmaS` stay bounded: `upgmaS` always finds a pair (no hypothesis about values)

* `distEntryS_absLe`: a distance entry is `(float)(uint32_t)dist + add` with `0 ≤ add ≤ 1`: finite, at most `2³² + 2¹⁰`.
* `mul_half_absLe`: `x · 0.5F` halves a bound (`|x| ≤ 2N` with `N = c·2^t` representable ⟹ `|x · 0.5F| ≤ N`).
* `joinVal_absLe`: `(x + y) * 0.5F + 0.001F` of two values bounded by `M k = (2²³ + k)·2¹⁰` is bounded by `M (k+1)`.
* `upgmaRoundS_bnd`: one round takes a matrix bounded by `M k` to a matrix bounded by `M (k+1)` (the row update reads only entries not
  yet written in this round: two-tier invariant of `rowFold_inv`).
* `upgmaS_some`: for at most 2²² samples and an initial matrix bounded by 2³³, every round finds an active pair below `FLT_MAX`
  and `upgmaS` returns a tree over exactly the samples.
* `smallTreeS_some`, `smallTreeS_leaves_perm`: the `< 100` branch on `SoftF32` never faults on codes below 13 and returns a tree whose
  leaf list is a permutation of the samples.
-/
set_option exponentiation.threshold 512
namespace Kalign
open SoftF32

/-! ## value lemmas -/

theorem sHalf_finite : sHalf.isFinite = true := by decide
theorem sMilli_absLe : absLe sMilli (2 ^ 10) := by unfold absLe; decide
theorem zero_absLe (N : Nat) : absLe SoftF32.zero N := by
  unfold absLe
  refine ⟨by decide, ?_⟩
  have : magVal SoftF32.zero.mag = 0 := by decide
  rw [this]; exact Nat.zero_le _

/-- `(float)n` for a `uint32_t` is finite and at most 2³² -/
theorem ofNat_absLe_u32 {n : Nat} (hn : n < 4294967296) : absLe (SoftF32.ofNat n) (2 ^ 32) := by
  obtain ⟨hG1, hG2⟩ := roundNatU_small_finite (c := 1) (t := 32) (by decide) (by decide)
  have hle : roundNatU n 149 ≤ roundNatU 1 (32 + 149) := by
    apply roundNatU_mono
    have e : (2 : Nat) ^ (32 + 149) = 2 ^ 32 * 2 ^ 149 := by rw [Nat.pow_add]
    rw [Nat.one_mul, e]
    exact Nat.mul_le_mul_right _ (by
      have : (2 : Nat) ^ 32 = 4294967296 := by decide
      omega)
  have hmin : roundNat n 149 = roundNatU n 149 := by
    unfold roundNat; exact Nat.min_eq_left (by simp only [infMag]; omega)
  unfold absLe SoftF32.ofNat
  rw [hmin, mag_pack _ _ (by omega)]
  refine ⟨by omega, ?_⟩
  have := magVal_mono hle
  rw [hG2, Nat.one_mul] at this
  exact this

/-- **halving**: `|a| ≤ 2·c·2^t` ⟹ `|a · 0.5F| ≤ c·2^t` -/
theorem mul_half_absLe {a : SoftF32} {c t : Nat} (ha : absLe a (2 * (c * 2 ^ t))) (hc : c < 16777216) (ht : t ≤ 104) :
    absLe (SoftF32.mul a sHalf) (c * 2 ^ t) := by
  rw [mul_of_finite ha.finite sHalf_finite]
  obtain ⟨hG1, hG2⟩ := roundNatU_small_finite hc ht
  generalize roundNatU c (t + 149) = G at hG1 hG2
  have hs : sHalf.sig * 2 ^ sHalf.ex = 2 ^ 148 := by decide
  have hprod : a.sig * sHalf.sig * 2 ^ (a.ex + sHalf.ex) ≤ magVal G * 2 ^ 149 := by
    have e : a.sig * sHalf.sig * 2 ^ (a.ex + sHalf.ex) = magVal a.mag * 2 ^ 148 := by
      rw [← sig_mul_ex a, ← hs, Nat.pow_add]
      generalize (2 : Nat) ^ a.ex = X
      generalize (2 : Nat) ^ sHalf.ex = Y
      ac_rfl
    rw [e, hG2]
    have h1 : magVal a.mag * 2 ^ 148 ≤ 2 * (c * 2 ^ t) * 2 ^ 149 * 2 ^ 148 := Nat.mul_le_mul_right _ ha.2
    have e2 : 2 * (c * 2 ^ t) * 2 ^ 149 * 2 ^ 148 = c * 2 ^ t * 2 ^ 149 * 2 ^ 149 := by
      have : (2 : Nat) ^ 149 = 2 * 2 ^ 148 := by decide
      rw [this]
      generalize (2 : Nat) ^ 148 = P
      generalize c * 2 ^ t = Q
      ac_rfl
    rw [e2] at h1
    exact h1
  have hle := roundInt_mul_le hprod
  generalize roundInt (a.sig * sHalf.sig) ((a.ex : Int) + sHalf.ex - 149) = r at hle
  unfold absLe
  rw [mag_pack _ _ (by omega)]
  refine ⟨by omega, ?_⟩
  rw [← hG2]
  exact magVal_mono hle

/-- the bound of the matrix entries after `k` rounds -/
def upgBnd (k : Nat) : Nat := (8388608 + k) * 2 ^ 10

/-- `dm[a][j] = (dm[a][j] + dm[b][j]) * 0.5F + 0.001F` -/
def joinVal (x y : SoftF32) : SoftF32 := SoftF32.add (SoftF32.mul (SoftF32.add x y) sHalf) sMilli

theorem joinVal_absLe {x y : SoftF32} {k : Nat} (hk : k + 1 < 8388608) (hx : absLe x (upgBnd k)) (hy : absLe y (upgBnd k)) :
    absLe (joinVal x y) (upgBnd (k + 1)) := by
  unfold joinVal
  have h1 : absLe (SoftF32.add x y) (upgBnd k + upgBnd k) :=
    add_absLe (c := 8388608 + k) (t := 11) hx hy (by unfold upgBnd; omega) (by omega) (by decide)
  have h1' : absLe (SoftF32.add x y) (2 * ((8388608 + k) * 2 ^ 10)) := by
    have e : upgBnd k + upgBnd k = 2 * ((8388608 + k) * 2 ^ 10) := by unfold upgBnd; omega
    rwa [e] at h1
  have h2 := mul_half_absLe (c := 8388608 + k) (t := 10) h1' (by omega) (by decide)
  have h3 := add_absLe (c := 8388608 + (k + 1)) (t := 10) h2 sMilli_absLe (by omega) (by omega) (by decide)
  have e : (8388608 + k) * 2 ^ 10 + 2 ^ 10 = upgBnd (k + 1) := by unfold upgBnd; omega
  rwa [e] at h3

/-- a value bounded by `upgBnd k`, `k < 2²³`, is below `FLT_MAX` -/
theorem lt_fltMax_of_absLe {x : SoftF32} {k : Nat} (hk : k < 8388608) (hx : absLe x (upgBnd k)) :
    SoftF32.lt x SoftF32.fltMax = true := by
  have hn : x.isNaN = false := isNaN_of_finite hx.finite
  have hk' : SoftF32.fltMax.key = 2139095039 := by decide
  simp only [SoftF32.lt, hn, show SoftF32.fltMax.isNaN = false by decide, Bool.not_false, Bool.true_and, decide_eq_true_eq, hk']
  have hm : x.mag < 2139095039 := by
    rw [← magVal_lt_iff, magVal_fltMax]
    have h2 := hx.2
    have : upgBnd k * 2 ^ 149 < 16777215 * 2 ^ 253 := by
      have h1 : upgBnd k ≤ 16777216 * 2 ^ 10 := by unfold upgBnd; omega
      have h3 : upgBnd k * 2 ^ 149 ≤ 16777216 * 2 ^ 10 * 2 ^ 149 := Nat.mul_le_mul_right _ h1
      have h4 : (16777216 * 2 ^ 10 * 2 ^ 149 : Nat) < 16777215 * 2 ^ 253 := by decide
      exact Nat.lt_of_le_of_lt h3 h4
    exact Nat.lt_of_le_of_lt h2 this
  unfold key
  cases x.sign <;> simp <;> omega

/-! ## matrices -/

/-- every entry (the default `0` outside the matrix included) is finite and bounded by `N` -/
def MatBnd (N : Nat) (dm : FMatS) : Prop := ∀ i j, absLe (dm.get i j) N

theorem getD_setIfInBounds' {α : Type} (a : Array α) (i j : Nat) (v d : α) :
    (a.setIfInBounds i v).getD j d = if j = i ∧ i < a.size then v else a.getD j d := by
  simp only [Array.getD_eq_getD_getElem?, Array.getElem?_setIfInBounds]
  by_cases h : i = j
  · subst h
    by_cases hs : i < a.size
    · simp [hs]
    · simp [hs]
  · have : ¬ j = i := fun e => h e.symm
    simp [h, this]

/-- what `set` does to `get`: position `(i, j)` receives `v` when it exists, nothing else changes -/
theorem FMatS.get_set (dm : FMatS) (i j i' j' : Nat) (v : SoftF32) :
    (dm.set i j v).get i' j' =
      if i' = i ∧ j' = j ∧ i < dm.size ∧ j < (dm.getD i #[]).size then v else dm.get i' j' := by
  unfold FMatS.set FMatS.get
  rw [getD_setIfInBounds']
  by_cases h1 : i' = i ∧ i < dm.size
  · rw [if_pos h1, getD_setIfInBounds']
    obtain ⟨rfl, hs⟩ := h1
    by_cases h2 : j' = j ∧ j < (dm.getD i' #[]).size
    · rw [if_pos h2, if_pos ⟨rfl, h2.1, hs, h2.2⟩]
    · rw [if_neg h2, if_neg (by intro h; exact h2 ⟨h.2.1, h.2.2.2⟩)]
  · rw [if_neg h1, if_neg (by intro h; exact h1 ⟨h.1, h.2.2.1⟩)]

theorem FMatS.get_set_ne (dm : FMatS) (i j i' j' : Nat) (v : SoftF32) (h : ¬ (i' = i ∧ j' = j)) :
    (dm.set i j v).get i' j' = dm.get i' j' := by
  rw [FMatS.get_set, if_neg (by intro h'; exact h ⟨h'.1, h'.2.1⟩)]

theorem FMatS.get_set_cases (dm : FMatS) (i j i' j' : Nat) (v : SoftF32) :
    (dm.set i j v).get i' j' = v ∨ (dm.set i j v).get i' j' = dm.get i' j' := by
  rw [FMatS.get_set]
  split
  · exact Or.inl rfl
  · exact Or.inr rfl

theorem MatBnd.set {N : Nat} {dm : FMatS} (h : MatBnd N dm) (i j : Nat) {v : SoftF32} (hv : absLe v N) :
    MatBnd N (dm.set i j v) := by
  intro i' j'
  rcases FMatS.get_set_cases dm i j i' j' v with e | e <;> rw [e]
  · exact hv
  · exact h i' j'

/-- the row update `for (j…) if (j != b) dm[a][j] = joinVal dm[a][j] dm[b][j]` over a list of distinct columns: every entry ends up
bounded by `M'`; columns outside the list and all rows other than `a` are untouched -/
theorem rowFold_inv (a b : Nat) (hab : a ≠ b) (M M' : Nat) (hMM : M ≤ M')
    (hjoin : ∀ x y, absLe x M → absLe y M → absLe (joinVal x y) M') (dm0 : FMatS) (h0 : MatBnd M dm0) :
    ∀ l : List Nat, l.Nodup →
      MatBnd M' (l.foldr (fun j dm => if j ≠ b then dm.set a j (joinVal (dm.get a j) (dm.get b j)) else dm) dm0) ∧
      (∀ j, j ∉ l → (l.foldr (fun j dm => if j ≠ b then dm.set a j (joinVal (dm.get a j) (dm.get b j)) else dm) dm0).get a j =
        dm0.get a j) ∧
      (∀ i j, i ≠ a → (l.foldr (fun j dm => if j ≠ b then dm.set a j (joinVal (dm.get a j) (dm.get b j)) else dm) dm0).get i j =
        dm0.get i j) := by
  intro l
  induction l with
  | nil =>
    intro _
    exact ⟨fun i j => (h0 i j).mono hMM, fun _ _ => rfl, fun _ _ _ => rfl⟩
  | cons x xs ih =>
    intro hnd
    obtain ⟨hx, hnd'⟩ := List.nodup_cons.1 hnd
    obtain ⟨i1, i2, i3⟩ := ih hnd'
    rw [List.foldr_cons]
    generalize xs.foldr (fun j dm => if j ≠ b then dm.set a j (joinVal (dm.get a j) (dm.get b j)) else dm) dm0 = dm1 at i1 i2 i3
    by_cases hxb : x ≠ b
    · rw [if_pos hxb]
      have hv : absLe (joinVal (dm1.get a x) (dm1.get b x)) M' := by
        apply hjoin
        · rw [i2 x hx]; exact h0 a x
        · rw [i3 b x (fun e => hab e.symm)]; exact h0 b x
      refine ⟨i1.set a x hv, ?_, ?_⟩
      · intro j hj
        have hjx : j ≠ x := fun e => hj (e ▸ List.mem_cons_self)
        rw [FMatS.get_set_ne _ _ _ _ _ _ (by intro h; exact hjx h.2)]
        exact i2 j (fun h => hj (List.mem_cons_of_mem _ h))
      · intro i j hi
        rw [FMatS.get_set_ne _ _ _ _ _ _ (by intro h; exact hi h.1)]
        exact i3 i j hi
    · rw [if_neg hxb]
      refine ⟨i1, ?_, i3⟩
      intro j hj
      exact i2 j (fun h => hj (List.mem_cons_of_mem _ h))

/-- the symmetrisation `for (j…) dm[j][a] = dm[a][j]` writes existing entries only -/
theorem symFold_bnd (a : Nat) (N : Nat) (l : List Nat) (dm0 : FMatS) (h0 : MatBnd N dm0) :
    MatBnd N (l.foldr (fun j dm => dm.set j a (dm.get a j)) dm0) := by
  induction l with
  | nil => exact h0
  | cons x xs ih =>
    rw [List.foldr_cons]
    exact ih.set x a (ih a x)

/-- **one round**: a matrix bounded by `upgBnd k` becomes a matrix bounded by `upgBnd (k+1)` -/
theorem upgmaRoundS_bnd (n : Nat) (k : Nat) (hk : k + 1 < 8388608) (s s' : UpgmaStS) (hb : MatBnd (upgBnd k) s.dm)
    (hr : upgmaRoundS n s = some s') : MatBnd (upgBnd (k + 1)) s'.dm := by
  have hfound : (scanMinS n s.dm s.act).found = true := by
    cases hfd : (scanMinS n s.dm s.act).found with
    | true => rfl
    | false => simp [upgmaRoundS, hfd] at hr
  obtain ⟨hab, _, _, _⟩ := (scan_invS n s.dm s.act).ok hfound
  unfold upgmaRoundS at hr
  simp only [hfound, Bool.not_true, Bool.false_eq_true, if_false] at hr
  split at hr
  · simp only [Option.some.injEq] at hr
    subst hr
    simp only
    generalize (scanMinS n s.dm s.act).a = a at *
    generalize (scanMinS n s.dm s.act).b = b at *
    have hne : a ≠ b := by omega
    have hle : upgBnd k ≤ upgBnd (k + 1) := by unfold upgBnd; omega
    have h1 := (rowFold_inv a b hne (upgBnd k) (upgBnd (k + 1)) hle (fun x y hx hy => joinVal_absLe hk hx hy) s.dm hb
      (List.range n) List.nodup_range).1
    have h2 := h1.set a a (zero_absLe (upgBnd (k + 1)))
    exact symFold_bnd a _ (List.range n) _ h2
  · cases hr

/-! ## all rounds -/

theorem upgma_rounds_bndS (dm : List (List SoftF32)) (samples : List Nat)
    (hb : MatBnd (upgBnd 0) (upgmaInitS dm samples).dm) :
    ∀ k, k < 8388608 → ∀ s, iterOpt (upgmaRoundS samples.length) k (upgmaInitS dm samples) = some s → MatBnd (upgBnd k) s.dm := by
  intro k
  induction k with
  | zero =>
    intro _ s hs
    simp only [iterOpt, Option.some.injEq] at hs
    subst hs
    exact hb
  | succ k ih =>
    intro hk s' hs'
    rw [iterOpt_succ_right] at hs'
    cases hks : iterOpt (upgmaRoundS samples.length) k (upgmaInitS dm samples) with
    | none => rw [hks] at hs'; cases hs'
    | some s =>
      rw [hks, Option.bind_some] at hs'
      exact upgmaRoundS_bnd samples.length k hk s s' (ih (by omega) s hks) hs'

/-- **`upgmaS` never faults on a bounded matrix**: at most 2²² samples, initial entries finite and at most 2³³ -/
theorem upgmaS_some (dm : List (List SoftF32)) (samples : List Nat) (hn : samples.length ≠ 0)
    (hlen : samples.length ≤ 4194304) (hb : MatBnd (upgBnd 0) (upgmaInitS dm samples).dm) :
    ∃ t, upgmaS dm samples = some t ∧ ∀ x, x ∈ t.leaves ↔ x ∈ samples := by
  apply upgma_someS dm samples hn
  intro j s hj hs i i' _ _ _ _
  exact lt_fltMax_of_absLe (k := j) (by omega) (upgma_rounds_bndS dm samples hb j (by omega) s hs i i')

/-! ## the distance matrix -/

theorem calcDistanceRaw_lt {a b : List Nat} {k : Nat} (h : calcDistanceRaw a b = some k) : k < 4294967296 := by
  unfold calcDistanceRaw at h
  cases hb : (if a.length > b.length then bpmBlock a b else bpmBlock b a) with
  | none => rw [hb] at h; cases h
  | some z =>
    rw [hb] at h
    simp only [Option.map_some, Option.some.injEq] at h
    subst h
    omega

/-- a distance entry is finite and at most `2³² + 2¹⁰ ≤ upgBnd 0 = 2³³` -/
theorem distEntryS_absLe {a b : List Nat} {d : SoftF32} (h : distEntryS a b = some d) : absLe d (upgBnd 0) := by
  unfold distEntryS calcDistanceS at h
  cases hr : calcDistanceRaw a b with
  | none => rw [hr] at h; cases h
  | some k =>
    rw [hr] at h
    simp only [Option.map_some, Option.some.injEq] at h
    subst h
    have h1 := ofNat_absLe_u32 (calcDistanceRaw_lt hr)
    have h2 : absLe (lenTermS a.length b.length) (2 ^ 10) := (lenTermS_absLe _ _).mono (by decide)
    have h3 := add_absLe (c := 4194305) (t := 10) h1 h2 (by decide) (by decide) (by decide)
    exact h3.mono (by unfold upgBnd; decide)

theorem distEntryS_some (a b : List Nat) (ha : ∀ c ∈ a, c < 13) (hb : ∀ c ∈ b, c < 13) : ∃ d, distEntryS a b = some d := by
  unfold distEntryS calcDistanceS calcDistanceRaw
  split
  · obtain ⟨k, hk⟩ := Pipeline.bpmBlock_some a b ha
    rw [hk]; exact ⟨_, rfl⟩
  · obtain ⟨k, hk⟩ := Pipeline.bpmBlock_some b a hb
    rw [hk]; exact ⟨_, rfl⟩

/-- `d_estimation(…, 1)` on `SoftF32` never faults on codes below 13, and all entries are bounded -/
theorem distMatrixS_some (seqs : List (List Nat)) (h : ∀ s ∈ seqs, ∀ c ∈ s, c < 13) :
    ∃ dm, distMatrixS seqs = some dm ∧ ∀ r ∈ dm, ∀ x ∈ r, absLe x (upgBnd 0) := by
  unfold distMatrixS
  simp only
  obtain ⟨a, ha, _, hP⟩ := Kmeans.mapM_option_spec
    (fun x => (List.range seqs.length).mapM fun y => distEntryS (seqs.getD (max x y) []) (seqs.getD (min x y) []))
    (fun r => ∀ x ∈ r, absLe x (upgBnd 0)) (List.range seqs.length) (by
      intro x _
      obtain ⟨r, hr, _, hPr⟩ := Kmeans.mapM_option_spec
        (fun y => distEntryS (seqs.getD (max x y) []) (seqs.getD (min x y) [])) (fun d => absLe d (upgBnd 0))
        (List.range seqs.length) (by
          intro y _
          obtain ⟨d, hd⟩ := distEntryS_some _ _ (Pipeline.getD_lt13 seqs h (max x y)) (Pipeline.getD_lt13 seqs h (min x y))
          exact ⟨d, hd, distEntryS_absLe hd⟩)
      exact ⟨r, hr, hPr⟩)
  exact ⟨a, ha, hP⟩

/-- a list of rows with bounded entries is a bounded matrix -/
theorem matBnd_of_rows (N : Nat) (dm : List (List SoftF32)) (h : ∀ r ∈ dm, ∀ x ∈ r, absLe x N) :
    MatBnd N (dm.map List.toArray).toArray := by
  intro i j
  unfold FMatS.get
  simp only [Array.getD_eq_getD_getElem?, List.getElem?_toArray, List.getElem?_map]
  cases hi : dm[i]? with
  | none => simp only [Option.map_none, Option.getD_none]; exact zero_absLe N
  | some r =>
    simp only [Option.map_some, Option.getD_some, List.getElem?_toArray]
    cases hj : r[j]? with
    | none => simp only [Option.getD_none]; exact zero_absLe N
    | some x =>
      simp only [Option.getD_some]
      exact h r (List.mem_of_getElem? hi) x (List.mem_of_getElem? hj)

namespace Pipeline
open Kalign.Kmeans

/-- **the `< 100` branch on `SoftF32` never faults** (codes below 13, at most 2²² samples): no hypothesis about values -/
theorem smallTreeS_some (codes : Array (List Nat)) (h13 : ∀ s ∈ codes.toList, ∀ c ∈ s, c < 13)
    (samples : List Nat) (hne : samples ≠ []) (hlen : samples.length ≤ 4194304) :
    ∃ t, smallTreeS codes samples = some t := by
  have hn : samples.length ≠ 0 := fun h => hne (List.length_eq_zero_iff.1 h)
  obtain ⟨dm, hdm, hb⟩ := distMatrixS_some (samples.map fun s => codes.getD s []) (by
    intro s hs
    simp only [List.mem_map] at hs
    obtain ⟨i, _, rfl⟩ := hs
    exact arr_getD_lt13 codes h13 i)
  obtain ⟨g, hg, _⟩ := upgmaS_some dm samples hn hlen (matBnd_of_rows _ dm hb)
  exact ⟨GTree.toTree g, by unfold smallTreeS; rw [hdm]; simp [hg]⟩

theorem smallTreeS_leaves (codes : Array (List Nat)) (samples : List Nat) (t : Tree)
    (h : smallTreeS codes samples = some t) : ∀ x, x ∈ t.leaves ↔ x ∈ samples := by
  unfold smallTreeS at h
  cases hd : distMatrixS (samples.map fun s => codes.getD s []) with
  | none => rw [hd] at h; cases h
  | some dm =>
    rw [hd, Option.bind_some] at h
    cases hu : upgmaS dm samples with
    | none => rw [hu] at h; cases h
    | some g =>
      rw [hu] at h
      simp only [Option.map_some, Option.some.injEq] at h
      subst h
      rw [GTree.leaves_toTree]
      exact upgma_leavesS dm samples g hu

theorem smallTreeS_leaves_perm (codes : Array (List Nat)) (samples : List Nat) (t : Tree) (hnd : samples.Nodup)
    (h : smallTreeS codes samples = some t) : t.leaves.Perm samples := by
  have hmem := smallTreeS_leaves codes samples t h
  refine (List.perm_ext_iff_of_nodup ?_ hnd).2 hmem
  unfold smallTreeS at h
  cases hd : distMatrixS (samples.map fun s => codes.getD s []) with
  | none => rw [hd] at h; cases h
  | some dm =>
    rw [hd, Option.bind_some] at h
    cases hu : upgmaS dm samples with
    | none => rw [hu] at h; cases h
    | some g =>
      rw [hu] at h
      simp only [Option.map_some, Option.some.injEq] at h
      subst h
      rw [GTree.leaves_toTree]
      exact upgma_leaves_nodupS dm samples g hnd hu

end Pipeline
end Kalign
