import KalignModel.Props.C07
import KalignModel.Lemmas.NoFaultRun
import KalignModel.Lemmas.NoFaultProf
import KalignModel.Lemmas.DpCodes
/-!
# `do_align` does not fault (Model/DoAlign.lean), given the meetup contract

`doAlign_some`: for two prepared operands of positive length whose profiles have the right size, `doAlign` returns a
result, its monitor flag is set, the column codes are a valid column list for the two lengths (so the second run-time
check of `mergeNodes` passes) and the new profile has `64*(codes.length+2)` entries — **provided** the serial Hirschberg
run on these operands passes the monitor (`mon = true`, the hypothesis `hmon`).  Everything else (no fault of the
controller, no fault of the path expansion / mirroring, no read outside a profile in `update_n`) is proved for every score
carrier and every outcome of the score comparisons.
-/
namespace Kalign
section
variable {β : Type} [Score β]

/-- the operands in the orientation `do_align` hands them to the controller, and whether they are swapped
(the `if` tree of aln_run.c:153-215, same text as in `doAlign`) -/
def orient (na nb lenA lenB : Nat) (sa sb : Array Nat) (pa pb : Array β) : Operands β × Bool :=
  if na = 1 then
    if nb = 1 then
      if lenA < lenB then (.seqseq sa sb, false) else (.seqseq sb sa, true)
    else (.seqprof pb sa nb, true)
  else
    if nb = 1 then (.seqprof pa sb na, false)
    else if lenA < lenB then (.profprof pa pb, false) else (.profprof pb pa, true)

/-- the Hirschberg run `do_align` starts on these operands -/
def orientRun (entry : Entry) (ap : AlnParam β) (na nb lenA lenB : Nat) (sa sb : Array Nat) (pa pb : Array β) :
    Mem (Array (States β)) β :=
  let os := orient na nb lenA lenB sa sb pa pb
  let la := if os.2 then lenB else lenA
  let lb := if os.2 then lenA else lenB
  alnRun entry ap os.1 la lb (initMem la lb)

/-- `doAlign` after the operands are prepared, as a function of the oriented operands (same text as in `doAlign`) -/
def dpTail (entry : Entry) (ap : AlnParam β) (st : AlnState β) (a b c : Nat) (isLast : Bool) (lenA lenB : Nat)
    (pa pb : Array β) (os : Operands β × Bool) : Option (AlnState β × AlignOut β) := do
  let na := st.nsip.getD a 0
  let nb := st.nsip.getD b 0
  let (ops, swapped) := os
  let (la, lb) := if swapped then (lenB, lenA) else (lenA, lenB)
  let m0 : Mem (Array (States β)) β := initMem la lb
  let m := alnRun entry ap ops la lb m0
  if m.fault then none
  let raw := m.pathEntries la
  let path := if swapped then mirrorPath lenA raw else raw
  let codes ← expandPath lenB path
  let newp ← if isLast then pure none else (updateN ap pa pb codes na nb).map some
  let st' : AlnState β :=
    { st with
      profile := ((st.profile.set! a none).set! b none).set! c newp
      plen := st.plen.set! c codes.length
      nsip := st.nsip.set! c (na + nb) }
  pure (st', { rawPath := path, codes := codes, mon := m.mon, trace := m.trace.reverse })

theorem doAlign_eq (entry : Entry) (ap : AlnParam β) (st : AlnState β) (a b c : Nat) (isLast : Bool)
    (lenA lenB : Nat) (pa pb : Array β)
    (hidx : ¬ (a = b ∨ a ≥ st.nsip.size ∨ b ≥ st.nsip.size ∨ c ≥ st.nsip.size))
    (hlen : ¬ (lenA = 0 ∨ lenB = 0))
    (hA : prepOperand ap st a b = some (lenA, pa)) (hB : prepOperand ap st b a = some (lenB, pb)) :
    doAlign entry ap st a b c isLast = dpTail entry ap st a b c isLast lenA lenB pa pb
      (orient (st.nsip.getD a 0) (st.nsip.getD b 0) lenA lenB (st.seqs.getD a #[]) (st.seqs.getD b #[]) pa pb) := by
  unfold doAlign
  rw [if_neg hidx]
  show (prepOperand ap st a b).bind _ = _
  rw [hA]
  show (prepOperand ap st b a).bind _ = _
  rw [hB]
  show (if lenA = 0 ∨ lenB = 0 then _ else _) = _
  rw [if_neg hlen]
  rfl

theorem dpTail_false (entry : Entry) (ap : AlnParam β) (st : AlnState β) (a b c : Nat) (isLast : Bool) (lenA lenB : Nat)
    (pa pb : Array β) (ops : Operands β) (codes : List Nat) (newp : Option (Array β))
    (hf : (alnRun entry ap ops lenA lenB (initMem lenA lenB)).fault = false)
    (hc : expandPath lenB ((alnRun entry ap ops lenA lenB (initMem lenA lenB)).pathEntries lenA) = some codes)
    (hn : (if isLast then some none else (updateN ap pa pb codes (st.nsip.getD a 0) (st.nsip.getD b 0)).map some) =
      some newp) :
    ∃ st' out, dpTail entry ap st a b c isLast lenA lenB pa pb (ops, false) = some (st', out) ∧
      st'.profile = ((st.profile.set! a none).set! b none).set! c newp ∧ out.codes = codes ∧
      out.mon = (alnRun entry ap ops lenA lenB (initMem lenA lenB)).mon := by
  refine ⟨{ st with
              profile := ((st.profile.set! a none).set! b none).set! c newp
              plen := st.plen.set! c codes.length
              nsip := st.nsip.set! c (st.nsip.getD a 0 + st.nsip.getD b 0) },
            { rawPath := (alnRun entry ap ops lenA lenB (initMem lenA lenB)).pathEntries lenA, codes := codes,
              mon := (alnRun entry ap ops lenA lenB (initMem lenA lenB)).mon,
              trace := (alnRun entry ap ops lenA lenB (initMem lenA lenB)).trace.reverse }, ?_, rfl, rfl, rfl⟩
  unfold dpTail
  show (if (alnRun entry ap ops lenA lenB (initMem lenA lenB)).fault = true then _ else _) = _
  rw [if_neg (by rw [hf]; decide)]
  show (expandPath lenB ((alnRun entry ap ops lenA lenB (initMem lenA lenB)).pathEntries lenA)).bind _ = _
  rw [hc]
  cases isLast with
  | true =>
    simp only [if_true, Option.some.injEq] at hn
    subst hn
    rfl
  | false =>
    simp only [Bool.false_eq_true, if_false] at hn
    show (Option.map some (updateN ap pa pb codes (st.nsip.getD a 0) (st.nsip.getD b 0))).bind _ = _
    rw [hn]
    rfl

theorem dpTail_true (entry : Entry) (ap : AlnParam β) (st : AlnState β) (a b c : Nat) (isLast : Bool) (lenA lenB : Nat)
    (pa pb : Array β) (ops : Operands β) (codes : List Nat) (newp : Option (Array β))
    (hf : (alnRun entry ap ops lenB lenA (initMem lenB lenA)).fault = false)
    (hc : expandPath lenB (mirrorPath lenA ((alnRun entry ap ops lenB lenA (initMem lenB lenA)).pathEntries lenB)) =
      some codes)
    (hn : (if isLast then some none else (updateN ap pa pb codes (st.nsip.getD a 0) (st.nsip.getD b 0)).map some) =
      some newp) :
    ∃ st' out, dpTail entry ap st a b c isLast lenA lenB pa pb (ops, true) = some (st', out) ∧
      st'.profile = ((st.profile.set! a none).set! b none).set! c newp ∧ out.codes = codes ∧
      out.mon = (alnRun entry ap ops lenB lenA (initMem lenB lenA)).mon := by
  refine ⟨{ st with
              profile := ((st.profile.set! a none).set! b none).set! c newp
              plen := st.plen.set! c codes.length
              nsip := st.nsip.set! c (st.nsip.getD a 0 + st.nsip.getD b 0) },
            { rawPath := mirrorPath lenA ((alnRun entry ap ops lenB lenA (initMem lenB lenA)).pathEntries lenB),
              codes := codes,
              mon := (alnRun entry ap ops lenB lenA (initMem lenB lenA)).mon,
              trace := (alnRun entry ap ops lenB lenA (initMem lenB lenA)).trace.reverse }, ?_, rfl, rfl, rfl⟩
  unfold dpTail
  show (if (alnRun entry ap ops lenB lenA (initMem lenB lenA)).fault = true then _ else _) = _
  rw [if_neg (by rw [hf]; decide)]
  show (expandPath lenB (mirrorPath lenA ((alnRun entry ap ops lenB lenA (initMem lenB lenA)).pathEntries lenB))).bind _ = _
  rw [hc]
  cases isLast with
  | true =>
    simp only [if_true, Option.some.injEq] at hn
    subst hn
    rfl
  | false =>
    simp only [Bool.false_eq_true, if_false] at hn
    show (Option.map some (updateN ap pa pb codes (st.nsip.getD a 0) (st.nsip.getD b 0))).bind _ = _
    rw [hn]
    rfl

/-- controller + (mirror) + path expansion: no fault and a valid column list, given the monitor on the serial run -/
theorem dp_valid (ap : AlnParam β) (ops : Operands β) (swapped : Bool) (lenA lenB : Nat) (h1 : 1 ≤ lenA) (h2 : 1 ≤ lenB)
    (hmon : (alnRun .serial ap ops (if swapped then lenB else lenA) (if swapped then lenA else lenB)
      (initMem (if swapped then lenB else lenA) (if swapped then lenA else lenB))).mon = true) :
    let la := if swapped then lenB else lenA
    let lb := if swapped then lenA else lenB
    let m := alnRun .parallel ap ops la lb (initMem la lb)
    m.fault = false ∧ m.mon = true ∧
      ∃ codes, expandPath lenB (if swapped then mirrorPath lenA (m.pathEntries la) else m.pathEntries la) = some codes ∧
        ValidCols (codes.map Col.ofCode) lenA lenB := by
  intro la lb m
  have hfault := alnRun_serial_no_fault ap ops la lb
  have heq : m = alnRun .serial ap ops la lb (initMem la lb) := by
    show runner _ false _ _ = runnerSerial _ false _ _
    exact runner_eq_runnerSerial_of_mon _ _ _ hfault hmon
  refine ⟨by rw [heq]; exact hfault, by rw [heq]; exact hmon, ?_⟩
  cases swapped with
  | false =>
    have := C07_columns_valid .parallel ap ops lenA lenB h1 h2 hfault hmon
    simp only [Bool.false_eq_true, if_false]
    exact this.2
  | true =>
    have hla : la = lenB := rfl
    have hlb : lb = lenA := rfl
    obtain ⟨hp, _⟩ := C07_columns_valid .parallel ap ops lenB lenA h2 h1 hfault hmon
    simp only [if_true]
    have hlen : (m.pathEntries la).length = lenB := by simp [Mem.pathEntries, hla]
    have hsh := pathShape_of_pathOKAux lenA 0 false _ hp
    obtain ⟨P, hP1, hP2, hP3⟩ := cols_of_shape lenA hsh 0 rfl
    have hP1' : pathFrom 0 P = m.pathEntries la := hP1
    have hcA : consA P = lenB := by rw [← length_pathFrom 0 P, hP1', hlen]
    have hcB : consB P = lenA := by omega
    have hadj : adjOK .A P = true := hP2
    have hV : ValidCols P lenB lenA := ⟨adjOK_noskip _ _ hadj, hcA, hcB⟩
    have hVs := validCols_swap P lenB lenA hV
    have hadjs : adjOK .A (P.map Col.swap) = true := by
      have := adjOK_swap .A P
      rw [hadj] at this
      exact this
    rw [← hP1', mirrorPath_pathFrom P lenA hcB]
    obtain ⟨codes, hc1, hc2⟩ := expandPath_pathFrom lenB (P.map Col.swap) hadjs hVs.2.2 (by rw [hVs.2.1]; exact h1)
      (both_mem_of_valid _ _ _ hVs hadjs h1 h2)
    exact ⟨codes, hc1, by rw [hc2]; exact hVs⟩

omit [Score β] in
theorem getD_set!_self {γ : Type} (a : Array γ) (i : Nat) (v d : γ) (h : i < a.size) : (a.set! i v).getD i d = v := by
  simp [Array.getD, h]

/-- **`do_align` returns a result** whenever its two operands can be prepared, have positive length and well-sized
profiles, and the serial Hirschberg run on them passes the monitor -/
theorem doAlign_some (ap : AlnParam β) (st : AlnState β) (a b c : Nat) (isLast : Bool)
    (lenA lenB : Nat) (pa pb : Array β)
    (hab : a ≠ b) (ha : a < st.nsip.size) (hb : b < st.nsip.size) (hc : c < st.nsip.size) (hcp : c < st.profile.size)
    (hA : prepOperand ap st a b = some (lenA, pa)) (hB : prepOperand ap st b a = some (lenB, pb))
    (hpa : pa.size = 64 * (lenA + 2)) (hpb : pb.size = 64 * (lenB + 2))
    (h1 : 1 ≤ lenA) (h2 : 1 ≤ lenB)
    (hmon : (orientRun .serial ap (st.nsip.getD a 0) (st.nsip.getD b 0) lenA lenB (st.seqs.getD a #[])
      (st.seqs.getD b #[]) pa pb).mon = true) :
    ∃ st' out, doAlign .parallel ap st a b c isLast = some (st', out) ∧ out.mon = true ∧
      ValidCols (out.codes.map Col.ofCode) lenA lenB ∧
      (isLast = false → ∃ p, st'.profile.getD c none = some p ∧ p.size = 64 * (out.codes.length + 2)) ∧
      (isLast = true → st'.profile.getD c none = none) := by
  unfold orientRun at hmon
  simp only at hmon
  have hidx : ¬ (a = b ∨ a ≥ st.nsip.size ∨ b ≥ st.nsip.size ∨ c ≥ st.nsip.size) := by omega
  have hlen : ¬ (lenA = 0 ∨ lenB = 0) := by omega
  rw [doAlign_eq .parallel ap st a b c isLast lenA lenB pa pb hidx hlen hA hB]
  generalize orient (st.nsip.getD a 0) (st.nsip.getD b 0) lenA lenB (st.seqs.getD a #[])
      (st.seqs.getD b #[]) pa pb = os at hmon ⊢
  obtain ⟨ops, swapped⟩ := os
  simp only at hmon
  obtain ⟨hf, hm, codes, hcodes, hV⟩ := dp_valid ap ops swapped lenA lenB h1 h2 hmon
  have hck := expandPath_codes _ _ _ hcodes
  have hgc : ∀ (v : Option (Array β)),
      (((st.profile.set! a none).set! b none).set! c v).getD c none = v :=
    fun v => getD_set!_self _ _ _ _ (by simpa using hcp)
  have hnewp : ∃ newp, (if isLast then some none
      else (updateN ap pa pb codes (st.nsip.getD a 0) (st.nsip.getD b 0)).map some) = some newp ∧
      (isLast = false → ∃ p, newp = some p ∧ p.size = 64 * (codes.length + 2)) ∧ (isLast = true → newp = none) := by
    cases isLast with
    | true => exact ⟨none, rfl, (fun h => by cases h), fun _ => rfl⟩
    | false =>
      obtain ⟨p, hp, hps⟩ := updateN_some ap pa pb (st.nsip.getD a 0) (st.nsip.getD b 0) lenA lenB hpa hpb codes hck hV
      exact ⟨some p, by simp only [Bool.false_eq_true, if_false, hp, Option.map_some], (fun _ => ⟨p, rfl, hps⟩), fun h => by cases h⟩
  obtain ⟨newp, hn, hn1, hn2⟩ := hnewp
  cases swapped with
  | false =>
    simp only [Bool.false_eq_true, if_false] at hf hm hcodes
    obtain ⟨st', out, h, hprof, hco, hmo⟩ := dpTail_false .parallel ap st a b c isLast lenA lenB pa pb ops codes newp hf hcodes hn
    refine ⟨st', out, h, by rw [hmo]; exact hm, by rw [hco]; exact hV, ?_, ?_⟩
    · intro hl; obtain ⟨p, e, hs⟩ := hn1 hl; exact ⟨p, by rw [hprof, hgc, e], by rw [hco]; exact hs⟩
    · intro hl; rw [hprof, hgc]; exact hn2 hl
  | true =>
    simp only [if_true] at hf hm hcodes
    obtain ⟨st', out, h, hprof, hco, hmo⟩ := dpTail_true .parallel ap st a b c isLast lenA lenB pa pb ops codes newp hf hcodes hn
    refine ⟨st', out, h, by rw [hmo]; exact hm, by rw [hco]; exact hV, ?_, ?_⟩
    · intro hl; obtain ⟨p, e, hs⟩ := hn1 hl; exact ⟨p, by rw [hprof, hgc, e], by rw [hco]; exact hs⟩
    · intro hl; rw [hprof, hgc]; exact hn2 hl

end
end Kalign
