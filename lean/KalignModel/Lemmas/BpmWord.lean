import KalignModel.Lemmas.BpmBlock
/-!
# the single-word variants `bpm` (64 bits) and the word-level core of `bpm_256`

`bpmCore` (the `D0`-form of Myers' step) produces the same encoding as the block step with carry-in 0.
-/
namespace Kalign

theorem cellH_or_neg (dv dh : Int) (e : Bool) (hv : Tri dv) (hh : Tri dh) :
    cellH dv dh (e || decide (dv = -1)) = cellH dv dh e := by
  rcases hv with rfl | rfl | rfl <;> rcases hh with rfl | rfl | rfl <;> cases e <;> (simp only [cellH, cellMin]; decide)

theorem refH_or_neg (v : Nat → Int) (e : Nat → Bool) (hIn : Int) (w : Nat) (hv : ∀ i, i < w → Tri (v i)) (hh : Tri hIn)
    (i : Nat) (hi : i ≤ w) :
    refH v (fun i => e i || decide (v i = -1)) hIn i = refH v e hIn i := by
  induction i with
  | zero => rfl
  | succ i ih =>
    rw [refH, refH, ih (by omega)]
    exact cellH_or_neg _ _ _ (hv i (by omega)) (refH_tri v e hIn w hv hh i (by omega))

section core
variable {w : Nat} (VP VN Bc : BitVec w) (v : Nat → Int) (e : Nat → Bool)

theorem tri_zero : Tri 0 := Or.inr (Or.inl rfl)

/-- one step of `bpm`/`bpm_256` on the delta encoding: new vertical differences, and the horizontal difference
below every row in `HP`/`HN` -/
theorem core_step (_hw : 0 < w) (hEnc : Enc VP VN v) (hE : ∀ i, i < w → Bc.getLsbD i = e i) :
    Enc (bpmCore Bc VP VN).1 (bpmCore Bc VP VN).2.1 (refV v e 0) ∧
    (∀ i, i < w → (bpmCore Bc VP VN).2.2.1.getLsbD i = decide (refH v e 0 (i + 1) = 1)) ∧
    (∀ i, i < w → (bpmCore Bc VP VN).2.2.2.getLsbD i = decide (refH v e 0 (i + 1) = -1)) := by
  have hvt : ∀ i, i < w → Tri (v i) := fun i hi => (hEnc i hi).1
  have hE' : ∀ i, i < w → (Bc ||| VN).getLsbD i = (e i || decide (v i = -1)) := by
    intro i hi
    rw [BitVec.getLsbD_or, hE i hi, (hEnc i hi).2.2]
  have key := xh_ph_mh VP VN (Bc ||| VN) 0 v (fun i => e i || decide (v i = -1)) hEnc hE' tri_zero
  have hD0 : ((VP + ((Bc ||| VN) &&& VP)) ^^^ VP) ||| (Bc ||| VN) = xhWord VP (Bc ||| VN) 0 := by
    simp only [xhWord, eqIn, Int.lt_irrefl, if_false]
    rw [BitVec.add_comm]
  have href : ∀ i, i ≤ w → refH v (fun i => e i || decide (v i = -1)) 0 i = refH v e 0 i :=
    fun i hi => refH_or_neg v e 0 w hvt tri_zero i hi
  have htri := refH_tri v e 0 w hvt tri_zero
  -- bits of HP, HN
  have hHN : ∀ i, i < w → (VP &&& xhWord VP (Bc ||| VN) 0).getLsbD i = decide (refH v e 0 (i + 1) = -1) := by
    intro i hi; rw [(key i hi).2.1, href (i + 1) (by omega)]
  have hHP : ∀ i, i < w → (VN ||| ~~~(VP ||| xhWord VP (Bc ||| VN) 0)).getLsbD i = decide (refH v e 0 (i + 1) = 1) := by
    intro i hi; rw [BitVec.or_comm VP, (key i hi).2.2, href (i + 1) (by omega)]
  have hD0bit : ∀ i, i < w → (xhWord VP (Bc ||| VN) 0).getLsbD i =
      ((e i || decide (v i = -1)) || decide (refH v e 0 i = -1)) := by
    intro i hi; rw [(key i hi).1, href i (by omega)]
  have hHPs : ∀ i, i < w → ((VN ||| ~~~(VP ||| xhWord VP (Bc ||| VN) 0)) <<< 1).getLsbD i = decide (refH v e 0 i = 1) := by
    intro i hi
    cases i with
    | zero => rw [getLsbD_shl1_zero]; simp [refH]
    | succ i => rw [getLsbD_shl1_succ _ _ hi, hHP i (by omega)]
  have hHNs : ∀ i, i < w → ((VP &&& xhWord VP (Bc ||| VN) 0) <<< 1).getLsbD i = decide (refH v e 0 i = -1) := by
    intro i hi
    cases i with
    | zero => rw [getLsbD_shl1_zero]; simp [refH]
    | succ i => rw [getLsbD_shl1_succ _ _ hi, hHN i (by omega)]
  unfold bpmCore
  simp only [hD0]
  refine ⟨?_, hHP, hHN⟩
  intro i hi
  obtain ⟨hv, _, _⟩ := hEnc i hi
  have hb := cellV_bits (e i) hv (htri i (by omega))
  refine ⟨cellV_tri _ hv (htri i (by omega)), ?_, ?_⟩
  · rw [BitVec.getLsbD_or, BitVec.getLsbD_not, BitVec.getLsbD_or, hHNs i hi, hHPs i hi, hD0bit i hi, refV, hb.2]
    rcases htri i (by omega) with h | h | h <;> simp [h, hi]
  · rw [BitVec.getLsbD_and, hHPs i hi, hD0bit i hi, refV, hb.1]
    rcases htri i (by omega) with h | h | h <;> simp [h]

end core

/-! ## `bpm` -/

theorem vp0_bit (m i : Nat) (hm : m < 64) (hi : i < 64) : (((1#64) <<< m) - 1#64).getLsbD i = decide (i < m) := by
  have h : ((1#64) <<< m) - 1#64 = BitVec.ofNat 64 (2 ^ m - 1) := by
    apply BitVec.eq_of_toNat_eq
    have h2 : 2 ^ m < 2 ^ 64 := Nat.pow_lt_pow_right (by omega) hm
    have h3 : 0 < 2 ^ m := Nat.pow_pos (by omega)
    simp only [BitVec.toNat_sub, BitVec.toNat_shiftLeft, BitVec.toNat_ofNat, Nat.shiftLeft_eq]
    rw [show 1 % 2 ^ 64 = 1 by decide, Nat.one_mul, Nat.mod_eq_of_lt h2]
    generalize 2 ^ m = P at h2 h3
    omega
  rw [h, BitVec.getLsbD_ofNat, Nat.testBit_two_pow_sub_one]
  simp [hi]

theorem and_mask_ne_zero {w : Nat} (x : BitVec w) (k : Nat) (hk : k < w) :
    (x &&& ((1#w) <<< k) ≠ 0#w) ↔ x.getLsbD k = true := by
  constructor
  · intro h
    cases hx : x.getLsbD k with
    | true => rfl
    | false =>
      exfalso; apply h
      apply BitVec.eq_of_getLsbD_eq
      intro i hi
      rw [BitVec.getLsbD_and, getLsbD_one_shl w k i hk hi]
      by_cases hik : i = k
      · subst hik; simp [hx]
      · simp [hik]
  · intro h h0
    have := congrArg (fun y => y.getLsbD k) h0
    simp only [BitVec.getLsbD_and, h, getLsbD_one_shl w k k hk hk] at this
    simp at this

theorem bpmB_bit (w : Nat) (p : List Nat) (m c i : Nat) (hm : m ≤ w) (hi : i < w) :
    (bpmB w p m c).getLsbD i = (decide (i < m) && (p.getD i 0 == c)) := by
  rw [bpmB, bitsToBV_bit w _ m i hm hi]

theorem toInt8_small (x : Int) (h0 : 0 ≤ x) (h1 : x ≤ 127) : toInt8 x = x := by
  unfold toInt8; omega

theorem toUInt8_small (x : Nat) (h1 : x ≤ 255) : toUInt8 (x : Int) = x := by
  unfold toUInt8; omega

/-- the DP that the single word follows: rows past the pattern never match; `init` describes `VP` at the start -/
def eqW (p t : List Nat) (m : Nat) (i j : Nat) : Bool := decide (i < m) && (p.getD i 0 == t.getD j 0)

/-- running minimum of row `m` over the columns `0..j` -/
def kminW (init : Nat → Nat) (eq : Nat → Nat → Bool) (m : Nat) : Nat → Nat
  | 0 => m
  | j + 1 => min (kminW init eq m j) (gD init eq (j + 1) m)

theorem min_tri (m i : Nat) : Tri (((min (i + 1) m : Nat) : Int) - (min i m : Nat)) := by
  unfold Tri; omega

theorem refH_eq_dp0 (init : Nat → Nat) (eq : Nat → Nat → Bool) (j i : Nat) :
    refH (fun i => dV init eq j i) (fun i => eq i j) 0 i = dH init eq j i := by
  induction i with
  | zero => rw [dH_zero]; rfl
  | succ i ih => rw [refH, ih, (cell_rule init eq j i).2]

theorem refV_eq_dp0 (init : Nat → Nat) (eq : Nat → Nat → Bool) (j i : Nat) :
    refV (fun i => dV init eq j i) (fun i => eq i j) 0 i = dV init eq (j + 1) i := by
  rw [refV, refH_eq_dp0, (cell_rule init eq j i).1]

/-- row `m` of the single-word DP is row `m` of Sellers' DP for the pattern cut to `m` symbols -/
theorem gD_word_eq (p t : List Nat) (m : Nat) (hm : m ≤ p.length) (init : Nat → Nat) (hinit : ∀ i, i ≤ m → init i = i)
    (j : Nat) (hj : j ≤ t.length) :
    gD init (eqW p t m) j m = gD id (eqPT (p.take m) t) j m := by
  apply gD_congr init id (eqW p t m) (eqPT (p.take m) t) m t.length hinit _ j m hj (Nat.le_refl _)
  intro i j' hi hj'
  have hip : i < (p.take m).length := by rw [List.length_take]; omega
  simp only [eqW, eqPT, List.getElem?_eq_getElem hip, List.getElem?_eq_getElem hj', getD_of_lt _ _ _ (show i < p.length by omega),
    getD_of_lt _ _ _ hj', List.getElem_take, Option.some.injEq, hi, decide_true, Bool.true_and]
  rw [Bool.eq_iff_iff]; simp

theorem kminW_eq_sellers (p t : List Nat) (m : Nat) (hm : m ≤ p.length) (init : Nat → Nat)
    (hinit : ∀ i, i ≤ m → init i = i) :
    kminW init (eqW p t m) m t.length = sellers (p.take m) t := by
  have hS := sellers_eq (p.take m) t
  have hlen : (p.take m).length = m := by rw [List.length_take]; omega
  rw [hlen] at hS
  rw [hS]
  have hgen : ∀ J, J ≤ t.length → kminW init (eqW p t m) m J =
      ((List.range (J + 1)).map fun j => gD id (eqPT (p.take m) t) j m).foldl min m := by
    intro J hJ
    induction J with
    | zero =>
      simp only [kminW, Nat.zero_add, List.range_one, List.map_cons, List.map_nil, List.foldl_cons, List.foldl_nil,
        gD_col_zero, Nat.min_self]
    | succ J ih =>
      rw [kminW, ih (by omega), gD_word_eq p t m hm init hinit _ hJ]
      conv => rhs; rw [List.range_succ, List.map_append, List.foldl_append]
      rfl
  exact hgen t.length (Nat.le_refl _)

structure WInv (init : Nat → Nat) (eq : Nat → Nat → Bool) (m j : Nat) (s : Bpm64St) : Prop where
  enc : Enc s.VP s.VN (fun i => dV init eq j i)
  diff : s.diff = (gD init eq j m : Int)
  k : s.k = (kminW init eq m j : Int)

theorem bpm64Step_spec (init : Nat → Nat) (eq : Nat → Nat → Bool) (hinit : ∀ i, Tri ((init (i + 1) : Int) - init i))
    (m j c : Nat) (hm1 : 1 ≤ m) (hm : m ≤ 63)
    (hrow : ∀ j, gD init eq j m ≤ m)
    (B : Nat → BitVec 64) (hB : ∀ i, i < 64 → (B c).getLsbD i = eq i j) (s : Bpm64St) (hI : WInv init eq m j s) :
    WInv init eq m (j + 1) (bpm64Step B ((1#64) <<< (m - 1)) s c) := by
  obtain ⟨henc, hdiff, hk⟩ := hI
  obtain ⟨h1, h2, h3⟩ := core_step s.VP s.VN (B c) (fun i => dV init eq j i) (fun i => eq i j) (by omega) henc hB
  have hHP : ((bpmCore (B c) s.VP s.VN).2.2.1 &&& ((1#64) <<< (m - 1)) ≠ 0#64) ↔ dH init eq j m = 1 := by
    rw [and_mask_ne_zero _ _ (by omega), h2 (m - 1) (by omega), show m - 1 + 1 = m by omega, refH_eq_dp0]
    simp
  have hHN : ((bpmCore (B c) s.VP s.VN).2.2.2 &&& ((1#64) <<< (m - 1)) ≠ 0#64) ↔ dH init eq j m = -1 := by
    rw [and_mask_ne_zero _ _ (by omega), h3 (m - 1) (by omega), show m - 1 + 1 = m by omega, refH_eq_dp0]
    simp
  have htri := (deltas_tri init eq hinit j m).2
  have hdiff' : s.diff + (if (bpmCore (B c) s.VP s.VN).2.2.1 &&& ((1#64) <<< (m - 1)) ≠ 0#64 then 1 else 0)
      - (if (bpmCore (B c) s.VP s.VN).2.2.2 &&& ((1#64) <<< (m - 1)) ≠ 0#64 then 1 else 0)
      = (gD init eq (j + 1) m : Int) := by
    have hd : dH init eq j m = (gD init eq (j + 1) m : Int) - gD init eq j m := rfl
    rw [hdiff]
    by_cases ha : dH init eq j m = 1
    · rw [if_pos (hHP.2 ha), if_neg (fun h => by have := hHN.1 h; omega)]; omega
    · by_cases hb : dH init eq j m = -1
      · rw [if_neg (fun h => ha (hHP.1 h)), if_pos (hHN.2 hb)]; omega
      · rw [if_neg (fun h => ha (hHP.1 h)), if_neg (fun h => hb (hHN.1 h))]
        rcases htri with h | h | h <;> omega
  refine ⟨?_, ?_, ?_⟩
  · exact h1.congr (fun i _ => refV_eq_dp0 init eq j i)
  · exact hdiff'
  · show (if _ < s.k then toInt8 _ else s.k) = _
    rw [hdiff', hk, kminW]
    have := hrow (j + 1)
    rw [toInt8_small _ (by omega) (by omega)]
    split <;> omega

/-- `bpm` returns the value of Sellers' DP for the first 63 symbols of the pattern -/
theorem bpm64_eq_sellers (t p : List Nat) (hp0 : p ≠ []) (ht : ∀ c ∈ t, c < 13) (hp : ∀ c ∈ p, c < 13) :
    bpm64 t p = some (sellers (p.take 63) t) := by
  generalize hm : min p.length 63 = m
  have hm1 : 1 ≤ m := by
    have : 0 < p.length := List.length_pos_iff.2 hp0
    omega
  have hanyp : ((p.take m).any fun c => decide (SIGMA ≤ c)) = false := by
    rw [List.any_eq_false]
    intro c hc h
    have h' : SIGMA ≤ c := of_decide_eq_true h
    have := hp c (List.mem_of_mem_take hc)
    simp only [SIGMA] at h'; omega
  have hanyt : (t.any fun c => decide (SIGMA ≤ c)) = false := by
    rw [List.any_eq_false]
    intro c hc h
    have h' : SIGMA ≤ c := of_decide_eq_true h
    have := ht c hc
    simp only [SIGMA] at h'; omega
  unfold bpm64
  simp only [hm]
  rw [if_neg (by omega), hanyp, hanyt]
  simp only [Bool.or_self, Bool.false_eq_true, if_false]
  -- the loop
  let init : Nat → Nat := fun i => min i m
  let eq := eqW p t m
  have hinit : ∀ i, Tri ((init (i + 1) : Int) - init i) := fun i => min_tri m i
  have hrow : ∀ j, gD init eq j m ≤ m := by
    intro j
    have h := (deltas_tri init eq hinit j)
    have : ∀ i, gD init eq j i ≤ i := by
      intro i
      induction i with
      | zero =>
        have : ∀ j, gD init eq j 0 = 0 := by
          intro j; induction j with
          | zero => rw [gD]; simp [init]
          | succ j ih => rw [gD, ih]
        rw [this]; exact Nat.le_refl _
      | succ i ih =>
        have := (h i).1
        simp only [dV, Tri] at this
        omega
    exact this m
  have hB : ∀ c, c < 13 → ∀ i, i < 64 →
      ((((List.range SIGMA).map fun c => bpmB 64 p m c).toArray).getD c 0#64).getLsbD i
        = (decide (i < m) && (p.getD i 0 == c)) := by
    intro c hc i hi
    have : (((List.range SIGMA).map fun c => bpmB 64 p m c).toArray).getD c 0#64 = bpmB 64 p m c := by
      simp [Array.getD, SIGMA, hc]
    rw [this, bpmB_bit 64 p m c i (by omega) hi]
  have hfold : ∀ j, j ≤ t.length → WInv init eq m j
      ((t.take j).foldl (bpm64Step (fun c => (((List.range SIGMA).map fun c => bpmB 64 p m c).toArray).getD c 0#64)
        ((1#64) <<< (m - 1))) { VP := ((1#64) <<< m) - 1#64, VN := 0#64, diff := (m : Int), k := (m : Int) }) := by
    intro j hj
    induction j with
    | zero =>
      refine ⟨?_, ?_, rfl⟩
      · intro i hi
        have hd : dV init eq 0 i = if i < m then 1 else 0 := by
          simp only [dV, gD, init]; split <;> omega
        dsimp only
        refine ⟨by rw [hd]; split <;> simp [Tri], ?_, ?_⟩
        · show (((1#64) <<< m) - 1#64).getLsbD i = decide (dV init eq 0 i = 1)
          rw [vp0_bit m i (by omega) hi]
          by_cases him : i < m <;> simp [hd, him]
        · show (0#64).getLsbD i = decide (dV init eq 0 i = -1)
          by_cases him : i < m <;> simp [hd, him]
      · show (m : Int) = (gD init eq 0 m : Int)
        rw [gD]; simp [init]
    | succ j ih =>
      have hj' : j < t.length := by omega
      rw [← List.take_append_getElem hj', List.foldl_append]
      simp only [List.foldl_cons, List.foldl_nil]
      apply bpm64Step_spec init eq hinit m j t[j] hm1 (by omega) hrow _ _ _ (ih (by omega))
      intro i hi
      rw [hB t[j] (ht _ (List.getElem_mem hj')) i hi]
      simp only [eq, eqW, getD_of_lt _ _ _ hj']
  have hfin := hfold t.length (Nat.le_refl _)
  rw [List.take_length] at hfin
  rw [hfin.k]
  have hmp : m ≤ p.length := by omega
  have hkm := kminW_eq_sellers p t m hmp init (fun i hi => by simp only [init]; omega)
  have hle : kminW init eq m t.length ≤ m := by
    have : ∀ J, kminW init eq m J ≤ m := by
      intro J; induction J with
      | zero => exact Nat.le_refl _
      | succ J ih => rw [kminW]; omega
    exact this _
  rw [toUInt8_small _ (by omega), hkm]
  have : List.take m p = List.take 63 p := by
    rw [← hm]
    by_cases h : p.length ≤ 63
    · rw [Nat.min_eq_left h, List.take_of_length_le (Nat.le_refl _), List.take_of_length_le h]
    · rw [Nat.min_eq_right (by omega)]
  rw [this]

end Kalign
