import KalignModel.Model.Tree
/-!
# UPGMA over exact arithmetic: a set of mutually closest leaves becomes a clade

`upgmaExact` (Model/Tree.lean) keeps integers scaled by `2^stage`.  If the leaves `C` are at mutual distance at most
`A`, every other leaf is at distance at least `A + H` from every member of `C`, and `n * delta < H`, then the tree
contains a subtree whose leaves are exactly `C`: while two subtrees inside `C` are still separate their distance is
at most `A + k*delta` after `k` joins, which stays below the distance `≥ A + H` of any mixed pair.
-/
namespace Kalign

/-! ## small tools -/

theorem tabGet_mkTab (n : Nat) (f : Nat → Nat → Int) (i j : Nat) (hi : i < n) (hj : j < n) :
    tabGet (mkTab n f) i j = f i j := by
  simp [tabGet, mkTab, Array.getD, hi, hj]

theorem firstMin_spec (dm : Nat → Nat → Int) (l : List (Nat × Nat)) (best : Option (Nat × Nat)) (r : Nat × Nat)
    (h : firstMin dm l best = some r) :
    (r ∈ l ∨ best = some r) ∧ (∀ q ∈ l, dm r.1 r.2 ≤ dm q.1 q.2) ∧ (∀ b, best = some b → dm r.1 r.2 ≤ dm b.1 b.2) := by
  induction l generalizing best with
  | nil =>
    simp only [firstMin] at h
    subst h
    refine ⟨Or.inr rfl, ?_, ?_⟩
    · intro q hq; cases hq
    · intro b hb; cases hb; exact Int.le_refl _
  | cons q l ih =>
    obtain ⟨i, j⟩ := q
    cases best with
    | none =>
      simp only [firstMin] at h
      obtain ⟨h1, h2, h3⟩ := ih _ h
      refine ⟨?_, ?_, fun b hb => by cases hb⟩
      · rcases h1 with h1 | h1
        · exact Or.inl (List.mem_cons_of_mem _ h1)
        · cases h1; exact Or.inl List.mem_cons_self
      · intro q hq
        rcases List.mem_cons.1 hq with rfl | hq
        · exact h3 _ rfl
        · exact h2 q hq
    | some b =>
      obtain ⟨a, b⟩ := b
      simp only [firstMin] at h
      obtain ⟨h1, h2, h3⟩ := ih _ h
      by_cases hlt : dm i j < dm a b
      · simp only [hlt, if_true] at h1 h3
        refine ⟨?_, ?_, ?_⟩
        · rcases h1 with h1 | h1
          · exact Or.inl (List.mem_cons_of_mem _ h1)
          · cases h1; exact Or.inl List.mem_cons_self
        · intro q hq
          rcases List.mem_cons.1 hq with rfl | hq
          · exact h3 _ rfl
          · exact h2 q hq
        · intro b' hb'
          cases hb'
          have := h3 _ rfl
          simp only at this ⊢
          omega
      · simp only [hlt, if_false] at h1 h3
        refine ⟨?_, ?_, ?_⟩
        · rcases h1 with h1 | h1
          · exact Or.inl (List.mem_cons_of_mem _ h1)
          · exact Or.inr h1
        · intro q hq
          rcases List.mem_cons.1 hq with rfl | hq
          · have := h3 _ rfl
            simp only at this ⊢
            omega
          · exact h2 q hq
        · intro b' hb'
          cases hb'
          exact h3 _ rfl

theorem firstMin_isSome (dm : Nat → Nat → Int) (l : List (Nat × Nat)) (best : Option (Nat × Nat))
    (h : l ≠ [] ∨ best.isSome) : (firstMin dm l best).isSome := by
  induction l generalizing best with
  | nil =>
    rcases h with h | h
    · exact absurd rfl h
    · simpa [firstMin] using h
  | cons q l ih =>
    obtain ⟨i, j⟩ := q
    cases best with
    | none => simp only [firstMin]; exact ih _ (Or.inr rfl)
    | some b =>
      obtain ⟨a, b⟩ := b
      simp only [firstMin]
      apply ih
      right
      split <;> rfl

theorem mem_activePairs (n : Nat) (act : Nat → Bool) (i j : Nat) :
    (i, j) ∈ activePairs n act ↔ i < n ∧ j < n ∧ i < j ∧ act i = true ∧ act j = true := by
  simp only [activePairs, List.mem_flatMap, List.mem_range]
  constructor
  · rintro ⟨a, ha, h⟩
    by_cases hact : act a = true
    · simp only [hact, if_true, List.mem_map, List.mem_filter, List.mem_range, Bool.and_eq_true,
        decide_eq_true_eq, Prod.mk.injEq] at h
      obtain ⟨b, ⟨hb, hab, hactb⟩, rfl, rfl⟩ := h
      exact ⟨ha, hb, hab, hact, hactb⟩
    · simp [hact] at h
  · rintro ⟨hi, hj, hij, hai, haj⟩
    refine ⟨i, hi, ?_⟩
    simp only [hai, if_true, List.mem_map, List.mem_filter, List.mem_range, Bool.and_eq_true,
      decide_eq_true_eq, Prod.mk.injEq]
    refine ⟨j, ⟨hj, hij, haj⟩, ?_⟩
    simp

theorem GTree.leaves_ne_nil (t : GTree) : t.leaves ≠ [] := by
  induction t with
  | leaf i => simp [GTree.leaves]
  | node l r ihl _ => simp [GTree.leaves, ihl]

theorem GTree.self_mem_subtrees (t : GTree) : t ∈ t.subtrees := by
  cases t <;> simp [GTree.subtrees]

theorem GTree.subtrees_trans {s t u : GTree} (h1 : s ∈ t.subtrees) (h2 : t ∈ u.subtrees) : s ∈ u.subtrees := by
  induction u with
  | leaf i =>
    simp only [GTree.subtrees, List.mem_singleton] at h2
    subst h2; exact h1
  | node l r ihl ihr =>
    simp only [GTree.subtrees, List.mem_cons, List.mem_append] at h2 ⊢
    rcases h2 with rfl | h2 | h2
    · simpa only [GTree.subtrees, List.mem_cons, List.mem_append] using h1
    · exact Or.inr (Or.inl (ihl h2))
    · exact Or.inr (Or.inr (ihr h2))

/-! ## the bounds -/

/-- upper bound of the scaled distances inside `C` after `k` joins: `2^k * (A + k*delta)` -/
def ubound (A delta : Int) : Nat → Int
  | 0 => A
  | k + 1 => 2 * ubound A delta k + 2 ^ (k + 1) * delta

/-- lower bound of the scaled distances between `C` and the rest: `2^k * L` -/
def lbound (L : Int) : Nat → Int
  | 0 => L
  | k + 1 => 2 * lbound L k

theorem bound_gap (A H delta : Int) (k : Nat) :
    lbound (A + H) k - ubound A delta k = 2 ^ k * (H - k * delta) := by
  induction k with
  | zero => simp only [lbound, ubound]; omega
  | succ k ih =>
    simp only [lbound, ubound]
    have : (2 : Int) ^ (k + 1) = 2 * 2 ^ k := by rw [Int.pow_succ]; omega
    rw [this]
    have e : 2 * lbound (A + H) k - (2 * ubound A delta k + 2 * 2 ^ k * delta)
        = 2 * (lbound (A + H) k - ubound A delta k) - 2 * 2 ^ k * delta := by omega
    rw [e, ih]
    push_cast
    grind

theorem ubound_lt_lbound (A H delta : Int) (k : Nat) (h : (k : Int) * delta < H) :
    ubound A delta k < lbound (A + H) k := by
  have h1 := bound_gap A H delta k
  have h2 : (0 : Int) < 2 ^ k * (H - k * delta) := Int.mul_pos (Int.pow_pos (by omega)) (by omega)
  omega

/-! ## invariants -/

def CType (c : Nat → Bool) (t : GTree) : Prop := ∀ x ∈ t.leaves, c x = true
def RType (c : Nat → Bool) (t : GTree) : Prop := ∀ x ∈ t.leaves, c x = false

theorem ctype_rtype_absurd {c : Nat → Bool} {t : GTree} (h1 : CType c t) (h2 : RType c t) : False := by
  cases h : t.leaves with
  | nil => exact GTree.leaves_ne_nil t h
  | cons x l =>
    have hx : x ∈ t.leaves := by rw [h]; exact List.mem_cons_self
    have := h1 x hx
    rw [h2 x hx] at this
    cases this

theorem CType.node {c : Nat → Bool} {l r : GTree} (h1 : CType c l) (h2 : CType c r) : CType c (.node l r) := by
  intro x hx
  rcases List.mem_append.1 hx with h | h
  · exact h1 x h
  · exact h2 x h

theorem RType.node {c : Nat → Bool} {l r : GTree} (h1 : RType c l) (h2 : RType c r) : RType c (.node l r) := by
  intro x hx
  rcases List.mem_append.1 hx with h | h
  · exact h1 x h
  · exact h2 x h

structure Base (n k : Nat) (st : EState) : Prop where
  stage : st.stage = k
  count : ((List.range n).filter st.act).length = n - k
  last : st.last < n ∧ st.act st.last = true
  lt : ∀ i, i < n → st.act i = true → ∀ x ∈ (st.tree i).leaves, x < n

structure Pre (n : Nat) (c : Nat → Bool) (A H delta : Int) (k : Nat) (st : EState) : Prop where
  pure : ∀ i, i < n → st.act i = true → CType c (st.tree i) ∨ RType c (st.tree i)
  cover : ∀ x, x < n → c x = true →
    ∃ i, i < n ∧ st.act i = true ∧ CType c (st.tree i) ∧ x ∈ (st.tree i).leaves
  cc : ∀ i i', i < n → i' < n → i ≠ i' → st.act i = true → st.act i' = true →
    CType c (st.tree i) → CType c (st.tree i') → st.dm i i' ≤ ubound A delta k
  cr : ∀ i z, i < n → z < n → st.act i = true → st.act z = true → CType c (st.tree i) → RType c (st.tree z) →
    lbound (A + H) k ≤ st.dm i z ∧ lbound (A + H) k ≤ st.dm z i

/-- some active tree contains a subtree whose leaves are exactly the members of `C` -/
def Post (n : Nat) (c : Nat → Bool) (st : EState) : Prop :=
  ∃ i, i < n ∧ st.act i = true ∧ ∃ s ∈ (st.tree i).subtrees, ∀ x, x ∈ s.leaves ↔ (x < n ∧ c x = true)

theorem exists_two_active (n : Nat) (act : Nat → Bool) (h : 2 ≤ ((List.range n).filter act).length) :
    ∃ i j, i < j ∧ j < n ∧ act i = true ∧ act j = true := by
  have hp : ((List.range n).filter act).Pairwise (· < ·) := List.Pairwise.filter _ List.pairwise_lt_range
  match hl : (List.range n).filter act, h with
  | x :: y :: rest, _ =>
    rw [hl] at hp
    have hxy : x < y := (List.pairwise_cons.1 hp).1 y List.mem_cons_self
    have hx : x ∈ (List.range n).filter act := by rw [hl]; exact List.mem_cons_self
    have hy : y ∈ (List.range n).filter act := by rw [hl]; exact List.mem_cons_of_mem _ List.mem_cons_self
    rw [List.mem_filter, List.mem_range] at hx hy
    exact ⟨x, y, hxy, hy.1, hx.2, hy.2⟩

theorem filter_deactivate (l : List Nat) (act : Nat → Bool) (b : Nat) (hnd : l.Nodup) (hb : b ∈ l) (hact : act b = true) :
    (l.filter fun i => if i = b then false else act i).length + 1 = (l.filter act).length := by
  induction l with
  | nil => cases hb
  | cons x l ih =>
    have hnd' := List.nodup_cons.1 hnd
    by_cases hx : x = b
    · subst hx
      have : l.filter (fun i => if i = x then false else act i) = l.filter act := by
        apply List.filter_congr
        intro y hy
        have : y ≠ x := fun h => hnd'.1 (h ▸ hy)
        simp [this]
      rw [List.filter_cons_of_neg (by simp), List.filter_cons_of_pos hact, this, List.length_cons]
    · have hb' : b ∈ l := by
        rcases List.mem_cons.1 hb with h | h
        · exact absurd h.symm hx
        · exact h
      have := ih hnd'.2 hb'
      by_cases hax : act x = true
      · rw [List.filter_cons_of_pos (by simp [hx, hax]), List.filter_cons_of_pos hax, List.length_cons,
          List.length_cons]
        omega
      · rw [List.filter_cons_of_neg (by simp [hx, hax]), List.filter_cons_of_neg hax]
        exact this

theorem unique_active (n : Nat) (act : Nat → Bool) (h : ((List.range n).filter act).length = 1) (i j : Nat)
    (hi : i < n) (hj : j < n) (hai : act i = true) (haj : act j = true) : i = j := by
  match hl : (List.range n).filter act, h with
  | [z], _ =>
    have h1 : i ∈ (List.range n).filter act := List.mem_filter.2 ⟨List.mem_range.2 hi, hai⟩
    have h2 : j ∈ (List.range n).filter act := List.mem_filter.2 ⟨List.mem_range.2 hj, haj⟩
    rw [hl, List.mem_singleton] at h1 h2
    rw [h1, h2]

/-! ## one round -/

/-- the state after joining `a` and `b` -/
def joined (n : Nat) (delta : Int) (st : EState) (a b : Nat) : EState :=
  { tab := mkTab n (joinDm delta st.stage st.dm a b),
    act := fun i => if i = b then false else st.act i,
    tree := fun i => if i = a then .node (st.tree a) (st.tree b) else st.tree i,
    stage := st.stage + 1, last := a }

theorem exactRound_eq (n : Nat) (delta : Int) (st : EState) (a b : Nat)
    (h : firstMin st.dm (activePairs n st.act) none = some (a, b)) :
    exactRound n delta st = some (joined n delta st a b) := by
  simp [exactRound, h, joined]

theorem joined_dm (n : Nat) (delta : Int) (st : EState) (a b i j : Nat) (hi : i < n) (hj : j < n) :
    (joined n delta st a b).dm i j = joinDm delta st.stage st.dm a b i j := by
  simp only [EState.dm, joined]
  exact tabGet_mkTab n _ i j hi hj

theorem joined_dm_row (n : Nat) (delta : Int) (st : EState) (a b j : Nat) (ha : a < n) (hj : j < n) (h1 : j ≠ a)
    (h2 : j ≠ b) :
    (joined n delta st a b).dm a j = st.dm a j + st.dm b j + 2 ^ (st.stage + 1) * delta := by
  rw [joined_dm n delta st a b a j ha hj]; simp [joinDm, h1, h2]

theorem joined_dm_col (n : Nat) (delta : Int) (st : EState) (a b i : Nat) (ha : a < n) (hi : i < n) (h1 : i ≠ a)
    (h2 : i ≠ b) :
    (joined n delta st a b).dm i a = st.dm a i + st.dm b i + 2 ^ (st.stage + 1) * delta := by
  rw [joined_dm n delta st a b i a hi ha]; simp [joinDm, h1, h2]

theorem joined_dm_other (n : Nat) (delta : Int) (st : EState) (a b i j : Nat) (hi : i < n) (hj : j < n) (h1 : i ≠ a)
    (h2 : j ≠ a) : (joined n delta st a b).dm i j = 2 * st.dm i j := by
  rw [joined_dm n delta st a b i j hi hj]; simp [joinDm, h1, h2]

theorem round_step (n : Nat) (c : Nat → Bool) (A H delta : Int) (hδ : 0 ≤ delta) (hH : (n : Int) * delta < H)
    (k : Nat) (st : EState) (hk : k + 2 ≤ n) (hB : Base n k st)
    (hI : Pre n c A H delta k st ∨ Post n c st) :
    ∃ st', exactRound n delta st = some st' ∧ Base n (k + 1) st' ∧
      (Pre n c A H delta (k + 1) st' ∨ Post n c st') := by
  -- the pair that is selected
  obtain ⟨i0, j0, hij0, hj0, hai0, haj0⟩ := exists_two_active n st.act (by rw [hB.count]; omega)
  have hmem0 : (i0, j0) ∈ activePairs n st.act := (mem_activePairs n st.act i0 j0).2 ⟨by omega, hj0, hij0, hai0, haj0⟩
  have hsome := firstMin_isSome st.dm (activePairs n st.act) none (Or.inl (List.ne_nil_of_mem hmem0))
  obtain ⟨⟨a, b⟩, hab⟩ := Option.isSome_iff_exists.1 hsome
  obtain ⟨hm, hmin, _⟩ := firstMin_spec st.dm _ none (a, b) hab
  have hm : (a, b) ∈ activePairs n st.act := by
    rcases hm with h | h
    · exact h
    · cases h
  obtain ⟨han, hbn, hltab, haa, hab'⟩ := (mem_activePairs n st.act a b).1 hm
  have hne : a ≠ b := by omega
  refine ⟨joined n delta st a b, exactRound_eq n delta st a b hab, ?_, ?_⟩
  · -- Base
    refine ⟨by simp [joined, hB.stage], ?_, ⟨han, by simp [joined, hne, haa]⟩, ?_⟩
    · have := filter_deactivate (List.range n) st.act b List.nodup_range (List.mem_range.2 hbn) hab'
      have h2 := hB.count
      simp only [joined]
      omega
    · intro i hi hact x hx
      simp only [joined] at hact hx
      have hib : i ≠ b := by intro h; simp [h] at hact
      simp only [hib, if_false] at hact
      by_cases hia : i = a
      · subst hia
        simp only [if_true, GTree.leaves] at hx
        rcases List.mem_append.1 hx with h | h
        · exact hB.lt i hi haa x h
        · exact hB.lt b hbn hab' x h
      · simp only [hia, if_false] at hx
        exact hB.lt i hi hact x hx
  · -- the invariant
    have hE : (0 : Int) ≤ 2 ^ (k + 1) * delta := Int.mul_nonneg (Int.le_of_lt (Int.pow_pos (by omega))) hδ
    have hgap : ubound A delta k < lbound (A + H) k := by
      apply ubound_lt_lbound
      have : (k : Int) * delta ≤ (n : Int) * delta := Int.mul_le_mul_of_nonneg_right (by omega) hδ
      omega
    have hact' : ∀ i, (joined n delta st a b).act i = true → i ≠ b ∧ st.act i = true := by
      intro i h
      simp only [joined] at h
      by_cases hib : i = b
      · simp [hib] at h
      · simp only [hib, if_false] at h; exact ⟨hib, h⟩
    have htree_a : (joined n delta st a b).tree a = .node (st.tree a) (st.tree b) := by simp [joined]
    have htree_o : ∀ i, i ≠ a → (joined n delta st a b).tree i = st.tree i := by
      intro i h; simp [joined, h]
    have hact_a : (joined n delta st a b).act a = true := by simp [joined, hne, haa]
    have hact_o : ∀ i, i ≠ b → st.act i = true → (joined n delta st a b).act i = true := by
      intro i h1 h2; simp [joined, h1, h2]
    have hstage : st.stage = k := hB.stage
    -- Post is stable
    have post_stable : Post n c st → Post n c (joined n delta st a b) := by
      rintro ⟨i, hi, hai, s, hs, hls⟩
      by_cases hia : i = a
      · subst hia
        refine ⟨i, hi, hact_a, s, ?_, hls⟩
        rw [htree_a]
        exact GTree.subtrees_trans hs (by simp [GTree.subtrees, GTree.self_mem_subtrees])
      · by_cases hib : i = b
        · subst hib
          refine ⟨a, han, hact_a, s, ?_, hls⟩
          rw [htree_a]
          exact GTree.subtrees_trans hs (by simp [GTree.subtrees, GTree.self_mem_subtrees])
        · exact ⟨i, hi, hact_o i hib hai, s, by rw [htree_o i hia]; exact hs, hls⟩
    rcases hI with hP | hP
    rotate_left
    · exact Or.inr (post_stable hP)
    -- a mixed join means that the C-side is already complete
    have mixed : ∀ i1 i2, (i1 = a ∧ i2 = b ∨ i1 = b ∧ i2 = a) → CType c (st.tree i1) → RType c (st.tree i2) →
        Post n c st := by
      intro i1 i2 hor hC hR
      have hi1n : i1 < n := by rcases hor with ⟨h, _⟩ | ⟨h, _⟩ <;> omega
      have hi2n : i2 < n := by rcases hor with ⟨_, h⟩ | ⟨_, h⟩ <;> omega
      have hai1 : st.act i1 = true := by rcases hor with ⟨h, _⟩ | ⟨h, _⟩ <;> simp [h, haa, hab']
      have hai2 : st.act i2 = true := by rcases hor with ⟨_, h⟩ | ⟨_, h⟩ <;> simp [h, haa, hab']
      have hbig : lbound (A + H) k ≤ st.dm a b := by
        have := hP.cr i1 i2 hi1n hi2n hai1 hai2 hC hR
        rcases hor with ⟨h1, h2⟩ | ⟨h1, h2⟩
        · rw [h1, h2] at this; exact this.1
        · rw [h1, h2] at this; exact this.2
      refine ⟨i1, hi1n, hai1, st.tree i1, GTree.self_mem_subtrees _, ?_⟩
      intro x
      constructor
      · intro hx; exact ⟨hB.lt i1 hi1n hai1 x hx, hC x hx⟩
      · rintro ⟨hxn, hcx⟩
        obtain ⟨i3, hi3n, hai3, hC3, hx3⟩ := hP.cover x hxn hcx
        by_cases h13 : i3 = i1
        · rw [← h13]; exact hx3
        · exfalso
          -- two different active subtrees inside C are closer than the selected mixed pair
          have hsmall : ∀ p q, p < q → (p = i1 ∧ q = i3 ∨ p = i3 ∧ q = i1) → False := by
            intro p q hpq hpq'
            have hpn : p < n := by rcases hpq' with ⟨h, _⟩ | ⟨h, _⟩ <;> omega
            have hqn : q < n := by rcases hpq' with ⟨_, h⟩ | ⟨_, h⟩ <;> omega
            have hap : st.act p = true := by rcases hpq' with ⟨h, _⟩ | ⟨h, _⟩ <;> simp [h, hai1, hai3]
            have haq : st.act q = true := by rcases hpq' with ⟨_, h⟩ | ⟨_, h⟩ <;> simp [h, hai1, hai3]
            have hCp : CType c (st.tree p) := by rcases hpq' with ⟨h, _⟩ | ⟨h, _⟩ <;> rw [h] <;> assumption
            have hCq : CType c (st.tree q) := by rcases hpq' with ⟨_, h⟩ | ⟨_, h⟩ <;> rw [h] <;> assumption
            have h1 := hP.cc p q hpn hqn (by omega) hap haq hCp hCq
            have h2 := hmin (p, q) ((mem_activePairs n st.act p q).2 ⟨hpn, hqn, hpq, hap, haq⟩)
            simp only at h2
            omega
          rcases Nat.lt_or_gt_of_ne h13 with h | h
          · exact hsmall i3 i1 h (Or.inr ⟨rfl, rfl⟩)
          · exact hsmall i1 i3 h (Or.inl ⟨rfl, rfl⟩)
    rcases hP.pure a han haa with hCa | hRa <;> rcases hP.pure b hbn hab' with hCb | hRb
    · -- both inside C
      left
      have hCn : CType c ((joined n delta st a b).tree a) := by rw [htree_a]; exact hCa.node hCb
      refine ⟨?_, ?_, ?_, ?_⟩
      · intro i hi hact
        obtain ⟨hib, hacti⟩ := hact' i hact
        by_cases hia : i = a
        · subst hia; exact Or.inl hCn
        · rw [htree_o i hia]; exact hP.pure i hi hacti
      · intro x hxn hcx
        obtain ⟨i3, hi3n, hai3, hC3, hx3⟩ := hP.cover x hxn hcx
        by_cases h3a : i3 = a
        · subst h3a
          exact ⟨i3, hi3n, hact_a, hCn, by rw [htree_a]; exact List.mem_append_left _ hx3⟩
        · by_cases h3b : i3 = b
          · subst h3b
            exact ⟨a, han, hact_a, hCn, by rw [htree_a]; exact List.mem_append_right _ hx3⟩
          · exact ⟨i3, hi3n, hact_o i3 h3b hai3, by rw [htree_o i3 h3a]; exact hC3, by rw [htree_o i3 h3a]; exact hx3⟩
      · intro i i' hi hi' hii' hai hai' hCi hCi'
        obtain ⟨hib, hacti⟩ := hact' i hai
        obtain ⟨hib', hacti'⟩ := hact' i' hai'
        simp only [ubound]
        by_cases hia : i = a
        · subst hia
          have hi'a : i' ≠ i := fun h => hii' h.symm
          rw [htree_o i' hi'a] at hCi'
          rw [joined_dm_row n delta st i b i' hi hi' hi'a hib', hstage]
          have h1 := hP.cc i i' hi hi' hii' haa hacti' hCa hCi'
          have h2 := hP.cc b i' hbn hi' (fun h => hib' h.symm) hab' hacti' hCb hCi'
          omega
        · rw [htree_o i hia] at hCi
          by_cases hia' : i' = a
          · subst hia'
            rw [joined_dm_col n delta st i' b i hi' hi hia hib, hstage]
            have h1 := hP.cc i' i hi' hi (fun h => hia h.symm) haa hacti hCa hCi
            have h2 := hP.cc b i hbn hi (fun h => hib h.symm) hab' hacti hCb hCi
            omega
          · rw [htree_o i' hia'] at hCi'
            rw [joined_dm_other n delta st a b i i' hi hi' hia hia']
            have h1 := hP.cc i i' hi hi' hii' hacti hacti' hCi hCi'
            omega
      · intro i z hi hz hai haz hCi hRz
        obtain ⟨hib, hacti⟩ := hact' i hai
        obtain ⟨hzb, hactz⟩ := hact' z haz
        simp only [lbound]
        by_cases hza : z = a
        · subst hza; exact (ctype_rtype_absurd hCn hRz).elim
        · rw [htree_o z hza] at hRz
          by_cases hia : i = a
          · subst hia
            rw [joined_dm_row n delta st i b z hi hz hza hzb, joined_dm_col n delta st i b z hi hz hza hzb, hstage]
            have h1 := hP.cr i z hi hz haa hactz hCa hRz
            have h2 := hP.cr b z hbn hz hab' hactz hCb hRz
            omega
          · rw [htree_o i hia] at hCi
            rw [joined_dm_other n delta st a b i z hi hz hia hza, joined_dm_other n delta st a b z i hz hi hza hia]
            have h1 := hP.cr i z hi hz hacti hactz hCi hRz
            omega
    · exact Or.inr (post_stable (mixed a b (Or.inl ⟨rfl, rfl⟩) hCa hRb))
    · exact Or.inr (post_stable (mixed b a (Or.inr ⟨rfl, rfl⟩) hCb hRa))
    · -- both outside C
      left
      have hRn : RType c ((joined n delta st a b).tree a) := by rw [htree_a]; exact hRa.node hRb
      refine ⟨?_, ?_, ?_, ?_⟩
      · intro i hi hact
        obtain ⟨hib, hacti⟩ := hact' i hact
        by_cases hia : i = a
        · subst hia; exact Or.inr hRn
        · rw [htree_o i hia]; exact hP.pure i hi hacti
      · intro x hxn hcx
        obtain ⟨i3, hi3n, hai3, hC3, hx3⟩ := hP.cover x hxn hcx
        have h3a : i3 ≠ a := fun h => ctype_rtype_absurd (h ▸ hC3) hRa
        have h3b : i3 ≠ b := fun h => ctype_rtype_absurd (h ▸ hC3) hRb
        exact ⟨i3, hi3n, hact_o i3 h3b hai3, by rw [htree_o i3 h3a]; exact hC3, by rw [htree_o i3 h3a]; exact hx3⟩
      · intro i i' hi hi' hii' hai hai' hCi hCi'
        obtain ⟨hib, hacti⟩ := hact' i hai
        obtain ⟨hib', hacti'⟩ := hact' i' hai'
        have hia : i ≠ a := fun h => ctype_rtype_absurd (h ▸ hCi) hRn
        have hia' : i' ≠ a := fun h => ctype_rtype_absurd (h ▸ hCi') hRn
        rw [htree_o i hia] at hCi
        rw [htree_o i' hia'] at hCi'
        simp only [ubound]
        rw [joined_dm_other n delta st a b i i' hi hi' hia hia']
        have h1 := hP.cc i i' hi hi' hii' hacti hacti' hCi hCi'
        omega
      · intro i z hi hz hai haz hCi hRz
        obtain ⟨hib, hacti⟩ := hact' i hai
        obtain ⟨hzb, hactz⟩ := hact' z haz
        have hia : i ≠ a := fun h => ctype_rtype_absurd (h ▸ hCi) hRn
        rw [htree_o i hia] at hCi
        simp only [lbound]
        by_cases hza : z = a
        · subst hza
          rw [joined_dm_col n delta st z b i hz hi hia hib, joined_dm_row n delta st z b i hz hi hia hib, hstage]
          have h1 := hP.cr i z hi hz hacti haa hCi hRa
          have h2 := hP.cr i b hi hbn hacti hab' hCi hRb
          omega
        · rw [htree_o z hza] at hRz
          rw [joined_dm_other n delta st a b i z hi hz hia hza, joined_dm_other n delta st a b z i hz hi hza hia]
          have h1 := hP.cr i z hi hz hacti hactz hCi hRz
          omega

/-! ## all rounds -/

theorem rounds_step (n : Nat) (c : Nat → Bool) (A H delta : Int) (hδ : 0 ≤ delta) (hH : (n : Int) * delta < H)
    (m k : Nat) (st : EState) (hkm : k + m + 1 ≤ n) (hB : Base n k st)
    (hI : Pre n c A H delta k st ∨ Post n c st) :
    ∃ st', iterOpt (exactRound n delta) m st = some st' ∧ Base n (k + m) st' ∧
      (Pre n c A H delta (k + m) st' ∨ Post n c st') := by
  induction m generalizing k st with
  | zero => exact ⟨st, rfl, hB, hI⟩
  | succ m ih =>
    obtain ⟨st1, h1, hB1, hI1⟩ := round_step n c A H delta hδ hH k st (by omega) hB hI
    obtain ⟨st2, h2, hB2, hI2⟩ := ih (k + 1) st1 (by omega) hB1 hI1
    refine ⟨st2, ?_, ?_, ?_⟩
    · simp only [iterOpt, h1, Option.bind_some]; exact h2
    · rw [show k + (m + 1) = k + 1 + m by omega]; exact hB2
    · rw [show k + (m + 1) = k + 1 + m by omega]; exact hI2

/-- **clade theorem for exact UPGMA.**  `c` marks the leaves of `C` (non-empty); inside `C` all distances are at
most `A`, between `C` and the other leaves at least `A + H` (both orders), and `n * delta < H`.  Then the tree built
by `upgmaExact` has a subtree whose leaf set is exactly `C`. -/
theorem upgmaExact_clade (n : Nat) (c : Nat → Bool) (A H delta : Int) (dm0 : Nat → Nat → Int)
    (hδ : 0 ≤ delta) (hH : (n : Int) * delta < H)
    (hC : ∃ x, x < n ∧ c x = true)
    (hcc : ∀ x y, x < n → y < n → x ≠ y → c x = true → c y = true → dm0 x y ≤ A)
    (hcr : ∀ x z, x < n → z < n → c x = true → c z = false → A + H ≤ dm0 x z ∧ A + H ≤ dm0 z x) :
    ∃ T, upgmaExact n dm0 delta = some T ∧
      ∃ s ∈ T.subtrees, ∀ x, x ∈ s.leaves ↔ (x < n ∧ c x = true) := by
  obtain ⟨x0, hx0n, hcx0⟩ := hC
  have hn : n ≠ 0 := by omega
  let st0 : EState := { tab := mkTab n dm0, act := fun _ => true, tree := GTree.leaf, stage := 0, last := 0 }
  have hdm0 : ∀ i j, i < n → j < n → st0.dm i j = dm0 i j := fun i j hi hj => tabGet_mkTab n dm0 i j hi hj
  have hB0 : Base n 0 st0 := by
    refine ⟨rfl, ?_, ⟨by show 0 < n; omega, rfl⟩, ?_⟩
    · show ((List.range n).filter fun _ => true).length = n - 0
      rw [List.filter_eq_self.2 (fun _ _ => rfl), List.length_range]; rfl
    · intro i hi _ x hx
      have : x = i := by simpa [st0, GTree.leaves] using hx
      omega
  have hleafC : ∀ i, CType c (st0.tree i) → c i = true := fun i h => h i (by simp [st0, GTree.leaves])
  have hleafR : ∀ i, RType c (st0.tree i) → c i = false := fun i h => h i (by simp [st0, GTree.leaves])
  have hP0 : Pre n c A H delta 0 st0 := by
    refine ⟨?_, ?_, ?_, ?_⟩
    · intro i _ _
      cases hci : c i
      · right; intro x hx
        have : x = i := by simpa [st0, GTree.leaves] using hx
        rw [this]; exact hci
      · left; intro x hx
        have : x = i := by simpa [st0, GTree.leaves] using hx
        rw [this]; exact hci
    · intro x hxn hcx
      refine ⟨x, hxn, rfl, ?_, by simp [st0, GTree.leaves]⟩
      intro y hy
      have : y = x := by simpa [st0, GTree.leaves] using hy
      rw [this]; exact hcx
    · intro i i' hi hi' hii' _ _ hCi hCi'
      rw [hdm0 i i' hi hi']
      exact hcc i i' hi hi' hii' (hleafC i hCi) (hleafC i' hCi')
    · intro i z hi hz _ _ hCi hRz
      rw [hdm0 i z hi hz, hdm0 z i hz hi]
      exact hcr i z hi hz (hleafC i hCi) (hleafR z hRz)
  obtain ⟨st, hit, hB, hI⟩ := rounds_step n c A H delta hδ hH (n - 1) 0 st0 (by omega) hB0 (Or.inl hP0)
  refine ⟨st.tree st.last, ?_, ?_⟩
  · simp only [upgmaExact, hn, if_false]
    show (iterOpt (exactRound n delta) (n - 1) st0).map (fun st => st.tree st.last) = _
    rw [hit]; rfl
  · have hcount : ((List.range n).filter st.act).length = 1 := by rw [hB.count]; omega
    have huniq := unique_active n st.act hcount
    rcases hI with hP | hP
    · -- everything was joined inside C: the whole tree is the clade
      have hall : ∀ x, x < n → c x = true → CType c (st.tree st.last) ∧ x ∈ (st.tree st.last).leaves := by
        intro x hxn hcx
        obtain ⟨i, hi, hai, hCi, hxi⟩ := hP.cover x hxn hcx
        have : i = st.last := huniq i st.last hi hB.last.1 hai hB.last.2
        rw [← this]; exact ⟨hCi, hxi⟩
      refine ⟨st.tree st.last, GTree.self_mem_subtrees _, fun x => ⟨fun hx => ?_, fun hx => (hall x hx.1 hx.2).2⟩⟩
      exact ⟨hB.lt st.last hB.last.1 hB.last.2 x hx, (hall x0 hx0n hcx0).1 x hx⟩
    · obtain ⟨i, hi, hai, s, hs, hls⟩ := hP
      have : i = st.last := huniq i st.last hi hB.last.1 hai hB.last.2
      rw [← this]
      exact ⟨s, hs, hls⟩

end Kalign
