import KalignModel.Lemmas.SoftProf3
import KalignModel.Lemmas.ProfTab
/-!
# binary32: the sequence–profile kernels on a profile of `k` identical copies are the sequence–sequence kernels on the
parameters multiplied by `(float)k` (slice AB, part 4)

`sp_realKernels_eqS`: for a `ProfOKS` profile, `realKernels ap (.seqprof prof seq2 k) = realKernels (scaleParamS ap k) (.seqseq seqA seq2)`
as `Kernels` objects — every cell formula agrees as a *function* of its float arguments (so also on NaN, `±0`, `±∞`, the sentinels):
`x + (−p) = x − p` is the same binary32 operation (`add_neg_eq_sub`), and the profile entries are the exact products
`half (s·k) = half s * (float)k` (`mul_half_ofNat`).
-/
set_option exponentiation.threshold 512
namespace Kalign
open SoftF32

theorem S_add_neg (x : SoftF32) {a : Int} (ha : a.natAbs < 16777216) :
    Score.add x (neg (half a)) = Score.sub x (half a) :=
  add_neg_eq_sub x _ (half_not_nan ha)

/-- the scaled parameter set in half units -/
theorem scaleParamS_half {U : Nat} {ap : AlnParam SoftF32} {go ge gt : Int} {sh : Nat → Nat → Int}
    (hh : HalfParam U ap go ge gt sh) {K : Nat} (hK1 : 1 ≤ K) (hK : K < 16777216) (hKU : K * U < 16777216) :
    (scaleParamS ap K).gpo = half (go * (K : Int)) ∧ (scaleParamS ap K).gpe = half (ge * (K : Int)) ∧
    (scaleParamS ap K).tgpe = half (gt * (K : Int)) ∧
    ∀ i j, (scaleParamS ap K).sub i j = half (sh i j * (K : Int)) := by
  have hm : ∀ g : Int, g.natAbs ≤ U → Score.mul (half g) (Score.ofNat K : SoftF32) = half (g * (K : Int)) := fun g gU =>
    mul_half_ofNat hK1 hK (natAbs_lt_of_le gU hK1 hKU) (natAbs_mul_lt gU hKU)
  refine ⟨?_, ?_, ?_, ?_⟩
  · show Score.mul ap.gpo (Score.ofNat K) = _
    rw [hh.gpo]; exact hm go hh.bo
  · show Score.mul ap.gpe (Score.ofNat K) = _
    rw [hh.gpe]; exact hm ge hh.be
  · show Score.mul ap.tgpe (Score.ofNat K) = _
    rw [hh.tgpe]; exact hm gt hh.bt
  · intro i j
    have e1 : (scaleParamS ap K).sub i j = Score.mul (ap.sub i j) (Score.ofNat K) :=
      sub_map ap.subm ap.gpo ap.gpe ap.tgpe _ _ _ (fun e => Score.mul e (Score.ofNat K)) (mul_zero_ofNat_S K hK1 hK) i j
    rw [e1, hh.sub]; exact hm _ (hh.bs i j)

/-- `MAX(gb+prof[28], ca+prof[27])` / `MAX(gb,ca)+prof[29]` on negated penalties = the sequence–sequence formula -/
theorem profGb_eqS (prof : Array SoftF32) (col : Nat) (apK : AlnParam SoftF32) (a b c : Int)
    (ha : a.natAbs < 16777216) (hb : b.natAbs < 16777216) (hc : c.natAbs < 16777216)
    (ho : apK.gpo = half a) (he : apK.gpe = half b) (ht : apK.tgpe = half c)
    (h27 : pget prof col 27 = neg (half a)) (h28 : pget prof col 28 = neg (half b))
    (h29 : pget prof col 29 = neg (half c)) (t : Bool) :
    profGb prof col t = ssGb apK t := by
  funext gb ca
  unfold profGb ssGb
  rw [h27, h28, h29, ho, he, ht, S_add_neg _ ha, S_add_neg _ hb, S_add_neg _ hc]

section sp
variable (U : Nat) (ap : AlnParam SoftF32) (go ge gt : Int) (sh : Nat → Nat → Int) (hh : HalfParam U ap go ge gt sh)
  (prof : Array SoftF32) (seqA seq2 : Array Nat) (k : Nat) (hk1 : 1 ≤ k) (hk : k < 16777216) (hkU : k * U < 16777216)
  (hP : ProfOKS prof seqA k 1 go ge gt sh) (h2 : ∀ j, seq2.getD j 0 < 23)

include hP in
theorem sp_gapsS (col : Nat) (hc : col ≤ seqA.size + 1) :
    pget prof col 27 = neg (half (go * (k : Int))) ∧ pget prof col 28 = neg (half (ge * (k : Int))) ∧
      pget prof col 29 = neg (half (gt * (k : Int))) := by
  have h1 := hP.g27 col hc
  have h2 := hP.g28 col hc
  have h3 := hP.g29 col hc
  simp only [Nat.mul_one] at h1 h2 h3
  exact ⟨h1, h2, h3⟩

include hh hk1 hk hkU hP h2 in
theorem spOpsF_agree (r : Rect) (p : Nat) (hrow : r.starta + p < seqA.size) :
    (spOpsF ap prof seq2 k r p).Agree (ssOpsF (scaleParamS ap k) seqA seq2 r p) := by
  obtain ⟨so, se, st, ss⟩ := scaleParamS_half hh hk1 hk hkU
  obtain ⟨g1, g2, g3⟩ := sp_gapsS go ge gt sh prof seqA k hP (r.starta + p + 1) (by omega)
  obtain ⟨g1', _, _⟩ := sp_gapsS go ge gt sh prof seqA k hP (r.starta + p) (by omega)
  have bo := natAbs_mul_lt hh.bo hkU
  have be := natAbs_mul_lt hh.be hkU
  have bt := natAbs_mul_lt hh.bt hkU
  refine ⟨?_, ?_, ?_, ?_, ?_⟩
  · exact profGb_eqS prof _ _ _ _ _ bo be bt so se st g1 g2 g3 _
  · intro k'
    funext pa pga pgb
    simp only [spOpsF, ssOpsF, spPen]
    rw [g1', hP.subE (r.starta + p) hrow _ (h2 _), ss, S_add_neg _ bo, ← so]
    rfl
  · rfl
  · exact profGb_eqS prof _ _ _ _ _ bo be bt so se st g1 g2 g3 false
  · exact profGb_eqS prof _ _ _ _ _ bo be bt so se st g1 g2 g3 _

include hh hk1 hk hkU hP h2 in
theorem spOpsB_agree (r : Rect) (p : Nat) (hp : p < r.enda - r.starta) (ha : r.enda ≤ seqA.size) :
    (spOpsB ap prof seq2 k r p).Agree (ssOpsB (scaleParamS ap k) seqA seq2 r p) := by
  obtain ⟨so, se, st, ss⟩ := scaleParamS_half hh hk1 hk hkU
  have hrow : r.starta + (r.enda - r.starta) - 1 - p < seqA.size := by omega
  obtain ⟨g1, g2, g3⟩ := sp_gapsS go ge gt sh prof seqA k hP (r.starta + (r.enda - r.starta) - 1 - p + 1) (by omega)
  obtain ⟨g1', _, _⟩ := sp_gapsS go ge gt sh prof seqA k hP (r.starta + (r.enda - r.starta) - 1 - p + 2) (by omega)
  have bo := natAbs_mul_lt hh.bo hkU
  have be := natAbs_mul_lt hh.be hkU
  have bt := natAbs_mul_lt hh.bt hkU
  refine ⟨?_, ?_, ?_, ?_, ?_⟩
  · exact profGb_eqS prof _ _ _ _ _ bo be bt so se st g1 g2 g3 _
  · intro k'
    funext pa pga pgb
    simp only [spOpsB, ssOpsB, spPen]
    rw [g1', hP.subE _ hrow _ (h2 _), ss, S_add_neg _ bo, ← so]
    rfl
  · rfl
  · exact profGb_eqS prof _ _ _ _ _ bo be bt so se st g1 g2 g3 false
  · exact profGb_eqS prof _ _ _ _ _ bo be bt so se st g1 g2 g3 _

include hh hk1 hk hkU hP h2 in
theorem spForward_eqS (r : Rect) (hb : r.startb < r.endb) (ha : r.enda ≤ seqA.size) (start : States SoftF32) :
    spForward ap prof seq2 k r start = ssForward (scaleParamS ap k) seqA seq2 r start := by
  rw [spForward_eq_genTab ap prof seq2 k r hb, ssForward_eq_genTab _ seqA seq2 r hb]
  congr 1
  exact genTab_congr_lt (ssGaInit (scaleParamS ap k) (r.startb == 0)) _ start _ _ (r.enda - r.starta)
    (fun p hp => spOpsF_agree U ap go ge gt sh hh prof seqA seq2 k hk1 hk hkU hP h2 r p (by omega)) _ (Nat.le_refl _)

include hh hk1 hk hkU hP h2 in
theorem spBackward_eqS (r : Rect) (hb : r.startb < r.endb) (ha : r.enda ≤ seqA.size) (start : States SoftF32) :
    spBackward ap prof seq2 k r start = ssBackward (scaleParamS ap k) seqA seq2 r start := by
  rw [spBackward_eq_genTab ap prof seq2 k r hb, ssBackward_eq_genTab _ seqA seq2 r hb]
  congr 2
  exact genTab_congr_lt (ssGaInit (scaleParamS ap k) (r.endb == r.lenB)) _ start _ _ (r.enda - r.starta)
    (fun p hp => spOpsB_agree U ap go ge gt sh hh prof seqA seq2 k hk1 hk hkU hP h2 r p hp ha) _ (Nat.le_refl _)

include hh hk1 hk hkU hP in
theorem spMeetOps_eqS (r : Rect) (mid : Nat) (hm : mid ≤ seqA.size) :
    spMeetOps ap prof k r mid = ssMeetOps (scaleParamS ap k) r := by
  obtain ⟨so, se, st, _⟩ := scaleParamS_half hh hk1 hk hkU
  obtain ⟨g1, g2, g3⟩ := sp_gapsS go ge gt sh prof seqA k hP (mid + 1) (by omega)
  obtain ⟨g1', _, _⟩ := sp_gapsS go ge gt sh prof seqA k hP mid (by omega)
  have bo := natAbs_mul_lt hh.bo hkU
  have be := natAbs_mul_lt hh.be hkU
  have bt := natAbs_mul_lt hh.bt hkU
  have e27 : ∀ x, Score.add x (pget prof (mid + 1) 27) = Score.sub x (scaleParamS ap k).gpo := fun x => by
    rw [g1, so, S_add_neg _ bo]
  have e28 : ∀ x, Score.add x (pget prof (mid + 1) 28) = Score.sub x (scaleParamS ap k).gpe := fun x => by
    rw [g2, se, S_add_neg _ be]
  have e29 : ∀ x, Score.add x (pget prof (mid + 1) 29) = Score.sub x (scaleParamS ap k).tgpe := fun x => by
    rw [g3, st, S_add_neg _ bt]
  have e27' : ∀ x, Score.add x (pget prof mid 27) = Score.sub x (scaleParamS ap k).gpo := fun x => by
    rw [g1', so, S_add_neg _ bo]
  unfold spMeetOps ssMeetOps
  simp only [e27, e28, e29, e27']
  rfl

include hh hk1 hk hkU hP h2 in
/-- **one step of the binary32 kernels on a profile of `k` copies and a sequence = one step of the sequence–sequence kernels with
all scores multiplied by `(float)k`** -/
theorem sp_realStep_eqS (lenB : Nat) :
    realStep ap (.seqprof prof seq2 k) seqA.size lenB =
      realStep (scaleParamS ap k) (.seqseq seqA seq2) seqA.size lenB := by
  funext f b sa mid ea sb eb
  unfold realStep
  by_cases hc : 0 ≤ sa ∧ sa ≤ mid ∧ mid ≤ ea ∧ ea ≤ (seqA.size : Int) ∧ 0 ≤ sb ∧ sb < eb ∧ eb ≤ (lenB : Int) ∧
      0 < f.size ∧ 0 < b.size
  · rw [if_pos hc, if_pos hc]
    obtain ⟨h0, h1, h2', h3, h4, h5, h6, _, _⟩ := hc
    have eF : kForward ap (.seqprof prof seq2 k) ⟨sa.toNat, mid.toNat, sb.toNat, eb.toNat, lenB⟩
          (f.getD 0 States.negInf) =
        kForward (scaleParamS ap k) (.seqseq seqA seq2) ⟨sa.toNat, mid.toNat, sb.toNat, eb.toNat, lenB⟩
          (f.getD 0 States.negInf) := by
      simp only [kForward]
      exact spForward_eqS U ap go ge gt sh hh prof seqA seq2 k hk1 hk hkU hP h2 _ (by show sb.toNat < eb.toNat; omega)
        (by show mid.toNat ≤ seqA.size; omega) _
    have eB : kBackward ap (.seqprof prof seq2 k) ⟨mid.toNat, ea.toNat, sb.toNat, eb.toNat, lenB⟩
          (b.getD 0 States.negInf) =
        kBackward (scaleParamS ap k) (.seqseq seqA seq2) ⟨mid.toNat, ea.toNat, sb.toNat, eb.toNat, lenB⟩
          (b.getD 0 States.negInf) := by
      simp only [kBackward]
      exact spBackward_eqS U ap go ge gt sh hh prof seqA seq2 k hk1 hk hkU hP h2 _ (by show sb.toNat < eb.toNat; omega)
        (by show ea.toNat ≤ seqA.size; omega) _
    have eM : ∀ fs bs, kMeetup ap (.seqprof prof seq2 k) ⟨sa.toNat, mid.toNat, sb.toNat, eb.toNat, lenB⟩ mid.toNat fs bs =
        kMeetup (scaleParamS ap k) (.seqseq seqA seq2) ⟨sa.toNat, mid.toNat, sb.toNat, eb.toNat, lenB⟩ mid.toNat
          fs bs := by
      intro fs bs
      simp only [kMeetup]
      rw [spMeetOps_eqS U ap go ge gt sh hh prof seqA k hk1 hk hkU hP _ mid.toNat (by omega)]
    simp only [eF, eB, eM]
  · rw [if_neg hc, if_neg hc]

include hh hk1 hk hkU hP h2 in
theorem sp_realKernels_eqS (lenB : Nat) :
    realKernels ap (.seqprof prof seq2 k) seqA.size lenB =
      realKernels (scaleParamS ap k) (.seqseq seqA seq2) seqA.size lenB := by
  unfold realKernels
  rw [sp_realStep_eqS U ap go ge gt sh hh prof seqA seq2 k hk1 hk hkU hP h2 lenB]

end sp
end Kalign
